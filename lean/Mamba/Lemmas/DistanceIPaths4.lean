import Mamba.Lemmas.DistanceIPaths2
import Mamba.Lemmas.DistanceIPaths3
import Mamba.Lemmas.DistanceCCModel2
/-!
# Lemmas for C10: the faithful model of `NumberOfInducedPaths` returns the reference counts
-/
namespace GDist
open GraphSpec Model

/-- entry `l` is computed by the DFS for the effective bound `M` (entry 1 is always computed) -/
def ipCond (M l : Nat) : Prop := l = 1 ∨ (2 ≤ l ∧ l ≤ M)
instance (M l : Nat) : Decidable (ipCond M l) := by unfold ipCond; infer_instance

theorem contrib_single (h : G) (M i l : Nat) :
    contrib h (goodInduced h) M [i] l = if ipCond M l then (ext h (goodInduced h) l [i]).length else 0 := by
  unfold contrib ipCond
  simp only [List.length_singleton]
  have : l + 1 - 1 = l := by omega
  rw [this]

theorem stackFuel_ge {n m : Nat} (hm : m ≤ n) : wtN m (m - 1) + 1 ≤ stackFuel n := by
  have h1 := wtN_le_pow m (m - 1)
  have h2 : (m + 1) ^ (m - 1) ≤ (n + 1) ^ (m - 1) := Nat.pow_le_pow_left (by omega) _
  have h3 : (n + 1) ^ (m - 1) ≤ (n + 1) ^ (n + 2) := Nat.pow_le_pow_right (by omega) (by omega)
  have h4 : (n + 1) ^ (n + 2) < (n + 2) ^ (n + 2) := Nat.pow_lt_pow_left (by omega) (by omega)
  unfold stackFuel
  omega

variable {g : G}

theorem ipStarts_spec {h : G} (hsym : ∀ u v, h.adj u v = h.adj v u) (M : Nat) (fuel : Nat)
    (hf : wtN h.n (h.n - 1) + 1 ≤ fuel) :
    ∀ (is : List Nat) (r : Array Nat), (∀ i ∈ is, i < h.n) → h.n ≤ r.size →
      ∃ r', ipStarts h (M : Int) fuel is r = .ok r' ∧ r'.size = r.size ∧
        ∀ l, lbl r' l = lbl r l + (is.map fun i => contrib h (goodInduced h) M [i] l).sum := by
  intro is
  induction is with
  | nil => intro r _ _; exact ⟨r, rfl, rfl, fun l => by simp⟩
  | cons i is ih =>
    intro r his hsize
    have hi := his i List.mem_cons_self
    have ok0 : RecOK h { p := [i], length := 0, banned := [i] } :=
      { ne := by simp, len := rfl, nd := by simp, rng := fun x hx => by simp at hx; subst hx; exact hi,
        ban := fun x => by simp }
    obtain ⟨r1, e1, hs1, hr1⟩ := ipLoop_spec hsym M fuel [{ p := [i], length := 0, banned := [i] }] r
      (fun P hP => by simp at hP; subst hP; exact ok0) hsize
      (by simp [wtP]; omega)
    obtain ⟨r2, e2, hs2, hr2⟩ := ih r1 (fun j hj => his j (List.mem_cons_of_mem _ hj)) (by omega)
    refine ⟨r2, by simp only [ipStarts, e1]; exact e2, by omega, fun l => ?_⟩
    rw [hr2 l, hr1 l]
    simp only [List.map_cons, List.sum_cons, List.map_nil, List.sum_nil]
    omega

/-- the component lists the flood fill produces: duplicate-free, in range, closed under adjacency -/
structure GoodCom (g : G) (com : List Nat) : Prop where
  nd : com.Nodup
  rng : ∀ x ∈ com, x < g.n
  closed : ∀ a ∈ com, ∀ b, g.adj a b = true → b < g.n → b ∈ com

theorem getD_eq_getElem' {l : List Nat} {i : Nat} (h : i < l.length) : l.getD i 0 = l[i] :=
  (List.getElem_eq_getD (h := h) 0).symm

theorem goodCom_emb {com : List Nat} (gc : GoodCom g com) : Emb g (g.induced com) (fun i => com.getD i 0) := by
  refine { inj := ?_, rng := ?_, adj := ?_, closed := ?_ }
  · intro a b ha hb hab
    have ha' : a < com.length := ha
    have hb' : b < com.length := hb
    simp only [getD_eq_getElem' ha', getD_eq_getElem' hb'] at hab
    exact (gc.nd.getElem_inj_iff).1 hab
  · intro a ha
    have ha' : a < com.length := ha
    simp only [getD_eq_getElem' ha']
    exact gc.rng _ (List.getElem_mem ha')
  · intro a b ha hb
    have ha' : a < com.length := ha
    have hb' : b < com.length := hb
    simp [G.induced, ha', hb']
  · intro a w' ha hw' hadj
    have ha' : a < com.length := ha
    simp only [getD_eq_getElem' ha'] at hadj
    have := gc.closed _ (List.getElem_mem ha') w' hadj hw'
    obtain ⟨k, hk, rfl⟩ := List.mem_iff_getElem.1 this
    exact ⟨k, hk, getD_eq_getElem' hk⟩

theorem induced_symm (hsym : ∀ u v, g.adj u v = g.adj v u) (com : List Nat) :
    ∀ u v, (g.induced com).adj u v = (g.induced com).adj v u := by
  intro u v
  simp only [G.induced]
  rw [hsym (com.getD u 0)]
  cases decide (u < com.length) <;> cases decide (v < com.length) <;> simp

theorem sum_range_getD (com : List Nat) (F : Nat → Nat) :
    ((List.range com.length).map fun i => F (com.getD i 0)).sum = (com.map F).sum := by
  congr 1
  apply List.ext_getElem
  · simp
  · intro i h1 h2
    simp only [List.getElem_map, List.getElem_range]
    rw [getD_eq_getElem' (by simpa using h1)]

/-- number of directed induced path sequences with `l` edges starting in `s` -/
def dirFrom (g : G) (l s : Nat) : Nat := (pathsFrom g (goodInduced g) s l).length

theorem ipComps_spec (hsym : ∀ u v, g.adj u v = g.adj v u) (M : Nat) (fuel : Nat) (hf : stackFuel g.n ≤ fuel) :
    ∀ (coms : List (List Nat)) (r : Array Nat), (∀ c ∈ coms, GoodCom g c) → g.n ≤ r.size →
      ∃ r', ipComps g (M : Int) fuel coms r = .ok r' ∧ r'.size = r.size ∧
        ∀ l, lbl r' l = lbl r l + (if ipCond M l then (coms.flatten.map (dirFrom g l)).sum else 0) := by
  intro coms
  induction coms with
  | nil => intro r _ _; exact ⟨r, rfl, rfl, fun l => by simp⟩
  | cons com coms ih =>
    intro r hgood hsize
    have gc := hgood com List.mem_cons_self
    have hlen : com.length ≤ g.n := by
      have := (List.subperm_of_subset gc.nd (fun x hx => List.mem_range.2 (gc.rng x hx))).length_le
      simpa using this
    have hn : (g.induced com).n = com.length := rfl
    obtain ⟨r1, e1, hs1, hr1⟩ := ipStarts_spec (induced_symm hsym com) M fuel
      (by rw [hn]; exact Nat.le_trans (stackFuel_ge hlen) hf)
      (List.range (g.induced com).n) r (fun i hi => List.mem_range.1 hi) (by rw [hn]; omega)
    obtain ⟨r2, e2, hs2, hr2⟩ := ih r1 (fun c hc => hgood c (List.mem_cons_of_mem _ hc)) (by omega)
    refine ⟨r2, by simp only [ipComps, e1]; exact e2, by omega, fun l => ?_⟩
    rw [hr2 l, hr1 l]
    have emb := goodCom_emb gc
    have hstart : ((List.range (g.induced com).n).map fun i =>
        contrib (g.induced com) (goodInduced (g.induced com)) M [i] l).sum
        = if ipCond M l then (com.map (dirFrom g l)).sum else 0 := by
      by_cases hc : ipCond M l
      · simp only [hc, if_true]
        rw [← sum_range_getD com (dirFrom g l), hn]
        congr 1
        apply List.map_congr_left
        intro i hi
        have hi' : i < (g.induced com).n := by rw [hn]; exact List.mem_range.1 hi
        rw [contrib_single, if_pos hc]
        have := ext_length_map emb l [i] (by simp) (fun x hx => by simp at hx; subst hx; exact hi')
        rw [← this]
        simp only [List.map_cons, List.map_nil, dirFrom]
        rw [pathsFrom_eq_ext g _ (emb.rng i hi')]
      · simp only [hc, if_false]
        apply List.sum_eq_zero
        intro x hx
        obtain ⟨i, _, rfl⟩ := List.mem_map.1 hx
        rw [contrib_single, if_neg hc]
    rw [hstart]
    by_cases hc : ipCond M l
    · simp only [hc, if_true, List.flatten_cons, List.map_append, List.sum_append]; omega
    · simp [hc]

/-- the reference components are good component lists and their concatenation is a permutation of the vertices -/
theorem components_good (g : G) (hsym : ∀ u v, g.adj u v = g.adj v u) :
    (∀ c ∈ components g, GoodCom g c) ∧ (components g).flatten.Perm (List.range g.n) := by
  have hV : ∀ r ∈ List.range g.n, r ∈ List.range g.n := fun _ h => h
  have hcl : ∀ x ∈ ([] : List Nat), ∀ y, ReachIn g (List.range g.n) x y → y ∈ ([] : List Nat) :=
    fun x hx => by cases hx
  obtain ⟨h1, h2, _, h4⟩ := componentsFrom_spec hsym (List.range g.n) [] hV hcl
  have hgood : ∀ c ∈ components g, GoodCom g c := by
    intro c hc
    obtain ⟨s, _, _, rfl⟩ := h1 c hc
    refine { nd := List.nodup_range.sublist (componentIn_sublist g _ s),
             rng := fun x hx => List.mem_range.1 (mem_componentIn.1 hx).mem_V, closed := ?_ }
    intro a ha b hadj hb
    obtain ⟨k, hk⟩ := mem_componentIn.1 ha
    exact mem_componentIn.2 ⟨k + 1, .step hk hadj (List.mem_range.2 hb)⟩
  refine ⟨hgood, ?_⟩
  have hnd : (components g).flatten.Nodup := by
    rw [List.nodup_flatten]
    refine ⟨fun c hc => (hgood c hc).nd, ?_⟩
    exact h4.imp (fun {a b} hab => List.disjoint_left.2 (fun x hx => hab x hx))
  refine (List.perm_ext_iff_of_nodup hnd List.nodup_range).2 ?_
  intro x
  rw [List.mem_flatten, List.mem_range]
  constructor
  · rintro ⟨c, hc, hx⟩; exact (hgood c hc).rng x hx
  · intro hx
    rcases h2 x (List.mem_range.2 hx) with h | ⟨c, hc, hxc⟩
    · cases h
    · exact ⟨c, hc, hxc⟩

theorem numInducedPaths_zero (g : G) : numInducedPaths g 0 = g.n := by
  unfold numInducedPaths canonInducedPaths
  rw [length_flatMap_sum]
  have : ((List.range g.n).map fun s =>
      ((pathsFrom g (goodInduced g) s 0).filter fun p => (0 : Nat) == 0 || decide (s < p.headD 0)).length)
      = (List.range g.n).map fun _ => 1 := by
    apply List.map_congr_left
    intro s hs
    simp [pathsFrom, List.mem_range.1 hs]
  rw [this]
  simp

theorem dirFrom_sum (g : G) (l : Nat) : ((List.range g.n).map (dirFrom g l)).sum = (allInducedPaths g l).length := by
  unfold allInducedPaths dirFrom
  rw [length_flatMap_sum]

/-- **the faithful model of `NumberOfInducedPaths` returns the reference counts**: entry `l` is the number of
induced paths with `l` edges for `l ≤ max (effective bound) 1`, and `0` beyond -/
theorem numberOfInducedPaths_eq (g : G) (hsym : ∀ u v, g.adj u v = g.adj v u) (b : Int) (fuel : Nat)
    (hf : stackFuel g.n ≤ fuel) :
    Model.numberOfInducedPaths g b fuel =
      .ok ((List.range g.n).map fun l => if l ≤ max (pathBound g b) 1 then numInducedPaths g l else 0) := by
  unfold Model.numberOfInducedPaths
  by_cases hn : g.n = 0
  · simp [hn]
  simp only [hn, if_false]
  obtain ⟨cs, ecs, hperm⟩ := connectedComponents_perm g hsym (g.n + 1) (Nat.le_refl _)
  rw [ecs]
  simp only
  obtain ⟨hgood, hflat⟩ := components_good g hsym
  have hgood' : ∀ c ∈ cs, GoodCom g c := fun c hc => hgood c (hperm.mem_iff.1 hc)
  have hflat' : cs.flatten.Perm (List.range g.n) := (List.Perm.flatten hperm).trans hflat
  -- the normalised bound
  have hM : (if b < 0 ∨ b > (g.n : Int) - 1 then (g.n : Int) - 1 else b) = ((pathBound g b : Nat) : Int) := by
    unfold pathBound
    by_cases hb : b < 0 ∨ b > (g.n : Int) - 1
    · have : (b < 0 || b > (g.n : Int) - 1) = true := by simpa using hb
      simp only [hb, if_true, this]
      omega
    · have : (b < 0 || b > (g.n : Int) - 1) = false := by simpa using hb
      simp only [hb, if_false, this, Bool.false_eq_true]
      omega
  rw [hM]
  obtain ⟨r, er, hsz, hr⟩ := ipComps_spec hsym (pathBound g b) fuel hf cs (Array.replicate g.n 0) hgood' (by simp)
  rw [er]
  simp only
  congr 1
  apply List.map_congr_left
  intro l hl
  have hln := List.mem_range.1 hl
  by_cases hl0 : l = 0
  · subst hl0
    simp [numInducedPaths_zero]
  simp only [hl0, if_false]
  have hlbl : r.getD l 0 = lbl r l := rfl
  rw [hlbl, hr l]
  have hz : lbl (Array.replicate g.n 0) l = 0 := by
    unfold lbl; simp [Array.getD, hln]
  rw [hz, Nat.zero_add]
  have hcond : ipCond (pathBound g b) l ↔ l ≤ max (pathBound g b) 1 := by
    unfold ipCond; omega
  by_cases hc : ipCond (pathBound g b) l
  · rw [if_pos hc, if_pos (hcond.1 hc)]
    have : (cs.flatten.map (dirFrom g l)).sum = ((List.range g.n).map (dirFrom g l)).sum :=
      (hflat'.map _).sum_eq
    rw [this, dirFrom_sum, allInducedPaths_length hsym (by omega)]
    omega
  · rw [if_neg hc, if_neg (fun h => hc (hcond.2 h))]

end GDist
