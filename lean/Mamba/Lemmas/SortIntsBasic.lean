import Mamba.Lemmas.SortIntsAlgebra
/-! Lemmas for C17: `Complement`, `sort.SearchInts`, `ContainsSingle`, slice helpers, `Remove`. -/
set_option linter.unusedTactic false
set_option linter.unreachableTactic false
set_option linter.unnecessarySeqFocus false
namespace SortInts

theorem mem_complementTail (n i x : Int) : x ∈ complementTail n i ↔ i ≤ x ∧ x < n := by
  fun_induction complementTail n i <;> simp_all <;> grind

theorem complementTail_sorted (n i : Int) : SS (complementTail n i) := by
  fun_induction complementTail n i <;> simp_all [mem_complementTail] <;> grind

theorem mem_complementLoop (n i : Int) (a : List Int) (ha : SS a) (x : Int) :
    x ∈ complementLoop n i a ↔ i ≤ x ∧ x < n ∧ x ∉ a := by
  fun_induction complementLoop n i a <;> simp_all [mem_complementTail] <;> grind

theorem complementLoop_sorted (n i : Int) (a : List Int) (ha : SS a) : SS (complementLoop n i a) := by
  fun_induction complementLoop n i a <;> simp_all [mem_complementLoop, complementTail_sorted] <;> grind

end SortInts

namespace SortInts

theorem searchInts_le (a : List Int) (x : Int) : searchInts a x ≤ a.length := by
  unfold searchInts; exact List.findIdx_le_length

/-- every element before the insertion point is smaller -/
theorem lt_of_lt_searchInts (a : List Int) (x : Int) (i : Nat) (h : i < searchInts a x) (hi : i < a.length) :
    a[i] < x := by
  have := List.not_of_lt_findIdx (p := fun v => decide (x ≤ v)) (xs := a) h
  simpa using this

/-- on a sorted list every element from the insertion point on is at least `x` -/
theorem ge_of_searchInts_le (a : List Int) (ha : SS a) (x : Int) (i : Nat) (h : searchInts a x ≤ i) (hi : i < a.length) :
    x ≤ a[i] := by
  have hlt : searchInts a x < a.length := by omega
  have h0 : x ≤ a[searchInts a x] := by
    have := List.findIdx_getElem (p := fun v => decide (x ≤ v)) (xs := a) (w := hlt)
    exact of_decide_eq_true this
  rcases Nat.eq_or_lt_of_le h with h | h
  · subst h; exact h0
  · have := List.pairwise_iff_getElem.mp ha (searchInts a x) i hlt hi h
    omega

theorem getI_natCast (a : List Int) (i : Nat) : getI a (i : Int) = a[i]? := by
  simp [getI]

theorem mem_iff_searchInts (a : List Int) (ha : SS a) (x : Int) :
    x ∈ a ↔ (searchInts a x < a.length ∧ a[searchInts a x]? = some x) := by
  constructor
  · intro hx
    obtain ⟨i, hi, rfl⟩ := List.getElem_of_mem hx
    have h1 : ¬ i < searchInts a a[i] := fun h => by
      have := lt_of_lt_searchInts a a[i] i h hi; omega
    have hlt : searchInts a a[i] < a.length := by omega
    refine ⟨hlt, ?_⟩
    rcases Nat.eq_or_lt_of_le (Nat.le_of_not_lt h1) with h | h
    · simp [h]
    · have h2 := List.pairwise_iff_getElem.mp ha _ _ hlt hi h
      have h3 := ge_of_searchInts_le a ha a[i] (searchInts a a[i]) (Nat.le_refl _) hlt
      omega
  · rintro ⟨h, he⟩
    exact List.mem_of_getElem? he

theorem containsSingle_iff (a : List Int) (ha : SS a) (x : Int) : containsSingle a x = true ↔ x ∈ a := by
  rw [mem_iff_searchInts a ha x]
  simp [containsSingle, getI_natCast]

end SortInts
namespace SortInts

theorem sliceI_nat (a : List Int) (lo hi : Nat) (h : lo ≤ hi) (h2 : hi ≤ a.length) :
    sliceI a lo hi = some ((a.drop lo).take (hi - lo)) := by
  simp [sliceI]; omega

theorem sliceI_zero_nat (a : List Int) (hi : Nat) (h2 : hi ≤ a.length) :
    sliceI a 0 hi = some (a.take hi) := by
  simp [sliceI]; omega

theorem copyI_nat (dst : List Int) (lo hi : Nat) (src : List Int) (h : lo ≤ hi) (h2 : hi ≤ dst.length) :
    copyI dst lo hi src =
      some (dst.take lo ++ src.take (min (hi - lo) src.length) ++ dst.drop (lo + min (hi - lo) src.length)) := by
  simp [copyI]; omega

theorem split_at_index (s : List Int) (i : Nat) (h : i < s.length) :
    s = s.take i ++ s[i] :: s.drop (i+1) := by
  simp

theorem remove_eq_of_mem (s : List Int) (x : Int) (i : Nat) (hi : i < s.length) (hs : searchInts s x = i)
    (hx : s[i] = x) : remove s x = .ok (s.take i ++ s.drop (i+1)) := by
  unfold remove
  simp only [hs]
  have h1 : ((i : Int) < (s.length : Int) ∧ getI s (i : Int) = some x) := by
    refine ⟨by omega, ?_⟩
    simp [getI, hi, hx]
  simp only [h1, and_self, if_true]
  have e1 : ((i : Int) + 1) = ((i + 1 : Nat) : Int) := by omega
  rw [e1, sliceI_nat s (i+1) s.length (by omega) (Nat.le_refl _)]
  simp only
  rw [copyI_nat s i s.length _ (by omega) (Nat.le_refl _)]
  simp only
  have hl : ((List.drop (i + 1) s).take (s.length - (i+1))).length = s.length - (i+1) := by
    simp
  have e2 : ((i : Int) + min ((s.length : Int) - (i : Int)) ((List.take (s.length - (i + 1)) (List.drop (i + 1) s)).length : Int))
      = ((s.length - 1 : Nat) : Int) := by
    rw [hl]; omega
  rw [e2]
  have : min (s.length - i) (s.length - (i + 1)) = s.length - (i+1) := by omega
  rw [hl, this]
  rw [sliceI_zero_nat _ (s.length - 1) (by simp; omega)]
  simp only [Outcome.ok.injEq]
  rw [List.take_of_length_le (l := List.drop (i + 1) s) (by simp)]
  rw [List.take_of_length_le (l := List.drop (i + 1) s) (by simp)]
  rw [List.take_append_of_le_length (by simp; omega)]
  apply List.take_of_length_le
  simp; omega

end SortInts

namespace SortInts

theorem remove_result (s : List Int) (hs : SS s) (x : Int) :
    ∃ r, remove s x = .ok r ∧ SS r ∧ ∀ y, y ∈ r ↔ (y ∈ s ∧ y ≠ x) := by
  by_cases hx : x ∈ s
  · obtain ⟨hlt, he⟩ := (mem_iff_searchInts s hs x).mp hx
    have hget : s[searchInts s x] = x := by
      have := List.getElem?_eq_getElem hlt
      rw [this] at he; exact Option.some.inj he
    refine ⟨_, remove_eq_of_mem s x _ hlt rfl hget, ?_, ?_⟩
    · have hsub : (s.take (searchInts s x) ++ s.drop (searchInts s x + 1)).Sublist s := by
        rw [← List.eraseIdx_eq_take_drop_succ]; exact List.eraseIdx_sublist _ _
      exact List.Pairwise.sublist hsub hs
    · intro y
      have hsplit := split_at_index s (searchInts s x) hlt
      rw [hget] at hsplit
      have hs' := hs
      rw [hsplit] at hs'
      rw [SS, List.pairwise_append] at hs'
      obtain ⟨_, h2, h3⟩ := hs'
      rw [List.pairwise_cons] at h2
      constructor
      · intro hy
        rcases List.mem_append.mp hy with hy | hy
        · exact ⟨List.mem_of_mem_take hy, by have := h3 y hy x (by simp); omega⟩
        · exact ⟨List.mem_of_mem_drop hy, by have := h2.1 y hy; omega⟩
      · rintro ⟨hy, hne⟩
        rw [hsplit] at hy
        simp only [List.mem_append, List.mem_cons] at hy ⊢
        tauto
  · refine ⟨s, ?_, hs, fun y => ⟨fun h => ⟨h, fun e => hx (e ▸ h)⟩, fun h => h.1⟩⟩
    unfold remove
    have : ¬ (((searchInts s x : Nat) : Int) < (s.length : Int) ∧ getI s (searchInts s x : Nat) = some x) := by
      rintro ⟨h1, h2⟩
      rw [getI_natCast] at h2
      exact hx ((mem_iff_searchInts s hs x).mpr ⟨by omega, h2⟩)
    simp only [this, if_false]

end SortInts
