import Mamba.Lemmas.TermInv
namespace Search
open Disjoint GSearch GraphSpec

variable {O : Oracle} {n : Nat}

theorem run_total (hO : OracleSpec O n) (pre pr : DG → Bool) (N : Nat) :
    ∀ (mode : Mode) (s : State), TInv O n mode s → Phi n mode s < N →
      ∃ s' b, run O pre pr N mode s = .ok (s', b) ∧
        (b = true → TInv O n (.outer true false) s' ∧ Phi n (.outer true false) s' < Phi n mode s) ∧
        (b = false → s'.choices.size = 0) := by
  induction N with
  | zero => intro _ _ _ h; exact absurd h (Nat.not_lt_zero _)
  | succ N ih =>
    intro mode s hi hN
    -- wrap the induction hypothesis
    have step : ∀ (mode' : Mode) (s1 : State), TInv O n mode' s1 → Phi n mode' s1 < Phi n mode s →
        ∃ s' b, run O pre pr N mode' s1 = .ok (s', b) ∧
          (b = true → TInv O n (.outer true false) s' ∧ Phi n (.outer true false) s' < Phi n mode s) ∧
          (b = false → s'.choices.size = 0) := by
      intro mode' s1 hi1 hlt
      obtain ⟨s', b, h1, h2, h3⟩ := ih mode' s1 hi1 (by omega)
      exact ⟨s', b, h1, fun hb => ⟨(h2 hb).1, Nat.lt_trans (h2 hb).2 hlt⟩, h3⟩
    match mode, hi, hN, step with
    | .outer true sf, hi, hN, step =>
      rw [run_outer]; simp only [Bool.not_true, Bool.false_eq_true, if_false]
      exact step (.step sf) s ⟨hi.hn, hi.hm, hi.hL, hi.built, hi.nv, hi.seg, (fun h => by cases h), (fun h => by cases h)⟩
        (by simp only [Phi]; omega)
    | .outer false sf, hi, hN, step =>
      rw [run_outer]; simp only [Bool.not_false, if_true]
      have hnv : s.g.nv = s.currentPath.size + 1 := by simpa [Mode.eff] using hi.nv
      have hL := hi.hL
      have hW := Wt_six (n := n) (v := s.currentPath.size) (by omega)
      by_cases he : s.g.nv = s.n
      · rw [if_pos he]
        refine ⟨s, true, rfl, fun _ =>
          ⟨⟨hi.hn, hi.hm, hi.hL, hi.built, hi.nv, hi.seg, (fun h => by cases h), (fun h => by cases h)⟩, ?_⟩,
          (fun h => by cases h)⟩
        simp only [Phi]; omega
      · rw [if_neg he]
        have hlt : s.g.nv < n := by have := hi.hn; omega
        have hc := hi.cache rfl
        obtain ⟨new0, c0, h0⟩ := addAugmentations_total hO hi.built hlt hc s.choices
        obtain ⟨new, hch, hnum, hall⟩ := addAugmentations_append O n s.g s.cache s.choices h0
        have hE := hall #[]
        rw [Array.empty_append] at hE
        have hsz := aug_size_le hO hi.built hlt hc hE
        have hr := aug_range_of_oracle hO hi.built hlt hc hE
        have h0' : addAugmentations O s.n s.g s.choices s.cache = .ok (s.choices ++ new, c0, new.size) := by
          rw [hi.hn]; exact hall s.choices
        rw [h0']
        simp only
        have hWs := Wt_step (n := n) (v := s.currentPath.size) (by omega)
        refine step (.step true) _ ⟨hi.hn, hi.hm, ?_, hi.built, ?_, ?_, (fun h => by cases h), (fun h => by cases h)⟩ ?_
        · simp only [Array.size_push]; omega
        · simp only [Mode.eff, if_true, Array.size_push]; exact hnv
        · simp only [cpsOf, topList_push, topList_append]
          have := SegT.push (new := topList new) hi.seg (by
            intro x hx v hv
            have hx' : x ∈ new.toList := by simpa [topList] using hx
            have := hr x hx' v hv
            simp only [cpsOf, topList_length]; omega)
          rw [topList_length] at this
          exact this
        · simp only [Phi, topList_push, SumW, Array.size_push, topList_length]
          have : new.size * Wt n (s.currentPath.size + 1) ≤ 2 ^ n * Wt n (s.currentPath.size + 1) :=
            Nat.mul_le_mul_right _ (Nat.le_trans hsz (Nat.pow_le_pow_right (by decide) (by omega)))
          omega
    | .step sf, hi, hN, step =>
      rw [run_step]
      by_cases hz : s.choices.size = 0
      · rw [if_pos hz]; exact ⟨s, false, rfl, (fun h => by cases h), fun _ => hz⟩
      · rw [if_neg hz]
        have hne : topList s.choices ≠ [] := by rw [Ne, topList_eq_nil]; exact hz
        have hseg : SegT (topList s.currentPath) (topList s.choices) := hi.seg
        cases hcp : topList s.currentPath with
        | nil => rw [hcp] at hseg; exact absurd hseg hne
        | cons cp rest =>
          have hb : s.currentPath.back? = some cp := by rw [back?_eq_head?, hcp]; rfl
          rw [hb]; simp only
          refine step (.inner sf cp) s ⟨hi.hn, hi.hm, hi.hL, hi.built, hi.nv, ?_, (fun h => by cases h), fun _ => ?_⟩ ?_
          · simp only [cpsOf, hcp, List.tail_cons]; rw [hcp] at hseg; exact hseg
          · have := topList_length s.currentPath; rw [hcp] at this; simp at this; omega
          · simp only [Phi, hcp, List.tail_cons]; omega
    | .inner sf 0, hi, hN, step =>
      rw [run_inner_zero]
      have hpos := hi.pos rfl
      obtain ⟨s1, h1, e1, e2, e3, e4, e5, hb1, hnv1⟩ := parent_step (sf := sf) hi.built hi.nv hpos
      rw [h1]; simp only
      rw [if_neg (by rw [e5]; omega)]
      have hseg : SegT (0 :: (topList s.currentPath).tail) (topList s.choices) := hi.seg
      refine step (.step false) _ ⟨e1.trans hi.hn, e3 ▸ hi.hm, ?_, hb1, ?_, ?_, (fun h => by cases h), (fun h => by cases h)⟩ ?_
      · simp only [Array.size_pop, e5]; have := hi.hL; omega
      · simp only [Mode.eff, Bool.false_eq_true, if_false, Array.size_pop, e5]; omega
      · simp only [cpsOf, topList_pop, e5, e4]; exact hseg.zero
      · simp only [Phi, topList_pop, e5, Array.size_pop, SumW, Nat.zero_mul, Nat.zero_add]; omega
    | .inner sf (i + 1), hi, hN, step =>
      rw [run_inner_succ]
      have hpos := hi.pos rfl
      have hseg : SegT ((i + 1) :: (topList s.currentPath).tail) (topList s.choices) := hi.seg
      cases hch : topList s.choices with
      | nil => exact absurd hch hseg.ne_nil
      | cons x chs =>
        have hb : s.choices.back? = some x := by rw [back?_eq_head?, hch]; rfl
        rw [hch] at hseg
        obtain ⟨hseg0, hx⟩ := hseg.pop
        rw [hb]; simp only
        rw [if_neg (by have := hi.hm; omega)]
        have hlen : (topList s.currentPath).tail.length + 1 = s.currentPath.size := by
          rw [List.length_tail, topList_length]; omega
        have hWp : 1 ≤ Wt n s.currentPath.size := Nat.pow_pos (Nat.succ_pos _)
        have hPhi : Phi n (.inner sf (i + 1)) s =
            SumW n (i :: (topList s.currentPath).tail) + 2 * s.currentPath.size + Wt n s.currentPath.size := by
          simp only [Phi, SumW, hlen, Nat.add_mul, Nat.one_mul]; omega
        set s0 : State := { s with choices := s.choices.pop } with hs0
        have hi0 : ∀ sf', (if sf' then s.currentPath.size else s.currentPath.size + 1) = s.g.nv →
            TInv O n (.inner sf' i) s0 := fun sf' e =>
          ⟨hi.hn, hi.hm, hi.hL, hi.built, e.symm, by
            simp only [cpsOf, hs0, topList_pop, hch, List.tail_cons]; exact hseg0, (fun h => by cases h), fun _ => hpos⟩
        split
        · exact step (.inner sf i) s0 (hi0 sf hi.nv.symm) (by rw [hPhi]; simp only [Phi, hs0]; omega)
        · obtain ⟨s1, h1, e1, e2, e3, e4, e5, hb1, hnv1⟩ := parent_step (s := s0) (sf := sf) hi.built hi.nv hpos
          rw [h1]; simp only
          have hx' : ∀ v ∈ bitsOf x, v < s1.g.nv := by
            intro v hv; have := hx v hv; rw [hnv1]; show v < s.currentPath.size; omega
          obtain ⟨g2, hg2⟩ := addVertex_ok hb1.sized hx'
          have hb2 : Built g2 := Built.child hb1 hx' hg2
          have hnv2 : g2.nv = s.currentPath.size + 1 := by rw [addVertex_nv hg2, hnv1]
          rw [hg2]; simp only
          have hseg1 : SegT (i :: (topList s.currentPath).tail) (topList s1.choices) := by
            rw [e4]; simp only [hs0, topList_pop, hch, List.tail_cons]; exact hseg0
          have hcp1 : s1.currentPath = s.currentPath := e5
          split
          · refine step (.inner false i) _ ⟨e1.trans hi.hn, e3 ▸ hi.hm, hcp1 ▸ hi.hL, hb2, ?_, ?_, (fun h => by cases h),
              fun _ => hcp1 ▸ hpos⟩ ?_
            · simp only [Mode.eff, Bool.false_eq_true, if_false, hcp1]; exact hnv2
            · simp only [cpsOf, hcp1]; exact hseg1
            · rw [hPhi]; simp only [Phi, hcp1]; omega
          · obtain ⟨c, b, hcan⟩ := isCanonical_total hO hb2 (by rw [hnv2]; exact hi.hL) (aug := bitsOf x)
              (fun v hv => by rw [addVertex_nv hg2]; have := hx' v hv; omega)
            have hcan' : isCanonical O s1.n g2 (bitsOf x) none = .ok (c, b) := by rw [e1, hi.hn]; exact hcan
            rw [hcan']; simp only
            split
            · rename_i hacc
              rw [if_neg (by rw [hcp1]; omega)]
              have hbt : b = true := by
                cases b with
                | true => rfl
                | false => simp at hacc
              subst hbt
              refine step (.outer false false) _ ⟨e1.trans hi.hn, e3 ▸ hi.hm, ?_, hb2, ?_, ?_, fun _ => ?_,
                (fun h => by cases h)⟩ ?_
              · simp only [Array.size_setIfInBounds, hcp1]; exact hi.hL
              · simp only [Mode.eff, Bool.false_eq_true, if_false, Array.size_setIfInBounds, hcp1]; exact hnv2
              · simp only [cpsOf, hcp1]
                rw [topList_set_last _ _ (by omega)]
                exact hseg1
              · exact Or.inr ⟨s1.g, x, hb1, hx', hg2, hcan⟩
              · rw [hPhi]; simp only [Phi, hcp1, Array.size_setIfInBounds]
                rw [topList_set_last _ _ (by omega)]
                omega
            · refine step (.inner false i) _ ⟨e1.trans hi.hn, e3 ▸ hi.hm, hcp1 ▸ hi.hL, hb2, ?_, ?_, (fun h => by cases h),
                fun _ => hcp1 ▸ hpos⟩ ?_
              · simp only [Mode.eff, Bool.false_eq_true, if_false, hcp1]; exact hnv2
              · simp only [cpsOf, hcp1]; exact hseg1
              · rw [hPhi]; simp only [Phi, hcp1]; omega

end Search
