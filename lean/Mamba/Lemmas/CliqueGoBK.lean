import Mamba.Model.CliqueGo
import Mamba.Lemmas.CliqueColourBasic
/-! Correctness of the faithful Bron–Kerbosch model (`Model/CliqueGo.lean`): generic list lemmas, frames, pivot. -/
namespace CliqueColour
open GraphSpec

/-! ### generic list lemmas -/

theorem filter_partition {α : Type} (L : List α) (p q1 q2 : α → Bool)
    (h : ∀ x ∈ L, p x = (q1 x || q2 x)) (hd : ∀ x ∈ L, ¬ (q1 x = true ∧ q2 x = true)) :
    (L.filter p).Perm (L.filter q1 ++ L.filter q2) := by
  induction L with
  | nil => simp
  | cons a t ih =>
    have iht := ih (fun x hx => h x (List.mem_cons_of_mem _ hx)) (fun x hx => hd x (List.mem_cons_of_mem _ hx))
    have ha := h a List.mem_cons_self
    have hda := hd a List.mem_cons_self
    cases h1 : q1 a <;> cases h2 : q2 a
    · simp only [List.filter_cons, ha, h1, h2, Bool.or_self, Bool.false_eq_true, if_false]; exact iht
    · simp only [List.filter_cons, ha, h1, h2, Bool.false_or, if_true, Bool.false_eq_true, if_false]
      exact (List.Perm.cons a iht).trans List.perm_middle.symm
    · simp only [List.filter_cons, ha, h1, h2, Bool.or_false, if_true, Bool.false_eq_true, if_false,
        List.cons_append]
      exact List.Perm.cons a iht
    · exact absurd ⟨h1, h2⟩ hda

theorem filter_congr_mem {α : Type} {L : List α} {p q : α → Bool} (h : ∀ x ∈ L, p x = q x) :
    L.filter p = L.filter q := List.filter_congr h

theorem filter_eq_singleton {α : Type} [DecidableEq α] {L : List α} {p : α → Bool} {a : α} (hn : L.Nodup)
    (ha : a ∈ L) (h : ∀ x ∈ L, p x = true ↔ x = a) : L.filter p = [a] := by
  induction L with
  | nil => cases ha
  | cons b t ih =>
    have hb := List.nodup_cons.1 hn
    by_cases hba : b = a
    · subst hba
      have h1 : p b = true := (h b List.mem_cons_self).2 rfl
      have h2 : t.filter p = [] := by
        rw [List.filter_eq_nil_iff]
        intro x hx hpx
        have := (h x (List.mem_cons_of_mem _ hx)).1 hpx
        subst this
        exact hb.1 hx
      simp [h1, h2]
    · have h1 : ¬ p b = true := fun hp => hba ((h b List.mem_cons_self).1 hp)
      have hat : a ∈ t := by
        rcases List.mem_cons.1 ha with h' | h'
        · exact absurd h'.symm hba
        · exact h'
      simp only [List.filter_cons, h1]
      exact ih hb.2 hat (fun x hx => h x (List.mem_cons_of_mem _ hx))

theorem length_filter_lt {α : Type} {L : List α} {p : α → Bool} {a : α} (ha : a ∈ L) (hp : p a = false) :
    (L.filter p).length < L.length := by
  induction L with
  | nil => cases ha
  | cons b t ih =>
    rcases List.mem_cons.1 ha with rfl | h
    · simp only [List.filter_cons, hp, Bool.false_eq_true, if_false, List.length_cons]
      have := List.length_filter_le p t
      omega
    · have := ih h
      have h2 := List.length_filter_le p t
      simp only [List.filter_cons, List.length_cons]
      by_cases hb : p b = true
      · rw [if_pos hb, List.length_cons]; omega
      · rw [if_neg hb]; omega

/-! ### swap-remove -/

theorem swapRemove_perm {P : List Nat} {i : Nat} (hi : i < P.length) : (swapRemove P i).Perm (P.eraseIdx i) := by
  unfold swapRemove
  obtain ⟨A, v, B, rfl, hA⟩ : ∃ A v B, P = A ++ v :: B ∧ A.length = i := by
    refine ⟨P.take i, P[i], P.drop (i + 1), ?_, by simp; omega⟩
    rw [← List.drop_eq_getElem_cons hi, List.take_append_drop]
  subst hA
  have herase : (A ++ v :: B).eraseIdx A.length = A ++ B := by
    rw [List.eraseIdx_append_of_length_le (Nat.le_refl _)]; simp
  rw [herase]
  rcases List.eq_nil_or_concat B with rfl | ⟨B', l, hB⟩
  · simp [List.getLastD_eq_getLast?]
  · rw [List.concat_eq_append] at hB
    subst hB
    have hlast : (A ++ v :: (B' ++ [l])).getLastD 0 = l := by
      rw [show A ++ v :: (B' ++ [l]) = (A ++ v :: B') ++ [l] by simp]
      exact List.getLastD_concat
    rw [hlast]
    have hset : (A ++ v :: (B' ++ [l])).set A.length l = (A ++ l :: B') ++ [l] := by
      rw [List.set_append_right _ _ (Nat.le_refl _)]; simp
    rw [hset, List.dropLast_concat]
    have : (l :: B').Perm (B' ++ [l]) := by
      simpa using (List.perm_append_comm (l₁ := [l]) (l₂ := B'))
    exact List.Perm.append_left A this

theorem swapRemove_take {P : List Nat} {i : Nat} (hi : i < P.length) : (swapRemove P i).take i = P.take i := by
  unfold swapRemove
  rw [List.dropLast_eq_take, List.take_take, List.length_set, Nat.min_eq_left (by omega)]
  rw [List.take_set_of_le (Nat.le_refl _)]

/-! ### frames -/

def CommonNbr (g : G) (R : List Nat) (v : Nat) : Prop := v < g.n ∧ v ∉ R ∧ ∀ r ∈ R, g.adj r v = true

structure FrameOK (g : G) (f : BKFrame) : Prop where
  clique : IsClique g f.R
  pnodup : f.P.Nodup
  disj : ∀ v ∈ f.P, v ∉ f.X
  cover : ∀ v, (v ∈ f.P ∨ v ∈ f.X) ↔ CommonNbr g f.R v

/-- the maximal clique `C` is to be reported below the frame: it contains `R` and avoids `X` -/
def respP (R X : List Nat) (C : List Nat) : Bool :=
  R.all (fun r => C.contains r) && X.all (fun x => !C.contains x)

theorem respP_iff {R X C : List Nat} : respP R X C = true ↔ (∀ r ∈ R, r ∈ C) ∧ ∀ x ∈ X, x ∉ C := by
  simp [respP, List.all_eq_true]

def Resp (g : G) (f : BKFrame) : List (List Nat) := (allMaximalCliquesSpec g).filter (respP f.R f.X)

theorem mem_allMax {g : G} {s : List Nat} :
    s ∈ allMaximalCliquesSpec g ↔ s.Sublist (List.range g.n) ∧ IsMaximalClique g s := by
  simp only [allMaximalCliquesSpec, List.mem_filter, mem_subsets, isMaximalClique_iff]

theorem nodup_allMax (g : G) : (allMaximalCliquesSpec g).Nodup :=
  (nodup_subsets List.nodup_range).sublist List.filter_sublist

theorem canon_mem_allMax {g : G} {s : List Nat} (h : IsMaximalClique g s) :
    canon g.n s ∈ allMaximalCliquesSpec g :=
  mem_allMax.2 ⟨canon_sublist _ _, h.of_perm (canon_perm h.1.1 h.1.2.1)⟩

theorem sublist_range_eq_of_mem_iff {n : Nat} {s t : List Nat} (hs : s.Sublist (List.range n))
    (ht : t.Sublist (List.range n)) (h : ∀ v, v ∈ s ↔ v ∈ t) : s = t := by
  have h1 := (sublist_range_iff.1 hs).1
  have h2 := (sublist_range_iff.1 ht).1
  have hp : s.Perm t := (List.perm_ext_iff_of_nodup (h1.imp (fun h => Nat.ne_of_lt h))
    (h2.imp (fun h => Nat.ne_of_lt h))).2 h
  exact List.Perm.eq_of_pairwise (le := (· < ·)) (fun a b _ _ h1 h2 => by omega) h1 h2 hp

/-- in a clique containing `R`, every vertex outside `R` is a common neighbour of `R` -/
theorem commonNbr_of_clique {g : G} {R C : List Nat} (hC : IsClique g C) (hR : ∀ r ∈ R, r ∈ C) {c : Nat}
    (hc : c ∈ C) (hcR : c ∉ R) : CommonNbr g R c :=
  ⟨hC.2.1 c hc, hcR, fun r hr => hC.2.2 r (hR r hr) c hc (fun h => hcR (h ▸ hr))⟩

/-- leaf frame: exactly one clique to report, `R` itself -/
theorem resp_leaf {g : G} {f : BKFrame} (hf : FrameOK g f) (hP : f.P = []) (hX : f.X = []) :
    IsMaximalClique g f.R ∧ Resp g f = [canon g.n f.R] := by
  have hmax : IsMaximalClique g f.R := by
    refine ⟨hf.clique, fun v hv hvR => ?_⟩
    by_contra hcon
    push Not at hcon
    have : CommonNbr g f.R v := ⟨hv, hvR, fun r hr => by
      have := hcon r hr
      simp only [Bool.and_eq_true, ne_eq, Bool.not_eq_false] at this
      exact this.1⟩
    have := (hf.cover v).2 this
    rw [hP, hX] at this
    simp at this
  refine ⟨hmax, filter_eq_singleton (nodup_allMax g) (canon_mem_allMax hmax) fun C hC => ?_⟩
  have hCm := mem_allMax.1 hC
  rw [respP_iff]
  constructor
  · rintro ⟨hR, _⟩
    apply sublist_range_eq_of_mem_iff hCm.1 (canon_sublist _ _)
    intro v
    rw [mem_canon]
    constructor
    · intro hv
      refine ⟨hCm.2.1.2.1 v hv, ?_⟩
      by_contra hvR
      obtain ⟨u, hu, hfalse⟩ := hmax.2 v (hCm.2.1.2.1 v hv) hvR
      have hne : u ≠ v := fun h => hvR (h ▸ hu)
      have h1 := hCm.2.1.2.2 u (hR u hu) v hv hne
      have h2 := hCm.2.1.2.2 v hv u (hR u hu) (Ne.symm hne)
      rw [h1, h2] at hfalse
      cases hfalse
    · exact fun h => hR v h.2
  · rintro rfl
    refine ⟨fun r hr => mem_canon.2 ⟨hf.clique.2.1 r hr, hr⟩, ?_⟩
    rw [hX]; simp

/-! ### the pivot -/

/-- the scan state holds a real candidate -/
def PivGood (S : Nat → Prop) (st : Int × Int) : Prop := 0 ≤ st.2 ∧ ∃ u, S u ∧ st.1 = (u : Int)

theorem pivotScan_good (g : G) (P : List Nat) (S : Nat → Prop) : ∀ (cands : List Nat) (st : Int × Int),
    PivGood S st → (∀ u ∈ cands, S u) → PivGood S (pivotScan g P cands st) := by
  intro cands
  induction cands with
  | nil => intro st h _; exact h
  | cons v vs ih =>
    intro st h hS
    obtain ⟨piv, best⟩ := st
    simp only [pivotScan]
    have hvs : ∀ u ∈ vs, S u := fun u hu => hS u (List.mem_cons_of_mem _ hu)
    split
    · exact ih _ ⟨Int.natCast_nonneg _, v, hS v List.mem_cons_self, rfl⟩ hvs
    · exact ih _ h hvs

theorem pivotScan_init (g : G) (P : List Nat) (S : Nat → Prop) {cands : List Nat} {st : Int × Int}
    (h : st.2 = -1) (hne : cands ≠ []) (hS : ∀ u ∈ cands, S u) : PivGood S (pivotScan g P cands st) := by
  cases cands with
  | nil => exact absurd rfl hne
  | cons v vs =>
    obtain ⟨piv, best⟩ := st
    simp only at h
    subst h
    simp only [pivotScan]
    have : ((pivotSize g P v : Nat) : Int) > -1 := by
      have := Int.natCast_nonneg (pivotSize g P v); omega
    rw [if_pos this]
    exact pivotScan_good g P S vs _ ⟨Int.natCast_nonneg _, v, hS v List.mem_cons_self, rfl⟩
      (fun u hu => hS u (List.mem_cons_of_mem _ hu))

theorem choosePivot_mem (g : G) {P X : List Nat} (hne : ¬ (P = [] ∧ X = [])) :
    ∃ u : Nat, choosePivot g P X = (u : Int) ∧ (u ∈ P ∨ u ∈ X) := by
  unfold choosePivot
  have key : PivGood (fun u => u ∈ P ∨ u ∈ X) (pivotScan g P X (pivotScan g P P (-1, -1))) := by
    by_cases hP : P = []
    · have hX : X ≠ [] := fun h => hne ⟨hP, h⟩
      subst hP
      exact pivotScan_init g [] _ rfl hX (fun u hu => Or.inr hu)
    · exact pivotScan_good g P _ X _ (pivotScan_init g P _ rfl hP (fun u hu => Or.inl hu)) (fun u hu => Or.inr hu)
  obtain ⟨_, u, hu, he⟩ := key
  exact ⟨u, he, hu⟩

/-- `v` is processed by the inner loop (not skipped as a neighbour of the pivot) -/
def procB (g : G) (piv : Int) (v : Nat) : Bool := !(((v : Int) != piv) && adjInt g v piv)

theorem procB_nat (g : G) (u v : Nat) : procB g (u : Int) v = !(v != u && g.adj v u) := by
  have h : (((v : Int) != (u : Int)) : Bool) = (v != u) := by
    simp [bne, Int.ofNat_inj]
  simp only [procB, adjInt, h, Int.natCast_nonneg, decide_true, Bool.true_and, Int.toNat_natCast]

/-- every maximal clique below a frame contains a vertex of `P` that is not a neighbour of the pivot -/
theorem pivot_lemma {g : G} (hw : g.WF) {f : BKFrame} (hf : FrameOK g f) {u : Nat} (hu : u ∈ f.P ∨ u ∈ f.X)
    {C : List Nat} (hC : IsMaximalClique g C) (hresp : respP f.R f.X C = true) :
    ∃ v ∈ f.P, v ∈ C ∧ procB g (u : Int) v = true := by
  obtain ⟨hR, hX⟩ := respP_iff.1 hresp
  by_contra hcon
  push Not at hcon
  have hadj : ∀ v ∈ f.P, v ∈ C → v ≠ u ∧ g.adj v u = true := by
    intro v hv hvC
    have := hcon v hv hvC
    rw [procB_nat] at this
    simpa using this
  have huN := (hf.cover u).1 hu
  have huC : u ∉ C := by
    intro huC
    rcases hu with h | h
    · exact (hadj u h huC).1 rfl
    · exact hX u h huC
  obtain ⟨c, hc, hfalse⟩ := hC.2 u huN.1 huC
  have hcu : g.adj c u = true := by
    by_cases hcR : c ∈ f.R
    · exact huN.2.2 c hcR
    · have hcN := commonNbr_of_clique hC.1 hR hc hcR
      rcases (hf.cover c).2 hcN with h | h
      · exact (hadj c h hc).2
      · exact absurd hc (hX c h)
  rw [hcu, hw.symm u c, hcu] at hfalse
  cases hfalse

end CliqueColour
