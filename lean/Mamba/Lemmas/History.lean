import Mamba.Model.GraphRep
/-!
# One induction over the operation list (property C05)

If every single operation of a representation `R` refines the abstract operation (on well-formed values and valid
arguments, without panicking), then so does every history.
-/
namespace GraphRep
open GraphSpec

theorem runG_cons (g : G) (o : Op) (os : List Op) : runG g (o :: os) = runG (stepG g o) os := rfl

theorem refines_run {R : Type} (WF : R → Prop) (abs : R → G) (step : R → Op → Outcome R) (P : Op → Prop)
    (hstep : ∀ x o, WF x → P o → o.valid (abs x).n →
      ∃ y, step x o = .ok y ∧ WF y ∧ abs y = stepG (abs x) o) :
    ∀ (ops : List Op) (x : R), WF x → (∀ o ∈ ops, P o) → validSeq (abs x) ops →
      ∃ y, runM step ops x = .ok y ∧ WF y ∧ abs y = runG (abs x) ops := by
  intro ops
  induction ops with
  | nil => intro x hx _ _; exact ⟨x, rfl, hx, rfl⟩
  | cons o os ih =>
    intro x hx hP hv
    obtain ⟨y, hy, hwf, habs⟩ := hstep x o hx (hP o (by simp)) hv.1
    have hv2 : validSeq (abs y) os := by rw [habs]; exact hv.2
    obtain ⟨z, hz, hwfz, habsz⟩ := ih y hwf (fun o ho => hP o (by simp [ho])) hv2
    refine ⟨z, ?_, hwfz, ?_⟩
    · show loopM step (o :: os) x = _
      rw [loopM, hy]; exact hz
    · rw [habsz, habs, runG_cons]

/-- a list of in-range `AddEdge`s is a valid history (this is how the driver builds the start graph) -/
theorem validSeq_ae : ∀ (es : List (Nat × Nat)) (g : G), (∀ e ∈ es, e.1 < g.n ∧ e.2 < g.n) →
    validSeq g (es.map fun e => Op.ae e.1 e.2) := by
  intro es
  induction es with
  | nil => intro g _; exact True.intro
  | cons e es ih =>
    intro g h
    exact ⟨h e (by simp), ih (stepG g (Op.ae e.1 e.2)) (fun e' he' => h e' (by simp [he']))⟩

end GraphRep
