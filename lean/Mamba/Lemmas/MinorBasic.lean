import Mamba.Spec.Minor
import Mathlib.Tactic.Tauto
import Mathlib.Tactic.Push
import Mathlib.Tactic.Set
/-!
# Basic lemmas about branch-set models (property C11)

`IsModel.map`   — a model is pushed forward along a vertex map that sends edges to edges or collapses them
                  (vertex deletion of an unused vertex, contraction inside a branch set);
`IsModel.of_sub` — a model in a subgraph is a model in the graph;
`IsModel.of_contract` — a model in `p / xy` gives a model in `p`.
-/
namespace Minor
open GraphSpec

/-- symmetric adjacency -/
def PG.Sym (p : PG) : Prop := ∀ u v, p.adj u v = p.adj v u

theorem ofG_sym (g : G) : (ofG g).Sym := by
  intro u v; simp [ofG, Bool.or_comm]

theorem ofG_V (g : G) (v : Nat) : (ofG g).V v ↔ v < g.n := by
  simp [PG.V, ofG]

theorem delV_sym {p : PG} (h : p.Sym) (x : Nat) : (p.delV x).Sym := fun u v => h u v

theorem delE_sym {p : PG} (h : p.Sym) (a b : Nat) : (p.delE a b).Sym := by
  intro u v
  simp only [PG.delE]
  rw [h u v]
  have : ((u == a && v == b) || (u == b && v == a)) = ((v == a && u == b) || (v == b && u == a)) := by
    cases (u == a) <;> cases (v == b) <;> cases (u == b) <;> cases (v == a) <;> rfl
  rw [this]

theorem contract_sym {p : PG} (h : p.Sym) (x y : Nat) : (p.contract x y).Sym := by
  intro u v
  simp only [PG.contract]
  by_cases huv : u = v
  · subst huv; rfl
  · have hvu : ¬ v = u := fun e => huv e.symm
    have e1 : (u != v) = true := by simpa using huv
    have e2 : (v != u) = true := by simpa using hvu
    by_cases hux : u = x
    · subst hux
      simp [e1, e2, hvu, h u v, h y v]
    · by_cases hvx : v = x
      · subst hvx
        simp [e1, e2, huv, h u v, h u y]
      · simp [e1, e2, hux, hvx, h u v]

theorem delV_V {p : PG} {x v : Nat} : (p.delV x).V v ↔ p.V v ∧ v ≠ x := by
  simp [PG.V, PG.delV]; tauto

theorem delE_V {p : PG} {a b v : Nat} : (p.delE a b).V v ↔ p.V v := Iff.rfl

theorem contract_V {p : PG} {x y v : Nat} : (p.contract x y).V v ↔ p.V v ∧ v ≠ y := by
  simp [PG.V, PG.contract]; tauto

namespace PG.Conn

variable {p : PG} {f : Nat → Nat} {c : Nat}

theorem left {u w : Nat} (h : p.Conn f c u w) : p.V u ∧ f u = c := by
  cases h with
  | refl hv hf => exact ⟨hv, hf⟩
  | step hv hf _ _ => exact ⟨hv, hf⟩

theorem right {u w : Nat} (h : p.Conn f c u w) : p.V w ∧ f w = c := by
  induction h with
  | refl hv hf => exact ⟨hv, hf⟩
  | step _ _ _ _ ih => exact ih

theorem trans {u v w : Nat} (h1 : p.Conn f c u v) (h2 : p.Conn f c v w) : p.Conn f c u w := by
  induction h1 with
  | refl _ _ => exact h2
  | step hv hf ha _ ih => exact .step hv hf ha (ih h2)

/-- one edge inside the class -/
theorem single {u v : Nat} (hu : p.V u) (hfu : f u = c) (hv : p.V v) (hfv : f v = c) (ha : p.adj u v = true) :
    p.Conn f c u v := .step hu hfu ha (.refl hv hfv)

theorem symm (hs : p.Sym) {u w : Nat} (h : p.Conn f c u w) : p.Conn f c w u := by
  induction h with
  | refl hv hf => exact .refl hv hf
  | step hv hf ha h' ih =>
    exact ih.trans (single h'.left.1 h'.left.2 hv hf (by rw [hs]; exact ha))

/-- a path between two different vertices starts with an edge to a different vertex of the class -/
theorem exists_nbr {u w : Nat} (h : p.Conn f c u w) (hne : u ≠ w) :
    ∃ x, p.V x ∧ f x = c ∧ x ≠ u ∧ p.adj u x = true := by
  induction h with
  | refl _ _ => exact absurd rfl hne
  | @step u v w _ _ ha h' ih =>
    by_cases huv : v = u
    · subst huv; exact ih hne
    · exact ⟨v, h'.left.1, h'.left.2, huv, ha⟩

/-- transport along a vertex map that sends edges inside the class to edges or collapses them -/
theorem map {p' : PG} {f' : Nat → Nat} {c' : Nat} (r : Nat → Nat)
    (hV : ∀ v, p.V v → f v = c → p'.V (r v) ∧ f' (r v) = c')
    (hadj : ∀ u v, p.V u → p.V v → f u = c → f v = c → p.adj u v = true → r u = r v ∨ p'.adj (r u) (r v) = true)
    {u w : Nat} (h : p.Conn f c u w) : p'.Conn f' c' (r u) (r w) := by
  induction h with
  | refl hv hf => exact .refl (hV _ hv hf).1 (hV _ hv hf).2
  | @step u v w hv hf ha h' ih =>
    rcases hadj u v hv h'.left.1 hf h'.left.2 ha with e | e
    · rw [e]; exact ih
    · exact .step (hV _ hv hf).1 (hV _ hv hf).2 e ih

/-- lift: every edge step of `p'` inside class `c'` is a path of `p` inside class `c` -/
theorem lift {p' : PG} {f' : Nat → Nat} {c' : Nat}
    (hstep : ∀ u v, p'.V u → p'.V v → f' u = c' → f' v = c' → p'.adj u v = true → p.Conn f c u v)
    (hrefl : ∀ v, p'.V v → f' v = c' → p.V v ∧ f v = c)
    {u w : Nat} (h : p'.Conn f' c' u w) : p.Conn f c u w := by
  induction h with
  | refl hv hf => exact .refl (hrefl _ hv hf).1 (hrefl _ hv hf).2
  | step hv hf ha h' ih => exact (hstep _ _ hv h'.left.1 hf h'.left.2 ha).trans ih

end PG.Conn

/-- push a model forward along `r` -/
theorem IsModel.map {p p' : PG} {H : G} {f f' : Nat → Nat} (hm : IsModel p H f) (r : Nat → Nat)
    (hV : ∀ v, p.V v → f v < H.n → p'.V (r v) ∧ f' (r v) = f v)
    (hadj : ∀ u v, p.V u → p.V v → f u < H.n → f v < H.n → p.adj u v = true →
      r u = r v ∨ p'.adj (r u) (r v) = true)
    (hsurj : ∀ w, p'.V w → f' w < H.n → ∃ v, p.V v ∧ f v = f' w ∧ r v = w) : IsModel p' H f' where
  nonempty := by
    intro h hh
    obtain ⟨v, hv, hfv⟩ := hm.nonempty h hh
    have := hV v hv (hfv ▸ hh)
    exact ⟨r v, this.1, this.2.trans hfv⟩
  conn := by
    intro w w' hw hw' hlt heq
    obtain ⟨v, hv, hfv, rfl⟩ := hsurj w hw hlt
    obtain ⟨v', hv', hfv', rfl⟩ := hsurj w' hw' (heq ▸ hlt)
    have hc := hm.conn v v' hv hv' (hfv ▸ hlt) (by rw [hfv, hfv', heq])
    rw [← hfv]
    refine PG.Conn.map (c := f v) r ?_ ?_ hc
    · intro x hx hfx
      have := hV x hx (by rw [hfx, hfv]; exact hlt)
      exact ⟨this.1, this.2.trans hfx⟩
    · intro a b ha hb hfa hfb hab
      have hl : f v < H.n := hfv ▸ hlt
      exact hadj a b ha hb (hfa ▸ hl) (hfb ▸ hl) hab
  edge := by
    intro h h' hh hh' hne hadjH
    obtain ⟨u, v, hu, hv, hfu, hfv, huv⟩ := hm.edge h h' hh hh' hne hadjH
    have h1 := hV u hu (hfu ▸ hh)
    have h2 := hV v hv (hfv ▸ hh')
    refine ⟨r u, r v, h1.1, h2.1, h1.2.trans hfu, h2.2.trans hfv, ?_⟩
    rcases hadj u v hu hv (hfu ▸ hh) (hfv ▸ hh') huv with e | e
    · exfalso
      apply hne
      rw [← hfu, ← hfv, ← h1.2, ← h2.2, e]
    · exact e

/-- `p'` is a subgraph of `p` (same vertex names) -/
structure PG.Sub (p' p : PG) : Prop where
  V : ∀ v, p'.V v → p.V v
  adj : ∀ u v, p'.V u → p'.V v → u ≠ v → p'.adj u v = true → p.adj u v = true

/-- a model in a subgraph is a model in the graph (vertices outside the subgraph are unused) -/
theorem IsModel.of_sub {p p' : PG} {H : G} {f' : Nat → Nat} (hs : p'.Sub p) (hm : IsModel p' H f') :
    IsModel p H (fun v => if p'.V v then f' v else H.n) where
  nonempty := by
    intro h hh
    obtain ⟨v, hv, hfv⟩ := hm.nonempty h hh
    exact ⟨v, hs.V v hv, by simp [hv, hfv]⟩
  conn := by
    intro u v hu hv hlt heq
    by_cases hu' : p'.V u
    · by_cases hv' : p'.V v
      · simp only [hu', hv', if_true] at hlt heq ⊢
        refine PG.Conn.lift ?_ ?_ (hm.conn u v hu' hv' hlt heq)
        · intro a b ha hb hfa hfb hab
          by_cases hab' : a = b
          · subst hab'; exact .refl (hs.V a ha) (by simp [ha, hfa])
          · exact PG.Conn.single (hs.V a ha) (by simp [ha, hfa]) (hs.V b hb) (by simp [hb, hfb])
              (hs.adj a b ha hb hab' hab)
        · intro a ha hfa
          exact ⟨hs.V a ha, by simp [ha, hfa]⟩
      · simp [hu', hv'] at hlt heq
        omega
    · simp [hu'] at hlt
  edge := by
    intro h h' hh hh' hne hadjH
    obtain ⟨u, v, hu, hv, hfu, hfv, huv⟩ := hm.edge h h' hh hh' hne hadjH
    have huv' : u ≠ v := by
      rintro rfl
      exact hne (hfu.symm.trans hfv)
    exact ⟨u, v, hs.V u hu, hs.V v hv, by simp [hu, hfu], by simp [hv, hfv], hs.adj u v hu hv huv' huv⟩

theorem HasMinorP.of_sub {p p' : PG} {H : G} (hs : p'.Sub p) (h : HasMinorP p' H) : HasMinorP p H := by
  obtain ⟨f, hf⟩ := h
  exact ⟨_, hf.of_sub hs⟩

theorem delV_sub (p : PG) (x : Nat) : (p.delV x).Sub p :=
  ⟨fun _ hv => (delV_V.1 hv).1, fun _ _ _ _ _ h => h⟩

theorem delE_sub (p : PG) (a b : Nat) : (p.delE a b).Sub p :=
  ⟨fun _ hv => hv, fun u v _ _ _ h => by simp only [PG.delE, Bool.and_eq_true] at h; exact h.2⟩

/-- a model in `p / xy` gives a model in `p`: `y` joins the branch set of `x` -/
theorem IsModel.of_contract {p : PG} {H : G} {f' : Nat → Nat} {x y : Nat} (hs : p.Sym)
    (hx : p.V x) (hy : p.V y) (hxy : x ≠ y) (ha : p.adj x y = true) (hm : IsModel (p.contract x y) H f') :
    IsModel p H (fun z => if z = y then f' x else f' z) := by
  set f : Nat → Nat := fun z => if z = y then f' x else f' z with hf
  have hfy : f y = f' x := by simp [hf]
  have hfz : ∀ z, z ≠ y → f z = f' z := by intro z hz; simp [hf, hz]
  have hfx : f x = f' x := hfz x hxy
  have hVx : (p.contract x y).V x := contract_V.2 ⟨hx, hxy⟩
  -- every path of the contracted graph lifts
  have hlift : ∀ c u w, (p.contract x y).Conn f' c u w → p.Conn f c u w := by
    intro c u w h
    refine PG.Conn.lift ?_ ?_ h
    · intro a b ha' hb' hfa hfb hab
      have ha2 := contract_V.1 ha'
      have hb2 := contract_V.1 hb'
      have hfa2 : f a = c := (hfz a ha2.2).trans hfa
      have hfb2 : f b = c := (hfz b hb2.2).trans hfb
      simp only [PG.contract, Bool.and_eq_true, bne_iff_ne, ne_eq] at hab
      obtain ⟨hne, hab⟩ := hab
      by_cases hax : a = x
      · subst hax
        simp only [beq_self_eq_true, if_true, Bool.or_eq_true] at hab
        rcases hab with h1 | h1
        · exact PG.Conn.single ha2.1 hfa2 hb2.1 hfb2 h1
        · exact .step ha2.1 hfa2 ha (PG.Conn.single hy (hfy.trans hfa) hb2.1 hfb2 h1)
      · by_cases hbx : b = x
        · subst hbx
          simp only [beq_iff_eq, hax, if_false, beq_self_eq_true, if_true, Bool.or_eq_true] at hab
          rcases hab with h1 | h1
          · exact PG.Conn.single ha2.1 hfa2 hb2.1 hfb2 h1
          · exact .step ha2.1 hfa2 h1 (PG.Conn.single hy (hfy.trans hfb) hb2.1 hfb2 (by rw [hs]; exact ha))
        · simp only [beq_iff_eq, hax, hbx, if_false] at hab
          exact PG.Conn.single ha2.1 hfa2 hb2.1 hfb2 hab
    · intro a ha' hfa
      have ha2 := contract_V.1 ha'
      exact ⟨ha2.1, (hfz a ha2.2).trans hfa⟩
  refine ⟨?_, ?_, ?_⟩
  · intro h hh
    obtain ⟨v, hv, hfv⟩ := hm.nonempty h hh
    have hv2 := contract_V.1 hv
    exact ⟨v, hv2.1, (hfz v hv2.2).trans hfv⟩
  · intro u v hu hv hlt heq
    -- representatives
    have key : ∀ u, p.V u → ∃ u', (p.contract x y).V u' ∧ f' u' = f u ∧ p.Conn f (f u) u u' := by
      intro u hu
      by_cases huy : u = y
      · subst huy
        exact ⟨x, hVx, hfy.symm, PG.Conn.single hu rfl hx (hfx.trans hfy.symm) (by rw [hs]; exact ha)⟩
      · exact ⟨u, contract_V.2 ⟨hu, huy⟩, (hfz u huy).symm, .refl hu rfl⟩
    obtain ⟨u', hu', hfu', hcu⟩ := key u hu
    obtain ⟨v', hv', hfv', hcv⟩ := key v hv
    have hc := hm.conn u' v' hu' hv' (hfu' ▸ hlt) (by rw [hfu', hfv', heq])
    have hc2 := hlift _ _ _ hc
    rw [hfu'] at hc2
    rw [← heq] at hcv
    exact hcu.trans (hc2.trans (hcv.symm hs))
  · intro h h' hh hh' hne hadjH
    obtain ⟨u, v, hu, hv, hfu, hfv, huv⟩ := hm.edge h h' hh hh' hne hadjH
    have hu2 := contract_V.1 hu
    have hv2 := contract_V.1 hv
    simp only [PG.contract, Bool.and_eq_true, bne_iff_ne, ne_eq] at huv
    obtain ⟨hne', huv⟩ := huv
    by_cases hux : u = x
    · subst hux
      simp only [beq_self_eq_true, if_true, Bool.or_eq_true] at huv
      rcases huv with h1 | h1
      · exact ⟨u, v, hu2.1, hv2.1, (hfz u hu2.2).trans hfu, (hfz v hv2.2).trans hfv, h1⟩
      · exact ⟨y, v, hy, hv2.1, hfy.trans hfu, (hfz v hv2.2).trans hfv, h1⟩
    · by_cases hvx : v = x
      · subst hvx
        simp only [beq_iff_eq, hux, if_false, beq_self_eq_true, if_true, Bool.or_eq_true] at huv
        rcases huv with h1 | h1
        · exact ⟨u, v, hu2.1, hv2.1, (hfz u hu2.2).trans hfu, (hfz v hv2.2).trans hfv, h1⟩
        · exact ⟨u, y, hu2.1, hy, (hfz u hu2.2).trans hfu, hfy.trans hfv, h1⟩
      · simp only [beq_iff_eq, hux, hvx, if_false] at huv
        exact ⟨u, v, hu2.1, hv2.1, (hfz u hu2.2).trans hfu, (hfz v hv2.2).trans hfv, huv⟩

theorem HasMinorP.of_contract {p : PG} {H : G} {x y : Nat} (hs : p.Sym)
    (hx : p.V x) (hy : p.V y) (hxy : x ≠ y) (ha : p.adj x y = true) (h : HasMinorP (p.contract x y) H) :
    HasMinorP p H := by
  obtain ⟨f, hf⟩ := h
  exact ⟨_, hf.of_contract hs hx hy hxy ha⟩

/-- contraction inside a branch set keeps the model -/
theorem IsModel.contract {p : PG} {H : G} {f : Nat → Nat} {x y : Nat} (hm : IsModel p H f)
    (hx : p.V x) (hxy : x ≠ y) (hf : f x = f y) : IsModel (p.contract x y) H f := by
  refine hm.map (fun z => if z = y then x else z) ?_ ?_ ?_
  · intro v hv _
    by_cases hvy : v = y
    · subst hvy
      simp only [if_true]
      exact ⟨contract_V.2 ⟨hx, hxy⟩, hf⟩
    · simp only [hvy, if_false]
      exact ⟨contract_V.2 ⟨hv, hvy⟩, trivial⟩
  · intro u v _ _ _ _ huv
    by_cases huy : u = y <;> by_cases hvy : v = y
    · left; simp [huy, hvy]
    · by_cases hvx : v = x
      · left; simp [huy, hvy, hvx]
      · right
        subst huy
        have : ¬ x = v := fun e => hvx e.symm
        simp [PG.contract, hvy, this, huv]
    · by_cases hux : u = x
      · left; simp [huy, hvy, hux]
      · right
        subst hvy
        simp [PG.contract, huy, hux, huv]
    · simp only [huy, hvy, if_false]
      by_cases huv' : u = v
      · left; exact huv'
      · right
        simp only [PG.contract, Bool.and_eq_true, bne_iff_ne, ne_eq, huv', not_false_eq_true, true_and]
        by_cases hux : u = x
        · subst hux; simp [huv]
        · by_cases hvx : v = x
          · subst hvx; simp [hux, huv]
          · simp [hux, hvx, huv]
  · intro w hw _
    have hw2 := contract_V.1 hw
    exact ⟨w, hw2.1, rfl, by simp [hw2.2]⟩

/-- deleting an unused vertex keeps the model -/
theorem IsModel.delV {p : PG} {H : G} {f : Nat → Nat} {x : Nat} (hm : IsModel p H f)
    (hx : H.n ≤ f x) : IsModel (p.delV x) H f := by
  refine hm.map id ?_ ?_ ?_
  · intro v hv hlt
    refine ⟨delV_V.2 ⟨hv, ?_⟩, rfl⟩
    rintro rfl
    exact absurd hlt (Nat.not_lt.2 hx)
  · intro u v _ _ _ _ huv
    right; exact huv
  · intro w hw _
    exact ⟨w, (delV_V.1 hw).1, rfl, rfl⟩

end Minor
