import Mamba.Lemmas.IsoCheck
/-! Soundness of `checkLevel` / `checkLevels`. -/
namespace GSearch
open GraphSpec

/-- what an accepted level satisfies -/
theorem checkLevel_ok {P : G → Bool} {k : Nat} {prev : Option (List G)} {cur : List G}
    (h : checkLevel P k prev cur = .ok) :
    (∀ g ∈ cur, g.n = k) ∧ (∀ g ∈ cur, P g = true) ∧ (cur.map bfCanon).Nodup ∧
    (prev = none → P (ofMask 0 0) = true → cur ≠ []) ∧
    (∀ pl, prev = some pl → ExtClosed P pl cur) := by
  unfold checkLevel at h
  rw [bfCanonFast_eq] at h
  split at h
  · simp at h
  · rename_i h1
    split at h
    · simp at h
    · rename_i h2
      simp only at h
      split at h
      · simp at h
      · rename_i h3
        refine ⟨?_, firstBad_none _ _ _ h2, (firstDup_none _ _ _ h3).1, ?_, ?_⟩
        · intro g hg
          have := firstBad_none _ _ _ h1 g hg
          simpa using this
        · intro hp hP hc
          subst hp
          subst hc
          simp [hP] at h
        · intro pl hp
          subst hp
          simp only at h
          split at h
          · simp at h
          · rename_i h4
            exact firstMissing_none P _ pl 0 h4

theorem pairwise_not_iso {cur : List G} {k : Nat} (hwf : ∀ g ∈ cur, g.WF) (hn : ∀ g ∈ cur, g.n = k)
    (hnd : (cur.map bfCanon).Nodup) : cur.Pairwise fun a b => ¬ Iso a b := by
  have : cur.Pairwise fun a b => bfCanon a ≠ bfCanon b := List.pairwise_map.1 hnd
  refine this.imp_of_mem ?_
  intro a b ha hb hne i
  exact hne ((bfCanon_eq_iff_iso (hwf a ha) (hwf b hb) ((hn a ha).trans (hn b hb).symm)).2 i)

/-- level 0 -/
theorem complete_zero {P : G → Bool} {cur : List G} (hn : ∀ g ∈ cur, g.n = 0)
    (hne : P (ofMask 0 0) = true → cur ≠ []) : Complete P 0 cur := by
  intro g hg hgn hPg
  have hz : ∀ u v, g.adj u v = false := by
    intro u v
    cases hc : g.adj u v
    · rfl
    · have := (hg.supp u v hc).1; omega
  have : g = ofMask 0 0 := G.ext_eq (by simp [ofMask, hgn]) (by intro u v; simp [hz, ofMask])
  rw [this] at hPg
  obtain ⟨h, hh⟩ := List.exists_mem_of_ne_nil _ (hne hPg)
  refine ⟨h, hh, (hgn.trans (hn h hh).symm), fun u => u, IsBij.id _, ?_⟩
  intro u v hu; omega

theorem checkFrom_sound {P : G → Bool} (hP : Hereditary P) :
    ∀ (rest : List (List G)) (k : Nat) (prev : Option (List G)),
      (∀ l ∈ rest, ∀ g ∈ l, g.WF) →
      (match prev with
       | none => k = 0
       | some pl => ∃ j, k = j + 1 ∧ (∀ h ∈ pl, h.WF) ∧ Transversal P j pl) →
      checkFrom P k prev rest = .ok →
      ∀ i (hi : i < rest.length), Transversal P (k + i) rest[i]
  | [], _, _, _, _, _ => by intro i hi; simp at hi
  | cur :: rest, k, prev, hwf, hprev, hc => by
    simp only [checkFrom] at hc
    cases hl : checkLevel P k prev cur with
    | ok =>
      simp only [hl] at hc
      obtain ⟨hn, hsat, hnd, hx0, hx1⟩ := checkLevel_ok hl
      have hcwf : ∀ g ∈ cur, g.WF := hwf cur (List.mem_cons_self)
      have tcur : Transversal P k cur := by
        refine ⟨hn, hsat, pairwise_not_iso hcwf hn hnd, ?_⟩
        cases prev with
        | none =>
          simp only at hprev
          subst hprev
          exact complete_zero hn (hx0 rfl)
        | some pl =>
          simp only at hprev
          obtain ⟨j, rfl, hplwf, tpl⟩ := hprev
          exact extClosed_complete' hP hplwf tpl.size hcwf hn tpl.complete (hx1 pl rfl)
      have ih := checkFrom_sound hP rest (k + 1) (some cur)
        (fun l hl' => hwf l (List.mem_cons_of_mem _ hl')) ⟨k, rfl, hcwf, tcur⟩ hc
      intro i hi
      cases i with
      | zero => simpa using tcur
      | succ i' =>
        have := ih i' (by simpa using hi)
        simpa [Nat.add_assoc, Nat.add_comm 1 i'] using this
    | badSize _ _ => simp [hl] at hc
    | notP _ _ => simp [hl] at hc
    | dup _ _ _ => simp [hl] at hc
    | missing _ _ _ => simp [hl] at hc
    | noEmpty => simp [hl] at hc

end GSearch
