import Mamba.Lemmas.C06BiKneser
/-! C06: `PruferDecode` does not panic on in-range codes. -/
namespace Construct
open GraphSpec


/-! ### PruferDecode does not panic on in-range codes -/

theorem prufer_fold1 (n : Nat) (p : List Nat) (deg : Array Int) (hs : deg.size = n) (hp : ∀ v ∈ p, v < n) :
    ∃ d, p.foldlM (fun d v => incrAt d v) deg = .ok d ∧ d.size = n ∧
      ∀ x, d[x]? = (deg[x]?).map fun y => y + (p.count x : Int) := by
  induction p generalizing deg with
  | nil => exact ⟨deg, rfl, hs, by intro x; cases deg[x]? <;> simp⟩
  | cons v t ih =>
    obtain ⟨d1, e1, s1, g1⟩ := incrAt_ok deg v (by rw [hs]; exact hp v (by simp))
    obtain ⟨d, e, s, g⟩ := ih d1 (by omega) (fun w hw => hp w (by simp [hw]))
    refine ⟨d, by simp only [List.foldlM_cons, e1, Outcome.bind_ok]; exact e, s, ?_⟩
    intro x
    rw [g x, g1 x]
    cases deg[x]? with
    | none => simp
    | some y =>
      simp only [Option.map_some, Option.some.injEq, List.count_cons]
      by_cases hx : x = v
      · subst hx; simp; ring
      · have : ¬ v = x := fun e => hx e.symm
        simp [hx, this]

/-- one round of the main loop of `PruferDecode` -/
def pruferStep (n : Nat) (st : Array Int × Array Nat) (v : Nat) : Outcome (Array Int × Array Nat) :=
  match firstLeaf st.1 n with
  | none => pure st
  | some j => do
    let e ← (if j > v then setAt st.2 ((j * (j - 1)) / 2 + v) 1 else setAt st.2 ((v * (v - 1)) / 2 + j) 1 : Outcome (Array Nat))
    let dj ← getAt st.1 j
    let d ← setAt st.1 j (dj - 1)
    let dv ← getAt d v
    let d ← setAt d v (dv - 1)
    pure (d, e)

theorem firstLeaf_spec (deg : Array Int) (n j : Nat) (h : firstLeaf deg n = some j) : j < n ∧ deg[j]? = some 1 := by
  unfold firstLeaf at h
  have := List.find?_some h
  have hm := List.mem_of_find?_eq_some h
  exact ⟨List.mem_range.mp hm, by simpa using this⟩

theorem prufer_fold2 (n : Nat) (rem : List Nat) (st : Array Int × Array Nat) (hd : st.1.size = n) (he : st.2.size = tri n)
    (hp : ∀ v ∈ rem, v < n)
    (hK : ∀ x, x < n → 1 ≤ rem.count x → ∃ y, st.1[x]? = some y ∧ 1 + (rem.count x : Int) ≤ y) :
    ∃ st', rem.foldlM (pruferStep n) st = .ok st' ∧ st'.1.size = n ∧ st'.2.size = tri n := by
  induction rem generalizing st with
  | nil => exact ⟨st, rfl, hd, he⟩
  | cons v t ih =>
    have hv : v < n := hp v (by simp)
    simp only [List.foldlM_cons, pruferStep]
    cases hfl : firstLeaf st.1 n with
    | none =>
      simp only [Outcome.pure_eq, Outcome.bind_ok]
      apply ih st hd he (fun w hw => hp w (by simp [hw]))
      intro x hx hc
      obtain ⟨y, h1, h2⟩ := hK x hx (by rw [List.count_cons]; omega)
      refine ⟨y, h1, ?_⟩
      rw [List.count_cons] at h2
      split at h2 <;> push_cast at h2 <;> omega
    | some j =>
      obtain ⟨hj, hdj⟩ := firstLeaf_spec st.1 n j hfl
      -- the current code entry has degree at least 2, hence is not the leaf
      obtain ⟨yv, hyv, hyv2⟩ := hK v hv (by simp)
      have hjv : j ≠ v := by
        intro e; subst e
        rw [hdj] at hyv; cases hyv
        simp at hyv2; omega
      have hset : ∃ e, (if j > v then setAt st.2 ((j * (j - 1)) / 2 + v) 1 else setAt st.2 ((v * (v - 1)) / 2 + j) 1 : Outcome (Array Nat)) = .ok e ∧
          e.size = tri n := by
        by_cases hgt : j > v
        · have : tri j + v < st.2.size := by rw [he]; exact tri_add_lt hgt hj
          exact ⟨_, by simp only [hgt, ↓reduceIte, tri_def]; exact setAt_ok _ this, by simp [he]⟩
        · have hlt : j < v := by omega
          have : tri v + j < st.2.size := by rw [he]; exact tri_add_lt hlt hv
          exact ⟨_, by simp only [hgt, ↓reduceIte, tri_def]; exact setAt_ok _ this, by simp [he]⟩
      obtain ⟨e, he1, he2⟩ := hset
      have hj' : j < st.1.size := by omega
      have hv' : v < (st.1.set j (st.1[j] - 1)).size := by simp; omega
      simp only [he1, Outcome.bind_ok, getAt_ok hj', setAt_ok _ hj', getAt_ok hv', setAt_ok _ hv', Outcome.pure_eq]
      apply ih _ (by simp only [Array.size_set]; exact hd) he2 (fun w hw => hp w (by simp [hw]))
      intro x hx hc
      have hxj : x ≠ j := by
        intro e'; subst e'
        obtain ⟨y, h1, h2⟩ := hK x hx (by rw [List.count_cons]; omega)
        rw [hdj] at h1; cases h1
        have := List.count_le_count_cons (a := x) (b := v) (l := t)
        omega
      obtain ⟨y, h1, h2⟩ := hK x hx (by rw [List.count_cons]; omega)
      by_cases hxv : x = v
      · subst hxv
        refine ⟨y - 1, ?_, ?_⟩
        · have hxj' : ¬ j = x := fun e' => hxj e'.symm
          have hxs : x < st.1.size := by omega
          simp only [Array.getElem?_set, Array.size_set, hxs, ↓reduceIte, Array.getElem_set, hxj']
          have : st.1[x] = y := by
            rw [Array.getElem?_eq_getElem hxs] at h1; exact Option.some.inj h1
          rw [this]
        · rw [List.count_cons] at h2; simp at h2; omega
      · refine ⟨y, ?_, ?_⟩
        · have h3 : ¬ v = x := fun e' => hxv e'.symm
          have h4 : ¬ j = x := fun e' => hxj e'.symm
          simp only [Array.getElem?_set, h3, h4, ↓reduceIte]; exact h1
        · rw [List.count_cons] at h2
          have : ¬ v = x := fun e' => hxv e'.symm
          simp [this] at h2; exact h2




theorem pruferDecode_unfold (p : List Nat) : pruferDecode p =
    (p.foldlM (fun d v => incrAt d v) (Array.replicate (p.length + 2) (1 : Int))) >>= fun degrees =>
    (p.foldlM (pruferStep (p.length + 2)) (degrees, zeros (((p.length + 2) * (p.length + 2 - 1)) / 2))) >>= fun st =>
    (match firstLeaf st.1 (p.length + 2) with
      | none => pure st.2
      | some i =>
        match (List.range' (i + 1) (p.length + 2 - (i + 1))).find? fun j => st.1[j]? == some 1 with
        | none => pure st.2
        | some j => setAt st.2 ((j * (j - 1)) / 2 + i) 1 : Outcome (Array Nat)) >>= fun edges =>
    newDense (p.length + 2) (some edges) := by
  unfold pruferDecode
  rfl

theorem pruferDecode_ok (p : List Nat) (hp : ∀ v ∈ p, v < p.length + 2) :
    ∃ d, pruferDecode p = .ok d ∧ d.WF ∧ d.n = p.length + 2 := by
  obtain ⟨d1, e1, s1, g1⟩ := prufer_fold1 (p.length + 2) p (Array.replicate (p.length + 2) 1) (by simp) hp
  obtain ⟨st, e2, s2, s3⟩ := prufer_fold2 (p.length + 2) p (d1, zeros (tri (p.length + 2))) s1 (by simp [zeros]) hp (by
    intro x hx _
    refine ⟨1 + (p.count x : Int), ?_, Int.le_refl _⟩
    rw [g1 x]; simp [hx])
  -- the last edge
  have hlast : ∃ e, (match firstLeaf st.1 (p.length + 2) with
      | none => pure st.2
      | some i =>
        match (List.range' (i + 1) (p.length + 2 - (i + 1))).find? fun j => st.1[j]? == some 1 with
        | none => pure st.2
        | some j => setAt st.2 ((j * (j - 1)) / 2 + i) 1 : Outcome (Array Nat)) = .ok e ∧ e.size = tri (p.length + 2) := by
    cases h1 : firstLeaf st.1 (p.length + 2) with
    | none => exact ⟨st.2, rfl, s3⟩
    | some i =>
      simp only
      cases h2 : (List.range' (i + 1) (p.length + 2 - (i + 1))).find? fun j => st.1[j]? == some 1 with
      | none => exact ⟨st.2, rfl, s3⟩
      | some j =>
        have hm := List.mem_of_find?_eq_some h2
        rw [List.mem_range'_1] at hm
        have : tri j + i < st.2.size := by rw [s3]; exact tri_add_lt (by omega) (by omega)
        exact ⟨_, by simp only [tri_def]; exact setAt_ok _ this, by simp [s3]⟩
  obtain ⟨e, e3, s4⟩ := hlast
  obtain ⟨d, e4, hn, _, hw⟩ := newDense_some (p.length + 2) e s4
  refine ⟨d, ?_, hw, hn⟩
  rw [pruferDecode_unfold, e1]
  simp only [Outcome.bind_ok]
  have e2' : p.foldlM (pruferStep (p.length + 2)) (d1, zeros (((p.length + 2) * (p.length + 2 - 1)) / 2)) = .ok st := e2
  rw [e2']
  simp only [Outcome.bind_ok]
  rw [e3]
  exact e4

theorem randomTree_ok (n : Nat) (hn : 2 ≤ n) (draw : Nat → Nat) (hdraw : ∀ i, draw i < n) :
    ∃ d, randomTree n draw = .ok d ∧ d.WF ∧ d.n = n := by
  have hlen : ((List.range (n - 2)).map draw).length + 2 = n := by simp; omega
  obtain ⟨d, e, w, h⟩ := pruferDecode_ok ((List.range (n - 2)).map draw) (by
    intro v hv
    simp only [List.mem_map] at hv
    obtain ⟨i, _, rfl⟩ := hv
    rw [hlen]; exact hdraw i)
  refine ⟨d, ?_, w, by omega⟩
  have : ¬ n < 2 := by omega
  simp only [randomTree, this, ↓reduceIte]
  exact e


end Construct
