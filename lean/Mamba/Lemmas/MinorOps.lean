import Mamba.Lemmas.MinorExec
/-!
# The branch-set form of "minor" is equivalent to the operations form (property C11)

`OpsMinor g H` (vertex deletions, edge deletions, edge contractions, then an isomorphism)  ↔  `HasMinor g H`.
-/
namespace Minor
open GraphSpec

theorem Step.sym {p q : PG} (h : Step p q) (hs : p.Sym) : q.Sym := by
  cases h with
  | delV v _ => exact delV_sym hs v
  | delE u v => exact delE_sym hs u v
  | contract u v _ _ _ _ => exact contract_sym hs u v

theorem Ops.sym {p q : PG} (h : Ops p q) (hs : p.Sym) : q.Sym := by
  induction h with
  | refl => exact hs
  | head st _ ih => exact ih (st.sym hs)

theorem Ops.trans {p q r : PG} (h1 : Ops p q) (h2 : Ops q r) : Ops p r := by
  induction h1 with
  | refl => exact h2
  | head st _ ih => exact .head st (ih h2)

theorem Ops.single {p q : PG} (h : Step p q) : Ops p q := .head h (.refl q)

/-! ## operations ⇒ branch sets -/

theorem HasMinorP.of_step {p q : PG} {H : G} (st : Step p q) (hs : p.Sym) (h : HasMinorP q H) : HasMinorP p H := by
  cases st with
  | delV v _ => exact h.of_sub (delV_sub p v)
  | delE u v => exact h.of_sub (delE_sub p u v)
  | contract u v hu hv hne hadj => exact h.of_contract hs hu hv hne hadj

theorem HasMinorP.of_ops {p q : PG} {H : G} (ops : Ops p q) (hs : p.Sym) (h : HasMinorP q H) : HasMinorP p H := by
  induction ops with
  | refl => exact h
  | head st _ ih => exact (ih (st.sym hs) h).of_step st hs

theorem IsIso.model {q : PG} {H : G} {σ : Nat → Nat} (h : IsIso q H σ) : IsModel q H σ := by
  refine ⟨h.surj, ?_, ?_⟩
  · intro u v hu hv _ heq
    have := h.inj u v hu hv heq
    subst this
    exact .refl hu rfl
  · intro a b ha hb hne hadj
    obtain ⟨u, hu, rfl⟩ := h.surj a ha
    obtain ⟨v, hv, rfl⟩ := h.surj b hb
    have huv : u ≠ v := by rintro rfl; exact hne rfl
    exact ⟨u, v, hu, hv, rfl, rfl, (h.adj u v hu hv huv).2 (by rw [hadj]; rfl)⟩

/-! ## branch sets ⇒ operations -/

/-- remove the removable vertices in decreasing order (same order as `search`) -/
theorem reduce (H : G) : ∀ (lim : Nat) (p : PG) (f : Nat → Nat), p.Sym → IsModel p H f →
    (∀ x, p.V x → Removable p H f x → x < lim) →
    ∃ q, Ops p q ∧ IsModel q H f ∧ ∀ x, q.V x → ¬ Removable q H f x := by
  intro lim
  induction lim with
  | zero =>
    intro p f _ hm hinv
    exact ⟨p, .refl p, hm, fun x hx hr => absurd (hinv x hx hr) (by omega)⟩
  | succ v ih =>
    intro p f hs hm hinv
    by_cases hrem : p.V v ∧ Removable p H f v
    · obtain ⟨hv, hr⟩ := hrem
      by_cases hun : H.n ≤ f v
      · obtain ⟨q, hops, hq⟩ := ih (p.delV v) f (delV_sym hs v) (hm.delV hun) (by
          intro x hx hrx
          have hx' := delV_V.1 hx
          have : x < v + 1 := by
            refine hinv x hx'.1 ?_
            rcases hrx with h | ⟨y, hy, hfy, hyx⟩
            · exact Or.inl h
            · exact Or.inr ⟨y, (delV_V.1 hy).1, hfy, hyx⟩
          omega)
        exact ⟨q, .head (.delV p v hv) hops, hq⟩
      · have hlt : f v < H.n := by omega
        rcases hr with h | ⟨y, hy, hfy, hyv⟩
        · omega
        · have hc := hm.conn v y hv hy hlt hfy.symm
          obtain ⟨w, hw, hfw, hwv, hadj⟩ := hc.exists_nbr (by omega)
          obtain ⟨q, hops, hq⟩ := ih (p.contract w v) f (contract_sym hs w v) (hm.contract hw hwv hfw) (by
            intro x hx hrx
            have hx' := contract_V.1 hx
            have : x < v + 1 := by
              refine hinv x hx'.1 ?_
              rcases hrx with h | ⟨y, hy, hfy, hyx⟩
              · exact Or.inl h
              · exact Or.inr ⟨y, (contract_V.1 hy).1, hfy, hyx⟩
            omega)
          exact ⟨q, .head (.contract p w v hw hv hwv (by rw [hs]; exact hadj)) hops, hq⟩
    · refine ih p f hs hm ?_
      intro x hx hrx
      have : x < v + 1 := hinv x hx hrx
      have : x ≠ v := by
        rintro rfl
        exact hrem ⟨hx, hrx⟩
      omega

/-- delete a list of edges -/
def delEs (q : PG) (l : List (Nat × Nat)) : PG := l.foldl (fun q e => q.delE e.1 e.2) q

theorem delEs_ops (l : List (Nat × Nat)) : ∀ q, Ops q (delEs q l) := by
  induction l with
  | nil => intro q; exact .refl q
  | cons e l ih => intro q; exact .head (.delE q e.1 e.2) (ih _)

theorem delEs_V (l : List (Nat × Nat)) : ∀ q x, (delEs q l).V x ↔ q.V x := by
  induction l with
  | nil => intro q x; rfl
  | cons e l ih => intro q x; exact (ih _ x).trans delE_V

theorem delEs_adj (l : List (Nat × Nat)) : ∀ q x y, (delEs q l).adj x y =
    (q.adj x y && !(l.any fun e => (x == e.1 && y == e.2) || (x == e.2 && y == e.1))) := by
  induction l with
  | nil => intro q x y; simp [delEs]
  | cons e l ih =>
    intro q x y
    have := ih (q.delE e.1 e.2) x y
    simp only [delEs, List.foldl_cons] at this ⊢
    rw [this]
    simp only [PG.delE, List.any_cons, Bool.not_or]
    cases q.adj x y <;> cases ((x == e.1 && y == e.2) || (x == e.2 && y == e.1)) <;> simp

theorem opsMinor_of_model {p : PG} {H : G} {f : Nat → Nat} (hs : p.Sym) (hm : IsModel p H f) :
    ∃ q σ, Ops p q ∧ IsIso q H σ := by
  obtain ⟨q, hops, hq, hnr⟩ := reduce H p.n p f hs hm (fun x hx _ => hx.1)
  have hqs : q.Sym := hops.sym hs
  have hlt : ∀ x, q.V x → f x < H.n := by
    intro x hx
    by_contra hc
    exact hnr x hx (Or.inl (by omega))
  have hinj : ∀ x y, q.V x → q.V y → f x = f y → x = y := by
    intro x y hx hy hxy
    by_contra hne
    rcases Nat.lt_or_gt_of_ne hne with h | h
    · exact hnr y hy (Or.inr ⟨x, hx, hxy, h⟩)
    · exact hnr x hx (Or.inr ⟨y, hy, hxy.symm, h⟩)
  -- delete every pair of live vertices that is not an edge of H
  let bad : List (Nat × Nat) :=
    (q.verts.flatMap fun u => q.verts.map fun v => (u, v)).filter
      fun e => !(H.adj (f e.1) (f e.2) || H.adj (f e.2) (f e.1))
  have hbad : ∀ u v, (u, v) ∈ bad ↔ q.V u ∧ q.V v ∧ (H.adj (f u) (f v) || H.adj (f v) (f u)) = false := by
    intro u v
    simp only [bad, List.mem_filter, List.mem_flatMap, List.mem_map, mem_verts, Prod.mk.injEq,
      Bool.not_eq_true']
    constructor
    · rintro ⟨⟨a, ha, b, hb, rfl, rfl⟩, h⟩
      exact ⟨ha, hb, h⟩
    · rintro ⟨hu, hv, h⟩
      exact ⟨⟨u, hu, v, hv, rfl, rfl⟩, h⟩
  refine ⟨delEs q bad, f, hops.trans (delEs_ops bad q), ⟨?_, ?_, ?_, ?_⟩⟩
  · intro v hv
    exact hlt v ((delEs_V bad q v).1 hv)
  · intro u v hu hv h
    exact hinj u v ((delEs_V bad q u).1 hu) ((delEs_V bad q v).1 hv) h
  · intro h hh
    obtain ⟨v, hv, hfv⟩ := hq.nonempty h hh
    exact ⟨v, (delEs_V bad q v).2 hv, hfv⟩
  · intro u v hu hv hne
    have hu' := (delEs_V bad q u).1 hu
    have hv' := (delEs_V bad q v).1 hv
    rw [delEs_adj, Bool.and_eq_true, Bool.not_eq_true']
    constructor
    · rintro ⟨_, hnb⟩
      by_contra hH
      have hH' : (H.adj (f u) (f v) || H.adj (f v) (f u)) = false := by simpa using hH
      have hmem : (u, v) ∈ bad := (hbad u v).2 ⟨hu', hv', hH'⟩
      have : (bad.any fun e => (u == e.1 && v == e.2) || (u == e.2 && v == e.1)) = true := by
        rw [List.any_eq_true]
        exact ⟨(u, v), hmem, by simp⟩
      rw [this] at hnb
      cases hnb
    · intro hH
      constructor
      · have hfne : f u ≠ f v := fun e => hne (hinj u v hu' hv' e)
        rw [Bool.or_eq_true] at hH
        rcases hH with hH | hH
        · obtain ⟨a, b, ha, hb, hfa, hfb, hab⟩ := hq.edge (f u) (f v) (hlt u hu') (hlt v hv') hfne hH
          rw [hinj a u ha hu' hfa, hinj b v hb hv' hfb] at hab
          exact hab
        · obtain ⟨a, b, ha, hb, hfa, hfb, hab⟩ := hq.edge (f v) (f u) (hlt v hv') (hlt u hu') (Ne.symm hfne) hH
          rw [hinj a v ha hv' hfa, hinj b u hb hu' hfb, hqs] at hab
          exact hab
      · rw [Bool.eq_false_iff]
        intro hany
        rw [List.any_eq_true] at hany
        obtain ⟨⟨a, b⟩, hmem, hab⟩ := hany
        have hb' := (hbad a b).1 hmem
        simp only [Bool.or_eq_true, Bool.and_eq_true, beq_iff_eq] at hab
        rcases hab with ⟨rfl, rfl⟩ | ⟨rfl, rfl⟩
        · rw [hb'.2.2] at hH; cases hH
        · rw [Bool.or_comm, hb'.2.2] at hH; cases hH

theorem hasMinor_iff_ops' (g H : G) : HasMinor g H ↔ OpsMinor g H := by
  constructor
  · rintro ⟨f, hf⟩
    exact opsMinor_of_model (ofG_sym g) hf
  · rintro ⟨q, σ, hops, hiso⟩
    exact HasMinorP.of_ops hops (ofG_sym g) ⟨σ, hiso.model⟩

end Minor
