import Mamba.Lemmas.ExactKids
namespace Search
open GraphSpec GSearch Orderly

variable {O : Oracle} {n : Nat} {pre : DG → Bool}

/-- equivalent extensions have isomorphic children -/
theorem child_iso {P Q g2 h2 : DG} {x y : Nat} (hP : Built P) (hQ : Built Q) (hx : InRange P x) (hy : InRange Q y)
    (ha : P.addVertex (bitsOf x) = .ok g2) (hb : Q.addVertex (bitsOf y) = .ok h2)
    (e : ExtEquiv P (bitsOf x) Q (bitsOf y)) : IsoD g2 h2 := by
  unfold IsoD
  rw [addVertex_toG hP.sized (bitsOf_nodup x) hx ha, addVertex_toG hQ.sized (bitsOf_nodup y) hy hb]
  obtain ⟨hn, σ, hσ, hadj, hS⟩ := e
  exact ext_iso (g := P.toG) (h := Q.toG) hn hσ hadj hS

/-- **canonical augmentation is exact below every accepted node** (given the specifications of `isCanonical` and
`addAugmentations`): the unsharded traversal `subNode d g c` lists exactly one representative of every isomorphism
class of graphs whose `d`-th canonical ancestor is `g`. -/
theorem subNode_exact (S : Specs O n pre) :
    ∀ (d : Nat) (g : DG) (c : Option Ans) (r : List DG), Built g → pre g = false →
      (c = none ∨ ∃ P x, Built P ∧ InRange P x ∧ AccK O n P x g c) → g.nv + d = n →
      subNode O pre noPrune n (skipAM n 0 1) d g c = .ok r →
      IsTrans IsoD (Anc IsoD (ParD O n pre) d g) r
  | 0, g, c, r, _, _, _, hnv, h => by
    have : g.nv = n := by omega
    simp only [subNode, this, if_true, Outcome.ok.injEq] at h
    subst h
    exact trans_zero (parD_laws S) g
  | d + 1, g, c, r, hb, hpg, hc, hnv, h => by
    have hne : g.nv ≠ n := by omega
    have hlt : g.nv < n := by omega
    simp only [subNode, hne, if_false] at h
    cases haug : addAugmentations O n g #[] c with
    | panic => simp [haug] at h
    | outOfFuel => simp [haug] at h
    | ok p =>
      obtain ⟨new, c', num⟩ := p
      simp only [haug] at h
      have hlen : (new.toList.reverse).length ≤ new.size := by simp
      obtain ⟨h1, h2, h3⟩ := subKids_acc O n pre (subNode O pre noPrune n (skipAM n 0 1) d) g _ _ r hlen h
      have hrange : ∀ x ∈ new.toList.reverse, InRange g x := fun x hx =>
        S.aug_range hb hlt hc haug x (List.mem_reverse.1 hx)
      rw [h1]
      refine trans_flatMap (parD_laws S) _ (fun z => z.1) _ d g ?_ ?_ ?_ ?_
      · -- every kid is a child of g
        intro z hz
        obtain ⟨x, hx, hk⟩ := List.mem_filterMap.1 hz
        obtain ⟨g2, c2⟩ := z
        have := kidOf_some O n pre hk
        exact ⟨g, g2, x, c2, hb, hlt, hrange x hx, this.1, this.2, IsoD.refl g, IsoD.refl g2⟩
      · -- kids are pairwise non-isomorphic
        have hd := S.aug_distinct hb hlt hc haug
        have hd' : (new.toList.reverse).Pairwise fun x y => ¬ ExtEquiv g (bitsOf x) g (bitsOf y) := by
          rw [List.pairwise_reverse]
          exact hd.imp (fun hxy e => hxy e.symm)
        have hd'' : (new.toList.reverse).Pairwise fun x y =>
            InRange g x ∧ InRange g y ∧ ¬ ExtEquiv g (bitsOf x) g (bitsOf y) :=
          hd'.imp_of_mem (fun hx hy hxy => ⟨hrange _ hx, hrange _ hy, hxy⟩)
        refine List.Pairwise.filterMap (kidOf O n pre g) ?_ hd''
        intro x x' hxx z hz z' hz' hiso
        obtain ⟨g2, c2⟩ := z
        obtain ⟨g3, c3⟩ := z'
        have k2 := kidOf_some O n pre hz
        have k3 := kidOf_some O n pre hz'
        exact hxx.2.2 (S.canon_iso hb hb hlt hlt hxx.1 hxx.2.1 k2.1 k3.1 hiso)
      · -- every graph with canonical parent g is isomorphic to a kid
        rintro Z ⟨P0, Z', x0, c0, hb0, hlt0, hr0, ha0, hp0, hX, hZ⟩
        obtain ⟨hn0, σ, hσ, hadj⟩ := hX
        have hnv0 : g.nv = P0.nv := hn0
        let T : List Nat := (List.range g.nv).filter fun v => decide (σ v ∈ bitsOf x0)
        have hT : ExtEquiv g T P0 (bitsOf x0) := by
          refine ⟨hnv0, σ, hσ, hadj, ?_⟩
          intro v hv
          simp only [T, List.mem_filter, List.mem_range, decide_eq_true_eq]
          exact ⟨fun hh => hh.2, fun hh => ⟨hv, hh⟩⟩
        obtain ⟨x, hx, hxe⟩ := S.aug_complete hb hlt hc haug T P0 Z' x0 c0 hb0 hr0 ha0 hT
        have hx' : x ∈ new.toList.reverse := List.mem_reverse.2 hx
        have hxr := hrange x hx'
        have hE : ExtEquiv P0 (bitsOf x0) g (bitsOf x) := hT.symm.trans hxe
        obtain ⟨g2, hadd, hev⟩ := h3 x hx'
        have hb2 : Built g2 := hb.child hxr hadd
        have hbZ : Built Z' := hb0.child hr0 ha0.1
        have hiso : IsoD Z' g2 := child_iso hb0 hb hr0 hxr ha0.1 hadd hE
        have hpre2 : pre g2 = false := by rw [← S.pre_iso hbZ hb2 hiso]; exact hp0
        rcases hev with hev | ⟨c2, b, hcan⟩
        · rw [hpre2] at hev; cases hev
        · have hbt : b = true := S.canon_inv hb0 hb hlt0 hlt hr0 hxr ha0 hE hadd hcan
          subst hbt
          have hk : kidOf O n pre g x = some (g2, c2) := by simp [kidOf, hadd, hpre2, hcan]
          exact ⟨(g2, c2), List.mem_filterMap.2 ⟨x, hx', hk⟩, hZ.trans hiso⟩
      · -- below every kid: induction
        intro z hz
        obtain ⟨x, hx, hk⟩ := List.mem_filterMap.1 hz
        obtain ⟨g2, c2⟩ := z
        have k2 := kidOf_some O n pre hk
        obtain ⟨o, ho⟩ := h2 (g2, c2) hz
        have hb2 : Built g2 := hb.child (hrange x hx) k2.1.1
        have hnv2 : g2.nv + d = n := by rw [addVertex_nv k2.1.1]; omega
        have := subNode_exact S d g2 c2 o hb2 k2.2 (Or.inr ⟨g, x, hb, hrange x hx, k2.1⟩) hnv2 ho
        simpa [outs, ho] using this

end Search
