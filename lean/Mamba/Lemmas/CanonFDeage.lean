import Mamba.Lemmas.CanonFInv
/-!
# `deage` of `Model/CanonF.lean` (Go: `(*CanonicalOrderedPartition).deage`)

* `Sl.deage_sortRange_spec`, `truncLen_spec` — the two helpers.
* `DeageInv op i st` — invariant of the main loop after `i` iterations (`deageKept op i` = surviving dividers among the first `i`),
  `deageStep_inv` / `deageStep_ok` — one iteration preserves it / does not panic.
* `deage_inv`, `deage_no_panic`, `deage_value`, `deage_order_prefix`, `deage_order_perm` — the interface.
-/
namespace CanonF

theorem deage_length_sortNat (l : List Nat) : (sortNat l).length = l.length := by
  simp [sortNat]

theorem deage_sortNat_perm (l : List Nat) : (sortNat l).Perm l := List.mergeSort_perm _ _

/-- the visible part of `s[a:b]` for `b ≤ len` -/
theorem Sl.deage_extract_toList {s : Sl Nat} {a b : Nat} (hw : s.WF) (hb : b ≤ s.len) :
    (s.data.extract a b).toList = (s.toList.drop a).take (b - a) := by
  apply List.ext_getElem?
  intro i
  have hw' := hw; unfold Sl.WF at hw'
  rw [Array.getElem?_toList, Array.getElem?_extract, List.getElem?_take, List.getElem?_drop, Sl.getElem?_toList]
  by_cases h1 : i < b - a
  · rw [if_pos h1, if_pos (by omega)]
    by_cases h2 : a + i < s.data.size
    · rw [if_pos (by omega)]
    · rw [if_neg (by omega)]; simp; omega
  · rw [if_neg h1, if_neg (by omega)]

theorem Sl.deage_sortRange_spec {s s' : Sl Nat} {a b : Nat} (hw : s.WF) (hb : b ≤ s.len) (h : s.sortRange a b = .ok s') :
    a ≤ b ∧ s'.len = s.len ∧ s'.data.size = s.data.size ∧
      (∀ i, ¬ (a ≤ i ∧ i < b) → s'.data[i]? = s.data[i]?) ∧
      s'.toList = s.toList.take a ++ sortNat ((s.toList.drop a).take (b - a)) ++ s.toList.drop b ∧
      s'.toList.Perm s.toList := by
  unfold Sl.sortRange at h
  split at h
  next hc =>
    simp only [Outcome.ok.injEq] at h
    subst h
    have hw' := hw; unfold Sl.WF at hw'
    have hlen : (sortNat (s.data.extract a b).toList).length = b - a := by
      rw [deage_length_sortNat]; simp; omega
    have hd : ∀ i, (Sl.writeList s.data a (sortNat (s.data.extract a b).toList))[i]? =
        if a ≤ i ∧ i < b then (sortNat (s.data.extract a b).toList)[i - a]? else s.data[i]? := by
      intro i
      rw [Sl.getElem?_writeList, hlen]
      by_cases hi : a ≤ i ∧ i < b
      · rw [if_pos hi, if_pos (by omega)]
      · rw [if_neg hi, if_neg (by omega)]
    have hl : s.toList.length = s.len := Sl.length_toList s hw
    have e : (⟨Sl.writeList s.data a (sortNat (s.data.extract a b).toList), s.len⟩ : Sl Nat).toList =
        s.toList.take a ++ sortNat ((s.toList.drop a).take (b - a)) ++ s.toList.drop b := by
      rw [← Sl.deage_extract_toList hw hb]
      apply List.ext_getElem?
      intro i
      have lhs : (⟨Sl.writeList s.data a (sortNat (s.data.extract a b).toList), s.len⟩ : Sl Nat).toList[i]? =
          if i < s.len then (if a ≤ i ∧ i < b then (sortNat (s.data.extract a b).toList)[i - a]? else s.data[i]?)
          else none := by
        rw [Sl.getElem?_toList]
        simp only []
        rw [hd]
      rw [lhs]
      have htk : (List.take a s.toList).length = a := by rw [List.length_take, hl]; omega
      by_cases h1 : i < a
      · rw [List.append_assoc, List.getElem?_append_left (by omega), List.getElem?_take, if_pos h1,
          Sl.getElem?_toList, if_neg (show ¬ (a ≤ i ∧ i < b) by omega)]
      · by_cases h2 : i < b
        · rw [List.append_assoc, List.getElem?_append_right (by omega), htk,
            List.getElem?_append_left (by omega), if_pos (show i < s.len by omega),
            if_pos (show a ≤ i ∧ i < b by omega)]
        · have hl2 : (List.take a s.toList ++ sortNat (s.data.extract a b).toList).length = b := by
            rw [List.length_append, htk, hlen]; omega
          rw [List.getElem?_append_right (by omega), hl2, List.getElem?_drop, show b + (i - b) = i by omega,
            Sl.getElem?_toList]
          by_cases h3 : i < s.len
          · rw [if_pos h3, if_pos h3, if_neg (show ¬ (a ≤ i ∧ i < b) by omega)]
          · rw [if_neg h3, if_neg h3]
    refine ⟨hc.1, rfl, by simp, ?_, e, ?_⟩
    · intro i hi
      simp only []
      rw [hd, if_neg hi]
    · rw [e]
      have : s.toList = s.toList.take a ++ (s.toList.drop a).take (b - a) ++ s.toList.drop b := by
        rw [List.append_assoc]
        conv => lhs; rw [← List.take_append_drop a s.toList]
        congr 1
        conv => lhs; rw [← List.take_append_drop (b - a) (s.toList.drop a)]
        congr 1
        rw [List.drop_drop]; congr 1; omega
      conv => rhs; rw [this]
      exact List.Perm.append_right _ (List.Perm.append_left _ (deage_sortNat_perm _))
  next => cases h

theorem Sl.deage_sortRange_ok {s : Sl Nat} {a b : Nat} (hab : a ≤ b) (hb : b ≤ s.data.size) :
    ∃ s', s.sortRange a b = .ok s' := by
  unfold Sl.sortRange
  rw [if_pos ⟨hab, hb⟩]
  exact ⟨_, rfl⟩

/-- `truncLen`: the returned length `r` is the position after the last entry `< maxPos` among the first `k` -/
theorem truncLen_spec (value : Sl Nat) (maxPos : Nat) : ∀ (k r : Nat), truncLen value maxPos k = .ok r →
    r ≤ k ∧ (∀ i x, r ≤ i → i < k → value.data[i]? = some x → maxPos ≤ x) ∧
      (r = 0 ∨ ∃ x, value.data[r - 1]? = some x ∧ x < maxPos) := by
  intro k
  induction k with
  | zero =>
    intro r h
    simp [truncLen] at h
    subst h
    exact ⟨Nat.le_refl _, by intro i x h1 h2; omega, Or.inl rfl⟩
  | succ k ih =>
    intro r h
    rw [truncLen] at h
    cases hg : value.get k with
    | ok x =>
      rw [hg] at h
      simp only at h
      obtain ⟨g1, g2⟩ := Sl.get_eq_ok.1 hg
      by_cases hx : x < maxPos
      · rw [if_pos hx] at h
        simp only [Outcome.ok.injEq] at h
        subst h
        exact ⟨Nat.le_refl _, by intro i y h1 h2; omega, Or.inr ⟨x, by simpa using g2, hx⟩⟩
      · rw [if_neg hx] at h
        obtain ⟨a1, a2, a3⟩ := ih r h
        refine ⟨by omega, ?_, a3⟩
        intro i y h1 h2 hy
        by_cases hik : i = k
        · subst hik
          rw [g2] at hy
          cases hy
          omega
        · exact a2 i y h1 (by omega) hy
    | panic => rw [hg] at h; cases h
    | outOfFuel => rw [hg] at h; cases h

theorem truncLen_ok (value : Sl Nat) (hw : value.WF) (maxPos : Nat) : ∀ k, k ≤ value.len →
    ∃ r, truncLen value maxPos k = .ok r := by
  intro k
  induction k with
  | zero => intro _; exact ⟨0, rfl⟩
  | succ k ih =>
    intro hk
    obtain ⟨x, hx, _⟩ := Sl.get_ok_of_lt hw (show k < value.len by omega)
    rw [truncLen, hx]
    simp only
    by_cases hc : x < maxPos
    · rw [if_pos hc]; exact ⟨_, rfl⟩
    · rw [if_neg hc]; exact ih (by omega)


/-- the dividers (with ages) among the first `i` that survive `deage` -/
def deageKept (op : OP) (i : Nat) : List (Nat × Int) := ((divs op).take i).filter (fun x => decide (x.2 ≠ op.age))

theorem deageKept_succ {op : OP} {i : Nat} {x : Nat × Int} (hx : (divs op)[i]? = some x) :
    deageKept op (i + 1) = deageKept op i ++ (if x.2 ≠ op.age then [x] else []) := by
  unfold deageKept
  rw [List.take_add_one, hx, List.filter_append]
  by_cases h : x.2 ≠ op.age
  · simp [h]
  · simp [h]

theorem deageKept_length_le (op : OP) (i : Nat) : (deageKept op i).length ≤ i := by
  unfold deageKept
  have h1 := List.length_filter_le (fun x : Nat × Int => decide (x.2 ≠ op.age)) ((divs op).take i)
  have h2 : ((divs op).take i).length ≤ i := by rw [List.length_take]; omega
  omega

theorem deage_divs_getElem? {op : OP} {i : Nat} {d : Nat} {a : Int} :
    (divs op)[i]? = some (d, a) ↔ op.binDividers.toList[i]? = some d ∧ op.binAges.toList[i]? = some a := by
  unfold divs
  rw [List.getElem?_zip_eq_some]

/-- the part of `deageStep` executed when bins were merged (`i - prev > 1`) -/
def deageMergeBin (op : OP) (j prevDiv di : Nat) : Outcome OP :=
  let op1 : Outcome OP :=
    if j < op.spl then
      let maxPos := ((j - 1) * j) / 2
      match truncLen op.value maxPos op.value.len with
      | .ok k =>
        match op.value.reslice k with
        | .ok value => .ok { op with spl := j, value := value }
        | .panic => .panic
        | .outOfFuel => .outOfFuel
      | .panic => .panic
      | .outOfFuel => .outOfFuel
    else .ok op
  match op1 with
  | .ok op =>
    match op.order.sortRange prevDiv di with
    | .ok order => .ok { op with order := order }
    | .panic => .panic
    | .outOfFuel => .outOfFuel
  | o => o

theorem deageStep_eq (age : Int) (i : Nat) (st : DeageSt) :
    deageStep age i st =
      match st.op.binAges.get i with
      | .ok a =>
        if a ≠ age then
          match st.op.binDividers.get i with
          | .ok di =>
            match st.op.binDividers.set st.j di, st.op.binAges.set st.j a with
            | .ok bd, .ok ages =>
              match (if i > st.prev1 then deageMergeBin { st.op with binDividers := bd, binAges := ages } st.j st.prevDiv di
                     else .ok { st.op with binDividers := bd, binAges := ages }) with
              | .ok op => .ok { op := op, j := st.j + 1, prev1 := i + 1, prevDiv := di }
              | .panic => .panic
              | .outOfFuel => .outOfFuel
            | _, _ => .panic
          | .panic => .panic
          | .outOfFuel => .outOfFuel
        else .ok st
      | .panic => .panic
      | .outOfFuel => .outOfFuel := by
  rfl

theorem deageMergeBin_spec {op op' : OP} {j pd di : Nat} (h : deageMergeBin op j pd di = .ok op') :
    op'.binDividers = op.binDividers ∧ op'.binAges = op.binAges ∧ op'.binsToCheck = op.binsToCheck ∧
      op'.age = op.age ∧ op'.inCell = op.inCell ∧ op.order.sortRange pd di = .ok op'.order ∧
      op'.value.data = op.value.data ∧
      ((op'.spl = op.spl ∧ op'.value = op.value ∧ ¬ j < op.spl) ∨
       (j < op.spl ∧ op'.spl = j ∧ truncLen op.value (((j - 1) * j) / 2) op.value.len = .ok op'.value.len)) := by
  unfold deageMergeBin at h
  by_cases hj : j < op.spl
  · simp only [hj, if_true] at h
    cases ht : truncLen op.value (((j - 1) * j) / 2) op.value.len with
    | ok k =>
      rw [ht] at h
      simp only at h
      cases hr : op.value.reslice k with
      | ok value =>
        rw [hr] at h
        simp only at h
        obtain ⟨r1, r2, _⟩ := Sl.reslice_len hr
        cases hs : op.order.sortRange pd di with
        | ok order =>
          rw [hs] at h
          simp only [Outcome.ok.injEq] at h
          subst h
          exact ⟨rfl, rfl, rfl, rfl, rfl, rfl, r2, Or.inr ⟨hj, rfl, by simp only [r1]⟩⟩
        | panic => rw [hs] at h; cases h
        | outOfFuel => rw [hs] at h; cases h
      | panic => rw [hr] at h; cases h
      | outOfFuel => rw [hr] at h; cases h
    | panic => rw [ht] at h; cases h
    | outOfFuel => rw [ht] at h; cases h
  · simp only [hj, if_false] at h
    cases hs : op.order.sortRange pd di with
    | ok order =>
      rw [hs] at h
      simp only [Outcome.ok.injEq] at h
      subst h
      exact ⟨rfl, rfl, rfl, rfl, rfl, rfl, rfl, Or.inl ⟨rfl, rfl, hj⟩⟩
    | panic => rw [hs] at h; cases h
    | outOfFuel => rw [hs] at h; cases h

theorem deageMergeBin_ok {op : OP} {j pd di : Nat} (hv : op.value.WF) (h1 : pd ≤ di) (h2 : di ≤ op.order.data.size) :
    ∃ op', deageMergeBin op j pd di = .ok op' := by
  unfold deageMergeBin
  by_cases hj : j < op.spl
  · simp only [hj, if_true]
    obtain ⟨k, hk⟩ := truncLen_ok op.value hv (((j - 1) * j) / 2) op.value.len (Nat.le_refl _)
    rw [hk]
    simp only
    obtain ⟨k1, _, _⟩ := truncLen_spec _ _ _ _ hk
    have hr : op.value.reslice k = .ok ⟨op.value.data, k⟩ := Sl.reslice_eq_ok.2 ⟨by unfold Sl.WF at hv; omega, rfl⟩
    rw [hr]
    simp only
    obtain ⟨o, ho⟩ := Sl.deage_sortRange_ok (s := op.order) h1 h2
    rw [ho]
    exact ⟨_, rfl⟩
  · simp only [hj, if_false]
    obtain ⟨o, ho⟩ := Sl.deage_sortRange_ok (s := op.order) h1 h2
    rw [ho]
    exact ⟨_, rfl⟩


/-- every divider is at most `n` -/
theorem PartInv.deage_bd_le {n : Nat} {op : OP} (h : PartInv n op) : ∀ d ∈ op.binDividers.toList, d ≤ n := by
  intro d hd
  obtain ⟨ys, hy⟩ := List.getLast?_eq_some_iff.1 h.last
  have hs := (List.pairwise_cons.1 h.sorted).2
  rw [hy] at hs hd
  rw [List.pairwise_append] at hs
  rcases List.mem_append.1 hd with h1 | h1
  · have := hs.2.2 d h1 n (by simp); omega
  · simp at h1; omega

/-- the start of bin `k` is below the divider `i ≥ k` -/
theorem PartInv.deage_start_lt {n : Nat} {op : OP} (h : PartInv n op) {k i x d : Nat}
    (hx : (0 :: op.binDividers.toList)[k]? = some x) (hd : op.binDividers.toList[i]? = some d) (hki : k ≤ i) : x < d := by
  have hd' : (0 :: op.binDividers.toList)[i + 1]? = some d := by simpa using hd
  obtain ⟨a1, a2⟩ := List.getElem?_eq_some_iff.1 hx
  obtain ⟨b1, b2⟩ := List.getElem?_eq_some_iff.1 hd'
  have := List.pairwise_iff_getElem.1 h.sorted k (i + 1) a1 b1 (by omega)
  rw [a2, b2] at this
  exact this

/-- loop invariant of the main loop of `deage` (after `i` iterations) -/
structure DeageInv (op : OP) (i : Nat) (st : DeageSt) : Prop where
  hj : st.j = (deageKept op i).length
  bdLen : st.op.binDividers.len = op.binDividers.len
  bdSize : st.op.binDividers.data.size = op.binDividers.data.size
  agLen : st.op.binAges.len = op.binAges.len
  agSize : st.op.binAges.data.size = op.binAges.data.size
  bdHi : ∀ k, i ≤ k → st.op.binDividers.data[k]? = op.binDividers.data[k]?
  agHi : ∀ k, i ≤ k → st.op.binAges.data[k]? = op.binAges.data[k]?
  lo : ∀ (k : Nat) (x : Nat × Int), (deageKept op i)[k]? = some x →
    st.op.binDividers.data[k]? = some x.1 ∧ st.op.binAges.data[k]? = some x.2
  prevLe : st.prev1 ≤ i
  prevRemoved : ∀ k, st.prev1 ≤ k → k < i → ∃ d, (divs op)[k]? = some (d, op.age)
  prevDiv : (0 :: op.binDividers.toList)[st.prev1]? = some st.prevDiv
  ordLen : st.op.order.len = op.order.len
  ordSize : st.op.order.data.size = op.order.data.size
  ordPerm : st.op.order.toList.Perm op.order.toList
  ordFrame : ∀ p, (∀ k d, k < i → (divs op)[k]? = some (d, op.age) →
      p < (if k = 0 then 0 else op.binDividers.toList.getD (k - 1) 0)) →
    st.op.order.data[p]? = op.order.data[p]?
  valData : st.op.value.data = op.value.data
  valLen : st.op.value.len ≤ op.value.len
  valCase : (st.op.spl = op.spl ∧ st.op.value.len = op.value.len) ∨
    (st.op.spl < st.j ∧ st.op.spl < op.spl ∧
      (∀ x ∈ (op.value.toList.drop st.op.value.len), ((st.op.spl - 1) * st.op.spl) / 2 ≤ x) ∧
      (st.op.value.len = 0 ∨
        ∃ x, op.value.toList[st.op.value.len - 1]? = some x ∧ x < ((st.op.spl - 1) * st.op.spl) / 2))
  inCell : st.op.inCell = op.inCell
  btc : st.op.binsToCheck = op.binsToCheck
  age : st.op.age = op.age

theorem DeageInv.init (op : OP) : DeageInv op 0 { op := op, j := 0, prev1 := 0, prevDiv := 0 } := by
  constructor <;> simp [deageKept]

theorem DeageInv.skip {op : OP} {st : DeageSt} {i d : Nat} (hinv : DeageInv op i st)
    (hD : (divs op)[i]? = some (d, op.age)) : DeageInv op (i + 1) st := by
  have hk : deageKept op (i + 1) = deageKept op i := by rw [deageKept_succ hD]; simp
  constructor
  · rw [hk]; exact hinv.hj
  · exact hinv.bdLen
  · exact hinv.bdSize
  · exact hinv.agLen
  · exact hinv.agSize
  · intro k hk; exact hinv.bdHi k (by omega)
  · intro k hk; exact hinv.agHi k (by omega)
  · rw [hk]; exact hinv.lo
  · have := hinv.prevLe; omega
  · intro k h1 h2
    by_cases hki : k = i
    · subst hki; exact ⟨d, hD⟩
    · exact hinv.prevRemoved k h1 (by omega)
  · exact hinv.prevDiv
  · exact hinv.ordLen
  · exact hinv.ordSize
  · exact hinv.ordPerm
  · intro p hp
    exact hinv.ordFrame p (fun k d hk => hp k d (by omega))
  · exact hinv.valData
  · exact hinv.valLen
  · exact hinv.valCase
  · exact hinv.inCell
  · exact hinv.btc
  · exact hinv.age

/-- what the (possibly skipped) merge does to `order`, `value` and `spl` -/
theorem deage_merged_facts {n : Nat} {op : OP} {st : DeageSt} {i di : Nat} {a : Int} {bd : Sl Nat} {ages : Sl Int} {opm : OP}
    (h : PartInv n op) (hinv : DeageInv op i st) (hD : (divs op)[i]? = some (di, a))
    (hm : (if i > st.prev1 then deageMergeBin { st.op with binDividers := bd, binAges := ages } st.j st.prevDiv di
           else .ok { st.op with binDividers := bd, binAges := ages }) = .ok opm) :
    opm.binDividers = bd ∧ opm.binAges = ages ∧ opm.binsToCheck = st.op.binsToCheck ∧ opm.age = st.op.age ∧
      opm.inCell = st.op.inCell ∧ opm.value.data = st.op.value.data ∧
      opm.order.len = st.op.order.len ∧ opm.order.data.size = st.op.order.data.size ∧
      opm.order.toList.Perm st.op.order.toList ∧
      (∀ p, ¬ (st.prev1 < i ∧ st.prevDiv ≤ p ∧ p < di) → opm.order.data[p]? = st.op.order.data[p]?) ∧
      ((opm.spl = st.op.spl ∧ opm.value = st.op.value) ∨
       (st.j < st.op.spl ∧ opm.spl = st.j ∧
         truncLen st.op.value (((st.j - 1) * st.j) / 2) st.op.value.len = .ok opm.value.len)) := by
  by_cases hc : i > st.prev1
  · rw [if_pos hc] at hm
    obtain ⟨m1, m2, m3, m4, m5, m6, m7, m8⟩ := deageMergeBin_spec hm
    simp only at m1 m2 m3 m4 m5 m6 m7 m8
    have hw : st.op.order.WF := by
      have := h.wfOrder; unfold Sl.WF at this ⊢; rw [hinv.ordLen, hinv.ordSize]; exact this
    have hdi : di ≤ st.op.order.len := by
      rw [hinv.ordLen, h.lenOrder]
      exact h.deage_bd_le di (List.mem_of_getElem? (deage_divs_getElem?.1 hD).1)
    obtain ⟨s1, s2, s3, s4, _, s6⟩ := Sl.deage_sortRange_spec hw hdi m6
    refine ⟨m1, m2, m3, m4, m5, m7, s2, s3, s6, ?_, ?_⟩
    · intro p hp
      exact s4 p (by omega)
    · rcases m8 with ⟨e1, e2, _⟩ | ⟨e1, e2, e3⟩
      · exact Or.inl ⟨e1, e2⟩
      · exact Or.inr ⟨e1, e2, e3⟩
  · rw [if_neg hc] at hm
    simp only [Outcome.ok.injEq] at hm
    subst hm
    exact ⟨rfl, rfl, rfl, rfl, rfl, rfl, rfl, rfl, List.Perm.refl _, fun _ _ => rfl, Or.inl ⟨rfl, rfl⟩⟩


theorem DeageInv.keep {n : Nat} {op : OP} {st : DeageSt} {i di : Nat} {a : Int} {bd : Sl Nat} {ages : Sl Int} {opm : OP}
    (h : PartInv n op) (hinv : DeageInv op i st) (hD : (divs op)[i]? = some (di, a)) (ha : a ≠ op.age)
    (hs1 : st.op.binDividers.set st.j di = .ok bd) (hs2 : st.op.binAges.set st.j a = .ok ages)
    (hm : (if i > st.prev1 then deageMergeBin { st.op with binDividers := bd, binAges := ages } st.j st.prevDiv di
           else .ok { st.op with binDividers := bd, binAges := ages }) = .ok opm) :
    DeageInv op (i + 1) { op := opm, j := st.j + 1, prev1 := i + 1, prevDiv := di } := by
  obtain ⟨f1, f2, f3, f4, f5, f6, f7, f8, f9, f10, f11⟩ := deage_merged_facts h hinv hD hm
  have hk : deageKept op (i + 1) = deageKept op i ++ [(di, a)] := by rw [deageKept_succ hD]; simp [ha]
  have hji : st.j ≤ i := by rw [hinv.hj]; exact deageKept_length_le op i
  obtain ⟨hb, hag⟩ := deage_divs_getElem?.1 hD
  constructor
  · show st.j + 1 = _
    rw [hk, List.length_append, ← hinv.hj]; rfl
  · show opm.binDividers.len = _
    rw [f1, Sl.set_len hs1]; exact hinv.bdLen
  · show opm.binDividers.data.size = _
    rw [f1, Sl.set_cap hs1]; exact hinv.bdSize
  · show opm.binAges.len = _
    rw [f2, Sl.set_len hs2]; exact hinv.agLen
  · show opm.binAges.data.size = _
    rw [f2, Sl.set_cap hs2]; exact hinv.agSize
  · intro k hk'
    show opm.binDividers.data[k]? = _
    rw [f1, Sl.set_data hs1, if_neg (by omega)]; exact hinv.bdHi k (by omega)
  · intro k hk'
    show opm.binAges.data[k]? = _
    rw [f2, Sl.set_data hs2, if_neg (by omega)]; exact hinv.agHi k (by omega)
  · intro k x hx
    show opm.binDividers.data[k]? = some x.1 ∧ opm.binAges.data[k]? = some x.2
    rw [f1, f2, Sl.set_data hs1, Sl.set_data hs2]
    rw [hk] at hx
    by_cases hkj : k = st.j
    · rw [if_pos hkj, if_pos hkj]
      rw [List.getElem?_append_right (by rw [← hinv.hj]; omega)] at hx
      rw [← hinv.hj, hkj, Nat.sub_self] at hx
      simp at hx; subst hx; exact ⟨rfl, rfl⟩
    · rw [if_neg hkj, if_neg hkj]
      have hlt : k < st.j := by
        have := (List.getElem?_eq_some_iff.1 hx).1
        rw [List.length_append, ← hinv.hj] at this; simp at this; omega
      rw [List.getElem?_append_left (by rw [← hinv.hj]; exact hlt)] at hx
      exact hinv.lo k x hx
  · show i + 1 ≤ i + 1
    exact Nat.le_refl _
  · intro k h1 h2
    have h1' : i + 1 ≤ k := h1
    omega
  · show (0 :: op.binDividers.toList)[i + 1]? = some di
    simpa using hb
  · show opm.order.len = _
    rw [f7]; exact hinv.ordLen
  · show opm.order.data.size = _
    rw [f8]; exact hinv.ordSize
  · exact f9.trans hinv.ordPerm
  · intro p hp
    show opm.order.data[p]? = _
    have hold := hinv.ordFrame p (fun k d hk => hp k d (by omega))
    rw [f10 p ?_, hold]
    rintro ⟨c1, c2, c3⟩
    obtain ⟨d, hd⟩ := hinv.prevRemoved st.prev1 (Nat.le_refl _) c1
    have hlt := hp st.prev1 d (by omega) hd
    have hpd := hinv.prevDiv
    by_cases h0 : st.prev1 = 0
    · rw [if_pos h0] at hlt; omega
    · rw [if_neg h0] at hlt
      obtain ⟨m, hm⟩ : ∃ m, st.prev1 = m + 1 := ⟨st.prev1 - 1, by omega⟩
      rw [hm] at hpd hlt
      simp only [List.getElem?_cons_succ, Nat.add_sub_cancel] at hpd hlt
      rw [List.getD_eq_getElem?_getD, hpd] at hlt
      simp at hlt
      omega
  · show opm.value.data = _
    exact f6.trans hinv.valData
  · show opm.value.len ≤ _
    rcases f11 with ⟨e1, e2⟩ | ⟨e1, e2, e3⟩
    · rw [e2]; exact hinv.valLen
    · obtain ⟨t1, _, _⟩ := truncLen_spec _ _ _ _ e3
      have := hinv.valLen; omega
  · show (opm.spl = op.spl ∧ opm.value.len = op.value.len) ∨
      (opm.spl < st.j + 1 ∧ opm.spl < op.spl ∧
        (∀ x ∈ (op.value.toList.drop opm.value.len), ((opm.spl - 1) * opm.spl) / 2 ≤ x) ∧
        (opm.value.len = 0 ∨
          ∃ x, op.value.toList[opm.value.len - 1]? = some x ∧ x < ((opm.spl - 1) * opm.spl) / 2))
    rcases f11 with ⟨e1, e2⟩ | ⟨e1, e2, e3⟩
    · rw [e1, e2]
      rcases hinv.valCase with c | ⟨c1, c2, c3, c4⟩
      · exact Or.inl c
      · exact Or.inr ⟨by omega, c2, c3, c4⟩
    · rcases hinv.valCase with ⟨c1, c2⟩ | ⟨c1, _⟩
      · obtain ⟨t1, t2, t3⟩ := truncLen_spec _ _ _ _ e3
        rw [e2]
        refine Or.inr ⟨by omega, by omega, ?_, ?_⟩
        · intro x hx
          obtain ⟨idx, hidx⟩ := List.mem_iff_getElem?.1 hx
          rw [List.getElem?_drop, Sl.getElem?_toList] at hidx
          split at hidx
          next hlt =>
            exact t2 (opm.value.len + idx) x (by omega) (by omega) (by rw [hinv.valData]; exact hidx)
          next => cases hidx
        · rcases t3 with t3 | ⟨x, hx1, hx2⟩
          · exact Or.inl t3
          · by_cases hz : opm.value.len = 0
            · exact Or.inl hz
            · refine Or.inr ⟨x, ?_, hx2⟩
              rw [Sl.getElem?_toList, if_pos (by omega), ← hinv.valData]; exact hx1
      · omega
  · show opm.inCell = _
    rw [f5]; exact hinv.inCell
  · show opm.binsToCheck = _
    rw [f3]; exact hinv.btc
  · show opm.age = _
    rw [f4]; exact hinv.age


/-- entry `i` of the original dividers / ages, read through the current state -/
theorem DeageInv.entry {n : Nat} {op : OP} {st : DeageSt} {i : Nat} (h : PartInv n op) (hinv : DeageInv op i st)
    (hi : i < op.binAges.len) :
    ∃ di a, st.op.binDividers.get i = .ok di ∧ st.op.binAges.get i = .ok a ∧ (divs op)[i]? = some (di, a) := by
  have hw1 := h.wfBd; have hw2 := h.wfAges; have hl := h.lenAges
  unfold Sl.WF at hw1 hw2
  have hw1' : st.op.binDividers.WF := by unfold Sl.WF; rw [hinv.bdLen, hinv.bdSize]; exact hw1
  have hw2' : st.op.binAges.WF := by unfold Sl.WF; rw [hinv.agLen, hinv.agSize]; exact hw2
  obtain ⟨di, g1, g2⟩ := Sl.get_ok_of_lt hw1' (show i < st.op.binDividers.len by rw [hinv.bdLen]; omega)
  obtain ⟨a, g3, g4⟩ := Sl.get_ok_of_lt hw2' (show i < st.op.binAges.len by rw [hinv.agLen]; omega)
  refine ⟨di, a, g1, g3, deage_divs_getElem?.2 ⟨?_, ?_⟩⟩
  · rw [Sl.getElem?_toList, if_pos (by omega), ← hinv.bdHi i (Nat.le_refl _)]; exact g2
  · rw [Sl.getElem?_toList, if_pos (by omega), ← hinv.agHi i (Nat.le_refl _)]; exact g4

theorem deageStep_inv {n : Nat} {op : OP} {st st' : DeageSt} {i : Nat} (h : PartInv n op) (hinv : DeageInv op i st)
    (hi : i < op.binAges.len) (hs : deageStep op.age i st = .ok st') : DeageInv op (i + 1) st' := by
  obtain ⟨di, a, g1, g3, hD⟩ := hinv.entry h hi
  rw [deageStep_eq, g3] at hs
  simp only at hs
  by_cases ha : a = op.age
  · subst ha
    rw [if_neg (fun h => h rfl)] at hs
    simp only [Outcome.ok.injEq] at hs
    subst hs
    exact hinv.skip hD
  · rw [if_pos ha, g1] at hs
    simp only at hs
    cases hs1 : st.op.binDividers.set st.j di with
    | ok bd =>
      cases hs2 : st.op.binAges.set st.j a with
      | ok ages =>
        rw [hs1, hs2] at hs
        simp only at hs
        generalize hm : (if i > st.prev1 then deageMergeBin { st.op with binDividers := bd, binAges := ages } st.j st.prevDiv di
           else .ok { st.op with binDividers := bd, binAges := ages }) = m at hs
        cases m with
        | ok opm =>
          simp only [Outcome.ok.injEq] at hs
          subst hs
          exact DeageInv.keep h hinv hD ha hs1 hs2 hm
        | panic => cases hs
        | outOfFuel => cases hs
      | panic => rw [hs1, hs2] at hs; cases hs
      | outOfFuel => rw [hs1, hs2] at hs; cases hs
    | panic => rw [hs1] at hs; cases hs
    | outOfFuel => rw [hs1] at hs; cases hs

theorem deageStep_ok {n : Nat} {op : OP} {st : DeageSt} {i : Nat} (h : PartInv n op) (hinv : DeageInv op i st)
    (hi : i < op.binAges.len) (hv : op.value.WF) : ∃ st', deageStep op.age i st = .ok st' := by
  obtain ⟨di, a, g1, g3, hD⟩ := hinv.entry h hi
  rw [deageStep_eq, g3]
  simp only
  by_cases ha : a = op.age
  · subst ha
    rw [if_neg (fun h => h rfl)]
    exact ⟨_, rfl⟩
  · rw [if_pos ha, g1]
    simp only
    have hw1 := h.wfBd; have hw2 := h.wfAges; have hl := h.lenAges
    unfold Sl.WF at hw1 hw2
    have hw1' : st.op.binDividers.WF := by unfold Sl.WF; rw [hinv.bdLen, hinv.bdSize]; exact hw1
    have hw2' : st.op.binAges.WF := by unfold Sl.WF; rw [hinv.agLen, hinv.agSize]; exact hw2
    have hji : st.j ≤ i := by rw [hinv.hj]; exact deageKept_length_le op i
    have hs1 := Sl.set_ok_of_lt hw1' (show st.j < st.op.binDividers.len by rw [hinv.bdLen]; omega) di
    have hs2 := Sl.set_ok_of_lt hw2' (show st.j < st.op.binAges.len by rw [hinv.agLen]; omega) a
    rw [hs1, hs2]
    simp only
    by_cases hc : i > st.prev1
    · rw [if_pos hc]
      obtain ⟨hb, _⟩ := deage_divs_getElem?.1 hD
      have hvw : st.op.value.WF := by
        unfold Sl.WF at hv ⊢; rw [hinv.valData]; have := hinv.valLen; omega
      have hle : st.prevDiv ≤ di := Nat.le_of_lt (h.deage_start_lt hinv.prevDiv hb hinv.prevLe)
      have hdn : di ≤ st.op.order.data.size := by
        have h1 := h.deage_bd_le di (List.mem_of_getElem? hb)
        have h2 := h.wfOrder; unfold Sl.WF at h2
        rw [hinv.ordSize]; have := h.lenOrder; omega
      obtain ⟨opm, hm⟩ := deageMergeBin_ok (op := { st.op with
        binDividers := ⟨st.op.binDividers.data.setIfInBounds st.j di, st.op.binDividers.len⟩,
        binAges := ⟨st.op.binAges.data.setIfInBounds st.j a, st.op.binAges.len⟩ }) (j := st.j) hvw hle hdn
      rw [hm]
      exact ⟨_, rfl⟩
    · rw [if_neg hc]
      exact ⟨_, rfl⟩


theorem deage_divs_length {n : Nat} {op : OP} (h : PartInv n op) : (divs op).length = op.binAges.len := by
  unfold divs
  rw [List.length_zip, Sl.length_toList _ h.wfBd, Sl.length_toList _ h.wfAges, h.lenAges]
  omega

theorem deageKept_full {n : Nat} {op : OP} (h : PartInv n op) :
    deageKept op op.binAges.len = (divs op).filter (fun x => decide (x.2 ≠ op.age)) := by
  unfold deageKept
  rw [List.take_of_length_le (by rw [deage_divs_length h]; exact Nat.le_refl _)]

theorem deage_divs_last {n : Nat} {op : OP} (h : PartInv n op) (ha : AgeInv op) : ∃ ys, divs op = ys ++ [(n, 0)] := by
  apply List.getLast?_eq_some_iff.1
  rw [List.getLast?_eq_getElem?, deage_divs_length h, deage_divs_getElem?]
  have h1 := h.last
  have h2 := ha.last
  rw [List.getLast?_eq_getElem?, Sl.length_toList _ h.wfBd] at h1
  rw [List.getLast?_eq_getElem?, Sl.length_toList _ h.wfAges] at h2
  rw [← h.lenAges] at h1
  exact ⟨h1, h2⟩

/-- the surviving dividers: still increasing, still ending at `n` with age 0, all ages below the old age -/
theorem deage_filt_facts {n : Nat} {op : OP} (h : PartInv n op) (ha : AgeInv op) (hage : 0 < op.age)
    (K : List (Nat × Int)) (hK : K = (divs op).filter (fun x => decide (x.2 ≠ op.age))) :
    (0 :: K.map Prod.fst).Pairwise (· < ·) ∧ (K.map Prod.fst).getLast? = some n ∧
      (K.map Prod.snd).getLast? = some 0 ∧ (∀ a ∈ K.map Prod.snd, a ≤ op.age - 1) ∧
      (K.map Prod.fst).zip (K.map Prod.snd) = K := by
  have hlen : op.binDividers.toList.length = op.binAges.toList.length := by
    rw [Sl.length_toList _ h.wfBd, Sl.length_toList _ h.wfAges, h.lenAges]
  obtain ⟨ys, hy⟩ := deage_divs_last h ha
  have hK2 : K = ys.filter (fun x => decide (x.2 ≠ op.age)) ++ [(n, 0)] := by
    rw [hK, hy, List.filter_append]
    congr 1
    have : (0 : Int) ≠ op.age := by omega
    simp [this]
  refine ⟨?_, ?_, ?_, ?_, ?_⟩
  · have hsub : (K.map Prod.fst).Sublist op.binDividers.toList := by
      have h1 : K.Sublist (divs op) := by rw [hK]; exact List.filter_sublist
      have h2 := h1.map Prod.fst
      unfold divs at h2
      rw [List.map_fst_zip (by omega)] at h2
      exact h2
    exact List.Pairwise.sublist (List.Sublist.cons_cons 0 hsub) h.sorted
  · rw [hK2]; simp
  · rw [hK2]; simp
  · intro a hmem
    obtain ⟨x, hx, rfl⟩ := List.mem_map.1 hmem
    rw [hK, List.mem_filter] at hx
    obtain ⟨hx1, hx2⟩ := hx
    have hx3 : x.2 ∈ op.binAges.toList := by
      unfold divs at hx1
      exact (List.of_mem_zip (a := x.1) (b := x.2) hx1).2
    have := ha.le _ hx3
    simp at hx2
    omega
  · rw [List.zip_map']
    simp

/-- everything after the main loop -/
theorem deage_of_loop {n : Nat} {op : OP} {st : DeageSt} (h : PartInv n op) (ha : AgeInv op) (hage : 0 < op.age)
    (hloop : forRange (deageStep op.age) op.binAges.len 0 { op := op, j := 0, prev1 := 0, prevDiv := 0 } = .ok st)
    (hinv : DeageInv op op.binAges.len st) :
    ∃ op', deage op = .ok op' ∧
      (PartInv n op' ∧ AgeInv op' ∧ op'.age = op.age - 1 ∧
        divs op' = (divs op).filter (fun x => decide (x.2 ≠ op.age)) ∧
        op'.binsToCheck.len = 0 ∧ op'.binsToCheck.data = op.binsToCheck.data ∧
        op'.value.data = op.value.data ∧ op'.value.len ≤ op.value.len ∧ op'.spl ≤ op.spl ∧
        op'.order.data.size = op.order.data.size ∧ op'.inCell.data.size = op.inCell.data.size ∧
        op'.binDividers.data.size = op.binDividers.data.size ∧ op'.binAges.data.size = op.binAges.data.size) ∧
      op'.order = st.op.order ∧ op'.value = st.op.value ∧ op'.spl = st.op.spl := by
  have hw1 := h.wfBd; have hw2 := h.wfAges; have hl := h.lenAges
  unfold Sl.WF at hw1 hw2
  have hjl : st.j ≤ op.binAges.len := by rw [hinv.hj]; exact deageKept_length_le _ _
  have hkf := deageKept_full h
  have hr1 : st.op.binDividers.reslice st.j = .ok ⟨st.op.binDividers.data, st.j⟩ :=
    Sl.reslice_eq_ok.2 ⟨by rw [hinv.bdSize]; omega, rfl⟩
  have hr2 : st.op.binAges.reslice st.j = .ok ⟨st.op.binAges.data, st.j⟩ :=
    Sl.reslice_eq_ok.2 ⟨by rw [hinv.agSize]; omega, rfl⟩
  have hr3 : st.op.binsToCheck.reslice 0 = .ok ⟨st.op.binsToCheck.data, 0⟩ :=
    Sl.reslice_eq_ok.2 ⟨Nat.zero_le _, rfl⟩
  obtain ⟨k1, k2, k3, k4, k5⟩ := deage_filt_facts h ha hage _ rfl
  have hbd : (⟨st.op.binDividers.data, st.j⟩ : Sl Nat).toList =
      ((divs op).filter (fun x => decide (x.2 ≠ op.age))).map Prod.fst := by
    apply List.ext_getElem?
    intro k
    rw [Sl.getElem?_toList, List.getElem?_map, ← hkf]
    by_cases hk : k < st.j
    · rw [if_pos hk]
      have hk' : k < (deageKept op op.binAges.len).length := by rw [← hinv.hj]; exact hk
      rw [List.getElem?_eq_getElem hk']
      exact (hinv.lo k _ (List.getElem?_eq_getElem hk')).1
    · rw [if_neg hk, List.getElem?_eq_none (by rw [← hinv.hj]; omega)]; rfl
  have hag : (⟨st.op.binAges.data, st.j⟩ : Sl Int).toList =
      ((divs op).filter (fun x => decide (x.2 ≠ op.age))).map Prod.snd := by
    apply List.ext_getElem?
    intro k
    rw [Sl.getElem?_toList, List.getElem?_map, ← hkf]
    by_cases hk : k < st.j
    · rw [if_pos hk]
      have hk' : k < (deageKept op op.binAges.len).length := by rw [← hinv.hj]; exact hk
      rw [List.getElem?_eq_getElem hk']
      exact (hinv.lo k _ (List.getElem?_eq_getElem hk')).2
    · rw [if_neg hk, List.getElem?_eq_none (by rw [← hinv.hj]; omega)]; rfl
  have hwo : st.op.order.WF := by
    have := h.wfOrder; unfold Sl.WF at this ⊢; rw [hinv.ordLen, hinv.ordSize]; exact this
  have hwb : (⟨st.op.binDividers.data, st.j⟩ : Sl Nat).WF := by
    unfold Sl.WF; show st.j ≤ st.op.binDividers.data.size; rw [hinv.bdSize]; omega
  have hwa : (⟨st.op.binAges.data, st.j⟩ : Sl Int).WF := by
    unfold Sl.WF; show st.j ≤ st.op.binAges.data.size; rw [hinv.agSize]; omega
  obtain ⟨ic, hrec, i1, i2, i3, i4⟩ := recomputeInCell_spec (n := n)
    (op := { st.op with binDividers := ⟨st.op.binDividers.data, st.j⟩, binAges := ⟨st.op.binAges.data, st.j⟩,
                        binsToCheck := ⟨st.op.binsToCheck.data, 0⟩ })
    hwo hwb (by show st.op.inCell.WF; rw [hinv.inCell]; exact h.wfInCell)
    (by show st.op.order.len = n; rw [hinv.ordLen]; exact h.lenOrder)
    (by show st.op.inCell.len = n; rw [hinv.inCell]; exact h.lenInCell)
    (hinv.ordPerm.trans h.perm)
    (by show (0 :: (⟨st.op.binDividers.data, st.j⟩ : Sl Nat).toList).Pairwise (· < ·); rw [hbd]; exact k1)
    (by show (⟨st.op.binDividers.data, st.j⟩ : Sl Nat).toList.getLast? = some n; rw [hbd]; exact k2)
  simp only at hrec i3 i4
  refine ⟨{ st.op with binDividers := ⟨st.op.binDividers.data, st.j⟩, binAges := ⟨st.op.binAges.data, st.j⟩,
                        binsToCheck := ⟨st.op.binsToCheck.data, 0⟩, inCell := ic, age := st.op.age - 1 }, ?_, ⟨?_, ?_, ?_, ?_, ?_, ?_, ?_, ?_, ?_, ?_, ?_, ?_, ?_⟩, rfl, rfl, rfl⟩
  · unfold deage
    rw [hloop]
    simp only
    rw [hr1, hr2, hr3]
    simp only
    rw [hrec]
  · constructor
    · exact hwo
    · exact hwb
    · exact hwa
    · exact i1
    · show st.op.order.len = n; rw [hinv.ordLen]; exact h.lenOrder
    · exact i2
    · rfl
    · exact hinv.ordPerm.trans h.perm
    · show (0 :: (⟨st.op.binDividers.data, st.j⟩ : Sl Nat).toList).Pairwise (· < ·); rw [hbd]; exact k1
    · show (⟨st.op.binDividers.data, st.j⟩ : Sl Nat).toList.getLast? = some n; rw [hbd]; exact k2
    · exact i4
  · constructor
    · show ∀ a ∈ (⟨st.op.binAges.data, st.j⟩ : Sl Int).toList, a ≤ st.op.age - 1
      rw [hag, hinv.age]; exact k4
    · show (⟨st.op.binAges.data, st.j⟩ : Sl Int).toList.getLast? = some 0
      rw [hag]; exact k3
  · show st.op.age - 1 = op.age - 1
    rw [hinv.age]
  · show (⟨st.op.binDividers.data, st.j⟩ : Sl Nat).toList.zip (⟨st.op.binAges.data, st.j⟩ : Sl Int).toList = _
    rw [hbd, hag]; exact k5
  · rfl
  · show st.op.binsToCheck.data = _
    rw [hinv.btc]
  · exact hinv.valData
  · exact hinv.valLen
  · show st.op.spl ≤ op.spl
    rcases hinv.valCase with ⟨c, _⟩ | ⟨_, c, _⟩ <;> omega
  · exact hinv.ordSize
  · show ic.data.size = _
    rw [i3, hinv.inCell]
  · exact hinv.bdSize
  · exact hinv.agSize


theorem deage_loop_inv {n : Nat} {op : OP} {st : DeageSt} (h : PartInv n op)
    (hloop : forRange (deageStep op.age) op.binAges.len 0 { op := op, j := 0, prev1 := 0, prevDiv := 0 } = .ok st) :
    DeageInv op op.binAges.len st := by
  have := forRange_inv (deageStep op.age) (fun i st => DeageInv op i st) op.binAges.len 0 _ st (DeageInv.init op)
    (fun i s s' _ hi hP hs => deageStep_inv h hP (by omega) hs) hloop
  simpa using this

theorem deage_loop_total {n : Nat} {op : OP} (h : PartInv n op) (hv : op.value.WF) :
    ∃ st, forRange (deageStep op.age) op.binAges.len 0 { op := op, j := 0, prev1 := 0, prevDiv := 0 } = .ok st := by
  obtain ⟨r, hr, _⟩ := forRange_total (deageStep op.age) (fun i st => DeageInv op i st) op.binAges.len 0 _ (DeageInv.init op)
    (fun i s _ hi hP => by
      obtain ⟨s', hs'⟩ := deageStep_ok h hP (by omega) hv
      exact ⟨s', hs', deageStep_inv h hP (by omega) hs'⟩)
  exact ⟨r, hr⟩

/-- from a successful `deage`, the final state of the main loop -/
theorem deage_loop_of_ok {op op' : OP} (hd : deage op = .ok op') :
    ∃ st, forRange (deageStep op.age) op.binAges.len 0 { op := op, j := 0, prev1 := 0, prevDiv := 0 } = .ok st := by
  cases hloop : forRange (deageStep op.age) op.binAges.len 0 { op := op, j := 0, prev1 := 0, prevDiv := 0 } with
  | ok st => exact ⟨st, rfl⟩
  | panic => unfold deage at hd; rw [hloop] at hd; cases hd
  | outOfFuel => unfold deage at hd; rw [hloop] at hd; cases hd

theorem deage_inv {n : Nat} {op op' : OP} (h : PartInv n op) (ha : AgeInv op) (hage : 0 < op.age)
    (hd : deage op = .ok op') :
    PartInv n op' ∧ AgeInv op' ∧ op'.age = op.age - 1 ∧
      divs op' = (divs op).filter (fun x => decide (x.2 ≠ op.age)) ∧
      op'.binsToCheck.len = 0 ∧ op'.binsToCheck.data = op.binsToCheck.data ∧
      op'.value.data = op.value.data ∧ op'.value.len ≤ op.value.len ∧ op'.spl ≤ op.spl ∧
      op'.order.data.size = op.order.data.size ∧ op'.inCell.data.size = op.inCell.data.size ∧
      op'.binDividers.data.size = op.binDividers.data.size ∧ op'.binAges.data.size = op.binAges.data.size := by
  obtain ⟨st, hloop⟩ := deage_loop_of_ok hd
  obtain ⟨op'', hd', hC, _⟩ := deage_of_loop h ha hage hloop (deage_loop_inv h hloop)
  rw [hd] at hd'
  cases hd'
  exact hC

theorem deage_no_panic {n : Nat} {op : OP} (h : PartInv n op) (ha : AgeInv op) (hage : 0 < op.age)
    (hv : op.value.WF) : ∃ op', deage op = .ok op' := by
  obtain ⟨st, hloop⟩ := deage_loop_total h hv
  obtain ⟨op', hd, _⟩ := deage_of_loop h ha hage hloop (deage_loop_inv h hloop)
  exact ⟨op', hd⟩

/-- if no bin inside the singleton prefix is merged, `value` and `spl` are untouched; otherwise `spl` drops to the index
`j` of the first merged bin and `value` is cut after its last entry `< (j-1)*j/2` -/
theorem deage_value {n : Nat} {op op' : OP} (h : PartInv n op) (ha : AgeInv op) (hage : 0 < op.age)
    (hd : deage op = .ok op') :
    (op'.spl = op.spl ∧ op'.value.len = op.value.len) ∨
    (op'.spl < op.spl ∧
      (∀ x ∈ (op.value.toList.drop op'.value.len), ((op'.spl - 1) * op'.spl) / 2 ≤ x) ∧
      (op'.value.len = 0 ∨ ∃ x, op.value.toList[op'.value.len - 1]? = some x ∧ x < ((op'.spl - 1) * op'.spl) / 2)) := by
  obtain ⟨st, hloop⟩ := deage_loop_of_ok hd
  have hinv := deage_loop_inv h hloop
  obtain ⟨op'', hd', _, _, e2, e3⟩ := deage_of_loop h ha hage hloop hinv
  rw [hd] at hd'
  cases hd'
  rw [e2, e3]
  rcases hinv.valCase with c | ⟨_, c2, c3, c4⟩
  · exact Or.inl c
  · exact Or.inr ⟨c2, c3, c4⟩

/-- positions in front of every merged bin are not touched -/
theorem deage_order_prefix {n : Nat} {op op' : OP} (h : PartInv n op) (ha : AgeInv op) (hage : 0 < op.age)
    (hd : deage op = .ok op') (p : Nat)
    (hp : ∀ k d, (divs op)[k]? = some (d, op.age) → p < (if k = 0 then 0 else (op.binDividers.toList.getD (k - 1) 0))) :
    op'.order.toList[p]? = op.order.toList[p]? := by
  obtain ⟨st, hloop⟩ := deage_loop_of_ok hd
  have hinv := deage_loop_inv h hloop
  obtain ⟨op'', hd', _, e1, _, _⟩ := deage_of_loop h ha hage hloop hinv
  rw [hd] at hd'
  cases hd'
  rw [e1, Sl.getElem?_toList, Sl.getElem?_toList, hinv.ordLen, hinv.ordFrame p (fun k d _ => hp k d)]

/-- `deage` permutes `order` (also part of `PartInv`) -/
theorem deage_order_perm {n : Nat} {op op' : OP} (h : PartInv n op) (ha : AgeInv op) (hage : 0 < op.age)
    (hd : deage op = .ok op') : op'.order.toList.Perm op.order.toList := by
  obtain ⟨st, hloop⟩ := deage_loop_of_ok hd
  have hinv := deage_loop_inv h hloop
  obtain ⟨op'', hd', _, e1, _, _⟩ := deage_of_loop h ha hage hloop hinv
  rw [hd] at hd'
  cases hd'
  rw [e1]
  exact hinv.ordPerm

end CanonF
