import Mamba.Lemmas.SearchResume
/-! What `Next` yields: a graph on exactly `n` vertices whose abstraction is a well-formed graph; arithmetic of sharding. -/
namespace Search

/-- `run` answers `true` only at the head of the outer loop with a graph on `n` vertices -/
theorem run_true_nv (O : Oracle) (pre pr : DG → Bool) :
    ∀ (fuel : Nat) (mode : Mode) (s s' : State), run O pre pr fuel mode s = .ok (s', true) → s'.g.nv = s'.n
  | 0, _, _, _, h => by simp [run] at h
  | f + 1, .outer cont sf, s, s', h => by
    simp only [run] at h
    split at h
    · split at h
      · rename_i hn; cases h; exact hn
      · split at h
        · exact run_true_nv O pre pr f _ _ _ h
        · cases h
        · cases h
    · exact run_true_nv O pre pr f _ _ _ h
  | f + 1, .step sf, s, s', h => by
    simp only [run] at h
    split at h
    · cases h
    · split at h
      · cases h
      · exact run_true_nv O pre pr f _ _ _ h
  | f + 1, .inner sf 0, s, s', h => by
    simp only [run] at h
    split at h
    · split at h
      · cases h
      · exact run_true_nv O pre pr f _ _ _ h
    · cases h
    · cases h
  | f + 1, .inner sf (i + 1), s, s', h => by
    simp only [run] at h
    split at h
    · cases h
    · try simp only at h
      split at h
      · cases h
      · split at h
        · exact run_true_nv O pre pr f _ _ _ h
        · split at h
          · cases h
          · cases h
          · split at h
            · cases h
            · cases h
            · try simp only at h
              split at h
              · exact run_true_nv O pre pr f _ _ _ h
              · split at h
                · cases h
                · cases h
                · split at h
                  · split at h
                    · cases h
                    · exact run_true_nv O pre pr f _ _ _ h
                  · exact run_true_nv O pre pr f _ _ _ h

/-- a graph yielded by `Next` from a state satisfying the invariant has exactly `n` vertices -/
theorem next_true_nv (O : Oracle) (pre pr : DG → Bool) (fuel : Nat) {s s' : State}
    (h : next O pre pr fuel s = .ok (s', true)) (hi : Inv s) : s'.g.nv = s'.n := by
  unfold next at h
  split at h
  · rename_i h0
    split at h
    · cases h; have := hi.le; simp only at *; omega
    · cases h
  · split at h
    · rename_i h1
      try simp only at h
      split at h
      · cases h; simp [DG.single, h1]
      · cases h
    · split at h
      · try simp only at h
        split at h
        · cases h
        · exact run_true_nv O pre pr fuel _ _ _ h
      · exact run_true_nv O pre pr fuel _ _ _ h

/-- the abstraction of any `DenseGraph` value is a well-formed graph -/
theorem toG_wf (g : DG) : g.toG.WF where
  symm := by
    intro u v
    simp only [DG.toG]
    rcases Nat.lt_trichotomy u v with h | h | h
    · have h' : ¬ v < u := Nat.not_lt.2 (Nat.le_of_lt h)
      have hne : (u != v) = true := by simp [Nat.ne_of_lt h]
      have hne' : (v != u) = true := by simp [Nat.ne_of_gt h]
      simp only [hne, hne', h, h', if_true, if_false, Bool.true_and]
      cases decide (u < g.nv) <;> cases decide (v < g.nv) <;> simp
    · subst h; rfl
    · have h' : ¬ u < v := Nat.not_lt.2 (Nat.le_of_lt h)
      have hne : (u != v) = true := by simp [Nat.ne_of_gt h]
      have hne' : (v != u) = true := by simp [Nat.ne_of_lt h]
      simp only [hne, hne', h, h', if_true, if_false, Bool.true_and]
      cases decide (u < g.nv) <;> cases decide (v < g.nv) <;> simp
  irrefl := by intro v; simp [DG.toG]
  supp := by
    intro u v h
    simp only [DG.toG, Bool.and_eq_true, decide_eq_true_eq] at h
    exact ⟨h.1.1.2, h.1.2⟩

/-- every graph collected by `exhaust` from a state satisfying the invariant has `n` vertices and consistent sizes -/
theorem exhaust_outputs (O : Oracle) (pre pr : DG → Bool) (fuel : Nat) :
    ∀ (lim : Nat) (s s' : State) (out : List DG), exhaust O pre pr fuel lim s = .ok (out, s') → Inv s →
      ∀ g ∈ out, g.nv = s.n ∧ g.Sized
  | 0, _, _, _, h, _ => by simp [exhaust] at h
  | k + 1, s, s', out, h, hi => by
    simp only [exhaust] at h
    split at h
    · rename_i s1 hn
      split at h
      · rename_i out' s2 he
        cases h
        have hi1 := next_inv O pre pr fuel hn hi
        have hp : s1.n = s.n := by
          -- parameters never change
          unfold next at hn
          split at hn
          · split at hn <;> cases hn <;> rfl
          · split at hn
            · try simp only at hn
              split at hn <;> cases hn <;> rfl
            · split at hn
              · try simp only at hn
                split at hn
                · cases hn
                · exact (run_inv O pre pr fuel _ _ _ _ hn).1.1
              · exact (run_inv O pre pr fuel _ _ _ _ hn).1.1
        intro g hg
        rcases List.mem_cons.1 hg with rfl | hg
        · exact ⟨(next_true_nv O pre pr fuel hn hi).trans hp, hi1.sized⟩
        · have := exhaust_outputs O pre pr fuel k s1 _ _ he hi1 g hg
          exact ⟨this.1.trans hp, this.2⟩
      · cases h
      · cases h
    · rename_i s1 hn; cases h; intro g hg; cases hg
    · cases h
    · cases h

/-! ### arithmetic of the sharding -/

/-- the split level is one of the levels `1 … n-1` at which children are generated -/
theorem splitLevel_range {n : Nat} (hn : 2 ≤ n) : 1 ≤ splitLevel n ∧ splitLevel n ≤ (n : Int) - 1 := by
  unfold splitLevel
  omega

/-- at the split level every child index belongs to exactly one shard -/
theorem shard_unique (i m : Nat) (hm : 0 < m) : ∃ a, a < m ∧ i % m = a ∧ ∀ b, b < m → i % m = b → b = a :=
  ⟨i % m, Nat.mod_lt i hm, rfl, fun _ _ h => h.symm⟩

end Search
