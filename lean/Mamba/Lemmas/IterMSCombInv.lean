import Mathlib.Algebra.BigOperators.Group.List.Basic
import Mamba.Lemmas.IterBase
import Mamba.Lemmas.IterGeneric
import Mamba.Lemmas.IterMSComb
/-! MultisetCombinations (Algorithm Q): every count vector yielded is a member of the family, outside the shapes of finding F1. -/

set_option linter.unusedSimpArgs false
namespace Iter
open Spec

theorem sum_set_int (l : List Int) (i : Nat) (v : Int) (h : i < l.length) :
    (l.set i v).sum = l.sum - l[i] + v := by
  induction l generalizing i with
  | nil => simp at h
  | cons a l ih =>
    cases i with
    | zero => simp; omega
    | succ i =>
      simp only [List.set_cons_succ, List.sum_cons, List.getElem_cons_succ]
      rw [ih i (by simpa using h)]
      omega

/-- entry `i` of a vector (0 outside) — used in invariants only -/
def G (c : List Int) (i : Nat) : Int := c.getD i 0

theorem G_set (c : List Int) (i j : Nat) (v : Int) :
    G (c.set i v) j = if i = j ∧ i < c.length then v else G c j := by
  simp only [G, List.getD_eq_getElem?_getD, List.getElem?_set]
  by_cases h : i = j
  · subst h
    by_cases hl : i < c.length
    · simp [hl]
    · simp [hl, List.getElem?_eq_none (Nat.le_of_not_lt hl)]
  · simp [h]

theorem sum_set_G (l : List Int) (i : Nat) (v : Int) (h : i < l.length) :
    (l.set i v).sum = l.sum - G l i + v := by
  rw [sum_set_int l i v h]; simp [G, List.getD_eq_getElem?_getD, List.getElem?_eq_getElem h]

theorem get_nat_ok {a : Sl} {i : Nat} {v : Int} (h : get a (i : Int) = .ok v) : i < a.length ∧ G a i = v := by
  rw [get_natCast] at h
  split at h
  · next hl =>
    simp only [Outcome.ok.injEq] at h
    exact ⟨hl, by simp [G, List.getD_eq_getElem?_getD, List.getElem?_eq_getElem hl, h]⟩
  · simp at h

theorem set_nat_ok {a a' : Sl} {i : Nat} {v : Int} (h : set a (i : Int) v = .ok a') :
    i < a.length ∧ a' = a.set i v := by
  rw [set_natCast] at h
  split at h
  · next hl => simp only [Outcome.ok.injEq] at h; exact ⟨hl, h.symm⟩
  · simp at h

/-- prefix sums of the multiplicities -/
def PS (m : List Int) (j : Nat) : Int := (m.take j).sum

theorem PS_succ (m : List Int) (j : Nat) (h : j < m.length) : PS m (j + 1) = PS m j + G m j := by
  simp only [PS, G]
  rw [List.take_add_one, List.sum_append]
  simp [List.getD_eq_getElem?_getD, List.getElem?_eq_getElem h]


/-- step Q5 -/
theorem q5_spec (m : Sl) : ∀ (fuel j : Nat) (x : Int) (st st' : Sl) (r : Option (Int × Int)),
    st.length = m.length → MSComb.q5 m fuel (j : Int) x st = .ok (st', r) →
    st'.length = m.length ∧
    ∀ j' x', r = some (j', x') → ∃ jn : Nat, j' = (jn : Int) ∧ j ≤ jn ∧ jn < m.length ∧
      (∀ i, j ≤ i → i < jn → G st i = G m i ∧ G st' i = 0) ∧
      (∀ i, (i < j ∨ jn ≤ i) → G st' i = G st i) ∧
      x' = x + (PS m jn - PS m j) ∧ G st jn ≠ G m jn ∧
      st'.sum = st.sum - (PS m jn - PS m j) := by
  intro fuel
  induction fuel with
  | zero => intro j x st st' r _ h; simp [MSComb.q5] at h
  | succ fuel ih =>
    intro j x st st' r hl h
    unfold MSComb.q5 at h
    split at h
    · simp only [Outcome.ok.injEq, Prod.mk.injEq] at h
      obtain ⟨h1, h2⟩ := h
      subst h1 h2
      exact ⟨hl, by intro _ _ h; simp at h⟩
    · next hj =>
      have hj' : j < m.length := by omega
      cases hg : get st (j : Int) with
      | ok sj =>
        cases hm : get m (j : Int) with
        | ok mj =>
          simp only [hg, hm, Outcome.bind_ok] at h
          obtain ⟨_, e1⟩ := get_nat_ok hg
          obtain ⟨_, e2⟩ := get_nat_ok hm
          split at h
          · next heq =>
            have heq' : sj = mj := by simpa using heq
            cases hs : set st (j : Int) 0 with
            | ok st1 =>
              simp only [hs, Outcome.bind_ok] at h
              obtain ⟨hjl, e3⟩ := set_nat_ok hs
              have hl1 : st1.length = m.length := by rw [e3]; simpa using hl
              have hc : ((j : Int) + 1) = ((j + 1 : Nat) : Int) := by push_cast; rfl
              rw [hc] at h
              obtain ⟨g1, g2⟩ := ih (j + 1) (x + mj) st1 st' r hl1 h
              refine ⟨g1, ?_⟩
              intro j' x' hr
              obtain ⟨jn, q1, q2, q3, q4, q5, q6, q7, q8⟩ := g2 j' x' hr
              refine ⟨jn, q1, by omega, q3, ?_, ?_, ?_, ?_, ?_⟩
              · intro i hi1 hi2
                by_cases hij : i = j
                · subst hij
                  refine ⟨by rw [e1, e2, heq'], ?_⟩
                  rw [q5 i (Or.inl (by omega)), e3, G_set]; simp [hjl]
                · have := q4 i (by omega) hi2
                  rw [e3, G_set] at this
                  simpa [Ne.symm hij] using this
              · intro i hi
                rw [q5 i (by omega), e3, G_set]
                have : ¬ (j = i ∧ j < st.length) := by omega
                simp [this]
              · rw [q6, PS_succ m j hj', e2]; omega
              · rw [e3, G_set] at q7
                have : ¬ (j = jn ∧ j < st.length) := by omega
                simpa [this] using q7
              · rw [q8, e3, sum_set_G st j 0 hjl, PS_succ m j hj', e1, e2, heq']; omega
            | panic => simp [hs] at h
            | outOfFuel => simp [hs] at h
          · next hne =>
            simp only [Outcome.pure_eq, Outcome.ok.injEq, Prod.mk.injEq] at h
            obtain ⟨h1, h2⟩ := h
            subst h1 h2
            refine ⟨hl, ?_⟩
            intro j' x' hr
            simp only [Option.some.injEq, Prod.mk.injEq] at hr
            obtain ⟨r1, r2⟩ := hr
            refine ⟨j, r1.symm, le_refl _, hj', by intro i h1 h2; omega, by intro i _; rfl, by rw [← r2]; simp,
              ?_, by simp⟩
            rw [e1, e2]; simpa using hne
        | panic => simp [hg, hm] at h
        | outOfFuel => simp [hg, hm] at h
      | panic => simp [hg] at h
      | outOfFuel => simp [hg] at h


/-- step Q2 (greedy refill from index `j`) -/
theorem q2_spec (m : Sl) : ∀ (cnt j : Nat) (x : Int) (st st' : Sl) (x' j' : Int) (b : Bool),
    st.length = m.length → MSComb.q2 m cnt (j : Int) x st = .ok (st', x', j', b) →
    st'.length = m.length ∧ ∃ jn : Nat, j' = (jn : Int) ∧ j ≤ jn ∧
      (∀ i, j ≤ i → i < jn → G st' i = G m i) ∧ (∀ i, i < j → G st' i = G st i) ∧
      (∀ i, jn < i → G st' i = G st i) ∧
      (b = true → jn < m.length ∧ G st' jn = x - (PS m jn - PS m j) ∧ G st' jn ≤ G m jn ∧ x' = 0 ∧
        (0 < x → 0 < G st' jn) ∧ st'.sum = st.sum + x - (PS st (jn + 1) - PS st j) ∧ (0 ≤ x → 0 ≤ G st' jn)) ∧
      (b = false → jn = j + cnt ∧ x' = x - (PS m jn - PS m j) ∧ (0 < x → 0 < x') ∧ G st' jn = G st jn ∧
        st'.sum + x' = st.sum + x - (PS st jn - PS st j) ∧ (0 ≤ x → 0 ≤ x')) := by
  intro cnt
  induction cnt with
  | zero =>
    intro j x st st' x' j' b hl h
    simp only [MSComb.q2, Outcome.ok.injEq, Prod.mk.injEq] at h
    obtain ⟨h1, h2, h3, h4⟩ := h
    subst h1 h2 h3 h4
    exact ⟨hl, j, rfl, le_refl _, by intro i h1 h2; omega, fun _ _ => rfl, fun _ _ => rfl, by simp,
      fun _ => ⟨by simp, by simp, fun h => h, rfl, by simp, fun h => h⟩⟩
  | succ cnt ih =>
    intro j x st st' x' j' b hl h
    unfold MSComb.q2 at h
    cases hm : get m (j : Int) with
    | ok mj =>
      simp only [hm, Outcome.bind_ok] at h
      obtain ⟨hjm, e2⟩ := get_nat_ok hm
      split at h
      · next hgt =>
        cases hs : set st (j : Int) mj with
        | ok st1 =>
          simp only [hs, Outcome.bind_ok] at h
          obtain ⟨hjl, e3⟩ := set_nat_ok hs
          have hl1 : st1.length = m.length := by rw [e3]; simpa using hl
          have hc : ((j : Int) + 1) = ((j + 1 : Nat) : Int) := by push_cast; rfl
          rw [hc] at h
          obtain ⟨g1, jn, q1, q2, q3, q4, q5, q6, q7⟩ := ih (j + 1) (x - mj) st1 st' x' j' b hl1 h
          have hst1 : ∀ i, i ≠ j → G st1 i = G st i := by
            intro i hi; rw [e3, G_set]
            have : ¬ (j = i ∧ j < st.length) := by omega
            simp [this]
          have hst1j : G st1 j = mj := by rw [e3, G_set]; simp [hjl]
          have hsum1 : st1.sum = st.sum - G st j + mj := by rw [e3, sum_set_G st j mj hjl]
          have hPS1 : ∀ t, j < t → PS st1 t - PS st1 (j + 1) = PS st t - PS st (j + 1) := by
            intro t ht
            induction t with
            | zero => omega
            | succ t iht =>
              by_cases htj : t = j
              · subst htj; simp
              · by_cases htl : t < st.length
                · have h1 := PS_succ st1 t (by rw [hl1, ← hl]; exact htl)
                  have h2 := PS_succ st t htl
                  have := iht (by omega)
                  rw [h1, h2, hst1 t htj]; omega
                · have e1 : PS st1 (t + 1) = PS st1 t := by
                    simp only [PS]; rw [List.take_of_length_le (by rw [hl1, ← hl]; omega),
                      List.take_of_length_le (by rw [hl1, ← hl]; omega)]
                  have e2' : PS st (t + 1) = PS st t := by
                    simp only [PS]; rw [List.take_of_length_le (by omega), List.take_of_length_le (by omega)]
                  have := iht (by omega)
                  rw [e1, e2']; exact this
          refine ⟨g1, jn, q1, by omega, ?_, ?_, fun i hi => by rw [q5 i hi, hst1 i (by omega)], ?_, ?_⟩
          · intro i hi1 hi2
            by_cases hij : i = j
            · subst hij; rw [q4 i (by omega), hst1j, e2]
            · exact q3 i (by omega) hi2
          · intro i hi; rw [q4 i (by omega), hst1 i (by omega)]
          · intro hb
            obtain ⟨r1, r2, r3, r4, r5, r6, r7⟩ := q6 hb
            refine ⟨r1, ?_, r3, r4, fun hx => r5 (by omega), ?_, fun hx => r7 (by omega)⟩
            · rw [r2, PS_succ m j hjm, e2]; omega
            · have := hPS1 (jn + 1) (by omega)
              have h2 := PS_succ st j hjl
              rw [r6, hsum1]; omega
          · intro hb
            obtain ⟨r1, r2, r3, r4, r5, r6⟩ := q7 hb
            refine ⟨by omega, ?_, fun hx => r3 (by omega), ?_, ?_, fun hx => r6 (by omega)⟩
            · rw [r2, PS_succ m j hjm, e2]; omega
            · rw [r4, hst1 jn (by omega)]
            · by_cases hjn : jn = j + 1
              · rw [hjn] at r5 ⊢
                have h2 := PS_succ st j hjl
                simp only [sub_self, sub_zero] at r5
                rw [hsum1] at r5; omega
              · have := hPS1 jn (by omega)
                have h2 := PS_succ st j hjl
                rw [hsum1] at r5; omega
        | panic => simp [hs] at h
        | outOfFuel => simp [hs] at h
      · next hle =>
        cases hs : set st (j : Int) x with
        | ok st1 =>
          simp only [hs, Outcome.bind_ok, Outcome.pure_eq, Outcome.ok.injEq, Prod.mk.injEq] at h
          obtain ⟨h1, h2, h3, h4⟩ := h
          subst h1 h2 h3 h4
          obtain ⟨hjl, e3⟩ := set_nat_ok hs
          have hl1 : st1.length = m.length := by rw [e3]; simpa using hl
          refine ⟨hl1, j, rfl, le_refl _, by intro i h1 h2; omega, ?_, ?_, ?_, by simp⟩
          · intro i hi; rw [e3, G_set]
            have : ¬ (j = i ∧ j < st.length) := by omega
            simp [this]
          · intro i hi; rw [e3, G_set]
            have : ¬ (j = i ∧ j < st.length) := by omega
            simp [this]
          · intro _
            have hg : G st1 j = x := by rw [e3, G_set]; simp [hjl]
            refine ⟨hjm, by rw [hg]; simp, by rw [hg, e2]; omega, rfl, fun hx => by rw [hg]; exact hx, ?_,
              fun hx => by rw [hg]; exact hx⟩
            rw [e3, sum_set_G st j x hjl, PS_succ st j hjl]; omega
        | panic => simp [hs] at h
        | outOfFuel => simp [hs] at h
    | panic => simp [hm] at h
    | outOfFuel => simp [hm] at h


/-- first loop of Q7 -/
theorem q7up_spec (m st : Sl) : ∀ (fuel j : Nat) (r : Option Int),
    MSComb.q7up m st fuel (j : Int) = .ok r →
    ∀ j', r = some j' → ∃ jn : Nat, j' = (jn : Int) ∧ j ≤ jn ∧ jn < m.length ∧ jn < st.length ∧
      (∀ i, j ≤ i → i < jn → G st i = G m i) ∧ G st jn ≠ G m jn := by
  intro fuel
  induction fuel with
  | zero => intro j r h; simp [MSComb.q7up] at h
  | succ fuel ih =>
    intro j r h
    unfold MSComb.q7up at h
    cases hg : get st (j : Int) with
    | ok sj =>
      cases hm : get m (j : Int) with
      | ok mj =>
        simp only [hg, hm, Outcome.bind_ok] at h
        obtain ⟨hjl, e1⟩ := get_nat_ok hg
        obtain ⟨hjm, e2⟩ := get_nat_ok hm
        split at h
        · next heq =>
          have heq' : sj = mj := by simpa using heq
          split at h
          · simp only [Outcome.pure_eq, Outcome.ok.injEq] at h
            subst h; intro j' hj'; simp at hj'
          · have hc : ((j : Int) + 1) = ((j + 1 : Nat) : Int) := by push_cast; rfl
            rw [hc] at h
            intro j' hj'
            obtain ⟨jn, q1, q2, q3, q4, q5, q6⟩ := ih (j + 1) r h j' hj'
            refine ⟨jn, q1, by omega, q3, q4, ?_, q6⟩
            intro i hi1 hi2
            by_cases hij : i = j
            · subst hij; rw [e1, e2, heq']
            · exact q5 i (by omega) hi2
        · next hne =>
          simp only [Outcome.pure_eq, Outcome.ok.injEq] at h
          subst h
          intro j' hj'
          simp only [Option.some.injEq] at hj'
          refine ⟨j, hj'.symm, le_refl _, hjm, hjl, by intro i h1 h2; omega, ?_⟩
          rw [e1, e2]; simpa using hne
      | panic => simp [hg, hm] at h
      | outOfFuel => simp [hg, hm] at h
    | panic => simp [hg] at h
    | outOfFuel => simp [hg] at h

/-- second loop of Q7 -/
theorem q7down_spec (st : Sl) : ∀ (fuel j : Nat) (j' : Int),
    MSComb.q7down st fuel (j : Int) = .ok j' →
    ∃ jn : Nat, j' = (jn : Int) ∧ jn ≤ j ∧ jn < st.length ∧ G st jn ≠ 0 ∧ ∀ i, jn < i → i ≤ j → G st i = 0 := by
  intro fuel
  induction fuel with
  | zero => intro j j' h; simp [MSComb.q7down] at h
  | succ fuel ih =>
    intro j j' h
    unfold MSComb.q7down at h
    cases hg : get st (j : Int) with
    | ok sj =>
      simp only [hg, Outcome.bind_ok] at h
      obtain ⟨hjl, e1⟩ := get_nat_ok hg
      split at h
      · next heq =>
        have heq' : sj = 0 := by simpa using heq
        cases j with
        | zero =>
          cases fuel with
          | zero => simp [MSComb.q7down] at h
          | succ f =>
            unfold MSComb.q7down at h
            have : get st (-1) = .panic := get_neg _ _ (by omega)
            simp [this] at h
        | succ t =>
          have hc : (((t + 1 : Nat) : Int) - 1) = (t : Int) := by push_cast; omega
          rw [hc] at h
          obtain ⟨jn, q1, q2, q3, q4, q5⟩ := ih t j' h
          refine ⟨jn, q1, by omega, q3, q4, ?_⟩
          intro i hi1 hi2
          by_cases hit : i = t + 1
          · subst hit; rw [e1, heq']
          · exact q5 i hi1 (by omega)
      · next hne =>
        simp only [Outcome.pure_eq, Outcome.ok.injEq] at h
        refine ⟨j, h.symm, le_refl _, hjl, ?_, by intro i h1 h2; omega⟩
        rw [e1]; simpa using hne
    | panic => simp [hg] at h
    | outOfFuel => simp [hg] at h


theorem PS_step_ge (m : List Int) (t : Nat) (h : m.length ≤ t) : PS m (t + 1) = PS m t := by
  simp only [PS]; rw [List.take_of_length_le (by omega), List.take_of_length_le h]

theorem PS_mono (m : List Int) (hm : ∀ i, i < m.length → 0 ≤ G m i) : ∀ a b, a ≤ b → PS m a ≤ PS m b := by
  intro a b hab
  induction b with
  | zero => have : a = 0 := by omega
            subst this; exact Int.le_refl _
  | succ b ih =>
    by_cases h : a = b + 1
    · subst h; exact Int.le_refl _
    · have := ih (by omega)
      by_cases hb : b < m.length
      · rw [PS_succ m b hb]; have := hm b hb; omega
      · rw [PS_step_ge m b (by omega)]; exact this

theorem PS_zero_range (st : List Int) : ∀ t, t < st.length → (∀ i, 1 ≤ i → i ≤ t → G st i = 0) →
    PS st (t + 1) = G st 0 := by
  intro t
  induction t with
  | zero => intro h _; rw [PS_succ st 0 h]; simp [PS]
  | succ t ih =>
    intro h hz
    rw [PS_succ st (t + 1) h, ih (by omega) (fun i h1 h2 => hz i h1 (by omega)), hz (t + 1) (by omega) (le_refl _)]
    omega

theorem PS_zero' (m : List Int) : PS m 0 = 0 := by simp [PS]

/-- membership in the family, pointwise -/
def InFam (m : List Int) (k : Int) (c : List Int) : Prop :=
  c.length = m.length ∧ (∀ i, i < m.length → 0 ≤ G c i ∧ G c i ≤ G m i) ∧ c.sum = k

/-- all types below `j` are saturated and type 0 is present -/
def ISat (m c : List Int) (j : Nat) : Prop := j < m.length ∧ 0 < G c 0 ∧ ∀ i, i < j → G c i = G m i

/-- `j` is the lowest type present -/
def IZero (m c : List Int) (j : Nat) : Prop := 1 ≤ j ∧ j < m.length ∧ (∀ i, i < j → G c i = 0) ∧ 0 < G c j

/-- the multiplicities on which Algorithm Q as coded is correct (for `k > 0`) -/
structure MGood (m : List Int) : Prop where
  nonneg : ∀ i, i < m.length → 0 ≤ G m i
  first : 1 ≤ G m 0
  notB : ¬ (G m 0 = 1 ∧ G m 1 = 0 ∧ ∃ i, 2 ≤ i ∧ i < m.length ∧ 0 < G m i)

/-- steps Q5, Q6 (and Q2 again) from a state prepared by Q4 -/
theorem stepQ56 (m : List Int) (k : Int) (hm : MGood m) (st1 : List Int) (x : Int) (j1 : Nat)
    (hl : st1.length = m.length) (hj1 : 1 ≤ j1)
    (hz : ∀ i, 1 ≤ i → i < j1 → G st1 i = 0)
    (hb : ∀ i, j1 ≤ i → i < m.length → 0 ≤ G st1 i ∧ G st1 i ≤ G m i)
    (hx0 : 0 ≤ x) (hxb : x + 1 ≤ PS m j1) (hsum : x + (st1.sum - G st1 0) = k - 1)
    (st2 : List Int) (j' x' : Int) (hq5 : MSComb.q5 m (m.length + 1) (j1 : Int) x st1 = .ok (st2, some (j', x')))
    (sj : Int) (hget : get st2 j' = .ok sj) (st3 : List Int) (hset : set st2 j' (sj + 1) = .ok st3) :
    ∃ jn : Nat, j' = (jn : Int) ∧ 0 ≤ x' ∧
    (∀ c', set st3 0 0 = .ok c' → x' = 0 → InFam m k c' ∧ IZero m c' jn) ∧
    (∀ c' a j'' b, MSComb.q2 m m.length 0 x' st3 = .ok (c', a, j'', b) → x' ≠ 0 →
      ∃ j2 : Nat, j'' = (j2 : Int) ∧ InFam m k c' ∧ ISat m c' j2) := by
  obtain ⟨hl2, hq⟩ := q5_spec m (m.length + 1) j1 x st1 st2 _ hl hq5
  obtain ⟨jn, e1, hjn1, hjn2, q4, q5, q6, q7, q8⟩ := hq j' x' rfl
  subst e1
  obtain ⟨hjl2, eg⟩ := get_nat_ok hget
  obtain ⟨_, es⟩ := set_nat_ok hset
  have hmono := PS_mono m hm.nonneg j1 jn hjn1
  have hx'0 : 0 ≤ x' := by omega
  have hG20 : G st2 0 = G st1 0 := q5 0 (Or.inl (by omega))
  have hG2jn : G st2 jn = G st1 jn := q5 jn (Or.inr (le_refl _))
  have hbjn := hb jn hjn1 hjn2
  have hlt : G st1 jn < G m jn := by omega
  have hz2 : ∀ i, 1 ≤ i → i < jn → G st2 i = 0 := by
    intro i h1 h2
    by_cases h3 : i < j1
    · rw [q5 i (Or.inl h3)]; exact hz i h1 h3
    · exact (q4 i (by omega) h2).2
  have hl3 : st3.length = m.length := by rw [es]; simpa using hl2
  have hG3 : ∀ i, G st3 i = if i = jn then G st1 jn + 1 else G st2 i := by
    intro i; rw [es, G_set]
    by_cases h : jn = i
    · subst h; simp only [hjl2, and_self, if_true]; rw [← eg, hG2jn]
    · have : ¬ (i = jn) := fun h' => h h'.symm
      simp [h, this]
  have hsum3 : st3.sum = st2.sum + 1 := by rw [es, sum_set_G st2 jn _ hjl2, eg]; omega
  have hxb' : x' + 1 ≤ PS m jn := by omega
  have hsum2 : x' + (st2.sum - G st2 0) = k - 1 := by rw [hG20, q8, q6]; omega
  refine ⟨jn, rfl, hx'0, ?_, ?_⟩
  · intro c' hc' hx'
    obtain ⟨h0l, ec⟩ := set_nat_ok (i := 0) (by simpa using hc')
    have hGc : ∀ i, G c' i = if i = 0 then 0 else G st3 i := by
      intro i; rw [ec, G_set]
      by_cases h : i = 0
      · subst h; simp [h0l]
      · have : ¬ (0 = i) := fun h' => h h'.symm
        simp [h, this]
    refine ⟨⟨by rw [ec]; simpa using hl3, ?_, ?_⟩, by omega, hjn2, ?_, ?_⟩
    · intro i hi
      rw [hGc i]
      by_cases h0 : i = 0
      · subst h0; simp; exact hm.nonneg 0 hi
      · simp only [h0, if_false]; rw [hG3 i]
        by_cases h1 : i = jn
        · subst h1; simp; omega
        · simp only [h1, if_false]
          by_cases h2 : i < jn
          · rw [hz2 i (by omega) h2]; exact ⟨Int.le_refl _, hm.nonneg i hi⟩
          · rw [q5 i (Or.inr (by omega))]; exact hb i (by omega) hi
    · rw [ec, sum_set_G st3 0 0 h0l, hsum3]
      have : G st3 0 = G st2 0 := by rw [hG3 0]; have : ¬ (0 = jn) := by omega
                                     simp [this]
      rw [this]; omega
    · intro i hi
      rw [hGc i]
      by_cases h0 : i = 0
      · simp [h0]
      · simp only [h0, if_false]; rw [hG3 i]
        have : ¬ i = jn := by omega
        simp only [this, if_false]; exact hz2 i (by omega) hi
    · rw [hGc jn]
      have : ¬ jn = 0 := by omega
      simp only [this, if_false]; rw [hG3 jn]; simp; omega
  · intro c' a j'' b hq2 hx'
    have hx'pos : 0 < x' := by omega
    obtain ⟨hlc, j2, e2, _, r3, _, r5, r6, r7⟩ := q2_spec m m.length 0 x' st3 c' a j'' b hl3 (by simpa using hq2)
    have hbt : b = true := by
      cases b with
      | true => rfl
      | false =>
        obtain ⟨t1, t2, t3, _, _, _⟩ := r7 rfl
        have := t3 hx'pos
        have hm2 := PS_mono m hm.nonneg jn j2 (by omega)
        rw [PS_zero'] at t2; omega
    obtain ⟨s1, s2, s3, s4, s5, s6, _⟩ := r6 hbt
    have hj2pos := s5 hx'pos
    rw [PS_zero'] at s2
    have hj2lt : j2 < jn := by
      by_contra hc
      have := PS_mono m hm.nonneg jn j2 (by omega)
      omega
    have hz3 : ∀ i, 1 ≤ i → i ≤ j2 → G st3 i = 0 := by
      intro i h1 h2; rw [hG3 i]
      have : ¬ i = jn := by omega
      simp only [this, if_false]; exact hz2 i h1 (by omega)
    have hPS3 := PS_zero_range st3 j2 (by rw [hl3]; exact s1) hz3
    have hG30 : G st3 0 = G st2 0 := by
      rw [hG3 0]; have : ¬ (0 = jn) := by omega
      simp [this]
    refine ⟨j2, e2, ⟨hlc, ?_, ?_⟩, s1, ?_, fun i hi => r3 i (by omega) hi⟩
    · intro i hi
      by_cases h1 : i < j2
      · rw [r3 i (by omega) h1]; exact ⟨hm.nonneg i hi, Int.le_refl _⟩
      · by_cases h2 : i = j2
        · subst h2; exact ⟨by omega, s3⟩
        · rw [r5 i (by omega), hG3 i]
          by_cases h3 : i = jn
          · subst h3; simp; omega
          · simp only [h3, if_false]
            by_cases h4 : i < jn
            · rw [hz2 i (by omega) h4]; exact ⟨Int.le_refl _, hm.nonneg i hi⟩
            · rw [q5 i (Or.inr (by omega))]; exact hb i (by omega) hi
    · rw [s6, hPS3, PS_zero', hsum3, hG30]; omega
    · by_cases h0 : j2 = 0
      · subst h0; exact hj2pos
      · rw [r3 0 (by omega) (by omega)]; have := hm.first; omega


/-- step Q7 -/
theorem stepQ7 (m : List Int) (k : Int) (hm : MGood m) (c : List Int) (j : Nat) (hfam : InFam m k c)
    (hsat : ISat m c j) (hjpos : 1 ≤ j)
    (j' : Int) (hup : MSComb.q7up m c (m.length + 1) (j : Int) = .ok (some j'))
    (sj : Int) (hget : get c j' = .ok sj) (c1 : List Int) (hset : set c j' (sj + 1) = .ok c1)
    (j2 : Int) (hdown : MSComb.q7down c1 (c1.length + 2) (j' - 1) = .ok j2)
    (sj2 : Int) (hget2 : get c1 j2 = .ok sj2) (c2 : List Int) (hset2 : set c1 j2 (sj2 - 1) = .ok c2)
    (s0 : Int) (hget0 : get c2 0 = .ok s0) :
    ∃ jf : Nat, (if s0 == 0 then 1 else j2) = (jf : Int) ∧ InFam m k c2 ∧ (ISat m c2 jf ∨ IZero m c2 jf) := by
  obtain ⟨hl, hbnd, hsum⟩ := hfam
  obtain ⟨_, hc0, hsatj⟩ := hsat
  obtain ⟨jn, e1, hjn1, hjn2, hjn3, u5, u6⟩ := q7up_spec m c (m.length + 1) j _ hup j' rfl
  subst e1
  obtain ⟨_, eg⟩ := get_nat_ok hget
  obtain ⟨_, es⟩ := set_nat_ok hset
  have hsat' : ∀ i, i < jn → G c i = G m i := by
    intro i hi
    by_cases h : i < j
    · exact hsatj i h
    · exact u5 i (by omega) hi
  have hbjn := hbnd jn hjn2
  have hlt : G c jn < G m jn := by omega
  have hG1 : ∀ i, G c1 i = if i = jn then G c jn + 1 else G c i := by
    intro i; rw [es, G_set]
    by_cases h : jn = i
    · subst h; simp only [hjn3, and_self, if_true]; rw [← eg]
    · have : ¬ (i = jn) := fun h' => h h'.symm
      simp [h, this]
  have hl1 : c1.length = m.length := by rw [es]; simpa using hl
  have hsum1 : c1.sum = c.sum + 1 := by rw [es, sum_set_G c jn _ hjn3, eg]; omega
  have hc : ((jn : Int) - 1) = ((jn - 1 : Nat) : Int) := by omega
  rw [hc] at hdown
  obtain ⟨jd, e2, d1, d2, d3, d4⟩ := q7down_spec c1 (c1.length + 2) (jn - 1) j2 hdown
  subst e2
  obtain ⟨_, eg2⟩ := get_nat_ok hget2
  obtain ⟨_, es2⟩ := set_nat_ok hset2
  have hjd : jd < jn := by omega
  have hG1jd : G c1 jd = G m jd := by
    rw [hG1 jd]; have : ¬ jd = jn := by omega
    simp only [this, if_false]; exact hsat' jd hjd
  have hmjd : 1 ≤ G m jd := by
    have := hm.nonneg jd (by omega); rw [hG1jd] at d3; omega
  have hG2 : ∀ i, G c2 i = if i = jd then G m jd - 1 else G c1 i := by
    intro i; rw [es2, G_set]
    by_cases h : jd = i
    · subst h; simp only [d2, and_self, if_true]; rw [← eg2, hG1jd]
    · have : ¬ (i = jd) := fun h' => h h'.symm
      simp [h, this]
  have hl2 : c2.length = m.length := by rw [es2]; simpa using hl1
  have hsum2 : c2.sum = k := by rw [es2, sum_set_G c1 jd _ d2, eg2, hsum1, hsum]; omega
  obtain ⟨h0l, eg0⟩ := get_nat_ok (i := 0) (by simpa using hget0)
  have hfam2 : InFam m k c2 := by
    refine ⟨hl2, ?_, hsum2⟩
    intro i hi
    rw [hG2 i]
    by_cases h1 : i = jd
    · subst h1; simp only [if_true]; omega
    · simp only [h1, if_false]; rw [hG1 i]
      by_cases h2 : i = jn
      · subst h2; simp only [if_true]; omega
      · simp only [h2, if_false]; exact hbnd i hi
  by_cases hs0 : s0 = 0
  · -- type 0 ran empty
    have hjd0 : jd = 0 := by
      by_contra hne
      have : G c2 0 = G c 0 := by
        rw [hG2 0]; have h1 : ¬ (0 = jd) := fun h => hne h.symm
        simp only [h1, if_false]; rw [hG1 0]
        have h2 : ¬ (0 = jn) := by omega
        simp [h2]
      omega
    subst hjd0
    have hm0 : G m 0 = 1 := by
      have := hG2 0; simp only [if_true] at this; omega
    refine ⟨1, by simp [hs0], hfam2, Or.inr ⟨le_refl _, by omega, ?_, ?_⟩⟩
    · intro i hi
      have : i = 0 := by omega
      subst this; omega
    · by_cases hjn1' : jn = 1
      · subst hjn1'
        rw [hG2 1]; simp only [show ¬ (1 = 0) by omega, if_false]; rw [hG1 1]; simp only [if_true]
        have := (hbnd 1 hjn2).1; omega
      · exfalso
        apply hm.notB
        refine ⟨hm0, ?_, jn, by omega, hjn2, by omega⟩
        have h1 := d4 1 (by omega) (by omega)
        rw [hG1 1] at h1
        have : ¬ (1 = jn) := fun h => hjn1' h.symm
        simp only [this, if_false] at h1
        rw [← hsat' 1 (by omega)]; exact h1
  · refine ⟨jd, by simp [hs0], hfam2, Or.inl ⟨by omega, ?_, ?_⟩⟩
    · have := (hfam2.2.1 0 (by omega)).1; omega
    · intro i hi
      rw [hG2 i]; have h1 : ¬ i = jd := by omega
      simp only [h1, if_false]; rw [hG1 i]
      have h2 : ¬ i = jn := by omega
      simp only [h2, if_false]; exact hsat' i (by omega)


theorem PS_one (m : List Int) (h : 0 < m.length) : PS m 1 = G m 0 := by
  rw [PS_succ m 0 h, PS_zero']; omega

theorem PS_nonneg (m : List Int) (hm : ∀ i, i < m.length → 0 ≤ G m i) (j : Nat) : 0 ≤ PS m j := by
  have := PS_mono m hm 0 j (by omega); rw [PS_zero'] at this; exact this

theorem MGood.ne_nil {m : List Int} (hm : MGood m) : 0 < m.length := by
  by_contra h
  have : m = [] := List.length_eq_zero_iff.mp (by omega)
  have h1 := hm.first
  subst this
  simp [G] at h1

/-- one successful call of `next()` after the first: the invariant of Algorithm Q is preserved -/
theorem MSComb.next0_some (m : List Int) (k : Int) (hm : MGood m) (hk : 0 < k) (s s' : MSComb) (c : List Int)
    (j : Nat) (hs : s.state = some c) (hsm : s.m = m) (hsk : s.k = k) (hsj : s.j = (j : Int))
    (hfam : InFam m k c) (hinv : ISat m c j ∨ IZero m c j) (h : MSComb.next0 s = .ok (s', true)) :
    ∃ c' j', s'.state = some c' ∧ s'.m = m ∧ s'.k = k ∧ s'.j = ((j' : Nat) : Int) ∧ s'.done = s.done ∧
      s'.value = s.value ∧ InFam m k c' ∧ (ISat m c' j' ∨ IZero m c' j') ∧ s'.all = s.all ∧ s'.freq = s.freq := by
  have hlen := hm.ne_nil
  have hk0 : (k == 0) = false := by rw [beq_eq_false_iff_ne]; omega
  have hl0 : (m.length == 0) = false := by rw [beq_eq_false_iff_ne]; omega
  unfold MSComb.next0 at h
  simp only [hs, hsm, hsk, hk0, hl0, Bool.or_self, Bool.false_eq_true, if_false] at h
  obtain ⟨hl, hbnd, hsum⟩ := hfam
  cases hg0 : get c 0 with
  | panic => simp [hg0] at h
  | outOfFuel => simp [hg0] at h
  | ok s0 =>
    simp only [hg0, Outcome.bind_ok] at h
    obtain ⟨_, e0⟩ := get_nat_ok (i := 0) (by simpa using hg0)
    by_cases hj0 : j = 0
    · -- Q4, first case
      subst hj0
      have hsj' : s.j = 0 := by simpa using hsj
      simp only [hsj', beq_self_eq_true, if_true, Outcome.pure_eq, Outcome.bind_ok] at h
      have hsat : ISat m c 0 := by
        rcases hinv with h1 | h1
        · exact h1
        · have := h1.1; omega
      have hc0 := hsat.2.1
      cases hq5 : MSComb.q5 m (m.length + 1) 1 (s0 - 1) c with
      | panic => simp [hq5] at h
      | outOfFuel => simp [hq5] at h
      | ok r5 =>
        obtain ⟨st2, r⟩ := r5
        simp only [hq5, Outcome.bind_ok] at h
        cases r with
        | none => simp at h
        | some jx =>
          obtain ⟨j', x'⟩ := jx
          simp only at h
          cases hget : get st2 j' with
          | panic => simp [hget] at h
          | outOfFuel => simp [hget] at h
          | ok sj =>
            simp only [hget, Outcome.bind_ok] at h
            cases hset : set st2 j' (sj + 1) with
            | panic => simp [hset] at h
            | outOfFuel => simp [hset] at h
            | ok st3 =>
              simp only [hset, Outcome.bind_ok] at h
              obtain ⟨jn, ej, hx'0, K1, K2⟩ := stepQ56 m k hm c (s0 - 1) 1 hl (le_refl _)
                (by intro i h1 h2; omega) (fun i _ hi => hbnd i hi) (by omega)
                (by rw [PS_one m hlen]; have := (hbnd 0 hlen).2; omega) (by omega)
                st2 j' x' (by simpa using hq5) sj hget st3 hset
              by_cases hx' : x' = 0
              · simp only [hx', beq_self_eq_true, if_true] at h
                cases hset0 : set st3 0 0 with
                | panic => simp [hset0] at h
                | outOfFuel => simp [hset0] at h
                | ok c' =>
                  simp only [hset0, Outcome.bind_ok, Outcome.pure_eq, Outcome.ok.injEq, Prod.mk.injEq, and_true] at h
                  obtain ⟨f1, f2⟩ := K1 c' hset0 hx'
                  refine ⟨c', jn, ?_, ?_, ?_, ?_, ?_, ?_, f1, Or.inr f2, ?_, ?_⟩ <;> simp [← h, hsm, hsk, ej]
              · have hx'b : (x' == 0) = false := by simpa using hx'
                simp only [hx'b, Bool.false_eq_true, if_false] at h
                cases hq2 : MSComb.q2 m m.length 0 x' st3 with
                | panic => simp [hq2] at h
                | outOfFuel => simp [hq2] at h
                | ok r2 =>
                  obtain ⟨c', a, j'', b⟩ := r2
                  simp only [hq2, Outcome.bind_ok, Outcome.pure_eq, Outcome.ok.injEq, Prod.mk.injEq, and_true] at h
                  obtain ⟨j2, e2, f1, f2⟩ := K2 c' a j'' b hq2 hx'
                  refine ⟨c', j2, ?_, ?_, ?_, ?_, ?_, ?_, f1, Or.inl f2, ?_, ?_⟩ <;> simp [← h, hsm, hsk, e2]
    · have hsj0 : (s.j == 0) = false := by rw [beq_eq_false_iff_ne, hsj]; omega
      simp only [hsj0, Bool.false_eq_true, if_false] at h
      by_cases hs0 : s0 = 0
      · -- Q4, second case: `j` is the lowest type present
        have hzero : IZero m c j := by
          rcases hinv with h1 | h1
          · have := h1.2.1; omega
          · exact h1
        obtain ⟨_, hjl, hzz, hcj⟩ := hzero
        simp only [hs0, beq_self_eq_true, if_true, hsj] at h
        cases hgj : get c (j : Int) with
        | panic => simp [hgj] at h
        | outOfFuel => simp [hgj] at h
        | ok cj =>
          simp only [hgj, Outcome.bind_ok] at h
          obtain ⟨hjc, ecj⟩ := get_nat_ok hgj
          cases hsj1 : set c (j : Int) 0 with
          | panic => simp [hsj1] at h
          | outOfFuel => simp [hsj1] at h
          | ok st1 =>
            simp only [hsj1, Outcome.bind_ok, Outcome.pure_eq] at h
            obtain ⟨_, es1⟩ := set_nat_ok hsj1
            have hG1 : ∀ i, G st1 i = if i = j then 0 else G c i := by
              intro i; rw [es1, G_set]
              by_cases hh : j = i
              · subst hh; simp [hjc]
              · have : ¬ (i = j) := fun h' => hh h'.symm
                simp [hh, this]
            have hl1 : st1.length = m.length := by rw [es1]; simpa using hl
            have hc : ((j : Int) + 1) = ((j + 1 : Nat) : Int) := by push_cast; rfl
            cases hq5 : MSComb.q5 m (m.length + 1) ((j : Int) + 1) (cj - 1) st1 with
            | panic => simp [hq5] at h
            | outOfFuel => simp [hq5] at h
            | ok r5 =>
              obtain ⟨st2, r⟩ := r5
              simp only [hq5, Outcome.bind_ok] at h
              cases r with
              | none => simp at h
              | some jx =>
                obtain ⟨j', x'⟩ := jx
                simp only at h
                cases hget : get st2 j' with
                | panic => simp [hget] at h
                | outOfFuel => simp [hget] at h
                | ok sj =>
                  simp only [hget, Outcome.bind_ok] at h
                  cases hset : set st2 j' (sj + 1) with
                  | panic => simp [hset] at h
                  | outOfFuel => simp [hset] at h
                  | ok st3 =>
                    simp only [hset, Outcome.bind_ok] at h
                    have hPSj := PS_nonneg m hm.nonneg j
                    obtain ⟨jn, ej, hx'0, K1, K2⟩ := stepQ56 m k hm st1 (cj - 1) (j + 1) hl1 (by omega)
                      (by
                        intro i h1 h2; rw [hG1 i]
                        by_cases hij : i = j
                        · simp [hij]
                        · simp only [hij, if_false]; exact hzz i (by omega))
                      (by
                        intro i h1 h2; rw [hG1 i]
                        have : ¬ i = j := by omega
                        simp only [this, if_false]; exact hbnd i h2)
                      (by omega)
                      (by rw [PS_succ m j hjl]; have := (hbnd j hjl).2; omega)
                      (by
                        have h0 : G st1 0 = 0 := by
                          rw [hG1 0]; have : ¬ (0 = j) := by omega
                          simp only [this, if_false]; omega
                        rw [h0, es1, sum_set_G c j 0 hjc, ecj]; omega)
                      st2 j' x' (by rw [← hc]; exact hq5) sj hget st3 hset
                    by_cases hx' : x' = 0
                    · simp only [hx', beq_self_eq_true, if_true] at h
                      cases hset0 : set st3 0 0 with
                      | panic => simp [hset0] at h
                      | outOfFuel => simp [hset0] at h
                      | ok c' =>
                        simp only [hset0, Outcome.bind_ok, Outcome.pure_eq, Outcome.ok.injEq, Prod.mk.injEq, and_true] at h
                        obtain ⟨f1, f2⟩ := K1 c' hset0 hx'
                        refine ⟨c', jn, ?_, ?_, ?_, ?_, ?_, ?_, f1, Or.inr f2, ?_, ?_⟩ <;> simp [← h, hsm, hsk, ej]
                    · have hx'b : (x' == 0) = false := by simpa using hx'
                      simp only [hx'b, Bool.false_eq_true, if_false] at h
                      cases hq2 : MSComb.q2 m m.length 0 x' st3 with
                      | panic => simp [hq2] at h
                      | outOfFuel => simp [hq2] at h
                      | ok r2 =>
                        obtain ⟨c', a, j'', b⟩ := r2
                        simp only [hq2, Outcome.bind_ok, Outcome.pure_eq, Outcome.ok.injEq, Prod.mk.injEq, and_true] at h
                        obtain ⟨j2, e2, f1, f2⟩ := K2 c' a j'' b hq2 hx'
                        refine ⟨c', j2, ?_, ?_, ?_, ?_, ?_, ?_, f1, Or.inl f2, ?_, ?_⟩ <;> simp [← h, hsm, hsk, e2]
      · -- Q7
        have hs0b : (s0 == 0) = false := by simpa using hs0
        simp only [hs0b, Bool.false_eq_true, if_false, Outcome.pure_eq, Outcome.bind_ok, hsj] at h
        have hsat : ISat m c j := by
          rcases hinv with h1 | h1
          · exact h1
          · have := h1.2.2.1 0 (by omega); omega
        cases hup : MSComb.q7up m c (m.length + 1) (j : Int) with
        | panic => simp [hup] at h
        | outOfFuel => simp [hup] at h
        | ok r =>
          simp only [hup, Outcome.bind_ok] at h
          cases r with
          | none => simp at h
          | some j' =>
            simp only at h
            cases hget : get c j' with
            | panic => simp [hget] at h
            | outOfFuel => simp [hget] at h
            | ok sj =>
              simp only [hget, Outcome.bind_ok] at h
              cases hset : set c j' (sj + 1) with
              | panic => simp [hset] at h
              | outOfFuel => simp [hset] at h
              | ok c1 =>
                simp only [hset, Outcome.bind_ok] at h
                cases hdown : MSComb.q7down c1 (c1.length + 2) (j' - 1) with
                | panic => simp [hdown] at h
                | outOfFuel => simp [hdown] at h
                | ok j2 =>
                  simp only [hdown, Outcome.bind_ok] at h
                  cases hget2 : get c1 j2 with
                  | panic => simp [hget2] at h
                  | outOfFuel => simp [hget2] at h
                  | ok sj2 =>
                    simp only [hget2, Outcome.bind_ok] at h
                    cases hset2 : set c1 j2 (sj2 - 1) with
                    | panic => simp [hset2] at h
                    | outOfFuel => simp [hset2] at h
                    | ok c2 =>
                      simp only [hset2, Outcome.bind_ok] at h
                      cases hget0 : get c2 0 with
                      | panic => simp [hget0] at h
                      | outOfFuel => simp [hget0] at h
                      | ok t0 =>
                        simp only [hget0, Outcome.bind_ok, Outcome.pure_eq, Outcome.ok.injEq, Prod.mk.injEq,
                          and_true] at h
                        obtain ⟨jf, ejf, f1, f2⟩ := stepQ7 m k hm c j ⟨hl, hbnd, hsum⟩ hsat (by omega) j' hup sj hget
                          c1 hset j2 hdown sj2 hget2 c2 hset2 t0 hget0
                        have ejf' : (if t0 = 0 then 1 else j2) = (jf : Int) := by simpa using ejf
                        refine ⟨c2, jf, ?_, ?_, ?_, ?_, ?_, ?_, f1, f2, ?_, ?_⟩ <;> simp [← h, hsm, hsk, ejf']


theorem sum_replicate_zero (n : Nat) : (List.replicate n (0 : Int)).sum = 0 := by
  induction n with
  | zero => simp
  | succ n ih => simp [List.replicate_succ, ih]

theorem G_replicate_zero (n i : Nat) : G (List.replicate n (0 : Int)) i = 0 := by
  simp only [G, List.getD_eq_getElem?_getD, List.getElem?_replicate]
  split <;> simp

theorem PS_replicate_zero (n j : Nat) : PS (List.replicate n (0 : Int)) j = 0 := by
  simp [PS, List.take_replicate]

theorem G_mem_nonneg (m : List Int) (hm : ∀ v ∈ m, 0 ≤ v) (i : Nat) (hi : i < m.length) : 0 ≤ G m i := by
  simp only [G, List.getD_eq_getElem?_getD, List.getElem?_eq_getElem hi, Option.getD_some]
  exact hm _ (List.getElem_mem hi)

/-- the shapes excluded by finding F1, pointwise -/
theorem msKnownBad_false_first (m : List Int) (hm : ∀ v ∈ m, 0 ≤ v) (hb : msKnownBad m = false)
    (h1 : 1 ≤ G m 0) : MGood m := by
  refine ⟨G_mem_nonneg m hm, h1, ?_⟩
  rintro ⟨e0, e1, i, hi2, hil, hpos⟩
  match m, hb, hm, e0, e1, hil, hpos with
  | [], _, _, e0, _, _, _ => simp [G] at e0
  | [a], _, _, _, _, hil, _ => simp at hil; omega
  | a :: b :: rest, hb, hm, e0, e1, hil, hpos =>
    have ha : a = 1 := by simpa [G] using e0
    have hb' : b = 0 := by simpa [G] using e1
    subst ha hb'
    simp only [msKnownBad, List.any_eq_false, decide_eq_true_eq] at hb
    obtain ⟨t, rfl⟩ : ∃ t, i = t + 2 := ⟨i - 2, by omega⟩
    have hlt : t < rest.length := by simpa using hil
    have : G (1 :: 0 :: rest) (t + 2) = rest[t] := by
      simp [G, List.getD_eq_getElem?_getD, List.getElem?_eq_getElem hlt]
    rw [this] at hpos
    exact hb _ (List.getElem_mem hlt) hpos

theorem msKnownBad_false_zero (m : List Int) (hm : ∀ v ∈ m, 0 ≤ v) (hb : msKnownBad m = false)
    (h0 : G m 0 = 0) : ∀ i, G m i = 0 := by
  intro i
  match m, hb, hm, h0 with
  | [], _, _, _ => simp [G]
  | a :: rest, hb, hm, h0 =>
    have ha : a = 0 := by simpa [G] using h0
    subst ha
    simp only [msKnownBad, List.any_eq_false, decide_eq_true_eq] at hb
    cases i with
    | zero => simp [G]
    | succ t =>
      by_cases hlt : t < rest.length
      · have : G (0 :: rest) (t + 1) = rest[t] := by
          simp [G, List.getD_eq_getElem?_getD, List.getElem?_eq_getElem hlt]
        rw [this]
        have h1 := hb _ (List.getElem_mem hlt)
        have h2 := hm rest[t] (by simp)
        omega
      · simp [G, List.getD_eq_getElem?_getD, List.getElem?_eq_none (Nat.le_of_not_lt hlt)]

/-- the first call of `next()` -/
theorem MSComb.next0_none (m : List Int) (k : Int) (hm : ∀ v ∈ m, 0 ≤ v) (hk : 0 ≤ k)
    (hb : msKnownBad m = false) (s s' : MSComb) (hs : s.state = none) (hsm : s.m = m) (hsk : s.k = k)
    (h : MSComb.next0 s = .ok (s', true)) :
    ∃ c, s'.state = some c ∧ s'.m = m ∧ s'.k = k ∧ s'.value.length = k.toNat ∧ InFam m k c ∧
      (k = 0 ∨ (MGood m ∧ ∃ j : Nat, s'.j = (j : Int) ∧ ISat m c j)) ∧ s'.all = s.all ∧ s'.freq = s.freq := by
  unfold MSComb.next0 at h
  simp only [hs, hsm, hsk] at h
  have hmk : make k = .ok (List.replicate k.toNat 0) := by simp [make]; omega
  have hml : make (m.length : Int) = .ok (List.replicate m.length 0) := by simp [make]
  simp only [hmk, hml, Outcome.bind_ok] at h
  cases hq2 : MSComb.q2 m m.length 0 k (List.replicate m.length 0) with
  | panic => simp [hq2] at h
  | outOfFuel => simp [hq2] at h
  | ok r =>
    obtain ⟨c, x', j', b⟩ := r
    simp only [hq2, Outcome.bind_ok] at h
    have hx' : ¬ x' > 0 := by
      intro hx; simp [hx] at h
    simp only [hx', if_false, Outcome.pure_eq, Outcome.ok.injEq, Prod.mk.injEq, and_true] at h
    have hnn := G_mem_nonneg m hm
    obtain ⟨hlc, jn, e1, _, r3, _, r5, r6, r7⟩ :=
      q2_spec m m.length 0 k (List.replicate m.length 0) c x' j' b (by simp) (by simpa using hq2)
    cases b with
    | false =>
      obtain ⟨t1, t2, t3, t4, t5, t6⟩ := r7 rfl
      have hx0 : x' = 0 := by have := t6 hk; omega
      have hk0 : k = 0 := by
        by_contra hne
        have := t3 (by omega); omega
      refine ⟨c, by simp [← h], by simp [← h, hsm], by simp [← h, hsk], by simp [← h], ⟨hlc, ?_, ?_⟩, Or.inl hk0, by simp [← h], by simp [← h]⟩
      · intro i hi; rw [r3 i (by omega) (by omega)]; exact ⟨hnn i hi, Int.le_refl _⟩
      · rw [PS_replicate_zero, PS_replicate_zero] at t5
        rw [sum_replicate_zero] at t5
        omega
    | true =>
      obtain ⟨s1, s2, s3, s4, s5, s6, s7⟩ := r6 rfl
      rw [PS_zero'] at s2
      have hfam : InFam m k c := by
        refine ⟨hlc, ?_, ?_⟩
        · intro i hi
          by_cases h1 : i < jn
          · rw [r3 i (by omega) h1]; exact ⟨hnn i hi, Int.le_refl _⟩
          · by_cases h2 : i = jn
            · subst h2; exact ⟨s7 hk, s3⟩
            · rw [r5 i (by omega), G_replicate_zero]; exact ⟨Int.le_refl _, hnn i hi⟩
        · rw [s6, PS_replicate_zero, PS_replicate_zero]
          rw [sum_replicate_zero]
          omega
      refine ⟨c, by simp [← h], by simp [← h, hsm], by simp [← h, hsk], by simp [← h], hfam, ?_, by simp [← h], by simp [← h]⟩
      by_cases hk0 : k = 0
      · exact Or.inl hk0
      · right
        have hkpos : 0 < k := by omega
        have hcj := s5 hkpos
        have h1 : 1 ≤ G m 0 := by
          by_contra hc
          have h0 : G m 0 = 0 := by have := hnn 0 (by omega); omega
          have := msKnownBad_false_zero m hm hb h0 jn
          omega
        refine ⟨msKnownBad_false_first m hm hb h1, jn, by simp [← h, e1], s1, ?_, fun i hi => r3 i (by omega) hi⟩
        by_cases hj0 : jn = 0
        · subst hj0; exact hcj
        · rw [r3 0 (by omega) (by omega)]; omega


/-- invariant along a run; `Tr` is what holds right after a `Next()` that returned true -/
theorem collect_inv2 {σ α : Type} (it : It σ α) (Inv Tr : σ → Prop) (P : α → Prop)
    (hT : ∀ s s', Inv s → it.next s = .ok (s', true) → Tr s')
    (hV : ∀ s s' v, Tr s → it.value s = .ok (s', v) → Inv s' ∧ P v) :
    ∀ (fuel : Nat) (s : σ) (acc : List α), Inv s → (∀ x ∈ acc, P x) →
      ∀ x ∈ (collect it fuel s acc).1, P x := by
  intro fuel
  induction fuel with
  | zero => intro s acc _ hacc; simpa [collect] using hacc
  | succ fuel ih =>
    intro s acc hs hacc
    cases hn : it.next s with
    | ok r =>
      obtain ⟨s1, b⟩ := r
      cases b with
      | true =>
        have h1 := hT s s1 hs hn
        cases hv : it.value s1 with
        | ok r2 =>
          obtain ⟨s2, v⟩ := r2
          obtain ⟨h2, hp⟩ := hV s1 s2 v h1 hv
          have e : collect it (fuel + 1) s acc = collect it fuel s2 (v :: acc) := by simp [collect, hn, hv]
          rw [e]
          exact ih s2 (v :: acc) h2 (by intro x hx; rcases List.mem_cons.mp hx with rfl | h; exact hp; exact hacc x h)
        | panic =>
          have e : collect it (fuel + 1) s acc = (acc, s1, .panic) := by simp [collect, hn, hv]
          rw [e]; exact hacc
        | outOfFuel =>
          have e : collect it (fuel + 1) s acc = (acc, s1, .outOfFuel) := by simp [collect, hn, hv]
          rw [e]; exact hacc
      | false =>
        have e : collect it (fuel + 1) s acc = (acc, s1, .exhausted) := by simp [collect, hn]
        rw [e]; exact hacc
    | panic =>
      have e : collect it (fuel + 1) s acc = (acc, s, .panic) := by simp [collect, hn]
      rw [e]; exact hacc
    | outOfFuel =>
      have e : collect it (fuel + 1) s acc = (acc, s, .outOfFuel) := by simp [collect, hn]
      rw [e]; exact hacc

theorem G_cons_succ (a : Int) (l : List Int) (i : Nat) : G (a :: l) (i + 1) = G l i := by simp [G]
theorem G_cons_zero (a : Int) (l : List Int) : G (a :: l) 0 = a := by simp [G]

theorem mem_msFamily_of_InFam : ∀ (m : List Int) (k : Int) (c : List Int), InFam m k c → c ∈ msFamily m k := by
  intro m
  induction m with
  | nil =>
    rintro k c ⟨hl, _, hs⟩
    have : c = [] := List.length_eq_zero_iff.mp (by simpa using hl)
    subst this
    simp only [List.sum_nil] at hs
    simp [msFamily, ← hs]
  | cons a ms ih =>
    rintro k c ⟨hl, hb, hs⟩
    cases c with
    | nil => simp at hl
    | cons c0 cs =>
      have h0 := hb 0 (by simp)
      rw [G_cons_zero, G_cons_zero] at h0
      have hcs : InFam ms (k - c0) cs := by
        refine ⟨by simpa using hl, ?_, ?_⟩
        · intro i hi
          have := hb (i + 1) (by simpa using hi)
          rwa [G_cons_succ, G_cons_succ] at this
        · simp only [List.sum_cons] at hs; omega
      simp only [msFamily, List.mem_flatMap, List.mem_range, List.mem_map]
      refine ⟨c0.toNat, by omega, cs, ?_, by simp [Int.toNat_of_nonneg h0.1]⟩
      rw [Int.toNat_of_nonneg h0.1]
      exact ih (k - c0) cs hcs

/-- the multiset with `c[i]` copies of `i0 + i` as a sorted list: what `Value()` returns for the count vector `c` -/
def expandList : Int → List Int → List Int
  | _, [] => []
  | i, v :: r => List.replicate v.toNat i ++ expandList (i + 1) r

theorem emit_spec (i : Int) : ∀ (t : Nat) (pre suf val' : Sl) (c' : Int),
    MSComb.emit i t (pre.length : Int) (pre ++ suf) = .ok (val', c') →
    c' = ((pre.length + t : Nat) : Int) ∧ val' = pre ++ List.replicate t i ++ suf.drop t ∧ (pre ++ suf).length = val'.length := by
  intro t
  induction t with
  | zero =>
    intro pre suf val' c' h
    simp only [MSComb.emit, Outcome.ok.injEq, Prod.mk.injEq] at h
    obtain ⟨h1, h2⟩ := h
    subst h1 h2
    simp
  | succ t ih =>
    intro pre suf val' c' h
    unfold MSComb.emit at h
    cases hs : set (pre ++ suf) (pre.length : Int) i with
    | panic => simp [hs] at h
    | outOfFuel => simp [hs] at h
    | ok v1 =>
      simp only [hs, Outcome.bind_ok] at h
      obtain ⟨hp, e1⟩ := set_nat_ok hs
      cases suf with
      | nil => simp at hp
      | cons a suf' =>
        have e2 : v1 = (pre ++ [i]) ++ suf' := by
          rw [e1]; simp
        have hc : ((pre.length : Int) + 1) = (((pre ++ [i]).length : Nat) : Int) := by simp
        rw [hc, e2] at h
        obtain ⟨g1, g2, g3⟩ := ih (pre ++ [i]) suf' val' c' h
        refine ⟨by rw [g1]; simp; omega, by rw [g2]; simp [List.replicate_succ], by rw [← g3]; simp⟩

theorem expand_spec : ∀ (rest : List Int) (i : Int) (pre suf val' : Sl),
    MSComb.expand rest i (pre.length : Int) (pre ++ suf) = .ok val' →
    val' = pre ++ expandList i rest ++ suf.drop (expandList i rest).length ∧ (pre ++ suf).length = val'.length := by
  intro rest
  induction rest with
  | nil =>
    intro i pre suf val' h
    simp only [MSComb.expand, Outcome.ok.injEq] at h
    subst h
    simp [expandList]
  | cons v r ih =>
    intro i pre suf val' h
    unfold MSComb.expand at h
    cases he : MSComb.emit i v.toNat (pre.length : Int) (pre ++ suf) with
    | panic => simp [he] at h
    | outOfFuel => simp [he] at h
    | ok p =>
      obtain ⟨val1, c1⟩ := p
      simp only [he, Outcome.bind_ok] at h
      obtain ⟨g1, g2, g3⟩ := emit_spec i v.toNat pre suf val1 c1 he
      have e : val1 = (pre ++ List.replicate v.toNat i) ++ suf.drop v.toNat := by rw [g2]
      have hc : c1 = (((pre ++ List.replicate v.toNat i).length : Nat) : Int) := by rw [g1]; simp
      rw [hc, e] at h
      obtain ⟨k1, k2⟩ := ih (i + 1) (pre ++ List.replicate v.toNat i) (suf.drop v.toNat) val' h
      refine ⟨?_, by rw [← k2, ← e, ← g3]⟩
      rw [k1]
      simp [expandList, List.drop_drop]

theorem expandList_length_of_nonneg : ∀ (c : List Int) (i : Int), (∀ v ∈ c, 0 ≤ v) →
    ((expandList i c).length : Int) = c.sum := by
  intro c
  induction c with
  | nil => intro i _; simp [expandList]
  | cons v r ih =>
    intro i h
    have h0 := h v (by simp)
    have := ih (i + 1) (fun w hw => h w (by simp [hw]))
    simp only [expandList, List.length_append, List.length_replicate, List.sum_cons]
    push_cast
    rw [this, Int.toNat_of_nonneg h0]


end Iter
