import Mamba.Lemmas.CanonFOrbLeafFirst
import Mamba.Lemmas.CanonFGenBase
import Mamba.Lemmas.CanonFGenFix
import Mamba.Lemmas.CanonFGenBy
/-!
# The generators at the first leaf (`gen_leaf_first`)

After the first leaf the first-leaf path is the current path: every frame holds its first child, which is the last member
of its cell (`fmax`, from `ph1`), only the top frame has its first-path child processed, and an automorphism that fixes the
whole first-leaf path is the identity (`aut_fix_leaf_id`), so `AutGen vs.length` holds trivially.
-/
namespace CanonF
open Relation

section
variable {n : Nat} {nb : Nbrs} {rf : Nat} {r : IR.St}

/-- the G-layer facts of one frame right after the first leaf -/
theorem glf_frameAuxG1 {gh' : Gh} {s1 : LS} {vs : List Nat} (e1 : gh'.vsF = vs)
    {incl : Bool} {ps : List Nat} {c st sz p : Nat} (hcp : c = st + p) (hsz : p + 1 = sz)
    (hlink : vs[ps.length]? = (cellL n nb rf r vs ps.length st)[p]?)
    (hgen : incl = true → AutGen n nb r gh' s1 (ps.length + 1)) :
    FrameAuxG1 n nb rf r gh' s1 vs incl ps c st sz := by
  have hnd : (cellL n nb rf r vs ps.length st).Nodup := IR.cellMembers_nodup _ _ _
  have key : ∀ i w, (cellL n nb rf r vs ps.length st)[i]? = some w → vs[ps.length]? = some w → i = p := by
    intro i w hi hw
    rw [hlink, ← hi] at hw
    have hlt := (List.getElem?_eq_some_iff.1 hi).1
    exact (List.getElem?_inj hlt hnd).1 hw.symm
  constructor
  · intro _ _ i w hi hw hx
    rw [e1] at hx
    have hip := key i w hw hx
    cases incl with
    | false => simp only [Bool.false_eq_true, if_false] at hi; omega
    | true => exact hgen rfl
  · intro _ _
    rw [e1, hlink, show sz - 1 = p by omega]

theorem glf_frameAuxG_false {gh gh' : Gh} {s s1 : LS} {vs : List Nat} {op : OP} (e1 : gh'.vsF = vs) (h0 : s.count = 0) :
    ∀ (path choices : List Nat) (lv : List (Nat × Nat)), FramesOK n nb rf r vs path choices lv →
      LevelsOK op path choices lv → FrameAux n nb rf r gh s vs false path choices lv → path.length ≤ vs.length →
      FrameAuxG n nb rf r gh' s1 vs false path choices lv := by
  intro path
  induction path with
  | nil => intro choices lv _ h _ _; cases choices <;> cases lv <;> simp_all [FrameAuxG, LevelsOK]
  | cons p ps ih =>
    intro choices lv hf hl ha hlen
    cases choices with
    | nil => simp [LevelsOK] at hl
    | cons c cs =>
      cases lv with
      | nil => simp [LevelsOK] at hl
      | cons x ls =>
        obtain ⟨st, sz⟩ := x
        simp only [FramesOK] at hf
        simp only [LevelsOK] at hl
        simp only [FrameAux] at ha
        simp only [List.length_cons] at hlen
        simp only [FrameAuxG]
        obtain ⟨_, _, g3, g4⟩ := hf
        have hph := ha.1.ph1 h0
        simp only [Bool.false_eq_true, if_false] at hph
        have hcp := hl.2.2.1
        refine ⟨glf_frameAuxG1 e1 hcp (by omega) (g3 (by omega)).1 (fun h => by cases h),
          ih cs ls g4 hl.2.2.2.2 ha.2 (by omega)⟩

end

section
variable {n m : Nat} {nb : Nbrs} {rf : Nat} {r : IR.St}
  (hnb : NbOK nb n) (hsz : nb.size = n) (hm : m = ((nb.toList.map List.length).sum) / 2) (hrf : 3 * n + 3 ≤ rf)
  (hA : IR.InvA (irG n nb) r) (hD : IR.InvD (irG n nb) r)
  (hlenm : ∀ o : List Nat, o.Perm (List.range n) → (certPos nb o n).length = m)

set_option linter.unusedVariables false in
set_option maxHeartbeats 1000000 in
include hnb hA hD hlenm in
theorem gen_leaf_first (gh : Gh) (lv : List (Nat × Nat)) (s s1 : LS) (hI : MInv n m nb s)
    (hlv : LevelsOK s.op s.path s.choices lv) (hleaf : s.op.binDividers.len = n)
    (hJ : CertM n m nb lv false s) (hDv : DNodev n nb rf r gh lv s) (hAv : ANodev n nb rf r gh lv s) (hGv : GNodev n nb rf r gh lv s)
    (hs1 : leafNode n m s = .ok s1) (hJ1 : CertA n m nb lv s1) (hcnt : s.count = 0)
    (lv1 : List (Nat × Nat)) (hl1 : LevelsOK s1.op s1.path s1.choices lv1)
    (hDv' : DAv n nb rf r { vs := gh.vs.dropLast, oF := s.op.order.toList, vsF := gh.vs, vsB := gh.vs, bgs := [] } lv1 s1) :
    GAv n nb rf r { vs := gh.vs.dropLast, oF := s.op.order.toList, vsF := gh.vs, vsB := gh.vs, bgs := [] } lv1 s1 := by
  obtain ⟨hw, hG, hcov, haux, hoff⟩ := hDv
  obtain ⟨hg, hva, hvn, hb⟩ := hJ
  have hc := hI.core
  obtain ⟨hvc, hspl⟩ := leaf_clean hc.part hleaf (hvn rfl)
  have hw' := hw
  obtain ⟨h1, h2, h3, h4, h5, h6, h7⟩ := hw'
  have hval : s.op.value.toList = certPos nb s.op.order.toList n := by rw [← hspl]; exact hvc.val
  have hvlen : s.op.value.toList.length = m := by rw [hval]; exact hlenm _ hc.part.perm
  have hg' := irG_wf hnb
  have hvsn : gh.vs.length ≤ n := by
    obtain ⟨c1, _, c3⟩ := IR.path_cells hg' (rf := rf) gh.vs r hA hD h1
    have := IR.D_le (irG n nb).n (IR.nodeAt (irG n nb) rf r gh.vs).c
    rw [c3] at this
    have : (IR.nodeAt (irG n nb) rf r gh.vs).cells ≤ n := this
    omega
  obtain ⟨e1, e2, e3, e4, e5, e6, e7, e8, e9, e10, e11, e12, e13, e14, e15, e16, e17⟩ :=
    lf_shape hc hg hG.bpLen hG.fpLen hvlen (by omega) hcnt hs1
  have hlv1 : lv1 = lv := by
    rw [e1, e2, e3] at hl1
    exact LevelsOK_unique _ _ _ _ hl1 hlv
  subst hlv1
  have hnode : nodeL n nb rf r gh.vs gh.vs.length = IR.nodeAt (irG n nb) rf r gh.vs := by
    unfold nodeL; rw [List.take_length]
  have hmt : Match n s.op (nodeL n nb rf r gh.vs gh.vs.length) :=
    (h4 gh.vs.length (Nat.le_refl _)).toMatch hc.part hc.age (by omega) h7
  have hleafT : IR.target (irG n nb) (IR.nodeAt (irG n nb) rf r gh.vs) = none := by
    rw [← hnode]; exact target_none hc.part hmt hleaf
  -- an automorphism that fixes the whole first-leaf path is the identity
  have hAG : ∀ K, gh.vs.length ≤ K → AutGen n nb r
      { vs := gh.vs.dropLast, oF := s.op.order.toList, vsF := gh.vs, vsB := gh.vs, bgs := [] } s1 K := by
    intro K hK γ hγ hcol hfix
    have : γ = List.range n := aut_fix_leaf_id (rf := rf) hnb hA hD hγ hcol h1 hleafT
      (fun j v hv => hfix j v (by have := (List.getElem?_eq_some_iff.1 hv).1; omega) hv)
    rw [this]
    exact GenBy.id
  refine ⟨?_, ?_⟩
  · show FrameAuxG n nb rf r _ s1 gh.vs.dropLast true s1.path s1.choices lv1
    rw [e2, e3]
    apply FrameAuxG.congr (s := s1) (s' := s1) (us := gh.vs) rfl rfl rfl true _ _ _
      (fun L hL => take_dropLast gh.vs (by omega))
    cases hpth : s.path with
    | nil =>
      rw [hpth] at hlv
      cases hch : s.choices <;> cases lv1 <;> simp_all [FrameAuxG, LevelsOK]
    | cons p ps =>
      rw [hpth] at hlv h5 h3 haux
      obtain ⟨c, cs, st, sz, ls, hch, rfl, hcp⟩ := lf_levelsOK_path_ne hlv
      rw [hch] at hlv h5 haux ⊢
      simp only [FramesOK] at h5
      simp only [LevelsOK] at hlv
      simp only [FrameAux] at haux
      simp only [List.length_cons] at h3
      obtain ⟨g1, _, g3, g4⟩ := h5
      obtain ⟨g3a, _⟩ := g3 (by omega)
      have hph := haux.1.ph1 hcnt
      simp only [Bool.false_eq_true, if_false] at hph
      exact FrameAuxG.mk
        (glf_frameAuxG1 (gh' := { vs := gh.vs.dropLast, oF := s.op.order.toList, vsF := gh.vs, vsB := gh.vs, bgs := [] })
          (vs := gh.vs) rfl hcp (by omega) g3a (fun _ => hAG _ (by omega)))
        (glf_frameAuxG_false (gh' := { vs := gh.vs.dropLast, oF := s.op.order.toList, vsF := gh.vs, vsB := gh.vs, bgs := [] })
          (vs := gh.vs) rfl hcnt ps cs ls g4 hlv.2.2.2.2 haux.2 (by omega))
  · intro hp
    rw [e2] at hp
    exact hAG 0 (by rw [h3, hp]; exact Nat.le_refl _)

end
end CanonF
