import Mamba.Lemmas.C06Induced2
/-! C06: the `InducedSubgraph` view — soundness. -/
namespace Construct
open GraphSpec


theorem inducedView_unfold (g : GraphI) (V : List Nat) : inducedView g V =
    { n := V.length
      degrees := V.mapM fun v => do
        let nb ← g.neighbours v
        pure (Int.ofNat (intersectionSize nb (intsSort V).1))
      m := do
        let d ← V.mapM fun v => do
          let nb ← g.neighbours v
          pure (Int.ofNat (intersectionSize nb (intsSort V).1))
        pure ((d.foldl (· + ·) 0) / 2)
      isEdge := fun i j => do
        let a ← getAt V.toArray i
        let b ← getAt V.toArray j
        g.isEdge a b
      neighbours := fun v => do
        let a ← getAt V.toArray v
        let nb ← g.neighbours a
        pure (intersectionByIndex (nb.length + (intsSort V).1.length) nb ((intsSort V).1.zip (intsSort V).2) []) } := by
  rfl

theorem countP_getD (V : List Nat) (p : Nat → Bool) :
    (List.range V.length).countP (fun j => p (V.getD j 0)) = V.countP p := by
  have hVmap : V = (List.range V.length).map fun j => V.getD j 0 := by
    apply List.ext_getElem
    · simp
    · intro k h1 h2; simp [List.getD, h1]
  conv => rhs; rw [hVmap, List.countP_map]
  rfl

theorem induced_deg_eq (gs : G) (hw : gs.WF) (V : List Nat) (hV : V.Nodup) (hr : ∀ x ∈ V, x < gs.n) (i : Nat) (hi : i < V.length) :
    intersectionSize (gs.nbrs V[i]) (intsSort V).1 = (gs.induced V).deg i := by
  obtain ⟨_, _, hmem⟩ := intsSort_spec V hV
  have hnb : (gs.nbrs V[i]).Nodup := (List.nodup_range).sublist List.filter_sublist
  have e1 : intersectionSize (gs.nbrs V[i]) (intsSort V).1 = (gs.nbrs V[i]).countP (fun x => decide (x ∈ V)) := by
    rw [intersectionSize, ← List.countP_eq_length_filter]
    apply List.countP_congr; intro x _; simp [hmem x]
  have e2a : (gs.induced V).deg i = V.countP (fun y => gs.adj V[i] y) := by
    simp only [G.deg, G.nbrs, G.induced, ← List.countP_eq_length_filter]
    rw [← countP_getD V (fun y => gs.adj V[i] y)]
    apply List.countP_congr
    intro j hj
    have hj' := List.mem_range.mp hj
    simp [hi, hj', List.getD]
  have e2 : (gs.induced V).deg i = V.countP (fun y => decide (y ∈ gs.nbrs V[i])) := by
    rw [e2a]
    apply List.countP_congr
    intro y hy
    simp [G.nbrs, hr y hy]
  rw [e1, e2, countP_mem_comm _ _ hnb hV]

theorem inducedView_sound (g : GraphI) (gs : G) (hs : g.Sound gs) (hw : gs.WF) (V : List Nat) (hV : V.Nodup)
    (hr : ∀ x ∈ V, x < gs.n) : (inducedView g V).Sound (gs.induced V) := by
  obtain ⟨hS1, hS2, hS3⟩ := intsSort_spec V hV
  have hdegs : (V.mapM fun v => do
        let nb ← g.neighbours v
        pure (Int.ofNat (intersectionSize nb (intsSort V).1)) : Outcome (List Int)) =
      .ok ((gs.induced V).degrees.map Int.ofNat) := by
    rw [mapM_ok V _ (fun v => Int.ofNat (intersectionSize (gs.nbrs v) (intsSort V).1)) (by
      intro x hx; rw [hs.neighbours x (hr x hx)]; rfl)]
    congr 1
    apply List.ext_getElem
    · simp [G.degrees, G.induced]
    · intro k h1 h2
      have hk : k < V.length := by simpa using h1
      simp only [List.getElem_map, G.degrees, List.getElem_range]
      rw [induced_deg_eq gs hw V hV hr k hk]
  rw [inducedView_unfold]
  refine ⟨rfl, ?_, ?_, ?_, hdegs⟩
  · -- M
    show (do
        let d ← V.mapM fun v => do
          let nb ← g.neighbours v
          pure (Int.ofNat (intersectionSize nb (intsSort V).1))
        pure ((d.foldl (· + ·) 0) / 2) : Outcome Int) = _
    rw [hdegs]
    simp only [Outcome.bind_ok, Outcome.pure_eq]
    congr 1
    rw [foldl_int_sum]
    have := handshake_G (gs.induced V) (induced_wf gs hw V)
    have e : (((gs.induced V).degrees.map Int.ofNat).sum : Int) = (((List.range (gs.induced V).n).map (gs.induced V).deg).sum : Nat) := by
      simp only [G.degrees]
      generalize List.range (gs.induced V).n = l
      induction l with
      | nil => simp
      | cons x t ih => simp only [List.map_cons, List.sum_cons, ih]; push_cast; rfl
    rw [e, this]; push_cast; omega
  · exact (inducedView_n_isEdge g gs hs V hr).2
  · intro v hv
    have hv' : v < V.length := hv
    have h1 : v < V.toArray.size := by simpa using hv'
    have ha : V[v] < gs.n := hr _ (List.getElem_mem hv')
    simp only [getAt_ok h1, Outcome.bind_ok, List.getElem_toArray, hs.neighbours _ ha, Outcome.pure_eq]
    congr 1
    have hnbs : (gs.nbrs V[v]).Pairwise (· < ·) := (List.pairwise_lt_range).sublist List.filter_sublist
    obtain ⟨r1, r2⟩ := intersectionByIndex_spec ((gs.nbrs V[v]).length + (intsSort V).1.length) (gs.nbrs V[v])
      ((intsSort V).1.zip (intsSort V).2) [] (by
      have := Nat.min_le_left (intsSort V).1.length (intsSort V).2.length
      rw [List.length_zip]; omega) hnbs hS1 List.Pairwise.nil
    apply strictSorted_ext _ _ r1 ((List.pairwise_lt_range).sublist List.filter_sublist)
    intro i
    rw [r2]
    simp only [List.not_mem_nil, false_or, hS2, G.nbrs, List.mem_filter, List.mem_range, G.induced, hv', decide_true,
      Bool.true_and, Bool.and_eq_true, decide_eq_true_eq]
    constructor
    · rintro ⟨y, ⟨hi, rfl⟩, _, hadj⟩
      refine ⟨hi, hi, ?_⟩
      simpa [List.getD, hv', hi] using hadj
    · rintro ⟨hi, _, hadj⟩
      refine ⟨V[i], ⟨hi, rfl⟩, hr _ (List.getElem_mem hi), ?_⟩
      simpa [List.getD, hv', hi] using hadj


end Construct
