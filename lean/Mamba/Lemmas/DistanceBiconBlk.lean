import Mamba.Lemmas.DistanceBiconArt2
/-!
# Blocks of the `BiconnectedComponents` model: static description through the DFS tree and the lowpoints
-/
namespace GDist
open GraphSpec Model

variable {h : G} {st : BicSt} {tp : Nat → Nat}

theorem DT.anc_lt (dt : DT h st tp) {a x : Nat} (hx : x < h.n) (hv : bvis st x) (ha : Anc tp a x) (hne : a ≠ x) :
    dI st a < dI st x := by
  by_cases hx0 : x = 0
  · subst hx0
    obtain ⟨k, hk⟩ := ha
    rw [iter_zero dt.tp0] at hk
    exact absurd hk.symm hne
  · obtain ⟨h1, h2, _, h4⟩ := dt.tree x hx hv hx0
    have := dt.anc_depth h1 h2 (anc_parent_of_ne ha (Ne.symm hne))
    omega

theorem DT.anc_vis (dt : DT h st tp) {a x : Nat} (hx : x < h.n) (hv : bvis st x) (ha : Anc tp a x) :
    a < h.n ∧ bvis st a := by
  obtain ⟨k, rfl⟩ := ha
  exact dt.iter_vis hx hv k

theorem DT.anc_antisymm (dt : DT h st tp) {a x : Nat} (hx : x < h.n) (hv : bvis st x) (h1 : Anc tp a x)
    (h2 : Anc tp x a) : a = x := by
  by_contra hne
  obtain ⟨ha, hav⟩ := dt.anc_vis hx hv h1
  have l1 := dt.anc_lt hx hv h1 hne
  have l2 := dt.anc_lt ha hav h2 (Ne.symm hne)
  omega

theorem anc_of_parent {c v : Nat} (hc : tp c = v) : Anc tp v c := ⟨1, by simpa using hc⟩

/-- `y` lies in the subtree of `x` and no vertex strictly below `x` on the tree path to `y` closes a block -/
def NL (st : BicSt) (tp : Nat → Nat) (x y : Nat) : Prop :=
  Anc tp x y ∧ ∀ z, Anc tp x z → Anc tp z y → z ≠ x → lo st z < dI st (tp z)

theorem NL.refl (dt : DT h st tp) {x : Nat} (hx : x < h.n) (hv : bvis st x) : NL st tp x x :=
  ⟨Anc.refl _ _, fun z h1 h2 hne => absurd (dt.anc_antisymm hx hv h2 h1) hne⟩

theorem NL.pre {x y w : Nat} (hn : NL st tp x y) (h1 : Anc tp x w) (h2 : Anc tp w y) : NL st tp x w :=
  ⟨h1, fun z hz1 hz2 hne => hn.2 z hz1 (hz2.trans h2) hne⟩

theorem NL_child_iff (dt : DT h st tp) {v y : Nat} (hy : y < h.n) (hyv : bvis st y) :
    NL st tp v y ↔ y = v ∨ ∃ c, tp c = v ∧ c ≠ v ∧ lo st c < dI st v ∧ NL st tp c y := by
  constructor
  · intro hn
    by_cases hyv' : y = v
    · exact .inl hyv'
    · right
      obtain ⟨c, hc1, hc2, hc3⟩ := anc_child hn.1 hyv'
      refine ⟨c, hc1, hc2, ?_, hc3, ?_⟩
      · have := hn.2 c (anc_of_parent hc1) hc3 hc2
        rwa [hc1] at this
      · intro z hz1 hz2 hzc
        refine hn.2 z ((anc_of_parent hc1).trans hz1) hz2 ?_
        intro hzv
        subst hzv
        obtain ⟨hcn, hcv⟩ := dt.anc_vis hy hyv hc3
        exact hc2 (dt.anc_antisymm hcn hcv (anc_of_parent hc1) hz1).symm
  · rintro (rfl | ⟨c, hc1, hc2, hc3, hc4⟩)
    · exact NL.refl dt hy hyv
    · refine ⟨(anc_of_parent hc1).trans hc4.1, ?_⟩
      intro z hz1 hz2 hzv
      obtain ⟨hcn, hcv⟩ := dt.anc_vis hy hyv hc4.1
      obtain ⟨hzn, hzvis⟩ := dt.anc_vis hy hyv hz2
      rcases anc_linear hc4.1 hz2 with hcz | hzc
      · by_cases hzc' : z = c
        · subst hzc'; rw [hc1]; exact hc3
        · exact hc4.2 z hcz hz2 hzc'
      · by_cases hzc' : z = c
        · subst hzc'; rw [hc1]; exact hc3
        · exfalso
          have l1 := dt.anc_lt hcn hcv hzc hzc'
          have l2 := dt.anc_lt hzn hzvis hz1 (Ne.symm hzv)
          have hc0 : c ≠ 0 := by
            intro h0; subst h0
            have : v = 0 := by rw [← hc1, dt.tp0]
            exact hc2 this.symm
          have := (dt.tree c hcn hcv hc0).2.2.2
          rw [hc1] at this
          omega

/-- the value of `NL` below finished vertices does not depend on later changes of the state -/
theorem NL_congr {s : BicSt} {tp' : Nat → Nat} (dt : DT h st tp)
    (hA : ∀ a z, z < h.n → bvis st z → (Anc tp' a z ↔ Anc tp a z))
    (hL : ∀ z, z < h.n → bvis st z → z ∉ st.toCheck → z ≠ 0 → lo s z = lo st z ∧ dI s (tp' z) = dI st (tp z))
    {x y : Nat} (hxs : ∀ z, Anc tp x z → z ≠ x → z ∉ st.toCheck) (hy : y < h.n) (hyv : bvis st y) :
    NL s tp' x y ↔ NL st tp x y := by
  have key : ∀ z, Anc tp x z → Anc tp z y → z ≠ x → (lo s z < dI s (tp' z) ↔ lo st z < dI st (tp z)) := by
    intro z hz1 hz2 hne
    obtain ⟨hzn, hzv⟩ := dt.anc_vis hy hyv hz2
    have hz0 : z ≠ 0 := by
      intro h0; subst h0
      obtain ⟨k, hk⟩ := hz1
      rw [iter_zero dt.tp0] at hk
      exact hne hk
    obtain ⟨e1, e2⟩ := hL z hzn hzv (hxs z hz1 hne) hz0
    rw [e1, e2]
  constructor
  · rintro ⟨h1, h2⟩
    refine ⟨(hA x y hy hyv).1 h1, fun z hz1 hz2 hne => ?_⟩
    obtain ⟨hzn, hzv⟩ := dt.anc_vis hy hyv hz2
    exact (key z hz1 hz2 hne).1 (h2 z ((hA x z hzn hzv).2 hz1) ((hA z y hy hyv).2 hz2) hne)
  · rintro ⟨h1, h2⟩
    refine ⟨(hA x y hy hyv).2 h1, fun z hz1 hz2 hne => ?_⟩
    have hz2' := (hA z y hy hyv).1 hz2
    obtain ⟨hzn, hzv⟩ := dt.anc_vis hy hyv hz2'
    have hz1' := (hA x z hzn hzv).1 hz1
    exact (key z hz1' hz2' hne).2 (h2 z hz1' hz2' hne)

/-- `c` is a finished non-root vertex and `S` is the increasing list of the global labels of
`{tp c} ∪ {y | NL c y}` -/
def IsBlk (h : G) (com : List Nat) (st : BicSt) (tp : Nat → Nat) (S : List Nat) (c : Nat) : Prop :=
  (c < h.n ∧ bvis st c ∧ c ∉ st.toCheck ∧ c ≠ 0) ∧ S.Pairwise (· < ·) ∧
    ∀ w, w ∈ S ↔ ∃ y, y < h.n ∧ bvis st y ∧ com.getD y 0 = w ∧ (y = tp c ∨ NL st tp c y)

/-- the merge loop takes the maximal run of partial blocks whose last vertex has depth `dv + 1` -/
theorem bicMerge_spec (depths : Array Int) (dv : Int) :
    ∀ (preRev : List (List Nat)) (cur : List Nat) (bs : List (List Nat)),
      bicMerge depths dv preRev cur = .ok bs →
      ∃ taken kept, preRev = taken ++ kept ∧ bs = kept.reverse ++ [cur ++ taken.flatten] ∧
        (∀ b ∈ taken, ∃ x, b.getLast? = some x ∧ depths.getD x (-1) = dv + 1) ∧
        (∀ b x, kept.head? = some b → b.getLast? = some x → depths.getD x (-1) ≠ dv + 1) := by
  intro preRev
  induction preRev with
  | nil =>
    intro cur bs hres
    simp only [bicMerge] at hres
    cases hres
    exact ⟨[], [], rfl, (by simp), fun b hb => (by cases hb), fun b x hb => (by cases hb)⟩
  | cons b preRev ih =>
    intro cur bs hres
    unfold bicMerge at hres
    cases hb : b.getLast? with
    | none => rw [hb] at hres; simp at hres
    | some x =>
      rw [hb] at hres
      simp only at hres
      by_cases hx : x < depths.size
      · simp only [hx, dif_pos] at hres
        have hgd : depths.getD x (-1) = depths[x] := by simp [Array.getD, hx]
        by_cases hd : depths[x] = dv + 1
        · simp only [hd, if_true] at hres
          obtain ⟨taken, kept, e1, e2, h3, h4⟩ := ih _ _ hres
          refine ⟨b :: taken, kept, by rw [e1]; rfl, ?_, ?_, h4⟩
          · rw [e2]; simp [List.append_assoc]
          · intro b' hb'
            rcases List.mem_cons.1 hb' with rfl | hb'
            · exact ⟨x, hb, by rw [hgd, hd]⟩
            · exact h3 b' hb'
        · simp only [hd, if_false, Outcome.ok.injEq] at hres
          refine ⟨[], b :: preRev, rfl, (by rw [← hres]; simp), fun b hb => (by cases hb), ?_⟩
          intro b' x' hb' hx'
          simp at hb'
          subst hb'
          rw [hb] at hx'
          cases hx'
          rw [hgd]; exact hd
      · simp only [hx, dif_neg, not_false_eq_true] at hres
        cases hres

end GDist
