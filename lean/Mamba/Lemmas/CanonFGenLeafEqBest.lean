import Mamba.Lemmas.CanonFOrbLeafEqBest
import Mamba.Lemmas.CanonFGenBase
/-!
# The generator layer at a leaf whose certificate equals `currentBest` (`gen_leaf_eqbest`)

G-layer companion of `dfs_leaf_eqbest_v` / `orb_leaf_eqbest`. The recorded generators only grow, frames are dropped, and
the newly processed child `vs[k]` of the divergence frame is not the first-path child: if the frame is on the first-leaf
path, the first-path child is the LAST member of the cell (`fmax`), whereas the best-path child is a member with a larger
index than the current child.
-/
namespace CanonF
open Relation

section
variable {n : Nat} {nb : Nbrs} {rf : Nat} {r : IR.St}

/-- an old recorded generator stays one -/
theorem gb_recGen_mono {order pinv : Sl Nat} {s s' : LS} {merges : Bool} (hlen : order.len = n)
    (hrec : (if merges = true then recordGenerator n order pinv s.gens s.ngens else Outcome.ok (s.gens, s.ngens))
      = .ok (s'.gens, s'.ngens)) : ∀ γ, RecGen s γ → RecGen s' γ := by
  rintro γ ⟨k, g, hk, hg, e⟩
  by_cases hm : merges = true
  · rw [if_pos hm] at hrec
    obtain ⟨r1, _, _, r4, _⟩ := recordGenerator_spec hlen hrec
    exact ⟨k, g, by omega, by rw [r4 k (by omega)]; exact hg, e⟩
  · rw [if_neg hm] at hrec
    injection hrec with hrec
    injection hrec with e1 e2
    exact ⟨k, g, by rw [← e2]; exact hk, by rw [← e1]; exact hg, e⟩

theorem gb_frameAuxG_drop {gh : Gh} {s : LS} {us : List Nat} (j : Nat) (path choices : List Nat) (lv : List (Nat × Nat))
    (h : FrameAuxG n nb rf r gh s us false path choices lv) :
    FrameAuxG n nb rf r gh s us false (path.drop j) (choices.drop j) (lv.drop j) := by
  rcases Nat.eq_zero_or_pos j with h0 | hpos
  · subst h0; simpa using h
  · exact FrameAuxG.drop j path choices lv hpos h

/-- the child of the divergence node on the best-leaf path is a member of the cell with a larger index than the current
child (cf. `ob_best_child`) -/
theorem gb_best_index {gh : Gh} {s : LS} {vs o1 PB : List Nat} {pinv : Sl Nat}
    (hp2 : IR.IsPath (irG n nb) rf r vs)
    (hB : LeafRec n nb rf r gh.vsB o1 s.currentBest.toList pinv PB)
    {p c st sz : Nat} {ps : List Nat}
    (hI : IdxPath n nb rf r vs ps.reverse ps.length) (hlen : ps.length < vs.length)
    (hagree : ∀ i, i < ps.length → ps.reverse[i]? = PB[i]?)
    (hdiff : ∃ x, PB[ps.length]? = some x ∧ x ≠ p)
    (htar : IR.target (irG n nb) (nodeL n nb rf r vs ps.length) = some st)
    (hcst : c - st = p) (hcnt : 0 < s.count)
    (hf : FrameAux1 n nb rf r gh s vs false ps c st sz) :
    ∃ j' b, p < j' ∧ (cellL n nb rf r vs ps.length st)[j']? = some b := by
  obtain ⟨hpre, hkle⟩ := lb_prefix_of_agree hI hp2 (Nat.le_of_lt hlen) hB.leaf hB.idx hagree
  have hk : ps.length < gh.vsB.length := by
    rcases Nat.lt_or_ge ps.length gh.vsB.length with h | h
    · exact h
    · exfalso
      have e : gh.vsB = vs.take ps.length := by rw [hpre, List.take_of_length_le h]
      have := hB.leaf
      rw [e] at this
      have htar' : IR.target (irG n nb) (IR.nodeAt (irG n nb) rf r (vs.take ps.length)) = some st := htar
      rw [this] at htar'
      cases htar'
  obtain ⟨t, j', v', b1, b2, b3, b4⟩ := hB.idx ps.length hk
  have en : nodeL n nb rf r gh.vsB ps.length = nodeL n nb rf r vs ps.length := nodeL_congr hpre.symm
  unfold cellL at b3
  rw [en] at b1 b3
  rw [htar] at b1
  cases b1
  obtain ⟨x, hx, hxp⟩ := hdiff
  rw [hx] at b4
  have ej : x = j' := Option.some.inj b4
  have hb3 : (cellL n nb rf r vs ps.length st)[j']? = some v' := b3
  have hge : ¬ j' < c - st := fun hlt => hf.futB hcnt j' v' hlt hb3 ⟨hpre, b2⟩
  exact ⟨j', v', by omega, hb3⟩

theorem gb_cell_inj {vs : List Nat} {L st i j w : Nat} (hi : (cellL n nb rf r vs L st)[i]? = some w)
    (hj : (cellL n nb rf r vs L st)[j]? = some w) : i = j := by
  have hnd : (cellL n nb rf r vs L st).Nodup :=
    (cellMembers_sorted (irG n nb) (nodeL n nb rf r vs L).c st).imp (fun h => Nat.ne_of_lt h)
  obtain ⟨hil, _⟩ := List.getElem?_eq_some_iff.1 hi
  exact (List.getElem?_inj hil hnd).1 (by rw [hi, hj])

end

section
variable {n m : Nat} {nb : Nbrs} {rf : Nat} {r : IR.St}
  (hnb : NbOK nb n) (hA : IR.InvA (irG n nb) r) (hD : IR.InvD (irG n nb) r)

set_option linter.unusedVariables false in
include hnb hA hD in
theorem gen_leaf_eqbest (gh : Gh) (lv : List (Nat × Nat)) (s s1 : LS) (hI : MInv n m nb s)
    (hlv : LevelsOK s.op s.path s.choices lv) (hleaf : s.op.binDividers.len = n)
    (hJ : CertM n m nb lv false s) (hDv : DNodev n nb rf r gh lv s) (hAv : ANodev n nb rf r gh lv s)
    (hGv : GNodev n nb rf r gh lv s)
    (hs1 : leafNode n m s = .ok s1) (hJ1 : CertA n m nb lv s1)
    (hc1 : (compare s.op.value.toList s.currentBest.toList == 1 || s.count + 1 == 1) = false)
    (hc0 : (compare s.op.value.toList s.currentBest.toList == 0) = true)
    (lv1 : List (Nat × Nat)) (k : Nat) (hl1 : LevelsOK s1.op s1.path s1.choices lv1)
    (hDv' : DAv n nb rf r { gh with vs := gh.vs.take k,
                                    bgs := transport n s.bestPerm.toList s.op.order.toList :: gh.bgs } lv1 s1) :
    GAv n nb rf r { gh with vs := gh.vs.take k,
                            bgs := transport n s.bestPerm.toList s.op.order.toList :: gh.bgs } lv1 s1 := by
  obtain ⟨bo, b0, fo, merges, gens', ngens', op', j, p, ps, c, cs, st, sz, ls, hl1', hl2, hrec, es, hq, eq1, eq2, hcp,
    hklt, hjd, hlo, g1, g3a, hIk, hagree, hdiff, ht2, hc2, hcert, hcnt⟩ :=
    ob_setup hnb hA hD lv s s1 gh hI hlv hleaf hJ hDv hs1 hc1 hc0
  obtain ⟨hw, hG, hcov, haux, hoff⟩ := hDv
  have hc := hI.core
  have hB := hG.best hcnt
  obtain ⟨h1, h2, h3, h4, h5, h6, h7⟩ := hw
  subst es
  have elv : lv1 = lv.drop j := LevelsOK_unique _ _ _ _ hl1 hlo
  subst elv
  have ek : k = ps.length := by
    obtain ⟨_, w2, _⟩ := hDv'.1
    have w2' : s.path.drop j = [] ∨ (gh.vs.take k).length + 1 = (s.path.drop j).length := w2
    rw [hq] at w2'
    simp only [List.length_take, List.length_cons] at w2'
    rcases w2' with e | e
    · cases e
    · omega
  subst ek
  -- the frame of the divergence level
  have h5d := h5.drop j
  have hauxd := lb_frameAux_drop j _ _ _ haux
  have hGd := gb_frameAuxG_drop j _ _ _ hGv
  rw [hq, eq1, eq2] at h5d hauxd hGd
  simp only [FramesOK] at h5d
  obtain ⟨_, hCl, _, _⟩ := h5d
  have hf := FrameAux.head hauxd
  have hg := FrameAuxG.head hGd
  obtain ⟨j', b, hpj, hbj⟩ := gb_best_index h1 hB hIk hklt hagree hdiff g1 (show c - st = p by omega) hcnt hf
  have hv := List.getElem?_eq_getElem hklt
  have ev : (gh.vs.take ps.length).take ps.length = gh.vs.take ps.length := take_take_le gh.vs (Nat.le_refl _)
  have htake : ∀ L, L < (p :: ps).length → (gh.vs.take ps.length).take L = gh.vs.take L := by
    intro L hL
    simp only [List.length_cons] at hL
    exact take_take_le gh.vs (by omega)
  refine ⟨?_, ?_⟩
  · have g2 := FrameAuxG.mono (gh := gh) (s := s) (us := gh.vs) (us' := gh.vs.take ps.length)
      (gh' :=
        { gh with
          vs := gh.vs.take ps.length,
          bgs := transport n s.bestPerm.toList s.op.order.toList :: gh.bgs })
      (s' := { s with count := s.count + 1, bestOrbits := bo, flOrbits := fo, gens := gens', ngens := ngens',
                      op := op', path := s.path.drop j, choices := s.choices.drop j })
      (fun _ => hcnt) (gb_recGen_mono hc.part.lenOrder hrec) rfl false (p :: ps) (c :: cs) ((st, sz) :: ls) htake hGd
    have g3 := FrameAuxG.mk (p := p) (g2.head.finish_child' (fun w hw' hpre hx => by
      exfalso
      rw [cellL_congr ev, show c - st = p by omega] at hw'
      rw [ev] at hpre
      have hmax := hg.fmax hcnt hpre
      have hx' : gh.vsF[ps.length]? = some w := hx
      rw [hx'] at hmax
      have e := gb_cell_inj hw' hmax.symm
      have hjl : j' < (cellL n nb rf r gh.vs ps.length st).length := (List.getElem?_eq_some_iff.1 hbj).1
      omega)) g2.tail
    rw [← hq, ← eq1, ← eq2] at g3
    exact g3
  · intro hp
    exfalso
    have hp' : s.path.drop j = [] := hp
    rw [hq] at hp'
    cases hp'

end

end CanonF
