import Mamba.Lemmas.CanonFDfsBase
import Mamba.Lemmas.CanonFDfsIdx
/-!
# The complete DFS invariant through the Heuristic-2 skips of `jLoop`
-/
namespace CanonF

/-- `GlobalInv` only reads `count`, the first-leaf and best-leaf records and `bestOrbits` -/
theorem skip_globalInv_congr {n : Nat} {nb : Nbrs} {rf : Nat} {r : IR.St} {gh : Gh} {s s' : LS} (h : GlobalInv n nb rf r gh s)
    (e1 : s'.count = s.count) (e2 : s'.firstLeaf = s.firstLeaf) (e3 : s'.flPermInv = s.flPermInv)
    (e4 : s'.flPath = s.flPath) (e5 : s'.bestPerm = s.bestPerm) (e6 : s'.currentBest = s.currentBest)
    (e7 : s'.bestPermInv = s.bestPermInv) (e8 : s'.bestPath = s.bestPath) (e9 : s'.bestOrbits = s.bestOrbits)
    (e10 : s'.ngens = s.ngens) :
    GlobalInv n nb rf r gh s' := by
  constructor
  · rw [e1, e2, e3, e4]; exact h.first
  · rw [e1, e5, e6, e7, e8]; exact h.best
  · exact h.bgsAut
  · rw [e1, e10]; exact h.ngens0
  · rw [e1, e9]; exact h.bestOrb
  · rw [e8]; exact h.bpLen
  · rw [e4]; exact h.fpLen

theorem skip_covFrames_path_eq {n : Nat} {nb : Nbrs} {rf : Nat} {r : IR.St} {s : LS} {vs : List Nat} {incl : Bool}
    {path path' choices : List Nat} {lv : List (Nat × Nat)} (e : path' = path)
    (h : CovFrames n nb rf r s vs incl path choices lv) : CovFrames n nb rf r s vs incl path' choices lv := by
  subst e; exact h

theorem skip_frameAux_path_eq {n : Nat} {nb : Nbrs} {rf : Nat} {r : IR.St} {gh : Gh} {s : LS} {vs : List Nat} {incl : Bool}
    {path path' choices : List Nat} {lv : List (Nat × Nat)} (e : path' = path)
    (h : FrameAux n nb rf r gh s vs incl path choices lv) : FrameAux n nb rf r gh s vs incl path' choices lv := by
  subst e; exact h

section
variable {n m : Nat} {nb : Nbrs} {rf : Nat} {r : IR.St}

/-- the `FrameAux` part of a Heuristic-2 skip -/
theorem skip_frameAux {gh : Gh} {s s' : LS} {us : List Nat} {p c st sz : Nat} {ps cs : List Nat} {ls : List (Nat × Nat)}
    (haux : FrameAux n nb rf r gh s us true (p :: ps) (c :: cs) ((st, sz) :: ls)) (hst : st < c) (hcnt : 0 < s.count)
    (e1 : s'.count = s.count) (e2 : s'.currentBest = s.currentBest) (e3 : s'.gens = s.gens) (e4 : s'.ngens = s.ngens) :
    FrameAux n nb rf r gh s' us true (p :: ps) ((c - 1) :: cs) ((st, sz) :: ls) :=
  FrameAux.congr (s := s) (s' := s') (us := us) (us' := us) e1 e2 e3 e4 true _ _ _ (fun _ _ => rfl)
    (FrameAux.mk (haux.head.step_head hst hcnt) haux.tail)

set_option linter.unusedVariables false in
/-- `dfs_skipA` with the ghost data explicit (unchanged by the skip) -/
theorem dfs_skipA_v (gh : Gh) (st sz : Nat) (ls : List (Nat × Nat)) (s : LS) (c : Nat) (cs : List Nat) (p : Nat)
    (ps : List Nat)
    (ce : Nat) (x : Int) (k : Nat) (hc : Core n s) (ht : TopOK s.op (k + 1) s.path s.choices ((st, sz) :: ls))
    (hsk : s.skipDeage = false) (hage : s.op.age + 1 = s.path.length) (hch : s.choices = c :: cs)
    (hpth : s.path = p :: ps) (hget : s.op.order.get (c - 1) = .ok ce)
    (hon : (decide (s.count > 0) && hasPrefix s.flPath.toList ps.reverse) = true)
    (hx : s.flOrbits[ce]? = some x) (hx0 : x ≥ 0)
    (hJ : CertN n m nb ((st, sz) :: ls) s) (h : DNv n nb rf r gh ((st, sz) :: ls) s) :
    DNv n nb rf r gh ((st, sz) :: ls) { s with choices := (c - 1) :: cs, skipDeage := true } := by
  obtain ⟨hw, hG, hcov, haux⟩ := h
  obtain ⟨m1, m2, m3, m4, m5⟩ := top_member hc ht hage hch hpth hget hw
  have hcnt : 0 < s.count := by
    simp only [Bool.and_eq_true, decide_eq_true_eq] at hon; exact hon.1
  refine ⟨?_, ?_, ?_, ?_⟩
  · exact walk_skip (c' := c - 1) s.bestOrbits true hch hw
  · exact skip_globalInv_congr hG rfl rfl rfl rfl rfl rfl rfl rfl rfl rfl
  · have := cov_skipA st sz ls s c cs p ps ce x k hc ht hage hch hpth hget hon hx hx0 hw hcov
    exact skip_covFrames_path_eq hpth this
  · rw [hpth, hch] at haux
    exact skip_frameAux_path_eq hpth (skip_frameAux haux m3 hcnt rfl rfl rfl rfl)

set_option linter.unusedVariables false in
theorem dfs_skipA (st sz : Nat) (ls : List (Nat × Nat)) (s : LS) (c : Nat) (cs : List Nat) (p : Nat) (ps : List Nat)
    (ce : Nat) (x : Int) (k : Nat) (hc : Core n s) (ht : TopOK s.op (k + 1) s.path s.choices ((st, sz) :: ls))
    (hsk : s.skipDeage = false) (hage : s.op.age + 1 = s.path.length) (hch : s.choices = c :: cs)
    (hpth : s.path = p :: ps) (hget : s.op.order.get (c - 1) = .ok ce)
    (hon : (decide (s.count > 0) && hasPrefix s.flPath.toList ps.reverse) = true)
    (hx : s.flOrbits[ce]? = some x) (hx0 : x ≥ 0)
    (hJ : CertN n m nb ((st, sz) :: ls) s) (h : DN n nb rf r ((st, sz) :: ls) s) :
    DN n nb rf r ((st, sz) :: ls) { s with choices := (c - 1) :: cs, skipDeage := true } := by
  obtain ⟨gh, h⟩ := h
  exact ⟨gh, dfs_skipA_v gh st sz ls s c cs p ps ce x k hc ht hsk hage hch hpth hget hon hx hx0 hJ h⟩
end

section
variable {n m : Nat} {nb : Nbrs} {rf : Nat} {r : IR.St}

set_option linter.unusedVariables false in
/-- `dfs_skipB` with the ghost data explicit (unchanged by the skip) -/
theorem dfs_skipB_v (hnb : NbOK nb n) (gh : Gh) (st sz : Nat) (ls : List (Nat × Nat)) (s : LS) (c : Nat) (cs : List Nat)
    (p : Nat) (ps : List Nat)
    (ce : Nat) (bo : Disjoint.DS) (k : Nat) (hc : Core n s) (ht : TopOK s.op (k + 1) s.path s.choices ((st, sz) :: ls))
    (hsk : s.skipDeage = false) (hage : s.op.age + 1 = s.path.length) (hch : s.choices = c :: cs)
    (hpth : s.path = p :: ps) (hget : s.op.order.get (c - 1) = .ok ce)
    (hon : (decide (s.count > 0) && !hasPrefix s.flPath.toList ps.reverse && hasPrefix s.bestPath.toList ps.reverse) = true)
    (hh : h2Best s.op s.bestOrbits (c - 1) ce = .ok (true, bo))
    (hJ : CertN n m nb ((st, sz) :: ls) s) (h : DNv n nb rf r gh ((st, sz) :: ls) s) :
    DNv n nb rf r gh ((st, sz) :: ls) { s with choices := (c - 1) :: cs, bestOrbits := bo, skipDeage := true } := by
  obtain ⟨hw, hG, hcov, haux⟩ := h
  obtain ⟨m1, m2, m3, m4, m5⟩ := top_member hc ht hage hch hpth hget hw
  simp only [Bool.and_eq_true, decide_eq_true_eq, Bool.not_eq_true'] at hon
  obtain ⟨⟨hcnt, hnfp⟩, hbp⟩ := hon
  have hnf : onFirstB s ps = false := by unfold onFirstB; rw [hnfp]; simp
  have honB : onBestB s ps = true := by
    unfold onBestB; rw [hbp]; simpa using hcnt
  obtain ⟨hds, hdsz, horb⟩ := hG.bestOrb hcnt
  have haux' := haux
  rw [hpth, hch] at haux'
  -- the node of the top frame is on the best-leaf path
  have hpreB : gh.vs.take ps.length = gh.vsB.take ps.length := by
    obtain ⟨h1, _, _, _, h5, _, _⟩ := hw
    rw [hpth, hch] at h5
    exact prefixB_of_onBest (frames_idxPath ps cs ls h5.tail (by omega)) h1 (by omega) hG honB
  have hS : ∀ γ, γ ∈ gh.bgs → IsAutL nb n γ ∧ ∀ u, u < n →
      IR.col (nodeL n nb rf r gh.vs gh.vs.length).c (γ.getD u 0) = IR.col (nodeL n nb rf r gh.vs gh.vs.length).c u := by
    intro γ hγ
    refine ⟨hG.bgsAut γ hγ, fun u hu => ?_⟩
    rw [m4]
    exact haux'.head.e2 hcnt hpreB γ hγ u hu
  have hcp : c - 1 < n := by
    have := Sl.get_lt hget; rw [hc.part.lenOrder] at this; exact this
  obtain ⟨b1, b2, b3, _⟩ := h2Best_spec hc.part hds hdsz m5 hcp hh
  refine ⟨?_, ?_, ?_, ?_⟩
  · exact walk_skip (c' := c - 1) bo true hch hw
  · constructor
    · exact hG.first
    · exact hG.best
    · exact hG.bgsAut
    · exact hG.ngens0
    · intro _
      refine ⟨b1, b2, fun a b ha hb hab => horb a b ha hb ?_⟩
      rw [← b3 a ha, ← b3 b hb]; exact hab
    · exact hG.bpLen
    · exact hG.fpLen
  · exact skip_covFrames_path_eq hpth
      (cov_skipB_step (m := m) hnb st sz ls s c cs p ps ce bo k hc ht hage hch hpth hget hnf hh hw hcov
        (fun γ => γ ∈ gh.bgs) hS hds hdsz horb)
  · exact skip_frameAux_path_eq hpth (skip_frameAux haux' m3 hcnt rfl rfl rfl rfl)

set_option linter.unusedVariables false in
theorem dfs_skipB (hnb : NbOK nb n) (st sz : Nat) (ls : List (Nat × Nat)) (s : LS) (c : Nat) (cs : List Nat) (p : Nat)
    (ps : List Nat)
    (ce : Nat) (bo : Disjoint.DS) (k : Nat) (hc : Core n s) (ht : TopOK s.op (k + 1) s.path s.choices ((st, sz) :: ls))
    (hsk : s.skipDeage = false) (hage : s.op.age + 1 = s.path.length) (hch : s.choices = c :: cs)
    (hpth : s.path = p :: ps) (hget : s.op.order.get (c - 1) = .ok ce)
    (hon : (decide (s.count > 0) && !hasPrefix s.flPath.toList ps.reverse && hasPrefix s.bestPath.toList ps.reverse) = true)
    (hh : h2Best s.op s.bestOrbits (c - 1) ce = .ok (true, bo))
    (hJ : CertN n m nb ((st, sz) :: ls) s) (h : DN n nb rf r ((st, sz) :: ls) s) :
    DN n nb rf r ((st, sz) :: ls) { s with choices := (c - 1) :: cs, bestOrbits := bo, skipDeage := true } := by
  obtain ⟨gh, h⟩ := h
  exact ⟨gh, dfs_skipB_v hnb gh st sz ls s c cs p ps ce bo k hc ht hsk hage hch hpth hget hon hh hJ h⟩
end
end CanonF
