import Mathlib.Data.List.Perm.Subperm
import Mathlib.Data.List.Nodup
/-! A pigeonhole fact on lists of natural numbers. -/
namespace Dawg

theorem nodup_length_le (n : Nat) (l : List Nat) (h : l.Nodup) (hb : ∀ x ∈ l, x < n) : l.length ≤ n := by
  have := (List.subperm_of_subset h (fun x hx => List.mem_range.2 (hb x hx))).length_le
  simpa using this

end Dawg
