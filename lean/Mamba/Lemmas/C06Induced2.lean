import Mamba.Lemmas.C06Induced
import Mathlib.Data.List.Perm.Basic
/-! C06: the `InducedSubgraph` view — `intsSort`. -/
namespace Construct
open GraphSpec


theorem zip_map_fst_snd (S : List (Nat × Nat)) : (S.map (·.1)).zip (S.map (·.2)) = S := by
  induction S with
  | nil => rfl
  | cons p t ih => simp [ih]

theorem mem_zip_range (V : List Nat) (y i : Nat) :
    (y, i) ∈ V.zip (List.range V.length) ↔ ∃ h : i < V.length, V[i] = y := by
  rw [List.mem_iff_getElem]
  constructor
  · rintro ⟨k, hk, h⟩
    simp only [List.getElem_zip, List.getElem_range, Prod.mk.injEq] at h
    simp only [List.length_zip, List.length_range, Nat.min_self] at hk
    obtain ⟨h1, rfl⟩ := h
    exact ⟨hk, h1⟩
  · rintro ⟨h, rfl⟩
    exact ⟨i, by simpa using h, by simp⟩

/-- what `intsSort` (sort.Sort on values carrying their positions) returns, for a duplicate-free `V` -/
theorem intsSort_spec (V : List Nat) (hV : V.Nodup) :
    let S := (intsSort V).1.zip (intsSort V).2
    S.Pairwise (fun p q => p.1 < q.1) ∧ (∀ y i, (y, i) ∈ S ↔ ∃ h : i < V.length, V[i] = y) ∧
    (∀ x, x ∈ (intsSort V).1 ↔ x ∈ V) := by
  simp only [intsSort, zip_map_fst_snd]
  set S := (V.zip (List.range V.length)).mergeSort fun a b => decide (a.1 ≤ b.1) with hS
  have hperm : S.Perm (V.zip (List.range V.length)) := List.mergeSort_perm _ _
  have hle : S.Pairwise (fun p q => p.1 ≤ q.1) := by
    have := List.pairwise_mergeSort (le := fun a b : Nat × Nat => decide (a.1 ≤ b.1))
      (by intro a b c; simp; omega) (by intro a b; simp; omega) (V.zip (List.range V.length))
    simpa using this
  have hfst : (S.map (·.1)).Perm V := by
    have := hperm.map (·.1)
    rwa [List.map_fst_zip (by simp)] at this
  have hnd : (S.map (·.1)).Nodup := hfst.nodup_iff.mpr hV
  refine ⟨?_, ?_, ?_⟩
  · rw [List.Nodup, List.pairwise_map] at hnd
    exact (hle.and hnd).imp (fun ⟨h1, h2⟩ => by omega)
  · intro y i
    rw [hperm.mem_iff, mem_zip_range]
  · intro x
    exact hfst.mem_iff




instance : LawfulMonad Outcome := LawfulMonad.mk'
  (id_map := by intro α x; cases x <;> rfl)
  (pure_bind := by intros; rfl)
  (bind_assoc := by intro α β γ x f g; cases x <;> rfl)

theorem mapM_ok {α β : Type} (l : List α) (f : α → Outcome β) (h : α → β) (hf : ∀ x ∈ l, f x = .ok (h x)) :
    l.mapM f = .ok (l.map h) := by
  induction l with
  | nil => simp
  | cons a t ih =>
    rw [List.mapM_cons, hf a (by simp), ih (fun x hx => hf x (by simp [hx]))]
    rfl

theorem countP_mem_comm (A B : List Nat) (hA : A.Nodup) (hB : B.Nodup) :
    A.countP (fun x => decide (x ∈ B)) = B.countP (fun y => decide (y ∈ A)) := by
  induction A with
  | nil => simp
  | cons a t ih =>
    have hA' := List.nodup_cons.mp hA
    rw [List.countP_cons, ih hA'.2]
    have : B.countP (fun y => decide (y ∈ a :: t)) = B.countP (fun y => decide (y ∈ t)) + B.countP (fun y => y == a) := by
      have h1 : B.countP (fun y => decide (y ∈ a :: t)) = B.countP (fun y => decide (y ∈ t) || (y == a)) := by
        apply List.countP_congr; intro y _; simp [or_comm]
      rw [h1, countP_or_disjoint _ _ _ (by
        intro y _ ⟨c1, c2⟩
        simp only [beq_iff_eq] at c2; subst c2
        simp only [decide_eq_true_eq] at c1; exact hA'.1 c1)]
    rw [this]
    congr 1
    have : B.countP (fun y => y == a) = B.count a := by
      rw [List.count_eq_countP]
    rw [this]
    by_cases ha : a ∈ B
    · simp [ha, List.count_eq_one_of_mem hB ha]
    · simp [ha, List.count_eq_zero_of_not_mem ha]

theorem induced_wf (gs : G) (hw : gs.WF) (V : List Nat) : (gs.induced V).WF where
  symm := by intro u v; simp only [G.induced, hw.symm (V.getD u 0)]; cases decide (u < V.length) <;> cases decide (v < V.length) <;> simp
  irrefl := by intro v; simp [G.induced, hw.irrefl]
  supp := by
    intro u v h
    simp only [G.induced, Bool.and_eq_true, decide_eq_true_eq] at h
    exact ⟨h.1.1, h.1.2⟩


end Construct
