import Mamba.Lemmas.DistancePatonIndep
namespace GDist
open GraphSpec Model

variable {a : G}

theorem patonStep_shape {v u : Nat} {st s1 : PatonSt} (hres : patonScan v [u] st = .ok s1) :
    s1.removed = (u, v) :: st.removed ∧
      ((s1.T = st.T ∧ s1.X = st.X) ∨
        (¬ inTree st.T u ∧ s1.X = u :: st.X ∧ ∀ x, x ≠ u → par s1.T x = par st.T x)) := by
  simp only [patonScan] at hres
  split at hres
  · next huT =>
    split at hres
    · split at hres
      · split at hres
        · split at hres
          · cases hres
          · split at hres
            · simp only [Outcome.ok.injEq] at hres
              subst hres
              exact ⟨rfl, .inl ⟨rfl, rfl⟩⟩
            · cases hres
            · cases hres
        · cases hres
      · cases hres
    · next htree =>
      have hTu : st.T[u] = -1 := by
        by_contra h; exact htree h
      split at hres
      · split at hres
        · simp only [Outcome.ok.injEq] at hres
          subst hres
          refine ⟨rfl, .inr ⟨?_, rfl, ?_⟩⟩
          · unfold inTree
            simp [Array.getD, huT, hTu]
          · intro x hx
            unfold par
            rw [getD_set_int huT]
            simp [hx]
        · cases hres
      · cases hres
  · cases hres

end GDist

namespace GDist
open GraphSpec Model

variable {a : G}

theorem patonScan_indep (hsym : ∀ u v, a.adj u v = a.adj v u) (hirr : ∀ v, a.adj v v = false) {v : Nat} :
    ∀ (us : List Nat) (st : PatonSt) (nt : List (Nat × Nat)), PS a st v → PC a st → PI a st nt → us.Nodup →
      (∀ u ∈ us, u < a.n ∧ a.adj v u = true ∧ edgeRemoved st.removed u v = false) →
      (∀ x ∈ st.X, par st.T x = v → x ∉ us) →
      ∀ st', patonScan v us st = .ok st' → ∃ nt', PI a st' nt' := by
  intro us
  induction us with
  | nil =>
    intro st nt _ _ pi _ _ _ st' hres
    simp only [patonScan] at hres
    cases hres; exact ⟨nt, pi⟩
  | cons u us ih =>
    intro st nt inv pc pi hnd hus hfresh st' hres
    obtain ⟨hun, hadj, hnr⟩ := hus u List.mem_cons_self
    obtain ⟨hunot, hnd'⟩ := List.nodup_cons.1 hnd
    obtain ⟨hvn, hvt⟩ := inv.cur
    have huv : u ≠ v := by
      intro h0; subst h0; rw [hirr] at hadj; cases hadj
    rw [patonScan_cons] at hres
    cases h1 : patonScan v [u] st with
    | panic => rw [h1] at hres; simp at hres
    | outOfFuel => rw [h1] at hres; simp at hres
    | ok s1 =>
      rw [h1] at hres
      simp only at hres
      have hus1 : ∀ u' ∈ [u], u' < a.n ∧ a.adj v u' = true ∧ edgeRemoved st.removed u' v = false := by
        intro u' hu'; simp at hu'; subst hu'; exact ⟨hun, hadj, hnr⟩
      have inv1 := (patonScan_sound hsym hirr True [u] st inv (by simp) hus1 (fun _ _ _ => .inl trivial)
        (fun x hx hp hm => by
          simp at hm; subst hm
          exact hfresh x hx hp List.mem_cons_self) s1 h1).1
      have pc1 := patonScan_count hsym hvn [u] st pc hvt (by simp) hus1 s1 h1
      have huX : inTree st.T u → u ∈ st.X := by
        intro hint
        by_contra huX
        have := inv.exam u hun hint huX huv v (by rw [hsym]; exact hadj) hvn
        rw [edgeRemoved_symm, this] at hnr
        cases hnr
      obtain ⟨nt1, pi1⟩ := patonStep_indep inv hun hnr huX pi h1
      obtain ⟨hrm, hshape⟩ := patonStep_shape h1
      refine ih s1 nt1 inv1 pc1 pi1 hnd' ?_ ?_ st' hres
      · intro u' hu'
        obtain ⟨h1', h2', h3'⟩ := hus u' (List.mem_cons_of_mem _ hu')
        refine ⟨h1', h2', ?_⟩
        rw [hrm]
        cases hh : edgeRemoved ((u, v) :: st.removed) u' v with
        | false => rfl
        | true =>
          rcases edgeRemoved_cons.1 hh with ⟨h4, _⟩ | ⟨h5, h4⟩ | h4
          · exact (hunot (by rw [h4]; exact hu')).elim
          · exact (hunot (by rw [h5, h4]; exact hu')).elim
          · rw [h3'] at h4; cases h4
      · intro x hx hp hm
        rcases hshape with ⟨hT, hXe⟩ | ⟨hnotin, hXe, hpar⟩
        · rw [hXe] at hx; rw [hT] at hp
          exact hfresh x hx hp (List.mem_cons_of_mem _ hm)
        · rw [hXe] at hx
          rcases List.mem_cons.1 hx with rfl | hx
          · exact hunot hm
          · have hxu : x ≠ u := fun h0 => hnotin (h0 ▸ (inv.xin x hx).2.1)
            rw [hpar x hxu] at hp
            exact hfresh x hx hp (List.mem_cons_of_mem _ hm)

theorem patonLoop_indep (hsym : ∀ u v, a.adj u v = a.adj v u) (hirr : ∀ v, a.adj v v = false) :
    ∀ (fuel : Nat) (st : PatonSt) (nt : List (Nat × Nat)), PO a st → PC a st → PI a st nt →
      ∀ st', patonLoop a fuel st = .ok st' → PC a st' ∧ ∃ nt', PI a st' nt' := by
  intro fuel
  induction fuel with
  | zero => intro st _ _ _ _ st' hres; simp [patonLoop] at hres
  | succ f ih =>
    intro st nt o pc pi st' hres
    unfold patonLoop at hres
    match hX : st.X with
    | [] =>
      rw [hX] at hres
      simp only [Outcome.ok.injEq] at hres
      subst hres
      exact ⟨pc, nt, pi⟩
    | v :: X' =>
      rw [hX] at hres
      simp only at hres
      have hvX : v ∈ st.X := by rw [hX]; exact List.mem_cons_self
      obtain ⟨hvn, hvt, hv0⟩ := o.xin v hvX
      cases hscan : patonScan v ((a.nbrs v).filter fun u => !edgeRemoved st.removed u v) { st with X := X' } with
      | panic => rw [hscan] at hres; simp at hres
      | outOfFuel => rw [hscan] at hres; simp at hres
      | ok st1 =>
        rw [hscan] at hres
        simp only at hres
        have o1 := po_step hsym hirr o hX hscan
        have pc0 : PC a { st with X := X' } := ⟨pc.tsz, pc.rin, pc.rnd, pc.cnt⟩
        have pi0 : PI a { st with X := X' } nt := ⟨pi.fnt, pi.ntnd, pi.ntrm, pi.trm, pi.ntt, pi.rcov⟩
        have hus : ∀ u ∈ (a.nbrs v).filter fun u => !edgeRemoved st.removed u v,
            u < a.n ∧ a.adj v u = true ∧ edgeRemoved st.removed u v = false := fun u hu => by
          obtain ⟨h1, h2⟩ := List.mem_filter.1 hu
          obtain ⟨h3, h4⟩ := mem_nbrs.1 h1
          exact ⟨h3, h4, by simpa using h2⟩
        have hnbnd : ((a.nbrs v).filter fun u => !edgeRemoved st.removed u v).Nodup :=
          (List.nodup_range.filter _).filter _
        have pc1 := patonScan_count hsym hvn _ _ pc0 hvt hnbnd hus st1 hscan
        -- the scan invariant at the start of the scan (as in `po_step`)
        have hnd := o.xnd
        rw [hX, List.nodup_cons] at hnd
        have hpair := o.xpair
        rw [hX, List.pairwise_cons] at hpair
        have hX'0 : ∀ x ∈ X', x ≠ 0 := by
          intro x hx
          have hxX : x ∈ st.X := by rw [hX]; exact List.mem_cons_of_mem _ hx
          rcases (o.xin x hxX).2.2 with h | h
          · exact h
          · rw [hX] at h
            have : X' = [] := (List.cons.inj h).2
            rw [this] at hx; cases hx
        have inv : PS a { st with X := X' } v :=
          { tsz := o.tsz, dsz := o.dsz, root := o.root, ptree := o.ptree, pdep := o.pdep,
            xin := fun x hx => by
              have hxX : x ∈ st.X := by rw [hX]; exact List.mem_cons_of_mem _ hx
              exact ⟨(o.xin x hxX).1, (o.xin x hxX).2.1, hX'0 x hx⟩,
            xnd := hnd.2, vnx := hnd.1, cur := ⟨hvn, hvt⟩,
            leaf := fun x hx ht hm => by
              by_cases hx0 : x = 0
              · subst hx0
                rw [par_root o.root] at hm
                exact hX'0 0 hm rfl
              · exact o.leaf x hx ht hx0 (by rw [hX]; exact List.mem_cons_of_mem _ hm),
            xanc := fun x hx => by
              obtain ⟨k, h1, h2⟩ := hpair.1 x hx
              have hv0' : v ≠ 0 := by
                rcases hv0 with h | h
                · exact h
                · rw [hX] at h
                  have : X' = [] := (List.cons.inj h).2
                  rw [this] at hx; cases hx
              have hd := (o.pdep v hvn hvt hv0').1
              exact ⟨k + 1, by rw [Function.iterate_succ_apply]; exact h1, by
                show dep st.depth (par st.T x) + (k + 1) = dep st.depth v
                omega⟩,
            xpair := hpair.2,
            exam := fun x hx ht hxX hxv => o.exam x hx ht (by
              rw [hX]; intro hm
              rcases List.mem_cons.1 hm with h | h
              · exact hxv h
              · exact hxX h),
            fund := o.fund }
        obtain ⟨nt1, pi1⟩ := patonScan_indep hsym hirr _ _ nt inv pc0 pi0 hnbnd hus
          (fun x hx hp _ => by
            have hxX : x ∈ st.X := by rw [hX]; exact List.mem_cons_of_mem _ hx
            obtain ⟨h1, h2, _⟩ := o.xin x hxX
            exact o.leaf x h1 h2 (hX'0 x hx) (by
              show par st.T x ∈ st.X
              rw [hp]; exact hvX)) st1 hscan
        exact ih st1 nt1 o1 pc1 pi1 st' hres

/-- **every fundamental cycle contains an edge that no other fundamental cycle contains** (its non-tree edge):
the fundamental cycles are linearly independent over GF(2) -/
theorem paton_fund_private (a : G) (hsym : ∀ u v, a.adj u v = a.adj v u) (hirr : ∀ v, a.adj v v = false)
    (hn : 0 < a.n) (fuel : Nat) (st : PatonSt) (hres : patonLoop a fuel (patonInit a.n) = .ok st) :
    ∃ es : List Nat, es.length = st.fund.length ∧
      ∀ i j (hi : i < st.fund.length) (hj : j < es.length), es[j] ∈ st.fund[i] ↔ i = j := by
  have pc0 : PC a (patonInit a.n) := by
    refine ⟨by simp [patonInit], fun e he => by simp [patonInit] at he, by simp [patonInit], ?_⟩
    have hset : (Array.replicate a.n (-1 : Int)).setIfInBounds 0 0
        = (Array.replicate a.n (-1 : Int)).set 0 0 (by simpa using hn) := by
      simp [Array.setIfInBounds, hn]
    unfold patonInit; simp only
    rw [hset, Array.count_set (by simpa using hn)]
    simp
    omega
  have o0 := po_init hn
  have hin0 : ∀ x, inTree (patonInit a.n).T x → x = 0 := by
    intro x ht
    have hset : (Array.replicate a.n (-1 : Int)).setIfInBounds 0 0
        = (Array.replicate a.n (-1 : Int)).set 0 0 (by simpa using hn) := by
      simp [Array.setIfInBounds, hn]
    by_contra hx0
    apply ht
    show ((Array.replicate a.n (-1 : Int)).setIfInBounds 0 0).getD x (-1) = -1
    rw [hset, getD_set_int]
    simp only [hx0, if_false]
    by_cases hxn : x < a.n <;> simp [Array.getD, hxn]
  have pi0 : PI a (patonInit a.n) [] :=
    { fnt := (by simp [patonInit])
      ntnd := List.nodup_nil
      ntrm := fun e he => (by cases he)
      trm := fun x _ ht hx0 => absurd (hin0 x ht) hx0
      ntt := fun e he => (by cases he)
      rcov := fun e he => (by simp [patonInit] at he) }
  obtain ⟨pc, nt, pi⟩ := patonLoop_indep hsym hirr fuel _ [] o0 pc0 pi0 st hres
  have hlen : nt.length = st.fund.length := pi.fnt.length_eq.symm
  have hloop : ∀ e ∈ st.removed, e.1 ≠ e.2 := by
    intro e he h0
    obtain ⟨_, _, h3, _, _⟩ := pc.rin e he
    rw [h0, hirr] at h3; cases h3
  have hinj : ∀ e ∈ st.removed, ∀ e' ∈ st.removed, edgeCode e.1 e.2 = edgeCode e'.1 e'.2 → e = e' := by
    intro e he e' he' hc
    have hn' := edgeCode_inj (hloop e he) (hloop e' he') hc
    have hnd : (st.removed.map normE).Nodup := by
      rw [List.Nodup, List.pairwise_map]; exact pc.rnd
    exact List.inj_on_of_nodup_map hnd he he' hn'
  refine ⟨nt.map fun e => edgeCode e.1 e.2, by simp [hlen], ?_⟩
  intro i j hi hj
  have hj' : j < nt.length := by simpa using hj
  have hi' : i < nt.length := by omega
  have hFi : FundOf a st.T st.fund[i] nt[i] := by
    have := (List.forall₂_iff_get.1 pi.fnt).2 i hi hi'
    simpa using this
  have hej : (nt.map fun e => edgeCode e.1 e.2)[j] = edgeCode nt[j].1 nt[j].2 := by simp
  rw [hej]
  constructor
  · intro hm
    rcases hFi.2 _ hm with h | ⟨x, hx, ht, hx0, hc⟩
    · have := hinj _ (pi.ntrm _ (List.getElem_mem hj')) _ (pi.ntrm _ (List.getElem_mem hi')) h
      exact ((List.Nodup.getElem_inj_iff pi.ntnd).1 this).symm
    · exfalso
      have := hinj _ (pi.ntrm _ (List.getElem_mem hj')) _ (pi.trm x hx ht hx0) hc
      exact pi.ntt _ (List.getElem_mem hj') x hx ht hx0 this
  · intro hij
    subst hij
    exact hFi.1

end GDist
