import Mathlib.Data.List.Sort
import Mamba.Lemmas.ExactColex
namespace Search

theorem insertSorted_eq (x : Nat) (l : List Nat) : insertSorted x l = List.orderedInsert (· ≤ ·) x l := by
  induction l with
  | nil => rfl
  | cons y ys ih => simp only [insertSorted, List.orderedInsert, ih]

theorem sortNats_eq (l : List Nat) : sortNats l = List.insertionSort (· ≤ ·) l := by
  unfold sortNats
  induction l with
  | nil => rfl
  | cons x xs ih => simp only [List.foldr_cons, List.insertionSort, ih, insertSorted_eq]

theorem sortNats_perm (l : List Nat) : (sortNats l).Perm l := by
  rw [sortNats_eq]; exact List.perm_insertionSort _ l

theorem sortNats_sorted (l : List Nat) : (sortNats l).Pairwise (· ≤ ·) := by
  rw [sortNats_eq]; exact List.pairwise_insertionSort (· ≤ ·) l

/-- sorting a duplicate-free list of vertices gives the subset it represents -/
theorem sortNats_isSub {n : Nat} {l : List Nat} (hnd : l.Nodup) (hl : ∀ v ∈ l, v < n) :
    IsSub n l.length (sortNats l) := by
  have hp := sortNats_perm l
  refine ⟨hp.length_eq, ?_, fun v hv => hl v (hp.mem_iff.1 hv)⟩
  have hnd' : (sortNats l).Nodup := hp.nodup_iff.2 hnd
  have hs := sortNats_sorted l
  exact (List.pairwise_and_iff.2 ⟨hs, hnd'⟩).imp (fun ⟨h1, h2⟩ => Nat.lt_of_le_of_ne h1 h2)

/-- strictly increasing lists with the same members are equal -/
theorem isSub_ext {n k k' : Nat} {c c' : List Nat} (h : IsSub n k c) (h' : IsSub n k' c')
    (hm : ∀ v, v ∈ c ↔ v ∈ c') : c = c' := by
  have hnd : c.Nodup := h.2.1.imp (fun h => Nat.ne_of_lt h)
  have hnd' : c'.Nodup := h'.2.1.imp (fun h => Nat.ne_of_lt h)
  have hp : c.Perm c' := (List.perm_ext_iff_of_nodup hnd hnd').2 hm
  exact hp.eq_of_pairwise' (r := (· ≤ ·)) (h.2.1.imp Nat.le_of_lt) (h'.2.1.imp Nat.le_of_lt)

/-- the image of a subset under a map of the vertices, as a sorted list -/
def img (σ : Nat → Nat) (c : List Nat) : List Nat := sortNats (c.map σ)

theorem mem_img {σ : Nat → Nat} {c : List Nat} {v : Nat} : v ∈ img σ c ↔ ∃ u ∈ c, σ u = v := by
  unfold img
  rw [(sortNats_perm _).mem_iff, List.mem_map]

theorem img_isSub {n k : Nat} {σ : Nat → Nat} {c : List Nat} (hσ : GSearch.IsBij n σ) (hc : IsSub n k c) :
    IsSub n k (img σ c) := by
  have hnd : (c.map σ).Nodup := by
    refine List.Nodup.map_on ?_ (hc.2.1.imp (fun h => Nat.ne_of_lt h))
    intro x hx y hy h
    exact hσ.inj x y (hc.2.2 x hx) (hc.2.2 y hy) h
  have hl : ∀ v ∈ c.map σ, v < n := by
    intro v hv
    obtain ⟨u, hu, rfl⟩ := List.mem_map.1 hv
    exact hσ.maps u (hc.2.2 u hu)
  have := sortNats_isSub hnd hl
  rw [List.length_map, hc.1] at this
  exact this

/-- applying a generator array to a subset, as `addAugmentations` does -/
theorem mapM_gen {p : Array Nat} {c : List Nat} (hc : ∀ v ∈ c, v < p.size) :
    c.mapM (fun x => p[x]?) = some (c.map fun v => p.getD v 0) := by
  induction c with
  | nil => rfl
  | cons x xs ih =>
    have hx : x < p.size := hc x List.mem_cons_self
    have ih' := ih (fun v hv => hc v (List.mem_cons_of_mem _ hv))
    simp only [List.mapM_cons, ih', List.map_cons, Array.getElem?_eq_getElem hx, Array.getD_eq_getD_getElem?,
      Option.getD_some]
    rfl

end Search
