import Mamba.Lemmas.CanonFOrbPop
import Mamba.Lemmas.CanonFGenBase
import Mamba.Lemmas.CanonFGenFix
import Mamba.Lemmas.CanonFGenStep
/-!
# The recorded generators generate Aut: the top frame is popped (`gen_pop`)

If the node of the popped frame (level `L`) is on the first-leaf path, it is covered (`op_node_acov`), the recorded
generators preserve its colouring (`FrameAux1.e1`), and the stabiliser of level `L + 1` is generated (field `gF` of the popped
frame: its first-path child, the last member of the cell, is processed); `autgen_step` gives the stabiliser of level `L`,
which is what the frame below needs for its finished child (`finish_child'`), or the last conjunct of `GAv` for `L = 0`.
-/
namespace CanonF
open Relation

section
variable {n m : Nat} {nb : Nbrs} {rf : Nat} {r : IR.St}
  (hnb : NbOK nb n) (hA : IR.InvA (irG n nb) r) (hD : IR.InvD (irG n nb) r)

include hnb hA hD in
/-- the popped frame is on the first-leaf path ⇒ the stabiliser of its level is generated -/
theorem gp_autgen_level {gh : Gh} (st sz : Nat) (ls : List (Nat × Nat)) (s : LS) (c : Nat) (cs : List Nat) (p : Nat)
    (ps : List Nat) (hcst : c = st) (hsz : 2 ≤ sz)
    (h5 : FramesOK n nb rf r gh.vs (p :: ps) (c :: cs) ((st, sz) :: ls)) (hg : GInv n m nb s)
    (hG : GlobalInv n nb rf r gh s) (hGA : GlobalA n gh s) (hcnt : 0 < s.count)
    (hD1 : FrameAux1 n nb rf r gh s gh.vs true ps c st sz)
    (hcov : ACovFrames n nb rf r gh s gh.vs true (p :: ps) (c :: cs) ((st, sz) :: ls))
    (hG1 : FrameAuxG1 n nb rf r gh s gh.vs true ps c st sz)
    (hpre : gh.vs.take ps.length = gh.vsF.take ps.length) : AutGen n nb r gh s ps.length := by
  have he1 := hD1.e1 hcnt hpre
  have hnode : nodeL n nb rf r gh.vs ps.length = nodeL n nb rf r gh.vsF ps.length := (nodeL_congr hpre.symm).symm
  have hcomp := op_node_acov hnb st sz ls s c cs p ps hcst h5 hg hGA hcov (fun _ => he1)
  have h5' := h5
  simp only [FramesOK] at h5'
  obtain ⟨_, hlen, _, _⟩ := h5'
  have hlt : sz - 1 < (cellL n nb rf r gh.vs ps.length st).length := by omega
  have hw : (cellL n nb rf r gh.vs ps.length st)[sz - 1]? = some (cellL n nb rf r gh.vs ps.length st)[sz - 1] :=
    List.getElem?_eq_getElem hlt
  have hx : gh.vsF[ps.length]? = some (cellL n nb rf r gh.vs ps.length st)[sz - 1] := by
    rw [hG1.fmax hcnt hpre]; exact hw
  have hL : ps.length < gh.vsF.length := (List.getElem?_eq_some_iff.1 hx).1
  have hnext := hG1.gF hcnt hpre (sz - 1) _ (by simp only [if_true]; omega) hw hx
  rw [hnode] at he1 hcomp
  exact autgen_step hnb hA hD (hG.first hcnt) hL hcnt hg hGA he1 hcomp hnext

set_option linter.unusedVariables false in
include hnb hA hD in
theorem gen_pop (gh : Gh) (st sz : Nat) (ls : List (Nat × Nat)) (s : LS) (hc : Core n s)
    (ht : TopOK s.op 0 s.path s.choices ((st, sz) :: ls)) (hsk : s.skipDeage = false)
    (hage : s.op.age + 1 = s.path.length)
    (hJ : CertN n m nb ((st, sz) :: ls) s) (hDv : DNv n nb rf r gh ((st, sz) :: ls) s)
    (hAv : ANv n nb rf r gh ((st, sz) :: ls) s)
    (hGv : GNv n nb rf r gh ((st, sz) :: ls) s) :
    GAv n nb rf r { gh with vs := gh.vs.dropLast } ls { s with path := s.path.drop 1, choices := s.choices.drop 1 } := by
  obtain ⟨hw, hG, _, haux⟩ := hDv
  obtain ⟨hGA, hacov, _⟩ := hAv
  have hauxG : FrameAuxG n nb rf r gh s gh.vs true s.path s.choices ((st, sz) :: ls) := hGv
  obtain ⟨p, ps, c, cs, st', sz', ls', e1, e2, e3⟩ := topOK_path_ne ht
  cases e3
  have ht' := ht
  rw [e1, e2] at ht'
  simp only [TopOK] at ht'
  obtain ⟨_, tsz, tc, _, tl⟩ := ht'
  obtain ⟨h1, h2, h3, h4, h5, h6, h7⟩ := hw
  rw [e1, e2] at haux h5 hacov hauxG
  rw [e1] at h3
  simp only [List.length_cons] at h3
  have hhead := FrameAux.head haux
  have h5t := h5.tail
  have hcnt : 0 < s.count := by
    rcases Nat.eq_zero_or_pos s.count with h0 | hpos
    · have := hhead.ph1 h0
      simp only [if_true] at this
      omega
    · exact hpos
  have hlevel : gh.vs.take ps.length = gh.vsF.take ps.length → AutGen n nb r gh s ps.length :=
    gp_autgen_level hnb hA hD st sz ls s c cs p ps (by omega) tsz h5 hJ.1 hG hGA hcnt hhead hacov
      (FrameAuxG.head hauxG)
  have hXt := FrameAuxG.tail hauxG
  have hB : FrameAuxG n nb rf r gh s gh.vs true ps cs ls := by
    cases ps with
    | nil => cases cs <;> cases ls <;> simp_all [FrameAuxG]
    | cons p' ps' =>
      cases cs with
      | nil => simp [FrameAuxG] at hXt
      | cons c' cs' =>
        cases ls with
        | nil => simp [FrameAuxG] at hXt
        | cons x ls'' =>
          obtain ⟨st2, sz2⟩ := x
          simp only [LevelsOK] at tl
          obtain ⟨_, _, tc2, _, _⟩ := tl
          simp only [FramesOK] at h5t
          obtain ⟨g1, _, g3, _⟩ := h5t
          simp only [List.length_cons] at h3 hlevel
          obtain ⟨g3a, _⟩ := g3 (by omega)
          refine FrameAuxG.mk ((FrameAuxG.head hXt).finish_child' (fun w hw' hpre hx => ?_)) (FrameAuxG.tail hXt)
          rw [show c' - st2 = p' by omega, ← g3a] at hw'
          apply hlevel
          rw [List.take_add_one, List.take_add_one, hpre, hw', hx]
  have hlen : ∀ L, L < ps.length → gh.vs.dropLast.take L = gh.vs.take L :=
    fun L hL => take_dropLast gh.vs (by omega)
  refine ⟨?_, ?_⟩
  · show FrameAuxG n nb rf r { gh with vs := gh.vs.dropLast }
      { s with path := s.path.drop 1, choices := s.choices.drop 1 } gh.vs.dropLast true (s.path.drop 1)
      (s.choices.drop 1) ls
    simp only [e1, e2, List.drop_succ_cons, List.drop_zero]
    exact FrameAuxG.mono (gh := gh) (gh' := { gh with vs := gh.vs.dropLast }) (s := s)
      (s' := { s with path := ps, choices := cs }) (fun h0 => h0) (fun _ hγ => hγ) rfl
      true ps cs ls hlen hB
  · intro hp
    have hp' : s.path.drop 1 = [] := hp
    rw [e1] at hp'
    simp only [List.drop_succ_cons, List.drop_zero] at hp'
    subst hp'
    exact AutGen.mono (gh := gh) (gh' := { gh with vs := gh.vs.dropLast }) (s := s)
      (s' := { s with path := s.path.drop 1, choices := s.choices.drop 1 }) (hlevel (by simp)) (fun _ hγ => hγ) rfl

end
end CanonF
