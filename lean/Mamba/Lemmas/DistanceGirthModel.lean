import Mamba.Lemmas.DistanceModel
/-!
# Lemmas for C10: the faithful model of `Girth` is total (no panic, fuel `n + 2` suffices)
-/
namespace GDist
open GraphSpec

structure GOk (n : Nat) (st : Model.GirthSt) : Prop where
  dsize : st.D.size = n
  psize : st.P.size = n
  qlt : ∀ x ∈ st.Q, x < n

theorem girthInner_total {n : Nat} (i k dk pk : Nat) :
    ∀ (js : List Nat) (st : Model.GirthSt), GOk n st → (∀ j ∈ js, j < n) →
      ∃ st', Model.girthInner i k dk pk js st = .ok st' ∧ GOk n st' ∧
        st'.Q.length + st'.D.count 0 = st.Q.length + st.D.count 0 := by
  intro js
  induction js with
  | nil => intro st ok _; exact ⟨st, rfl, ok, rfl⟩
  | cons j js ih =>
    intro st ok hjs
    have hj : j < n := hjs j List.mem_cons_self
    have hjs' : ∀ x ∈ js, x < n := fun x hx => hjs x (List.mem_cons_of_mem _ hx)
    have hjD : j < st.D.size := by rw [ok.dsize]; exact hj
    have hjP : j < st.P.size := by rw [ok.psize]; exact hj
    unfold Model.girthInner
    by_cases h1 : j ≠ pk
    · simp only [h1, ne_eq, not_false_eq_true, if_true, hjD, dif_pos]
      by_cases h2 : j = i ∧ dk + 1 < st.girth
      · simp only [h2, and_self, if_true]
        exact ih { st with girth := dk + 1 } ⟨ok.dsize, ok.psize, ok.qlt⟩ hjs'
      · simp only [h2, if_false]
        by_cases h3 : ¬ j = i ∧ st.D[j] = 0
        · simp only [h3, not_false_eq_true, and_self, if_true]
          by_cases h4 : dk + 2 < st.girth
          · simp only [h4, if_true, hjP, dif_pos]
            obtain ⟨st', e, ok', hc⟩ := ih
              { st with P := st.P.set j k, D := st.D.set j (dk + 1), Q := st.Q ++ [j] }
              ⟨by simp [ok.dsize], by simp [ok.psize], by
                intro x hx
                rcases List.mem_append.1 hx with hx | hx
                · exact ok.qlt x hx
                · simp at hx; subst hx; exact hj⟩ hjs'
            refine ⟨st', e, ok', ?_⟩
            rw [hc]
            simp only [List.length_append, List.length_cons, List.length_nil]
            rw [Array.count_set hjD]
            have hpos : 0 < st.D.count 0 := by
              rw [Array.count_pos_iff, ← h3.2]; exact Array.getElem_mem hjD
            simp only [h3.2, beq_self_eq_true, if_true]
            have : (dk + 1 == 0) = false := by simp
            simp only [this, Bool.false_eq_true, if_false]
            omega
          · simp only [h4, if_false]
            exact ih st ok hjs'
        · simp only [h3, if_false]
          by_cases h5 : ¬ j = i ∧ dk + st.D[j] + 1 < st.girth
          · simp only [h5, not_false_eq_true, and_self, if_true]
            exact ih { st with girth := dk + st.D[j] + 1 } ⟨ok.dsize, ok.psize, ok.qlt⟩ hjs'
          · simp only [h5, if_false]
            exact ih st ok hjs'
    · simp only [h1, if_false]
      exact ih st ok hjs'

theorem girthOuter_total (g : G) (i : Nat) :
    ∀ (fuel : Nat) (st : Model.GirthSt), GOk g.n st → st.Q.length + st.D.count 0 + 1 ≤ fuel →
      ∃ st', Model.girthOuter g i fuel st = .ok st' ∧ GOk g.n st' := by
  intro fuel
  induction fuel with
  | zero => intro st _ hf; omega
  | succ f ih =>
    intro st ok hf
    unfold Model.girthOuter
    match hQ : st.Q with
    | [] => exact ⟨st, by simp, ok⟩
    | k :: Q =>
      have hk : k < g.n := ok.qlt k (by rw [hQ]; exact List.mem_cons_self)
      have hkD : k < st.D.size := by rw [ok.dsize]; exact hk
      have hkP : k < st.P.size := by rw [ok.psize]; exact hk
      have ok2 : GOk g.n { st with Q := Q } :=
        ⟨ok.dsize, ok.psize, fun x hx => ok.qlt x (by rw [hQ]; exact List.mem_cons_of_mem _ hx)⟩
      obtain ⟨st', e, ok', hc⟩ := girthInner_total (n := g.n) i k st.D[k] st.P[k] (g.nbrs k) { st with Q := Q } ok2
        (fun v hv => (mem_nbrs.1 hv).1)
      simp only [hkD, hkP, dif_pos, e]
      apply ih st' ok'
      rw [hc]
      rw [hQ] at hf
      simp only [List.length_cons] at hf
      simpa using (by omega : Q.length + st.D.count 0 + 1 ≤ f)

theorem girthRoots_total (g : G) (fuel : Nat) (hf : g.n + 2 ≤ fuel) :
    ∀ (roots : List Nat) (st : Model.GirthSt), (∀ r ∈ roots, r < g.n) → st.P.size = g.n →
      ∃ st', Model.girthRoots g fuel roots st = .ok st' := by
  intro roots
  induction roots with
  | nil => intro st _ _; exact ⟨st, rfl⟩
  | cons i is ih =>
    intro st hr hP
    have hi : i < g.n := hr i List.mem_cons_self
    obtain ⟨st', e, ok'⟩ := girthOuter_total g i fuel { st with D := Array.replicate g.n 0, Q := [i] }
      ⟨by simp, hP, by intro x hx; simp at hx; subst hx; exact hi⟩
      (by simp only [List.length_cons, List.length_nil, Array.count_replicate_self]; omega)
    simp only [Model.girthRoots, e]
    exact ih st' (fun r hr' => hr r (List.mem_cons_of_mem _ hr')) ok'.psize

/-- the model of `Girth` never panics and never runs out of fuel -/
theorem girthM_total (g : G) (fuel : Nat) (hf : g.n + 2 ≤ fuel) : ∃ r, Model.girthM g fuel = .ok r := by
  unfold Model.girthM
  by_cases hn : g.n < 3
  · exact ⟨-1, by simp [hn]⟩
  · simp only [hn, if_false]
    obtain ⟨st', e⟩ := girthRoots_total g fuel hf (List.range (g.n - 2))
      { girth := g.n + 2, D := Array.replicate g.n 0, P := Array.replicate g.n 0, Q := [] }
      (fun r hr => by have := List.mem_range.1 hr; omega) (by simp)
    rw [e]
    simp only
    split
    · exact ⟨_, rfl⟩
    · exact ⟨_, rfl⟩

end GDist
