import Mamba.Lemmas.IREquiv
import Mathlib.Data.List.Lex
import Mathlib.Order.Lattice

/-!
# Invariance of the canonical certificate / canonical graph; automorphisms give equal-certificate leaves
-/
namespace IR

theorem mx_eq_max (b x : List Nat) : (if b < x then x else b) = max b x := by
  rcases lt_trichotomy b x with h | h | h
  · rw [if_pos h, max_eq_right (le_of_lt h)]
  · subst h; simp
  · rw [if_neg (lt_asymm h), max_eq_left (le_of_lt h)]

/-- the maximum does not depend on the order of the list -/
theorem maxCert_perm {l l' : List (List Nat)} (p : l.Perm l') : maxCert l = maxCert l' := by
  unfold maxCert
  have : (fun (b x : List Nat) => if b < x then x else b) = (fun b x => max b x) := by
    funext b x; exact mx_eq_max b x
  rw [this]
  exact p.foldl_eq (l₁ := l) (l₂ := l') (f := fun b x => max b x) []

theorem initSt_rel {g g' : G} {σ τ : Nat → Nat} (R : Relabel g g' σ τ) (k : Nat) {cls cls' : Nat → Nat}
    (hcls : ∀ v, v < g.n → cls' (σ v) = cls v) : SRel g σ (initSt g k cls) (initSt g' k cls') := by
  refine ⟨?_, rfl, rfl⟩
  intro v hv
  show col (tab g'.n cls') (σ v) = col (tab g.n cls) v
  rw [col_tab _ hv, col_tab _ (by rw [R.n_eq]; exact R.σ_lt v hv), hcls v hv]

theorem init_rel {g g' : G} {σ τ : Nat → Nat} (R : Relabel g g' σ τ) : SRel g σ (init g) (init g') :=
  initSt_rel R 1 (fun _ _ => rfl)

theorem rfuel_eq {g g' : G} {σ τ : Nat → Nat} (R : Relabel g g' σ τ) : rfuel g' = rfuel g := by
  unfold rfuel; rw [R.n_eq]

/-- leaves of the relabelled graph = leaves of the graph transported along σ, up to order -/
theorem allLeaves_rel {g g' : G} {σ τ : Nat → Nat} (R : Relabel g g' σ τ) {s s' : St} (h : SRel g σ s s') :
    ∃ l, (allLeaves g' s').Perm l ∧ List.Forall₂ (fun c c' => CRel g σ c c') (allLeaves g s) l := by
  unfold allLeaves
  rw [rfuel_eq R, R.n_eq]
  exact leaves_rel R _ _ (refine_rel R _ h)

theorem allLeafCerts_perm {g g' : G} {σ τ : Nat → Nat} (R : Relabel g g' σ τ) {s s' : St} (h : SRel g σ s s') :
    ((allLeaves g' s').map (cert g')).Perm ((allLeaves g s).map (cert g)) := by
  obtain ⟨l, hp, hf⟩ := allLeaves_rel R h
  exact (hp.map _).trans (List.Perm.of_eq (map_cert_of_forall2 R hf))

theorem canonCertFrom_invariant {g g' : G} {σ τ : Nat → Nat} (R : Relabel g g' σ τ) {s s' : St} (h : SRel g σ s s') :
    canonCertFrom g' s' = canonCertFrom g s := by
  unfold canonCertFrom
  exact maxCert_perm (allLeafCerts_perm R h)

theorem canonGraphFrom_invariant {g g' : G} {σ τ : Nat → Nat} (R : Relabel g g' σ τ) {s s' : St} (h : SRel g σ s s') :
    canonGraphFrom g' s' = canonGraphFrom g s := by
  unfold canonGraphFrom
  rw [canonCertFrom_invariant R h, R.n_eq]

theorem canonGraph_invariant {g g' : G} {σ τ : Nat → Nat} (R : Relabel g g' σ τ) : canonGraph g' = canonGraph g :=
  canonGraphFrom_invariant R (init_rel R)

theorem forall2_mem {α β : Type} {R : α → β → Prop} {l : List α} {l' : List β} (hf : List.Forall₂ R l l')
    {a : α} (ha : a ∈ l) : ∃ b, b ∈ l' ∧ R a b := by
  induction hf with
  | nil => cases ha
  | cons hab _ ih =>
    rcases List.mem_cons.1 ha with e | e
    · subst e; exact ⟨_, List.mem_cons_self .., hab⟩
    · obtain ⟨b, hb, hr⟩ := ih e; exact ⟨b, List.mem_cons_of_mem _ hb, hr⟩

/-- an automorphism (compatible with the start state) maps every leaf to a leaf with the same certificate -/
theorem leaf_of_aut {g : G} {γ τ : Nat → Nat} (R : Relabel g g γ τ) {s : St} (h : SRel g γ s s)
    {l0 : Array Nat} (h0 : l0 ∈ allLeaves g s) :
    ∃ l, l ∈ allLeaves g s ∧ cert g l = cert g l0 ∧ ∀ v, v < g.n → col l (γ v) = col l0 v := by
  obtain ⟨ls, hp, hf⟩ := allLeaves_rel R h
  obtain ⟨l, hl, hrel⟩ : ∃ l, l ∈ ls ∧ CRel g γ l0 l := forall2_mem hf h0
  exact ⟨l, hp.mem_iff.2 hl, cert_rel R hrel, hrel⟩

/-! ### the executable relabelling satisfies `Relabel` -/

theorem nbrs_relabel (g : G) (σ τ : Nat → Nat) {u : Nat} (hu : u < g.n) :
    (relabel g σ τ).nbrs u = (g.nbrs (τ u)).map σ := by
  simp [G.nbrs, relabel, hu]

theorem relabel_Relabel (g : G) (σ τ : Nat → Nat)
    (left : ∀ v, v < g.n → τ (σ v) = v) (right : ∀ v, v < g.n → σ (τ v) = v)
    (σ_lt : ∀ v, v < g.n → σ v < g.n) (τ_lt : ∀ v, v < g.n → τ v < g.n)
    (nbrs_lt : ∀ v, v < g.n → ∀ w ∈ g.nbrs v, w < g.n) : Relabel g (relabel g σ τ) σ τ where
  n_eq := rfl
  left := left
  right := right
  σ_lt := σ_lt
  τ_lt := τ_lt
  nbrs_lt := nbrs_lt
  nbrs := by
    intro v hv
    rw [nbrs_relabel g σ τ (σ_lt v hv), left v hv]

end IR
