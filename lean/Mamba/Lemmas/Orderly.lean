import Mathlib.Data.List.Basic
/-!
# Orderly generation by canonical augmentation — the abstract argument

Objects `α` with an equivalence `E` ("isomorphic") and a relation `Par X Z` ("`X` is, up to `E`, the canonical parent of
`Z`") that respects `E` on both sides and determines the parent up to `E`.  If every object `X` comes with a list of
children that is an exact transversal (up to `E`) of `{Z | Par X Z}`, then the objects listed `d` levels below `X`
form an exact transversal of `{Y | Anc d X Y}` (the objects whose `d`-th canonical ancestor is `X`).
No group theory is needed at this level: orbit representatives and the canonical-deletion test only enter through
the three properties of the children lists.
-/
namespace Orderly

variable {α : Type}

/-- an equivalence relation and a parent relation compatible with it -/
structure Laws (E Par : α → α → Prop) : Prop where
  refl : ∀ x, E x x
  symm : ∀ {x y}, E x y → E y x
  trans : ∀ {x y z}, E x y → E y z → E x z
  par_left : ∀ {x x' z}, E x x' → Par x z → Par x' z
  par_right : ∀ {x z z'}, E z z' → Par x z → Par x z'
  par_unique : ∀ {x x' z}, Par x z → Par x' z → E x x'

/-- `Anc E Par d X Y`: `X` is the `d`-th canonical ancestor of `Y` (up to `E`) -/
def Anc (E Par : α → α → Prop) : Nat → α → α → Prop
  | 0, X, Y => E X Y
  | d + 1, X, Y => ∃ Z, Par X Z ∧ Anc E Par d Z Y

variable {E Par : α → α → Prop}

theorem anc_left (L : Laws E Par) : ∀ {d : Nat} {X X' Y : α}, E X X' → Anc E Par d X Y → Anc E Par d X' Y
  | 0, _, _, _, h, ha => L.trans (L.symm h) ha
  | _ + 1, _, _, _, h, ⟨Z, hp, ha⟩ => ⟨Z, L.par_left h hp, ha⟩

theorem anc_right (L : Laws E Par) : ∀ {d : Nat} {X Y Y' : α}, E Y Y' → Anc E Par d X Y → Anc E Par d X Y'
  | 0, _, _, _, h, ha => L.trans ha h
  | _ + 1, _, _, _, h, ⟨Z, hp, ha⟩ => ⟨Z, hp, anc_right L h ha⟩

/-- the `d`-th ancestor is determined up to `E` -/
theorem anc_unique (L : Laws E Par) : ∀ {d : Nat} {X X' Y Y' : α}, E Y Y' → Anc E Par d X Y → Anc E Par d X' Y' → E X X'
  | 0, _, _, _, _, h, ha, ha' => L.trans (L.trans ha h) (L.symm ha')
  | _ + 1, _, _, _, _, h, ⟨Z, hp, ha⟩, ⟨Z', hp', ha'⟩ =>
    have hz : E Z Z' := anc_unique L h ha ha'
    L.par_unique (L.par_right hz hp) hp'

/-- ancestors compose at the bottom -/
theorem anc_snoc (L : Laws E Par) : ∀ {d : Nat} {X W Z : α}, Anc E Par d X W → Par W Z → Anc E Par (d + 1) X Z
  | 0, _, _, Z, ha, hp => ⟨Z, L.par_left (L.symm ha) hp, L.refl Z⟩
  | _ + 1, _, _, _, ⟨Z', hp', ha⟩, hp => ⟨Z', hp', anc_snoc L ha hp⟩

/-- `L` lists exactly one representative of every `E`-class of objects with `S` -/
structure IsTrans (E : α → α → Prop) (S : α → Prop) (l : List α) : Prop where
  sound : ∀ y ∈ l, S y
  distinct : l.Pairwise fun a b => ¬ E a b
  complete : ∀ y, S y → ∃ y' ∈ l, E y y'

/-- **one step of orderly generation**: if the kids of `X` are an exact transversal of the objects with canonical parent
`X`, and below each kid we have an exact transversal of its depth-`d` descendants, the concatenation is an exact
transversal of the depth-`d+1` descendants of `X` -/
theorem trans_flatMap (L : Laws E Par) {β : Type} (ks : List β) (obj : β → α) (outs : β → List α) (d : Nat) (X : α)
    (hk1 : ∀ z ∈ ks, Par X (obj z))
    (hk2 : ks.Pairwise fun a b => ¬ E (obj a) (obj b))
    (hk3 : ∀ Z, Par X Z → ∃ z ∈ ks, E Z (obj z))
    (hout : ∀ z ∈ ks, IsTrans E (Anc E Par d (obj z)) (outs z)) :
    IsTrans E (Anc E Par (d + 1) X) (ks.flatMap outs) where
  sound := by
    intro y hy
    obtain ⟨z, hz, hyz⟩ := List.mem_flatMap.1 hy
    exact ⟨obj z, hk1 z hz, (hout z hz).sound y hyz⟩
  distinct := by
    rw [List.pairwise_flatMap]
    refine ⟨fun z hz => (hout z hz).distinct, ?_⟩
    refine hk2.imp_of_mem ?_
    intro a b ha hb hab x hx y hy hxy
    exact hab (anc_unique L hxy ((hout a ha).sound x hx) ((hout b hb).sound y hy))
  complete := by
    rintro y ⟨Z, hp, ha⟩
    obtain ⟨z, hz, hzE⟩ := hk3 Z hp
    obtain ⟨y', hy', hE⟩ := (hout z hz).complete y (anc_left L hzE ha)
    exact ⟨y', List.mem_flatMap.2 ⟨z, hz, hy'⟩, hE⟩

/-- depth 0: the object itself -/
theorem trans_zero (L : Laws E Par) (X : α) : IsTrans E (Anc E Par 0 X) [X] where
  sound := by intro y hy; rw [List.mem_singleton] at hy; subst hy; exact L.refl _
  distinct := List.pairwise_singleton _ _
  complete := by intro y hy; exact ⟨X, List.mem_singleton.2 rfl, L.symm hy⟩

end Orderly
