import Mamba.Lemmas.DawgAdd
import Mamba.Lemmas.ListAux
/-! The builder invariant across `Add` / `Finish`. -/
namespace Dawg

theorem cmpBytes_eq_neg_one_iff (a b : List Nat) : cmpBytes a b = -1 ↔ a < b := by
  induction a generalizing b with
  | nil =>
    cases b with
    | nil => simp [cmpBytes]
    | cons y b => simp [cmpBytes]
  | cons x a ih =>
    cases b with
    | nil => simp [cmpBytes]
    | cons y b =>
      simp only [cmpBytes, List.cons_lt_cons_iff]
      by_cases h1 : x < y
      · simp [h1]
      · by_cases h2 : y < x
        · have : ¬ x = y := by omega
          simp [h1, h2, this]
        · have : x = y := by omega
          subst this
          simp [ih]

theorem cmpBytes_range (a b : List Nat) : cmpBytes a b = -1 ∨ cmpBytes a b = 0 ∨ cmpBytes a b = 1 := by
  induction a generalizing b with
  | nil => cases b <;> simp [cmpBytes]
  | cons x a ih =>
    cases b with
    | nil => simp [cmpBytes]
    | cons y b =>
      simp only [cmpBytes]
      split
      · simp
      · split
        · simp
        · exact ih b

/-- The order check of `Add` as it is in the source now (regenerated on every run) rejects exactly the comparison
results 0 and 1 of `bytes.Compare(lastWord, new)` and applies as soon as one word is stored. Any other spelling of the
same test (`>= 0`, `numWords >= 1`, …) keeps this. -/
theorem genOrder_consistent :
    Gen.Dawg.addHasWordFrom = 1 ∧ Gen.Dawg.addOrderReject (-1) = false ∧
      Gen.Dawg.addOrderReject 0 = true ∧ Gen.Dawg.addOrderReject 1 = true := by decide

theorem orderReject_iff (a b : List Nat) : Gen.Dawg.addOrderReject (cmpBytes a b) = true ↔ ¬ a < b := by
  obtain ⟨_, h1, h2, h3⟩ := genOrder_consistent
  rw [← cmpBytes_eq_neg_one_iff]
  rcases cmpBytes_range a b with h | h | h <;> rw [h] <;> simp [h1, h2, h3]

theorem Spine.sorted {h : Heap} {R : List Nat} {k : Nat} {sp : List Nat} {v : Word} {L Le : List Word}
    (hs : Spine h R k sp v L Le) : L.Pairwise (· < ·) := by
  cases hs with
  | last hn => exact hn.sorted
  | node _ _ _ hsort => exact hsort

theorem lt_of_sorted_getLast {ws : List Word} {m w : Word} (hs : ws.Pairwise (· < ·)) (hl : ws.getLast? = some m)
    (hm : m < w) : ∀ u ∈ ws, u < w := by
  intro u hu
  obtain ⟨pre, rfl⟩ : ∃ pre, ws = pre ++ [m] := by
    have := List.getLast?_eq_some_iff.1 hl
    exact this
  rw [List.mem_append, List.mem_singleton] at hu
  rcases hu with hu | rfl
  · rw [List.pairwise_append] at hs
    exact word_lt_trans (hs.2.2 u hu m (by simp)) hm
  · exact hm

/-- the invariant of a builder that holds the non-empty, strictly increasing word list `ws` -/
structure BInv (b : Builder) (ws : List Word) : Prop where
  root : b.root = 0
  notDone : b.done = false
  last : ws.getLast? = some b.lastWord
  spine : ∃ sp, Spine b.heap b.register 0 sp b.lastWord ws [[]] ∧ sp.head? = some 0 ∧ sp.Nodup
  reg : RegOK b.heap b.register
  ids : HeapIds b.heap
  lid : b.lastID + 1 = b.heap.size

/-- state of a builder after the accepted adds `ws` -/
def BState (b : Builder) (ws : List Word) : Prop := (ws = [] ∧ b = Builder.init) ∨ (ws ≠ [] ∧ BInv b ws)

theorem BInv.sorted {b : Builder} {ws : List Word} (hb : BInv b ws) : ws.Pairwise (· < ·) := by
  obtain ⟨sp, hsp, _, _⟩ := hb.spine
  exact hsp.sorted

theorem Spine.headNode {h : Heap} {R : List Nat} {k p : Nat} {sp : List Nat} {v : Word} {L Le : List Word}
    (hs : Spine h R k sp v L Le) (hhead : sp.head? = some p) :
    ∃ n, h[p]? = some n ∧ n.numWords = L.length + dlt k := by
  cases hs with
  | last hn =>
    simp only [List.head?_cons, Option.some.injEq] at hhead
    subst hhead
    exact ⟨_, hn.get, hn.num⟩
  | node hn _ _ _ _ hnum =>
    simp only [List.head?_cons, Option.some.injEq] at hhead
    subst hhead
    exact ⟨_, hn, hnum⟩

theorem BInv.rootNode {b : Builder} {ws : List Word} (hb : BInv b ws) :
    ∃ rn, b.heap[0]? = some rn ∧ rn.numWords = ws.length := by
  obtain ⟨sp, hsp, hhead, _⟩ := hb.spine
  obtain ⟨n, hn, hnum⟩ := hsp.headNode hhead
  exact ⟨n, hn, by simpa [dlt] using hnum⟩

/-- out-of-order and duplicate adds are rejected and leave the builder unchanged -/
theorem add_rejected {b : Builder} {ws : List Word} (hb : BInv b ws) (hne : ws ≠ []) (w : Word)
    (hw : ¬ b.lastWord < w) : add b w = .ok ⟨b, true⟩ := by
  obtain ⟨rn, hrn, hnum⟩ := hb.rootNode
  have hpos : rn.numWords > 0 := by
    rw [hnum]; exact List.length_pos_iff.2 hne
  have hcmp : Gen.Dawg.addOrderReject (cmpBytes b.lastWord w) = true := (orderReject_iff _ _).2 hw
  have hpos' : Gen.Dawg.addHasWordFrom ≤ rn.numWords := by rw [genOrder_consistent.1]; omega
  unfold add
  rw [hb.notDone, hb.root]
  simp only [Bool.false_eq_true, if_false, getNode_of_some hrn]
  rw [if_pos ⟨hpos', hcmp⟩]

/-- `Add` as `walkAdd` after the increment of the root -/
theorem add_eq_walkAdd (b : Builder) (w : Word) (rn : Node) (hdone : b.done = false) (hroot : b.heap[b.root]? = some rn)
    (hok : ¬ (Gen.Dawg.addHasWordFrom ≤ rn.numWords ∧ Gen.Dawg.addOrderReject (cmpBytes b.lastWord w) = true)) :
    add b w =
      match walkAdd b.register b.lastID (b.heap.setIfInBounds b.root { rn with numWords := rn.numWords + 1 }) b.root w with
      | .ok (h3, reg, lid) => .ok ⟨{ b with heap := h3, lastWord := w, register := reg, lastID := lid }, false⟩
      | .panic => .panic
      | .outOfFuel => .outOfFuel := by
  unfold add
  rw [hdone]
  simp only [Bool.false_eq_true, if_false, getNode_of_some hroot]
  rw [if_neg hok]
  simp only [commonPrefix, getNode_of_some hroot, walkAdd]
  cases hcp : cpWalk (b.heap.setIfInBounds b.root { rn with numWords := rn.numWords + 1 }) b.root w with
  | panic => rfl
  | outOfFuel => rfl
  | ok r =>
    obtain ⟨h1, suffix, lastNode⟩ := r
    simp only [addTail]
    cases hln : getNode h1 lastNode with
    | panic => rfl
    | outOfFuel => rfl
    | ok ln =>
      simp only
      cases hr : (if ln.links.length ≠ 0 then replaceOrRegister (h1.size + 1) h1 lastNode b.register
          else Outcome.ok (h1, b.register)) with
      | panic => rfl
      | outOfFuel => rfl
      | ok r2 =>
        obtain ⟨h2, reg2⟩ := r2
        simp only
        cases hs : addSuffix h2 lastNode suffix b.lastID with
        | panic => rfl
        | outOfFuel => rfl
        | ok r3 => rfl

/-- an in-order `Add` on a non-empty builder -/
theorem add_accepted {b : Builder} {ws : List Word} (hb : BInv b ws) (hne : ws ≠ []) (w : Word)
    (hw : b.lastWord < w) : ∃ b', add b w = .ok ⟨b', false⟩ ∧ BInv b' (ws ++ [w]) := by
  obtain ⟨rn, hrn, hnum⟩ := hb.rootNode
  obtain ⟨sp, hsp, hhead, hnd⟩ := hb.spine
  have hrn' : b.heap[b.root]? = some rn := by rw [hb.root]; exact hrn
  rw [add_eq_walkAdd b w rn hb.notDone hrn' (fun h => (orderReject_iff _ _).1 h.2 hw), hb.root]
  obtain ⟨sp0, rfl⟩ : ∃ sp0, sp = 0 :: sp0 := by
    cases sp with
    | nil => simp at hhead
    | cons q sp0 => simp only [List.head?_cons, Option.some.injEq] at hhead; exact ⟨sp0, by rw [hhead]⟩
  have hR0 : (0 : Nat) ∉ b.register := hb.reg.nz
  have hbump := hsp.bump hb.reg hnd hrn
  have hag : AgreeOn b.heap (b.heap.setIfInBounds 0 { rn with numWords := rn.numWords + 1 }) b.register := by
    intro u hu
    rw [Array.getElem?_setIfInBounds_ne (fun (h1 : 0 = u) => hR0 (by rw [h1]; exact hu))]
  have h0lt : 0 < b.heap.size := (Array.getElem?_eq_some_iff.1 hrn).1
  have hids' : HeapIds (b.heap.setIfInBounds 0 { rn with numWords := rn.numWords + 1 }) := by
    intro i n' hn'
    by_cases hi : i = 0
    · subst hi
      rw [Array.getElem?_setIfInBounds_self] at hn'
      simp only [h0lt, if_true, Option.some.injEq] at hn'
      subst hn'
      exact hb.ids 0 rn hrn
    · rw [Array.getElem?_setIfInBounds_ne (Ne.symm hi)] at hn'
      exact hb.ids i n' hn'
  have hfuel : (0 :: sp0).length ≤ (b.heap.setIfInBounds 0 { rn with numWords := rn.numWords + 1 }).size := by
    rw [Array.size_setIfInBounds]
    exact nodup_length_le _ _ hnd (fun x hx => (hsp.valid x hx).1)
  obtain ⟨p, h3, R3, sp', hhead', hres, hpost⟩ :=
    addAt (0 :: sp0) b.register b.lastID _ b.lastWord w ws [[]] hbump rfl hnd (hb.reg.frame hag) hids'
      (by rw [Array.size_setIfInBounds]; exact hb.lid) hfuel (lt_of_sorted_getLast hb.sorted hb.last hw)
  simp only [List.head?_cons, Option.some.injEq] at hhead'
  subst hhead'
  rw [hres]
  refine ⟨_, rfl, rfl, hb.notDone, by simp, ⟨sp', hpost.spine, hpost.head, hpost.nodup⟩, hpost.reg, hpost.ids, ?_⟩
  show h3.size - 1 + 1 = h3.size
  have := hpost.size
  rw [Array.size_setIfInBounds] at this
  omega

theorem RegOK.nil (h : Heap) : RegOK h [] :=
  ⟨(fun u hu => by cases hu), (fun u hu => by cases hu), (fun u hu => by cases hu), (by simp)⟩

/-- the first `Add` on a fresh builder (any word, including the empty one) -/
theorem add_first (w : Word) : ∃ b', add Builder.init w = .ok ⟨b', false⟩ ∧ BInv b' [w] := by
  have hroot : Builder.init.heap[Builder.init.root]? = some Node.zero := rfl
  rw [add_eq_walkAdd Builder.init w Node.zero rfl hroot
    (fun h => by have := h.1; rw [genOrder_consistent.1] at this; simp [Node.zero] at this)]
  let n1 : Node := { Node.zero with numWords := 1 }
  let h1 : Heap := #[n1]
  have hh1 : Builder.init.heap.setIfInBounds Builder.init.root { Node.zero with numWords := Node.zero.numWords + 1 } = h1 := rfl
  rw [hh1]
  have hreg : RegOK h1 [] := RegOK.nil h1
  have hids : HeapIds h1 := by
    intro i n hn
    cases i with
    | zero => simp [h1] at hn; subst hn; rfl
    | succ i => simp [h1] at hn
  obtain ⟨h', news, hres, hsp, hsz, hfr, hnews, hnd, hids'⟩ :=
    addSuffix_fresh [] w h1 0 0 n1 rfl rfl rfl rfl rfl (by simp) hreg hids rfl
  have hwalk : walkAdd Builder.init.register Builder.init.lastID h1 Builder.init.root w = .ok (h', [], 0 + w.length) := by
    have hcp : cpWalk h1 0 w = .ok (h1, w, 0) := by
      cases w with
      | nil => rfl
      | cons a x => rfl
    show walkAdd [] 0 h1 0 w = _
    simp only [walkAdd, hcp, addTail]
    have : getNode h1 0 = .ok n1 := rfl
    rw [this]
    simp only [n1, Node.zero, List.length_nil, ne_eq, not_true_eq_false, if_false]
    rw [hres]
  rw [hwalk]
  refine ⟨_, rfl, rfl, rfl, by simp, ⟨0 :: news, hsp, rfl, ?_⟩, ?_, hids', ?_⟩
  · rw [List.nodup_cons]
    refine ⟨fun hmem => ?_, hnd⟩
    have := hnews 0 hmem
    simp [h1] at this
  · exact RegOK.nil h'
  · show 0 + w.length + 1 = h'.size
    rw [hsz]; simp [h1]; omega

/-- what `Finish` returns: a correct index of `ws` whose non-root nodes are all registered -/
structure Finished (d : Dawg) (ws : List Word) : Prop where
  root0 : d.root = 0
  rep : Rep d.heap d.root ws
  reg : ∃ R n, RegOK d.heap R ∧ d.heap[d.root]? = some n ∧ (∀ q ∈ n.links, q ∈ R)
  ids : HeapIds d.heap

theorem NodeRep.links_mem {h : Heap} {R : List Nat} {p δ : Nat} {L : List Word} {n : Node}
    (hn : NodeRep h R p L δ n) : ∀ q ∈ n.links, q ∈ R := by
  intro q hq
  obtain ⟨j, hj, hjq⟩ := List.getElem_of_mem hq
  have hj' : j < n.labels.length := by rw [hn.lens]; exact hj
  exact (hn.kids j _ q (List.getElem?_eq_getElem hj') (by rw [← hjq]; exact List.getElem?_eq_getElem hj)).1

theorem finish_spec {b : Builder} {ws : List Word} (hb : BState b ws) :
    ∃ d, finish b = .ok (some d) ∧ Finished d ws := by
  rcases hb with ⟨rfl, rfl⟩ | ⟨hne, hb⟩
  · refine ⟨⟨Builder.init.heap, 0⟩, rfl, rfl, ?_, ⟨[], Node.zero, RegOK.nil _, rfl, by simp [Node.zero]⟩, ?_⟩
    · exact Rep.mk (n := Node.zero) rfl List.Pairwise.nil (by simp [Node.zero]) rfl List.Pairwise.nil rfl
        (by intro c; simp [Node.zero, sub_nil]) (by intro j c q hj; simp [Node.zero] at hj)
    · intro i n hn
      cases i with
      | zero => simp [Builder.init] at hn; subst hn; rfl
      | succ i => simp [Builder.init] at hn
  · obtain ⟨sp, hsp, hhead, hnd⟩ := hb.spine
    unfold finish
    rw [hb.notDone, hb.root]
    simp only [Bool.false_eq_true, if_false]
    generalize hlw : b.lastWord = lw at hsp
    generalize hLe : ([[]] : List Word) = Le at hsp
    cases hsp with
    | @last _ _ _ n hn =>
      subst hLe
      simp only [List.head?_cons, Option.some.injEq] at hhead
      subst hhead
      obtain ⟨_, hl2⟩ := labels_nil_of_single_nil hn
      simp only [getNode_of_some hn.get, hl2, List.length_nil, ne_eq, not_true_eq_false, if_false]
      have hn0 : NodeRep b.heap b.register 0 [[]] 0 n := by simpa [dlt] using hn
      exact ⟨⟨b.heap, 0⟩, rfl, rfl, hn0.toRep, ⟨b.register, n, hb.reg, hn.get, hn.links_mem⟩, hb.ids⟩
    | @node _ _ s c sp0 v0 _ _ n ls qs hn hpR hs0 hsort hfin hnum hlab hlabs hlinks hlen hmem hkids hsub =>
      subst hLe
      simp only [List.head?_cons, Option.some.injEq] at hhead
      subst hhead
      have hlinkne : n.links.length ≠ 0 := by rw [hlinks]; simp
      have hspine : Spine b.heap b.register 0 (0 :: s :: sp0) (c :: v0) ws [[]] :=
        Spine.node hn hpR hs0 hsort hfin hnum hlab hlabs hlinks hlen hmem hkids hsub
      have hfuel : (s :: sp0).length ≤ b.heap.size + 1 := by
        have := nodup_length_le _ _ hnd (fun x hx => (hspine.valid x hx).1)
        simp at this ⊢; omega
      obtain ⟨h2, R2, n2, hres2, hn2, hreg2, hsz2, hfr2, hsub2, hsup2, hids2⟩ :=
        rOR_spec (b.heap.size + 1) b.heap b.register 0 0 s c sp0 v0 ws (by omega) hspine hnd hb.reg hfuel
      simp only [getNode_of_some hn, if_pos hlinkne, hres2]
      have hn0 : NodeRep h2 R2 0 ws 0 n2 := by simpa [dlt] using hn2
      exact ⟨⟨h2, 0⟩, rfl, rfl, hn0.toRep, ⟨R2, n2, hreg2, hn2.get, hn2.links_mem⟩, hids2 hb.ids⟩

/-- which adds are accepted: the first one, and every one larger than the last accepted word -/
def accStep (ws : List Word) (w : Word) : List Word × Bool :=
  match ws.getLast? with
  | none => (ws ++ [w], false)
  | some l => if l < w then (ws ++ [w], false) else (ws, true)

/-- the accepted words and the error flags of a sequence of adds -/
def accRun (ws : List Word) : List Word → List Word × List Bool
  | [] => (ws, [])
  | w :: rest =>
    let r := accRun (accStep ws w).1 rest
    (r.1, (accStep ws w).2 :: r.2)

theorem add_spec {b : Builder} {ws : List Word} (hb : BState b ws) (w : Word) :
    ∃ b', add b w = .ok ⟨b', (accStep ws w).2⟩ ∧ BState b' (accStep ws w).1 := by
  rcases hb with ⟨rfl, rfl⟩ | ⟨hne, hb⟩
  · obtain ⟨b', h1, h2⟩ := add_first w
    exact ⟨b', by simpa [accStep] using h1, Or.inr ⟨by simp [accStep], by simpa [accStep] using h2⟩⟩
  · unfold accStep
    rw [hb.last]
    simp only
    by_cases hw : b.lastWord < w
    · obtain ⟨b', h1, h2⟩ := add_accepted hb hne w hw
      rw [if_pos hw]
      exact ⟨b', h1, Or.inr ⟨by simp, h2⟩⟩
    · rw [if_neg hw]
      exact ⟨b, add_rejected hb hne w hw, Or.inr ⟨hne, hb⟩⟩

theorem addAll_spec : ∀ (adds : List Word) {b : Builder} {ws : List Word}, BState b ws →
    ∃ b', addAll b adds = .ok (b', (accRun ws adds).2) ∧ BState b' (accRun ws adds).1 := by
  intro adds
  induction adds with
  | nil => intro b ws hb; exact ⟨b, rfl, hb⟩
  | cons w rest ih =>
    intro b ws hb
    obtain ⟨b1, h1, hb1⟩ := add_spec hb w
    obtain ⟨b2, h2, hb2⟩ := ih hb1
    refine ⟨b2, ?_, hb2⟩
    simp only [addAll, h1, h2, accRun]

theorem build_spec (adds : List Word) :
    ∃ d, build adds = .ok (some d, (accRun [] adds).2) ∧ Finished d (accRun [] adds).1 := by
  obtain ⟨b, h1, hb⟩ := addAll_spec adds (b := Builder.init) (ws := []) (Or.inl ⟨rfl, rfl⟩)
  obtain ⟨d, h2, hd⟩ := finish_spec hb
  exact ⟨d, by simp only [build, h1, h2], hd⟩

end Dawg
