import Mamba.Lemmas.C06AddEdge3
/-! C06: `ComplementDense`. -/
namespace Construct
open GraphSpec


/-! ### spec-level counting for the complement -/

theorem complement_m (g : G) : g.complement.m + g.m = tri g.n := by
  rw [m_eq_countP, m_eq_countP]
  show (pairs g.n).countP _ + _ = _
  have h := List.length_eq_countP_add_countP (fun p : Nat × Nat => g.adj p.1 p.2) (l := pairs g.n)
  rw [length_pairs] at h
  have : (pairs g.n).countP (fun p => g.complement.adj p.1 p.2) = (pairs g.n).countP (fun p => ¬ (g.adj p.1 p.2) = true) := by
    apply List.countP_congr
    intro p hp
    obtain ⟨h1, h2⟩ := mem_pairs.mp hp
    have h3 : p.1 < g.n := by omega
    have h4 : p.1 ≠ p.2 := by omega
    simp [G.complement, h2, h3, h4]
  rw [this]; omega

theorem complement_deg (g : G) (hg : g.WF) (v : Nat) (hv : v < g.n) : g.complement.deg v + g.deg v = g.n - 1 := by
  simp only [G.deg, G.nbrs, ← List.countP_eq_length_filter]
  show (List.range g.n).countP _ + _ = _
  have h := List.length_eq_countP_add_countP (fun u => g.adj v u) (l := List.range g.n)
  have h2 := countP_range_bne g.n v
  simp only [hv, ↓reduceIte] at h2
  have : (List.range g.n).countP (fun u => g.complement.adj v u) + 1 = (List.range g.n).countP (fun u => ¬ (g.adj v u) = true) := by
    have e1 : (List.range g.n).countP (fun u => ¬ (g.adj v u) = true) =
        (List.range g.n).countP (fun u => g.complement.adj v u || u == v) := by
      apply List.countP_congr
      intro u hu
      have hu' := List.mem_range.mp hu
      by_cases huv : u = v
      · subst huv; simp [hg.irrefl]
      · have : ¬ v = u := fun e => huv e.symm
        simp [G.complement, hv, hu', huv, this]
    rw [e1, countP_or_disjoint _ _ _ (by
      intro u _ ⟨c1, c2⟩
      simp only [beq_iff_eq] at c2; subst c2
      simp [G.complement] at c1), countP_range_beq]
    simp [hv]
  simp only [List.length_range] at h
  omega

/-! ### the loop of `ComplementDense` -/

/-- one round of the edge loop -/
def cdStep (g : GraphI) (st : Array Nat × Nat) (p : Nat × Nat) : Outcome (Array Nat × Nat) := do
  let b ← g.isEdge p.1 p.2
  let e ← (if !b then setAt st.1 st.2 1 else pure st.1 : Outcome (Array Nat))
  pure (e, st.2 + 1)

theorem cdFold (g : GraphI) (adj : Nat → Nat → Bool) (posf : Nat × Nat → Nat) (l : List (Nat × Nat)) (st : Array Nat × Nat)
    (hpos : ∀ k (h : k < l.length), posf l[k] = st.2 + k)
    (hsize : st.2 + l.length ≤ st.1.size)
    (hedge : ∀ p ∈ l, g.isEdge p.1 p.2 = .ok (adj p.1 p.2)) :
    ∃ e', l.foldlM (cdStep g) st = .ok (e', st.2 + l.length) ∧ e'.size = st.1.size ∧
      ∀ k, bitAt e' k = (bitAt st.1 k || l.any fun p => posf p == k && !adj p.1 p.2) := by
  induction l generalizing st with
  | nil => exact ⟨st.1, rfl, rfl, by simp⟩
  | cons p t ih =>
    have hp0 : posf p = st.2 := by have := hpos 0 (by simp); simpa using this
    have hidx : st.2 < st.1.size := by simp at hsize; omega
    have htail : ∀ e1 : Array Nat, e1.size = st.1.size →
        (∀ k (h : k < t.length), posf t[k] = (e1, st.2 + 1).2 + k) ∧ (e1, st.2 + 1).2 + t.length ≤ (e1, st.2 + 1).1.size := by
      intro e1 he
      refine ⟨?_, by simp at hsize ⊢; omega⟩
      intro k hk
      have := hpos (k + 1) (by simp; omega)
      simp only [List.getElem_cons_succ] at this
      simp only; omega
    simp only [List.foldlM_cons, cdStep, hedge p (by simp), Outcome.bind_ok]
    by_cases hb : adj p.1 p.2 = true
    · obtain ⟨a1, a2⟩ := htail st.1 rfl
      obtain ⟨e', f1, f2, f3⟩ := ih (st.1, st.2 + 1) a1 a2 (fun q hq => hedge q (by simp [hq]))
      refine ⟨e', ?_, f2, ?_⟩
      · simp only [hb, Bool.not_true, Bool.false_eq_true, ↓reduceIte, Outcome.pure_eq, Outcome.bind_ok]
        rw [f1]; simp; omega
      · intro k; rw [f3 k]; simp [hb]
    · have hb0 : adj p.1 p.2 = false := by simpa using hb
      obtain ⟨a1, a2⟩ := htail (st.1.set st.2 1) (by simp)
      obtain ⟨e', f1, f2, f3⟩ := ih (st.1.set st.2 1, st.2 + 1) a1 a2 (fun q hq => hedge q (by simp [hq]))
      refine ⟨e', ?_, by simpa using f2, ?_⟩
      · simp only [hb0, Bool.not_false, ↓reduceIte, setAt_ok _ hidx, Outcome.pure_eq, Outcome.bind_ok]
        rw [f1]; simp; omega
      · intro k
        rw [f3 k]
        simp only [bitAt_set _ _ _ hidx, List.any_cons, hb0, Bool.not_false, Bool.and_true, hp0]
        by_cases hk : k = st.2
        · subst hk; simp
        · have : (st.2 == k) = false := by simp; exact fun e => hk e.symm
          simp [hk, this]


end Construct
