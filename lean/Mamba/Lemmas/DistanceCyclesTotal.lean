import Mamba.Lemmas.DistanceGibbsKept
import Mamba.Lemmas.DistanceBiconStatic8
/-!
# `NumberOfCycles`: the model never panics (full totality)
-/
namespace GDist
open GraphSpec Model

/-- walks inside a vertex list `b` of `g` are walks of `g.induced b` -/
theorem walk_to_induced {g : G} {b : List Nat} {i : Nat} (hi : i < b.length) {y k : Nat}
    (hw : WalkIn g b (b.getD i 0) y k) :
    ∃ j, j < b.length ∧ b.getD j 0 = y ∧ WalkIn (g.induced b) (List.range b.length) i j k := by
  induction hw with
  | base _ => exact ⟨i, hi, rfl, .base (List.mem_range.2 hi)⟩
  | @step u x k _ hadj hx ih =>
    obtain ⟨j0, hj0, hj0u, hw0⟩ := ih
    obtain ⟨j1, hj1, hj1x⟩ := List.getElem_of_mem hx
    have hj1' : b.getD j1 0 = x := by rw [getD_eq_getElem' hj1]; exact hj1x
    refine ⟨j1, hj1, hj1', .step hw0 ?_ (List.mem_range.2 hj1)⟩
    show (decide (j0 < b.length) && decide (j1 < b.length) && g.adj (b.getD j0 0) (b.getD j1 0)) = true
    rw [hj0u, hj1']
    simp [hj0, hj1, hadj]

/-- the counting loop at the end of `cyclesOfBlock` -/
theorem count_fold_total : ∀ (S : List (List Nat)) (acc : Array Nat), (∀ V ∈ S, V.length < acc.size) →
    ∃ r, S.foldlM (fun (acc : Array Nat) (V : List Nat) =>
        if h : V.length < acc.size then Outcome.ok (acc.set V.length (acc[V.length] + 1)) else .panic) acc
      = .ok r ∧ r.size = acc.size
  | [], acc, _ => ⟨acc, rfl, rfl⟩
  | V :: S, acc, h => by
    have hV := h V List.mem_cons_self
    obtain ⟨r, hr, hs⟩ := count_fold_total S (acc.set V.length (acc[V.length] + 1))
      (fun W hW => by simpa using h W (List.mem_cons_of_mem _ hW))
    refine ⟨r, ?_, by simpa using hs⟩
    rw [List.foldlM_cons]
    simp only [hV, dif_pos, Outcome.bind_ok]
    exact hr

/-- `cyclesOfBlock` returns on every block of a simple graph -/
theorem cyclesOfBlock_total (g : G) (hsym : ∀ u v, g.adj u v = g.adj v u) (hirr : ∀ v, g.adj v v = false)
    (b : List Nat) (hbnd : b.Nodup) (hbn : ∀ x ∈ b, x < g.n)
    (hbc : ∀ x ∈ b, ∀ y ∈ b, ReachIn g b x y) (found : Array Nat) (hf : g.n + 1 ≤ found.size) :
    ∃ r, cyclesOfBlock g b found = .ok r ∧ r.size = found.size := by
  unfold cyclesOfBlock
  simp only
  by_cases h3 : (g.induced b).n < 3
  · simp only [h3, if_true]; exact ⟨found, rfl, rfl⟩
  simp only [h3, if_false]
  have hn : (g.induced b).n = b.length := rfl
  have hpos : 0 < (g.induced b).n := by omega
  have hsa := induced_symm hsym b
  have hia := induced_irrefl hirr b
  obtain ⟨st, hst⟩ := paton_total (g.induced b) hsa hpos
  have hst' : patonLoop (g.induced b) ((g.induced b).n + 1)
      { removed := [], T := (Array.replicate (g.induced b).n (-1)).setIfInBounds 0 0,
        depth := Array.replicate (g.induced b).n 0, X := [0], fund := [] } = .ok st := hst
  rw [hst']
  simp only
  cases hfund : st.fund with
  | nil => exact ⟨found, rfl, rfl⟩
  | cons f0 fs =>
    simp only
    obtain ⟨gs, hgs⟩ := gibbsLoop_total fs { S := [f0], Q := [f0] }
    rw [hgs]
    simp only
    have hconn : ∀ x, x < (g.induced b).n → Reach (g.induced b) 0 x := by
      intro x hx
      rw [hn] at hx
      have h0 : 0 < b.length := by omega
      have hm0 : b.getD 0 0 ∈ b := by rw [getD_eq_getElem' h0]; exact List.getElem_mem _
      have hmx : b.getD x 0 ∈ b := by rw [getD_eq_getElem' hx]; exact List.getElem_mem _
      obtain ⟨k, hk⟩ := hbc _ hm0 _ hmx
      obtain ⟨j, hj, hjx, hw⟩ := walk_to_induced h0 hk
      have : j = x := by
        have h1 : b[j] = b[x] := by rw [← getD_eq_getElem' hj, ← getD_eq_getElem' hx]; exact hjx
        exact (List.Nodup.getElem_inj_iff hbnd).1 h1
      subst this
      exact ⟨k, hw⟩
    have hkept := gibbs_kept_cycle (g.induced b) hsa hia hpos hconn _ st hst f0 fs hfund gs hgs
    have hblen : b.length ≤ g.n := by
      have : b.Subperm (List.range g.n) := List.subperm_of_subset hbnd (fun x hx => List.mem_range.2 (hbn x hx))
      simpa using this.length_le
    exact count_fold_total gs.S found (fun V hV => by
      have := (hkept V hV).2
      rw [hn] at this
      omega)

end GDist

namespace GDist
open GraphSpec Model

theorem blocks_fold_total (g : G) (hsym : ∀ u v, g.adj u v = g.adj v u) (hirr : ∀ v, g.adj v v = false) :
    ∀ (bs : List (List Nat)) (acc : Array Nat),
      (∀ b ∈ bs, b.Nodup ∧ (∀ x ∈ b, x < g.n) ∧ ∀ x ∈ b, ∀ y ∈ b, ReachIn g b x y) → g.n + 1 ≤ acc.size →
      ∃ r, bs.foldlM (fun acc b => cyclesOfBlock g b acc) acc = .ok r ∧ r.size = acc.size
  | [], acc, _, _ => ⟨acc, rfl, rfl⟩
  | b :: bs, acc, hb, hacc => by
    obtain ⟨h1, h2, h3⟩ := hb b List.mem_cons_self
    obtain ⟨r1, hr1, hs1⟩ := cyclesOfBlock_total g hsym hirr b h1 h2 h3 acc hacc
    obtain ⟨r, hr, hs⟩ := blocks_fold_total g hsym hirr bs r1 (fun b' hb' => hb b' (List.mem_cons_of_mem _ hb'))
      (by omega)
    refine ⟨r, ?_, by omega⟩
    rw [List.foldlM_cons, hr1]
    simp only [Outcome.bind_ok]
    exact hr

/-- **the `NumberOfCycles` model never panics and returns a list of length `n + 1`** (every simple graph) -/
theorem numberOfCycles_total (g : G) (hsym : ∀ u v, g.adj u v = g.adj v u) (hirr : ∀ v, g.adj v v = false) :
    ∃ r, numberOfCycles g = .ok r ∧ r.length = g.n + 1 := by
  unfold numberOfCycles
  simp only
  by_cases hn : g.n = 0
  · simp [hn]
  simp only [hn, if_false]
  obtain ⟨bs, arts, hres, _⟩ := biconnectedComponents_total g hsym
  rw [hres]
  simp only
  have hmem := (bicon_blocks_eq g hsym hirr bs arts hres).2.1
  have hconn := (bicon_blocks_edges_connected g hsym hirr bs arts hres).2
  obtain ⟨r, hr, hs⟩ := blocks_fold_total g hsym hirr bs (Array.replicate (g.n + 1) 0)
    (fun b hb => by
      obtain ⟨_, h2, h3, _⟩ := blocks_facts hsym ((hmem b).1 hb)
      exact ⟨h2, h3, hconn b hb⟩) (by simp)
  rw [hr]
  exact ⟨r.toList, rfl, by simp [hs]⟩

end GDist
