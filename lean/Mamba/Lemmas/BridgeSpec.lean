import Mamba.Lemmas.BridgeCanon
namespace Search
open GraphSpec GSearch Relation Disjoint

/-- the automorphism list of the `IR` model for `g` -/
def irAuts (g : DG) : List (Array Nat) := IR.autGroupFrom (irOf g) (IR.init (irOf g))

theorem irAuts_aut {g : DG} {a : Array Nat} (ha : a ∈ irAuts g) : IsAut g (fun v => a.getD v 0) := by
  obtain ⟨τ, R⟩ := IR.autGroupFrom_sound (irOf_wf g) (IR.init_work _) ha
  exact isAut_of_relabel R

theorem irAuts_size {g : DG} {a : Array Nat} (ha : a ∈ irAuts g) : a.size = g.nv := by
  unfold irAuts IR.autGroupFrom at ha
  split at ha
  · cases ha
  · obtain ⟨l, -, rfl⟩ := List.mem_map.1 ha
    simp [IR.autOf, IR.tab, irOf_n]

theorem irAuts_complete {g : DG} {σ : Nat → Nat} (h : IsAut g σ) :
    ∃ a ∈ irAuts g, ∀ v, v < g.nv → a.getD v 0 = σ v := by
  obtain ⟨τ, R⟩ := relabel_of_isAut h
  exact IR.autGroupFrom_complete (irOf_wf g) (IR.init_work _) R (IR.init_rel R)

theorem unionRel_orbitOps (g : DG) (x y : Nat) :
    unionRel (orbitOps g.nv (irAuts g)) x y ↔ ∃ a ∈ irAuts g, x < g.nv ∧ y = a.getD x 0 := by
  simp only [unionRel, orbitOps, List.mem_flatMap, List.mem_map, List.mem_range, Op.union.injEq]
  constructor
  · rintro ⟨a, ha, v, hv, rfl, rfl⟩; exact ⟨a, ha, hv, rfl⟩
  · rintro ⟨a, ha, hx, rfl⟩; exact ⟨a, ha, x, hx, rfl, rfl⟩

theorem orbitDS_tracks (g : DG) :
    Tracks g.nv (orbitOps g.nv (irAuts g)) (orbitDS g.nv (irAuts g)) := by
  have hvalid : ∀ o ∈ orbitOps g.nv (irAuts g), o.valid g.nv := by
    intro o ho
    simp only [orbitOps, List.mem_flatMap, List.mem_map, List.mem_range] at ho
    obtain ⟨a, ha, v, hv, rfl⟩ := ho
    exact ⟨hv, (irAuts_aut ha).1.maps v hv⟩
  obtain ⟨d', f, t⟩ := run_spec (orbitOps g.nv (irAuts g)) [] (Disjoint.new g.nv) (tracks_new g.nv) hvalid
  unfold orbitDS
  rw [f]
  simpa using t

theorem isAut_id (g : DG) : IsAut g (fun v => v) := ⟨IsBij.id _, fun _ _ _ _ => rfl⟩

/-- the classes of the union–find structure built from all automorphisms are the orbits of `Aut(g)` -/
theorem orbitDS_orbits (g : DG) {u v : Nat} (hu : u < g.nv) (hv : v < g.nv) :
    rep (orbitDS g.nv (irAuts g)) u = rep (orbitDS g.nv (irAuts g)) v ↔ ∃ σ, IsAut g σ ∧ σ u = v := by
  obtain ⟨-, -, hrep⟩ := orbitDS_tracks g
  rw [hrep u v hu hv]
  constructor
  · intro h
    have key : ∀ x y, EqvGen (unionRel (orbitOps g.nv (irAuts g))) x y →
        x = y ∨ (x < g.nv ∧ y < g.nv ∧ ∃ σ, IsAut g σ ∧ σ x = y) := by
      intro x y hxy
      induction hxy with
      | rel x y hr =>
        obtain ⟨a, ha, hx, rfl⟩ := (unionRel_orbitOps g x y).1 hr
        have haut := irAuts_aut ha
        exact Or.inr ⟨hx, haut.1.maps x hx, _, haut, rfl⟩
      | refl x => exact Or.inl rfl
      | symm x y _ ih =>
        rcases ih with rfl | ⟨hx, hy, σ, hσ, he⟩
        · exact Or.inl rfl
        · refine Or.inr ⟨hy, hx, _, isAut_iff_isIso.2 (isAut_iff_isIso.1 hσ).symm, ?_⟩
          rw [← he]; exact hσ.1.inv_left hx
      | trans x y z _ _ ih1 ih2 =>
        rcases ih1 with rfl | ⟨hx, hy, σ, hσ, he⟩
        · exact ih2
        · rcases ih2 with rfl | ⟨hy', hz, τ, hτ, he'⟩
          · exact Or.inr ⟨hx, hy, σ, hσ, he⟩
          · refine Or.inr ⟨hx, hz, _, isAut_iff_isIso.2 ((isAut_iff_isIso.1 hσ).comp (isAut_iff_isIso.1 hτ)), ?_⟩
            show τ (σ x) = z
            rw [he, he']
    rcases key u v h with rfl | ⟨-, -, σ, hσ, he⟩
    · exact ⟨_, isAut_id g, rfl⟩
    · exact ⟨σ, hσ, he⟩
  · rintro ⟨σ, hσ, he⟩
    obtain ⟨a, ha, hav⟩ := irAuts_complete hσ
    exact EqvGen.rel _ _ ((unionRel_orbitOps g u v).2 ⟨a, ha, hu, by rw [hav u hu, he]⟩)

/-- **the oracle built from the C01/C02 model satisfies the oracle specification, for every `n`** -/
theorem irOracle_spec (n : Nat) : OracleSpec irOracle n where
  total := fun hb hle => ⟨_, getAut_irOracle hb hle none⟩
  perm := by
    intro g a hb h
    obtain ⟨-, he⟩ := getAut_irOracle_inv hb h
    cases he
    exact irAns_perm g
  canon := by
    intro g h a b hg hh i ha hb' x y hx hy
    obtain ⟨-, he⟩ := getAut_irOracle_inv hg ha
    obtain ⟨-, he'⟩ := getAut_irOracle_inv hh hb'
    cases he; cases he'
    exact irAns_canon i hx hy
  orbits_inv := by
    intro g a hb h
    obtain ⟨-, he⟩ := getAut_irOracle_inv hb h
    cases he
    exact ⟨(orbitDS_tracks g).1, (orbitDS_tracks g).2.1⟩
  orbits := by
    intro g a hb h u v hu hv
    obtain ⟨-, he⟩ := getAut_irOracle_inv hb h
    cases he
    exact orbitDS_orbits g hu hv
  gens_aut := by
    intro g a hb h p hp
    obtain ⟨-, he⟩ := getAut_irOracle_inv hb h
    cases he
    exact ⟨irAuts_size hp, irAuts_aut hp⟩
  gens_gen := by
    intro g a hb h σ hσ
    obtain ⟨-, he⟩ := getAut_irOracle_inv hb h
    cases he
    obtain ⟨p, hp, hpv⟩ := irAuts_complete hσ
    exact Word.mul (τ := fun v => v) hp (Word.id (fun _ _ => rfl)) (fun v hv => (hpv v hv).symm)
  early := by
    intro g vb hb
    right
    by_cases hle : g.nv ≤ n
    · rw [getAut_irOracle hb hle, getAut_irOracle hb hle]
    · unfold getAut
      rw [if_pos (by omega), if_pos (by omega)]
  early_reject := by
    intro g a vb ds1 ds2 correct b hb h
    obtain ⟨-, he⟩ := getAut_irOracle_inv hb h
    cases he

end Search
