import Mamba.Lemmas.DistancePatonCode
/-!
# Paton's phase: private non-tree edges of the fundamental cycles
-/
namespace GDist
open GraphSpec Model

variable {a : G}

/-- `f` consists of the code of the non-tree edge `e` and of codes of tree edges -/
def FundOf (a : G) (T : Array Int) (f : List Nat) (e : Nat × Nat) : Prop :=
  edgeCode e.1 e.2 ∈ f ∧
    ∀ c ∈ f, c = edgeCode e.1 e.2 ∨ ∃ x, x < a.n ∧ inTree T x ∧ x ≠ 0 ∧ c = edgeCode x (par T x)

structure PI (a : G) (st : PatonSt) (nt : List (Nat × Nat)) : Prop where
  fnt : List.Forall₂ (FundOf a st.T) st.fund nt
  ntnd : nt.Nodup
  ntrm : ∀ e ∈ nt, e ∈ st.removed
  trm : ∀ x, x < a.n → inTree st.T x → x ≠ 0 → (x, par st.T x) ∈ st.removed
  ntt : ∀ e ∈ nt, ∀ x, x < a.n → inTree st.T x → x ≠ 0 → e ≠ (x, par st.T x)
  rcov : ∀ e ∈ st.removed, e ∈ nt ∨ ∃ x, x < a.n ∧ inTree st.T x ∧ x ≠ 0 ∧ e = (x, par st.T x)

theorem mem_sortInts' {l : List Nat} {x : Nat} : x ∈ sortInts l ↔ x ∈ l := by
  unfold sortInts; exact (List.mergeSort_perm l _).mem_iff

theorem not_mem_of_edgeRemoved_false {rm : List (Nat × Nat)} {u v : Nat} (h : edgeRemoved rm u v = false) :
    (u, v) ∉ rm := by
  intro hm
  have : edgeRemoved rm u v = true := by simp [edgeRemoved, hm]
  rw [h] at this; cases this

/-- one neighbour -/
theorem patonStep_indep {v u : Nat} {st s1 : PatonSt} {nt : List (Nat × Nat)} (inv : PS a st v)
    (hun : u < a.n) (hnr : edgeRemoved st.removed u v = false) (huX : inTree st.T u → u ∈ st.X)
    (pi : PI a st nt) (hres : patonScan v [u] st = .ok s1) : ∃ nt', PI a s1 nt' := by
  have huT : u < st.T.size := by rw [inv.tsz]; exact hun
  obtain ⟨hvn, hvt⟩ := inv.cur
  have hvD : v < st.depth.size := by rw [inv.dsz]; exact hvn
  have huD : u < st.depth.size := by rw [inv.dsz]; exact hun
  have hgetu : st.T.getD u (-1) = st.T[u] := by simp [Array.getD, huT]
  have huvrm : (u, v) ∉ st.removed := not_mem_of_edgeRemoved_false hnr
  simp only [patonScan] at hres
  simp only [huT, dif_pos] at hres
  by_cases htree : st.T[u] ≠ -1
  · simp only [htree, ne_eq, not_false_eq_true, if_true, hvD, dif_pos] at hres
    have hint : inTree st.T u := by unfold inTree; rw [hgetu]; exact htree
    have huX' := huX hint
    obtain ⟨_, _, hu0⟩ := inv.xin u huX'
    obtain ⟨h0, hparn, hpart⟩ := inv.ptree u hun hint
    have hpar : st.T[u].toNat = par st.T u := by unfold par; rw [hgetu]
    rw [hpar] at hres
    have hpD : par st.T u < st.depth.size := by rw [inv.dsz]; exact hparn
    simp only [hpD, dif_pos] at hres
    obtain ⟨k, hk1, hk2⟩ := inv.xanc u huX'
    have hdv : st.depth[v] = dep st.depth v := by simp [dep, Array.getD, hvD]
    have hdp : st.depth[par st.T u] = dep st.depth (par st.T u) := by simp [dep, Array.getD, hpD]
    rw [hdv, hdp] at hres
    have hlen : ¬ ((dep st.depth v : Int) - (dep st.depth (par st.T u) : Int) + 2 < 2) := by omega
    simp only [hlen, if_false] at hres
    have hkk : ((dep st.depth v : Int) - (dep st.depth (par st.T u) : Int) + 2).toNat - 2 = k := by omega
    rw [hkk, patonBack_spec st.T a.n inv.tsz inv.ptree k v _ hvn hvt] at hres
    simp only [Outcome.ok.injEq] at hres
    subst hres
    have pdep' : ∀ x, x < a.n → inTree st.T x → x ≠ 0 → dep st.depth x = dep st.depth (par st.T x) + 1 :=
      fun x hx ht h0 => (inv.pdep x hx ht h0).1
    have hkd : dep st.depth ((par st.T)^[k] v) + k = dep st.depth v := by rw [hk1]; exact hk2
    refine ⟨nt ++ [(u, v)], ?_⟩
    refine { fnt := ?_, ntnd := ?_, ntrm := ?_, trm := ?_, ntt := ?_, rcov := ?_ }
    rotate_right
    · intro e he
      rcases List.mem_cons.1 he with rfl | he
      · exact .inl (by simp)
      · rcases pi.rcov e he with h | h
        · exact .inl (List.mem_append.2 (.inl h))
        · exact .inr h
    · refine List.rel_append pi.fnt (List.Forall₂.cons ?_ List.Forall₂.nil)
      constructor
      · rw [mem_sortInts']; simp
      · intro c hc
        rw [mem_sortInts'] at hc
        simp only [List.cons_append, List.nil_append, List.mem_cons] at hc
        rcases hc with hc | hc | hc
        · exact .inr ⟨u, hun, hint, hu0, hc⟩
        · exact .inl hc
        · obtain ⟨i, hi, hci⟩ := mem_backCodes st.T k v c hc
          obtain ⟨h1, h2⟩ := iter_in inv.root inv.ptree pdep' i v hvn hvt
          have h3 := (dep_exact inv.root inv.ptree pdep' k v hvn hvt hkd i (by omega)).2 hi
          exact .inr ⟨_, h1, h2, h3, hci⟩
    · rw [List.nodup_append]
      refine ⟨pi.ntnd, by simp, ?_⟩
      intro e he e' he' hee
      simp at he'; subst he'; subst hee
      exact huvrm (pi.ntrm _ he)
    · intro e he
      rcases List.mem_append.1 he with h | h
      · exact List.mem_cons_of_mem _ (pi.ntrm e h)
      · simp at h; subst h; exact List.mem_cons_self
    · intro x hx ht hx0
      exact List.mem_cons_of_mem _ (pi.trm x hx ht hx0)
    · intro e he x hx ht hx0
      rcases List.mem_append.1 he with h | h
      · exact pi.ntt e h x hx ht hx0
      · simp at h; subst h
        intro h0
        exact huvrm (h0 ▸ pi.trm x hx ht hx0)
  · have hTu : st.T[u] = -1 := by
      by_contra h; exact htree h
    simp only [htree, if_false, huD, dif_pos, hvD, Outcome.ok.injEq] at hres
    subst hres
    have hnotin : ¬ inTree st.T u := by unfold inTree; rw [hgetu, hTu]; simp
    have hT' : ∀ w, (st.T.set u (v : Int) huT).getD w (-1) = if w = u then (v : Int) else st.T.getD w (-1) :=
      fun w => getD_set_int huT w
    have hin' : ∀ x, inTree (st.T.set u (v : Int) huT) x ↔ (x = u ∨ inTree st.T x) := by
      intro x
      unfold inTree
      rw [hT']
      by_cases hx : x = u
      · simp [hx]
      · simp [hx]
    have hpar' : ∀ x, x ≠ u → par (st.T.set u (v : Int) huT) x = par st.T x := by
      intro x hx; unfold par; rw [hT']; simp [hx]
    have hparu : par (st.T.set u (v : Int) huT) u = v := by
      unfold par; rw [hT']; simp
    have hne_u : ∀ x, inTree st.T x → x ≠ u := fun x hx h0 => hnotin (h0 ▸ hx)
    refine ⟨nt, ?_⟩
    have hu0 : u ≠ 0 := by
      intro h0; subst h0
      apply hnotin; unfold inTree; rw [inv.root]; omega
    refine { fnt := ?_, ntnd := pi.ntnd, ntrm := ?_, trm := ?_, ntt := ?_, rcov := ?_ }
    rotate_right
    · intro e he
      rcases List.mem_cons.1 he with rfl | he
      · exact .inr ⟨u, hun, (hin' u).2 (.inl rfl), hu0, by
          show (u, v) = (u, par (st.T.set u (v : Int) huT) u)
          rw [hparu]⟩
      · rcases pi.rcov e he with h | ⟨x, hx, ht, hx0, hex⟩
        · exact .inl h
        · exact .inr ⟨x, hx, (hin' x).2 (.inr ht), hx0, by
            show e = (x, par (st.T.set u (v : Int) huT) x)
            rw [hpar' x (hne_u x ht)]; exact hex⟩
    · refine pi.fnt.imp ?_
      rintro f e ⟨h1, h2⟩
      refine ⟨h1, fun c hc => ?_⟩
      rcases h2 c hc with h | ⟨x, hx, ht, hx0, hcx⟩
      · exact .inl h
      · exact .inr ⟨x, hx, (hin' x).2 (.inr ht), hx0, by
          show c = edgeCode x (par (st.T.set u (v : Int) huT) x)
          rw [hpar' x (hne_u x ht)]; exact hcx⟩
    · intro e he; exact List.mem_cons_of_mem _ (pi.ntrm e he)
    · intro x hx ht hx0
      show (x, par (st.T.set u (v : Int) huT) x) ∈ (u, v) :: st.removed
      by_cases hxu : x = u
      · subst hxu; rw [hparu]; exact List.mem_cons_self
      · have htx : inTree st.T x := by
          rcases (hin' x).1 ht with h | h
          · exact absurd h hxu
          · exact h
        rw [hpar' x hxu]
        exact List.mem_cons_of_mem _ (pi.trm x hx htx hx0)
    · intro e he x hx ht hx0
      show e ≠ (x, par (st.T.set u (v : Int) huT) x)
      by_cases hxu : x = u
      · subst hxu; rw [hparu]
        intro h0
        exact huvrm (h0 ▸ pi.ntrm e he)
      · have htx : inTree st.T x := by
          rcases (hin' x).1 ht with h | h
          · exact absurd h hxu
          · exact h
        rw [hpar' x hxu]
        exact pi.ntt e he x hx htx hx0

end GDist
