import Mamba.Lemmas.DawgWords
import Mamba.Lemmas.DawgDfs
/-! What follows from `Rep h p L`: accepted language, word counts, `Lookup`. -/
namespace Dawg

theorem findLabel_some {ls : List Nat} {c j : Nat} (h : findLabel ls c = some j) : ls[j]? = some c := by
  induction ls generalizing j with
  | nil => simp [findLabel] at h
  | cons l ls ih =>
    simp only [findLabel] at h
    split at h
    · next hl => cases h; simp [hl]
    · cases hf : findLabel ls c with
      | none => rw [hf] at h; simp at h
      | some j' =>
        rw [hf] at h
        simp only [Option.map_some, Option.some.injEq] at h
        subst h
        simpa using ih hf

theorem findLabel_none {ls : List Nat} {c : Nat} : findLabel ls c = none ↔ c ∉ ls := by
  induction ls with
  | nil => simp [findLabel]
  | cons l ls ih =>
    simp only [findLabel, List.mem_cons]
    split
    · next hl => simp [hl]
    · next hl =>
      rw [Option.map_eq_none_iff, ih]
      constructor
      · rintro h (h1 | h1)
        · exact hl h1.symm
        · exact h h1
      · intro h h1; exact h (Or.inr h1)

theorem findLabel_of_get {ls : List Nat} (hnd : ls.Nodup) {c j : Nat} (h : ls[j]? = some c) :
    findLabel ls c = some j := by
  induction ls generalizing j with
  | nil => simp at h
  | cons l ls ih =>
    rw [List.nodup_cons] at hnd
    cases j with
    | zero =>
      simp only [List.getElem?_cons_zero, Option.some.injEq] at h
      simp [findLabel, h]
    | succ j =>
      simp only [List.getElem?_cons_succ] at h
      have hne : l ≠ c := by
        intro hlc; subst hlc
        exact hnd.1 (List.mem_of_getElem? h)
      simp [findLabel, hne, ih hnd.2 h]

theorem nat_sorted_nodup {ls : List Nat} (hs : ls.Pairwise (· < ·)) : ls.Nodup :=
  hs.imp (fun h => Nat.ne_of_lt h)

theorem Rep.accepts_iff {h : Heap} {p : Nat} {L : List Word} (hr : Rep h p L) (w : Word) :
    accepts h p w ↔ w ∈ L := by
  induction w generalizing p L with
  | nil =>
    cases hr with
    | mk hn hs hf hnum hlab hlen hmem hkids =>
      simp only [accepts]
      constructor
      · rintro ⟨n', hn', hfin⟩
        rw [hn] at hn'; cases hn'
        exact hf.1 hfin
      · intro h1; exact ⟨_, hn, hf.2 h1⟩
  | cons c w ih =>
    cases hr with
    | mk hn hs hf hnum hlab hlen hmem hkids =>
      simp only [accepts]
      constructor
      · rintro ⟨n', j, q, hn', hfl, hq, hacc⟩
        rw [hn] at hn'; cases hn'
        have := (ih (hkids j c q (findLabel_some hfl) hq)).1 hacc
        exact mem_sub.1 this
      · intro h1
        have hw : w ∈ sub L c := mem_sub.2 h1
        have hc := (hmem c).2 (List.ne_nil_of_mem hw)
        cases hfl : findLabel _ c with
        | none => exact absurd hc (findLabel_none.1 hfl)
        | some j =>
          have hj := findLabel_some hfl
          have hjlt : j < _ := (List.getElem?_eq_some_iff.1 hj).1
          rw [hlen] at hjlt
          exact ⟨_, j, _, hn, hfl, List.getElem?_eq_getElem hjlt,
            (ih (hkids j c _ hj (List.getElem?_eq_getElem hjlt))).2 hw⟩

theorem Rep.walk {h : Heap} {p : Nat} {L : List Word} (hr : Rep h p L) (x : Word) (q : Nat)
    (hw : walk h p x = some q) : Rep h q (subw L x) := by
  induction x generalizing p L with
  | nil => simp only [Dawg.walk, Option.some.injEq] at hw; subst hw; exact hr
  | cons c x ih =>
    cases hr with
    | @mk _ n _ hn hs hf hnum hlab hlen hmem hkids =>
      simp only [Dawg.walk, hn] at hw
      cases hfl : findLabel n.labels c with
      | none => rw [hfl] at hw; cases hw
      | some j =>
        rw [hfl] at hw
        simp only at hw
        cases hq : n.links[j]? with
        | none => rw [hq] at hw; cases hw
        | some q' =>
          rw [hq] at hw
          exact ih (hkids j c q' (findLabel_some hfl) hq) hw

theorem Rep.numWords {h : Heap} {p : Nat} {L : List Word} (hr : Rep h p L) :
    ∃ n, h[p]? = some n ∧ n.numWords = L.length := by
  cases hr with
  | mk hn hs hf hnum hlab hlen hmem hkids => exact ⟨_, hn, hnum⟩

theorem Rep.sorted {h : Heap} {p : Nat} {L : List Word} (hr : Rep h p L) : L.Pairwise (· < ·) := by
  cases hr with
  | mk hn hs hf hnum hlab hlen hmem hkids => exact hs

/-- total size of the sub-languages of the labels smaller than `l` -/
def cntLt (L : List Word) (labs : List Nat) (l : Nat) : Nat :=
  ((labs.filter (· < l)).map (fun a => (sub L a).length)).sum

theorem lookupScan_spec (h : Heap) (L : List Word) (l : Nat) :
    ∀ (labs links : List Nat) (index : Int), labs.length = links.length → labs.Pairwise (· < ·) →
      (∀ (j c q : Nat), labs[j]? = some c → links[j]? = some q → Rep h q (sub L c)) →
      (l ∉ labs → lookupScan h l labs links index = .ok none) ∧
      (∀ (j q : Nat) (qn : Node), labs[j]? = some l → links[j]? = some q → h[q]? = some qn →
        lookupScan h l labs links index =
          .ok (some (q, index + (cntLt L labs l : Nat) + (if qn.final then 1 else 0)))) := by
  intro labs
  induction labs with
  | nil =>
    intro links index _ _ _
    exact ⟨fun _ => rfl, fun j q qn hj => by simp at hj⟩
  | cons lab labs ih =>
    intro links index hlen hs hkids
    cases links with
    | nil => simp at hlen
    | cons q0 qs =>
      rw [List.pairwise_cons] at hs
      have hrep0 := hkids 0 lab q0 rfl rfl
      obtain ⟨qn0, hqn0, hnum0⟩ := hrep0.numWords
      have hkids' : ∀ (j c q : Nat), labs[j]? = some c → qs[j]? = some q → Rep h q (sub L c) :=
        fun j c q h1 h2 => hkids (j + 1) c q (by simpa using h1) (by simpa using h2)
      obtain ⟨ih1, ih2⟩ := ih qs (index + qn0.numWords) (by simpa using hlen) hs.2 hkids'
      simp only [lookupScan, getNode_of_some hqn0]
      refine ⟨?_, ?_⟩
      · intro hnot
        rw [List.mem_cons, not_or] at hnot
        rw [if_neg (fun h => hnot.1 h.symm)]
        exact ih1 hnot.2
      · intro j q qn hj hq hqn
        cases j with
        | zero =>
          simp only [List.getElem?_cons_zero, Option.some.injEq] at hj hq
          subst hj; subst hq
          rw [hqn0] at hqn; cases hqn
          rw [if_pos rfl]
          have : cntLt L (lab :: labs) lab = 0 := by
            unfold cntLt
            have : (lab :: labs).filter (· < lab) = [] := by
              rw [List.filter_eq_nil_iff]
              intro a ha
              simp only [decide_eq_true_eq]
              rw [List.mem_cons] at ha
              rcases ha with rfl | ha
              · exact Nat.lt_irrefl _
              · have := hs.1 a ha; omega
            rw [this]; rfl
          rw [this]; simp
          split <;> simp
        | succ j =>
          simp only [List.getElem?_cons_succ] at hj hq
          have hl : l ∈ labs := List.mem_of_getElem? hj
          have hlt : lab < l := hs.1 l hl
          rw [if_neg (by omega)]
          rw [ih2 j q qn hj hq hqn]
          have : cntLt L (lab :: labs) l = (sub L lab).length + cntLt L labs l := by
            unfold cntLt
            rw [List.filter_cons_of_pos (by simpa using hlt)]
            simp
          rw [this, hnum0]
          congr 3
          push_cast
          omega

theorem cntLt_eq {L : List Word} {labs : List Nat} (hlab : labs.Pairwise (· < ·))
    (hmem : ∀ c, c ∈ labs ↔ sub L c ≠ []) (c : Nat) :
    cntLt L labs c = (L.filter (headLt c)).length := by
  unfold cntLt
  rw [sum_sub_length L _ ((nat_sorted_nodup hlab).filter _)]
  congr 1
  apply List.filter_congr
  intro u hu
  cases u with
  | nil => rfl
  | cons a t =>
    simp only [headIn, headLt, List.mem_filter, decide_eq_true_eq]
    have : a ∈ labs := (hmem a).2 (List.ne_nil_of_mem (mem_sub.2 hu))
    simp [this]

theorem lookupWalk_spec {h : Heap} (w : Word) :
    ∀ {p : Nat} {L : List Word} {n : Node} (base : Int), Rep h p L → h[p]? = some n →
      lookupWalk h p (base + (if n.final then 0 else -1)) w =
        .ok (if w ∈ L then (base + ((L.filter (· < w)).length : Nat), true) else (0, false)) := by
  induction w with
  | nil =>
    intro p L n base hr hn
    cases hr with
    | mk hn' hs hf hnum hlab hlen hmem hkids =>
      rw [hn] at hn'; cases hn'
      simp only [lookupWalk, getNode_of_some hn]
      by_cases hfin : n.final = true
      · have hmemL : [] ∈ L := hf.1 hfin
        have hz : (L.filter (· < ([] : Word))).length = 0 := by
          rw [List.length_eq_zero_iff, List.filter_eq_nil_iff]; intro a _; simp
        simp only [hfin, hmemL, if_true, hz]
        simp
      · have hmemL : [] ∉ L := fun h1 => hfin (hf.2 h1)
        simp [hfin, hmemL]
  | cons c w ih =>
    intro p L n base hr hn
    cases hr with
    | mk hn' hs hf hnum hlab hlen hmem hkids =>
      rw [hn] at hn'; cases hn'
      simp only [lookupWalk, getNode_of_some hn]
      obtain ⟨hsc1, hsc2⟩ := lookupScan_spec h L c n.labels n.links (base + (if n.final then 0 else -1)) hlen hlab hkids
      by_cases hc : c ∈ n.labels
      · obtain ⟨j, hjlt, hj⟩ := List.getElem_of_mem hc
        have hj' : n.labels[j]? = some c := by rw [← hj]; exact List.getElem?_eq_getElem hjlt
        have hjlt' : j < n.links.length := by rw [← hlen]; exact hjlt
        have hq : n.links[j]? = some n.links[j] := List.getElem?_eq_getElem hjlt'
        have hrq := hkids j c _ hj' hq
        obtain ⟨qn, hqn, _⟩ := hrq.numWords
        rw [hsc2 j _ qn hj' hq hqn]
        simp only
        have hidx : base + (if n.final then 0 else -1) + (cntLt L n.labels c : Nat) + (if qn.final then 1 else 0)
            = (base + (if [] ∈ L then 1 else 0) + (cntLt L n.labels c : Nat)) + (if qn.final then 0 else -1) := by
          by_cases h1 : n.final = true
          · have : [] ∈ L := hf.1 h1
            by_cases h2 : qn.final = true <;> simp [h1, h2, this] <;> omega
          · have : [] ∉ L := fun h3 => h1 (hf.2 h3)
            by_cases h2 : qn.final = true <;> simp [h1, h2, this] <;> omega
        rw [hidx, ih _ hrq hqn]
        have hmem' : (c :: w ∈ L) ↔ w ∈ sub L c := mem_sub.symm
        by_cases hw : w ∈ sub L c
        · rw [if_pos hw, if_pos (hmem'.2 hw), count_lt_cons hs, cntLt_eq hlab hmem]
          congr 2
          by_cases h3 : [] ∈ L <;> simp [h3] <;> omega
        · rw [if_neg hw, if_neg (fun h => hw (hmem'.1 h))]
      · rw [hsc1 hc]
        simp only
        have : c :: w ∉ L := by
          intro h1
          exact hc ((hmem c).2 (List.ne_nil_of_mem (mem_sub.2 h1)))
        rw [if_neg this]

end Dawg
