import Mamba.Lemmas.BridgeRows
namespace Search
open GraphSpec GSearch

instance : LawfulMonad Outcome := LawfulMonad.mk' Outcome
  (id_map := by intro α x; cases x <;> rfl)
  (pure_bind := by intro α β a f; rfl)
  (bind_assoc := by intro α β γ x f g; cases x <;> rfl)

theorem mapM_nbrRow {g : DG} (hb : Built g) :
    ∀ (l : List Nat), (∀ v ∈ l, v < g.nv) → l.mapM (m := Outcome) (nbrRow g) = .ok (l.map g.toG.nbrs)
  | [], _ => rfl
  | v :: vs, h => by
    rw [List.mapM_cons, nbrRow_spec hb (h v List.mem_cons_self)]
    simp only [bind, Outcome.bind]
    rw [mapM_nbrRow hb vs (fun w hw => h w (List.mem_cons_of_mem _ hw))]
    rfl

/-- what `getAutomorphismGroup` hands to the oracle -/
theorem getAut_eq (O : Oracle) {cap : Nat} {g : DG} (hb : Built g) (hle : g.nv ≤ cap) (vb : Option Nat) :
    getAut O cap g vb = O g.nv g.ne ((List.range g.nv).map g.toG.nbrs) vb := by
  unfold getAut
  rw [if_neg (by omega), mapM_nbrRow hb _ (fun v hv => List.mem_range.1 hv)]

/-! ### the oracle built from the unpruned individualisation–refinement model (C01/C02) -/

/-- the graph in the vocabulary of `Model/IR.lean` -/
def irGraph (nv : Nat) (rows : List (List Nat)) : IR.G := { n := nv, adj := rows.toArray }

/-- a leaf of maximal certificate -/
def maxLeaf (G : IR.G) : Array Nat :=
  ((IR.allLeaves G (IR.init G)).find? fun l => IR.cert G l == IR.canonCert G).getD #[]

/-- the union operations `v ~ γ v` for all `γ` in the automorphism list -/
def orbitOps (nv : Nat) (auts : List (Array Nat)) : List Disjoint.Op :=
  auts.flatMap fun a => (List.range nv).map fun v => Disjoint.Op.union v (IR.col a v)

/-- the orbit partition as a `disjoint.Set` -/
def orbitDS (nv : Nat) (auts : List (Array Nat)) : Disjoint.DS :=
  match Disjoint.run (orbitOps nv auts) (Disjoint.new nv) with
  | .ok ds => ds
  | _ => Disjoint.new nv

/-- **the oracle of the exactness theorem, built from the C01/C02 model**: canonical labelling = inverse of a leaf of
maximal certificate, orbits = union–find closure of `v ~ γ v` over the whole automorphism list, generators = the whole
automorphism list; the viability check never exits early. -/
def irOracle : Oracle := fun nv _ne rows _vb =>
  let G := irGraph nv rows
  let auts := IR.autGroupFrom G (IR.init G)
  .ok (some { perm := IR.tab nv (IR.invFn nv (maxLeaf G)), orbits := orbitDS nv auts, gens := auts })

end Search
