import Mamba.Lemmas.CanonFEdgelessOrb
import Mamba.Lemmas.CanonFGenBy

/-!
# The generators returned by the `m == 0` shortcut generate the symmetric group
-/
namespace CanonF

/-- the adjacent transposition `(i i+1)` as a list -/
def edg_sw (n i : Nat) : List Nat :=
  (List.range n).map (fun x => if x = i then i + 1 else if x = i + 1 then i else x)

/-- the `n`-cycle `x ↦ x + 1 mod n` as a list -/
def edg_cyc (n : Nat) : List Nat := (List.range n).map (fun i => if i = n - 1 then 0 else i + 1)

theorem edg_map_getD {n : Nat} (f : Nat → Nat) {x : Nat} (hx : x < n) : ((List.range n).map f).getD x 0 = f x := by
  rw [List.getD_eq_getElem?_getD, List.getElem?_map, List.getElem?_range hx]; rfl

theorem edg_sw_getD {n i x : Nat} (hx : x < n) :
    (edg_sw n i).getD x 0 = if x = i then i + 1 else if x = i + 1 then i else x := edg_map_getD _ hx

theorem edg_cyc_getD {n x : Nat} (hx : x < n) : (edg_cyc n).getD x 0 = if x = n - 1 then 0 else x + 1 :=
  edg_map_getD _ hx

/-- `(i+1 i+2) = c ∘ (i i+1) ∘ c⁻¹` -/
theorem edg_sw_conj {n i : Nat} (hi : i + 2 < n) (hc : (edg_cyc n).Perm (List.range n)) :
    edg_sw n (i + 1) = compL n (edg_cyc n) (compL n (edg_sw n i) (invL n (edg_cyc n))) := by
  apply list_ext_getD (by simp [edg_sw]) (compL_length _ _ _)
  intro x hx
  have hy : (invL n (edg_cyc n)).getD x 0 < n := perm_getD_lt (invL_perm hc) hx
  have hcy := invL_right hc hx
  rw [compL_getD hx, compL_getD hx]
  generalize (invL n (edg_cyc n)).getD x 0 = y at hy hcy
  rw [edg_cyc_getD hy] at hcy
  rw [edg_sw_getD hy, edg_sw_getD hx]
  have hz : (if y = i then i + 1 else if y = i + 1 then i else y) < n := by
    split
    · omega
    · split <;> omega
  rw [edg_cyc_getD hz]
  grind

/-- all adjacent transpositions from the cycle and `(0 1)` -/
theorem edg_sw_all {S : List Nat → Prop} {n : Nat} (hS : ∀ γ, S γ → γ.Perm (List.range n))
    (hc : 2 < n → GenBy S n (edg_cyc n)) (h0 : 1 < n → GenBy S n (edg_sw n 0)) :
    ∀ i, i + 1 < n → GenBy S n (edg_sw n i) := by
  intro i
  induction i with
  | zero => intro h; exact h0 (by omega)
  | succ i ih =>
    intro h
    have hcc := hc (by omega)
    rw [edg_sw_conj (by omega) (GenBy.perm hS hcc)]
    exact GenBy.comp _ _ hcc (GenBy.comp _ _ (ih (by omega)) (GenBy.inv _ hcc))

/-- an element of the group that moves `k` to `j ≤ k` and fixes everything above `k` -/
theorem edg_tau {S : List Nat → Prop} {n : Nat}
    (hs : ∀ i, i + 1 < n → GenBy S n (edg_sw n i)) :
    ∀ k j, j ≤ k → k < n → ∃ τ, GenBy S n τ ∧ τ.getD k 0 = j ∧ ∀ x, k < x → x < n → τ.getD x 0 = x := by
  intro k
  induction k with
  | zero =>
    intro j hj hk
    exact ⟨List.range n, GenBy.id, by rw [gby_range_getD hk]; omega, fun x _ hx => gby_range_getD hx⟩
  | succ k ih =>
    intro j hj hk
    by_cases hjk : j = k + 1
    · exact ⟨List.range n, GenBy.id, by rw [gby_range_getD hk]; omega, fun x _ hx => gby_range_getD hx⟩
    · obtain ⟨τ, hτ, e1, e2⟩ := ih j (by omega) (by omega)
      refine ⟨compL n τ (edg_sw n k), GenBy.comp _ _ hτ (hs k hk), ?_, ?_⟩
      · rw [compL_getD hk, edg_sw_getD hk]
        rw [if_neg (by omega), if_pos rfl]
        exact e1
      · intro x hx hxn
        rw [compL_getD hxn, edg_sw_getD hxn, if_neg (by omega), if_neg (by omega)]
        exact e2 x (by omega) hxn

/-- the adjacent transpositions generate the symmetric group -/
theorem edg_all {S : List Nat → Prop} {n : Nat} (hS : ∀ γ, S γ → γ.Perm (List.range n))
    (hs : ∀ i, i + 1 < n → GenBy S n (edg_sw n i)) :
    ∀ k, k ≤ n → ∀ γ : List Nat, γ.Perm (List.range n) → (∀ x, k ≤ x → x < n → γ.getD x 0 = x) → GenBy S n γ := by
  intro k
  induction k with
  | zero =>
    intro _ γ hγ hfix
    have : γ = List.range n := by
      apply list_ext_getD (aut_perm_facts hγ).1 (by simp)
      intro x hx
      rw [hfix x (by omega) hx, gby_range_getD hx]
    rw [this]; exact GenBy.id
  | succ k ih =>
    intro hk γ hγ hfix
    have hkn : k < n := by omega
    have hj : γ.getD k 0 ≤ k := by
      by_contra hcon
      have hjn : γ.getD k 0 < n := perm_getD_lt hγ hkn
      have := hfix (γ.getD k 0) (by omega) hjn
      have := gby_getD_inj hγ hjn hkn this
      omega
    obtain ⟨τ, hτ, e1, e2⟩ := edg_tau hs k _ hj hkn
    have hτp := GenBy.perm hS hτ
    refine genBy_factor hτp hγ hτ (ih (by omega) _ (compL_perm (invL_perm hτp) hγ) ?_)
    intro x hkx hx
    rw [compL_getD hx]
    by_cases hxk : x = k
    · subst hxk
      rw [← e1]; exact invL_left hτp hx
    · rw [hfix x (by omega) hx]
      have := invL_left hτp hx
      rw [e2 x (by omega) hx] at this
      exact this

theorem edgeless_gens_generate {n : Nat} {st st' : Storage} {r : Res} (hn : n ≠ 0) (h : edgeless n st = .ok (r, st')) :
    ∃ gs, r.gens = some gs ∧ ∀ γ : List Nat, γ.Perm (List.range n) → GenBy (fun x => x ∈ gs) n γ := by
  obtain ⟨gs, ds, hg, _, _, hperm, _⟩ := edgeless_cert hn h
  refine ⟨gs, hg, fun γ hγ => ?_⟩
  have hg' := (edgeless_gens hn h).2
  rw [hg] at hg'
  simp only [Option.some.injEq] at hg'
  have hsw : ∀ i, i + 1 < n → GenBy (fun x => x ∈ gs) n (edg_sw n i) := by
    apply edg_sw_all hperm
    · intro h2
      apply GenBy.gen
      rw [hg', if_neg (by omega), if_neg (by omega)]
      exact List.mem_cons_self ..
    · intro h1
      apply GenBy.gen
      rw [hg', if_neg (by omega)]
      by_cases h2 : n = 2
      · subst h2; simp [edg_sw]; decide
      · rw [if_neg h2]
        exact List.mem_cons_of_mem _ (List.mem_cons_self ..)
  exact edg_all hperm hsw n (Nat.le_refl _) γ hγ (fun x h1 h2 => by omega)

end CanonF
