import Mamba.Lemmas.MinorExec
/-!
# The minor relation is reflexive and transitive; subgraphs and isomorphic copies are minors (property C11)
-/
namespace Minor
open GraphSpec

theorem ofG_adj (g : G) (u v : Nat) : (ofG g).adj u v = (g.adj u v || g.adj v u) := rfl

/-- coarsening the classes keeps paths -/
theorem PG.Conn.coarsen {p : PG} {f F : Nat → Nat} {k c : Nat} (h : ∀ x, p.V x → f x = k → F x = c)
    {u w : Nat} (hc : p.Conn f k u w) : p.Conn F c u w := by
  have := PG.Conn.map (p := p) (p' := p) (f := f) (f' := F) (c := k) (c' := c) (fun z => z)
    (fun v hv hf => ⟨hv, h v hv hf⟩) (fun u v _ _ _ _ ha => Or.inr ha) hc
  exact this

theorem IsModel.trans {p : PG} {K H : G} {f f2 : Nat → Nat} (hs : p.Sym)
    (h1 : IsModel p K f) (h2 : IsModel (ofG K) H f2) :
    IsModel p H (fun v => if f v < K.n ∧ f2 (f v) < H.n then f2 (f v) else H.n) := by
  set F : Nat → Nat := fun v => if f v < K.n ∧ f2 (f v) < H.n then f2 (f v) else H.n with hF
  have hFv : ∀ v, f v < K.n → f2 (f v) < H.n → F v = f2 (f v) := by
    intro v a b; simp [hF, a, b]
  have hFlt : ∀ v, F v < H.n → f v < K.n ∧ f2 (f v) < H.n ∧ F v = f2 (f v) := by
    intro v hv
    by_cases hc : f v < K.n ∧ f2 (f v) < H.n
    · exact ⟨hc.1, hc.2, hFv v hc.1 hc.2⟩
    · simp [hF, hc] at hv
  -- an edge of K between classes gives an edge of p between the branch sets
  have hKedge : ∀ k a, k < K.n → a < K.n → k ≠ a → (ofG K).adj k a = true →
      ∃ x y, p.V x ∧ p.V y ∧ f x = k ∧ f y = a ∧ p.adj x y = true := by
    intro k a hk ha hne hadj
    rw [ofG_adj, Bool.or_eq_true] at hadj
    rcases hadj with hadj | hadj
    · exact h1.edge k a hk ha hne hadj
    · obtain ⟨y, x, hy, hx, hfy, hfx, hyx⟩ := h1.edge a k ha hk (Ne.symm hne) hadj
      exact ⟨x, y, hx, hy, hfx, hfy, by rw [hs]; exact hyx⟩
  -- a path of K inside a class of f2 lifts
  have hpath : ∀ c, c < H.n → ∀ k1 k2, (ofG K).Conn f2 c k1 k2 →
      ∀ u v, p.V u → p.V v → f u = k1 → f v = k2 → p.Conn F c u v := by
    intro c hc k1 k2 hconn
    induction hconn with
    | @refl k hk hfk =>
      intro u v hu hv hfu hfv
      have hk' : k < K.n := (ofG_V K k).1 hk
      have := h1.conn u v hu hv (hfu ▸ hk') (by rw [hfu, hfv])
      rw [hfu] at this
      refine this.coarsen ?_
      intro x _ hfx
      rw [hFv x (hfx ▸ hk') (by rw [hfx, hfk]; exact hc), hfx, hfk]
    | @step k a k2 hk hfk hadj hrest ih =>
      intro u v hu hv hfu hfv
      have hk' : k < K.n := (ofG_V K k).1 hk
      have ha' : a < K.n := (ofG_V K a).1 hrest.left.1
      by_cases hka : k = a
      · subst hka; exact ih u v hu hv hfu hfv
      · obtain ⟨x, y, hx, hy, hfx, hfy, hxy⟩ := hKedge k a hk' ha' hka hadj
        have hcl : ∀ z, p.V z → f z = k → F z = c := by
          intro z _ hfz
          rw [hFv z (hfz ▸ hk') (by rw [hfz, hfk]; exact hc), hfz, hfk]
        have c1 : p.Conn F c u x := by
          have := h1.conn u x hu hx (hfu ▸ hk') (by rw [hfu, hfx])
          rw [hfu] at this
          exact this.coarsen hcl
        have c2 : p.Conn F c y v := ih y v hy hv hfy hfv
        exact c1.trans (.step hx (hcl x hx hfx) hxy c2)
  refine ⟨?_, ?_, ?_⟩
  · intro h hh
    obtain ⟨k, hk, hfk⟩ := h2.nonempty h hh
    have hk' : k < K.n := (ofG_V K k).1 hk
    obtain ⟨v, hv, hfv⟩ := h1.nonempty k hk'
    exact ⟨v, hv, by rw [hFv v (hfv ▸ hk') (by rw [hfv, hfk]; exact hh), hfv, hfk]⟩
  · intro u v hu hv hlt heq
    obtain ⟨a1, a2, a3⟩ := hFlt u hlt
    obtain ⟨b1, b2, b3⟩ := hFlt v (heq ▸ hlt)
    have hc := h2.conn (f u) (f v) ((ofG_V K _).2 a1) ((ofG_V K _).2 b1) a2 (by rw [← a3, ← b3, heq])
    rw [← a3] at hc
    exact hpath (F u) hlt _ _ hc u v hu hv rfl rfl
  · intro h h' hh hh' hne hadj
    obtain ⟨k, k', hk, hk', hfk, hfk', hkk⟩ := h2.edge h h' hh hh' hne hadj
    have hk1 : k < K.n := (ofG_V K k).1 hk
    have hk2 : k' < K.n := (ofG_V K k').1 hk'
    have hne' : k ≠ k' := by
      rintro rfl
      exact hne (hfk.symm.trans hfk')
    obtain ⟨x, y, hx, hy, hfx, hfy, hxy⟩ := hKedge k k' hk1 hk2 hne' hkk
    refine ⟨x, y, hx, hy, ?_, ?_, hxy⟩
    · rw [hFv x (hfx ▸ hk1) (by rw [hfx, hfk]; exact hh), hfx, hfk]
    · rw [hFv y (hfy ▸ hk2) (by rw [hfy, hfk']; exact hh'), hfy, hfk']

theorem hasMinor_trans' {g K H : G} (h1 : HasMinor g K) (h2 : HasMinor K H) : HasMinor g H := by
  obtain ⟨f, hf⟩ := h1
  obtain ⟨f2, hf2⟩ := h2
  exact ⟨_, hf.trans (ofG_sym g) hf2⟩

/-- a subgraph is a minor -/
theorem hasMinor_of_subgraph {K g : G} (h : IsSubgraph K g) : HasMinor g K := by
  obtain ⟨ι, hι⟩ := h
  refine ⟨_, model_of_images ((List.range K.n).map ι) (by simp) ?_ ?_ ?_⟩
  · refine List.Nodup.map_on ?_ List.nodup_range
    intro x hx y hy hxy
    exact hι.inj x y (List.mem_range.1 hx) (List.mem_range.1 hy) hxy
  · intro x hx
    obtain ⟨a, ha, rfl⟩ := List.mem_map.1 hx
    exact (ofG_V g _).2 (hι.maps a (List.mem_range.1 ha))
  · intro i j hi hj _ hadj
    have e1 : ((List.range K.n).map ι).getD i 0 = ι i := by simp [List.getD_eq_getElem?_getD, hi]
    have e2 : ((List.range K.n).map ι).getD j 0 = ι j := by simp [List.getD_eq_getElem?_getD, hj]
    rw [e1, e2, ofG_adj]
    exact hι.adj i j hi hj (by rw [hadj]; rfl)

theorem hasMinor_refl' (g : G) : HasMinor g g :=
  hasMinor_of_subgraph ⟨fun a => a, ⟨fun _ h => h, fun _ _ _ _ h => h, fun _ _ _ _ h => h⟩⟩

theorem isSubgraph_of_iso {g g' : G} (h : Iso g g') : IsSubgraph g g' := by
  obtain ⟨ι, κ, hi⟩ := h
  refine ⟨ι, ⟨fun a ha => (hi.fwd a ha).1, ?_, ?_⟩⟩
  · intro a b ha hb hab
    rw [← (hi.fwd a ha).2, ← (hi.fwd b hb).2, hab]
  · intro a b ha hb hadj
    rw [← hi.adj a b ha hb]; exact hadj

theorem iso_symm {g g' : G} (h : Iso g g') : Iso g' g := by
  obtain ⟨ι, κ, hi⟩ := h
  refine ⟨κ, ι, ⟨hi.bwd, hi.fwd, ?_⟩⟩
  intro a b ha hb
  have := hi.adj (κ a) (κ b) (hi.bwd a ha).1 (hi.bwd b hb).1
  rw [(hi.bwd a ha).2, (hi.bwd b hb).2] at this
  exact this.symm

/-- relabelling by a permutation list (`InducedSubgraph(π)` / `EG.Relabel` in the harness) is an isomorphism -/
theorem iso_induced_perm (g : G) (π : List Nat) (hπ : π.Perm (List.range g.n)) : Iso (g.induced π) g := by
  have hlen : π.length = g.n := by rw [hπ.length_eq, List.length_range]
  have hnd : π.Nodup := hπ.nodup_iff.2 List.nodup_range
  have hget : ∀ i (hi : i < π.length), π.getD i 0 = π[i] := by
    intro i hi; simp [List.getD_eq_getElem?_getD, hi]
  refine ⟨fun i => π.getD i 0, fun v => π.idxOf v, ⟨?_, ?_, ?_⟩⟩
  · intro a ha
    have ha' : a < π.length := ha
    constructor
    · have : π[a] ∈ List.range g.n := hπ.mem_iff.1 (List.getElem_mem ha')
      rw [hget a ha']; exact List.mem_range.1 this
    · simp only [hget a ha']; exact hnd.idxOf_getElem a ha'
  · intro b hb
    have hmem : b ∈ π := hπ.mem_iff.2 (List.mem_range.2 hb)
    have hlt : π.idxOf b < π.length := List.idxOf_lt_length_iff.2 hmem
    refine ⟨hlt, ?_⟩
    simp only [hget _ hlt]; exact List.getElem_idxOf hlt
  · intro a b ha hb
    have ha' : a < π.length := ha
    have hb' : b < π.length := hb
    simp [G.induced, ha', hb']

end Minor
