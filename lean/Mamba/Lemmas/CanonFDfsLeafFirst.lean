import Mamba.Lemmas.CanonFDfsPop
import Mamba.Lemmas.CanonFDfsSkip
/-!
# The complete DFS invariant at the first leaf (`dfs_leaf_first`)
-/
namespace CanonF
open Relation

theorem lf_copy_prefix {s : Sl Nat} (hw : s.WF) (src : List Nat) (hl : src.length ≤ s.len) {i : Nat}
    (hi : i < src.length) : (s.copyFrom src).toList[i]? = src[i]? := by
  rw [Sl.getElem?_toList, Sl.copyFrom_len, if_pos (by omega), Sl.copyFrom_data s hw, if_pos ⟨hi, by omega⟩]

theorem lf_idxPath_congr {n : Nat} {nb : Nbrs} {rf : Nat} {r : IR.St} {vs P P' : List Nat} {L : Nat}
    (h : IdxPath n nb rf r vs P L) (e : ∀ i, i < L → P'[i]? = P[i]?) : IdxPath n nb rf r vs P' L := by
  intro i hi
  obtain ⟨t, j, v, b1, b2, b3, b4⟩ := h i hi
  exact ⟨t, j, v, b1, b2, b3, by rw [e i hi]; exact b4⟩

theorem lf_levelsOK_path_ne {op : OP} {p : Nat} {ps choices : List Nat} {lv : List (Nat × Nat)}
    (h : LevelsOK op (p :: ps) choices lv) : ∃ c cs st sz ls, choices = c :: cs ∧ lv = (st, sz) :: ls ∧ c = st + p := by
  match choices, lv, h with
  | c :: cs, (st, sz) :: ls, h =>
    simp only [LevelsOK] at h
    exact ⟨c, cs, st, sz, ls, rfl, rfl, h.2.2.1⟩

/-- the state after `leafNode` at the first leaf -/
theorem lf_shape {n m : Nat} {nb : Nbrs} {s s1 : LS} (hc : Core n s) (hg : GInv n m nb s)
    (hbp : s.bestPath.len = n ∧ s.bestPath.WF) (hfp : s.flPath.len = n ∧ s.flPath.WF)
    (hvlen : s.op.value.toList.length = m) (hplen : s.path.length ≤ n) (hcnt : s.count = 0)
    (h : leafNode n m s = .ok s1) :
    s1.op = s.op ∧ s1.path = s.path ∧ s1.choices = s.choices ∧ s1.count = 1 ∧ s1.ngens = s.ngens ∧
    s1.currentBest.toList = s.op.value.toList ∧ s1.firstLeaf.toList = s.op.value.toList ∧
    s1.bestPerm.toList = s.op.order.toList ∧ InvOf s.op.order.toList s1.bestPermInv ∧
    InvOf s.op.order.toList s1.flPermInv ∧ s1.bestOrbits = Disjoint.new n ∧
    (s1.bestPath.len = n ∧ s1.bestPath.WF) ∧ (s1.flPath.len = n ∧ s1.flPath.WF) ∧
    (∀ i, i < s.path.length → s1.bestPath.toList[i]? = s.path.reverse[i]?) ∧
    (∀ i, i < s.path.length → s1.flPath.toList[i]? = s.path.reverse[i]?) ∧
    s1.gens = s.gens ∧ s1.flOrbits = Disjoint.new n := by
  have holen : s.op.order.toList.length = n := by rw [Sl.length_toList _ hc.part.wfOrder, hc.part.lenOrder]
  unfold leafNode at h
  dsimp only at h
  have hc1 : (compare s.op.value.toList s.currentBest.toList == 1 || s.count + 1 == 1) = true := by
    rw [hcnt]; simp
  rw [if_pos hc1] at h
  cases hrs : s.currentBest.reslice m with
  | panic => rw [hrs] at h; cases h
  | outOfFuel => rw [hrs] at h; cases h
  | ok cb =>
    rw [hrs] at h
    simp only at h
    obtain ⟨cbl, cbd, cbw⟩ := Sl.reslice_len hrs
    split at h
    · rename_i bestPermInv' bestOrbits' hloop
      obtain ⟨r1, r2, r3, r4, r5, _⟩ := resetLoop_spec hc.part.perm hc.part.wfOrder hc.part.lenOrder hg.orbSz.2 hloop
      have hcbT : (cb.copyFrom s.op.value.toList).toList = s.op.value.toList :=
        Sl.copyFrom_toList cb cbw _ (by rw [hvlen, cbl])
      have hbpT : (s.bestPerm.copyFrom s.op.order.toList).toList = s.op.order.toList :=
        Sl.copyFrom_toList _ hc.bestWf _ (by rw [holen, hc.bestLen])
      have hbpiW : bestPermInv'.WF := by
        have := hg.bpinv.2; unfold Sl.WF at this ⊢; omega
      have hbpiL : bestPermInv'.len = n := by rw [r1]; exact hg.bpinv.1
      rw [if_pos (show s.count + 1 = 1 by omega)] at h
      cases h
      have hflT : (s.firstLeaf.copyFrom s.op.value.toList).toList = s.op.value.toList :=
        Sl.copyFrom_toList _ hg.flLen.2 _ (by rw [hvlen, hg.flLen.1])
      have hfpT : (s.flPermInv.copyFrom bestPermInv'.toList).toList = bestPermInv'.toList :=
        Sl.copyFrom_toList _ hg.pinv.2 _ (by rw [Sl.length_toList _ hbpiW, hbpiL, hg.pinv.1])
      refine ⟨rfl, rfl, rfl, by show s.count + 1 = 1; omega, rfl, hcbT, hflT, hbpT, r3, ?_, r4, ?_, ?_, ?_, ?_, rfl, ?_⟩
      · intro i x hx
        show (s.flPermInv.copyFrom bestPermInv'.toList).toList[x]? = some i
        rw [hfpT]; exact r3 i x hx
      · exact ⟨by rw [Sl.copyFrom_len]; exact hbp.1, Sl.copyFrom_wf hbp.2 _⟩
      · exact ⟨by rw [Sl.copyFrom_len]; exact hfp.1, Sl.copyFrom_wf hfp.2 _⟩
      · intro i hi
        exact lf_copy_prefix hbp.2 _ (by rw [List.length_reverse, hbp.1]; exact hplen) (by rw [List.length_reverse]; exact hi)
      · intro i hi
        exact lf_copy_prefix hfp.2 _ (by rw [List.length_reverse, hfp.1]; exact hplen) (by rw [List.length_reverse]; exact hi)
      · show (Sl.copyFrom ⟨s.flOrbits, s.flOrbits.size⟩ bestOrbits'.toList).data = Disjoint.new n
        rw [copyFrom_data_full _ _ (by rw [r4]; simp [Disjoint.new, hg.orbSz.1]), r4]
    · cases h
    · cases h

section
variable {n : Nat} {nb : Nbrs} {rf : Nat} {r : IR.St}

/-- before the first leaf every frame holds its first child: no member of a frame is processed -/
theorem lf_cov_vacuous {gh : Gh} {s s' : LS} {vs : List Nat} (h0 : s.count = 0) :
    ∀ (path choices : List Nat) (lv : List (Nat × Nat)), FramesOK n nb rf r vs path choices lv →
      FrameAux n nb rf r gh s vs false path choices lv → CovFrames n nb rf r s' vs false path choices lv := by
  intro path
  induction path with
  | nil => intro choices lv _ h; cases choices <;> cases lv <;> simp_all [FrameAux, CovFrames]
  | cons p ps ih =>
    intro choices lv hf h
    cases choices with
    | nil => simp [FrameAux] at h
    | cons c cs =>
      cases lv with
      | nil => simp [FrameAux] at h
      | cons x ls =>
        obtain ⟨st, sz⟩ := x
        simp only [FrameAux] at h
        simp only [FramesOK] at hf
        simp only [CovFrames]
        refine ⟨fun i w hi hw => ?_, ih cs ls hf.2.2.2 h.2⟩
        exfalso
        have hph := h.1.ph1 h0
        simp only [Bool.false_eq_true, if_false] at hph hi
        have := (List.getElem?_eq_some_iff.1 hw).1
        rw [hf.2.1] at this
        omega

/-- the auxiliary facts of one frame right after the first leaf: both stored paths are the current path -/
theorem lf_frameAux1 {gh' : Gh} {s1 : LS} {vs : List Nat} (e1 : gh'.vsF = vs) (e2 : gh'.vsB = vs) (e3 : gh'.bgs = [])
    (hcnt : 0 < s1.count) (hng : s1.ngens = 0) {incl : Bool} {ps : List Nat} {c st sz p : Nat} (hcp : c = st + p)
    (hlink : vs[ps.length]? = (cellL n nb rf r vs ps.length st)[p]?)
    (hcomp : incl = true → ∀ w, vs[ps.length]? = some w →
      Complete n nb rf s1.currentBest.toList (IR.childSt (irG n nb) rf (nodeL n nb rf r vs ps.length) st w)) :
    FrameAux1 n nb rf r gh' s1 vs incl ps c st sz := by
  have hnd : (cellL n nb rf r vs ps.length st).Nodup := IR.cellMembers_nodup _ _ _
  have key : ∀ i w, (cellL n nb rf r vs ps.length st)[i]? = some w → vs[ps.length]? = some w → i = p := by
    intro i w hi hw
    rw [hlink, ← hi] at hw
    have hlt := (List.getElem?_eq_some_iff.1 hi).1
    exact (List.getElem?_inj hlt hnd).1 hw.symm
  have hcs : c - st = p := by omega
  constructor
  · intro _ j w hj hw hh
    rw [e1] at hh
    have := key j w hw hh.2
    omega
  · intro _ j w hj hw hh
    rw [e2] at hh
    have := key j w hw hh.2
    omega
  · intro _ _ i w hi hw hx
    rw [e1] at hx
    have hip := key i w hw hx
    cases incl with
    | false => simp only [Bool.false_eq_true, if_false] at hi; omega
    | true => exact hcomp rfl w hx
  · intro _ _ i w hi hw hx
    rw [e2] at hx
    have hip := key i w hw hx
    cases incl with
    | false => simp only [Bool.false_eq_true, if_false] at hi; omega
    | true => exact hcomp rfl w hx
  · intro _ _ k hk; omega
  · intro _ _ γ hγ; simp [e3] at hγ
  · intro _ _; rw [e2]
  · intro h0; omega

theorem lf_frameAux_false {gh' : Gh} {s1 : LS} {vs : List Nat} {op : OP} (e1 : gh'.vsF = vs) (e2 : gh'.vsB = vs)
    (e3 : gh'.bgs = []) (hcnt : 0 < s1.count) (hng : s1.ngens = 0) :
    ∀ (path choices : List Nat) (lv : List (Nat × Nat)), FramesOK n nb rf r vs path choices lv →
      LevelsOK op path choices lv → path.length ≤ vs.length →
      FrameAux n nb rf r gh' s1 vs false path choices lv := by
  intro path
  induction path with
  | nil => intro choices lv _ h _; cases choices <;> cases lv <;> simp_all [FrameAux, LevelsOK]
  | cons p ps ih =>
    intro choices lv hf hl hlen
    cases choices with
    | nil => simp [LevelsOK] at hl
    | cons c cs =>
      cases lv with
      | nil => simp [LevelsOK] at hl
      | cons x ls =>
        obtain ⟨st, sz⟩ := x
        simp only [FramesOK] at hf
        simp only [LevelsOK] at hl
        simp only [List.length_cons] at hlen
        simp only [FrameAux]
        obtain ⟨_, _, g3, g4⟩ := hf
        refine ⟨lf_frameAux1 e1 e2 e3 hcnt hng hl.2.2.1 (g3 (by omega)).1 (fun h => by cases h),
          ih cs ls g4 hl.2.2.2.2 (by omega)⟩

end

section
variable {n m : Nat} {nb : Nbrs} {rf : Nat} {r : IR.St}
  (hnb : NbOK nb n) (hsz : nb.size = n) (hm : m = ((nb.toList.map List.length).sum) / 2) (hrf : 3 * n + 3 ≤ rf)
  (hA : IR.InvA (irG n nb) r) (hD : IR.InvD (irG n nb) r)
  (hlenm : ∀ o : List Nat, o.Perm (List.range n) → (certPos nb o n).length = m)

set_option linter.unusedVariables false in
set_option maxHeartbeats 1000000 in
include hnb hA hD hlenm in
/-- the first leaf, with the new ghost data and the new state explicit -/
theorem dfs_leaf_first_v (lv : List (Nat × Nat)) (s s1 : LS) (gh : Gh) (hI : MInv n m nb s)
    (hlv : LevelsOK s.op s.path s.choices lv) (hleaf : s.op.binDividers.len = n)
    (hJ : CertM n m nb lv false s) (h : DNodev n nb rf r gh lv s) (hs1 : leafNode n m s = .ok s1)
    (hJ1 : CertA n m nb lv s1) (hcnt : s.count = 0) :
    ∃ lv1, LevelsOK s1.op s1.path s1.choices lv1 ∧
      DAv n nb rf r { vs := gh.vs.dropLast, oF := s.op.order.toList, vsF := gh.vs, vsB := gh.vs, bgs := [] } lv1 s1 ∧
      s1.count = 1 ∧ s1.ngens = s.ngens ∧ s1.gens = s.gens ∧ s1.flOrbits = Disjoint.new n ∧
      s1.currentBest.toList = s.op.value.toList ∧ s1.firstLeaf.toList = s.op.value.toList ∧
      s1.bestPerm.toList = s.op.order.toList ∧ lv1 = lv := by
  obtain ⟨hw, hG, hcov, haux, hoff⟩ := h
  obtain ⟨hg, hva, hvn, hb⟩ := hJ
  have hc := hI.core
  obtain ⟨hvc, hspl⟩ := leaf_clean hc.part hleaf (hvn rfl)
  have hw' := hw
  obtain ⟨h1, h2, h3, h4, h5, h6, h7⟩ := hw'
  have hval : s.op.value.toList = certPos nb s.op.order.toList n := by rw [← hspl]; exact hvc.val
  have hvlen : s.op.value.toList.length = m := by rw [hval]; exact hlenm _ hc.part.perm
  have hg' := irG_wf hnb
  have hvsn : gh.vs.length ≤ n := by
    obtain ⟨c1, _, c3⟩ := IR.path_cells hg' (rf := rf) gh.vs r hA hD h1
    have := IR.D_le (irG n nb).n (IR.nodeAt (irG n nb) rf r gh.vs).c
    rw [c3] at this
    have : (IR.nodeAt (irG n nb) rf r gh.vs).cells ≤ n := this
    omega
  obtain ⟨e1, e2, e3, e4, e5, e6, e7, e8, e9, e10, e11, e12, e13, e14, e15, e16, e17⟩ :=
    lf_shape hc hg hG.bpLen hG.fpLen hvlen (by omega) hcnt hs1
  have hnode : nodeL n nb rf r gh.vs gh.vs.length = IR.nodeAt (irG n nb) rf r gh.vs := by
    unfold nodeL; rw [List.take_length]
  have hmt : Match n s.op (nodeL n nb rf r gh.vs gh.vs.length) :=
    (h4 gh.vs.length (Nat.le_refl _)).toMatch hc.part hc.age (by omega) h7
  have hle : compare s.op.value.toList s1.currentBest.toList ≠ 1 := by
    rw [e6, compare_self]; decide
  have hcompL : Complete n nb rf s1.currentBest.toList (nodeL n nb rf r gh.vs gh.vs.length) :=
    complete_leaf (rf := rf) hnb hc.part hleaf hmt hvc hspl hle
  have hcnt1 : 0 < s1.count := by omega
  have hng1 : s1.ngens = 0 := by rw [e5]; exact hG.ngens0 hcnt
  have hidx : IdxPath n nb rf r gh.vs s.path.reverse gh.vs.length := by
    have := frames_idxPath s.path s.choices lv h5 (by omega)
    rw [← h3] at this; exact this
  -- the record of the current leaf
  have hrec : ∀ (cert : List Nat) (pinv : Sl Nat) (P : List Nat), cert = s.op.value.toList →
      InvOf s.op.order.toList pinv → (∀ i, i < s.path.length → P[i]? = s.path.reverse[i]?) →
      LeafRec n nb rf r gh.vs s.op.order.toList cert pinv P := by
    intro cert pinv P hce hinv hP
    refine ⟨h1, ?_, ?_, hc.part.perm, by rw [hce]; exact hval, hinv, lf_idxPath_congr hidx (by rw [h3]; exact hP)⟩
    · rw [← hnode]; exact target_none hc.part hmt hleaf
    · rw [← hnode, hmt.col, leaf_colOf hc.part hleaf]
  refine ⟨lv, by rw [e1, e2, e3]; exact hlv, ⟨?_, ?_, ?_, ?_, ?_⟩, e4, e5, e16, e17, e6, e7, e8, rfl⟩
  · -- the walk
    have := walk_truncate (s' := s1) 0 hc.part hc.age (Nat.zero_le _)
      (fun hne => List.length_pos_iff.2 hne) (by rw [e1]; rfl) (by rw [e2]; rfl) (by rw [e3]; rfl) hw
    have ev : gh.vs.take (s.path.length - 0 - 1) = gh.vs.dropLast := by
      rw [List.dropLast_eq_take, h3]; rfl
    rw [ev] at this
    simpa using this
  · -- the global invariant
    constructor
    · intro _; exact hrec _ _ _ e7 e10 e15
    · intro _
      show LeafRec n nb rf r gh.vs s1.bestPerm.toList _ _ _
      rw [e8]; exact hrec _ _ _ e6 e9 e14
    · intro γ hγ; cases hγ
    · intro h0; omega
    · intro _
      rw [e11]
      refine ⟨Disjoint.inv_new' n, Disjoint.size_new n, ?_⟩
      intro a b ha hb hab
      rw [Disjoint.rep_new n a ha, Disjoint.rep_new n b hb] at hab
      subst hab; exact EqvGen.refl _
    · exact e12
    · exact e13
  · -- coverage
    have hc0 : CovFrames n nb rf r s1 gh.vs false s.path s.choices lv :=
      lf_cov_vacuous hcnt s.path s.choices lv h5 haux
    have hc1 := cov_finish_leaf hnb hc hlv hw hleaf hvc hspl (s' := s1) hle hc0
    show CovFrames n nb rf r s1 gh.vs.dropLast true s1.path s1.choices lv
    rw [e2, e3]
    exact CovFrames.congr (s := s1) (s' := s1) rfl (fun _ => rfl) rfl true _ _ _
      (fun L hL => take_dropLast gh.vs (by omega)) hc1
  · -- the frames
    show FrameAux n nb rf r _ s1 gh.vs.dropLast true s1.path s1.choices lv
    rw [e2, e3]
    apply FrameAux.congr (s := s1) (s' := s1) (us := gh.vs) rfl rfl rfl rfl true _ _ _
      (fun L hL => take_dropLast gh.vs (by omega))
    cases hpth : s.path with
    | nil =>
      rw [hpth] at hlv
      cases hch : s.choices <;> cases lv <;> simp_all [FrameAux, LevelsOK]
    | cons p ps =>
      rw [hpth] at hlv h5 h3
      obtain ⟨c, cs, st, sz, ls, hch, rfl, hcp⟩ := lf_levelsOK_path_ne hlv
      rw [hch] at hlv h5 ⊢
      simp only [FramesOK] at h5
      simp only [LevelsOK] at hlv
      simp only [List.length_cons] at h3
      obtain ⟨g1, _, g3, g4⟩ := h5
      obtain ⟨g3a, _⟩ := g3 (by omega)
      refine FrameAux.mk (lf_frameAux1 (gh' := { vs := gh.vs.dropLast, oF := s.op.order.toList, vsF := gh.vs, vsB := gh.vs, bgs := [] })
        (vs := gh.vs) rfl rfl rfl hcnt1 hng1 hcp g3a (fun _ w hw' => ?_))
        (lf_frameAux_false (gh' := { vs := gh.vs.dropLast, oF := s.op.order.toList, vsF := gh.vs, vsB := gh.vs, bgs := [] })
          (vs := gh.vs) rfl rfl rfl hcnt1 hng1 ps cs ls g4 hlv.2.2.2.2 (by omega))
      rw [← nodeL_succ h1 hw' g1, ← h3]
      exact hcompL
  · -- the root
    intro hp
    refine ⟨hcnt1, ?_⟩
    rw [e2] at hp
    have hvs : gh.vs = [] := List.eq_nil_of_length_eq_zero (by rw [h3, hp]; rfl)
    have : nodeL n nb rf r gh.vs gh.vs.length = r := by rw [hvs]; simp [nodeL, IR.nodeAt]
    rw [← this]
    exact hcompL

set_option linter.unusedVariables false in
include hnb hA hD hlenm in
/-- the first leaf -/
theorem dfs_leaf_first (lv : List (Nat × Nat)) (s s1 : LS) (gh : Gh) (hI : MInv n m nb s)
    (hlv : LevelsOK s.op s.path s.choices lv) (hleaf : s.op.binDividers.len = n)
    (hJ : CertM n m nb lv false s) (h : DNodev n nb rf r gh lv s) (hs1 : leafNode n m s = .ok s1)
    (hJ1 : CertA n m nb lv s1) (hcnt : s.count = 0) :
    ∃ lv1, LevelsOK s1.op s1.path s1.choices lv1 ∧ DA n nb rf r lv1 s1 := by
  obtain ⟨lv1, h1, h2, _⟩ := dfs_leaf_first_v hnb hA hD hlenm lv s s1 gh hI hlv hleaf hJ h hs1 hJ1 hcnt
  exact ⟨lv1, h1, _, h2⟩

end
end CanonF
