import Mamba.Lemmas.C06Folded
/-! C06: the `InducedSubgraph` view. -/
namespace Construct
open GraphSpec


/-! ### the `InducedSubgraph` view: `intersectionByIndex` -/

theorem sortedInsert_spec (x : Nat) : ∀ (r : List Nat), r.Pairwise (· < ·) →
    (sortedInsert x r).Pairwise (· < ·) ∧ ∀ i, i ∈ sortedInsert x r ↔ i = x ∨ i ∈ r
  | [], _ => by simp [sortedInsert]
  | y :: ys, h => by
    have h' := List.pairwise_cons.mp h
    unfold sortedInsert
    by_cases hxy : x < y
    · simp only [hxy, ↓reduceIte]
      refine ⟨?_, fun i => by simp⟩
      rw [List.pairwise_cons]
      refine ⟨?_, h⟩
      intro z hz
      simp only [List.mem_cons] at hz
      rcases hz with rfl | hz
      · exact hxy
      · have := h'.1 z hz; omega
    · by_cases hxe : x = y
      · subst hxe
        simp only [Nat.lt_irrefl, ↓reduceIte, beq_self_eq_true]
        exact ⟨h, fun i => by simp⟩
      · have hxe' : (x == y) = false := by simp [hxe]
        simp only [hxy, ↓reduceIte, hxe', Bool.false_eq_true]
        obtain ⟨ih1, ih2⟩ := sortedInsert_spec x ys h'.2
        refine ⟨?_, fun i => by simp only [List.mem_cons, ih2]; tauto⟩
        rw [List.pairwise_cons]
        refine ⟨?_, ih1⟩
        intro z hz
        rw [ih2] at hz
        rcases hz with rfl | hz
        · omega
        · exact h'.1 z hz

theorem intersectionByIndex_spec : ∀ (fuel : Nat) (a : List Nat) (b : List (Nat × Nat)) (r : List Nat),
    a.length + b.length ≤ fuel → a.Pairwise (· < ·) → b.Pairwise (fun p q => p.1 < q.1) → r.Pairwise (· < ·) →
    (intersectionByIndex fuel a b r).Pairwise (· < ·) ∧
      ∀ i, i ∈ intersectionByIndex fuel a b r ↔ i ∈ r ∨ ∃ y, (y, i) ∈ b ∧ y ∈ a
  | 0, a, b, r, hf, _, _, hr => by
    have ha : a = [] := by cases a <;> simp_all
    have hb : b = [] := by cases b <;> simp_all
    subst ha hb
    simp [intersectionByIndex, hr]
  | fuel + 1, [], b, r, _, _, _, hr => by simp [intersectionByIndex, hr]
  | fuel + 1, x :: a, [], r, _, _, _, hr => by simp [intersectionByIndex, hr]
  | fuel + 1, x :: a, (y, iy) :: b, r, hf, ha, hb, hr => by
    have ha' := List.pairwise_cons.mp ha
    have hb' := List.pairwise_cons.mp hb
    simp only [List.length_cons] at hf
    unfold intersectionByIndex
    by_cases hxy : x = y
    · subst hxy
      simp only [beq_self_eq_true, ↓reduceIte]
      obtain ⟨s1, s2⟩ := sortedInsert_spec iy r hr
      obtain ⟨i1, i2⟩ := intersectionByIndex_spec fuel a b (sortedInsert iy r) (by omega) ha'.2 hb'.2 s1
      refine ⟨i1, ?_⟩
      intro i
      rw [i2, s2]
      constructor
      · rintro ((rfl | h) | ⟨z, hz1, hz2⟩)
        · exact Or.inr ⟨x, by simp, by simp⟩
        · exact Or.inl h
        · exact Or.inr ⟨z, by simp [hz1], by simp [hz2]⟩
      · rintro (h | ⟨z, hz1, hz2⟩)
        · exact Or.inl (Or.inr h)
        · simp only [List.mem_cons, Prod.mk.injEq] at hz1 hz2
          rcases hz1 with ⟨rfl, rfl⟩ | hz1
          · exact Or.inl (Or.inl rfl)
          · rcases hz2 with rfl | hz2
            · have := hb'.1 _ hz1; simp only at this; omega
            · exact Or.inr ⟨z, hz1, hz2⟩
    · have hxy' : (x == y) = false := by simp [hxy]
      simp only [hxy', Bool.false_eq_true, ↓reduceIte]
      by_cases hgt : x > y
      · simp only [hgt, ↓reduceIte]
        obtain ⟨i1, i2⟩ := intersectionByIndex_spec fuel (x :: a) b r (by simp; omega) ha hb'.2 hr
        refine ⟨i1, ?_⟩
        intro i
        rw [i2]
        constructor
        · rintro (h | ⟨z, hz1, hz2⟩)
          · exact Or.inl h
          · exact Or.inr ⟨z, by simp [hz1], hz2⟩
        · rintro (h | ⟨z, hz1, hz2⟩)
          · exact Or.inl h
          · simp only [List.mem_cons, Prod.mk.injEq] at hz1
            rcases hz1 with ⟨rfl, rfl⟩ | hz1
            · simp only [List.mem_cons] at hz2
              rcases hz2 with rfl | hz2
              · omega
              · have := ha'.1 _ hz2; omega
            · exact Or.inr ⟨z, hz1, hz2⟩
      · simp only [hgt, ↓reduceIte]
        obtain ⟨i1, i2⟩ := intersectionByIndex_spec fuel a ((y, iy) :: b) r (by simp; omega) ha'.2 hb hr
        refine ⟨i1, ?_⟩
        intro i
        rw [i2]
        constructor
        · rintro (h | ⟨z, hz1, hz2⟩)
          · exact Or.inl h
          · exact Or.inr ⟨z, hz1, by simp [hz2]⟩
        · rintro (h | ⟨z, hz1, hz2⟩)
          · exact Or.inl h
          · simp only [List.mem_cons] at hz2
            rcases hz2 with rfl | hz2
            · simp only [List.mem_cons, Prod.mk.injEq] at hz1
              rcases hz1 with ⟨rfl, _⟩ | hz1
              · omega
              · have := hb'.1 _ hz1; simp only at this; omega
            · exact Or.inr ⟨z, hz1, hz2⟩


end Construct
