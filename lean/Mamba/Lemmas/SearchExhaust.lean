import Mamba.Lemmas.SearchRefine
namespace Search

variable {O : Oracle} {pre pr : DG → Bool}
variable {n : Nat} {K : Nat → Nat → Bool} {node : DG → Option Ans → Outcome (List DG)}

/-- from the second call of `Next` on: the graphs collected by `exhaust` are the pending work -/
theorem exhaust_rem (hfix : NodeFix O pre pr n K node) (fuel : Nat) :
    ∀ (lim : Nat) (s s' : State) (out : List DG), exhaust O pre pr fuel lim s = .ok (out, s') →
      s.first = false → 2 ≤ s.n → MInv n K (.step false) s →
      remM O pre pr n K node (.step false) s = .ok out
  | 0, _, _, _, h, _, _, _ => by simp [exhaust] at h
  | k + 1, s, s', out, h, hf, h2, hi => by
    simp only [exhaust] at h
    have hnext : next O pre pr fuel s = run O pre pr fuel (.outer true false) s := by
      unfold next
      have h0 : ¬ s.n = 0 := by omega
      have h1 : ¬ s.n = 1 := by omega
      simp [h0, h1, hf]
    rw [hnext] at h
    split at h
    · rename_i s1 hrun
      split at h
      · rename_i out' s2 hex
        cases h
        have hr := (run_rem hfix fuel _ _ _ _ hrun (hi.of_eff rfl)).1 rfl
        have hp := (run_inv O pre pr fuel _ _ _ _ hrun).1
        have ih := exhaust_rem hfix fuel k s1 _ _ hex (hp.2.2.2.trans hf) (hp.1 ▸ h2) hr.1
        exact hr.2 _ ih
      · cases h
      · cases h
    · rename_i s1 hrun
      cases h
      exact (run_rem hfix fuel _ _ _ _ hrun (hi.of_eff rfl)).2 rfl
    · cases h
    · cases h

/-- the one-vertex graph the search starts from -/
def K1 : DG := DG.empty.single

/-- **the iterator lists the recursive traversal**: for `n ≥ 2`, what `exhaust` collects from `WithPruning(n, a, m)`
is `subNode` of the one-vertex graph (or nothing if that graph is pruned) -/
theorem exhaust_init (n a m : Nat) (hn : 2 ≤ n) (fuel lim : Nat) {out : List DG} {s' : State}
    (h : exhaust O pre pr fuel lim (init n a m) = .ok (out, s')) :
    (if pre K1 || pr K1 then Outcome.ok [] else subNode O pre pr n (skipAM n a m) (n - 1) K1 none) = .ok out := by
  cases lim with
  | zero => simp [exhaust] at h
  | succ k =>
    simp only [exhaust] at h
    have h0 : ¬ n = 0 := by omega
    have h1 : ¬ n = 1 := by omega
    have hnext : next O pre pr fuel (init n a m) =
        (if pre K1 || pr K1 then .ok ({ init n a m with g := K1, first := false }, false)
         else run O pre pr fuel (.outer false false) { init n a m with g := K1, first := false }) := by
      unfold next
      simp [init, h0, h1, K1]
    rw [hnext] at h
    by_cases hpr : (pre K1 || pr K1) = true
    · simp only [hpr, if_true] at h ⊢
      cases h; rfl
    · simp only [hpr, Bool.false_eq_true, if_false] at h ⊢
      set s1 : State := { init n a m with g := K1, first := false } with hs1
      have hi : MInv n (skipAM n a m) (.outer false false) s1 := by
        refine ⟨rfl, fun i L => rfl, ?_, ?_, fun hh => by simp [Mode.eff] at hh, ?_⟩
        · exact (single_sized ⟨rfl, rfl⟩ (Nat.zero_le _)).1
        · show 1 ≤ n; omega
        · rfl
      have hfix := nodeX_fix O pre pr n (skipAM n a m)
      have hrem : remM O pre pr n (skipAM n a m) (nodeX O pre pr n (skipAM n a m)) (.outer false false) s1 = .ok out := by
        split at h
        · rename_i t hrun
          split at h
          · rename_i out' s2 hex
            cases h
            have hr := (run_rem hfix fuel _ _ _ _ hrun hi).1 rfl
            have hp := (run_inv O pre pr fuel _ _ _ _ hrun).1
            have ih := exhaust_rem hfix fuel k t _ _ hex (hp.2.2.2.trans rfl) (hp.1 ▸ hn) hr.1
            exact hr.2 _ ih
          · cases h
          · cases h
        · rename_i t hrun
          cases h
          exact (run_rem hfix fuel _ _ _ _ hrun hi).2 rfl
        · cases h
        · cases h
      -- nothing else is pending at the root
      simp only [remM, remStep] at hrem
      have he : topList s1.choices = [] := rfl
      simp only [he, if_true] at hrem
      have hx : nodeX O pre pr n (skipAM n a m) s1.g s1.cache = subNode O pre pr n (skipAM n a m) (n - 1) K1 none := rfl
      rw [hx] at hrem
      cases hq : subNode O pre pr n (skipAM n a m) (n - 1) K1 none with
      | ok o => simp [hq] at hrem; rw [hrem]
      | panic => simp [hq] at hrem
      | outOfFuel => simp [hq] at hrem

end Search
