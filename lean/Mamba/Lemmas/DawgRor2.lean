import Mamba.Lemmas.DawgRor
/-! `replaceOrRegister` on a spine segment. -/
namespace Dawg

/-- the part of `replaceOrRegister` after the recursive call -/
def rorCont (t lc : Nat) (r : Outcome (Heap × List Nat)) : Outcome (Heap × List Nat) :=
  match r with
  | .ok (h1, reg1) =>
    match getNode h1 lc with
    | .ok lcn =>
      match findEquiv h1 lcn reg1 with
      | .ok (some u) =>
        match getNode h1 t with
        | .ok tn1 => .ok (h1.setIfInBounds t { tn1 with links := tn1.links.dropLast ++ [u] }, reg1)
        | .panic => .panic
        | .outOfFuel => .outOfFuel
      | .ok none => .ok (h1, reg1 ++ [lc])
      | .panic => .panic
      | .outOfFuel => .outOfFuel
    | .panic => .panic
    | .outOfFuel => .outOfFuel
  | .panic => .panic
  | .outOfFuel => .outOfFuel

theorem replaceOrRegister_succ (fuel : Nat) (h : Heap) (t : Nat) (register : List Nat) (tn lcn0 : Node) (lc : Nat)
    (ht : h[t]? = some tn) (hl : tn.links.getLast? = some lc) (hlc : h[lc]? = some lcn0) :
    replaceOrRegister (fuel + 1) h t register =
      rorCont t lc (if lcn0.links.length ≠ 0 then replaceOrRegister fuel h lc register else .ok (h, register)) := by
  simp only [replaceOrRegister, getNode_of_some ht, hl, getNode_of_some hlc, rorCont]
  rfl

/-- the continuation, once the last child `s` of `t` has only registered children -/
theorem rorCont_spec (h1 : Heap) (R1 : List Nat) (t s c k : Nat) (L : List Word) (tn sn : Node) (ls qs : List Nat)
    (htn : h1[t]? = some tn) (htR : t ∉ R1) (hts : t ≠ s) (hs0 : s ≠ 0)
    (hsort : L.Pairwise (· < ·)) (hfin : tn.final = true ↔ [] ∈ L) (hnum : tn.numWords = L.length + dlt k)
    (hlab : tn.labels.Pairwise (· < ·)) (hlabs : tn.labels = ls ++ [c]) (hlinks : tn.links = qs ++ [s])
    (hlen : ls.length = qs.length) (hmem : ∀ c', c' ∈ tn.labels ↔ sub L c' ≠ [])
    (hkids : ∀ (j c' q : Nat), ls[j]? = some c' → qs[j]? = some q → q ∈ R1 ∧ Rep h1 q (sub L c'))
    (hsn : NodeRep h1 R1 s (sub L c) 0 sn) (hne : sub L c ≠ []) (hreg : RegOK h1 R1) :
    ∃ h2 R2 n2, rorCont t s (.ok (h1, R1)) = .ok (h2, R2) ∧ NodeRep h2 R2 t L (dlt k) n2 ∧ RegOK h2 R2 ∧
      h2.size = h1.size ∧ (∀ i, i ≠ t → h2[i]? = h1[i]?) ∧ (∀ u ∈ R1, u ∈ R2) ∧ (∀ u ∈ R2, u ∈ R1 ∨ u = s) ∧
      (∃ n2', h2[t]? = some n2' ∧ n2'.id = tn.id) := by
  have htlt : t < h1.size := (Array.getElem?_eq_some_iff.1 htn).1
  have hregl : ∀ u ∈ R1, ∃ un, h1[u]? = some un ∧ un.labels.length = un.links.length := by
    intro u hu
    obtain ⟨Lu, hLu, _⟩ := hreg.rep u hu
    exact hLu.lens
  simp only [rorCont, getNode_of_some hsn.get]
  rcases findEquiv_spec h1 sn hsn.lens R1 hregl with ⟨u, un, hfe, huR, hun, heq⟩ | ⟨hfe, hnone⟩
  · -- replace the last child by the registered equivalent node `u`
    rw [hfe]
    simp only [getNode_of_some htn]
    obtain ⟨Lu, hLu, _⟩ := hreg.rep u huR
    have hLu' : Lu = sub L c := (Rep.eq_of_equiv hsn.get hun heq hsn.toRep hLu).symm
    subst hLu'
    have hdrop : tn.links.dropLast = qs := by rw [hlinks]; simp
    let n2 : Node := { tn with links := qs ++ [u] }
    have hag : AgreeOn h1 (h1.setIfInBounds t n2) R1 := by
      intro x hx
      rw [Array.getElem?_setIfInBounds_ne (fun (h : t = x) => htR (by rw [h]; exact hx))]
    refine ⟨h1.setIfInBounds t n2, R1, n2, by rw [hdrop], ?_, hreg.frame hag, by simp, ?_, fun x hx => hx,
      fun x hx => Or.inl hx, ⟨n2, by rw [Array.getElem?_setIfInBounds_self]; simp [htlt], rfl⟩⟩
    · refine ⟨by rw [Array.getElem?_setIfInBounds_self]; simp [htlt], htR, hsort, hfin, hnum, hlab, ?_, hmem, ?_⟩
      · show tn.labels.length = (qs ++ [u]).length
        rw [hlabs]; simp [hlen]
      · intro j c' q hj hq
        change (qs ++ [u])[j]? = some q at hq
        rw [hlabs] at hj
        by_cases hjl : j < ls.length
        · rw [List.getElem?_append_left hjl] at hj
          rw [List.getElem?_append_left (by omega)] at hq
          obtain ⟨h3, h4⟩ := hkids j c' q hj hq
          exact ⟨h3, h4.frame hreg.closed hag h3⟩
        · have hjeq : j = ls.length := by
            have := (List.getElem?_eq_some_iff.1 hj).1
            simp at this; omega
          subst hjeq
          rw [List.getElem?_append_right (Nat.le_refl _)] at hj
          rw [hlen, List.getElem?_append_right (Nat.le_refl _)] at hq
          simp at hj hq
          subst hj; subst hq
          exact ⟨huR, hLu.frame hreg.closed hag huR⟩
    · intro i hi
      rw [Array.getElem?_setIfInBounds_ne (Ne.symm hi)]
  · -- register `s`
    rw [hfe]
    have hsR : s ∉ R1 := hsn.notReg
    refine ⟨h1, R1 ++ [s], tn, rfl, ?_, ?_, rfl, fun _ _ => rfl, fun x hx => List.mem_append_left _ hx, ?_, ⟨tn, htn, rfl⟩⟩
    · refine ⟨htn, ?_, hsort, hfin, hnum, hlab, ?_, hmem, ?_⟩
      · rw [List.mem_append, List.mem_singleton]
        rintro (h3 | h3)
        · exact htR h3
        · exact hts h3
      · rw [hlabs, hlinks]; simp [hlen]
      · intro j c' q hj hq
        rw [hlabs] at hj
        rw [hlinks] at hq
        by_cases hjl : j < ls.length
        · rw [List.getElem?_append_left hjl] at hj
          rw [List.getElem?_append_left (by omega)] at hq
          obtain ⟨h3, h4⟩ := hkids j c' q hj hq
          exact ⟨List.mem_append_left _ h3, h4⟩
        · have hjeq : j = ls.length := by
            have := (List.getElem?_eq_some_iff.1 hj).1
            simp at this; omega
          subst hjeq
          rw [List.getElem?_append_right (Nat.le_refl _)] at hj
          rw [hlen, List.getElem?_append_right (Nat.le_refl _)] at hq
          simp at hj hq
          subst hj; subst hq
          exact ⟨by simp, hsn.toRep⟩
    · refine ⟨?_, ?_, ?_, ?_⟩
      · intro x hx
        rw [List.mem_append, List.mem_singleton] at hx
        rcases hx with hx | rfl
        · exact hreg.rep x hx
        · exact ⟨_, hsn.toRep, hne⟩
      · intro x hx n hn q hq
        rw [List.mem_append, List.mem_singleton] at hx
        rcases hx with hx | rfl
        · exact List.mem_append_left _ (hreg.closed x hx n hn q hq)
        · rw [hsn.get] at hn; cases hn
          obtain ⟨j, hj, hjq⟩ := List.getElem_of_mem hq
          have hj' : j < sn.labels.length := by rw [hsn.lens]; exact hj
          have := (hsn.kids j _ q (List.getElem?_eq_getElem hj') (by rw [← hjq]; exact List.getElem?_eq_getElem hj)).1
          exact List.mem_append_left _ this
      · intro x hx y hy nx ny hnx hny h3 h4 h5
        rw [List.mem_append, List.mem_singleton] at hx hy
        rcases hx with hx | rfl
        · rcases hy with hy | rfl
          · exact hreg.distinct x hx y hy nx ny hnx hny h3 h4 h5
          · rw [hsn.get] at hny; cases hny
            exact absurd ⟨h3.symm, h4.symm, h5.symm⟩ (hnone x hx nx hnx)
        · rcases hy with hy | rfl
          · rw [hsn.get] at hnx; cases hnx
            exact absurd ⟨h3, h4, h5⟩ (hnone y hy ny hny)
          · rfl
      · rw [List.mem_append, List.mem_singleton]
        rintro (h3 | h3)
        · exact hreg.nz h3
        · exact hs0 h3.symm
    · intro x hx
      rw [List.mem_append, List.mem_singleton] at hx
      exact hx

theorem labels_nil_of_single_nil {h : Heap} {R : List Nat} {s δ : Nat} {sn : Node}
    (hsn : NodeRep h R s [[]] δ sn) : sn.labels = [] ∧ sn.links = [] := by
  have h1 : sn.labels = [] := by
    cases hl : sn.labels with
    | nil => rfl
    | cons a l =>
      have := (hsn.mem a).1 (by rw [hl]; exact List.mem_cons_self)
      simp [sub_cons_nil, sub_nil] at this
  refine ⟨h1, ?_⟩
  have := hsn.lens
  rw [h1] at this
  exact List.eq_nil_of_length_eq_zero this.symm

theorem rOR_spec : ∀ (fuel : Nat) (h : Heap) (R : List Nat) (k t s c : Nat) (sp : List Nat) (v : Word) (L : List Word),
    k ≤ 1 → Spine h R k (t :: s :: sp) (c :: v) L [[]] → (t :: s :: sp).Nodup → RegOK h R →
    (s :: sp).length ≤ fuel →
    ∃ h2 R2 n2, replaceOrRegister fuel h t R = .ok (h2, R2) ∧ NodeRep h2 R2 t L (dlt k) n2 ∧ RegOK h2 R2 ∧
      h2.size = h.size ∧ (∀ i, i ∉ t :: s :: sp → h2[i]? = h[i]?) ∧ (∀ u ∈ R, u ∈ R2) ∧
      (∀ u ∈ R2, u ∈ R ∨ u ∈ s :: sp) ∧ (HeapIds h → HeapIds h2) := by
  intro fuel
  induction fuel with
  | zero => intro h R k t s c sp v L _ _ _ _ hlen; simp at hlen
  | succ f ih =>
    intro h R k t s c sp v L hk hsp hnd hreg hfuel
    cases hsp with
    | @node _ _ _ _ _ _ _ _ tn ls qs htn htR hs0 hsort hfin hnum hlab hlabs hlinks hlen hmem hkids hsub =>
      have hk0 : k - 1 = 0 := by omega
      rw [hk0] at hsub
      have hlast : tn.links.getLast? = some s := by rw [hlinks]; simp
      have hvalid := hsub.valid
      have hne : sub L c ≠ [] := List.ne_nil_of_mem hsub.word_mem
      rw [List.nodup_cons] at hnd
      have hts : t ≠ s := fun h1 => hnd.1 (h1 ▸ List.mem_cons_self)
      have hagR : ∀ (h1 : Heap), (∀ i, i ∉ s :: sp → h1[i]? = h[i]?) → AgreeOn h h1 R := by
        intro h1 hfr u hu
        exact hfr u (fun hmem => (hvalid u hmem).2 hu)
      -- state after the (possible) recursive call
      have hmid : ∃ h1 R1 sn1 sn0, h[s]? = some sn0 ∧
          (if sn0.links.length ≠ 0 then replaceOrRegister f h s R else .ok (h, R)) = .ok (h1, R1) ∧
          NodeRep h1 R1 s (sub L c) 0 sn1 ∧ RegOK h1 R1 ∧ h1.size = h.size ∧
          (∀ i, i ∉ s :: sp → h1[i]? = h[i]?) ∧ (∀ u ∈ R, u ∈ R1) ∧ (∀ u ∈ R1, u ∈ R ∨ u ∈ sp) ∧
          (HeapIds h → HeapIds h1) := by
        generalize hLs : sub L c = Ls at hsub
        generalize hLe : ([[]] : List Word) = Le at hsub
        cases hsub with
        | @last _ _ _ sn hsn =>
          subst hLe
          obtain ⟨_, hl2⟩ := labels_nil_of_single_nil hsn
          refine ⟨h, R, sn, sn, hsn.get, by simp [hl2], by simpa [dlt] using hsn, hreg, rfl, fun _ _ => rfl,
            fun u hu => hu, fun u hu => Or.inl hu, fun hi => hi⟩
        | @node _ _ s' _ sp' _ _ _ sn ls' qs' hsn hsR hs0' hsort' hfin' hnum' hlab' hlabs' hlinks' hlen' hmem' hkids' hsub' =>
          subst hLe
          have hsp2 : Spine h R 0 (s :: s' :: sp') (_ :: _) Ls [[]] :=
            Spine.node hsn hsR hs0' hsort' hfin' hnum' hlab' hlabs' hlinks' hlen' hmem' hkids' hsub'
          obtain ⟨h1, R1, n1, hres, hn1, hreg1, hsz1, hfr1, hsub1, hsup1, hids1⟩ :=
            ih h R 0 s s' _ sp' _ Ls (by omega) hsp2 hnd.2 hreg (by simp at hfuel ⊢; omega)
          refine ⟨h1, R1, n1, sn, hsn, ?_, by simpa [dlt] using hn1, hreg1, hsz1, hfr1, hsub1, hsup1, hids1⟩
          rw [if_pos (by rw [hlinks']; simp)]
          exact hres
      obtain ⟨h1, R1, sn1, sn0, hsn0, hres1, hsn1, hreg1, hsz1, hfr1, hsub1, hsup1, hids1⟩ := hmid
      have htn1 : h1[t]? = some tn := by
        rw [hfr1 t hnd.1]; exact htn
      have htR1 : t ∉ R1 := by
        intro hmem
        rcases hsup1 t hmem with h3 | h3
        · exact htR h3
        · exact hnd.1 (List.mem_cons_of_mem _ h3)
      have hkids1 : ∀ (j c' q : Nat), ls[j]? = some c' → qs[j]? = some q → q ∈ R1 ∧ Rep h1 q (sub L c') := by
        intro j c' q hj hq
        obtain ⟨h3, h4⟩ := hkids j c' q hj hq
        exact ⟨hsub1 q h3, h4.frame hreg.closed (hagR h1 hfr1) h3⟩
      obtain ⟨h2, R2, n2, hres2, hn2, hreg2, hsz2, hfr2, hsub2, hsup2, n2', hn2', hid2⟩ :=
        rorCont_spec h1 R1 t s c k L tn sn1 ls qs htn1 htR1 hts hs0 hsort hfin hnum hlab hlabs hlinks hlen hmem
          hkids1 hsn1 hne hreg1
      refine ⟨h2, R2, n2, ?_, hn2, hreg2, by rw [hsz2, hsz1], ?_, fun u hu => hsub2 u (hsub1 u hu), ?_, ?_⟩
      · rw [replaceOrRegister_succ f h t R tn sn0 s htn hlast hsn0, hres1]
        exact hres2
      · intro i hi
        rw [List.mem_cons, not_or] at hi
        rw [hfr2 i hi.1, hfr1 i hi.2]
      · intro u hu
        rcases hsup2 u hu with h3 | h3
        · rcases hsup1 u h3 with h4 | h4
          · exact Or.inl h4
          · exact Or.inr (List.mem_cons_of_mem _ h4)
        · exact Or.inr (h3 ▸ List.mem_cons_self)
      · intro hids i n' hn'
        by_cases hit : i = t
        · subst hit
          rw [hn2'] at hn'; cases hn'
          rw [hid2]; exact hids i tn htn
        · rw [hfr2 i hit] at hn'
          exact hids1 hids i n' hn'

end Dawg
