import Mamba.Lemmas.CanonFOrbBase
import Mamba.Lemmas.CanonFOrbTree
import Mamba.Lemmas.CanonFOrbRel
/-!
# Orbit completeness (A-layer) at a leaf whose certificate equals that of the first leaf (`orb_leaf_eqfirst`)

The orbit loop merges `firstLeafOrbits` position-wise along `transport n oF order` (`orel_orbitLoop`): `ORel` grows and
relates every vertex to its image. Heuristic 1 jumps back to the deepest common ancestor with the first-leaf path; the
child of that ancestor on the current path is `ACov` because the (processed) child on the first-leaf path is
(`FrameAuxA1.abF`, `acov_backjump`). The case analysis is that of `dfs_leaf_eqfirst_v` (`CanonFDfsLeafEqFirst.lean`).
-/
namespace CanonF

theorem oe_aut_lt {nb : Nbrs} {n : Nat} {γ : List Nat} (h : IsAutL nb n γ) {x : Nat} (hx : x < n) : γ.getD x 0 < n := by
  have hl : γ.length = n := by simpa using h.1.length_eq
  have hm : γ.getD x 0 ∈ γ := by
    rw [List.getD_eq_getElem?_getD, List.getElem?_eq_getElem (by omega)]
    exact List.getElem_mem _
  simpa using h.1.mem_iff.1 hm

theorem oe_cov_drop {n : Nat} {nb : Nbrs} {rf : Nat} {r : IR.St} {gh : Gh} {s : LS} {vs : List Nat} (j : Nat)
    {path choices : List Nat} {lv : List (Nat × Nat)} (h : ACovFrames n nb rf r gh s vs false path choices lv) :
    ACovFrames n nb rf r gh s vs false (path.drop j) (choices.drop j) (lv.drop j) := by
  rcases Nat.eq_zero_or_pos j with h0 | hpos
  · subst h0; simpa using h
  · exact ACovFrames.drop j _ _ _ hpos h

theorem oe_aux_drop {n : Nat} {nb : Nbrs} {rf : Nat} {r : IR.St} {gh : Gh} {s : LS} {vs : List Nat} (j : Nat)
    {path choices : List Nat} {lv : List (Nat × Nat)} (h : FrameAuxA n nb rf r gh s vs false path choices lv) :
    FrameAuxA n nb rf r gh s vs false (path.drop j) (choices.drop j) (lv.drop j) := by
  rcases Nat.eq_zero_or_pos j with h0 | hpos
  · subst h0; simpa using h
  · exact FrameAuxA.drop j _ _ _ hpos h

section
variable {n m : Nat} {nb : Nbrs} {rf : Nat} {r : IR.St}
  (hnb : NbOK nb n) (hA : IR.InvA (irG n nb) r) (hD : IR.InvD (irG n nb) r)

include hnb hA hD in
/-- Heuristic 1 against the first leaf at the frame of the common ancestor (A-layer twin of `le_child_complete`): either
the current child is the child on the first-leaf path, or it is `ACov` because the child on the first-leaf path (already
processed) is -/
theorem oe_child_acov {gh : Gh} {s : LS} {vs o2 : List Nat} {p c st sz : Nat} {ps cs : List Nat}
    {ls : List (Nat × Nat)} {lF : Array Nat} {certF : List Nat} {R : Nat → Nat → Prop}
    (htr : ∀ u v w, u < n → v < n → w < n → R u v → R v w → R u w)
    (hcnt : 0 < s.count) (hG : GlobalInv n nb rf r gh s)
    (hp : IR.IsPath (irG n nb) rf r vs) (ht2 : IR.target (irG n nb) (IR.nodeAt (irG n nb) rf r vs) = none)
    (hc2 : (IR.nodeAt (irG n nb) rf r vs).c = IR.tab n (fun v => o2.idxOf v)) (ho2 : o2.Perm (List.range n))
    (hcert : s.firstLeaf.toList = certPos nb o2 n)
    (hfr : FramesOK n nb rf r vs (p :: ps) (c :: cs) ((st, sz) :: ls)) (hcp : c = st + p)
    (hfa : FrameAux1 n nb rf r gh s vs false ps c st sz) (hk : ps.length < vs.length)
    (hpref : hasPrefix s.flPath.toList ps.reverse = true)
    (hRt : ∀ x, x < n → R x ((transport n gh.oF o2).getD x 0))
    (hab : vs.take ps.length = gh.vsF.take ps.length → ∀ i w, c - st < i →
      (cellL n nb rf r vs ps.length st)[i]? = some w → gh.vsF[ps.length]? = some w →
      ACov n nb rf lF certF R (IR.childSt (irG n nb) rf (nodeL n nb rf r vs ps.length) st w)) :
    (s.flPath.toList[ps.length]? = some p ∧ vs.take (ps.length + 1) = gh.vsF.take (ps.length + 1)) ∨
    ∀ w, (cellL n nb rf r vs ps.length st)[c - st]? = some w →
      ACov n nb rf lF certF R (IR.childSt (irG n nb) rf (nodeL n nb rf r vs ps.length) st w) := by
  simp only [FramesOK] at hfr
  obtain ⟨g1, g2, g3, gt⟩ := hfr
  have hI := frames_idxPath ps cs ls gt (by omega)
  have L := hG.first hcnt
  obtain ⟨hpre, hkle⟩ := prefix_of_hasPrefix hI hp (by omega) L.path L.leaf L.idx hpref
  have hnode : nodeL n nb rf r vs ps.length = nodeL n nb rf r gh.vsF ps.length := nodeL_congr hpre
  have hklt : ps.length < gh.vsF.length := by
    rcases Nat.lt_or_ge ps.length gh.vsF.length with h | h
    · exact h
    · have e : ps.length = gh.vsF.length := by omega
      have : nodeL n nb rf r gh.vsF ps.length = IR.nodeAt (irG n nb) rf r gh.vsF := by
        unfold nodeL; rw [e, List.take_length]
      rw [hnode, this, L.leaf] at g1
      cases g1
  obtain ⟨t, jj, v, a1, a2, a3, a4⟩ := L.idx ps.length hklt
  rw [← hnode, g1] at a1
  injection a1 with a1
  subst a1
  have hcell : cellL n nb rf r vs ps.length st = cellL n nb rf r gh.vsF ps.length st := cellL_congr hpre
  rw [← hcell] at a3
  obtain ⟨g3a, g3b⟩ := g3 hk
  have hcst : c - st = p := by omega
  rcases Nat.lt_trichotomy jj p with hlt | heq | hgt
  · exact absurd ⟨hpre, a2⟩ (hfa.futF hcnt jj v (by omega) a3)
  · left
    subst heq
    refine ⟨a4, ?_⟩
    rw [List.take_add_one, List.take_add_one, hpre, g3a, a3, a2]
  · right
    intro w hw
    rw [hcst, ← g3a] at hw
    have hb := hab hpre jj v (by omega) a3 a2
    exact acov_backjump hnb hA hD htr L.path L.leaf L.col L.perm hp ht2 hc2 ho2
      (by rw [← L.cert, hcert]) hpre.symm a2 hw g1 hRt hb

set_option linter.unusedVariables false in
include hnb hA hD in
theorem orb_leaf_eqfirst (gh : Gh) (lv : List (Nat × Nat)) (s s1 : LS) (hI : MInv n m nb s)
    (hlv : LevelsOK s.op s.path s.choices lv) (hleaf : s.op.binDividers.len = n)
    (hJ : CertM n m nb lv false s) (hDv : DNodev n nb rf r gh lv s) (hAv : ANodev n nb rf r gh lv s)
    (hs1 : leafNode n m s = .ok s1) (hJ1 : CertA n m nb lv s1)
    (hc1 : (compare s.op.value.toList s.currentBest.toList == 1 || s.count + 1 == 1) = false)
    (hc0 : (compare s.op.value.toList s.currentBest.toList == 0) = false)
    (hcf : (compare s.op.value.toList s.firstLeaf.toList == 0) = true)
    (lv1 : List (Nat × Nat)) (k : Nat) (hl1 : LevelsOK s1.op s1.path s1.choices lv1)
    (hDv' : DAv n nb rf r { gh with vs := gh.vs.take k } lv1 s1) :
    AAv n nb rf r { gh with vs := gh.vs.take k } lv1 s1 := by
  obtain ⟨hw, hG, hcov, haux, hoff⟩ := hDv
  obtain ⟨hGA, hcovA, hauxA⟩ := hAv
  have hw' := hw
  obtain ⟨h1, h2, h3, h4, h5, h6, h7⟩ := hw'
  have hc1' := hc1
  simp only [Bool.or_eq_false_iff, beq_eq_false_iff_ne, ne_eq] at hc1'
  have hpos : 0 < s.count := by omega
  -- the current leaf
  obtain ⟨hvc, hspl⟩ := leaf_clean hI.core.part hleaf (hJ.2.2.1 rfl)
  have hval : s.op.value.toList = certPos nb s.op.order.toList n := by rw [← hspl]; exact hvc.val
  have heq : s.op.value.toList = s.firstLeaf.toList := (compare_eq_zero _ _).1 (by simpa using hcf)
  have hm : Match n s.op (nodeL n nb rf r gh.vs gh.vs.length) :=
    (h4 _ (Nat.le_refl _)).toMatch hI.core.part hI.core.age (by omega) h7
  have hnode : nodeL n nb rf r gh.vs gh.vs.length = IR.nodeAt (irG n nb) rf r gh.vs := by
    unfold nodeL; rw [List.take_length]
  rw [hnode] at hm
  have ht2 := target_none (nb := nb) hI.core.part hm hleaf
  have hc2 : (IR.nodeAt (irG n nb) rf r gh.vs).c = IR.tab n (fun v => s.op.order.toList.idxOf v) := by
    rw [hm.col, leaf_colOf hI.core.part hleaf]
  have LF := hG.first hpos
  have hcertF : s.firstLeaf.toList = certPos nb s.op.order.toList n := by rw [← heq, hval]
  have hd0 : 0 < s.path.length := by
    rcases Nat.eq_zero_or_pos s.path.length with h0 | h0
    · exfalso
      have hvs : gh.vs = [] := List.eq_nil_of_length_eq_zero (by omega)
      apply (hoff hpos).1
      rw [hvs]; rfl
    · exact h0
  -- the leaf branch
  obtain ⟨flO, merges, gens', ngens', hloop, hrec, hbj⟩ := le_leaf_unfold hs1 hc1 hc0 hcf
  obtain ⟨rr, op', hidx, hrr, hd, hs'⟩ := le_backJump_shape hbj
  dsimp only at hidx hrr hd hs'
  obtain ⟨l1, l2⟩ := LevelsOK_length _ _ _ hlv
  obtain ⟨j, hj⟩ : ∃ j, j = s.path.length - rr := ⟨_, rfl⟩
  rw [← hj] at hd hs'
  rw [show j + s.choices.length - s.path.length = j by omega] at hs'
  have eop : s1.op = op' := by rw [hs']
  have epath : s1.path = s.path.drop j := by rw [hs']
  have ech : s1.choices = s.choices.drop j := by rw [hs']
  have ecount : s1.count = s.count + 1 := by rw [hs']
  have ecb : s1.currentBest = s.currentBest := by rw [hs']
  have efl : s1.firstLeaf = s.firstLeaf := by rw [hs']
  have ebp : s1.bestPerm = s.bestPerm := by rw [hs']
  have eflp : s1.flPath = s.flPath := by rw [hs']
  have eflo : s1.flOrbits = flO := by rw [hs']
  have egens : s1.gens = gens' := by rw [hs']
  have engens : s1.ngens = ngens' := by rw [hs']
  have hjd : j < s.path.length := by omega
  obtain ⟨q1, q2, q3, q4, _⟩ := deageTimes_spec (StepQ.trivial n nb s.currentBest s.firstLeaf) j s.op op'
    hI.core.part hI.core.age (by rw [hI.age]; omega) trivial hd
  have hlvd := LevelsOK_drop j _ _ _ hlv
  -- `lv1` is `lv.drop j`
  have hlv1 : lv1 = lv.drop j := by
    apply LevelsOK_unique _ _ _ _ hl1
    rw [eop, epath, ech]
    apply LevelsOK_frame q4 _ _ _ _ hlvd
    simp only [List.length_drop]; rw [hI.age]; omega
  -- the frame of the common ancestor
  obtain ⟨p, ps, hpd⟩ : ∃ p ps, s.path.drop j = p :: ps := by
    cases hx : s.path.drop j with
    | nil => have := congrArg List.length hx; simp at this; omega
    | cons p ps => exact ⟨p, ps, rfl⟩
  have hpsl : ps.length + 1 = s.path.length - j := by
    have := congrArg List.length hpd; simp at this; omega
  rw [hpd] at hlvd
  obtain ⟨c, cs, st, sz, ls, hcd, hld, hcp⟩ := le_levelsOK_path_ne hlvd
  -- `k` is the level of that frame
  have hk : k = ps.length := by
    have := hDv'.1.2.1
    rw [epath, hpd] at this
    rcases this with h0 | h0
    · cases h0
    · simp only [List.length_take, List.length_cons] at h0
      omega
  subst hk
  have hfr : FramesOK n nb rf r gh.vs (p :: ps) (c :: cs) ((st, sz) :: ls) := by
    have := h5.drop j; rwa [hpd, hcd, hld] at this
  have hfa : FrameAux n nb rf r gh s gh.vs false (p :: ps) (c :: cs) ((st, sz) :: ls) := by
    have := le_aux_drop j haux; rwa [hpd, hcd, hld] at this
  have hfaA : FrameAuxA n nb rf r gh s gh.vs false (p :: ps) (c :: cs) ((st, sz) :: ls) := by
    have := oe_aux_drop j hauxA; rwa [hpd, hcd, hld] at this
  have hcovd : ACovFrames n nb rf r gh s gh.vs false (p :: ps) (c :: cs) ((st, sz) :: ls) := by
    have := oe_cov_drop j hcovA; rwa [hpd, hcd, hld] at this
  -- the index path
  have hrev : s.path.reverse = ps.reverse ++ p :: (s.path.take j).reverse := by
    conv_lhs => rw [← List.take_append_drop j s.path, hpd]
    simp
  have hsem := le_h1Index_sem _ _ _ _ _ hidx
  simp only [List.length_reverse, Nat.zero_add, Nat.zero_le, true_implies] at hsem
  have hagree : ∀ t, t < ps.length → s.flPath.toList[t]? = ps.reverse[t]? := by
    intro t ht
    have e : s.path.reverse.getD t 0 = ps.reverse[t]?.getD 0 := by
      rw [List.getD_eq_getElem?_getD, hrev, List.getElem?_append_left (by simpa using ht)]
    have e' : ps.reverse[t]? = some (ps.reverse[t]?.getD 0) := by
      rw [List.getElem?_eq_getElem (by simpa using ht)]; rfl
    rw [e', ← e]
    rcases hsem with ⟨a1, a2⟩ | ⟨a1, a2, a3, a4⟩
    · exact a2 t (by omega)
    · exact a3 t (by omega)
  have hpref : hasPrefix s.flPath.toList ps.reverse = true :=
    le_hasPrefix_of (fun t ht => hagree t (by simpa using ht))
  have hpk : s.path.reverse.getD ps.length 0 = p := by
    rw [List.getD_eq_getElem?_getD, hrev, List.getElem?_append_right (by simp)]
    simp
  -- the orbit loop
  obtain ⟨o1, o2, o3, o4, o5⟩ := orel_orbitLoop (hJ.1.orb hpos).1 hJ.1.orbSz.1 hI.core.part.perm hI.core.part.wfOrder
    hI.core.part.lenOrder LF.perm LF.inv hloop
  have hR : ∀ a b, a < n → b < n → ORel s a b → ORel s1 a b := by
    intro a b ha hb hab
    unfold ORel at hab ⊢
    rw [eflo]; exact o3 a b ha hb hab
  have hRt : ∀ x, x < n → ORel s1 x ((transport n gh.oF s.op.order.toList).getD x 0) := by
    intro x hx
    unfold ORel
    rw [eflo]; exact o5 x hx
  have htr : ∀ u v w, u < n → v < n → w < n → ORel s1 u v → ORel s1 v w → ORel s1 u w :=
    fun _ _ _ _ _ _ h h' => ORel.trans h h'
  have hpos1 : 0 < s1.count := by omega
  -- the current child of that frame is covered
  have hcompA : ∀ w, (cellL n nb rf r gh.vs ps.length st)[c - st]? = some w →
      ACov n nb rf (lFof n gh) s1.firstLeaf.toList (ORel s1)
        (IR.childSt (irG n nb) rf (nodeL n nb rf r gh.vs ps.length) st w) := by
    rcases oe_child_acov hnb hA hD (lF := lFof n gh) (certF := s1.firstLeaf.toList) htr hpos hG h1 ht2 hc2
      hI.core.part.perm hcertF hfr hcp hfa.head (by omega) hpref hRt
      (fun hpre i w hi hw hx => by
        rw [efl]
        exact acovb_mono hR (hfaA.head.abF hpos hpre i w (by simp only [Bool.false_eq_true, if_false]; exact hi) hw hx))
      with ⟨hfl, htk⟩ | hcomp
    · exfalso
      rcases hsem with ⟨a1, a2⟩ | ⟨a1, a2, a3, rv, a4, a5⟩
      · apply (hoff hpos).1
        have : ps.length + 1 = gh.vs.length := by omega
        rw [this] at htk
        rw [← htk, List.take_length]
      · rw [show rr - 1 = ps.length by omega] at a4 a5
        rw [a4] at hfl
        injection hfl with hfl
        exact a5 (by rw [hpk, hfl])
    · exact hcomp
  have hv : ∀ L, L < (p :: ps).length → (gh.vs.take ps.length).take L = gh.vs.take L := by
    intro L hL
    simp only [List.length_cons] at hL
    exact take_take_le gh.vs (by omega)
  have he4 : ∀ (w : Nat) (y : Int), s.flOrbits[w]? = some y → y ≥ 0 → ∃ y' : Int, s1.flOrbits[w]? = some y' ∧ y' ≥ 0 :=
    fun w y hwy hy => by rw [eflo]; exact nonroot_orbitLoop (hJ.1.orb hpos).1 hloop hwy hy
  subst hlv1
  refine ⟨?_, ?_, ?_, ?_⟩
  · -- GlobalA
    constructor
    · intro _; rw [efl, ecb]; exact hGA.bgf hpos
    · intro _ hcbf u v hu hv' hcol
      rw [ecb, efl] at hcbf
      rw [ebp] at hcol
      exact hR u v hu hv' (hGA.bestA hpos hcbf u v hu hv' hcol)
    · intro γ hγ x hx
      exact hR x _ hx (oe_aut_lt (hG.bgsAut γ hγ) hx) (hGA.bgsM γ hγ x hx)
    · intro i hi γ hγ x hx
      rw [engens] at hi
      rw [egens] at hγ
      rcases le_recorded LF.perm hI.core.part.lenOrder LF.inv hrec i γ hi hγ with ⟨a, b⟩ | hT
      · obtain ⟨γ', e', haut⟩ := hJ.1.gens i a
        rw [b] at e'
        injection e' with e'
        subst e'
        exact hR x _ hx (oe_aut_lt haut hx) (hGA.gensM i a γ b x hx)
      · rw [hT]; exact hRt x hx
  · rw [epath, ech, hpd, hcd, hld]
    have c1 := ACovFrames.mono (gh := gh) (gh' := gh) (s := s) (s' := s1) (vs := gh.vs) (vs' := gh.vs) rfl efl
      (onFirstB_count_succ hpos ecount eflp) hR he4 false _ _ _ (fun _ _ => rfl) hcovd
    have c2 := c1.finish_child (fun w hw' => Or.inl (hcompA w hw'))
    exact ACovFrames.congr (gh := gh) (gh' := { gh with vs := gh.vs.take ps.length }) (s := s1) (s' := s1) (vs := gh.vs)
      rfl rfl (fun _ => rfl) rfl true _ _ _ hv c2
  · rw [epath, ech, hpd, hcd, hld]
    have a1 := FrameAuxA.mono (gh := gh) (gh' := gh) (s := s) (s' := s1) (us := gh.vs) (us' := gh.vs) (fun _ => hpos) efl hR
      rfl rfl rfl false _ _ _ (fun _ _ => rfl) hfaA
    have a2 := FrameAuxA.mk (p := p) (cs := cs) (ls := ls) (sz := sz)
      (a1.head.finish_child' (fun w hw' _ _ => hcompA w hw') (fun w hw' _ _ => hcompA w hw')) a1.tail
    exact FrameAuxA.mono (gh := gh) (gh' := { gh with vs := gh.vs.take ps.length }) (s := s1) (s' := s1) (us := gh.vs)
      (fun h0 => h0) rfl (fun _ _ _ _ hab => hab) rfl rfl rfl true _ _ _ hv a2
  · intro hp0
    rw [epath, hpd] at hp0
    cases hp0
end

end CanonF
