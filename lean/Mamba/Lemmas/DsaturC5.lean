import Mamba.Lemmas.DsaturC4
import Mathlib.Tactic.Ring
/-! DSATUR model: the termination measure. -/
namespace CliqueColour
open GraphSpec

/-! ### sums over `0 .. d-1` -/

def psum (f : Nat → Nat) (d : Nat) : Nat := ((List.range d).map f).sum

theorem psum_zero (f : Nat → Nat) : psum f 0 = 0 := rfl

theorem psum_succ (f : Nat → Nat) (d : Nat) : psum f (d + 1) = psum f d + f d := by
  simp [psum, List.range_succ]

theorem psum_congr {f f' : Nat → Nat} {d : Nat} (h : ∀ i, i < d → f i = f' i) : psum f d = psum f' d := by
  unfold psum
  congr 1
  apply List.map_congr_left
  intro i hi
  exact h i (List.mem_range.1 hi)

theorem psum_mono (f : Nat → Nat) {k d : Nat} (h : k ≤ d) : psum f k ≤ psum f d := by
  induction d with
  | zero => have : k = 0 := by omega
            subst this; exact Nat.le_refl _
  | succ d ih =>
    by_cases hk : k = d + 1
    · subst hk; exact Nat.le_refl _
    · rw [psum_succ]; have := ih (by omega); omega

/-! ### the measure -/

/-- untried alternatives at position `i` -/
def remAt (s : Dsat) (i : Nat) : Nat := (s.choices.getD i []).length - 1 - s.cur.getD i 0

/-- upper bound on the number of iterations still to come -/
def dsMeasure (g : G) (s : Dsat) : Nat :=
  (g.n + 2) ^ (g.n + 1 - s.chosen.length) + psum (fun i => remAt s i * (g.n + 2) ^ (g.n - i)) s.chosen.length

theorem DSInv.len_le {g : G} {U0 : Nat} {s : Dsat} (h : DSInv g U0 s) : s.chosen.length ≤ g.n := by
  have := (List.subperm_of_subset h.chn fun v hv => List.mem_range.2 (h.chlt v hv)).length_le
  simpa using this

theorem DSInv.maxle {g : G} {U0 : Nat} {s : Dsat} (h : DSInv g U0 s) :
    ∀ k, k ≤ s.chosen.length → maxCol (colOf s) (s.chosen.take k) + 1 ≤ (k : Int) := by
  intro k
  induction k with
  | zero => intro _; simp [maxCol]
  | succ k ih =>
    intro hk
    have hk' : k < s.chosen.length := by omega
    rw [take_succ_getD hk', maxCol_snoc]
    obtain ⟨hcur, hcol⟩ := h.colch k hk'
    have := (h.optF k hk' _ (getD_mem' hcur)).1
    rw [hcol]
    have := ih (by omega)
    push_cast
    omega

theorem DSInv.choices_len {g : G} {U0 : Nat} {s : Dsat} (h : DSInv g U0 s) {i : Nat} (hi : i < s.chosen.length) :
    (s.choices.getD i []).length ≤ i + 1 := by
  have hsub : (s.choices.getD i []).Sublist (List.range (i + 1)) := by
    rw [sublist_range_iff]
    refine ⟨h.optS i hi, fun c hc => ?_⟩
    have := (h.optF i hi c hc).1
    have := h.maxle i (by omega)
    omega
  have := hsub.length_le
  simpa using this

theorem dsMeasure_pos (g : G) (s : Dsat) : 1 ≤ dsMeasure g s := by
  unfold dsMeasure
  have : 0 < (g.n + 2) ^ (g.n + 1 - s.chosen.length) := Nat.pow_pos (by omega)
  omega

theorem forward_measure {g : G} {U0 : Nat} {s r : Dsat} (h : DSInv g U0 s) (hr : DSInv g U0 r) {v : Nat}
    {opts : List Nat} (hch : r.chosen = s.chosen ++ [v]) (hcur : r.cur = s.cur ++ [0])
    (hcho : r.choices = s.choices ++ [opts]) : dsMeasure g r < dsMeasure g s := by
  have hlen : r.chosen.length = s.chosen.length + 1 := by rw [hch]; simp
  have hdn : s.chosen.length + 1 ≤ g.n := by rw [← hlen]; exact hr.len_le
  have hrem : ∀ i, i < s.chosen.length → remAt r i = remAt s i := by
    intro i hi
    unfold remAt
    rw [hcho, hcur, getD_append_lt _ _ (by rw [h.lcho]; exact hi), getD_append_lt _ _ (by rw [h.lcur]; exact hi)]
  have hlast : remAt r s.chosen.length ≤ s.chosen.length := by
    have := hr.choices_len (i := s.chosen.length) (by omega)
    unfold remAt
    omega
  unfold dsMeasure
  rw [hlen, psum_succ, psum_congr (f' := fun i => remAt s i * (g.n + 2) ^ (g.n - i))
    (fun i hi => by rw [hrem i hi])]
  have e1 : g.n + 1 - (s.chosen.length + 1) = g.n - s.chosen.length := by omega
  have e2 : g.n + 1 - s.chosen.length = (g.n - s.chosen.length) + 1 := by omega
  rw [e1, e2, Nat.pow_succ]
  have hP0 : 0 < (g.n + 2) ^ (g.n - s.chosen.length) := Nat.pow_pos (by omega)
  generalize (g.n + 2) ^ (g.n - s.chosen.length) = P at *
  have hP : 0 < P := hP0
  have : (1 + remAt r s.chosen.length) * P < (g.n + 2) * P :=
    Nat.mul_lt_mul_of_pos_right (by omega) hP
  have e3 : (1 + remAt r s.chosen.length) * P = P + remAt r s.chosen.length * P := by ring
  have e4 : P * (g.n + 2) = (g.n + 2) * P := by ring
  omega

theorem backtrack_measure {g : G} {U0 : Nat} {s r : Dsat} (h : DSInv g U0 s) {i : Nat} (hi : i < s.chosen.length)
    (hadv : s.cur.getD i 0 + 1 < (s.choices.getD i []).length)
    (hch : r.chosen = s.chosen.take (i + 1)) (hcho : r.choices = s.choices.take (i + 1))
    (hcur : r.cur = (s.cur.take (i + 1)).set i (s.cur.getD i 0 + 1)) : dsMeasure g r < dsMeasure g s := by
  have hlen : r.chosen.length = i + 1 := by rw [hch, List.length_take]; omega
  have hdn := h.len_le
  have hrem : ∀ j, j < i → remAt r j = remAt s j := by
    intro j hj
    unfold remAt
    rw [hcho, hcur, getD_take_lt [] (by omega),
      getD_set_take s.cur i j _ 0 (by rw [h.lcur]; exact hi) (by omega), if_neg (by omega)]
  have hlast : remAt r i + 1 = remAt s i := by
    unfold remAt
    rw [hcho, hcur, getD_take_lt [] (by omega),
      getD_set_take s.cur i i _ 0 (by rw [h.lcur]; exact hi) (Nat.le_refl _), if_pos rfl]
    omega
  unfold dsMeasure
  rw [hlen, psum_succ, psum_congr (f' := fun j => remAt s j * (g.n + 2) ^ (g.n - j))
    (fun j hj => by rw [hrem j hj])]
  have hmono := psum_mono (fun j => remAt s j * (g.n + 2) ^ (g.n - j)) (by omega : i + 1 ≤ s.chosen.length)
  rw [psum_succ] at hmono
  have e1 : g.n + 1 - (i + 1) = g.n - i := by omega
  rw [e1]
  have hpos : 0 < (g.n + 2) ^ (g.n + 1 - s.chosen.length) := Nat.pow_pos (by omega)
  generalize (g.n + 2) ^ (g.n - i) = P at *
  have e3 : remAt s i * P = remAt r i * P + P := by rw [← hlast]; ring
  omega

end CliqueColour
