import Mamba.Lemmas.CanonFOrbMain
import Mamba.Lemmas.CanonFGenSkip
import Mamba.Lemmas.CanonFGenSplit
import Mamba.Lemmas.CanonFGenPop
import Mamba.Lemmas.CanonFGenInner
import Mamba.Lemmas.CanonFGenLeafFirst
import Mamba.Lemmas.CanonFGenLeafEqBest
import Mamba.Lemmas.CanonFGenLeafEqFirst
import Mamba.Lemmas.CanonFEdgelessGen
/-!
# The returned generators generate the automorphism group

Assembly of the G-layer (`CanonFGenDef.lean`, stabiliser chain along the first-leaf path) with the D- and A-layer as a
`MainJX` instance (same ghost data), its initial state, and the final theorems `canonF_generators_generate_gen` / `_all`
(with vertex classes) and `canonF_generators_generate_full`.
-/
namespace CanonF
section
variable {n m : Nat} {nb : Nbrs} {rf : Nat} {r : IR.St}
  (hnb : NbOK nb n) (hsz : nb.size = n) (hm : m = ((nb.toList.map List.length).sum) / 2) (hrf : 3 * n + 3 ≤ rf)
  (hA : IR.InvA (irG n nb) r) (hD : IR.InvD (irG n nb) r)
  (hlenm : ∀ o : List Nat, o.Perm (List.range n) → (certPos nb o n).length = m)

include hnb hA hD hlenm in
theorem gen_node (lv : List (Nat × Nat)) (worse : Bool) (s s1 : LS) (lv1 : List (Nat × Nat)) (hI : MInv n m nb s)
    (hlv : LevelsOK s.op s.path s.choices lv) (hJ : CertM n m nb lv worse s) (hX : FM n nb rf r lv worse s)
    (hs1 : (if (!worse && s.op.binDividers.len == n) = true then leafNode n m s
      else if (!worse) = true then innerNode s else Outcome.ok s) = .ok s1)
    (hl1 : LevelsOK s1.op s1.path s1.choices lv1) (hJ1 : CertA n m nb lv1 s1) :
    FA n nb rf r lv1 s1 ∧ (s1.skipDeage = true → FN n nb rf r lv1 s1) := by
  by_cases hleaf : (!worse && s.op.binDividers.len == n) = true
  · rw [if_pos hleaf] at hs1
    simp only [Bool.and_eq_true, Bool.not_eq_true', beq_iff_eq] at hleaf
    obtain ⟨hwf, hleaf⟩ := hleaf
    subst hwf
    obtain ⟨gh, hDv, hAv, hGv⟩ : ∃ gh, DNodev n nb rf r gh lv s ∧ ANodev n nb rf r gh lv s ∧ GNodev n nb rf r gh lv s := by
      simpa [FM] using hX
    obtain ⟨_, _, _, _, hsk, _⟩ := leafNode_spec hI.core hlv hI.age hs1
    have hJ1' : CertA n m nb lv s1 := hJ1
    refine ⟨?_, fun hc => by rw [hsk, hI.skip] at hc; cases hc⟩
    by_cases hcnt : s.count = 0
    · obtain ⟨lv1', hl', hd, _⟩ := dfs_leaf_first_v hnb hA hD hlenm lv s s1 gh hI hlv hleaf hJ hDv hs1 hJ1' hcnt
      have := LevelsOK_unique _ _ _ _ hl' hl1
      subst this
      exact ⟨_, hd, orb_leaf_first hnb hA hD hlenm gh lv s s1 hI hlv hleaf hJ hDv hAv hs1 hJ1' hcnt _ hl1 hd,
        gen_leaf_first hnb hA hD hlenm gh lv s s1 hI hlv hleaf hJ hDv hAv hGv hs1 hJ1' hcnt _ hl1 hd⟩
    · have hpos : 0 < s.count := Nat.pos_of_ne_zero hcnt
      by_cases hcmp : CanonF.compare s.op.value.toList s.currentBest.toList = 1
      · obtain ⟨lv1', hl', hd, _⟩ := dfs_leaf_accept_v hnb hA hD hlenm lv s s1 gh hI hlv hleaf hJ hDv hs1 hJ1' hpos hcmp
        have := LevelsOK_unique _ _ _ _ hl' hl1
        subst this
        exact ⟨_, hd, orb_leaf_accept hnb hA hD hlenm gh lv s s1 hI hlv hleaf hJ hDv hAv hs1 hJ1' hpos hcmp _ hl1 hd,
          gen_leaf_accept hnb hA hD hlenm gh lv s s1 hI hlv hleaf hJ hDv hAv hGv hs1 hJ1' hpos hcmp _ hl1 hd⟩
      · have hc1 : (CanonF.compare s.op.value.toList s.currentBest.toList == 1 || s.count + 1 == 1) = false := by
          simp only [Bool.or_eq_false_iff, beq_eq_false_iff_ne, ne_eq]
          exact ⟨hcmp, by omega⟩
        cases hc0 : (CanonF.compare s.op.value.toList s.currentBest.toList == 0) with
        | true =>
          obtain ⟨lv1', k, hl', hd, _⟩ := dfs_leaf_eqbest_v hnb hA hD lv s s1 gh hI hlv hleaf hJ hDv hs1 hJ1' hc1 hc0
          have := LevelsOK_unique _ _ _ _ hl' hl1
          subst this
          exact ⟨_, hd, orb_leaf_eqbest hnb hA hD gh lv s s1 hI hlv hleaf hJ hDv hAv hs1 hJ1' hc1 hc0 _ k hl1 hd,
            gen_leaf_eqbest hnb hA hD gh lv s s1 hI hlv hleaf hJ hDv hAv hGv hs1 hJ1' hc1 hc0 _ k hl1 hd⟩
        | false =>
          cases hcf : (CanonF.compare s.op.value.toList s.firstLeaf.toList == 0) with
          | true =>
            obtain ⟨lv1', k, hl', hd, _⟩ := dfs_leaf_eqfirst_v hnb hA hD lv s s1 gh hI hlv hleaf hJ hDv hs1 hJ1' hc1 hc0 hcf
            have := LevelsOK_unique _ _ _ _ hl' hl1
            subst this
            exact ⟨_, hd, orb_leaf_eqfirst hnb hA hD gh lv s s1 hI hlv hleaf hJ hDv hAv hs1 hJ1' hc1 hc0 hcf _ k hl1 hd,
              gen_leaf_eqfirst gh lv s s1 hI hlv hleaf hJ hDv hAv hGv hs1 hJ1' hc1 hc0 hcf _ k hl1 hd⟩
          | false =>
            obtain ⟨_, hl', hd⟩ := dfs_leaf_other_v hnb lv s s1 gh hI hlv hleaf hJ hDv hs1 hJ1' hc1 hc0 hcf
            have := LevelsOK_unique _ _ _ _ hl' hl1
            subst this
            exact ⟨_, hd, orb_leaf_other hnb gh lv s s1 hI hlv hleaf hJ hDv hAv hs1 hJ1' hc1 hc0 hcf _ hl1 hd,
              gen_leaf_other hnb gh lv s s1 hI hlv hleaf hJ hDv hAv hGv hs1 hJ1' hc1 hc0 hcf _ hl1 hd⟩
  · rw [if_neg hleaf] at hs1
    by_cases hnw : (!worse) = true
    · rw [if_pos hnw] at hs1
      have hwf : worse = false := by simpa using hnw
      subst hwf
      have hnl : s.op.binDividers.len ≠ n := by
        intro e; apply hleaf; simp [e]
      obtain ⟨gh, hDv, hAv, hGv⟩ : ∃ gh, DNodev n nb rf r gh lv s ∧ ANodev n nb rf r gh lv s ∧ GNodev n nb rf r gh lv s := by
        simpa [FM] using hX
      have hdn := dfs_inner_v lv s s1 hI hlv hnl hJ gh hDv hs1 lv1 hl1
      have han := orb_inner gh lv s s1 hI hlv hnl hJ hDv hAv hs1 lv1 hl1 hdn
      have hgn := gen_inner gh lv s s1 hI hlv hnl hJ hDv hAv hGv hs1 lv1 hl1 hdn
      exact ⟨⟨gh, dnv_toA hdn, orb_na gh lv1 s1 hdn han, gen_na gh lv1 s1 hdn han hgn⟩, fun _ => ⟨gh, hdn, han, hgn⟩⟩
    · rw [if_neg hnw] at hs1
      cases hs1
      have hwt : worse = true := by simpa using hnw
      subst hwt
      have hX' : FA n nb rf r lv s := by simpa [FM] using hX
      have := LevelsOK_unique _ _ _ _ hlv hl1
      subst this
      exact ⟨hX', fun hc => by rw [hI.skip] at hc; cases hc⟩

include hnb hsz hm hrf hA hD hlenm in
/-- D-, A- and G-layer (same ghost data) are carried by the main loop, on top of the certificate invariants -/
theorem genMainJX :
    MainJX n m nb (CertA n m nb) (CertN n m nb) (CertN n m nb) (CertM n m nb)
      (FA n nb rf r) (FN n nb rf r) (FS n nb rf r) (FM n nb rf r) where
  na := fun lv s _ h => by
    obtain ⟨gh, hd, ha, hg⟩ := h
    exact ⟨gh, dnv_toA hd, orb_na gh lv s hd ha, gen_na gh lv s hd ha hg⟩
  deage := fun lv s op' k hc ht _ hage _ h hd => by
    obtain ⟨gh, hdv, ha, hg⟩ := h
    exact ⟨gh, dav_deage lv s op' k hc ht hage hdv hd, orb_deage gh lv s op' ha, gen_deage gh lv s op' hg⟩
  noskip := fun lv s _ _ h => by
    obtain ⟨gh, hd, ha, hg⟩ := h
    exact ⟨gh, dnv_noskip lv s hd, orb_noskip gh lv s ha, gen_noskip gh lv s ha hg⟩
  skipA := fun st sz ls s c cs p ps ce x k hc ht hsk hage hch hpth hget hon hx hx0 hJ h => by
    obtain ⟨gh, hd, ha, hg⟩ := h
    exact ⟨gh, dfs_skipA_v gh st sz ls s c cs p ps ce x k hc ht hsk hage hch hpth hget hon hx hx0 hJ hd,
      orb_skipA gh st sz ls s c cs p ps ce x k hc ht hsk hage hch hpth hget hon hx hx0 hJ hd ha,
      gen_skipA gh st sz ls s c cs p ps ce x k hc ht hsk hage hch hpth hget hon hx hx0 hJ hd ha hg⟩
  skipB := fun st sz ls s c cs p ps ce bo k hc ht hsk hage hch hpth hget hon hh hJ h => by
    obtain ⟨gh, hd, ha, hg⟩ := h
    exact ⟨gh, dfs_skipB_v hnb gh st sz ls s c cs p ps ce bo k hc ht hsk hage hch hpth hget hon hh hJ hd,
      orb_skipB hnb gh st sz ls s c cs p ps ce bo k hc ht hsk hage hch hpth hget hon hh hJ hd ha,
      gen_skipB gh st sz ls s c cs p ps ce bo k hc ht hsk hage hch hpth hget hon hh hJ hd ha hg⟩
  split := fun st sz ls s c cs p ps ce bo w op' k hc ht hsk hage hch hpth hget hh _ _ hs hJ h => by
    obtain ⟨gh, hd, ha, hg⟩ := h
    obtain ⟨q1, q2⟩ := dfs_split_v hnb hsz hm hrf hA hD st sz ls s c cs p ps ce bo w op' k hc ht hsk hage hch hpth hget hh
      hs hJ gh hd
    obtain ⟨a1, a2⟩ := orb_split hnb hsz hm hrf hA hD gh st sz ls s c cs p ps ce bo w op' k hc ht hsk hage hch hpth hget
      hh hs hJ hd ha
    obtain ⟨g1, g2⟩ := gen_split gh st sz ls s c cs p ps ce bo w op' k hc ht hsk hage hch hpth hget hh hs hJ hd ha hg
    refine ⟨fun hw _ => ?_, fun hw _ => ⟨gh, q2 hw, a2 hw, g2 hw⟩⟩
    obtain ⟨t, v, hds⟩ := q1 hw
    exact ⟨gh, t, v, hds, a1 hw t v hds, g1 hw t v hds⟩
  pop := fun st sz ls s hc ht hsk hage hJ h => by
    obtain ⟨gh, hd, ha, hg⟩ := h
    exact ⟨_, dfs_pop_v hnb st sz ls s hc ht hsk hage hJ gh hd, orb_pop hnb gh st sz ls s hc ht hsk hage hJ hd ha,
      gen_pop hnb hA hD gh st sz ls s hc ht hsk hage hJ hd ha hg⟩
  node := fun lv worse s s1 lv1 hI _ hlv hJ hX hs1 hl1 hJ1 _ =>
    gen_node hnb hA hD hlenm lv worse s s1 lv1 hI hlv hJ hX hs1 hl1 hJ1
  refine := fun lv s w op' sc' hc hl hage hsk htl hJ h hr _ => by
    obtain ⟨gh, t, v, hd, ha, hg⟩ := h
    obtain ⟨q1, q2⟩ := dfs_refine_v hnb hsz hm hrf hA hD lv s w op' sc' _ hc hl hage hsk htl hJ gh t v hd hr
    obtain ⟨a1, a2⟩ := orb_refine hnb hsz hm hrf hA hD gh t v lv s w op' sc' _ hc hl hage hsk htl hJ hd ha hr
    obtain ⟨g1, g2⟩ := gen_refine gh t v lv s w op' sc' _ hc hl hage hsk htl hJ hd ha hg hr
    cases w with
    | true => exact ⟨gh, q1 rfl, a1 rfl, g1 rfl⟩
    | false => exact ⟨_, q2 rfl, a2 rfl, g2 rfl⟩

end

/-- D-, A- and G-layer hold when the main loop is entered -/
theorem gen_init {n m : Nat} {nb : Nbrs} {rf : Nat} (hnb : NbOK nb n) (hrf : 3 * n + 3 ≤ rf) {opts : Options}
    {op0 : OP} {s0 : LS} {si : IR.St} (hp : PartInv n op0) (ha : AgeInv op0) (hm0 : Match n op0 si) (hb0 : BtcInv op0)
    (hbs : BinsSorted op0) (hage0 : op0.age = 0) (hi : InitSt n m nb opts op0 s0) :
    CertM n m nb [] false s0 ∧ FM n nb rf (IR.refine (irG n nb) rf si) [] false s0 := by
  have hpth := hi.path
  have hch := hi.choices
  obtain ⟨hc, he⟩ := orb_init hnb hrf hp ha hm0 hb0 hbs hage0 hi
  refine ⟨hc, ?_⟩
  unfold EM at he
  rw [if_neg (by simp)] at he
  obtain ⟨gh, hd, hA⟩ := he
  unfold FM
  rw [if_neg (by simp)]
  refine ⟨gh, hd, hA, ?_⟩
  unfold GNodev
  rw [hpth, hch]; trivial

open GraphSpec in
/-- the returned generators generate every class-preserving automorphism (general search) -/
theorem canonF_generators_generate_gen (fuel : Nat) (g : G) (hg : g.WF) (vc : Classes) (hvc : ClassesOK g.n vc) (hn : g.n ≠ 0)
    (r : Res) (h : canonicalIsomorphFull fuel g vc = .ok r) :
    ∃ op0, newOrderedPartition g.n (((nbrsOf g).toList.map List.length).sum / 2) vc = .ok (some op0) ∧
      (¬ (((nbrsOf g).toList.map List.length).sum / 2 = 0 ∧ op0.binDividers.len = 1) →
        ∃ gs, r.gens = some gs ∧ ∀ γ, IsAutL (nbrsOf g) g.n γ →
          (∀ v, v < g.n → cellOf op0 (γ.getD v 0) = cellOf op0 v) → GenBy (fun x => x ∈ gs) g.n γ) := by
  obtain ⟨op, opR, stR, hnew, hpi, ha, hage, hspl, hval, hal⟩ := full_unfold fuel g vc hvc hn r h
  refine ⟨op, hnew, fun hsc => ?_⟩
  obtain ⟨hnbok, hsz⟩ := nbOK_nbrsOf g hg
  have hn0 : 0 < g.n := Nat.pos_of_ne_zero hn
  obtain ⟨hm0, hb0⟩ := init_match hn0 hvc hnew (nbrsOf g)
  have hbs := new_binsSorted hn0 hvc hnew
  have hw : (IR.initSt (irG g.n (nbrsOf g)) op.binDividers.len (cellOf op)).work ≠ [] := by
    show List.range op.binDividers.len ≠ []
    have := hpi.bdLen_pos
    intro e
    have := congrArg List.length e
    simp at this
    omega
  have hinv := IR.refine_inv' (g := irG g.n (nbrsOf g)) (fuel := g.n * g.n + 10) (by omega) hw
  have hlenm : ∀ o : List Nat, o.Perm (List.range g.n) →
      (certPos (nbrsOf g) o g.n).length = ((nbrsOf g).toList.map List.length).sum / 2 :=
    fun o ho => certPos_length hnbok hsz ho
  obtain ⟨r0, hr0⟩ : ∃ r0, r0 = IR.refine (irG g.n (nbrsOf g)) (g.n * g.n + 10)
      (IR.initSt (irG g.n (nbrsOf g)) op.binDividers.len (cellOf op)) := ⟨_, rfl⟩
  rw [← hr0] at hinv
  have hJ := (certMainJ expandValue_cert hnbok hlenm).extend
    (genMainJX (rf := g.n * g.n + 10) (r := r0) hnbok hsz rfl (rfuel_ge g.n) hinv.1 hinv.2 hlenm)
  obtain ⟨s, ⟨hcA, gh, ⟨hwA, hG, _, _, hfin⟩, _, ⟨_, hfinG⟩⟩, _, _, hgens⟩ :=
    allocated_mainJ stablePerm expandValue_cert hJ hn
      (fun hm h1 => hsc ⟨hm, h1⟩) rfl hpi ha hage hspl hval
      (fun s0 hi => by rw [hr0]; exact gen_init hnbok (rfuel_ge g.n) hpi ha hm0 hb0 hbs hage hi) hal
  refine ⟨_, hgens, ?_⟩
  have hpe : s.path = [] := by
    have := hwA.2.2.2.2.1
    cases hpth : s.path with
    | nil => rfl
    | cons a t => rw [hpth] at this; cases hcc : s.choices <;> simp [FramesOK, hcc] at this
  have hroot := hfinG hpe
  intro γ hγ hcls
  have hcolr : ∀ v, v < g.n → IR.col r0.c (γ.getD v 0) = IR.col r0.c v := by
    obtain ⟨τ, Rl⟩ := relabel_of_isAutL hnbok hγ
    have h0 : IR.SRel (irG g.n (nbrsOf g)) (fun v => γ.getD v 0)
        (IR.initSt (irG g.n (nbrsOf g)) op.binDividers.len (cellOf op))
        (IR.initSt (irG g.n (nbrsOf g)) op.binDividers.len (cellOf op)) :=
      IR.initSt_rel Rl _ (fun v hv => hcls v hv)
    have h1 := IR.refine_rel Rl (g.n * g.n + 10) h0
    rw [← hr0] at h1
    exact fun v hv => h1.1 v hv
  have := hroot γ hγ hcolr (fun j v hj _ => absurd hj (Nat.not_lt_zero _))
  apply GenBy.mono _ this
  rintro δ ⟨k, gg, hk, hgk, rfl⟩
  apply List.mem_map.2
  refine ⟨gg, ?_, rfl⟩
  apply List.mem_of_getElem? (i := k)
  rw [List.getElem?_take, if_pos hk, Array.getElem?_toList]; exact hgk

open GraphSpec in
/-- `canonF_generators_generate` for every input (general search and `m == 0` shortcut): every automorphism that preserves
the class colouring is a product of the returned generators and their inverses -/
theorem canonF_generators_generate_all (fuel : Nat) (g : G) (hg : g.WF) (vc : Classes) (hvc : ClassesOK g.n vc) (hn : g.n ≠ 0)
    (r : Res) (h : canonicalIsomorphFull fuel g vc = .ok r) :
    ∃ op0 gs, newOrderedPartition g.n (((nbrsOf g).toList.map List.length).sum / 2) vc = .ok (some op0) ∧
      r.gens = some gs ∧ ∀ γ, IsAutL (nbrsOf g) g.n γ →
        (∀ v, v < g.n → cellOf op0 (γ.getD v 0) = cellOf op0 v) → GenBy (fun x => x ∈ gs) g.n γ := by
  obtain ⟨op0, hnew, hgen⟩ := canonF_generators_generate_gen fuel g hg vc hvc hn r h
  by_cases hsc : ((nbrsOf g).toList.map List.length).sum / 2 = 0 ∧ op0.binDividers.len = 1
  · obtain ⟨op, opR, stR, hnew', hp, _, _, _, _, hal⟩ := full_unfold fuel g vc hvc hn r h
    rw [hnew] at hnew'
    cases hnew'
    obtain ⟨st2, he⟩ := allocated_shortcut hn hsc.1 hsc.2 hal
    obtain ⟨gs, hgs, hall⟩ := edgeless_gens_generate hn he
    exact ⟨op0, gs, hnew, hgs, fun γ hγ _ => hall γ hγ.1⟩
  · obtain ⟨gs, hgs, hall⟩ := hgen hsc
    exact ⟨op0, gs, hnew, hgs, hall⟩

open GraphSpec in
/-- without vertex classes: every automorphism of `g` is a product of the returned generators and their inverses -/
theorem canonF_generators_generate_full (fuel : Nat) (g : G) (hg : g.WF) (hn : g.n ≠ 0)
    (r : Res) (h : canonicalIsomorphFull fuel g none = .ok r) :
    ∃ gs, r.gens = some gs ∧ ∀ γ, IsAutG g γ → GenBy (fun x => x ∈ gs) g.n γ := by
  obtain ⟨op0, gs, hnew, hgs, hall⟩ := canonF_generators_generate_all fuel g hg none trivial hn r h
  refine ⟨gs, hgs, fun γ hγ => hall γ (isAutL_of_isAutG g hg γ hγ) ?_⟩
  obtain ⟨op, hnew', hp, _, _, _, _, _, _, _, _, _, _, _, _, hbd⟩ :=
    newOrderedPartition_inv (n := g.n) (m := ((nbrsOf g).toList.map List.length).sum / 2) (vc := none)
      (Nat.pos_of_ne_zero hn) trivial
  rw [hnew] at hnew'
  cases hnew'
  simp only at hbd
  have hlen1 : op0.binDividers.len = 1 := by
    rw [← Sl.length_toList _ hp.wfBd, hbd]; rfl
  have h0 := inCell_single hp hlen1
  intro v hv
  have hm : γ.getD v 0 ∈ γ := by
    have hl : γ.length = g.n := by rw [hγ.1.length_eq]; simp
    rw [List.getD_eq_getElem?_getD, List.getElem?_eq_getElem (by omega)]
    simp
  have hvn : γ.getD v 0 < g.n := List.mem_range.1 (hγ.1.mem_iff.1 hm)
  unfold cellOf
  rw [h0 v hv, h0 _ hvn]
end CanonF
