import Mamba.Lemmas.CanonFDfsBase
/-!
# DFS invariant: uniqueness of the ghost frame list, and the node step at an inner node (a frame is pushed)
-/
namespace CanonF

/-- the size of a cell of the partition of age `< a` that starts at `st` is determined -/
theorem IsBinAt_size_unique {a : Int} {op : OP} {st sz sz' : Nat} (h : IsBinAt a op st sz) (h' : IsBinAt a op st sz')
    (hsz : 2 ≤ sz) (hsz' : 2 ≤ sz') : sz = sz' := by
  rcases Nat.lt_trichotomy sz sz' with hlt | heq | hgt
  · exact absurd ⟨by omega, by omega⟩ (h'.2.2.1 _ h.2.1)
  · exact heq
  · exact absurd ⟨by omega, by omega⟩ (h.2.2.1 _ h'.2.1)

/-- the ghost list of frames is determined by the partition and the stack -/
theorem LevelsOK_unique {op : OP} : ∀ (path choices : List Nat) (lv lv' : List (Nat × Nat)),
    LevelsOK op path choices lv → LevelsOK op path choices lv' → lv = lv' := by
  intro path
  induction path with
  | nil =>
    intro choices lv lv' h h'
    cases choices <;> cases lv <;> cases lv' <;> simp_all [LevelsOK]
  | cons p ps ih =>
    intro choices lv lv' h h'
    cases choices with
    | nil => simp [LevelsOK] at h
    | cons c cs =>
      cases lv with
      | nil => simp [LevelsOK] at h
      | cons x ls =>
        cases lv' with
        | nil => simp [LevelsOK] at h'
        | cons x' ls' =>
          obtain ⟨st, sz⟩ := x
          obtain ⟨st', sz'⟩ := x'
          simp only [LevelsOK] at h h'
          obtain ⟨a1, a2, a3, _, a5⟩ := h
          obtain ⟨b1, b2, b3, _, b5⟩ := h'
          have e : st = st' := by omega
          subst e
          have e2 := IsBinAt_size_unique a1 b1 a2 b2
          subst e2
          rw [ih cs ls ls' a5 b5]

theorem TopOK_unique {op : OP} {k : Nat} {path choices : List Nat} {lv lv' : List (Nat × Nat)}
    (h : TopOK op k path choices lv) (h' : TopOK op k path choices lv') : lv = lv' := by
  match path, choices, lv, lv', h, h' with
  | _ :: ps, c :: cs, (st, sz) :: ls, (st', sz') :: ls', h, h' =>
    simp only [TopOK] at h h'
    obtain ⟨a1, a2, a3, _, a5⟩ := h
    obtain ⟨b1, b2, b3, _, b5⟩ := h'
    have e : st = st' := by omega
    subst e
    have e2 := IsBinAt_size_unique a1 b1 a2 b2
    subst e2
    rw [LevelsOK_unique ps cs ls ls' a5 b5]

section
variable {n m : Nat} {nb : Nbrs} {rf : Nat} {r : IR.St}
  (hnb : NbOK nb n) (hsz : nb.size = n) (hm : m = ((nb.toList.map List.length).sum) / 2) (hrf : 3 * n + 3 ≤ rf)
  (hA : IR.InvA (irG n nb) r) (hD : IR.InvD (irG n nb) r)
  (hlenm : ∀ o : List Nat, o.Perm (List.range n) → (certPos nb o n).length = m)

/-- node step, inner node (not a leaf, last refinement not worse), ghost data explicit (unchanged) -/
theorem dfs_inner_v (lv : List (Nat × Nat)) (s s1 : LS) (hI : MInv n m nb s)
    (hlv : LevelsOK s.op s.path s.choices lv) (hnl : s.op.binDividers.len ≠ n)
    (_hJ : CertM n m nb lv false s) (gh : Gh) (h : DNodev n nb rf r gh lv s) (hs1 : innerNode s = .ok s1)
    (lv1 : List (Nat × Nat)) (hl1 : LevelsOK s1.op s1.path s1.choices lv1) :
    DNv n nb rf r gh lv1 s1 := by
  obtain ⟨hw, hG, hcov, haux, hoff⟩ := h
  obtain ⟨st, sz, e, hl', _, hsz2, _⟩ := innerNode_spec hI.core hlv hI.age hnl hs1
  subst e
  have elv : lv1 = (st, sz) :: lv := LevelsOK_unique _ _ _ _ hl1 hl'
  subst elv
  obtain ⟨h1, h2, h3, h4, h5, h6, h7⟩ := hw
  have hmt : Match n s.op (nodeL n nb rf r gh.vs gh.vs.length) :=
    (h4 gh.vs.length (Nat.le_refl _)).toMatch hI.core.part hI.core.age (by omega) h7
  have hb : IsBinAt (s.op.age + 1) s.op st sz := by
    simp only [LevelsOK] at hl'
    have := hl'.1
    rw [hI.age]; exact this
  obtain ⟨_, _, _, _, _, _, _, f8, f9, _⟩ := frame_facts (nb := nb) hI.core.part hI.core.age hmt hb hsz2
    (Nat.le_refl st) (show st < st + sz by omega)
  have htk : gh.vs.take s.path.length = gh.vs := by rw [← h3]; exact List.take_length
  refine ⟨?_, ?_, ?_, ?_⟩
  · refine ⟨h1, h2, by simp only [List.length_cons]; omega, h4, ?_, h6, h7⟩
    show FramesOK n nb rf r gh.vs (sz :: s.path) ((st + sz) :: s.choices) ((st, sz) :: lv)
    simp only [FramesOK]
    rw [← h3]
    exact ⟨f8, f9, fun hc => absurd hc (Nat.lt_irrefl _), h5⟩
  · exact ⟨hG.first, hG.best, hG.bgsAut, hG.ngens0, hG.bestOrb, hG.bpLen, hG.fpLen⟩
  · apply cov_push st sz _ hcov
    rw [← h3]; exact f9
  · refine FrameAux.mk ?_ (FrameAux.congr (s := s)
      (s' := { s with choices := (st + sz) :: s.choices, path := sz :: s.path, skipDeage := true })
      rfl rfl rfl rfl false _ _ _ (fun _ _ => rfl) haux)
    have hF : ∀ X : List Nat, gh.vs.take s.path.length = X.take s.path.length → gh.vs = X.take gh.vs.length := by
      intro X hX; rw [htk] at hX; rw [h3]; exact hX
    constructor
    · intro h0 j w _ _ hc; exact (hoff h0).1 (hF _ hc.1)
    · intro h0 j w _ _ hc; exact (hoff h0).2 (hF _ hc.1)
    · intro h0 hpre; exact absurd (hF _ hpre) (hoff h0).1
    · intro h0 hpre; exact absurd (hF _ hpre) (hoff h0).2
    · intro h0 hpre; exact absurd (hF _ hpre) (hoff h0).1
    · intro h0 hpre; exact absurd (hF _ hpre) (hoff h0).2
    · intro h0 hpre; exact absurd (hF _ hpre) (hoff h0).1
    · intro _; simp only [if_true]; omega

/-- node step, inner node (not a leaf, last refinement not worse) -/
theorem dfs_inner (lv : List (Nat × Nat)) (s s1 : LS) (hI : MInv n m nb s)
    (hlv : LevelsOK s.op s.path s.choices lv) (hnl : s.op.binDividers.len ≠ n)
    (_hJ : CertM n m nb lv false s) (h : ∃ gh, DNodev n nb rf r gh lv s) (hs1 : innerNode s = .ok s1)
    (lv1 : List (Nat × Nat)) (hl1 : LevelsOK s1.op s1.path s1.choices lv1) :
    DN n nb rf r lv1 s1 := by
  obtain ⟨gh, h⟩ := h
  exact ⟨gh, dfs_inner_v lv s s1 hI hlv hnl _hJ gh h hs1 lv1 hl1⟩

end
end CanonF
