import Mamba.Lemmas.CanonFTreeDef
/-!
# The counting loop of `refineIter` computes the number of neighbours in the splitter bin (`CountSem`)

`countStep` only increments `timesSeen[v]`; the loop over the positions `[bs, di)` of `order` therefore adds to `timesSeen[u]`
the number of pairs (position `p`, occurrence of `u` in `nb[order[p]]`) (`segCount`). With duplicate-free symmetric
neighbour lists and `PartInv` (the positions `[bs, di)` hold exactly the vertices of cell `i`) this is the number of
neighbours of `u` in cell `i`.
-/
namespace CanonF

/-- `countStep` increments `timesSeen[v]` and nothing else of `timesSeen` -/
theorem countStep_ts {ic ts mc nm ts' mc' nm' : Sl Nat} {v : Nat}
    (h : countStep ic v (ts, mc, nm) = .ok (ts', mc', nm')) :
    ts'.len = ts.len ∧ (ts.WF → ts'.WF) ∧ v < ts.len ∧
      ∀ u, rfTv ts' u = rfTv ts u + (if u = v then 1 else 0) := by
  unfold countStep at h
  dsimp only at h
  cases hg : ts.get v with
  | ok t =>
    cases hs : ts.set v (t + 1) with
    | ok ts1 =>
      have key : ts1.len = ts.len ∧ (ts.WF → ts1.WF) ∧ v < ts.len ∧
          ∀ u, rfTv ts1 u = rfTv ts u + (if u = v then 1 else 0) := by
        refine ⟨Sl.set_len hs, fun hw => Sl.set_wf hw hs, Sl.get_lt hg, ?_⟩
        intro u
        rw [rfTv_set hs]
        by_cases hu : u = v
        · subst hu; rw [if_pos rfl, if_pos rfl, rfTv_of_get hg]
        · rw [if_neg hu, if_neg hu]; rfl
      rw [hg] at h; dsimp only at h; rw [hs] at h
      have e : ts' = ts1 := by
        osplit h <;> simp_all
      rw [e]; exact key
    | panic => rw [hg] at h; dsimp only at h; rw [hs] at h; simp at h
    | outOfFuel => rw [hg] at h; dsimp only at h; rw [hs] at h; simp at h
  | panic => rw [hg] at h; simp at h
  | outOfFuel => rw [hg] at h; simp at h

/-- the loop over one neighbour list adds, to every counter, the number of its occurrences in the list -/
theorem countList_ts {ic : Sl Nat} : ∀ (l : List Nat) {ts mc nm ts' mc' nm' : Sl Nat},
    forList (countStep ic) l (ts, mc, nm) = .ok (ts', mc', nm') →
    ts'.len = ts.len ∧ (ts.WF → ts'.WF) ∧ ∀ u, rfTv ts' u = rfTv ts u + l.count u := by
  intro l
  induction l with
  | nil =>
    intro ts mc nm ts' mc' nm' h
    simp only [forList, Outcome.ok.injEq, Prod.mk.injEq] at h
    obtain ⟨rfl, _, _⟩ := h
    exact ⟨rfl, id, fun u => by simp⟩
  | cons x xs ih =>
    intro ts mc nm ts' mc' nm' h
    rw [forList] at h
    cases hf : countStep ic x (ts, mc, nm) with
    | ok s1 =>
      obtain ⟨ts1, mc1, nm1⟩ := s1
      rw [hf] at h
      obtain ⟨a1, a2, _, a4⟩ := countStep_ts hf
      obtain ⟨b1, b2, b3⟩ := ih h
      refine ⟨b1.trans a1, fun hw => b2 (a2 hw), ?_⟩
      intro u
      rw [b3, a4, List.count_cons]
      by_cases hu : u = x
      · subst hu; simp; omega
      · have : (x == u) = false := by simpa using (Ne.symm hu)
        simp [hu, this]
    | panic => rw [hf] at h; cases h
    | outOfFuel => rw [hf] at h; cases h

/-- number of edges from the vertices at positions `[bs, p)` of `o` to `u` (with multiplicity) -/
def segCount (nb : Nbrs) (o : List Nat) (bs p u : Nat) : Nat :=
  ((rfSeg o bs p).map (fun w => (nb.getD w []).count u)).sum

theorem rfSeg_succ {l : List Nat} {bs p w : Nat} (h : bs ≤ p) (hw : l[p]? = some w) :
    rfSeg l bs (p + 1) = rfSeg l bs p ++ [w] := by
  apply List.ext_getElem?
  intro i
  have hlen : (rfSeg l bs p).length = p - bs := by
    have := (List.getElem?_eq_some_iff.1 hw).1
    exact length_rfSeg l bs p h (by omega)
  rw [getElem?_rfSeg]
  by_cases h1 : i < p - bs
  · rw [if_pos (by omega), List.getElem?_append_left (by omega), getElem?_rfSeg, if_pos h1]
  · rw [List.getElem?_append_right (by omega), hlen]
    by_cases h2 : i = p - bs
    · subst h2
      rw [if_pos (by omega), show bs + (p - bs) = p by omega, hw]; simp
    · rw [if_neg (by omega)]
      have : i - (p - bs) = (i - (p - bs) - 1) + 1 := by omega
      rw [this]; simp

theorem countBinStep_ts {nb : Nbrs} {order ic ts mc nm ts' mc' nm' : Sl Nat} {p : Nat}
    (h : countBinStep nb order ic p (ts, mc, nm) = .ok (ts', mc', nm')) :
    ∃ w, order.toList[p]? = some w ∧ ts'.len = ts.len ∧ (ts.WF → ts'.WF) ∧
      ∀ u, rfTv ts' u = rfTv ts u + (nb.getD w []).count u := by
  unfold countBinStep at h
  cases hg : order.get p with
  | ok w =>
    rw [hg] at h; dsimp only at h
    cases hn : nbrsGet nb w with
    | ok l =>
      rw [hn] at h; dsimp only at h
      have hl : nb.getD w [] = l := by
        unfold nbrsGet at hn
        cases hx : nb[w]? with
        | some l' => rw [hx] at hn; simp at hn; subst hn; simp [Array.getD_eq_getD_getElem?, hx]
        | none => rw [hx] at hn; simp at hn
      refine ⟨w, Sl.get_eq_toList.1 hg, ?_⟩
      rw [hl]
      exact countList_ts l h
    | panic => rw [hn] at h; cases h
    | outOfFuel => rw [hn] at h; cases h
  | panic => rw [hg] at h; cases h
  | outOfFuel => rw [hg] at h; cases h

/-- the counting loop over the positions `[bs, bs + k)` -/
theorem countLoop_ts {nb : Nbrs} {order ic ts mc nm ts' mc' nm' : Sl Nat} {k bs : Nat}
    (h : forRange (countBinStep nb order ic) k bs (ts, mc, nm) = .ok (ts', mc', nm')) :
    ts'.len = ts.len ∧ (ts.WF → ts'.WF) ∧
      ∀ u, rfTv ts' u = rfTv ts u + segCount nb order.toList bs (bs + k) u := by
  have := forRange_inv (countBinStep nb order ic)
    (fun p (st : Sl Nat × Sl Nat × Sl Nat) => st.1.len = ts.len ∧ (ts.WF → st.1.WF) ∧
      ∀ u, rfTv st.1 u = rfTv ts u + segCount nb order.toList bs p u) k bs (ts, mc, nm) (ts', mc', nm')
    ⟨rfl, id, fun u => by simp [segCount, rfSeg]⟩
    (by
      rintro p ⟨t1, m1, n1⟩ ⟨t2, m2, n2⟩ hp1 _ ⟨a1, a2, a3⟩ hf
      obtain ⟨w, hw, b1, b2, b3⟩ := countBinStep_ts hf
      refine ⟨b1.trans a1, fun hw => b2 (a2 hw), ?_⟩
      intro u
      dsimp only at a3 ⊢
      rw [b3, a3, segCount, segCount, rfSeg_succ hp1 hw, List.map_append, List.sum_append]
      simp; omega) h
  exact this

/-- double counting between two duplicate-free lists -/
theorem countP_mem_swap {l1 l2 : List Nat} (h1 : l1.Nodup) (h2 : l2.Nodup) (q : Nat → Bool) :
    l1.countP (fun w => decide (w ∈ l2) && q w) = l2.countP (fun w => decide (w ∈ l1) && q w) := by
  have hp : (l1.filter (fun w => decide (w ∈ l2))).Perm (l2.filter (fun w => decide (w ∈ l1))) := by
    rw [List.perm_ext_iff_of_nodup (h1.filter _) (h2.filter _)]
    intro a
    simp only [List.mem_filter, decide_eq_true_eq]
    exact And.comm
  have := hp.countP_eq q
  rw [List.countP_filter, List.countP_filter] at this
  rw [show (fun w => decide (w ∈ l2) && q w) = (fun a => q a && decide (a ∈ l2)) from
      funext fun a => Bool.and_comm _ _,
    show (fun w => decide (w ∈ l1) && q w) = (fun a => q a && decide (a ∈ l1)) from
      funext fun a => Bool.and_comm _ _]
  exact this

theorem segCount_eq {n : Nat} {nb : Nbrs} {op : OP} {i bs di : Nat} (hp : PartInv n op) (hnb : NbOK nb n)
    (hbs : (0 :: op.binDividers.toList)[i]? = some bs) (hdi : op.binDividers.toList[i]? = some di)
    (v : Nat) : segCount nb op.order.toList bs di v = cntIn nb op i v := by
  have hs : op.binDividers.toList.Pairwise (· < ·) := (List.pairwise_cons.1 hp.sorted).2
  have hle : bs ≤ di := Nat.le_of_lt (rf_sorted_start_lt hp.sorted hbs hdi)
  -- every summand is 0/1
  have e1 : segCount nb op.order.toList bs di v =
      (rfSeg op.order.toList bs di).countP (fun w => decide (w ∈ nb.getD v [])) := by
    unfold segCount
    generalize rfSeg op.order.toList bs di = S
    induction S with
    | nil => simp
    | cons w ws ih =>
      rw [List.map_cons, List.sum_cons, ih, List.countP_cons, (hnb.nodup w).count]
      have : v ∈ nb.getD w [] ↔ w ∈ nb.getD v [] := ⟨hnb.symm w v, hnb.symm v w⟩
      by_cases hm : w ∈ nb.getD v []
      · rw [if_pos (this.2 hm), decide_eq_true hm, if_pos rfl]; omega
      · rw [if_neg (mt this.1 hm), decide_eq_false hm, if_neg (by simp)]; omega
  rw [e1, ← count_rfSeg hp.perm hs hp.inCell hbs hdi hle]
  have e2 := countP_mem_swap (List.nodup_range (n := n)) (hnb.nodup v)
    (fun w => decide (op.inCell.toList[w]? = some i))
  rw [show (fun w => decide (op.inCell.toList[w]? = some i) && decide (w ∈ nb.getD v [])) =
      (fun w => decide (w ∈ nb.getD v []) && decide (op.inCell.toList[w]? = some i)) from
    funext fun a => Bool.and_comm _ _, e2]
  unfold cntIn
  apply List.countP_congr
  intro w hw
  have hwn : w < n := (hnb.lt v w hw).2
  have hl : w < op.inCell.toList.length := by rw [Sl.length_toList _ hp.wfInCell, hp.lenInCell]; exact hwn
  unfold cellOf
  rw [List.getElem?_eq_getElem hl]
  simp [hwn]

/-- the counting loop of one refinement iteration computes, for every vertex, the number of its neighbours in the
splitter bin -/
theorem countLoop_sem : CountSem := by
  intro n nb op ts mc nm ts' mc' nm' i bs di hp hnb hbs hdi hw hlen hz h
  have hlt : bs < di := rf_sorted_start_lt hp.sorted hbs hdi
  obtain ⟨a1, a2, a3⟩ := countLoop_ts h
  rw [show bs + (di - bs) = di by omega] at a3
  refine ⟨a1.trans hlen, a2 hw, ?_⟩
  intro v hv
  have hl : v < ts'.toList.length := by rw [Sl.length_toList _ (a2 hw), a1, hlen]; exact hv
  have h1 := a3 v
  unfold rfTv at h1
  rw [hz v hv, List.getElem?_eq_getElem hl] at h1
  rw [List.getElem?_eq_getElem hl, ← segCount_eq hp hnb hbs hdi v]
  simpa using h1

end CanonF
