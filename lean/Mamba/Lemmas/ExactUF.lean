import Mamba.Lemmas.ExactImg
namespace Search
open Disjoint Relation

/-- the unions performed for the subset `c` with index `i` -/
def opsGens (n : Nat) (c : List Nat) (i : Nat) (gens : List (Array Nat)) : List Op :=
  gens.map fun p => Op.union i (rank (img (fun v => p.getD v 0) c))

def opsPass (gens : List (Array Nat)) (subs : List (List Nat × Nat)) : List Op :=
  subs.flatMap fun ci => gens.map fun p => Op.union ci.2 (rank (img (fun v => p.getD v 0) ci.1))

/-- generators are arrays of size `nv` that are bijections of `0..nv-1` -/
def GensOK (nv : Nat) (gens : List (Array Nat)) : Prop :=
  ∀ p ∈ gens, p.size = nv ∧ GSearch.IsBij nv (fun v => p.getD v 0)

theorem unionGens_tracks {nv k N : Nat} (hN : N = (colex nv k).length) {c : List Nat} {i : Nat} (hc : IsSub nv k c)
    (hi : i < N) :
    ∀ (gens : List (Array Nat)) (pre : List Op) (ds : DS), GensOK nv gens → Tracks N pre ds →
      ∃ d', unionGens c i gens ds = .ok d' ∧
        Tracks N (pre ++ gens.map fun p => Op.union i (rank (img (fun v => p.getD v 0) c))) d'
  | [], pre, ds, _, h => ⟨ds, rfl, by simpa using h⟩
  | p :: ps, pre, ds, hg, h => by
    have hp := hg p List.mem_cons_self
    have hm : c.mapM (fun x => p[x]?) = some (c.map fun v => p.getD v 0) :=
      mapM_gen (fun v hv => by rw [hp.1]; exact hc.2.2 v hv)
    have hsub : IsSub nv k (img (fun v => p.getD v 0) c) := img_isSub hp.2 hc
    obtain ⟨hr, -⟩ := colex_of_sub hsub
    have hvalid : (Op.union i (rank (img (fun v => p.getD v 0) c))).valid N := ⟨hi, hN ▸ hr⟩
    obtain ⟨d1, f1, t1⟩ := step_spec h _ hvalid
    obtain ⟨d2, f2, t2⟩ := unionGens_tracks hN hc hi ps _ d1 (fun q hq => hg q (List.mem_cons_of_mem _ hq)) t1
    refine ⟨d2, ?_, by simpa using t2⟩
    simp only [unionGens, hm]
    have : Disjoint.union ds i (rank (sortNats (c.map fun v => p.getD v 0))) = .ok d1 := f1
    simp only [this]
    exact f2

theorem unionPass_tracks {nv k N : Nat} (hN : N = (colex nv k).length) (gens : List (Array Nat)) (hg : GensOK nv gens) :
    ∀ (subs : List (List Nat × Nat)) (pre : List Op) (ds : DS),
      (∀ ci ∈ subs, IsSub nv k ci.1 ∧ ci.2 < N) → Tracks N pre ds →
      ∃ d', unionPass gens subs ds = .ok d' ∧ Tracks N (pre ++ opsPass gens subs) d'
  | [], pre, ds, _, h => ⟨ds, rfl, by simpa [opsPass] using h⟩
  | (c, i) :: rest, pre, ds, hs, h => by
    have hci := hs (c, i) List.mem_cons_self
    obtain ⟨d1, f1, t1⟩ := unionGens_tracks hN hci.1 hci.2 gens pre ds hg h
    obtain ⟨d2, f2, t2⟩ := unionPass_tracks hN gens hg rest _ d1 (fun x hx => hs x (List.mem_cons_of_mem _ hx)) t1
    refine ⟨d2, ?_, ?_⟩
    · simp only [unionPass, f1]; exact f2
    · simpa [opsPass, List.append_assoc] using t2

end Search
