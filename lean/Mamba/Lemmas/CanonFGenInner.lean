import Mamba.Lemmas.CanonFGenBase
import Mamba.Lemmas.CanonFOrbInner
import Mamba.Lemmas.CanonFOrbLeafOther
/-!
# The G-layer (recorded generators generate Aut) through `na`, `deage`, `noskip`, the inner-node step and the leaves
that change neither the generators nor the first-leaf path ("better than the best", "other")
-/
namespace CanonF

section
variable {n : Nat} {nb : Nbrs} {rf : Nat} {r : IR.St}

/-- at a leaf that is not the first leaf: the child that was being explored (the leaf) is not the first-path child, the
top frame turns to "between two children" -/
theorem gi_leaf_frames {gh : Gh} {s : LS} {lv : List (Nat × Nat)} (hcnt : 0 < s.count)
    (hl : LevelsOK s.op s.path s.choices lv) (hw : WalkNodev n nb rf r gh.vs lv s) (hoff : NodeOff gh s gh.vs)
    (h : FrameAuxG n nb rf r gh s gh.vs false s.path s.choices lv) :
    s.path ≠ [] ∧ FrameAuxG n nb rf r gh s gh.vs true s.path s.choices lv := by
  obtain ⟨_, _, h3, _, h5, _, _⟩ := hw
  have hne : s.path ≠ [] := by
    intro he
    have hv0 : gh.vs = [] := List.eq_nil_of_length_eq_zero (by rw [h3, he]; rfl)
    exact (hoff hcnt).1 (by rw [hv0]; rfl)
  refine ⟨hne, ?_⟩
  cases hpth : s.path with
  | nil => exact absurd hpth hne
  | cons p ps =>
    rw [hpth] at hl h5 h h3
    obtain ⟨c, cs, st, sz, ls, hch, rfl, tc⟩ := la_levelsOK_ne hl
    rw [hch] at h5 h ⊢
    simp only [FramesOK] at h5
    obtain ⟨_, _, f3, _⟩ := h5
    simp only [List.length_cons] at h3
    have hL : ps.length < gh.vs.length := by omega
    obtain ⟨f3a, _⟩ := f3 hL
    have hv : gh.vs[ps.length]? = some (gh.vs[ps.length]) := List.getElem?_eq_getElem hL
    refine FrameAuxG.mk (h.head.finish_child' (fun w hw' hpre hx => ?_)) h.tail
    exfalso
    rw [show c - st = p by omega, ← f3a, hv] at hw'
    cases hw'
    apply (hoff hcnt).1
    have e1 : gh.vs.take (ps.length + 1) = gh.vs.take ps.length ++ [gh.vs[ps.length]] := by
      rw [List.take_add_one, hv]; rfl
    have e2 : gh.vsF.take (ps.length + 1) = gh.vsF.take ps.length ++ [gh.vs[ps.length]] := by
      rw [List.take_add_one, hx]; rfl
    rw [h3, e2, ← hpre, ← e1, ← h3, List.take_length]

end

section
variable {n m : Nat} {nb : Nbrs} {rf : Nat} {r : IR.St}
  (hnb : NbOK nb n) (hsz : nb.size = n) (hm : m = ((nb.toList.map List.length).sum) / 2) (hrf : 3 * n + 3 ≤ rf)
  (hA : IR.InvA (irG n nb) r) (hD : IR.InvD (irG n nb) r)
  (hlenm : ∀ o : List Nat, o.Perm (List.range n) → (certPos nb o n).length = m)

set_option linter.unusedVariables false in
theorem gen_na (gh : Gh) (lv : List (Nat × Nat)) (s : LS) (hDv : DNv n nb rf r gh lv s) (hAv : ANv n nb rf r gh lv s)
    (hGv : GNv n nb rf r gh lv s) : GAv n nb rf r gh lv s := by
  refine ⟨hGv, ?_⟩
  intro hp
  obtain ⟨⟨_, _, h3, _⟩, _⟩ := hDv
  rw [hp] at h3
  simp at h3

theorem gen_deage (gh : Gh) (lv : List (Nat × Nat)) (s : LS) (op' : OP) (hGv : GAv n nb rf r gh lv s) :
    GNv n nb rf r gh lv { s with op := op' } :=
  FrameAuxG.congr (s := s) (s' := { s with op := op' }) rfl rfl rfl true _ _ _ (fun _ _ => rfl) hGv.1

set_option linter.unusedVariables false in
theorem gen_noskip (gh : Gh) (lv : List (Nat × Nat)) (s : LS) (hAv : ANv n nb rf r gh lv s)
    (hGv : GNv n nb rf r gh lv s) : GNv n nb rf r gh lv { s with skipDeage := false } :=
  FrameAuxG.congr (s := s) (s' := { s with skipDeage := false }) rfl rfl rfl true _ _ _ (fun _ _ => rfl) hGv

set_option linter.unusedVariables false in
/-- node step, inner node: the new frame's node is not on the first-leaf path -/
theorem gen_inner (gh : Gh) (lv : List (Nat × Nat)) (s s1 : LS) (hI : MInv n m nb s)
    (hlv : LevelsOK s.op s.path s.choices lv) (hnl : s.op.binDividers.len ≠ n)
    (hJ : CertM n m nb lv false s) (hDv : DNodev n nb rf r gh lv s) (hAv : ANodev n nb rf r gh lv s)
    (hGv : GNodev n nb rf r gh lv s) (hs1 : innerNode s = .ok s1)
    (lv1 : List (Nat × Nat)) (hl1 : LevelsOK s1.op s1.path s1.choices lv1) (hDv' : DNv n nb rf r gh lv1 s1) :
    GNv n nb rf r gh lv1 s1 := by
  obtain ⟨hw, _, _, _, hoff⟩ := hDv
  obtain ⟨st, sz, e, hl', _, _, _⟩ := innerNode_spec hI.core hlv hI.age hnl hs1
  subst e
  have elv : lv1 = (st, sz) :: lv := LevelsOK_unique _ _ _ _ hl1 hl'
  subst elv
  obtain ⟨_, _, h3, _⟩ := hw
  have htk : gh.vs.take s.path.length = gh.vs := by rw [← h3]; exact List.take_length
  have hF : ∀ X : List Nat, gh.vs.take s.path.length = X.take s.path.length → gh.vs = X.take gh.vs.length := by
    intro X hX; rw [htk] at hX; rw [h3]; exact hX
  exact FrameAuxG.mk (FrameAuxG1.of_off (fun h0 hc => (hoff h0).1 (hF _ hc)))
    (FrameAuxG.congr (s := s)
      (s' := { s with choices := (st + sz) :: s.choices, path := sz :: s.path, skipDeage := true })
      rfl rfl rfl false _ _ _ (fun _ _ => rfl) hGv)

set_option linter.unusedVariables false in
include hnb hA hD hlenm in
/-- a leaf better than `currentBest` (not the first): generators and first-leaf path unchanged -/
theorem gen_leaf_accept (gh : Gh) (lv : List (Nat × Nat)) (s s1 : LS) (hI : MInv n m nb s)
    (hlv : LevelsOK s.op s.path s.choices lv) (hleaf : s.op.binDividers.len = n)
    (hJ : CertM n m nb lv false s) (hDv : DNodev n nb rf r gh lv s) (hAv : ANodev n nb rf r gh lv s)
    (hGv : GNodev n nb rf r gh lv s)
    (hs1 : leafNode n m s = .ok s1) (hJ1 : CertA n m nb lv s1) (hcnt : 0 < s.count)
    (hcmp : compare s.op.value.toList s.currentBest.toList = 1)
    (lv1 : List (Nat × Nat)) (hl1 : LevelsOK s1.op s1.path s1.choices lv1)
    (hDv' : DAv n nb rf r { gh with vs := gh.vs.dropLast, vsB := gh.vs, bgs := [] } lv1 s1) :
    GAv n nb rf r { gh with vs := gh.vs.dropLast, vsB := gh.vs, bgs := [] } lv1 s1 := by
  obtain ⟨_, _, _, cb, bpi, rfl, _, _, _⟩ :=
    dfs_leaf_accept_v hnb hA hD hlenm lv s s1 gh hI hlv hleaf hJ hDv hs1 hJ1 hcnt hcmp
  have elv : lv = lv1 := LevelsOK_unique _ _ _ _ hlv hl1
  subst elv
  obtain ⟨hw, _, _, _, hoff⟩ := hDv
  obtain ⟨hne, hfr⟩ := gi_leaf_frames hcnt hlv hw hoff hGv
  have h3 := hw.2.2.1
  have hlast : ∀ L, L < s.path.length → gh.vs.dropLast.take L = gh.vs.take L :=
    fun L hL => take_dropLast gh.vs (by omega)
  refine ⟨?_, fun hp => absurd hp hne⟩
  exact FrameAuxG.mono (gh := gh) (gh' := { gh with vs := gh.vs.dropLast, vsB := gh.vs, bgs := [] }) (s := s)
    (s' := { s with count := s.count + 1, currentBest := cb, bestPath := s.bestPath.copyFrom s.path.reverse,
                    bestPerm := s.bestPerm.copyFrom s.op.order.toList, bestPermInv := bpi,
                    bestOrbits := Disjoint.new n })
    (fun _ => hcnt) (fun _ hγ => hγ) rfl true s.path s.choices lv hlast hfr

set_option linter.unusedVariables false in
include hnb in
/-- a leaf that is neither better than / equal to the best leaf nor equal to the first leaf: only `count` changes -/
theorem gen_leaf_other (gh : Gh) (lv : List (Nat × Nat)) (s s1 : LS) (hI : MInv n m nb s)
    (hlv : LevelsOK s.op s.path s.choices lv) (hleaf : s.op.binDividers.len = n)
    (hJ : CertM n m nb lv false s) (hDv : DNodev n nb rf r gh lv s) (hAv : ANodev n nb rf r gh lv s)
    (hGv : GNodev n nb rf r gh lv s)
    (hs1 : leafNode n m s = .ok s1) (hJ1 : CertA n m nb lv s1)
    (hc1 : (compare s.op.value.toList s.currentBest.toList == 1 || s.count + 1 == 1) = false)
    (hc0 : (compare s.op.value.toList s.currentBest.toList == 0) = false)
    (hcf : (compare s.op.value.toList s.firstLeaf.toList == 0) = false)
    (lv1 : List (Nat × Nat)) (hl1 : LevelsOK s1.op s1.path s1.choices lv1)
    (hDv' : DAv n nb rf r { gh with vs := gh.vs.dropLast } lv1 s1) :
    GAv n nb rf r { gh with vs := gh.vs.dropLast } lv1 s1 := by
  obtain ⟨rfl, _, _⟩ := dfs_leaf_other_v hnb lv s s1 gh hI hlv hleaf hJ hDv hs1 hJ1 hc1 hc0 hcf
  have elv : lv = lv1 := LevelsOK_unique _ _ _ _ hlv hl1
  subst elv
  have hcnt : 0 < s.count := by
    simp only [Bool.or_eq_false_iff, beq_eq_false_iff_ne, ne_eq] at hc1
    omega
  obtain ⟨hw, _, _, _, hoff⟩ := hDv
  obtain ⟨hne, hfr⟩ := gi_leaf_frames hcnt hlv hw hoff hGv
  have h3 := hw.2.2.1
  have hlast : ∀ L, L < s.path.length → gh.vs.dropLast.take L = gh.vs.take L :=
    fun L hL => take_dropLast gh.vs (by omega)
  refine ⟨?_, fun hp => absurd hp hne⟩
  exact FrameAuxG.mono (gh := gh) (gh' := { gh with vs := gh.vs.dropLast }) (s := s)
    (s' := { s with count := s.count + 1 })
    (fun _ => hcnt) (fun _ hγ => hγ) rfl true s.path s.choices lv hlast hfr

end
end CanonF
