import Mamba.Lemmas.CanonScan
namespace Search
open Disjoint GSearch GraphSpec

/-- degree as an integer -/
def dgi (g : DG) (v : Nat) : Int := ((g.toG.deg v : Nat) : Int)

/-- `v` is a candidate for the canonical deletion: minimum degree and, among the vertices of minimum degree,
lexicographically largest (Σ deg, Σ deg²) of the neighbours -/
def Best (g : DG) (v : Nat) : Prop :=
  v < g.nv ∧ ∀ u, u < g.nv → dgi g v ≤ dgi g u ∧ (dgi g u = dgi g v → ¬ keyGt (nkey g u) (nkey g v).1 (nkey g v).2)

instance (g : DG) (v : Nat) : Decidable (Best g v) := by
  unfold Best
  exact instDecidableAnd (dq := Nat.decidableBallLT _ _)

theorem keyGt_irrefl (k : Int × Int) : ¬ keyGt k k.1 k.2 := by
  rintro (h | ⟨-, h⟩) <;> omega

theorem keyGt_trichotomy (k k' : Int × Int) : keyGt k k'.1 k'.2 ∨ k = k' ∨ keyGt k' k.1 k.2 := by
  unfold keyGt
  rcases Int.lt_trichotomy k.1 k'.1 with h | h | h
  · right; right; left; exact h
  · rcases Int.lt_trichotomy k.2 k'.2 with h2 | h2 | h2
    · right; right; right; exact ⟨h.symm, h2⟩
    · right; left; exact Prod.ext h h2
    · left; right; exact ⟨h, h2⟩
  · left; left; exact h

/-- given one best vertex, the best vertices are those with the same degree and the same key -/
theorem best_iff {g : DG} {L : Nat} (hL : Best g L) {u : Nat} (hu : u < g.nv) :
    Best g u ↔ dgi g u = dgi g L ∧ nkey g u = nkey g L := by
  constructor
  · intro hbu
    have h1 := (hL.2 u hu).1
    have h2 := (hbu.2 L hL.1).1
    have hd : dgi g u = dgi g L := by omega
    refine ⟨hd, ?_⟩
    have n1 := (hL.2 u hu).2 hd
    have n2 := (hbu.2 L hL.1).2 hd.symm
    rcases keyGt_trichotomy (nkey g u) (nkey g L) with h | h | h
    · exact absurd h n1
    · exact h
    · exact absurd h n2
  · rintro ⟨hd, hk⟩
    refine ⟨hu, fun w hw => ?_⟩
    rw [hd, hk]
    exact hL.2 w hw

end Search

namespace Search
open Disjoint GSearch GraphSpec

theorem permScan_total (n vb correct : Nat) :
    ∀ (l : List Nat) (ds : DS), Disjoint.Inv ds → (∀ u ∈ l, u < ds.size) →
      ∃ ds2 b, permScan n vb correct l ds = .ok (ds2, b)
  | [], ds, _, _ => ⟨ds, true, rfl⟩
  | u :: us, ds, hi, hl => by
    simp only [permScan]
    by_cases h1 : u = n - 1
    · exact ⟨ds, true, by simp [h1]⟩
    · simp only [h1, if_false]
      by_cases h2 : (vb >>> u) &&& 1 = 1
      · simp only [h2, if_true]
        obtain ⟨d', f, -⟩ := find_spec hi u (hl u List.mem_cons_self)
        rw [f]
        exact ⟨d', _, rfl⟩
      · simp only [h2, if_false]
        exact permScan_total n vb correct us ds hi (fun w hw => hl w (List.mem_cons_of_mem _ hw))

/-- the first best vertex in the order of the canonical labelling -/
def firstBest (g : DG) (l : List Nat) : Option Nat := l.find? fun u => decide (Best g u)

/-- the scan of `perm` with the viable bits `vb` of an accepting run finds the first best vertex -/
theorem firstHit_eq_firstBest {g : DG} {vb : Nat} (hnv : g.nv ≠ 0) (hL : Best g (g.nv - 1))
    (hvb : ∀ u, vb.testBit u = true ↔ (u < g.nv - 1 ∧ Best g u)) {l : List Nat} (hl : ∀ u ∈ l, u < g.nv) :
    firstHit g.nv vb l = firstBest g l := by
  unfold firstHit firstBest
  have key : ∀ u, u < g.nv → (u == g.nv - 1 || vb.testBit u) = decide (Best g u) := by
    intro u hu'
    by_cases h1 : u = g.nv - 1
    · subst h1; simp [hL]
    · have hne : (u == g.nv - 1) = false := by simpa using h1
      rw [hne, Bool.false_or]
      by_cases hbu : Best g u
      · have : vb.testBit u = true := (hvb u).2 ⟨by omega, hbu⟩
        simp [this, hbu]
      · have : vb.testBit u = false := by
          cases hc : vb.testBit u
          · rfl
          · exact absurd ((hvb u).1 hc).2 hbu
        simp [this, hbu]
  induction l with
  | nil => rfl
  | cons x xs ih =>
    simp only [List.find?_cons, key x (hl x List.mem_cons_self)]
    rw [ih (fun u hu => hl u (List.mem_cons_of_mem _ hu))]

end Search
