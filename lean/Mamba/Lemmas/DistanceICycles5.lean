import Mamba.Lemmas.DistanceICycles4
import Mamba.Lemmas.DistanceIPaths4
/-!
# Lemmas for C10: the faithful model of `NumberOfInducedCycles` returns the reference counts
-/
namespace GDist
open GraphSpec Model

variable {g h : G} {f : Nat → Nat}

theorem ext_sum_map (e : Emb g h f) (Wh Wg : List Nat → Nat)
    (hW : ∀ d, d ≠ [] → (∀ x ∈ d, x < h.n) → Wg (d.map f) = Wh d) :
    ∀ (k : Nat) (q : List Nat), q ≠ [] → (∀ x ∈ q, x < h.n) →
      ((ext g (goodInduced g) k (q.map f)).map Wg).sum = ((ext h (goodInduced h) k q).map Wh).sum := by
  intro k
  induction k with
  | zero => intro q hne hq; simp [ext, hW q hne hq]
  | succ k ih =>
    intro q hne hq
    rw [ext_succ', ext_succ', sum_map_flatMap, sum_map_flatMap]
    have hp := (extend_map_perm e hne hq).map (fun c => ((ext g (goodInduced g) k c).map Wg).sum)
    rw [← hp.sum_eq, List.map_map]
    congr 1
    apply List.map_congr_left
    intro c hc
    obtain ⟨h0, t0, w, hh, hw, _, _, rfl⟩ := mem_extend.1 hc
    simp only [Function.comp]
    apply ih (w :: q) (by simp)
    intro x hx
    rcases List.mem_cons.1 hx with rfl | hx
    · exact hw
    · exact hq x hx

theorem headD_map {d : List Nat} (hne : d ≠ []) : (d.map f).headD 0 = f (d.headD 0) := by
  obtain ⟨a, t, rfl⟩ := List.exists_cons_of_ne_nil hne
  rfl

theorem getLastD_map {d : List Nat} (hne : d ≠ []) : (d.map f).getLastD 0 = f (d.getLastD 0) := by
  rw [List.getLastD_eq_getLast?, List.getLastD_eq_getLast?, List.getLast?_map, getLast?_of_ne_nil hne]
  rfl

theorem closers_map (e : Emb g h f) {d : List Nat} (hne : d ≠ []) (hd : ∀ x ∈ d, x < h.n) :
    (closers g (d.map f)).length = (closers h d).length := by
  have hhead : d.headD 0 < h.n := by
    obtain ⟨a, t, rfl⟩ := List.exists_cons_of_ne_nil hne
    exact hd a List.mem_cons_self
  have hlast : d.getLastD 0 < h.n := hd _ (getLastD_mem hne)
  have hnd1 : (closers g (d.map f)).Nodup := List.nodup_range.filter _
  have hnd2 : ((closers h d).map f).Nodup := by
    apply List.Nodup.map_on
    · intro a ha b hb hab
      exact e.inj a b (mem_closers.1 ha).1 (mem_closers.1 hb).1 hab
    · exact List.nodup_range.filter _
  have hperm : (closers g (d.map f)).Perm ((closers h d).map f) := by
    refine (List.perm_ext_iff_of_nodup hnd1 hnd2).2 ?_
    intro w'
    rw [List.mem_map, mem_closers, headD_map hne, getLastD_map hne]
    have htl : (d.map f).tail.dropLast = (d.tail.dropLast).map f := by
      rw [← List.map_tail, ← List.map_dropLast]
    rw [htl]
    constructor
    · rintro ⟨hw', h1, h2, h3, h4⟩
      obtain ⟨w, hw, rfl⟩ := e.closed _ w' hhead hw' h1
      refine ⟨w, mem_closers.2 ⟨hw, ?_, ?_, ?_, ?_⟩, rfl⟩
      · rw [e.adj _ _ hhead hw]; exact h1
      · rw [e.adj _ _ hlast hw]; exact h2
      · intro hm; exact h3 (List.mem_map.2 ⟨w, hm, rfl⟩)
      · intro y hy
        have hyn : y < h.n := hd y (List.mem_of_mem_tail (List.mem_of_mem_dropLast hy))
        rw [e.adj _ _ hyn hw]
        exact h4 (f y) (List.mem_map.2 ⟨y, hy, rfl⟩)
    · rintro ⟨w, hw, rfl⟩
      obtain ⟨hwn, h1, h2, h3, h4⟩ := mem_closers.1 hw
      refine ⟨e.rng w hwn, ?_, ?_, ?_, ?_⟩
      · rw [← e.adj _ _ hhead hwn]; exact h1
      · rw [← e.adj _ _ hlast hwn]; exact h2
      · intro hm
        obtain ⟨a, ha, hfa⟩ := List.mem_map.1 hm
        rw [e.inj a w (hd a ha) hwn hfa] at ha
        exact h3 ha
      · intro y' hy'
        obtain ⟨y, hy, rfl⟩ := List.mem_map.1 hy'
        have hyn : y < h.n := hd y (List.mem_of_mem_tail (List.mem_of_mem_dropLast hy))
        rw [← e.adj _ _ hyn hwn]
        exact h4 y hy
  rw [hperm.length_eq, List.length_map]

theorem clW_map (e : Emb g h f) {d : List Nat} (hne : d ≠ []) (hd : ∀ x ∈ d, x < h.n) :
    clW g (d.map f) = clW h d := by
  unfold clW
  rw [List.length_map, closers_map e hne hd]

/-- entries computed by the cycle DFS for the effective bound `M` -/
def icCond (M l : Nat) : Prop := l = 2 ∨ (3 ≤ l ∧ l ≤ M)
instance (M l : Nat) : Decidable (icCond M l) := by unfold icCond; infer_instance

theorem contribC_single (h : G) (M i l : Nat) :
    contribC h M [i] l =
      if icCond M l then ((ext h (goodInduced h) (l - 2) [i]).map (clW h)).sum else 0 := by
  unfold contribC icCond
  simp only [List.length_singleton]
  have : l - 1 - 1 = l - 2 := by omega
  rw [this]

theorem icStarts_spec {h : G} (hsym : ∀ u v, h.adj u v = h.adj v u) (hirr : ∀ v, h.adj v v = false)
    (M : Nat) (fuel : Nat) (hf : wtN h.n (h.n - 1) + 1 ≤ fuel) :
    ∀ (is : List Nat) (r : Array Nat), (∀ i ∈ is, i < h.n) → M + 1 ≤ r.size →
      ∃ r', icStarts h (M : Int) fuel is r = .ok r' ∧ r'.size = r.size ∧
        ∀ l, lbl r' l = lbl r l + (is.map fun i => contribC h M [i] l).sum := by
  intro is
  induction is with
  | nil => intro r _ _; exact ⟨r, rfl, rfl, fun l => by simp⟩
  | cons i is ih =>
    intro r his hsize
    have hi := his i List.mem_cons_self
    have ok0 : RecOKc h M { p := [i], length := 0, allowedEnds := h.nbrs i, banned := [i] } :=
      { ne := by simp, len := rfl, nd := by simp, rng := fun x hx => by simp at hx; subst hx; exact hi,
        ban := fun x => by simp, lenM := .inl rfl,
        ae0 := fun _ x => by simp [G.nbrs, List.mem_filter],
        ae1 := fun h1 => by simp at h1 }
    obtain ⟨r1, e1, hs1, hr1⟩ := icLoop_spec hsym hirr M fuel
      [{ p := [i], length := 0, allowedEnds := h.nbrs i, banned := [i] }] r
      (fun P hP => by simp at hP; subst hP; exact ok0) hsize
      (by simp [wtP, toIPath]; omega)
    obtain ⟨r2, e2, hs2, hr2⟩ := ih r1 (fun j hj => his j (List.mem_cons_of_mem _ hj)) (by omega)
    refine ⟨r2, by simp only [icStarts, e1]; exact e2, by omega, fun l => ?_⟩
    rw [hr2 l, hr1 l]
    simp only [List.map_cons, List.sum_cons, List.map_nil, List.sum_nil]
    omega

theorem induced_irrefl (hirr : ∀ v, g.adj v v = false) (com : List Nat) :
    ∀ v, (g.induced com).adj v v = false := by
  intro v; simp [G.induced, hirr]

/-- closing weight of the directed induced paths with `k` edges starting in `s` -/
def clFrom (g : G) (k s : Nat) : Nat := ((pathsFrom g (goodInduced g) s k).map (clW g)).sum

theorem icComps_spec (hsym : ∀ u v, g.adj u v = g.adj v u) (hirr : ∀ v, g.adj v v = false) (M : Nat)
    (fuel : Nat) (hf : stackFuel g.n ≤ fuel) :
    ∀ (coms : List (List Nat)) (r : Array Nat), (∀ c ∈ coms, GoodCom g c) → M + 1 ≤ r.size →
      ∃ r', icComps g (M : Int) fuel coms r = .ok r' ∧ r'.size = r.size ∧
        ∀ l, lbl r' l = lbl r l + (if icCond M l then (coms.flatten.map (clFrom g (l - 2))).sum else 0) := by
  intro coms
  induction coms with
  | nil => intro r _ _; exact ⟨r, rfl, rfl, fun l => by simp⟩
  | cons com coms ih =>
    intro r hgood hsize
    have gc := hgood com List.mem_cons_self
    have hlen : com.length ≤ g.n := by
      have := (List.subperm_of_subset gc.nd (fun x hx => List.mem_range.2 (gc.rng x hx))).length_le
      simpa using this
    have hn : (g.induced com).n = com.length := rfl
    obtain ⟨r1, e1, hs1, hr1⟩ := icStarts_spec (induced_symm hsym com) (induced_irrefl hirr com) M fuel
      (by rw [hn]; exact Nat.le_trans (stackFuel_ge hlen) hf)
      (List.range (g.induced com).n) r (fun i hi => List.mem_range.1 hi) hsize
    obtain ⟨r2, e2, hs2, hr2⟩ := ih r1 (fun c hc => hgood c (List.mem_cons_of_mem _ hc)) (by omega)
    refine ⟨r2, by simp only [icComps, e1]; exact e2, by omega, fun l => ?_⟩
    rw [hr2 l, hr1 l]
    have emb := goodCom_emb gc
    have hstart : ((List.range (g.induced com).n).map fun i => contribC (g.induced com) M [i] l).sum
        = if icCond M l then (com.map (clFrom g (l - 2))).sum else 0 := by
      by_cases hc : icCond M l
      · simp only [hc, if_true]
        rw [← sum_range_getD com (clFrom g (l - 2)), hn]
        congr 1
        apply List.map_congr_left
        intro i hi
        have hi' : i < (g.induced com).n := by rw [hn]; exact List.mem_range.1 hi
        rw [contribC_single, if_pos hc]
        have := ext_sum_map emb (clW (g.induced com)) (clW g) (fun d hne hd => clW_map emb hne hd) (l - 2) [i]
          (by simp) (fun x hx => by simp at hx; subst hx; exact hi')
        rw [← this]
        simp only [List.map_cons, List.map_nil, clFrom]
        rw [pathsFrom_eq_ext g _ (emb.rng i hi')]
      · simp only [hc, if_false]
        apply List.sum_eq_zero
        intro x hx
        obtain ⟨i, _, rfl⟩ := List.mem_map.1 hx
        rw [contribC_single, if_neg hc]
    rw [hstart]
    by_cases hc : icCond M l
    · simp only [hc, if_true, List.flatten_cons, List.map_append, List.sum_append]; omega
    · simp [hc]

theorem clFrom_sum (g : G) (k : Nat) :
    ((List.range g.n).map (clFrom g k)).sum = ((allInducedPaths g k).map (clW g)).sum := by
  unfold allInducedPaths clFrom
  rw [sum_map_flatMap]

theorem numInducedCycles_small (g : G) {l : Nat} (hl : l < 3) : numInducedCycles g l = 0 := by
  simp [numInducedCycles, canonInducedCycles, canonCycles, hl]

/-- **the faithful model of `NumberOfInducedCycles` returns the reference counts** -/
theorem numberOfInducedCycles_eq (g : G) (hsym : ∀ u v, g.adj u v = g.adj v u) (hirr : ∀ v, g.adj v v = false)
    (b : Int) (fuel : Nat) (hf : stackFuel g.n ≤ fuel) :
    Model.numberOfInducedCycles g b fuel =
      .ok ((List.range (g.n + 1)).map fun l => if l ≤ cycBound g b then numInducedCycles g l else 0) := by
  unfold Model.numberOfInducedCycles
  obtain ⟨cs, ecs, hperm⟩ := connectedComponents_perm g hsym (g.n + 1) (Nat.le_refl _)
  rw [ecs]
  simp only
  obtain ⟨hgood, hflat⟩ := components_good g hsym
  have hgood' : ∀ c ∈ cs, GoodCom g c := fun c hc => hgood c (hperm.mem_iff.1 hc)
  have hflat' : cs.flatten.Perm (List.range g.n) := (List.Perm.flatten hperm).trans hflat
  have hM : (if b < 0 ∨ b > (g.n : Int) then (g.n : Int) else b) = ((cycBound g b : Nat) : Int) := by
    unfold cycBound
    by_cases hb : b < 0 ∨ b > (g.n : Int)
    · have : (b < 0 || b > (g.n : Int)) = true := by simpa using hb
      simp only [hb, if_true, this]
    · have : (b < 0 || b > (g.n : Int)) = false := by simpa using hb
      simp only [hb, if_false, this, Bool.false_eq_true]
      omega
  have hMle : cycBound g b ≤ g.n := by
    unfold cycBound
    split
    · exact Nat.le_refl _
    · rename_i hb
      have : ¬ (b < 0 ∨ b > (g.n : Int)) := by simpa using hb
      omega
  rw [hM]
  obtain ⟨r, er, hsz, hr⟩ := icComps_spec hsym hirr (cycBound g b) fuel hf cs (Array.replicate (g.n + 1) 0) hgood'
    (by simp; omega)
  rw [er]
  simp only
  congr 1
  apply List.map_congr_left
  intro l hl
  have hln := List.mem_range.1 hl
  have hz : lbl (Array.replicate (g.n + 1) 0) l = 0 := by
    unfold lbl; simp [Array.getD, hln]
  have hlbl : ∀ k, r.getD k 0 = lbl r k := fun _ => rfl
  have hval : lbl r l = if 3 ≤ l ∧ l ≤ cycBound g b then 2 * l * numInducedCycles g l else 0 := by
    rw [hr l, hz, Nat.zero_add]
    by_cases h3 : 3 ≤ l ∧ l ≤ cycBound g b
    · have hc : icCond (cycBound g b) l := .inr h3
      rw [if_pos hc, if_pos h3]
      have : (cs.flatten.map (clFrom g (l - 2))).sum = ((List.range g.n).map (clFrom g (l - 2))).sum :=
        (hflat'.map _).sum_eq
      rw [this, clFrom_sum, ← closers_sum hsym h3.1]
      congr 1
      apply List.map_congr_left
      intro p hp
      obtain ⟨hlen, _⟩ := mem_allInducedPaths.1 hp
      have : 2 ≤ p.length := by omega
      simp [clW, this]
    · rw [if_neg h3]
      by_cases hc : icCond (cycBound g b) l
      · rw [if_pos hc]
        have hl2 : l = 2 := by
          rcases hc with h | h
          · exact h
          · exact absurd h h3
        subst hl2
        apply List.sum_eq_zero
        intro x hx
        obtain ⟨s, _, rfl⟩ := List.mem_map.1 hx
        unfold clFrom
        apply List.sum_eq_zero
        intro y hy
        obtain ⟨p, hp, rfl⟩ := List.mem_map.1 hy
        have hlen := (mem_pathsFrom.1 hp).2
        have : ¬ 2 ≤ p.length := by omega
        simp [clW, this]
      · rw [if_neg hc]
  by_cases hl0 : l = 0
  · subst hl0
    simp only [if_true]
    rw [hlbl, hval]
    simp [numInducedCycles_small]
  · simp only [hl0, if_false]
    rw [hlbl, hval]
    by_cases h3 : 3 ≤ l ∧ l ≤ cycBound g b
    · rw [if_pos h3, if_pos h3.2]
      rw [Nat.mul_div_cancel_left _ (by omega : 0 < 2 * l)]
    · rw [if_neg h3]
      by_cases hle : l ≤ cycBound g b
      · rw [if_pos hle, numInducedCycles_small g (by omega), Nat.zero_div]
      · rw [if_neg hle, Nat.zero_div]

end GDist
