import Mamba.Lemmas.CliqueColourBasic
/-! Helper lemmas for C09: vertex colourings — the symmetry-broken search, the chromatic number, counting. -/
namespace CliqueColour
open GraphSpec

/-- properness of a (partial) colouring list on the vertices it covers -/
def ProperUpTo (g : G) (p : List Nat) : Prop :=
  ∀ u v, u < p.length → v < p.length → g.adj u v = true → p.getD u 0 ≠ p.getD v 0

theorem compat_iff (g : G) (p : List Nat) (c : Nat) :
    compat g p c = true ↔ ∀ u, u < p.length → g.adj u p.length = true → p.getD u 0 ≠ c := by
  simp only [compat, List.all_eq_true, List.mem_range, Bool.or_eq_true, Bool.not_eq_true', bne_iff_ne]
  constructor
  · intro h u hu ha
    rcases h u hu with h1 | h1
    · rw [h1] at ha; cases ha
    · exact h1
  · intro h u hu
    cases ha : g.adj u p.length
    · exact Or.inl rfl
    · exact Or.inr (h u hu ha)

theorem getD_append_left' {p : List Nat} {c : Nat} {u : Nat} (hu : u < p.length) :
    (p ++ [c]).getD u 0 = p.getD u 0 := by
  simp [List.getD_eq_getElem?_getD, List.getElem?_append_left hu]

theorem getD_append_last {p : List Nat} {c : Nat} : (p ++ [c]).getD p.length 0 = c := by
  simp [List.getD_eq_getElem?_getD]

theorem properUpTo_snoc {g : G} (hw : g.WF) {p : List Nat} {c : Nat} :
    ProperUpTo g (p ++ [c]) ↔ ProperUpTo g p ∧ compat g p c = true := by
  rw [compat_iff]
  constructor
  · intro h
    refine ⟨fun u v hu hv ha => ?_, fun u hu ha => ?_⟩
    · have := h u v (by simp; omega) (by simp; omega) ha
      rwa [getD_append_left' hu, getD_append_left' hv] at this
    · have := h u p.length (by simp; omega) (by simp) ha
      rwa [getD_append_left' hu, getD_append_last] at this
  · rintro ⟨hp, hc⟩ u v hu hv ha
    simp only [List.length_append, List.length_cons, List.length_nil] at hu hv
    by_cases hu' : u < p.length <;> by_cases hv' : v < p.length
    · rw [getD_append_left' hu', getD_append_left' hv']; exact hp u v hu' hv' ha
    · have : v = p.length := by omega
      subst this
      rw [getD_append_left' hu', getD_append_last]; exact hc u hu' ha
    · have : u = p.length := by omega
      subst this
      rw [getD_append_left' hv', getD_append_last]
      rw [hw.symm] at ha
      exact fun h => hc v hv' ha h.symm
    · have h1 : u = p.length := by omega
      have h2 : v = p.length := by omega
      subst h1; subst h2
      rw [hw.irrefl] at ha; cases ha

/-! ### soundness of the search -/

theorem search_sound {g : G} (hw : g.WF) {k : Nat} :
    ∀ (r : Nat) (p : List Nat) (m : Nat), p.length + r = g.n → search g k r p m = true →
      (∀ x ∈ p, x < k) → ProperUpTo g p →
      ∃ c : List Nat, c.length = g.n ∧ (∀ x ∈ c, x < k) ∧ ProperUpTo g c := by
  intro r
  induction r with
  | zero => intro p m hl _ hk hp; exact ⟨p, by omega, hk, hp⟩
  | succ r ih =>
    intro p m hl hs hk hp
    simp only [search, List.any_eq_true, List.mem_range, Bool.and_eq_true] at hs
    obtain ⟨c, hc, hcomp, hrec⟩ := hs
    refine ih (p ++ [c]) _ (by simp; omega) hrec ?_ ((properUpTo_snoc hw).2 ⟨hp, hcomp⟩)
    intro x hx
    rcases List.mem_append.1 hx with h | h
    · exact hk x h
    · have : x = c := by simpa using h
      subst this; omega

theorem colourable_of_list {g : G} {k : Nat} {c : List Nat} (hl : c.length = g.n) (hk : ∀ x ∈ c, x < k)
    (hp : ProperUpTo g c) : Colourable g k := by
  refine ⟨fun v => c.getD v 0, fun u v hu hv ha => hp u v (by omega) (by omega) ha, fun v hv => ?_⟩
  have : v < c.length := by omega
  show c.getD v 0 < k
  rw [List.getD_eq_getElem?_getD, List.getElem?_eq_getElem this]
  exact hk _ (List.getElem_mem this)

/-! ### completeness of the search (the symmetry break loses nothing) -/

/-- swap two colours -/
def swapCol (a b x : Nat) : Nat := if x = a then b else if x = b then a else x

theorem swapCol_inj (a b : Nat) {x y : Nat} (h : swapCol a b x = swapCol a b y) : x = y := by
  unfold swapCol at h
  split_ifs at h <;> omega

theorem search_complete {g : G} {k : Nat} :
    ∀ (r : Nat) (p : List Nat) (m : Nat) (f : Nat → Nat), p.length + r = g.n →
      (∀ u, u < p.length → p.getD u 0 = f u) → (∀ u, u < p.length → f u < m) →
      Proper g f → (∀ v, v < g.n → f v < k) → search g k r p m = true := by
  intro r
  induction r with
  | zero => intro p m f _ _ _ _ _; rfl
  | succ r ih =>
    intro p m f hl hpf hm hprop hk
    have hi : p.length < g.n := by omega
    -- wlog the colour of vertex `p.length` is at most `m`
    obtain ⟨f', hpf', hm', hprop', hk', hle⟩ : ∃ f' : Nat → Nat, (∀ u, u < p.length → p.getD u 0 = f' u) ∧
        (∀ u, u < p.length → f' u < m) ∧ Proper g f' ∧ (∀ v, v < g.n → f' v < k) ∧ f' p.length ≤ m := by
      by_cases hle : f p.length ≤ m
      · exact ⟨f, hpf, hm, hprop, hk, hle⟩
      · have hgt : m < f p.length := by omega
        have hck := hk p.length hi
        refine ⟨fun v => swapCol (f p.length) m (f v), ?_, ?_, ?_, ?_, ?_⟩
        · intro u hu
          have := hm u hu
          simp only [swapCol]
          rw [if_neg (by omega), if_neg (by omega)]
          exact hpf u hu
        · intro u hu
          have := hm u hu
          simp only [swapCol]
          rw [if_neg (by omega), if_neg (by omega)]
          exact this
        · intro u v hu hv ha h
          exact hprop u v hu hv ha (swapCol_inj _ _ h)
        · intro v hv
          have := hk v hv
          simp only [swapCol]
          split_ifs <;> omega
        · simp [swapCol]
    simp only [search, List.any_eq_true, List.mem_range, Bool.and_eq_true]
    refine ⟨f' p.length, ?_, ?_, ?_⟩
    · have := hk' p.length hi
      omega
    · rw [compat_iff]
      intro u hu ha
      rw [hpf' u hu]
      exact hprop' u p.length (by omega) hi ha
    · refine ih (p ++ [f' p.length]) _ f' (by simp; omega) ?_ ?_ hprop' hk'
      · intro u hu
        simp only [List.length_append, List.length_cons, List.length_nil] at hu
        by_cases hu' : u < p.length
        · rw [getD_append_left' hu']; exact hpf' u hu'
        · have : u = p.length := by omega
          subst this; exact getD_append_last
      · intro u hu
        simp only [List.length_append, List.length_cons, List.length_nil] at hu
        by_cases hu' : u < p.length
        · have := hm' u hu'; omega
        · have : u = p.length := by omega
          subst this; omega

theorem colourableB_iff {g : G} (hw : g.WF) (k : Nat) : colourableB g k = true ↔ Colourable g k := by
  constructor
  · intro h
    obtain ⟨c, hl, hk, hp⟩ := search_sound hw g.n [] 0 (by simp) h (by simp) (by intro u v hu; simp at hu)
    exact colourable_of_list hl hk hp
  · rintro ⟨f, hp, hk⟩
    exact search_complete g.n [] 0 f (by simp) (by intro u hu; simp at hu) (by intro u hu; simp at hu) hp hk

theorem Colourable.mono {g : G} {k k' : Nat} (h : Colourable g k) (hk : k ≤ k') : Colourable g k' := by
  obtain ⟨f, hp, hb⟩ := h
  exact ⟨f, hp, fun v hv => Nat.lt_of_lt_of_le (hb v hv) hk⟩

theorem colourable_n {g : G} (hw : g.WF) : Colourable g g.n := by
  refine ⟨id, fun u v _ _ ha h => ?_, fun v hv => hv⟩
  simp only [id] at h
  subst h
  rw [hw.irrefl] at ha; cases ha

/-! ### least -/

theorem leastFrom_spec (p : Nat → Bool) :
    ∀ (fuel k : Nat), p (k + fuel) = true →
      p (leastFrom p fuel k) = true ∧ k ≤ leastFrom p fuel k ∧ leastFrom p fuel k ≤ k + fuel ∧
        ∀ j, k ≤ j → j < leastFrom p fuel k → p j = false := by
  intro fuel
  induction fuel with
  | zero => intro k h; exact ⟨by simpa [leastFrom] using h, by simp [leastFrom], by simp [leastFrom],
      fun j h1 h2 => by simp [leastFrom] at h2; omega⟩
  | succ f ih =>
    intro k h
    simp only [leastFrom]
    by_cases hk : p k = true
    · rw [if_pos hk]
      exact ⟨hk, Nat.le_refl _, by omega, fun j h1 h2 => by omega⟩
    · rw [if_neg hk]
      have := ih (k + 1) (by rw [← h]; congr 1; omega)
      refine ⟨this.1, by omega, by omega, fun j h1 h2 => ?_⟩
      by_cases hj : j = k
      · subst hj; simpa using hk
      · exact this.2.2.2 j (by omega) h2

/-! ### counting -/

def properB (g : G) (c : List Nat) : Bool :=
  (List.range c.length).all fun u => (List.range c.length).all fun v => !g.adj u v || c.getD u 0 != c.getD v 0

theorem properB_iff (g : G) (c : List Nat) : properB g c = true ↔ ProperUpTo g c := by
  simp only [properB, ProperUpTo, List.all_eq_true, List.mem_range, Bool.or_eq_true, Bool.not_eq_true',
    bne_iff_ne]
  constructor
  · intro h u v hu hv ha
    rcases h u hu v hv with h1 | h1
    · rw [h1] at ha; cases ha
    · exact h1
  · intro h u hu v hv
    cases ha : g.adj u v
    · exact Or.inl rfl
    · exact Or.inr (h u v hu hv ha)

theorem isProperColouring_iff (g : G) (c : List Nat) :
    isProperColouring g c = true ↔ c.length = g.n ∧ ProperUpTo g c := by
  simp only [isProperColouring, Bool.and_eq_true, beq_iff_eq]
  constructor
  · rintro ⟨hl, h⟩
    refine ⟨hl, (properB_iff g c).1 ?_⟩
    simpa [properB, hl] using h
  · rintro ⟨hl, h⟩
    refine ⟨hl, ?_⟩
    have := (properB_iff g c).2 h
    simpa [properB, hl] using this

theorem mem_exts {k : Nat} : ∀ (r : Nat) (p c : List Nat),
    c ∈ exts k r p ↔ ∃ s : List Nat, c = p ++ s ∧ s.length = r ∧ ∀ x ∈ s, x < k := by
  intro r
  induction r with
  | zero =>
    intro p c
    simp only [exts, List.mem_singleton]
    constructor
    · rintro rfl; exact ⟨[], by simp, rfl, by simp⟩
    · rintro ⟨s, rfl, hs, _⟩
      have : s = [] := List.length_eq_zero_iff.1 hs
      subst this; simp
  | succ r ih =>
    intro p c
    simp only [exts, List.mem_flatMap, List.mem_range, ih]
    constructor
    · rintro ⟨a, ha, s, rfl, hs, hk⟩
      refine ⟨a :: s, by simp, by simp [hs], ?_⟩
      intro x hx
      rcases List.mem_cons.1 hx with rfl | hx
      · exact ha
      · exact hk x hx
    · rintro ⟨s, rfl, hs, hk⟩
      cases s with
      | nil => simp at hs
      | cons a t =>
        exact ⟨a, hk a List.mem_cons_self, t, by simp, by simpa using hs,
          fun x hx => hk x (List.mem_cons_of_mem _ hx)⟩

theorem nodup_exts {k : Nat} : ∀ (r : Nat) (p : List Nat), (exts k r p).Nodup := by
  intro r
  induction r with
  | zero => intro p; simp [exts]
  | succ r ih =>
    intro p
    simp only [exts]
    rw [List.nodup_flatMap]
    refine ⟨fun a _ => ih _, ?_⟩
    refine List.Pairwise.imp_of_mem (R := fun a b => a ≠ b) ?_ (List.nodup_range (n := k))
    intro a b _ _ hab c hca hcb
    obtain ⟨s, h1, _, _⟩ := (mem_exts r _ c).1 hca
    obtain ⟨t, h2, _, _⟩ := (mem_exts r _ c).1 hcb
    apply hab
    have : (p ++ [a] ++ s).getD p.length 0 = (p ++ [b] ++ t).getD p.length 0 := by rw [← h1, ← h2]
    simpa [List.getD_eq_getElem?_getD, List.getElem?_append_left, List.getElem?_append_right] using this

theorem properUpTo_prefix {g : G} {p s : List Nat} (h : ProperUpTo g (p ++ s)) : ProperUpTo g p := by
  intro u v hu hv ha
  have := h u v (by simp; omega) (by simp; omega) ha
  simpa [List.getD_eq_getElem?_getD, List.getElem?_append_left hu, List.getElem?_append_left hv] using this

theorem sumList_map_length {α : Type} (f : Nat → List α) (l : List Nat) :
    (l.flatMap f).length = sumList (l.map fun c => (f c).length) := by
  induction l with
  | nil => simp [sumList]
  | cons a t ih => simp [sumList, List.flatMap_cons, ih] at *

theorem countFrom_eq {g : G} (hw : g.WF) {k : Nat} : ∀ (r : Nat) (p : List Nat), ProperUpTo g p →
    countFrom g k r p = ((exts k r p).filter (properB g)).length := by
  intro r
  induction r with
  | zero =>
    intro p hp
    simp [countFrom, exts, (properB_iff g p).2 hp]
  | succ r ih =>
    intro p hp
    simp only [countFrom, exts, List.filter_flatMap]
    rw [sumList_map_length]
    congr 1
    apply List.map_congr_left
    intro c _
    by_cases hc : compat g p c = true
    · rw [if_pos hc]
      exact ih _ ((properUpTo_snoc hw).2 ⟨hp, hc⟩)
    · rw [if_neg hc]
      symm
      rw [List.length_eq_zero_iff, List.filter_eq_nil_iff]
      intro x hx hpx
      obtain ⟨s, rfl, _, _⟩ := (mem_exts r _ x).1 hx
      have := properUpTo_prefix ((properB_iff g _).1 hpx)
      exact hc ((properUpTo_snoc hw).1 this).2

end CliqueColour
