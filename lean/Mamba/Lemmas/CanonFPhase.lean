import Mamba.Lemmas.CanonFInv
/-!
# The certificate prefix before the first leaf (no pruning is possible while `currentBest` is empty)

* `PrefixSingle op` — bins `0 .. spl-1` are the singletons at positions `0 .. spl-1`;
* `CleanPrefix op`  — moreover bin `spl` (if there is one) is not a singleton: `spl` is the index of the target cell;
* `NoEarlierNbr nb op` — as long as the certificate `value` is empty (as a list: `value.toList = []`), no vertex of the
  prefix has a neighbour at an earlier position (so an empty certificate at a leaf means that the graph has no edges).
-/
namespace CanonF

structure PrefixSingle (op : OP) : Prop where
  le : op.spl ≤ op.binDividers.len
  single : ∀ j, j < op.spl → op.binDividers.toList[j]? = some (j + 1)

structure CleanPrefix (op : OP) : Prop extends PrefixSingle op where
  next : op.binDividers.toList[op.spl]? ≠ some (op.spl + 1)

def NoEarlierNbr (nb : Nbrs) (op : OP) : Prop :=
  op.value.toList = [] → ∀ j u v q, j < op.spl → op.order.toList[j]? = some u → v ∈ nb.getD u [] →
    op.order.toList[q]? = some v → j ≤ q

/-- with singleton bins `0..j-1` in front, the bin index of a position is below `j` exactly for the positions below `j` -/
theorem binIdx_lt_iff_of_single (bd : List Nat) (hs : (0 :: bd).Pairwise (· < ·)) (j : Nat)
    (hsing : ∀ t, t < j → bd[t]? = some (t + 1)) (q : Nat) : binIdx bd q < j ↔ q < j := by
  have hs' : bd.Pairwise (· < ·) := (List.pairwise_cons.1 hs).2
  rw [binIdx_eq]
  constructor
  · intro h
    -- the divider at index `countP (· < q+1)` is > q; it is among the first j, hence equals index+1
    rcases Nat.lt_or_ge q j with hlt | hq
    · exact hlt
    exfalso
    -- all of the first j dividers are ≤ j ≤ q, so countP ≥ j
    have : j ≤ bd.countP (fun d => decide (d < q + 1)) := by
      by_cases hj : j = 0
      · omega
      · have hjl : j - 1 < bd.length := (List.getElem?_eq_some_iff.1 (hsing (j - 1) (by omega))).1
        have hv : bd[j - 1] = j := by
          have := (List.getElem?_eq_some_iff.1 (hsing (j - 1) (by omega))).2; omega
        have := (sorted_lt_iff_idx bd hs' (q + 1) (j - 1) hjl).1 (by omega)
        omega
    omega
  · intro h
    have hql : q < bd.length := (List.getElem?_eq_some_iff.1 (hsing q h)).1
    have hv : bd[q] = q + 1 := (List.getElem?_eq_some_iff.1 (hsing q h)).2
    have : ¬ (q < bd.countP (fun d => decide (d < q + 1))) := by
      rw [← sorted_lt_iff_idx bd hs' (q + 1) q hql]; omega
    omega

theorem append_toList (s : Sl Nat) (x : Nat) :
    s.toList.length ≤ (s.append x).toList.length ∧ (s.append x).toList ≠ [] := by
  have key : s.toList.length ≤ (s.append x).toList.length ∧ 0 < (s.append x).toList.length := by
    unfold Sl.append
    split
    · rename_i h
      simp [Sl.toList]; omega
    · rename_i h
      simp only [Sl.toList, List.length_take, Array.length_toList, List.length_append,
        List.length_cons, List.length_nil, List.length_replicate]
      omega
  refine ⟨key.1, ?_⟩
  intro hc; rw [hc] at key; simp at key

/-- `codeStep` never shortens the certificate and appends a code for a neighbour in an earlier cell -/
theorem codeStep_len {inCell : Sl Nat} {j v : Nat} {value value' : Sl Nat}
    (h : codeStep inCell j v value = .ok value') :
    value.toList.length ≤ value'.toList.length ∧ ∃ k, inCell.get v = .ok k ∧ (k < j → value'.toList ≠ []) := by
  unfold codeStep at h
  cases hk : inCell.get v with
  | ok k =>
    rw [hk] at h
    simp only at h
    by_cases hkj : k < j
    · rw [if_pos hkj] at h
      cases h
      exact ⟨(append_toList _ _).1, k, rfl, fun _ => (append_toList _ _).2⟩
    · rw [if_neg hkj] at h; cases h
      exact ⟨Nat.le_refl _, k, rfl, fun h => absurd h hkj⟩
  | panic => rw [hk] at h; cases h
  | outOfFuel => rw [hk] at h; cases h

theorem codeLoop_len {inCell : Sl Nat} {j : Nat} : ∀ (l : List Nat) (value value' : Sl Nat),
    forList (codeStep inCell j) l value = .ok value' →
    value.toList.length ≤ value'.toList.length ∧
      ∀ v ∈ l, ∃ k, inCell.get v = .ok k ∧ (k < j → value'.toList ≠ []) := by
  intro l
  induction l with
  | nil => intro value value' h; simp [forList] at h; subst h; exact ⟨Nat.le_refl _, by simp⟩
  | cons x xs ih =>
    intro value value' h
    rw [forList] at h
    cases hx : codeStep inCell j x value with
    | ok v1 =>
      rw [hx] at h
      obtain ⟨a1, k, a2, a3⟩ := codeStep_len hx
      obtain ⟨b1, b2⟩ := ih v1 value' h
      refine ⟨by omega, ?_⟩
      intro v hv
      rcases List.mem_cons.1 hv with rfl | hv
      · refine ⟨k, a2, fun hk => ?_⟩
        have := a3 hk
        intro hc
        have h1 : v1.toList.length ≠ 0 := by
          intro h0; exact this (List.eq_nil_of_length_eq_zero h0)
        rw [hc] at b1; simp only [List.length_nil] at b1; omega
      · exact b2 v hv
    | panic => rw [hx] at h; cases h
    | outOfFuel => rw [hx] at h; cases h

theorem sortRange_len {s s' : Sl Nat} {a b : Nat} (h : s.sortRange a b = .ok s') :
    s'.len = s.len ∧ s'.toList.length = s.toList.length := by
  unfold Sl.sortRange at h
  split at h
  · cases h; exact ⟨rfl, by simp [Sl.toList]⟩
  · cases h

theorem worseTest_empty {value cb fl : Sl Nat} (h : cb.len = 0) : worseTest value cb fl = .ok false := by
  unfold worseTest; simp [h]


/-- the state of `expandLoop` at iteration `j` while `currentBest` is empty -/
structure ExpSt (n : Nat) (nb : Nbrs) (j : Nat) (op : OP) : Prop where
  inv : PartInv n op
  single : ∀ t, t < j → op.binDividers.toList[t]? = some (t + 1)
  noNbr : op.value.toList = [] → ∀ t u v q, t < j → op.order.toList[t]? = some u → v ∈ nb.getD u [] →
    op.order.toList[q]? = some v → t ≤ q

theorem nbrsGet_eq {nb : Nbrs} {u : Nat} {l : List Nat} (h : nbrsGet nb u = .ok l) : nb.getD u [] = l := by
  unfold nbrsGet at h
  cases hu : nb[u]? with
  | some l' => rw [hu] at h; cases h; simp [Array.getD_eq_getD_getElem?, hu]
  | none => rw [hu] at h; cases h

theorem expandLoop_phase1 {n : Nat} {nb : Nbrs} {cb fl : Sl Nat} (hcb : cb.len = 0) :
    ∀ (k j : Nat) (op : OP) (w : Bool) (op' : OP), j + k = n → ExpSt n nb j op →
      expandLoop nb cb fl k j op = .ok (w, op') →
      w = false ∧ PartInv n op' ∧ CleanPrefix op' ∧ NoEarlierNbr nb op' ∧ op.value.toList.length ≤ op'.value.toList.length ∧ j ≤ op'.spl := by
  intro k
  induction k with
  | zero =>
    intro j op w op' hjk hst h
    simp [expandLoop] at h
    obtain ⟨rfl, rfl⟩ := h
    have hj : j = n := by omega
    subst hj
    have hlo := hst.inv.lenOrder
    have hbl : op.binDividers.toList.length = op.binDividers.len := Sl.length_toList _ hst.inv.wfBd
    refine ⟨rfl, PartInv.of_frame hst.inv rfl rfl rfl rfl, ⟨⟨?_, ?_⟩, ?_⟩, ?_, Nat.le_refl _, by simp [hlo]⟩
    · -- spl = n ≤ number of bins
      show op.order.len ≤ op.binDividers.len
      rw [hlo]
      by_cases hn : op.order.len = 0
      · omega
      · have := (List.getElem?_eq_some_iff.1 (hst.single (op.order.len - 1) (by omega))).1
        omega
    · intro t ht; exact hst.single t (by simpa [hlo] using ht)
    · -- no divider exceeds n
      show op.binDividers.toList[op.order.len]? ≠ some (op.order.len + 1)
      intro hc
      have hmem : op.order.len + 1 ∈ op.binDividers.toList := List.mem_of_getElem? hc
      have hs' : op.binDividers.toList.Pairwise (· < ·) := (List.pairwise_cons.1 hst.inv.sorted).2
      obtain ⟨ys, hys⟩ := List.getLast?_eq_some_iff.1 hst.inv.last
      rw [hys] at hs' hmem
      rw [List.pairwise_append] at hs'
      rcases List.mem_append.1 hmem with hm | hm
      · have := hs'.2.2 _ hm _ (List.mem_singleton.2 rfl); omega
      · simp at hm; omega
    · intro hv t u v q ht; exact hst.noNbr hv t u v q (by simpa [hlo] using ht)
  | succ k ih =>
    intro j op w op' hjk hst h
    rw [expandLoop] at h
    have hbl : op.binDividers.toList.length = op.binDividers.len := Sl.length_toList _ hst.inv.wfBd
    -- the size of bin j
    split at h
    case h_2 => cases h
    case h_3 => cases h
    case h_1 x bs hbs =>
      -- the divider of bin j
      have hdj : ∃ a, op.binDividers.toList[j]? = some a ∧ bs = a - j := by
        by_cases hj0 : j = 0
        · subst hj0
          rw [if_pos rfl] at hbs
          exact ⟨bs, Sl.get_eq_toList.1 hbs, by omega⟩
        · rw [if_neg hj0] at hbs
          split at hbs
          · rename_i a b ha hb
            have hb' := Sl.get_eq_toList.1 hb
            rw [hst.single (j - 1) (by omega)] at hb'
            have : b = j := by have := Option.some.inj hb'; omega
            subst this
            exact ⟨a, Sl.get_eq_toList.1 ha, by cases hbs; rfl⟩
          · cases hbs
      obtain ⟨a, haj, hbsa⟩ := hdj
      have hjlt : j < op.binDividers.len := by
        have := (List.getElem?_eq_some_iff.1 haj).1; omega
      by_cases hne : bs ≠ 1
      · rw [if_pos hne] at h
        simp at h
        obtain ⟨rfl, rfl⟩ := h
        refine ⟨rfl, PartInv.of_frame hst.inv rfl rfl rfl rfl, ⟨⟨Nat.le_of_lt hjlt, hst.single⟩, ?_⟩, ?_, Nat.le_refl _, Nat.le_refl _⟩
        · show op.binDividers.toList[j]? ≠ some (j + 1)
          rw [haj]; intro hc; have := Option.some.inj hc; omega
        · intro hv t u v q ht; exact hst.noNbr hv t u v q ht
      · rw [if_neg hne] at h
        have hbs1 : bs = 1 := by omega
        have haj1 : op.binDividers.toList[j]? = some (j + 1) := by
          rw [haj]; congr 1
          -- a > j since dividers are strictly increasing and positive
          have hs' : op.binDividers.toList.Pairwise (· < ·) := (List.pairwise_cons.1 hst.inv.sorted).2
          have hjl := (List.getElem?_eq_some_iff.1 haj).1
          have hv := (List.getElem?_eq_some_iff.1 haj).2
          have : j < a := by
            by_cases hj0 : j = 0
            · subst hj0
              have := (List.pairwise_cons.1 hst.inv.sorted).1 a (List.mem_of_getElem? haj); omega
            · have h1 := (List.getElem?_eq_some_iff.1 (hst.single (j - 1) (by omega)))
              have := List.pairwise_iff_getElem.1 hs' (j - 1) j h1.1 hjl (by omega)
              rw [h1.2, hv] at this; omega
          omega
        osplit h
        · -- worse = true is impossible
          rename_i _ hw
          rw [worseTest_empty hcb] at hw; cases hw
        · rename_i _ u hu _ nbrs hnb _ value1 hcode _ value2 hsort _ hw
          -- continue with the extended certificate
          have hfr : PartInv n { op with value := value2 } := PartInv.of_frame hst.inv rfl rfl rfl rfl
          have hl2 : value2.toList.length = value1.toList.length := (sortRange_len hsort).2
          obtain ⟨hmono, hcodes⟩ := codeLoop_len nbrs op.value value1 hcode
          have hst' : ExpSt n nb (j + 1) { op with value := value2 } := by
            refine ⟨hfr, ?_, ?_⟩
            · intro t ht
              by_cases htj : t = j
              · subst htj; exact haj1
              · exact hst.single t (by omega)
            · intro hv t u' v q ht hu' hv' hq
              have hv2 : value2.toList = [] := hv
              have hv0 : op.value.toList = [] := by
                apply List.eq_nil_of_length_eq_zero
                rw [hv2] at hl2; simp at hl2; omega
              by_cases htj : t = j
              · subst htj
                have hul := Sl.get_eq_toList.1 hu
                have : u' = u := by
                  have hu'' : op.order.toList[t]? = some u' := hu'
                  rw [hul] at hu''; exact (Option.some.inj hu'').symm
                subst this
                rw [nbrsGet_eq hnb] at hv'
                obtain ⟨c, hc1, hc2⟩ := hcodes v hv'
                have hq' : op.order.toList[q]? = some v := hq
                have hic := hst.inv.inCell q v hq'
                have hc1' := Sl.get_eq_toList.1 hc1
                rw [hic] at hc1'
                have hceq : c = binIdx op.binDividers.toList q := (Option.some.inj hc1').symm
                rcases Nat.lt_or_ge q t with hlt | hge
                · exfalso
                  have : binIdx op.binDividers.toList q < t :=
                    (binIdx_lt_iff_of_single _ hst.inv.sorted t hst.single q).2 hlt
                  have h1 := hc2 (by omega)
                  apply h1
                  apply List.eq_nil_of_length_eq_zero
                  rw [hv2] at hl2; simp at hl2; omega
                · exact hge
              · exact hst.noNbr hv0 t u' v q (by omega) hu' hv' hq
          obtain ⟨r1, r2, r3, r4, r5, r6⟩ := ih (j + 1) _ w op' (by omega) hst' h
          exact ⟨r1, r2, r3, r4, by simp only at r5; omega, by omega⟩



theorem sorted_getElem_ge (l : List Nat) (hs : l.Pairwise (· < ·)) :
    ∀ i (hi : i < l.length), l[0]'(by omega) + i ≤ l[i] := by
  intro i
  induction i with
  | zero => intro hi; simp
  | succ i ih =>
    intro hi
    have h1 := ih (by omega)
    have h2 := List.pairwise_iff_getElem.1 hs i (i + 1) (by omega) hi (by omega)
    omega

/-- a partition of `n` positions has at most `n` bins, and the `k`-th divider is at least `k + 1` -/
theorem PartInv.bd_ge {n : Nat} {op : OP} (h : PartInv n op) (k : Nat) (d : Nat)
    (hk : op.binDividers.toList[k]? = some d) : k + 1 ≤ d := by
  have := sorted_getElem_ge (0 :: op.binDividers.toList) h.sorted (k + 1)
    (by have := (List.getElem?_eq_some_iff.1 hk).1; simp; omega)
  have hv := (List.getElem?_eq_some_iff.1 hk).2
  simp at this
  omega

theorem PartInv.bd_le {n : Nat} {op : OP} (h : PartInv n op) (k : Nat) (d : Nat)
    (hk : op.binDividers.toList[k]? = some d) : d ≤ n := by
  have hs' : op.binDividers.toList.Pairwise (· < ·) := (List.pairwise_cons.1 h.sorted).2
  obtain ⟨ys, hys⟩ := List.getLast?_eq_some_iff.1 h.last
  have hmem : d ∈ op.binDividers.toList := List.mem_of_getElem? hk
  rw [hys] at hs' hmem
  rw [List.pairwise_append] at hs'
  rcases List.mem_append.1 hmem with hm | hm
  · have := hs'.2.2 _ hm _ (List.mem_singleton.2 rfl); omega
  · simp at hm; omega

theorem PartInv.bdLen_le {n : Nat} {op : OP} (h : PartInv n op) : op.binDividers.len ≤ n := by
  have hbl : op.binDividers.toList.length = op.binDividers.len := Sl.length_toList _ h.wfBd
  by_cases h0 : op.binDividers.len = 0
  · omega
  · have hk : op.binDividers.toList[op.binDividers.len - 1]? = some (op.binDividers.toList[op.binDividers.len - 1]'(by omega)) :=
      List.getElem?_eq_getElem _
    have h1 := h.bd_ge _ _ hk
    have h2 := h.bd_le _ _ hk
    omega

theorem PartInv.bdLen_pos {n : Nat} {op : OP} (h : PartInv n op) : 0 < op.binDividers.len := by
  have hbl : op.binDividers.toList.length = op.binDividers.len := Sl.length_toList _ h.wfBd
  have := List.mem_of_getLast? h.last
  have : 0 < op.binDividers.toList.length := List.length_pos_of_mem this
  omega

theorem PartInv.n_pos {n : Nat} {op : OP} (h : PartInv n op) : 0 < n := by
  have := (List.pairwise_cons.1 h.sorted).1 n (List.mem_of_getLast? h.last)
  exact this

theorem expandValue_phase1 {n : Nat} {nb : Nbrs} {cb fl : Sl Nat} {op op' : OP} {w : Bool} (hcb : cb.len = 0)
    (h : PartInv n op) (hp : PrefixSingle op) (hno : NoEarlierNbr nb op)
    (he : expandValue nb cb fl op = .ok (w, op')) :
    w = false ∧ PartInv n op' ∧ CleanPrefix op' ∧ NoEarlierNbr nb op' ∧
      op.value.toList.length ≤ op'.value.toList.length ∧ op.spl ≤ op'.spl := by
  unfold expandValue at he
  have hle : op.spl ≤ n := Nat.le_trans hp.le h.bdLen_le
  exact expandLoop_phase1 hcb _ _ _ _ _ (by rw [h.lenOrder]; omega) ⟨h, hp.single, hno⟩ he


end CanonF
