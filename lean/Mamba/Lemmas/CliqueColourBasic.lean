import Mamba.Spec.CliqueColour
import Mathlib.Data.List.Basic
import Mathlib.Data.List.Sort
/-! Helper lemmas for C09: list maxima/minima, the subset enumeration, cliques. -/
namespace CliqueColour
open GraphSpec

/-! ### maxList / minList -/

theorem le_maxList {l : List Nat} {x : Nat} (h : x ∈ l) : x ≤ maxList l := by
  induction l with
  | nil => cases h
  | cons a t ih =>
    simp only [maxList, List.foldr_cons] at *
    rcases List.mem_cons.1 h with rfl | h
    · exact Nat.le_max_left _ _
    · exact Nat.le_trans (ih h) (Nat.le_max_right _ _)

theorem maxList_mem {l : List Nat} (h : l ≠ []) : maxList l ∈ l := by
  induction l with
  | nil => exact absurd rfl h
  | cons a t ih =>
    simp only [maxList, List.foldr_cons]
    by_cases ht : t = []
    · subst ht; simp
    · have := ih ht
      simp only [maxList] at this
      rcases Nat.le_total a (List.foldr max 0 t) with h1 | h1
      · rw [Nat.max_eq_right h1]; exact List.mem_cons_of_mem _ this
      · rw [Nat.max_eq_left h1]; exact List.mem_cons_self

theorem maxList_le {l : List Nat} {b : Nat} (h : ∀ x ∈ l, x ≤ b) : maxList l ≤ b := by
  induction l with
  | nil => simp [maxList]
  | cons a t ih =>
    simp only [maxList, List.foldr_cons]
    exact Nat.max_le.2 ⟨h a List.mem_cons_self, ih fun x hx => h x (List.mem_cons_of_mem _ hx)⟩

theorem foldr_min_le_init (a : Nat) (l : List Nat) : l.foldr min a ≤ a := by
  induction l with
  | nil => simp
  | cons b t ih => simp only [List.foldr_cons]; exact Nat.le_trans (Nat.min_le_right _ _) ih

theorem foldr_min_le_mem (a : Nat) {l : List Nat} {x : Nat} (h : x ∈ l) : l.foldr min a ≤ x := by
  induction l with
  | nil => cases h
  | cons b t ih =>
    simp only [List.foldr_cons]
    rcases List.mem_cons.1 h with rfl | h
    · exact Nat.min_le_left _ _
    · exact Nat.le_trans (Nat.min_le_right _ _) (ih h)

theorem foldr_min_mem (a : Nat) (l : List Nat) : l.foldr min a = a ∨ l.foldr min a ∈ l := by
  induction l with
  | nil => simp
  | cons b t ih =>
    simp only [List.foldr_cons]
    rcases Nat.le_total b (List.foldr min a t) with h1 | h1
    · rw [Nat.min_eq_left h1]; exact Or.inr List.mem_cons_self
    · rw [Nat.min_eq_right h1]
      rcases ih with h | h
      · exact Or.inl h
      · exact Or.inr (List.mem_cons_of_mem _ h)

theorem minList_le {l : List Nat} {x : Nat} (h : x ∈ l) : minList l ≤ x :=
  foldr_min_le_mem _ h

theorem minList_mem {l : List Nat} (h : l ≠ []) : minList l ∈ l := by
  cases l with
  | nil => exact absurd rfl h
  | cons a t =>
    rcases foldr_min_mem a (a :: t) with h1 | h1
    · simp only [minList, List.headD_cons]; rw [h1]; exact List.mem_cons_self
    · exact h1

/-! ### nodupB -/

theorem nodupB_iff (l : List Nat) : nodupB l = true ↔ l.Nodup := by
  induction l with
  | nil => simp [nodupB]
  | cons a t ih => simp [nodupB, ih]

/-! ### subsets -/

theorem mem_lexSubs {l s : List Nat} : s ∈ lexSubs l ↔ s ≠ [] ∧ s.Sublist l := by
  induction l generalizing s with
  | nil => simp [lexSubs]
  | cons x xs ih =>
    simp only [lexSubs, List.cons_append, List.mem_cons, List.mem_append, List.mem_map]
    constructor
    · rintro (rfl | ⟨t, ht, rfl⟩ | h)
      · exact ⟨by simp, by simp⟩
      · exact ⟨by simp, ((ih.1 ht).2).cons_cons x⟩
      · exact ⟨(ih.1 h).1, ((ih.1 h).2).cons x⟩
    · rintro ⟨hne, hs⟩
      rcases List.sublist_cons_iff.1 hs with h | ⟨t, rfl, ht⟩
      · exact Or.inr (Or.inr (ih.2 ⟨hne, h⟩))
      · by_cases htn : t = []
        · subst htn; exact Or.inl rfl
        · exact Or.inr (Or.inl ⟨t, ih.2 ⟨htn, ht⟩, rfl⟩)

theorem mem_subsets {l s : List Nat} : s ∈ subsets l ↔ s.Sublist l := by
  simp only [subsets, List.mem_cons, mem_lexSubs]
  constructor
  · rintro (rfl | h)
    · exact List.nil_sublist _
    · exact h.2
  · intro h
    by_cases hs : s = []
    · exact Or.inl hs
    · exact Or.inr ⟨hs, h⟩

theorem nodup_lexSubs {l : List Nat} (h : l.Nodup) : (lexSubs l).Nodup := by
  induction l with
  | nil => simp [lexSubs]
  | cons x xs ih =>
    have hx : x ∉ xs := (List.nodup_cons.1 h).1
    have hxs := ih (List.nodup_cons.1 h).2
    simp only [lexSubs, List.cons_append]
    refine List.nodup_cons.2 ⟨?_, ?_⟩
    · simp only [List.mem_append, List.mem_map, not_or]
      constructor
      · rintro ⟨t, ht, he⟩
        have : t = [] := by simpa using he
        exact (mem_lexSubs.1 ht).1 this
      · intro hm
        exact hx ((mem_lexSubs.1 hm).2.subset List.mem_cons_self)
    · refine List.nodup_append.2 ⟨?_, hxs, ?_⟩
      · exact (List.nodup_map_iff (fun a b hab => by simpa using hab)).2 hxs
      · intro a ha b hb hab
        obtain ⟨t, _, rfl⟩ := List.mem_map.1 ha
        subst hab
        exact hx ((mem_lexSubs.1 hb).2.subset List.mem_cons_self)

theorem nodup_subsets {l : List Nat} (h : l.Nodup) : (subsets l).Nodup := by
  simp only [subsets]
  exact List.nodup_cons.2 ⟨fun hm => (mem_lexSubs.1 hm).1 rfl, nodup_lexSubs h⟩

/-- sublists of `range n` = strictly increasing lists below `n` -/
theorem sublist_range_iff {n : Nat} {s : List Nat} :
    s.Sublist (List.range n) ↔ s.Pairwise (· < ·) ∧ ∀ v ∈ s, v < n := by
  constructor
  · intro h
    exact ⟨List.Pairwise.sublist h List.pairwise_lt_range, fun v hv => List.mem_range.1 (h.subset hv)⟩
  · rintro ⟨hp, hb⟩
    have hnd : s.Nodup := hp.imp (fun h => Nat.ne_of_lt h)
    exact List.sublist_of_subperm_of_pairwise (r := (· < ·))
      (List.subperm_of_subset hnd fun v hv => List.mem_range.2 (hb v hv)) hp List.pairwise_lt_range

/-- canonical form of a vertex set -/
def canon (n : Nat) (s : List Nat) : List Nat := (List.range n).filter fun v => s.contains v

theorem canon_sublist (n : Nat) (s : List Nat) : (canon n s).Sublist (List.range n) :=
  List.filter_sublist

theorem mem_canon {n : Nat} {s : List Nat} {v : Nat} : v ∈ canon n s ↔ v < n ∧ v ∈ s := by
  simp [canon]

theorem canon_perm {n : Nat} {s : List Nat} (hn : s.Nodup) (hb : ∀ v ∈ s, v < n) : (canon n s).Perm s := by
  refine (List.perm_ext_iff_of_nodup ((List.nodup_range).sublist (canon_sublist n s)) hn).2 fun v => ?_
  rw [mem_canon]
  exact ⟨fun h => h.2, fun h => ⟨hb v h, h⟩⟩

/-! ### cliques -/

theorem pairwiseAdj_iff (g : G) (s : List Nat) :
    pairwiseAdj g s = true ↔ ∀ u ∈ s, ∀ v ∈ s, u ≠ v → g.adj u v = true := by
  simp only [pairwiseAdj, List.all_eq_true, Bool.or_eq_true, beq_iff_eq]
  constructor
  · intro h u hu v hv hne
    rcases h u hu v hv with h1 | h1
    · exact absurd h1 hne
    · exact h1
  · intro h u hu v hv
    by_cases he : u = v
    · exact Or.inl he
    · exact Or.inr (h u hu v hv he)

theorem isClique_iff (g : G) (s : List Nat) : isClique g s = true ↔ IsClique g s := by
  simp only [isClique, IsClique, Bool.and_eq_true, nodupB_iff, pairwiseAdj_iff, List.all_eq_true,
    decide_eq_true_eq, and_assoc]

theorem isMaximalClique_iff (g : G) (s : List Nat) : isMaximalClique g s = true ↔ IsMaximalClique g s := by
  simp only [isMaximalClique, IsMaximalClique, Bool.and_eq_true, isClique_iff, List.all_eq_true,
    List.mem_range, Bool.or_eq_true, List.contains_iff_mem, Bool.not_eq_true', List.all_eq_false]
  constructor
  · rintro ⟨hc, h⟩
    refine ⟨hc, fun v hv hnm => ?_⟩
    rcases h v hv with h1 | ⟨u, hu, h1⟩
    · exact absurd h1 hnm
    · exact ⟨u, hu, by simpa using h1⟩
  · rintro ⟨hc, h⟩
    refine ⟨hc, fun v hv => ?_⟩
    by_cases hm : v ∈ s
    · exact Or.inl hm
    · obtain ⟨u, hu, h1⟩ := h v hv hm
      exact Or.inr ⟨u, hu, by simpa using h1⟩

theorem IsClique.of_perm {g : G} {s t : List Nat} (h : IsClique g s) (hp : t.Perm s) : IsClique g t :=
  ⟨hp.nodup_iff.2 h.1, fun v hv => h.2.1 v (hp.subset hv),
    fun u hu v hv hne => h.2.2 u (hp.subset hu) v (hp.subset hv) hne⟩

theorem IsMaximalClique.of_perm {g : G} {s t : List Nat} (h : IsMaximalClique g s) (hp : t.Perm s) :
    IsMaximalClique g t := by
  refine ⟨h.1.of_perm hp, fun v hv hnm => ?_⟩
  obtain ⟨u, hu, h1⟩ := h.2 v hv (fun hm => hnm (hp.symm.subset hm))
  exact ⟨u, hp.symm.subset hu, h1⟩

theorem isClique_nil (g : G) : IsClique g [] := ⟨List.nodup_nil, by simp, by simp⟩

theorem cliqueNumberSpec_bound {g : G} {s : List Nat} (h : IsClique g s) : s.length ≤ cliqueNumberSpec g := by
  have hp := canon_perm h.1 h.2.1
  have hc : IsClique g (canon g.n s) := h.of_perm hp
  rw [← hp.length_eq]
  apply le_maxList
  refine List.mem_map.2 ⟨canon g.n s, List.mem_filter.2 ⟨mem_subsets.2 (canon_sublist _ _), ?_⟩, rfl⟩
  exact (isClique_iff _ _).2 hc

theorem cliqueNumberSpec_witness (g : G) :
    ∃ s, s.Sublist (List.range g.n) ∧ IsClique g s ∧ s.length = cliqueNumberSpec g := by
  have hne : ((subsets (List.range g.n)).filter (isClique g)).map List.length ≠ [] := by
    have : [] ∈ (subsets (List.range g.n)).filter (isClique g) :=
      List.mem_filter.2 ⟨mem_subsets.2 (List.nil_sublist _), (isClique_iff _ _).2 (isClique_nil g)⟩
    intro h
    have h2 := List.map_eq_nil_iff.1 h
    rw [h2] at this
    cases this
  obtain ⟨s, hs, hl⟩ := List.mem_map.1 (maxList_mem hne)
  have := List.mem_filter.1 hs
  exact ⟨s, mem_subsets.1 this.1, (isClique_iff _ _).1 this.2, hl⟩

theorem isClique_complement_iff (g : G) (s : List Nat) : IsClique g.complement s ↔ IsIndependent g s := by
  simp only [IsClique, IsIndependent, G.complement]
  constructor
  · rintro ⟨h1, h2, h3⟩
    refine ⟨h1, h2, fun u hu v hv hne => ?_⟩
    have := h3 u hu v hv hne
    simp only [Bool.and_eq_true, Bool.not_eq_true'] at this
    exact this.2
  · rintro ⟨h1, h2, h3⟩
    refine ⟨h1, h2, fun u hu v hv hne => ?_⟩
    simp [hne, h2 u hu, h2 v hv, h3 u hu v hv hne]

end CliqueColour
