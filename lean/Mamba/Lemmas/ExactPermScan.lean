import Mamba.Lemmas.ExactStruct
namespace Search
open Disjoint GSearch

theorem shift_and_one (vb u : Nat) : ((vb >>> u) &&& 1 = 1) ↔ vb.testBit u = true := by
  unfold Nat.testBit
  rw [Nat.and_comm 1, Nat.and_one_is_mod]
  have : (vb >>> u) % 2 = 0 ∨ (vb >>> u) % 2 = 1 := by omega
  rcases this with h | h <;> simp [h]

/-- the vertex at which the scan of `perm` stops -/
def firstHit (n vb : Nat) (l : List Nat) : Option Nat := l.find? fun u => u == n - 1 || vb.testBit u

/-- last loop of `isCanonical` -/
theorem permScan_spec (n vb correct : Nat) :
    ∀ (l : List Nat) (ds ds2 : DS) (b : Bool), Disjoint.Inv ds → (∀ u ∈ l, u < ds.size) →
      permScan n vb correct l ds = .ok (ds2, b) →
      Disjoint.Inv ds2 ∧ ds2.size = ds.size ∧ (∀ z, z < ds.size → rep ds2 z = rep ds z) ∧
      b = (match firstHit n vb l with
           | none => true
           | some u => u == n - 1 || correct == rep ds u)
  | [], ds, ds2, b, hi, _, h => by
    simp only [permScan, Outcome.ok.injEq, Prod.mk.injEq] at h
    obtain ⟨rfl, rfl⟩ := h
    exact ⟨hi, rfl, fun _ _ => rfl, rfl⟩
  | u :: us, ds, ds2, b, hi, hl, h => by
    simp only [permScan] at h
    by_cases h1 : u = n - 1
    · simp only [h1, if_true, Outcome.ok.injEq, Prod.mk.injEq] at h
      obtain ⟨rfl, rfl⟩ := h
      refine ⟨hi, rfl, fun _ _ => rfl, ?_⟩
      simp [firstHit, h1]
    · simp only [h1, if_false] at h
      by_cases h2 : (vb >>> u) &&& 1 = 1
      · simp only [h2, if_true] at h
        have hu : u < ds.size := hl u List.mem_cons_self
        obtain ⟨d', f, i', s', r'⟩ := find_spec hi u hu
        rw [f] at h
        simp only [Outcome.ok.injEq, Prod.mk.injEq] at h
        obtain ⟨rfl, rfl⟩ := h
        refine ⟨i', s', r', ?_⟩
        have ht : vb.testBit u = true := (shift_and_one vb u).1 h2
        have hne : (u == n - 1) = false := by simpa using h1
        simp [firstHit, ht, hne]
      · simp only [h2, if_false] at h
        obtain ⟨a1, a2, a3, a4⟩ := permScan_spec n vb correct us ds ds2 b hi
          (fun w hw => hl w (List.mem_cons_of_mem _ hw)) h
        refine ⟨a1, a2, a3, ?_⟩
        have ht : vb.testBit u = false := by
          cases hb : vb.testBit u
          · rfl
          · exact absurd ((shift_and_one vb u).2 hb) h2
        have hne : (u == n - 1) = false := by simpa using h1
        rw [a4]
        simp [firstHit, ht, hne]

end Search
