import Mamba.Lemmas.IterProd
namespace Iter.Spec

/-- all prefixes of `p ++ c` that are longer than `p` pass the test -/
def acceptAbove (t : List Int → Bool) (p c : List Int) : Bool :=
  (List.range c.length).all (fun l => t (p ++ c.take (l + 1)))

/-- all non-empty prefixes pass the test -/
def accept (t : List Int → Bool) (x : List Int) : Bool := acceptAbove t [] x

/-- the advertised family of `RestrictedPrefixProduct(t, dims...)`: the filter of the unrestricted enumeration -/
def rpprodList (t : List Int → Bool) (dims : List Int) : List (List Int) :=
  (prodList dims).filter (accept t)

/-- accepted tuples below the (already accepted) prefix `p`, in DFS = lexicographic order -/
def subT (t : List Int → Bool) : List Int → List Int → List (List Int)
  | p, [] => [p]
  | p, n :: ns => (List.range n.toNat).flatMap
      (fun (a : Nat) => if t (p ++ [(a : Int)]) then subT t (p ++ [(a : Int)]) ns else [])

end Iter.Spec

namespace Iter
open Spec

theorem acceptAbove_cons (t : List Int → Bool) (p : List Int) (a : Int) (c : List Int) :
    acceptAbove t p (a :: c) = (t (p ++ [a]) && acceptAbove t (p ++ [a]) c) := by
  simp [acceptAbove, List.range_succ_eq_map, List.all_map, Function.comp_def]

theorem subT_eq (t : List Int → Bool) : ∀ (ns p : List Int),
    subT t p ns = ((prodList ns).filter (acceptAbove t p)).map (p ++ ·) := by
  intro ns
  induction ns with
  | nil => intro p; simp [subT, prodList, acceptAbove]
  | cons n ns ih =>
    intro p
    simp only [subT, prodList, List.filter_flatMap, List.map_flatMap]
    congr 1
    funext a
    rw [List.filter_map, List.map_map]
    have : (acceptAbove t p ∘ fun x => (a : Int) :: x) = fun c => (t (p ++ [(a : Int)]) && acceptAbove t (p ++ [(a : Int)]) c) := by
      funext c; simp [acceptAbove_cons]
    rw [this]
    by_cases h : t (p ++ [(a : Int)])
    · simp [h, ih, Function.comp_def]
    · simp [h]

theorem subT_nil (t : List Int → Bool) (dims : List Int) : subT t [] dims = rpprodList t dims := by
  rw [subT_eq]
  have : accept t = acceptAbove t [] := rfl
  simp [rpprodList, this]

end Iter

namespace Iter.Spec

/-- the block of accepted tuples below the child `p ++ [a]` -/
def blkT (t : List Int → Bool) (p ns : List Int) (a : Nat) : List (List Int) :=
  if t (p ++ [(a : Int)]) then subT t (p ++ [(a : Int)]) ns else []

/-- accepted tuples below the later siblings of `p ++ [a]` (`n` = the factor at this level) -/
def sibsT (t : List Int → Bool) (p : List Int) (n : Int) (ns : List Int) (a : Int) : List (List Int) :=
  (List.range' (a.toNat + 1) (n.toNat - (a.toNat + 1))).flatMap (blkT t p ns)

/-- what the depth-first search still has to produce once the subtree of the current prefix is finished.
The position is a zipper: `rp` = the prefix reversed, `rd` = the factors of its levels reversed, `ns` = the
remaining factors (so the factors are `rd.reverse ++ ns`). -/
def afterZ (t : List Int → Bool) : List Int → List Int → List Int → List (List Int)
  | a :: rp, n :: rd, ns => sibsT t rp.reverse n ns a ++ afterZ t rp rd (n :: ns)
  | _, _, _ => []

/-- weight of a subtree: three label visits per node -/
def wT (ns : List Int) : Nat := 3 * treeSize ns

/-- label visits still to come after leaving the current prefix -/
def phi2 : List Int → List Int → List Int → Nat
  | a :: rp, n :: rd, ns => 1 + (n.toNat - 1 - a.toNat) * wT ns + phi2 rp rd (n :: ns)
  | _, _, _ => 0

end Iter.Spec

namespace Iter
open Spec

theorem subT_cons (t : List Int → Bool) (p : List Int) (n : Int) (ns : List Int) :
    subT t p (n :: ns) = (List.range n.toNat).flatMap (blkT t p ns) := rfl

theorem wT_cons (n : Int) (ns : List Int) : wT (n :: ns) = 3 + n.toNat * wT ns := by
  simp only [wT, treeSize]; rw [Nat.mul_add, Nat.mul_one, Nat.mul_left_comm]

theorem wT_pos (ns : List Int) : 3 ≤ wT ns := by
  cases ns with
  | nil => simp [wT, treeSize]
  | cons n ns => rw [wT_cons]; omega

/-- remaining output of the search at each label -/
def remT (t : List Int → Bool) (lbl : RPProd.Lbl) (rp rd ns : List Int) : List (List Int) :=
  match lbl with
  | .x1 => subT t rp.reverse ns ++ afterZ t rp rd ns
  | .x2 => afterZ t rp rd ns
  | .x3 => (if t rp.reverse then subT t rp.reverse ns else []) ++ afterZ t rp rd ns

/-- potential: label visits still to come, the current one included -/
def phiT (lbl : RPProd.Lbl) (rp rd ns : List Int) : Nat :=
  match lbl with
  | .x1 => wT ns - 2 + phi2 rp rd ns
  | .x2 => phi2 rp rd ns
  | .x3 => wT ns - 1 + phi2 rp rd ns

/-- positions inside the tree -/
def ValidT (lbl : RPProd.Lbl) (rp rd ns : List Int) : Prop :=
  List.Forall₂ (fun a n => 0 ≤ a ∧ a < n) rp rd ∧ (∀ n ∈ ns, (1 : Int) ≤ n) ∧
    (lbl = .x1 → ns ≠ []) ∧ (lbl ≠ .x1 → rp ≠ [])

/-- a list of leaves each of which is followed by exactly what the search produces after it -/
inductive Trail (t : List Int → Bool) (dims : List Int) : List (List Int) → Prop
  | nil : Trail t dims []
  | cons (rp rd : List Int) : List.Forall₂ (fun a n => 0 ≤ a ∧ a < n) rp rd → rp ≠ [] → rd.reverse = dims →
      Trail t dims (afterZ t rp rd []) → Trail t dims (rp.reverse :: afterZ t rp rd [])

/-- the states in which `Next` keeps returning false -/
def DeadSt (dims st : List Int) : Prop :=
  ∃ v n ns, st = [v] ∧ dims = n :: ns ∧ ¬ v < n - 1

/-- result of one run of the machine, as determined by the remaining output -/
def ResT (dims : List Int) (rem : List (List Int)) (r : Sl × Bool) : Prop :=
  match rem with
  | y :: _ => r = (y, true)
  | [] => r.2 = false ∧ DeadSt dims r.1

end Iter

namespace Iter
open Spec

theorem phi_x1_x3 (rp rd ns' : List Int) (n' : Int) (h : 1 ≤ n') :
    phiT .x3 (0 :: rp) (n' :: rd) ns' + 1 ≤ phiT .x1 rp rd (n' :: ns') := by
  simp only [phiT, phi2, wT_cons]
  have hw := wT_pos ns'
  obtain ⟨j, hj⟩ : ∃ j, n'.toNat = j + 1 := ⟨n'.toNat - 1, by omega⟩
  rw [hj, Nat.succ_mul]
  simp only [Int.toNat_zero, Nat.add_sub_cancel, Nat.sub_zero]
  omega

theorem phi_x2_x3 (a n : Int) (rp' rd' ns : List Int) (h0 : 0 ≤ a) (h : a < n - 1) :
    phiT .x3 ((a + 1) :: rp') (n :: rd') ns + 1 ≤ phiT .x2 (a :: rp') (n :: rd') ns := by
  simp only [phiT, phi2]
  have hw := wT_pos ns
  obtain ⟨j, hj⟩ : ∃ j, n.toNat - 1 - a.toNat = j + 1 := ⟨n.toNat - 1 - a.toNat - 1, by omega⟩
  have hj' : n.toNat - 1 - (a + 1).toNat = j := by omega
  rw [hj, hj', Nat.succ_mul]
  omega

theorem phi_x2_x2 (a n : Int) (rp' rd' ns : List Int) :
    phiT .x2 rp' rd' (n :: ns) + 1 ≤ phiT .x2 (a :: rp') (n :: rd') ns := by
  simp only [phiT, phi2]; omega

theorem phi_x3_x2 (rp rd ns : List Int) : phiT .x2 rp rd ns + 1 ≤ phiT .x3 rp rd ns := by
  simp only [phiT]; have := wT_pos ns; omega

theorem phi_x3_x1 (rp rd ns : List Int) : phiT .x1 rp rd ns + 1 ≤ phiT .x3 rp rd ns := by
  simp only [phiT]; have := wT_pos ns; omega

theorem rem_x1 (t : List Int → Bool) (rp rd ns' : List Int) (n' : Int) (h : 1 ≤ n') :
    remT t .x1 rp rd (n' :: ns') = remT t .x3 (0 :: rp) (n' :: rd) ns' := by
  simp only [remT, afterZ, subT_cons, sibsT]
  obtain ⟨j, hj⟩ : ∃ j, n'.toNat = j + 1 := ⟨n'.toNat - 1, by omega⟩
  rw [hj, List.range_eq_range', List.range'_succ]
  simp [blkT]

theorem rem_x2_adv (t : List Int → Bool) (a n : Int) (rp' rd' ns : List Int) (h0 : 0 ≤ a) (h : a < n - 1) :
    remT t .x2 (a :: rp') (n :: rd') ns = remT t .x3 ((a + 1) :: rp') (n :: rd') ns := by
  simp only [remT, afterZ, sibsT]
  obtain ⟨j, hj⟩ : ∃ j, n.toNat - (a.toNat + 1) = j + 1 := ⟨n.toNat - (a.toNat + 1) - 1, by omega⟩
  have hj' : n.toNat - ((a + 1).toNat + 1) = j := by omega
  have ha : (a + 1).toNat = a.toNat + 1 := by omega
  have hc : ((a.toNat + 1 : Nat) : Int) = a + 1 := by omega
  rw [hj, hj', ha, List.range'_succ]
  simp [blkT, hc]

theorem rem_x2_pop (t : List Int → Bool) (a n : Int) (rp' rd' ns : List Int) (h : ¬ a < n - 1) :
    remT t .x2 (a :: rp') (n :: rd') ns = remT t .x2 rp' rd' (n :: ns) := by
  simp only [remT, afterZ, sibsT]
  have : n.toNat - (a.toNat + 1) = 0 := by omega
  simp [this]

end Iter

namespace Iter
open Spec

theorem phiT_pos (lbl : RPProd.Lbl) (rp rd ns : List Int) (h : ValidT lbl rp rd ns) :
    1 ≤ phiT lbl rp rd ns := by
  have hw := wT_pos ns
  cases lbl with
  | x1 => simp only [phiT]; omega
  | x3 => simp only [phiT]; omega
  | x2 =>
    obtain ⟨hf, _, _, hne⟩ := h
    cases hf with
    | nil => exact absurd rfl (hne (by simp))
    | cons _ _ => simp only [phiT, phi2]; omega

theorem rpprod_run (t : List Int → Bool) : ∀ (fuel : Nat) (lbl : RPProd.Lbl) (rp rd ns : List Int),
    ValidT lbl rp rd ns → phiT lbl rp rd ns ≤ fuel →
    ∃ r, RPProd.run t (rd.reverse ++ ns) fuel lbl rp.reverse = .ok r ∧
      ResT (rd.reverse ++ ns) (remT t lbl rp rd ns) r ∧ Trail t (rd.reverse ++ ns) (remT t lbl rp rd ns) := by
  intro fuel
  induction fuel with
  | zero =>
    intro lbl rp rd ns hv hf
    have := phiT_pos lbl rp rd ns hv
    omega
  | succ fuel ih =>
    intro lbl rp rd ns hv hf
    obtain ⟨hfa, hpos, hx1, hnx1⟩ := hv
    cases lbl with
    | x1 =>
      obtain ⟨n', ns', rfl⟩ : ∃ n' ns', ns = n' :: ns' := by
        cases ns with
        | nil => exact absurd rfl (hx1 rfl)
        | cons a b => exact ⟨a, b, rfl⟩
      have hn' : 1 ≤ n' := hpos n' (by simp)
      have hv' : ValidT .x3 (0 :: rp) (n' :: rd) ns' :=
        ⟨List.Forall₂.cons ⟨by omega, by omega⟩ hfa, fun n hn => hpos n (by simp [hn]), by simp, by simp⟩
      have hphi := phi_x1_x3 rp rd ns' n' hn'
      obtain ⟨r, h1, h2, h3⟩ := ih .x3 (0 :: rp) (n' :: rd) ns' hv' (by omega)
      refine ⟨r, ?_, ?_, ?_⟩
      · simp only [RPProd.run]
        simpa using h1
      · rw [rem_x1 t rp rd ns' n' hn']; simpa using h2
      · rw [rem_x1 t rp rd ns' n' hn']; simpa using h3
    | x2 =>
      cases hfa with
      | nil => exact absurd rfl (hnx1 (by simp))
      | @cons a n rp' rd' han hfa' =>
        have hlen : rp'.length = rd'.length := hfa'.length_eq
        have hst : (a :: rp').reverse = rp'.reverse ++ [a] := by simp
        have hdm : (n :: rd').reverse ++ ns = rd'.reverse ++ n :: ns := by simp
        have g1 : get (rp'.reverse ++ [a]) (((rp'.reverse ++ [a]).length : Int) - 1) = .ok a := by
          have : (((rp'.reverse ++ [a]).length : Int) - 1) = (rp'.reverse.length : Int) := by simp
          rw [this]; exact get_append_length rp'.reverse [] a
        have g2 : get (rd'.reverse ++ n :: ns) (((rp'.reverse ++ [a]).length : Int) - 1) = .ok n := by
          have : (((rp'.reverse ++ [a]).length : Int) - 1) = (rd'.reverse.length : Int) := by simp [hlen]
          rw [this]; exact get_append_length rd'.reverse ns n
        rw [hst, hdm]
        simp only [RPProd.run, g1, g2, Outcome.bind_ok]
        by_cases hlt : a < n - 1
        · have s1 : set (rp'.reverse ++ [a]) (((rp'.reverse ++ [a]).length : Int) - 1) (a + 1)
              = .ok (rp'.reverse ++ [a + 1]) := by
            have : (((rp'.reverse ++ [a]).length : Int) - 1) = (rp'.reverse.length : Int) := by simp
            rw [this]; exact set_append_length rp'.reverse [] a (a + 1)
          simp only [hlt, if_true, s1, Outcome.bind_ok]
          have hv' : ValidT .x3 ((a + 1) :: rp') (n :: rd') ns :=
            ⟨List.Forall₂.cons ⟨by omega, by omega⟩ hfa', hpos, by simp, by simp⟩
          have hphi := phi_x2_x3 a n rp' rd' ns han.1 hlt
          obtain ⟨r, h1, h2, h3⟩ := ih .x3 ((a + 1) :: rp') (n :: rd') ns hv' (by omega)
          rw [rem_x2_adv t a n rp' rd' ns han.1 hlt]
          refine ⟨r, ?_, ?_, ?_⟩
          · simpa using h1
          · simpa using h2
          · simpa using h3
        · simp only [hlt, if_false]
          rw [rem_x2_pop t a n rp' rd' ns hlt]
          cases rp' with
          | nil =>
            cases hfa'
            refine ⟨([a], false), by simp, ?_, ?_⟩
            · simp only [remT, afterZ, ResT]
              exact ⟨trivial, a, n, ns, by simp, by simp, hlt⟩
            · simp only [remT, afterZ]; exact Trail.nil
          | cons b rp'' =>
            have hne : ((((b :: rp'').reverse ++ [a]).length == 1) = true) = False := by simp
            simp only [hne, if_false, List.dropLast_concat]
            have hpos' : ∀ m ∈ n :: ns, (1 : Int) ≤ m := by
              intro m hm
              rcases List.mem_cons.mp hm with rfl | h
              · omega
              · exact hpos m h
            have hv' : ValidT .x2 (b :: rp'') rd' (n :: ns) := ⟨hfa', hpos', by simp, by simp⟩
            have hphi := phi_x2_x2 a n (b :: rp'') rd' ns
            obtain ⟨r, h1, h2, h3⟩ := ih .x2 (b :: rp'') rd' (n :: ns) hv' (by omega)
            exact ⟨r, h1, by simpa using h2, by simpa using h3⟩
    | x3 =>
      simp only [RPProd.run]
      by_cases ht : t rp.reverse
      · simp only [ht, Bool.not_true, Bool.false_eq_true, if_false]
        cases ns with
        | cons n' ns' =>
          have hl : rp.reverse.length < (rd.reverse ++ n' :: ns').length := by
            simp [hfa.length_eq]
          simp only [hl, if_true]
          have hv' : ValidT .x1 rp rd (n' :: ns') := ⟨hfa, hpos, by simp, by simp⟩
          have hphi := phi_x3_x1 rp rd (n' :: ns')
          obtain ⟨r, h1, h2, h3⟩ := ih .x1 rp rd (n' :: ns') hv' (by omega)
          have e : remT t .x3 rp rd (n' :: ns') = remT t .x1 rp rd (n' :: ns') := by simp [remT, ht]
          rw [e]
          exact ⟨r, h1, h2, h3⟩
        | nil =>
          have hl : ¬ rp.reverse.length < (rd.reverse ++ []).length := by
            simp [hfa.length_eq]
          simp only [hl, if_false]
          have hv' : ValidT .x2 rp rd [] := ⟨hfa, hpos, by simp, by simp [hnx1]⟩
          have hphi := phi_x3_x2 rp rd []
          obtain ⟨_, _, _, h3⟩ := ih .x2 rp rd [] hv' (by omega)
          refine ⟨(rp.reverse, true), rfl, ?_, ?_⟩
          · simp [remT, ht, subT, ResT]
          · simp only [remT, ht, if_true, subT, List.singleton_append]
            exact Trail.cons rp rd hfa (hnx1 (by simp)) (by simp) (by simpa [remT] using h3)
      · simp only [ht, Bool.not_false, if_true]
        have hv' : ValidT .x2 rp rd ns := ⟨hfa, hpos, by simp, by simp [hnx1]⟩
        have hphi := phi_x3_x2 rp rd ns
        obtain ⟨r, h1, h2, h3⟩ := ih .x2 rp rd ns hv' (by omega)
        have e : remT t .x3 rp rd ns = remT t .x2 rp rd ns := by simp [remT, ht]
        rw [e]
        exact ⟨r, h1, h2, h3⟩

end Iter

namespace Iter
open Spec

/-- successor relation read off a trail -/
def RTrail (t : List Int → Bool) (dims : List Int) (x y : List Int) : Prop :=
  ∃ rp rd, List.Forall₂ (fun a n => 0 ≤ a ∧ a < n) rp rd ∧ rp ≠ [] ∧ rd.reverse = dims ∧ x = rp.reverse ∧
    (afterZ t rp rd []).head? = some y

theorem Trail.isChain {t : List Int → Bool} {dims : List Int} {l : List (List Int)} (h : Trail t dims l) :
    l.IsChain (RTrail t dims) := by
  induction h with
  | nil => exact List.IsChain.nil
  | cons rp rd hf hne hd _ ih =>
    cases hrest : afterZ t rp rd [] with
    | nil => exact List.IsChain.singleton _
    | cons y rest =>
      rw [hrest] at ih
      exact List.IsChain.cons_cons ⟨rp, rd, hf, hne, hd, rfl, by simp [hrest]⟩ ih

theorem Trail.last {t : List Int → Bool} {dims : List Int} {l : List (List Int)} (h : Trail t dims l) :
    ∀ x ∈ l.getLast?, ∃ rp rd, List.Forall₂ (fun a n => 0 ≤ a ∧ a < n) rp rd ∧ rp ≠ [] ∧ rd.reverse = dims ∧
      x = rp.reverse ∧ afterZ t rp rd [] = [] := by
  induction h with
  | nil => intro x hx; simp at hx
  | cons rp rd hf hne hd _ ih =>
    intro x hx
    cases hrest : afterZ t rp rd [] with
    | nil =>
      rw [hrest] at hx
      simp only [List.getLast?_singleton, Option.mem_def, Option.some.injEq] at hx
      exact ⟨rp, rd, hf, hne, hd, hx.symm, hrest⟩
    | cons y rest =>
      rw [hrest] at hx ih
      rw [List.getLast?_cons_cons] at hx
      exact ih x hx

theorem phi2_bound : ∀ (rp rd ns : List Int), List.Forall₂ (fun a n => 0 ≤ a ∧ a < n) rp rd →
    phi2 rp rd ns + wT ns ≤ wT (rd.reverse ++ ns) := by
  intro rp rd ns h
  induction h generalizing ns with
  | nil => simp [phi2]
  | @cons a n rp rd han _ ih =>
    have := ih (n :: ns)
    rw [wT_cons] at this
    simp only [phi2, List.reverse_cons, List.append_assoc, List.cons_append, List.nil_append]
    have hw := wT_pos ns
    obtain ⟨j, hj⟩ : ∃ j, n.toNat = j + 1 := ⟨n.toNat - 1, by omega⟩
    rw [hj, Nat.succ_mul] at this
    have hle : (n.toNat - 1 - a.toNat) * wT ns ≤ j * wT ns := Nat.mul_le_mul_right _ (by omega)
    omega

theorem rpprod_fuel_ok (dims : List Int) : wT dims ≤ RPProd.fuel dims := by
  simp only [wT, RPProd.fuel]; omega

end Iter

namespace Iter
open Spec

def RPProd.Rep (dims : List Int) (s : RPProd) (x : List Int) : Prop :=
  s.n = dims ∧ s.state = x ∧
    ((dims = [] ∧ s.empty = true) ∨ (s.empty = false ∧ dims ≠ [] ∧ ∀ n ∈ dims, (1 : Int) ≤ n))

def RPProd.Dead (dims : List Int) (s : RPProd) : Prop :=
  s.n = dims ∧ (s.empty = true ∨ DeadSt dims s.state)

theorem RPProd.run_dead (t : List Int → Bool) (v n : Int) (ns : List Int) (k : Nat) (hlt : ¬ v < n - 1) :
    RPProd.run t (n :: ns) (k + 1) .x2 [v] = .ok ([v], false) := by
  have g1 : get [v] (((([v] : List Int).length : Nat) : Int) - 1) = .ok v := by simp [get]
  have g2 : get (n :: ns) (((([v] : List Int).length : Nat) : Int) - 1) = .ok n := by simp [get]
  simp only [RPProd.run, g1, g2, Outcome.bind_ok, hlt, if_false]
  simp

theorem RPProd.next_dead (t : List Int → Bool) (dims : List Int) (s : RPProd) (h : RPProd.Dead dims s) :
    ∃ s', RPProd.next t s = .ok (s', false) ∧ RPProd.Dead dims s' := by
  obtain ⟨hn, hd⟩ := h
  by_cases he : s.empty = true
  · exact ⟨s, by simp [RPProd.next, he], hn, Or.inl he⟩
  · rcases hd with hd | ⟨v, n, ns, hst, hdims, hlt⟩
    · exact absurd hd he
    · refine ⟨s, ?_, hn, Or.inr ⟨v, n, ns, hst, hdims, hlt⟩⟩
      obtain ⟨k, hk⟩ : ∃ k, RPProd.fuel s.n = k + 1 := ⟨4 * treeSize s.n + 3, by simp [RPProd.fuel]⟩
      cases s
      simp_all [RPProd.next, RPProd.run_dead]

end Iter

namespace Iter
open Spec

theorem rpprodList_nil_of_lt (t : List Int → Bool) (dims : List Int) (h : ∃ n ∈ dims, n < 1) :
    rpprodList t dims = [] := by
  simp [rpprodList, (prodList_eq_nil_iff dims).mpr h]

/-- the first call on non-empty, all-positive factors -/
theorem RPProd.first_run (t : List Int → Bool) (dims : List Int) (hne : dims ≠ [])
    (hpos : ∀ n ∈ dims, (1 : Int) ≤ n) :
    ∃ r, RPProd.run t dims (RPProd.fuel dims) .x1 [] = .ok r ∧ ResT dims (rpprodList t dims) r ∧
      Trail t dims (rpprodList t dims) := by
  have hv : ValidT .x1 [] [] dims := ⟨List.Forall₂.nil, hpos, fun _ => hne, by simp⟩
  have hf : phiT .x1 [] [] dims ≤ RPProd.fuel dims := by
    have := rpprod_fuel_ok dims
    simp only [phiT, phi2]; omega
  obtain ⟨r, h1, h2, h3⟩ := rpprod_run t (RPProd.fuel dims) .x1 [] [] dims hv hf
  have e : remT t .x1 [] [] dims = rpprodList t dims := by
    simp [remT, afterZ, subT_nil]
  rw [e] at h2 h3
  exact ⟨r, by simpa using h1, by simpa using h2, by simpa using h3⟩

/-- a later call from a leaf -/
theorem RPProd.leaf_run (t : List Int → Bool) (rp rd : List Int)
    (hf : List.Forall₂ (fun a n => 0 ≤ a ∧ a < n) rp rd) (hne : rp ≠ []) :
    ∃ r, RPProd.run t rd.reverse (RPProd.fuel rd.reverse) .x2 rp.reverse = .ok r ∧
      ResT rd.reverse (afterZ t rp rd []) r := by
  have hv : ValidT .x2 rp rd [] := ⟨hf, by simp, by simp, fun _ => hne⟩
  have hfu : phiT .x2 rp rd [] ≤ RPProd.fuel (rd.reverse ++ []) := by
    have h1 := phi2_bound rp rd [] hf
    have h2 := rpprod_fuel_ok (rd.reverse ++ [])
    simp only [phiT]; omega
  obtain ⟨r, h1, h2, _⟩ := rpprod_run t (RPProd.fuel (rd.reverse ++ [])) .x2 rp rd [] hv hfu
  exact ⟨r, by simpa using h1, by simpa [remT] using h2⟩

theorem RPProd.enumerates_lemma (t : List Int → Bool) (dims : List Int) :
    ∀ bound, (rpprodList t dims).length < bound →
      ∃ s', outputs (RPProd.it t) bound (RPProd.init dims) = (rpprodList t dims, s', .exhausted) ∧
        ∀ k, extras (RPProd.it t) k s' = .ok (List.replicate k none) := by
  intro bound hb
  -- the three shapes of `dims`
  by_cases hlt : ∃ n ∈ dims, n < 1
  · -- empty family, `empty = true`
    have hany : dims.any (fun v => decide (v < 1)) = true := by
      simp only [List.any_eq_true, decide_eq_true_eq]; exact hlt
    have hL := rpprodList_nil_of_lt t dims hlt
    obtain ⟨s', h1, _, h3⟩ := enumerates_aux (RPProd.it t) (RPProd.Rep dims) (RPProd.Dead dims)
      (fun _ _ => False) (RPProd.init dims) (rpprodList t dims) (by rw [hL]; exact List.IsChain.nil)
      (by rintro s x ⟨hn, hs, h⟩; exact ⟨s, by simp [RPProd.it, hs], hn, hs, h⟩)
      (fun _ => RPProd.next_dead t dims _ ⟨rfl, Or.inl hany⟩)
      (by intro x hx; simp [hL] at hx)
      (fun _ _ h => h.elim)
      (by intro x hx; simp [hL] at hx)
      (fun s hs => RPProd.next_dead t dims s hs) bound hb
    exact ⟨s', h1, h3⟩
  · have hpos : ∀ n ∈ dims, (1 : Int) ≤ n := by
      intro n hn; by_contra hc; exact hlt ⟨n, hn, by omega⟩
    have hany : dims.any (fun v => decide (v < 1)) = false := by
      simp only [List.any_eq_false, decide_eq_true_eq]; intro n hn; have := hpos n hn; omega
    by_cases hnil : dims = []
    · -- the empty product: one (empty) tuple
      subst hnil
      have hL : rpprodList t [] = [[]] := by simp [rpprodList, prodList, accept, acceptAbove]
      obtain ⟨s', h1, _, h3⟩ := enumerates_aux (RPProd.it t) (RPProd.Rep []) (RPProd.Dead [])
        (fun _ _ => False) (RPProd.init []) (rpprodList t []) (by rw [hL]; exact List.IsChain.singleton _)
        (by rintro s x ⟨hn, hs, h⟩; exact ⟨s, by simp [RPProd.it, hs], hn, hs, h⟩)
        (by intro h; simp [hL] at h)
        (by
          intro x hx
          simp only [hL, List.head?_cons, Option.mem_def, Option.some.injEq] at hx
          subst hx
          exact ⟨⟨[], [], true⟩, by simp [RPProd.it, RPProd.next, RPProd.init], rfl, rfl, Or.inl ⟨rfl, rfl⟩⟩)
        (fun _ _ h => h.elim)
        (by
          rintro x _ s ⟨hn, _, h⟩
          rcases h with ⟨_, he⟩ | ⟨_, hne, _⟩
          · exact RPProd.next_dead t [] s ⟨hn, Or.inl he⟩
          · exact absurd rfl hne)
        (fun s hs => RPProd.next_dead t [] s hs) bound hb
      exact ⟨s', h1, h3⟩
    · -- the search proper
      obtain ⟨r, hr1, hr2, htrail⟩ := RPProd.first_run t dims hnil hpos
      have hinit : RPProd.next t (RPProd.init dims) = .ok (⟨r.1, dims, false⟩, r.2) := by
        have hl : dims.length ≠ 0 := by simpa using hnil
        simp [RPProd.next, RPProd.init, hany, hl, hr1]
      obtain ⟨s', h1, _, h3⟩ := enumerates_aux (RPProd.it t) (RPProd.Rep dims) (RPProd.Dead dims)
        (RTrail t dims) (RPProd.init dims) (rpprodList t dims) htrail.isChain
        (by rintro s x ⟨hn, hs, h⟩; exact ⟨s, by simp [RPProd.it, hs], hn, hs, h⟩)
        (by
          intro hL
          rw [hL] at hr2
          refine ⟨⟨r.1, dims, false⟩, ?_, rfl, Or.inr hr2.2⟩
          rw [show (RPProd.it t).next = RPProd.next t from rfl, hinit, hr2.1])
        (by
          intro x hx
          cases hL : rpprodList t dims with
          | nil => simp [hL] at hx
          | cons y rest =>
            rw [hL] at hr2 hx
            simp only [List.head?_cons, Option.mem_def, Option.some.injEq] at hx
            subst hx
            simp only [ResT] at hr2
            refine ⟨⟨r.1, dims, false⟩, ?_, rfl, by rw [hr2], Or.inr ⟨rfl, hnil, hpos⟩⟩
            rw [show (RPProd.it t).next = RPProd.next t from rfl, hinit, hr2])
        (by
          rintro x y ⟨rp, rd, hf, hne, hd, hx, hy⟩ s ⟨hn, hs, h⟩
          obtain ⟨r', h1', h2'⟩ := RPProd.leaf_run t rp rd hf hne
          rw [hd] at h1' h2'
          cases hA : afterZ t rp rd [] with
          | nil => simp [hA] at hy
          | cons z rest =>
            rw [hA] at hy h2'
            simp only [List.head?_cons, Option.some.injEq] at hy
            subst hy
            simp only [ResT] at h2'
            have hemp : s.empty = false := by
              rcases h with ⟨hd0, _⟩ | ⟨he, _, _⟩
              · exact absurd hd0 hnil
              · exact he
            have hl : s.state.length ≠ 0 := by
              rw [hs, hx]; simpa using hne
            refine ⟨{ s with state := z }, ?_, hn, rfl, h⟩
            simp only [RPProd.it, RPProd.next, hemp, hn, hs, hx, h1', h2']
            simp
            intro h0; exact absurd h0 hne)
        (by
          rintro x hx s ⟨hn, hs, h⟩
          obtain ⟨rp, rd, hf, hne, hd, hxe, hA⟩ := htrail.last x hx
          obtain ⟨r', h1', h2'⟩ := RPProd.leaf_run t rp rd hf hne
          rw [hd] at h1' h2'
          rw [hA] at h2'
          have hemp : s.empty = false := by
            rcases h with ⟨hd0, _⟩ | ⟨he, _, _⟩
            · exact absurd hd0 hnil
            · exact he
          have hl : s.state.length ≠ 0 := by
            rw [hs, hxe]; simpa using hne
          refine ⟨{ s with state := r'.1 }, ?_, hn, Or.inr h2'.2⟩
          simp only [RPProd.it, RPProd.next, hemp, hn, hs, hxe, h1']
          simp [h2'.1]
          intro h0; exact absurd h0 hne)
        (fun s hs => RPProd.next_dead t dims s hs) bound hb
      exact ⟨s', h1, h3⟩

end Iter

namespace Iter
open Spec

theorem accept_iff (t : List Int → Bool) (x : List Int) :
    accept t x = true ↔ ∀ l, 0 < l → l ≤ x.length → t (x.take l) = true := by
  simp only [accept, acceptAbove, List.all_eq_true, List.mem_range, List.nil_append]
  constructor
  · intro h l h0 hl
    have := h (l - 1) (by omega)
    rwa [show l - 1 + 1 = l by omega] at this
  · intro h l hl
    exact h (l + 1) (by omega) (by omega)

theorem mem_rpprodList (t : List Int → Bool) (dims x : List Int) :
    x ∈ rpprodList t dims ↔ InProd dims x ∧ ∀ l, 0 < l → l ≤ x.length → t (x.take l) = true := by
  simp [rpprodList, mem_prodList, accept_iff]

theorem rpprodList_sorted (t : List Int → Bool) (dims : List Int) :
    (rpprodList t dims).Pairwise (· < ·) :=
  (prodList_sorted dims).filter _

end Iter
