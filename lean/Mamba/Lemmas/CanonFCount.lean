import Mamba.Lemmas.CanonFCert
import Mathlib.Data.List.Perm.Basic
import Mathlib.Algebra.BigOperators.Group.List.Basic
namespace CanonF

/-- membership in the first `j` entries is "position `< j`" -/
theorem cnt_mem_take_iff (o : List Nat) (v : Nat) : ∀ j, j ≤ o.length → (v ∈ o.take j ↔ o.idxOf v < j) := by
  induction o with
  | nil => intro j hj; simp at hj; subst hj; simp
  | cons x xs ih =>
    intro j hj
    cases j with
    | zero => simp
    | succ j =>
      rw [List.take_succ_cons, List.idxOf_cons, List.mem_cons]
      by_cases hx : x = v
      · subst hx; simp
      · have hb : (x == v) = false := by simpa using hx
        have hx' : ¬ v = x := fun h => hx h.symm
        simp only [hb, cond_false, hx', false_or]
        rw [ih j (by simpa using hj)]
        omega

theorem cnt_filterMap_length (l : List Nat) (c : Nat → Bool) (f : Nat → Nat) :
    (l.filterMap (fun v => if c v then some (f v) else none)).length = (l.filter c).length := by
  induction l with
  | nil => rfl
  | cons x xs ih =>
    by_cases h : c x
    · simp [h, ih]
    · simp [h, ih]

/-- the number of earlier neighbours, counted along the order -/
theorem cnt_block_length {nb : Nbrs} {n : Nat} {o : List Nat} (hnb : NbOK nb n) (ho : o.Nodup)
    (j : Nat) (hj : j ≤ o.length) :
    (blockCodes nb o j).length = (o.take j).countP (fun v => decide (v ∈ nb.getD (o.getD j 0) [])) := by
  unfold blockCodes sortNat rawCodes
  rw [List.length_mergeSort]
  have h1 := cnt_filterMap_length (nb.getD (o.getD j 0) []) (fun v => decide (o.idxOf v < j))
    (fun v => tri j + o.idxOf v)
  simp only [decide_eq_true_eq] at h1
  rw [h1, List.countP_eq_length_filter]
  apply List.Perm.length_eq
  rw [List.perm_ext_iff_of_nodup ((hnb.nodup _).filter _) ((ho.sublist (List.take_sublist _ _)).filter _)]
  intro v
  simp only [List.mem_filter, decide_eq_true_eq]
  rw [cnt_mem_take_iff o v j hj]
  exact And.comm

theorem cnt_sum_map_ite (l : List Nat) (p : Nat → Bool) :
    (l.map (fun u => if p u then 1 else 0)).sum = l.countP p := by
  induction l with
  | nil => rfl
  | cons x xs ih =>
    by_cases h : p x
    · simp [h, ih]; omega
    · simp [h, ih]

/-- the number of ordered adjacent pairs inside `l` -/
def cntS (nb : Nbrs) (l : List Nat) : Nat :=
  (l.map (fun u => l.countP (fun v => decide (v ∈ nb.getD u [])))).sum

theorem cnt_S_snoc {nb : Nbrs} {n : Nat} (hnb : NbOK nb n) (l : List Nat) (x : Nat) :
    cntS nb (l ++ [x]) = cntS nb l + 2 * l.countP (fun v => decide (v ∈ nb.getD x [])) := by
  unfold cntS
  have hxx : x ∉ nb.getD x [] := hnb.irrefl x
  have e1 : ∀ u, (l ++ [x]).countP (fun v => decide (v ∈ nb.getD u [])) =
      l.countP (fun v => decide (v ∈ nb.getD u [])) + (if decide (x ∈ nb.getD u []) then 1 else 0) := by
    intro u
    rw [List.countP_append, List.countP_singleton]
  simp only [e1, List.map_append, List.sum_append, List.map_cons, List.map_nil, List.sum_cons, List.sum_nil,
    List.sum_map_add, cnt_sum_map_ite]
  have e2 : l.countP (fun u => decide (x ∈ nb.getD u [])) = l.countP (fun v => decide (v ∈ nb.getD x [])) := by
    apply List.countP_congr
    intro u _
    simp only [decide_eq_true_eq]
    exact ⟨hnb.symm u x, hnb.symm x u⟩
  rw [e2, if_neg (by simpa using hxx)]
  omega

theorem cnt_certPos_take {nb : Nbrs} {n : Nat} {o : List Nat} (hnb : NbOK nb n) (ho : o.Nodup) :
    ∀ s, s ≤ o.length → cntS nb (o.take s) = 2 * (certPos nb o s).length := by
  intro s
  induction s with
  | zero => intro _; simp [cntS, certPos]
  | succ s ih =>
    intro hs
    have hlt : s < o.length := by omega
    have e : o.take (s + 1) = o.take s ++ [o.getD s 0] := by
      rw [List.take_add_one, List.getD_eq_getElem?_getD, List.getElem?_eq_getElem hlt]
      rfl
    have e3 : certPos nb o (s + 1) = certPos nb o s ++ blockCodes nb o s := by
      unfold certPos
      rw [List.range_succ, List.flatMap_append]
      simp
    rw [e, cnt_S_snoc hnb, ih (by omega), e3, List.length_append, cnt_block_length hnb ho s (by omega)]
    omega

theorem cnt_S_full {nb : Nbrs} {n : Nat} {o : List Nat} (hnb : NbOK nb n) (hsz : nb.size = n)
    (ho : o.Perm (List.range n)) : cntS nb o = (nb.toList.map List.length).sum := by
  have hnd : o.Nodup := ho.nodup_iff.2 List.nodup_range
  have e1 : ∀ u, o.countP (fun v => decide (v ∈ nb.getD u [])) = (nb.getD u []).length := by
    intro u
    rw [List.countP_eq_length_filter]
    apply List.Perm.length_eq
    rw [List.perm_ext_iff_of_nodup (hnd.filter _) (hnb.nodup u)]
    intro v
    simp only [List.mem_filter, decide_eq_true_eq]
    constructor
    · exact fun h => h.2
    · intro h
      exact ⟨ho.mem_iff.2 (List.mem_range.2 (hnb.lt u v h).2), h⟩
  unfold cntS
  simp only [e1]
  rw [(ho.map _).sum_eq]
  congr 1
  apply List.ext_getElem
  · simp [hsz]
  · intro i h1 h2
    simp at h1 h2
    simp [Array.getD, h2]

/-- the full certificate has one entry per edge: its length is half the sum of the degrees -/
theorem certPos_length {nb : Nbrs} {n : Nat} {o : List Nat} (hnb : NbOK nb n) (hsz : nb.size = n)
    (ho : o.Perm (List.range n)) :
    (certPos nb o n).length = ((nb.toList.map List.length).sum) / 2 := by
  have hnd : o.Nodup := ho.nodup_iff.2 List.nodup_range
  have hlen : o.length = n := by simpa using ho.length_eq
  have h1 := cnt_certPos_take hnb hnd n (by omega)
  rw [← hlen, List.take_length, cnt_S_full hnb hsz ho] at h1
  rw [hlen] at h1
  omega

theorem cnt_getD_nbrsOf (g : GraphSpec.G) (u : Nat) :
    (nbrsOf g).getD u [] = if u < g.n then g.nbrs u else [] := by
  unfold nbrsOf
  by_cases h : u < g.n
  · simp [Array.getD, h]
  · simp [Array.getD, h]

theorem nbOK_nbrsOf (g : GraphSpec.G) (hg : g.WF) : NbOK (nbrsOf g) g.n ∧ (nbrsOf g).size = g.n := by
  refine ⟨⟨?_, ?_, ?_, ?_⟩, by simp [nbrsOf]⟩
  · intro u v h
    rw [cnt_getD_nbrsOf] at h
    split at h
    · next hu =>
      simp only [GraphSpec.G.nbrs, List.mem_filter, List.mem_range] at h
      exact ⟨hu, h.1⟩
    · simp at h
  · intro u v h
    rw [cnt_getD_nbrsOf] at h
    split at h
    · next hu =>
      simp only [GraphSpec.G.nbrs, List.mem_filter, List.mem_range] at h
      rw [cnt_getD_nbrsOf, if_pos h.1]
      simp only [GraphSpec.G.nbrs, List.mem_filter, List.mem_range]
      exact ⟨hu, by rw [hg.symm]; exact h.2⟩
    · simp at h
  · intro u h
    rw [cnt_getD_nbrsOf] at h
    split at h
    · simp only [GraphSpec.G.nbrs, List.mem_filter, List.mem_range] at h
      rw [hg.irrefl] at h
      simp at h
    · simp at h
  · intro u
    rw [cnt_getD_nbrsOf]
    split
    · exact List.nodup_range.filter _
    · exact List.nodup_nil

end CanonF
