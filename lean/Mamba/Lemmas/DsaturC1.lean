import Mamba.Lemmas.DsaturS7
/-! DSATUR model: the search-completeness invariant (definitions, the node-local symmetry lemma, dead paths). -/
namespace CliqueColour
open GraphSpec

/-- a proper colouring that only uses the colours `0 .. u-2` (what the search still looks for when the internal upper
bound is `u`) -/
def Good (g : G) (u : Int) (f : Nat → Nat) : Prop := Proper g f ∧ ∀ v, v < g.n → (f v : Int) + 2 ≤ u

/-- `f` agrees with the current colouring on `ws` -/
def Ext (s : Dsat) (ws : List Nat) (f : Nat → Nat) : Prop := ∀ w ∈ ws, (f w : Int) = colOf s w

/-- `f` extends the current path or one of the pending alternatives on the explicit stack -/
def InOpen (s : Dsat) (f : Nat → Nat) : Prop :=
  Ext s s.chosen f ∨ ∃ i t, i < s.chosen.length ∧ s.cur.getD i 0 < t ∧ t < (s.choices.getD i []).length ∧
    Ext s (s.chosen.take i) f ∧ f (s.chosen.getD i 0) = (s.choices.getD i []).getD t 0

/-- nothing that is still being looked for has been lost -/
def CInv (g : G) (s : Dsat) : Prop :=
  ∀ u : Int, u ≤ s.upper → (∃ f, Good g u f) → ∃ f, Good g u f ∧ InOpen s f

/-- all colours on the path are still allowed -/
def ColUp (s : Dsat) : Prop := ∀ w ∈ s.chosen, colOf s w + 2 ≤ s.upper

theorem DSInv.maxUsed_ge {g : G} {U0 : Nat} {s : Dsat} (h : DSInv g U0 s) : -1 ≤ s.maxUsed := by
  rw [h.mused]; exact maxCol_ge _ _

/-- the first-unused-colour symmetry break loses nothing: a good colouring that extends the path can be renamed so
that the next vertex `v` gets one of the options the code generates -/
theorem node_local {g : G} (hw : g.WF) {U0 : Nat} {s : Dsat} (h : DSInv g U0 s) {v : Nat} (hv : v ∈ s.heap)
    {u : Int} (hu : u ≤ s.upper) {f : Nat → Nat} (hf : Good g u f) (he : Ext s s.chosen f) :
    ∃ f', Good g u f' ∧ Ext s s.chosen f' ∧ f' v ∈ dsOptions s v := by
  obtain ⟨hvn, hvch⟩ := (h.hmem v).1 hv
  have hm1 := h.maxUsed_ge
  -- wlog the colour of `v` is at most `maxUsed + 1`
  obtain ⟨f', hf', he', hle⟩ : ∃ f', Good g u f' ∧ Ext s s.chosen f' ∧ (f' v : Int) ≤ s.maxUsed + 1 := by
    by_cases hle : (f v : Int) ≤ s.maxUsed + 1
    · exact ⟨f, hf, he, hle⟩
    · have hgt : s.maxUsed + 1 < (f v : Int) := by omega
      refine ⟨fun w => swapCol (f v) (s.maxUsed + 1).toNat (f w), ⟨?_, ?_⟩, ?_, ?_⟩
      · intro a b ha hb hadj hab
        exact hf.1 a b ha hb hadj (swapCol_inj _ _ hab)
      · intro w hwn
        have h1 := hf.2 w hwn
        have h2 := hf.2 v hvn
        simp only [swapCol]
        split_ifs <;> omega
      · intro w hwc
        have h1 := he w hwc
        have h2 := le_maxCol (colOf s) hwc
        rw [← h.mused] at h2
        simp only [swapCol]
        rw [if_neg (by omega), if_neg (by omega)]
        exact h1
      · simp only [swapCol, if_true]
        omega
  refine ⟨f', hf', he', mem_dsOptions.2 ⟨hle, by have := hf'.2 v hvn; omega, ?_⟩⟩
  have hU : f' v < U0 := by
    have := hf'.2 v hvn; have := h.uple; omega
  rw [h.seenH v hv (f' v) hU, cntCol_eq_zero]
  intro w hwc hadj hcol
  have := he' w hwc
  exact hf'.1 v w hvn (h.chlt w hwc) hadj (by omega)

/-- a vertex without options: no good colouring extends the path -/
theorem dead_no_options {g : G} (hw : g.WF) {U0 : Nat} {s : Dsat} (h : DSInv g U0 s) {v : Nat} (hv : v ∈ s.heap)
    (hopt : dsOptions s v = []) {u : Int} (hu : u ≤ s.upper) {f : Nat → Nat} (hf : Good g u f) :
    ¬ Ext s s.chosen f := by
  intro he
  obtain ⟨f', _, _, hmem⟩ := node_local hw h hv hu hf he
  rw [hopt] at hmem; cases hmem

/-- a complete colouring that has just been recorded: nothing with fewer colours extends it -/
theorem dead_complete {g : G} {U0 : Nat} {s : Dsat} (h : DSInv g U0 s) (hempty : s.heap = []) {u : Int}
    (hu : u ≤ s.maxUsed + 1) {f : Nat → Nat} (hf : Good g u f) : ¬ Ext s s.chosen f := by
  intro he
  have h0 : 0 ∈ s.chosen := h.all_chosen hempty 0 h.npos
  rcases maxCol_attained (colOf s) s.chosen with hm | ⟨w, hwc, hwe⟩
  · have := le_maxCol (colOf s) h0
    have := h.col_nonneg h0
    omega
  · have h1 := he w hwc
    have h2 := hf.2 w (h.chlt w hwc)
    rw [h.mused] at hu
    omega

end CliqueColour
