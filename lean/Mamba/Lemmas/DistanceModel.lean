import Mamba.Lemmas.DistanceBfs
import Mamba.Model.Distances
/-!
# Lemmas for C10: the faithful model of `Distance` (queue BFS with "0 = unseen") computes the reference distance

The invariant follows the queue `Q = A ++ B`: `A` holds vertices labelled `d` (the level being processed), `B`
vertices labelled `d+1`. The source keeps label `0` ("unseen") and may be queued a second time with label `2`
(a "ghost"); the ghost never finds an unlabelled neighbour, which is why the quirk is harmless.
-/
namespace GDist
open GraphSpec

def lbl (D : Array Nat) (v : Nat) : Nat := D.getD v 0

theorem lbl_of_lt {D : Array Nat} {v : Nat} (h : v < D.size) : D[v] = lbl D v := by
  simp [lbl, Array.getD, h]

theorem lbl_set {D : Array Nat} {v x w : Nat} (h : v < D.size) :
    lbl (D.set v x h) w = if w = v then x else lbl D w := by
  unfold lbl
  by_cases hwv : w = v
  · subst hwv; simp [Array.getD, h]
  · simp only [hwv, if_false]
    by_cases hw : w < D.size
    · have hne : v ≠ w := fun h => hwv h.symm
      simp [Array.getD, hw, Array.getElem_set_ne, hne]
    · simp [Array.getD, hw]

theorem mem_nbrs {g : G} {k v : Nat} : v ∈ g.nbrs k ↔ v < g.n ∧ g.adj k v = true := by
  simp [G.nbrs, List.mem_filter]

structure DInv (g : G) (i j d : Nat) (A B : List Nat) (D : Array Nat) (k : Nat) (vs : List Nat) : Prop where
  size : D.size = g.n
  isrc : i < g.n
  lab : ∀ v, v < g.n → v ≠ i → lbl D v ≠ 0 → IsDist g i v (lbl D v)
  labA : ∀ x ∈ A, x < g.n ∧ lbl D x = d
  labB : ∀ x ∈ B, x < g.n ∧ lbl D x = d + 1
  levA : ∀ x ∈ A, x ≠ i → IsDist g i x d
  a0 : d = 0 → A = [] ∨ (A = [i] ∧ vs = [])
  complete : ∀ v k', v < g.n → v ≠ i → IsDist g i v k' → k' ≤ d → lbl D v = k'
  procd : ∀ u v, IsDist g i u d → u ∉ A → g.adj u v = true → v < g.n → v ≠ i → (u = k → v ∉ vs) → lbl D v ≠ 0
  inB : ∀ v, v < g.n → v ≠ i → lbl D v = d + 1 → v ∈ B
  bound : ∀ v, lbl D v ≤ d + 1
  tgt : lbl D j = 0

variable {g : G} {i j : Nat}

theorem isDist_self (hi : i < g.n) : IsDist g i i 0 :=
  ⟨.base (List.mem_range.2 hi), fun _ h => absurd h (Nat.not_lt_zero _)⟩

theorem isDist_zero_eq {v : Nat} (h : IsDist g i v 0) : v = i := (walkIn_zero_iff.1 h.1).1

theorem isDist_one {v : Nat} (hi : i < g.n) (hv : v < g.n) (hne : v ≠ i) (hadj : g.adj i v = true) :
    IsDist g i v 1 := by
  refine ⟨.step (.base (List.mem_range.2 hi)) hadj (List.mem_range.2 hv), ?_⟩
  intro j' hj' hw
  have : j' = 0 := by omega
  subst this
  exact hne (walkIn_zero_iff.1 hw).1

theorem dinv_init (hi : i < g.n) : DInv g i j 0 [i] [] (Array.replicate g.n 0) 0 [] := by
  have hl : ∀ v, lbl (Array.replicate g.n 0) v = 0 := by
    intro v; unfold lbl
    by_cases hv : v < g.n <;> simp [Array.getD, hv]
  refine { size := by simp, isrc := hi, lab := ?_, labA := ?_, labB := ?_, levA := ?_, a0 := ?_, complete := ?_,
           procd := ?_, inB := ?_, bound := ?_, tgt := hl j }
  · intro v _ _ h; exact absurd (hl v) h
  · intro x hx; simp at hx; subst hx; exact ⟨hi, hl _⟩
  · intro x hx; cases hx
  · intro x hx hne; simp at hx; exact absurd hx hne
  · intro _; exact .inr ⟨rfl, rfl⟩
  · intro v k' _ hne hd hk
    have : k' = 0 := by omega
    subst this
    exact absurd (isDist_zero_eq hd) hne
  · intro u v hu hnA
    have := isDist_zero_eq hu
    subst this
    simp at hnA
  · intro v _ _ h; rw [hl] at h; omega
  · intro v; rw [hl]; omega

/-- the key step: an unlabelled neighbour of the vertex being processed is at distance exactly `d+1` -/
theorem dinv_new_label {d : Nat} {A B : List Nat} {D : Array Nat} {k : Nat} {vs : List Nat}
    (inv : DInv g i j d A B D k vs) (hkd : k ≠ i → IsDist g i k d)
    {v : Nat} (hadj : g.adj k v = true) (hv : v < g.n) (hvi : v ≠ i) (hz : lbl D v = 0) :
    IsDist g i v (d+1) := by
  have hmin : ∀ j', j' < d + 1 → ¬ Walk g i v j' := by
    intro j' hj' hw
    obtain ⟨k', hk', hd⟩ := exists_isDistIn_of_walk hw
    have := inv.complete v k' hv hvi hd (by omega)
    rw [hz] at this
    subst this
    exact hvi (isDist_zero_eq hd)
  by_cases hki : k = i
  · subst hki
    by_cases hd0 : d = 0
    · subst hd0; exact isDist_one inv.isrc hv hvi hadj
    · have h1 := isDist_one inv.isrc hv hvi hadj
      have := inv.complete v 1 hv hvi h1 (by omega)
      rw [hz] at this; cases this
  · exact ⟨.step (hkd hki).1 hadj (List.mem_range.2 hv), hmin⟩

theorem dinv_rebracket {d : Nat} {B : List Nat} {D : Array Nat} {k : Nat}
    (inv : DInv g i j d [] B D k []) : DInv g i j (d+1) B [] D k [] := by
  have hcomplete : ∀ v k', v < g.n → v ≠ i → IsDist g i v k' → k' ≤ d + 1 → lbl D v = k' := by
    intro v k' hv hvi hd hk
    by_cases hkd : k' ≤ d
    · exact inv.complete v k' hv hvi hd hkd
    · have : k' = d + 1 := by omega
      subst this
      obtain ⟨u, hu, hadj⟩ := hd.pred
      have hnz := inv.procd u v hu (by simp) hadj hv hvi (fun _ => by simp)
      exact (inv.lab v hv hvi hnz).unique hd
  refine { size := inv.size, isrc := inv.isrc, lab := inv.lab, labA := inv.labB, labB := ?_, levA := ?_,
           a0 := ?_, complete := hcomplete, procd := ?_, inB := ?_, bound := ?_, tgt := inv.tgt }
  · intro x hx; cases hx
  · intro x hx hxi
    obtain ⟨hxn, hxl⟩ := inv.labB x hx
    have := inv.lab x hxn hxi (by omega)
    rwa [hxl] at this
  · intro h; omega
  · intro u v hu hnB
    exfalso
    by_cases hui : u = i
    · subst hui
      have := hu.unique (isDist_self inv.isrc)
      omega
    · have hun : u < g.n := List.mem_range.1 hu.1.mem_V
      exact hnB (inv.inB u hun hui (hcomplete u (d+1) hun hui hu (Nat.le_refl _)))
  · intro v _ _ h
    have := inv.bound v
    omega
  · intro v; have := inv.bound v; omega

theorem dinv_pop {d : Nat} {A' B : List Nat} {D : Array Nat} {k k0 : Nat}
    (inv : DInv g i j d (k :: A') B D k0 []) : DInv g i j d A' B D k (g.nbrs k) := by
  refine { size := inv.size, isrc := inv.isrc, lab := inv.lab, labA := ?_, labB := inv.labB, levA := ?_,
           a0 := ?_, complete := inv.complete, procd := ?_, inB := inv.inB, bound := inv.bound, tgt := inv.tgt }
  · intro x hx; exact inv.labA x (List.mem_cons_of_mem _ hx)
  · intro x hx; exact inv.levA x (List.mem_cons_of_mem _ hx)
  · intro hd
    rcases inv.a0 hd with h | ⟨h, _⟩
    · cases h
    · left; simp at h; exact h.2
  · intro u v hu hnA hadj hv hvi hcl
    by_cases huk : u = k
    · subst huk
      exact absurd (mem_nbrs.2 ⟨hv, hadj⟩) (hcl rfl)
    · exact inv.procd u v hu (by simp [huk, hnA]) hadj hv hvi (fun _ => by simp)

theorem dinv_skip {d : Nat} {A' B : List Nat} {D : Array Nat} {k v : Nat} {vs : List Nat}
    (inv : DInv g i j d A' B D k (v :: vs)) (hnz : v ≠ i → lbl D v ≠ 0) : DInv g i j d A' B D k vs := by
  refine { size := inv.size, isrc := inv.isrc, lab := inv.lab, labA := inv.labA, labB := inv.labB,
           levA := inv.levA, a0 := ?_, complete := inv.complete, procd := ?_, inB := inv.inB,
           bound := inv.bound, tgt := inv.tgt }
  · intro hd
    rcases inv.a0 hd with h | ⟨_, h⟩
    · exact .inl h
    · cases h
  · intro u v' hu hnA hadj hv' hvi hcl
    by_cases hvv : v' = v
    · subst hvv; exact hnz hvi
    · refine inv.procd u v' hu hnA hadj hv' hvi ?_
      intro huk hmem
      rcases List.mem_cons.1 hmem with h | h
      · exact hvv h
      · exact hcl huk h

theorem dinv_label {d : Nat} {A' B : List Nat} {D : Array Nat} {k v : Nat} {vs : List Nat}
    (inv : DInv g i j d A' B D k (v :: vs)) (hkd : k ≠ i → IsDist g i k d)
    (hadj : g.adj k v = true) (hv : v < D.size) (hz : lbl D v = 0) (hvj : v ≠ j) :
    DInv g i j d A' (B ++ [v]) (D.set v (d+1) hv) k vs := by
  have hvn : v < g.n := by rw [← inv.size]; exact hv
  have hA' : d = 0 → A' = [] := by
    intro hd
    rcases inv.a0 hd with h | ⟨_, h⟩
    · exact h
    · cases h
  have hl : ∀ w, lbl (D.set v (d+1) hv) w = if w = v then d + 1 else lbl D w := fun w => lbl_set hv
  refine { size := by simp [inv.size], isrc := inv.isrc, lab := ?_, labA := ?_, labB := ?_, levA := inv.levA,
           a0 := fun hd => .inl (hA' hd), complete := ?_, procd := ?_, inB := ?_, bound := ?_, tgt := ?_ }
  · intro w hw hwi hnz
    rw [hl] at hnz ⊢
    by_cases hwv : w = v
    · subst hwv; simp only [if_true]
      exact dinv_new_label inv hkd hadj hw hwi hz
    · simp only [hwv, if_false] at hnz ⊢
      exact inv.lab w hw hwi hnz
  · intro x hx
    obtain ⟨hxn, hxl⟩ := inv.labA x hx
    refine ⟨hxn, ?_⟩
    rw [hl]
    by_cases hxv : x = v
    · subst hxv
      have hd : d = 0 := by omega
      rw [hA' hd] at hx; cases hx
    · simp [hxv, hxl]
  · intro x hx
    rw [hl]
    rcases List.mem_append.1 hx with hx | hx
    · obtain ⟨hxn, hxl⟩ := inv.labB x hx
      by_cases hxv : x = v
      · subst hxv; omega
      · simp [hxv, hxl, hxn]
    · simp at hx; subst hx; simp [hvn]
  · intro w k' hw hwi hd hk'
    rw [hl]
    by_cases hwv : w = v
    · subst hwv
      have := inv.complete w k' hw hwi hd hk'
      rw [hz] at this
      subst this
      exact absurd (isDist_zero_eq hd) hwi
    · simp only [hwv, if_false]
      exact inv.complete w k' hw hwi hd hk'
  · intro u v' hu hnA hadj' hv' hvi hcl
    rw [hl]
    by_cases hvv : v' = v
    · simp [hvv]
    · simp only [hvv, if_false]
      refine inv.procd u v' hu hnA hadj' hv' hvi ?_
      intro huk hmem
      rcases List.mem_cons.1 hmem with h | h
      · exact hvv h
      · exact hcl huk h
  · intro w hw hwi hlw
    rw [hl] at hlw
    by_cases hwv : w = v
    · subst hwv; simp
    · simp only [hwv, if_false] at hlw
      exact List.mem_append.2 (.inl (inv.inB w hw hwi hlw))
  · intro w
    rw [hl]
    by_cases hwv : w = v
    · simp [hwv]
    · simp only [hwv, if_false]; exact inv.bound w
  · rw [hl]
    have : j ≠ v := fun h => hvj h.symm
    simp only [this, if_false]
    exact inv.tgt

/-- what the inner loop of `Distance` does, from an invariant state -/
theorem distInner_spec (hij : i ≠ j) {d : Nat} {A' : List Nat} {k : Nat}
    (hkd : k ≠ i → IsDist g i k d) :
    ∀ (vs : List Nat) (B : List Nat) (D : Array Nat), DInv g i j d A' B D k vs →
      (∀ v ∈ vs, v < g.n ∧ g.adj k v = true) →
      (∃ r, Model.distInner j d vs D (A' ++ B) = .ok (.inl r) ∧ IsDist g i j r) ∨
      (∃ D' B', Model.distInner j d vs D (A' ++ B) = .ok (.inr (D', A' ++ B')) ∧
        DInv g i j d A' B' D' k [] ∧
        (A' ++ B').length + D'.count 0 = (A' ++ B).length + D.count 0) := by
  intro vs
  induction vs with
  | nil =>
    intro B D inv _
    exact .inr ⟨D, B, rfl, inv, rfl⟩
  | cons v vs ih =>
    intro B D inv hvs
    have ⟨hvn, hadj⟩ := hvs v List.mem_cons_self
    have hvs' : ∀ w ∈ vs, w < g.n ∧ g.adj k w = true := fun w hw => hvs w (List.mem_cons_of_mem _ hw)
    have hvD : v < D.size := by rw [inv.size]; exact hvn
    unfold Model.distInner
    simp only [hvD, dif_pos]
    rw [lbl_of_lt hvD]
    by_cases hz : lbl D v = 0
    · simp only [hz, if_true]
      by_cases hvj : v = j
      · simp only [hvj, if_true]
        left
        have hvi : v ≠ i := by rw [hvj]; exact fun h => hij h.symm
        subst hvj
        exact ⟨d+1, rfl, dinv_new_label inv hkd hadj hvn hvi hz⟩
      · simp only [hvj, if_false]
        have inv' := dinv_label inv hkd hadj hvD hz hvj
        have := ih (B ++ [v]) (D.set v (d+1) hvD) inv' hvs'
        rw [← List.append_assoc] at this
        rcases this with ⟨r, h1, h2⟩ | ⟨D', B', h1, h2, h3⟩
        · exact .inl ⟨r, h1, h2⟩
        · refine .inr ⟨D', B', h1, h2, ?_⟩
          rw [h3, Array.count_set hvD]
          have hpos : 0 < D.count 0 := by
            rw [Array.count_pos_iff]
            have : D[v] = 0 := by rw [lbl_of_lt hvD]; exact hz
            rw [← this]; exact Array.getElem_mem hvD
          have hDv : D[v] = 0 := by rw [lbl_of_lt hvD]; exact hz
          simp only [hDv, beq_self_eq_true, if_true]
          have : (d + 1 == 0) = false := by simp
          simp only [this, Bool.false_eq_true, if_false, List.length_append, List.length_cons, List.length_nil]
          omega
    · simp only [hz, if_false]
      exact ih B D (dinv_skip inv (fun _ => hz)) hvs'

/-- when the queue is empty the target is unreachable -/
theorem dinv_empty {d : Nat} {D : Array Nat} {k : Nat} (hij : i ≠ j) (hj : j < g.n)
    (inv : DInv g i j d [] [] D k []) : dist g i j = none := by
  rw [dist, distIn_eq_none_iff]
  intro k' hw
  obtain ⟨k'', _, hd⟩ := exists_isDistIn_of_walk hw
  have hji : j ≠ i := fun h => hij h.symm
  by_cases hle : k'' ≤ d
  · have := inv.complete j k'' hj hji hd hle
    rw [inv.tgt] at this
    subst this
    exact hji (isDist_zero_eq hd)
  · obtain ⟨y, hy⟩ := hd.exists_le (d+1) (by omega)
    have inv' := dinv_rebracket inv
    have hyi : y ≠ i := by
      intro h; subst h
      have := hy.unique (isDist_self inv.isrc)
      omega
    have hyn : y < g.n := List.mem_range.1 hy.1.mem_V
    have hl := inv'.complete y (d+1) hyn hyi hy (Nat.le_refl _)
    have := inv.inB y hyn hyi hl
    cases this

theorem distOuter_spec (hij : i ≠ j) (hj : j < g.n) :
    ∀ (fuel : Nat) (D : Array Nat) (Q : List Nat) (d : Nat) (A B : List Nat) (k0 : Nat),
      Q = A ++ B → DInv g i j d A B D k0 [] → Q.length + D.count 0 + 1 ≤ fuel →
      Model.distOuter g j fuel D Q = .ok (optToInt (dist g i j)) := by
  intro fuel
  induction fuel with
  | zero => intro D Q d A B k0 _ _ hf; omega
  | succ f ih =>
    intro D Q d A B k0 hQ inv hf
    cases Q with
    | nil =>
      obtain ⟨hA, hB⟩ := List.append_eq_nil_iff.1 hQ.symm
      subst hA; subst hB
      simp only [Model.distOuter]
      rw [dinv_empty hij hj inv]; rfl
    | cons k Q' =>
      -- bring the state into the form  k :: A' ++ B'
      obtain ⟨d', A', B', hQ', inv'⟩ :
          ∃ d' A' B', Q' = A' ++ B' ∧ DInv g i j d' (k :: A') B' D k0 [] := by
        cases A with
        | nil =>
          simp only [List.nil_append] at hQ
          subst hQ
          exact ⟨d+1, Q', [], by simp, dinv_rebracket inv⟩
        | cons a A' =>
          simp only [List.cons_append, List.cons.injEq] at hQ
          obtain ⟨rfl, rfl⟩ := hQ
          exact ⟨d, A', B, rfl, inv⟩
      have ⟨hkn, hkl⟩ := inv'.labA k List.mem_cons_self
      have hkD : k < D.size := by rw [inv'.size]; exact hkn
      have hkd : k ≠ i → IsDist g i k d' := inv'.levA k List.mem_cons_self
      have inv2 := dinv_pop inv'
      have hnb : ∀ v ∈ g.nbrs k, v < g.n ∧ g.adj k v = true := fun v hv => mem_nbrs.1 hv
      simp only [Model.distOuter, hkD, dif_pos]
      rw [lbl_of_lt hkD, hkl, hQ']
      rcases distInner_spec hij hkd (g.nbrs k) B' D inv2 hnb with ⟨r, h1, h2⟩ | ⟨D', B'', h1, h2, h3⟩
      · rw [h1]
        simp only
        rw [dist, distIn_eq_some_iff.2 h2]; rfl
      · rw [h1]
        simp only
        apply ih D' (A' ++ B'') d' A' B'' k rfl h2
        rw [h3, ← hQ']
        simp only [List.length_cons] at hf
        omega

/-- the faithful model of `Distance` returns the reference distance (`-1` for "no path") -/
theorem distance_eq_dist (g : G) (i j : Nat) (hi : i < g.n) (hj : j < g.n) (fuel : Nat) (hf : g.n + 2 ≤ fuel) :
    Model.distance g i j fuel = .ok (optToInt (dist g i j)) := by
  unfold Model.distance
  by_cases hij : i = j
  · subst hij
    simp only [if_true]
    rw [dist, distIn_eq_some_iff.2 (isDist_self hi)]; rfl
  · simp only [hij, if_false]
    apply distOuter_spec hij hj fuel _ [i] 0 [i] [] 0 rfl (dinv_init hi)
    simp only [List.length_cons, List.length_nil, Array.count_replicate_self]
    omega

end GDist
