import Mamba.Lemmas.CanonFNumRoots
/-!
# Totality: the leaf step returns (`prog_leaf`) and only drops frames (`leaf_pathPot`)
-/
namespace CanonF

/-! ## the measure -/

theorem tlf_pot_drop (n : Nat) : ∀ (j : Nat) (path : List Nat), pathPot n (path.drop j) ≤ pathPot n path := by
  intro j
  induction j with
  | zero => intro path; simp
  | succ j ih =>
    intro path
    cases path with
    | nil => simp
    | cons a as =>
      simp only [List.drop_succ_cons]
      exact Nat.le_trans (ih as) (by simp only [pathPot]; omega)

/-- the leaf step only drops frames -/
theorem leaf_pathPot {n m : Nat} (s s1 : LS) (h : leafNode n m s = .ok s1) : pathPot n s1.path ≤ pathPot n s.path := by
  rcases leafNode_shape h with ⟨_, e2, _⟩ | ⟨s0, ref, _, e2, _, hb⟩
  · rw [e2]
  · obtain ⟨j, op', _, _, _, hs'⟩ := backJump_shape hb
    rw [hs']
    show pathPot n (s0.path.drop j) ≤ _
    rw [e2]
    exact tlf_pot_drop n j s.path

/-! ## the pieces of the leaf step return -/

/-- an inverse permutation has entries `< n` -/
theorem tlf_invOf_lt {n : Nat} {o : List Nat} {pinv : Sl Nat} (ho : o.Perm (List.range n)) (h : InvOf o pinv)
    {x : Nat} (hx : x < n) : ∃ i, pinv.toList[x]? = some i ∧ i < n := by
  have hmem : x ∈ o := ho.mem_iff.2 (List.mem_range.2 hx)
  have hl : o.length = n := by simpa using ho.length_eq
  exact ⟨o.idxOf x, h _ _ (getElem?_idxOf_of_mem hmem), by rw [← hl]; exact List.idxOf_lt_length_of_mem hmem⟩

/-- the reset loop of the "better leaf" branch -/
theorem tlf_resetLoop_total {n : Nat} {order pinv : Sl Nat} {orb : Disjoint.DS}
    (hperm : order.toList.Perm (List.range n)) (hwf : order.WF) (hlen : order.len = n)
    (hpl : pinv.len = n) (hpw : pinv.WF) (horb : orb.size = n) :
    ∃ r, forRange (fun i (st : Sl Nat × Disjoint.DS) =>
              match order.get i with
              | .ok v =>
                match st.1.set v i with
                | .ok pinv => if i < st.2.size then .ok (pinv, st.2.setIfInBounds i (-1)) else .panic
                | .panic => .panic
                | .outOfFuel => .outOfFuel
              | .panic => .panic
              | .outOfFuel => .outOfFuel) order.len 0 (pinv, orb) = .ok r := by
  obtain ⟨r, hr, _⟩ := forRange_total (fun i (st : Sl Nat × Disjoint.DS) =>
              match order.get i with
              | .ok v =>
                match st.1.set v i with
                | .ok pinv => if i < st.2.size then .ok (pinv, st.2.setIfInBounds i (-1)) else .panic
                | .panic => .panic
                | .outOfFuel => .outOfFuel
              | .panic => .panic
              | .outOfFuel => .outOfFuel)
    (fun _ (st : Sl Nat × Disjoint.DS) => st.1.len = n ∧ st.1.WF ∧ st.2.size = n)
    order.len 0 (pinv, orb) ⟨hpl, hpw, horb⟩ (by
      rintro i ⟨p, o⟩ _ hi ⟨j1, j2, j3⟩
      dsimp only at j1 j2 j3 ⊢
      obtain ⟨v, hv, _⟩ := Sl.get_ok_of_lt hwf (show i < order.len by omega)
      have hvn : v < n := perm_range_lt hperm (Sl.get_eq_toList.1 hv)
      have hset := Sl.set_ok_of_lt j2 (show v < p.len by omega) i
      refine ⟨(⟨p.data.setIfInBounds v i, p.len⟩, o.setIfInBounds i (-1)), ?_, j1, ?_, by simpa using j3⟩
      · simp only [hv, hset]
        rw [if_pos (by omega)]
      · exact Sl.set_wf j2 hset)
  exact ⟨r, hr⟩

/-- one step of the orbit loop returns -/
theorem tlf_orbitStep_total {n : Nat} {order pinv : Sl Nat} (hperm : order.toList.Perm (List.range n))
    (hwf : order.WF) (hlen : order.len = n)
    (hpe : ∀ x, x < n → ∃ i, pinv.toList[x]? = some i ∧ i < n)
    {i : Nat} (hi : i < n) {ds : Disjoint.DS} (mm : Bool) (hds : Disjoint.Inv ds) (hsz : ds.size = n) :
    ∃ ds' mm', orbitStep order pinv i (ds, mm) = .ok (ds', mm') ∧ Disjoint.Inv ds' ∧ ds'.size = n := by
  obtain ⟨p, hp, hpn⟩ := hpe i hi
  have hpg : pinv.get i = .ok p := Sl.get_eq_toList.2 hp
  obtain ⟨v, hv, _⟩ := Sl.get_ok_of_lt hwf (show p < order.len by omega)
  have hvn : v < n := perm_range_lt hperm (Sl.get_eq_toList.1 hv)
  obtain ⟨d1, f1, i1, s1, k1⟩ := Disjoint.find_spec hds v (by omega)
  obtain ⟨d2, f2, i2, s2, k2⟩ := Disjoint.find_spec i1 i (by omega)
  unfold orbitStep
  simp only [hpg, hv, f1, f2]
  by_cases hne : Disjoint.rep ds v ≠ Disjoint.rep d1 i
  · rw [if_pos hne]
    obtain ⟨d3, f3, i3, s3, _⟩ := Disjoint.union_spec i2 i v (by omega) (by omega)
    rw [f3]
    exact ⟨d3, true, rfl, i3, by omega⟩
  · rw [if_neg hne]
    exact ⟨d2, mm, rfl, i2, by omega⟩

/-- the orbit loop returns -/
theorem tlf_orbitLoop_total {n : Nat} {order pinv : Sl Nat} (hperm : order.toList.Perm (List.range n))
    (hwf : order.WF) (hlen : order.len = n)
    (hpe : ∀ x, x < n → ∃ i, pinv.toList[x]? = some i ∧ i < n)
    {ds : Disjoint.DS} (mm : Bool) (hds : Disjoint.Inv ds) (hsz : ds.size = n) :
    ∃ ds' mm', forRange (orbitStep order pinv) n 0 (ds, mm) = .ok (ds', mm') := by
  obtain ⟨r, hr, _⟩ := forRange_total (orbitStep order pinv)
    (fun _ (st : Disjoint.DS × Bool) => Disjoint.Inv st.1 ∧ st.1.size = n) n 0 (ds, mm) ⟨hds, hsz⟩ (by
      rintro i ⟨d, m⟩ _ hi ⟨j1, j2⟩
      obtain ⟨d', m', e, a, b⟩ := tlf_orbitStep_total hperm hwf hlen hpe (show i < n by omega) m j1 j2
      exact ⟨(d', m'), e, a, b⟩)
  exact ⟨r.1, r.2, hr⟩

/-- the copy loop of `recordGenerator` returns -/
theorem tlf_genLoop_total {n : Nat} {order pinv : Sl Nat}
    (hwf : order.WF) (hlen : order.len = n)
    (hpe : ∀ x, x < n → ∃ i, pinv.toList[x]? = some i ∧ i < n) {t0 : Sl Nat} (h0 : t0.len = n ∧ t0.WF) :
    ∃ t, forRange (fun i (t : Sl Nat) =>
              match pinv.get i with
              | .ok pi =>
                match order.get pi with
                | .ok v => t.set i v
                | .panic => .panic
                | .outOfFuel => .outOfFuel
              | .panic => .panic
              | .outOfFuel => .outOfFuel) order.len 0 t0 = .ok t := by
  obtain ⟨t, ht, _⟩ := forRange_total (fun i (t : Sl Nat) =>
              match pinv.get i with
              | .ok pi =>
                match order.get pi with
                | .ok v => t.set i v
                | .panic => .panic
                | .outOfFuel => .outOfFuel
              | .panic => .panic
              | .outOfFuel => .outOfFuel)
    (fun _ (t : Sl Nat) => t.len = n ∧ t.WF) order.len 0 t0 h0 (by
      intro i t _ hi ⟨j1, j2⟩
      obtain ⟨p, hp, hpn⟩ := hpe i (by omega)
      have hpg : pinv.get i = .ok p := Sl.get_eq_toList.2 hp
      obtain ⟨v, hv, _⟩ := Sl.get_ok_of_lt hwf (show p < order.len by omega)
      have hset := Sl.set_ok_of_lt j2 (show i < t.len by omega) v
      exact ⟨⟨t.data.setIfInBounds i v, t.len⟩, by simp only [hpg, hv, hset], j1, Sl.set_wf j2 hset⟩)
  exact ⟨t, ht⟩

/-- recording a generator returns if there is a free slot -/
theorem tlf_recordGenerator_total {n : Nat} {order pinv : Sl Nat}
    (hwf : order.WF) (hlen : order.len = n)
    (hpe : ∀ x, x < n → ∃ i, pinv.toList[x]? = some i ∧ i < n)
    {gens : Array (Sl Nat)} {ngens : Nat} (hfree : ngens + 1 ≤ gens.size) :
    ∃ r, recordGenerator n order pinv gens ngens = .ok r := by
  unfold recordGenerator
  rw [if_pos hfree]
  have hg : gens[ngens]? = some gens[ngens] := by simp
  rw [hg]
  simp only
  generalize ht0 : (if gens[ngens].cap ≥ n then (⟨gens[ngens].data, n⟩ : Sl Nat) else Sl.mk' n n 0) = t0
  have ht0l : t0.len = n ∧ t0.WF := by
    subst ht0
    by_cases hc : gens[ngens].cap ≥ n
    · rw [if_pos hc]; exact ⟨rfl, hc⟩
    · rw [if_neg hc]; exact ⟨rfl, by simp [Sl.WF, Sl.mk']⟩
  obtain ⟨t, ht⟩ := tlf_genLoop_total hwf hlen hpe ht0l
  split
  · exact ⟨_, rfl⟩
  · next hl => exact absurd (ht.symm.trans hl) (by simp)
  · next hl => exact absurd (ht.symm.trans hl) (by simp)

/-- the Heuristic-1 scan returns if the reference path is long enough -/
theorem tlf_h1Index_total (path : List Nat) (ref : Sl Nat) (hw : ref.WF) : ∀ (k i : Nat), i + k ≤ ref.len →
    ∃ r, h1Index path ref k i = .ok r := by
  intro k
  induction k with
  | zero => intro i _; exact ⟨_, rfl⟩
  | succ k ih =>
    intro i hik
    obtain ⟨v, hv, _⟩ := Sl.get_ok_of_lt hw (show i < ref.len by omega)
    rw [h1Index, hv]
    simp only
    by_cases hne : path.getD i 0 ≠ v
    · rw [if_pos hne]; exact ⟨_, rfl⟩
    · rw [if_neg hne]; exact ih (i + 1) (by omega)

theorem tlf_deageTimes_total {n : Nat} : ∀ (j : Nat) (op : OP), PartInv n op → AgeInv op → (j : Int) ≤ op.age →
    op.value.WF → ∃ op', deageTimes j op = .ok op' := by
  intro j
  induction j with
  | zero => intro op _ _ _ _; exact ⟨op, rfl⟩
  | succ j ih =>
    intro op hp ha hj hv
    obtain ⟨op1, hd⟩ := deage_no_panic hp ha (by omega) hv
    obtain ⟨d1, d2, d3, _, _, _, d7, d8, _⟩ := deage_inv hp ha (by omega) hd
    have hv1 : op1.value.WF := by
      unfold Sl.WF at hv ⊢
      rw [d7]; omega
    obtain ⟨op', hd'⟩ := ih op1 d1 d2 (by rw [d3]; push_cast at hj ⊢; omega) hv1
    exact ⟨op', by rw [deageTimes, hd]; exact hd'⟩

/-- the back-jump returns -/
theorem tlf_backJump_total {n : Nat} {s : LS} {ref : Sl Nat} (hp : PartInv n s.op) (ha : AgeInv s.op)
    (hage : s.op.age = s.path.length) (hv : s.op.value.WF) (hrw : ref.WF) (hrl : s.path.length ≤ ref.len + 1) :
    ∃ s', backJump s ref = .ok s' := by
  unfold backJump
  dsimp only
  obtain ⟨idx, hidx⟩ := tlf_h1Index_total s.path.reverse ref hrw (s.path.reverse.length - 1) 0
    (by simp only [List.length_reverse]; omega)
  rw [hidx]
  simp only
  obtain ⟨op', hd⟩ := tlf_deageTimes_total (n := n) (s.path.reverse.length - idx) s.op hp ha
    (by simp only [List.length_reverse]; omega) hv
  rw [hd]
  exact ⟨_, rfl⟩


/-- the generator step of an "equal leaf" returns: if something was merged there is a free slot -/
theorem tlf_record_total {n m : Nat} {s : LS} {order pinv : Sl Nat} {fo : Disjoint.DS} {mg : Bool}
    (hwf : order.WF) (hlen : order.len = n) (hpe : ∀ x, x < n → ∃ i, pinv.toList[x]? = some i ∧ i < n)
    (hinv : Disjoint.Inv s.flOrbits) (hsz : s.flOrbits.size = n) (hpos : 0 < s.count) (hcap : CapInv n m s)
    (hl : forRange (orbitStep order pinv) n 0 (s.flOrbits, false) = .ok (fo, mg)) :
    ∃ g, (if mg = true then recordGenerator n order pinv s.gens s.ngens else Outcome.ok (s.gens, s.ngens)) = .ok g := by
  by_cases hm : mg = true
  · rw [if_pos hm]
    have hn : 0 < n := by
      rcases Nat.eq_zero_or_pos n with h0 | h0
      · subst h0
        simp only [forRange] at hl
        injection hl with hl
        injection hl with _ hl
        rw [← hl] at hm; cases hm
      · exact h0
    obtain ⟨_, q2, q3⟩ := numRoots_orbitLoop hinv hsz hn hl
    have := q2 hm
    have := hcap.genCnt hpos
    have := hcap.gens
    exact tlf_recordGenerator_total hwf hlen hpe (by omega)
  · rw [if_neg hm]; exact ⟨_, rfl⟩

section
variable {n m : Nat} {nb : Nbrs} {rf : Nat} {r : IR.St}
  (hnb : NbOK nb n) (hA : IR.InvA (irG n nb) r) (hD : IR.InvD (irG n nb) r)

set_option linter.unusedVariables false in
include hnb hA hD in
/-- the leaf step returns -/
theorem prog_leaf (lv : List (Nat × Nat)) (s : LS) (hI : MInv n m nb s) (hlv : LevelsOK s.op s.path s.choices lv)
    (hleaf : s.op.binDividers.len = n) (hT : TM n m nb rf r lv false s) : ∃ s1, leafNode n m s = .ok s1 := by
  obtain ⟨⟨hJ, hDM⟩, hcap⟩ := hT
  obtain ⟨hg, hva, hvn, hbok⟩ := hJ
  have hDM' : ∃ gh, DNodev n nb rf r gh lv s := by unfold DM at hDM; simpa using hDM
  obtain ⟨gh, hw, hG, _, _, hoff⟩ := hDM'
  obtain ⟨h1, h2, h3, h4, h5, h6, h7⟩ := hw
  have hp := hI.core.part
  have hvc : VClean nb s.op := hvn rfl
  -- the depth is at most `n`
  have hmt : Match n s.op (nodeL n nb rf r gh.vs gh.vs.length) :=
    (h4 gh.vs.length (Nat.le_refl _)).toMatch hp hI.core.age (by omega) h7
  have hnode : nodeL n nb rf r gh.vs gh.vs.length = IR.nodeAt (irG n nb) rf r gh.vs := by
    unfold nodeL; rw [List.take_length]
  have hdn : s.path.length ≤ n := by
    obtain ⟨hc, _, _⟩ := IR.path_cells (irG_wf hnb) (rf := rf) gh.vs r hA hD h1
    have := hmt.cells
    rw [hnode, hleaf] at this
    omega
  unfold leafNode
  dsimp only
  by_cases hc1 : (compare s.op.value.toList s.currentBest.toList == 1 || s.count + 1 == 1) = true
  · rw [if_pos hc1]
    have hrs : s.currentBest.reslice m = .ok ⟨s.currentBest.data, m⟩ := by
      unfold Sl.reslice; rw [if_pos hcap.cb]
    rw [hrs]
    dsimp only
    obtain ⟨⟨p', o'⟩, hr⟩ := tlf_resetLoop_total hp.perm hp.wfOrder hp.lenOrder hg.bpinv.1 hg.bpinv.2 hg.orbSz.2
    split
    · split <;> exact ⟨_, rfl⟩
    · next hl => exact absurd (hr.symm.trans hl) (by simp)
    · next hl => exact absurd (hr.symm.trans hl) (by simp)
  · rw [if_neg hc1]
    have hc1' : (compare s.op.value.toList s.currentBest.toList == 1 || s.count + 1 == 1) = false := by
      simpa using hc1
    have hpos : 0 < s.count := by
      simp only [Bool.or_eq_false_iff, beq_eq_false_iff_ne, ne_eq] at hc1'
      omega
    by_cases hc0 : (compare s.op.value.toList s.currentBest.toList == 0) = true
    · rw [if_pos hc0]
      have hpe : ∀ x, x < n → ∃ i, s.bestPermInv.toList[x]? = some i ∧ i < n :=
        fun x hx => tlf_invOf_lt (hI.core.bestPerm hpos) (hg.best hpos).2 hx
      obtain ⟨bo, m1, hl1⟩ := tlf_orbitLoop_total hp.perm hp.wfOrder hp.lenOrder hpe false (hG.bestOrb hpos).1 hg.orbSz.2
      obtain ⟨fo, mg, hl2⟩ := tlf_orbitLoop_total hp.perm hp.wfOrder hp.lenOrder hpe false (hg.orb hpos).1 hg.orbSz.1
      obtain ⟨⟨gens', ngens'⟩, hrec⟩ := tlf_record_total hp.wfOrder hp.lenOrder hpe (hg.orb hpos).1 hg.orbSz.1 hpos hcap hl2
      rw [hl1]; dsimp only
      rw [hl2]; dsimp only
      rw [hrec]; dsimp only
      exact tlf_backJump_total (n := n)
        (s := { s with count := s.count + 1, bestOrbits := bo, flOrbits := fo, gens := gens', ngens := ngens' })
        hp hI.core.age hI.age hvc.wf hG.bpLen.2 (by show s.path.length ≤ _; rw [hG.bpLen.1]; omega)
    · rw [if_neg hc0]
      by_cases hcf : (compare s.op.value.toList s.firstLeaf.toList == 0) = true
      · rw [if_pos hcf]
        have LF := hG.first hpos
        have hpe : ∀ x, x < n → ∃ i, s.flPermInv.toList[x]? = some i ∧ i < n :=
          fun x hx => tlf_invOf_lt LF.perm LF.inv hx
        obtain ⟨fo, mg, hl2⟩ := tlf_orbitLoop_total hp.perm hp.wfOrder hp.lenOrder hpe false (hg.orb hpos).1 hg.orbSz.1
        obtain ⟨⟨gens', ngens'⟩, hrec⟩ := tlf_record_total hp.wfOrder hp.lenOrder hpe (hg.orb hpos).1 hg.orbSz.1 hpos hcap hl2
        rw [hl2]; dsimp only
        rw [hrec]; dsimp only
        exact tlf_backJump_total (n := n)
          (s := { s with count := s.count + 1, flOrbits := fo, gens := gens', ngens := ngens' })
          hp hI.core.age hI.age hvc.wf hG.fpLen.2 (by show s.path.length ≤ _; rw [hG.fpLen.1]; omega)
      · rw [if_neg hcf]
        exact ⟨_, rfl⟩
end

end CanonF
