import Mamba.Lemmas.SortIntsAdd
/-! Lemmas for C17: the `Union` method (backwards merge, in place or into a fresh array). -/
set_option linter.unusedTactic false
set_option linter.unreachableTactic false
set_option linter.unnecessarySeqFocus false
set_option linter.unusedSimpArgs false
namespace SortInts

/-- the backwards merge of the `Union` method seen from the back: a merge of the reversed (descending)
operands that emits the larger head first -/
def unionRev : List Int → List Int → List Int
  | [], rb => rb
  | x :: xs, [] => x :: xs
  | x :: xs, y :: ys =>
    if x = y then x :: unionRev xs ys
    else if x > y then x :: unionRev xs (y :: ys)
    else y :: unionRev (x :: xs) ys
termination_by a b => a.length + b.length

theorem mem_unionRev (a b : List Int) (x : Int) : x ∈ unionRev a b ↔ x ∈ a ∨ x ∈ b := by
  fun_induction unionRev a b <;> simp_all <;> try grind

theorem unionRev_desc (a b : List Int) (ha : a.Pairwise (· > ·)) (hb : b.Pairwise (· > ·)) :
    (unionRev a b).Pairwise (· > ·) := by
  fun_induction unionRev a b <;> simp_all [mem_unionRev] <;> grind

theorem length_unionRev_ge (a b : List Int) : a.length ≤ (unionRev a b).length := by
  fun_induction unionRev a b <;> simp_all <;> omega

theorem length_unionRev_ge' (a b : List Int) : b.length ≤ (unionRev a b).length := by
  fun_induction unionRev a b <;> simp_all <;> omega

theorem length_union_add (a b : List Int) : (union a b).length + intersectionSize a b = a.length + b.length := by
  fun_induction union a b <;> simp_all [intersectionSize] <;> (try split) <;> omega

/-- two strictly descending lists with the same elements are equal -/
theorem desc_ext (l1 l2 : List Int) (h1 : l1.Pairwise (· > ·)) (h2 : l2.Pairwise (· > ·))
    (h : ∀ x, x ∈ l1 ↔ x ∈ l2) : l1 = l2 := by
  induction l1 generalizing l2 with
  | nil =>
    cases l2 with
    | nil => rfl
    | cons b t => exact absurd ((h b).mpr (by simp)) (by simp)
  | cons a t ih =>
    cases l2 with
    | nil => exact absurd ((h a).mp (by simp)) (by simp)
    | cons b u =>
      rw [List.pairwise_cons] at h1 h2
      have hab : a = b := by
        have h3 := (h a).mp (by simp)
        have h4 := (h b).mpr (by simp)
        rcases List.mem_cons.mp h3 with h3 | h3
        · exact h3
        · rcases List.mem_cons.mp h4 with h4 | h4
          · exact h4.symm
          · have := h1.1 b h4; have := h2.1 a h3; omega
      subst hab
      congr 1
      apply ih u h1.2 h2.2
      intro x
      constructor
      · intro hx
        have := (h x).mp (by simp [hx])
        rcases List.mem_cons.mp this with rfl | h5
        · have := h1.1 x hx; omega
        · exact h5
      · intro hx
        have := (h x).mpr (by simp [hx])
        rcases List.mem_cons.mp this with rfl | h5
        · have := h2.1 x hx; omega
        · exact h5

theorem unionRev_reverse (a b : List Int) (ha : SS a) (hb : SS b) :
    unionRev a.reverse b.reverse = (union a b).reverse := by
  apply desc_ext
  · apply unionRev_desc
    · rw [List.pairwise_reverse]; exact ha
    · rw [List.pairwise_reverse]; exact hb
  · rw [List.pairwise_reverse]; exact union_sorted a b ha hb
  · intro x; simp [mem_unionRev, mem_union]


theorem take_reverse_cons_get (l : List Int) (x : Int) (xs : List Int)
    (h : l.take (x :: xs).length = (x :: xs).reverse) :
    l[xs.length]? = some x ∧ l.take xs.length = xs.reverse := by
  have hlen : xs.length + 1 ≤ l.length := by
    have := congrArg List.length h
    simp at this; omega
  constructor
  · have : (l.take (x :: xs).length)[xs.length]? = some x := by
      rw [h]; simp
    rw [List.getElem?_take] at this
    simpa using this
  · have : (l.take (x :: xs).length).take xs.length = xs.reverse := by
      rw [h]; simp
    rw [List.take_take] at this
    simpa using this

theorem unionLoop_spec (aliased : Bool) (a b : List Int) (ra rb : List Int) :
    ∀ (T W : List Int),
    a.take ra.length = ra.reverse → b.take rb.length = rb.reverse →
    T.length = (unionRev ra rb).length →
    (aliased = true → T.take ra.length = ra.reverse) →
    ∃ T' M ra' rb',
      unionLoop aliased a b (T ++ W) ((ra.length : Int) - 1) ((rb.length : Int) - 1) ((T.length : Int) - 1)
        = .ok (T' ++ M ++ W, (ra'.length : Int) - 1, (rb'.length : Int) - 1) ∧
      (ra' = [] ∨ rb' = []) ∧
      unionRev ra rb = M.reverse ++ unionRev ra' rb' ∧
      T'.length = (unionRev ra' rb').length ∧
      (aliased = true → T'.take ra'.length = ra'.reverse) ∧
      a.take ra'.length = ra'.reverse ∧ b.take rb'.length = rb'.reverse := by
  fun_induction unionRev ra rb
  case case1 rb =>
    intro T W ha hb hT hal
    refine ⟨T, [], [], rb, ?_, Or.inl rfl, by simp [unionRev], by simpa [unionRev] using hT, hal, ha, hb⟩
    rw [unionLoop]; simp
  case case2 x xs =>
    intro T W ha hb hT hal
    refine ⟨T, [], x :: xs, [], ?_, Or.inr rfl, by simp [unionRev], by simpa [unionRev] using hT, hal, ha, hb⟩
    rw [unionLoop]; simp
  case case3 xs x ys ih =>
    intro T W ha hb hT hal
    obtain ⟨hax, ha'⟩ := take_reverse_cons_get a x xs ha
    obtain ⟨hby, hb'⟩ := take_reverse_cons_get b x ys hb
    have hge := length_unionRev_ge xs ys
    have hTl : T.length = (unionRev xs ys).length + 1 := by simpa [unionRev] using hT
    obtain ⟨T0, t, rfl⟩ : ∃ T0 t, T = T0 ++ [t] := by
      rcases List.eq_nil_or_concat T with h | ⟨T0, t, h⟩
      · subst h; simp at hTl
      · exact ⟨T0, t, by simpa using h⟩
    have hT0 : T0.length = (unionRev xs ys).length := by simpa using hTl
    have hal0 : aliased = true → T0.take xs.length = xs.reverse := by
      intro h
      have := (take_reverse_cons_get _ x xs (hal h)).2
      rw [List.take_append_of_le_length (by omega)] at this
      exact this
    have hrd : getI (if aliased = true then T0 ++ [t] ++ W else a) ((x :: xs).length - 1 : Int) = some x := by
      have e : (((x :: xs).length : Nat) : Int) - 1 = ((xs.length : Nat) : Int) := by simp
      rw [e, getI_natCast]
      cases aliased with
      | false => simpa using hax
      | true =>
        simp only [if_true]
        have := (take_reverse_cons_get _ x xs (hal rfl)).1
        rw [List.getElem?_append_left (by simp; omega)]
        exact this
    have hrb : getI b ((x :: ys).length - 1 : Int) = some x := by
      have e : (((x :: ys).length : Nat) : Int) - 1 = ((ys.length : Nat) : Int) := by simp
      rw [e, getI_natCast]; exact hby
    obtain ⟨T', M, ra', rb', hrun, hor, hun, hT', hal', ha'', hb''⟩ := ih T0 (x :: W) ha' hb' hT0 hal0
    refine ⟨T', M ++ [x], ra', rb', ?_, hor, ?_, hT', hal', ha'', hb''⟩
    · rw [unionLoop]
      have hc : (0 : Int) ≤ ((x :: xs).length : Int) - 1 ∧ (0 : Int) ≤ ((x :: ys).length : Int) - 1 := by
        simp
      rw [dif_pos hc]
      simp only [hrd, hrb, if_true]
      have hset : setI (T0 ++ [t] ++ W) (((T0 ++ [t]).length : Int) - 1) x = some (T0 ++ x :: W) := by
        have e : (((T0 ++ [t]).length : Nat) : Int) - 1 = ((T0.length : Nat) : Int) := by simp
        have : T0 ++ [t] ++ W = T0 ++ t :: W := by simp
        rw [e, this, setI_append_mid]
      simp only [hset]
      have e1 : (((x :: xs).length : Nat) : Int) - 1 - 1 = ((xs.length : Nat) : Int) - 1 := by simp
      have e2 : (((x :: ys).length : Nat) : Int) - 1 - 1 = ((ys.length : Nat) : Int) - 1 := by simp
      have e3 : (((T0 ++ [t]).length : Nat) : Int) - 1 - 1 = ((T0.length : Nat) : Int) - 1 := by simp
      rw [e1, e2, e3, hrun]
      simp
    · simp [unionRev, hun]
  case case4 x xs y ys hne hgt ih =>
    intro T W ha hb hT hal
    obtain ⟨hax, ha'⟩ := take_reverse_cons_get a x xs ha
    obtain ⟨hby, _⟩ := take_reverse_cons_get b y ys hb
    have hge := length_unionRev_ge xs (y :: ys)
    have hTl : T.length = (unionRev xs (y :: ys)).length + 1 := by simpa [unionRev, hne, hgt] using hT
    obtain ⟨T0, t, rfl⟩ : ∃ T0 t, T = T0 ++ [t] := by
      rcases List.eq_nil_or_concat T with h | ⟨T0, t, h⟩
      · subst h; simp at hTl
      · exact ⟨T0, t, by simpa using h⟩
    have hT0 : T0.length = (unionRev xs (y :: ys)).length := by simpa using hTl
    have hal0 : aliased = true → T0.take xs.length = xs.reverse := by
      intro h
      have := (take_reverse_cons_get _ x xs (hal h)).2
      rw [List.take_append_of_le_length (by omega)] at this
      exact this
    have hrd : getI (if aliased = true then T0 ++ [t] ++ W else a) ((x :: xs).length - 1 : Int) = some x := by
      have e : (((x :: xs).length : Nat) : Int) - 1 = ((xs.length : Nat) : Int) := by simp
      rw [e, getI_natCast]
      cases aliased with
      | false => simpa using hax
      | true =>
        simp only [if_true]
        have := (take_reverse_cons_get _ x xs (hal rfl)).1
        rw [List.getElem?_append_left (by simp; omega)]
        exact this
    have hrb : getI b ((y :: ys).length - 1 : Int) = some y := by
      have e : (((y :: ys).length : Nat) : Int) - 1 = ((ys.length : Nat) : Int) := by simp
      rw [e, getI_natCast]; exact hby
    obtain ⟨T', M, ra', rb', hrun, hor, hun, hT', hal', ha'', hb''⟩ := ih T0 (x :: W) ha' hb hT0 hal0
    refine ⟨T', M ++ [x], ra', rb', ?_, hor, ?_, hT', hal', ha'', hb''⟩
    · rw [unionLoop]
      have hc : (0 : Int) ≤ ((x :: xs).length : Int) - 1 ∧ (0 : Int) ≤ ((y :: ys).length : Int) - 1 := by
        simp
      rw [dif_pos hc]
      simp only [hrd, hrb, hne, hgt, if_true, if_false]
      have hset : setI (T0 ++ [t] ++ W) (((T0 ++ [t]).length : Int) - 1) x = some (T0 ++ x :: W) := by
        have e : (((T0 ++ [t]).length : Nat) : Int) - 1 = ((T0.length : Nat) : Int) := by simp
        have : T0 ++ [t] ++ W = T0 ++ t :: W := by simp
        rw [e, this, setI_append_mid]
      simp only [hset]
      have e1 : (((x :: xs).length : Nat) : Int) - 1 - 1 = ((xs.length : Nat) : Int) - 1 := by simp
      have e3 : (((T0 ++ [t]).length : Nat) : Int) - 1 - 1 = ((T0.length : Nat) : Int) - 1 := by simp
      rw [e1, e3, hrun]
      simp
    · simp [unionRev, hun, hne, hgt]
  case case5 x xs y ys hne hgt ih =>
    intro T W ha hb hT hal
    obtain ⟨hax, _⟩ := take_reverse_cons_get a x xs ha
    obtain ⟨hby, hb'⟩ := take_reverse_cons_get b y ys hb
    have hge := length_unionRev_ge (x :: xs) ys
    have hTl : T.length = (unionRev (x :: xs) ys).length + 1 := by simpa [unionRev, hne, hgt] using hT
    obtain ⟨T0, t, rfl⟩ : ∃ T0 t, T = T0 ++ [t] := by
      rcases List.eq_nil_or_concat T with h | ⟨T0, t, h⟩
      · subst h; simp at hTl
      · exact ⟨T0, t, by simpa using h⟩
    have hT0 : T0.length = (unionRev (x :: xs) ys).length := by simpa using hTl
    have hal0 : aliased = true → T0.take (x :: xs).length = (x :: xs).reverse := by
      intro h
      have := hal h
      rw [List.take_append_of_le_length (by omega)] at this
      exact this
    have hrd : getI (if aliased = true then T0 ++ [t] ++ W else a) ((x :: xs).length - 1 : Int) = some x := by
      have e : (((x :: xs).length : Nat) : Int) - 1 = ((xs.length : Nat) : Int) := by simp
      rw [e, getI_natCast]
      cases aliased with
      | false => simpa using hax
      | true =>
        simp only [if_true]
        have := (take_reverse_cons_get _ x xs (hal rfl)).1
        rw [List.getElem?_append_left (by simp; omega)]
        exact this
    have hrb : getI b ((y :: ys).length - 1 : Int) = some y := by
      have e : (((y :: ys).length : Nat) : Int) - 1 = ((ys.length : Nat) : Int) := by simp
      rw [e, getI_natCast]; exact hby
    obtain ⟨T', M, ra', rb', hrun, hor, hun, hT', hal', ha'', hb''⟩ := ih T0 (y :: W) ha hb' hT0 hal0
    refine ⟨T', M ++ [y], ra', rb', ?_, hor, ?_, hT', hal', ha'', hb''⟩
    · rw [unionLoop]
      have hc : (0 : Int) ≤ ((x :: xs).length : Int) - 1 ∧ (0 : Int) ≤ ((y :: ys).length : Int) - 1 := by
        simp
      rw [dif_pos hc]
      simp only [hrd, hrb, hne, hgt, if_true, if_false]
      have hset : setI (T0 ++ [t] ++ W) (((T0 ++ [t]).length : Int) - 1) y = some (T0 ++ y :: W) := by
        have e : (((T0 ++ [t]).length : Nat) : Int) - 1 = ((T0.length : Nat) : Int) := by simp
        have : T0 ++ [t] ++ W = T0 ++ t :: W := by simp
        rw [e, this, setI_append_mid]
      simp only [hset]
      have e2 : (((y :: ys).length : Nat) : Int) - 1 - 1 = ((ys.length : Nat) : Int) - 1 := by simp
      have e3 : (((T0 ++ [t]).length : Nat) : Int) - 1 - 1 = ((T0.length : Nat) : Int) - 1 := by simp
      rw [e2, e3, hrun]
      simp
    · simp [unionRev, hun, hne, hgt]


theorem copyI_prefix (T M src : List Int) (h : src.length = T.length) :
    copyI (T ++ M) 0 ((T ++ M).length : Int) src = some (src ++ M) := by
  have e0 : (0 : Int) = ((0 : Nat) : Int) := rfl
  rw [e0, copyI_nat _ 0 _ _ (by omega) (Nat.le_refl _)]
  have : min ((T ++ M).length - 0) src.length = src.length := by simp; omega
  rw [this]
  simp only [List.take_zero, List.nil_append, Nat.zero_add]
  rw [List.take_of_length_le (Nat.le_refl _), h, List.drop_left]

theorem unionM_result (a spare b : List Int) (ha : SS a) (hb : SS b) :
    unionM a spare b = .ok (union a b) := by
  have hlenU := length_union_add a b
  have hrev := unionRev_reverse a b ha hb
  have hgeA : a.length ≤ (union a b).length := by
    have := length_unionRev_ge a.reverse b.reverse
    rw [hrev] at this; simpa using this
  unfold unionM
  have hns : ((a.length : Int) + (b.length : Int) - (intersectionSize a b : Int)) = (((union a b).length : Nat) : Int) := by
    omega
  simp only [hns]
  -- the destination
  obtain ⟨T, hdst, hTlen, hTal⟩ : ∃ T : List Int,
      (if decide ((((a.length + spare.length : Nat)) : Int) ≥ (((union a b).length : Nat) : Int)) = true
        then sliceI (a ++ spare) 0 (((union a b).length : Nat) : Int)
        else if (((union a b).length : Nat) : Int) < 0 then none
          else some (List.replicate ((((union a b).length : Nat) : Int)).toNat 0)) = some T ∧
      T.length = (union a b).length ∧
      (decide ((((a.length + spare.length : Nat)) : Int) ≥ (((union a b).length : Nat) : Int)) = true → T.take a.length = a) := by
    by_cases hal : (((a.length + spare.length : Nat)) : Int) ≥ (((union a b).length : Nat) : Int)
    · refine ⟨(a ++ spare).take (union a b).length, ?_, ?_, ?_⟩
      · simp only [hal, decide_true, if_true]
        exact sliceI_zero_nat _ _ (by simp; omega)
      · simp; omega
      · intro _
        rw [List.take_take, Nat.min_eq_left hgeA, List.take_left']
        rfl
    · refine ⟨List.replicate (union a b).length 0, ?_, by simp, ?_⟩
      · simp only [hal, decide_false, Bool.false_eq_true, if_false]
        have : ¬ ((((union a b).length : Nat) : Int) < 0) := by omega
        rw [if_neg this]; simp
      · intro h; exact absurd (of_decide_eq_true h) hal
  rw [hdst]
  simp only
  -- the loop
  obtain ⟨T', M, ra', rb', hrun, hor, hun, hT', hal', ha', hb'⟩ :=
    unionLoop_spec (decide ((((a.length + spare.length : Nat)) : Int) ≥ (((union a b).length : Nat) : Int)))
      a b a.reverse b.reverse T [] (by simp) (by simp) (by rw [hrev]; simpa using hTlen)
      (by intro h; simpa using hTal h)
  simp only [List.length_reverse, List.append_nil] at hrun
  rw [hrun]
  simp only
  have hU : union a b = (unionRev ra' rb').reverse ++ M := by
    have := congrArg List.reverse hun
    rw [hrev] at this
    simpa using this
  rcases hor with h | h
  · subst h
    have hT'0 : T'.length = rb'.length := by simpa [unionRev] using hT'
    have hi : ¬ ((0 : Int) ≤ (([] : List Int).length : Int) - 1) := by simp
    rw [if_neg hi]
    by_cases hj : (0 : Int) ≤ (rb'.length : Int) - 1
    · rw [if_pos hj]
      have e : ((rb'.length : Int) - 1 + 1) = ((rb'.length : Nat) : Int) := by omega
      have hbl : rb'.length ≤ b.length := by
        have := congrArg List.length hb'; simp at this; omega
      rw [e, sliceI_zero_nat b _ hbl, hb']
      simp only
      rw [copyI_prefix T' M rb'.reverse (by simp; omega)]
      simp only [hU, unionRev]
    · rw [if_neg hj]
      have : rb' = [] := by
        cases rb' with
        | nil => rfl
        | cons y ys => simp at hj <;> omega
      subst this
      have : T' = [] := by simpa using hT'0
      subst this
      simp [hU, unionRev]
  · subst h
    cases ra' with
    | nil =>
      have : T' = [] := by simpa [unionRev] using hT'
      subst this
      simp [hU, unionRev]
    | cons x xs =>
      have hT'0 : T'.length = (x :: xs).length := by simpa [unionRev] using hT'
      have hi : (0 : Int) ≤ ((x :: xs).length : Int) - 1 := by simp
      rw [if_pos hi]
      have e : (((x :: xs).length : Int) - 1 + 1) = (((x :: xs).length : Nat) : Int) := by omega
      have hsrc : sliceI (if decide ((((a.length + spare.length : Nat)) : Int) ≥ (((union a b).length : Nat) : Int)) = true
            then T' ++ M else a) 0 (((x :: xs).length : Nat) : Int) = some (x :: xs).reverse := by
        split
        · rename_i hd
          rw [sliceI_zero_nat _ _ (by rw [List.length_append, hT'0]; omega)]
          rw [List.take_append_of_le_length (by omega)]
          have := hal' hd
          rw [← this]
        · have hal2 : (x :: xs).length ≤ a.length := by
            have := congrArg List.length ha'; simp at this; simp; omega
          rw [sliceI_zero_nat a _ hal2, ha']
      rw [e, hsrc]
      simp only
      rw [copyI_prefix T' M (x :: xs).reverse (by simp; simpa using hT'0.symm)]
      simp only [hU, unionRev]

end SortInts
