import Mamba.Spec.DawgLang
/-! Lemmas about strictly increasing word lists, `sub`, and counting. -/
namespace Dawg

theorem mem_sub {L : List Word} {c : Nat} {t : Word} : t ∈ sub L c ↔ c :: t ∈ L := by
  unfold sub
  rw [List.mem_filterMap]
  constructor
  · rintro ⟨u, hu, hs⟩
    cases u with
    | nil => simp [stripC] at hs
    | cons a t' =>
      simp only [stripC] at hs
      split at hs
      · next h => cases hs; subst h; exact hu
      · cases hs
  · intro h
    exact ⟨c :: t, h, by simp [stripC]⟩

theorem sub_sorted {L : List Word} (c : Nat) (hs : L.Pairwise (· < ·)) : (sub L c).Pairwise (· < ·) := by
  unfold sub
  refine List.Pairwise.filterMap _ ?_ hs
  intro u u' hlt t ht t' ht'
  cases u with
  | nil => simp [stripC] at ht
  | cons a s =>
    cases u' with
    | nil => simp [stripC] at ht'
    | cons a' s' =>
      simp only [stripC] at ht ht'
      split at ht
      · next h1 =>
        split at ht'
        · next h2 =>
          cases ht; cases ht'; subst h1; subst h2
          rw [List.cons_lt_cons_iff] at hlt
          rcases hlt with h | ⟨_, h⟩
          · exact absurd h (Nat.lt_irrefl _)
          · exact h
        · cases ht'
      · cases ht

theorem sub_nil (c : Nat) : sub [] c = [] := rfl

theorem sub_cons_nil (L : List Word) (c : Nat) : sub ([] :: L) c = sub L c := by
  unfold sub
  rw [List.filterMap_cons_none rfl]

theorem sub_cons_cons (L : List Word) (a c : Nat) (t : Word) :
    sub ((a :: t) :: L) c = if a = c then t :: sub L c else sub L c := by
  simp only [sub, List.filterMap_cons, stripC]
  split <;> simp_all

theorem sub_append (L M : List Word) (c : Nat) : sub (L ++ M) c = sub L c ++ sub M c := by
  simp [sub, List.filterMap_append]

theorem word_lt_irrefl (w : Word) : ¬ w < w := List.lt_irrefl w

theorem word_lt_trans {a b c : Word} (h1 : a < b) (h2 : b < c) : a < c := List.lt_trans h1 h2

theorem word_lt_asymm {a b : Word} (h1 : a < b) : ¬ b < a := List.lt_asymm h1

theorem sorted_nodup {L : List Word} (hs : L.Pairwise (· < ·)) : L.Nodup := by
  refine hs.imp ?_
  intro a b h hab
  subst hab
  exact word_lt_irrefl a h

/-- in a strictly increasing list the number of smaller words is the position -/
theorem get_count_lt {L : List Word} (hs : L.Pairwise (· < ·)) {w : Word} (hw : w ∈ L) :
    L[(L.filter (· < w)).length]? = some w := by
  induction L with
  | nil => cases hw
  | cons u L ih =>
    rw [List.pairwise_cons] at hs
    rw [List.mem_cons] at hw
    rcases hw with rfl | hw
    · have : (List.filter (fun x => decide (x < w)) (w :: L)) = [] := by
        rw [List.filter_eq_nil_iff]
        intro v hv
        simp only [decide_eq_true_eq]
        rw [List.mem_cons] at hv
        rcases hv with rfl | hv
        · exact word_lt_irrefl _
        · exact word_lt_asymm (hs.1 v hv)
      rw [this]; rfl
    · have hu : u < w := hs.1 w hw
      rw [List.filter_cons_of_pos (by simpa using hu)]
      simpa using ih hs.2 hw

def headLt (c : Nat) : Word → Bool
  | a :: _ => decide (a < c)
  | [] => false

def headIn (A : List Nat) : Word → Bool
  | a :: _ => decide (a ∈ A)
  | [] => false

theorem count_nil_of_sorted {L : List Word} (hs : L.Pairwise (· < ·)) :
    (L.filter (fun u => decide (u = []))).length = if [] ∈ L then 1 else 0 := by
  induction L with
  | nil => simp
  | cons u L ih =>
    rw [List.pairwise_cons] at hs
    cases u with
    | nil =>
      have hnot : [] ∉ L := fun h => word_lt_irrefl _ (hs.1 [] h)
      have := ih hs.2
      simp only [hnot, if_false] at this
      simp [this]
    | cons a t =>
      have := ih hs.2
      simp [this]

theorem count_lt_cons {L : List Word} (hs : L.Pairwise (· < ·)) (c : Nat) (w : Word) :
    (L.filter (· < c :: w)).length =
      (if [] ∈ L then 1 else 0) + (L.filter (headLt c)).length + ((sub L c).filter (· < w)).length := by
  rw [← count_nil_of_sorted hs]
  clear hs
  induction L with
  | nil => simp [sub]
  | cons u L ih =>
    cases u with
    | nil =>
      simp only [sub_cons_nil]
      rw [List.filter_cons_of_pos (by simp), List.filter_cons_of_pos (by simp),
        List.filter_cons_of_neg (by simp [headLt])]
      simp only [List.length_cons, ih]
      omega
    | cons a t =>
      rw [sub_cons_cons]
      rw [List.filter_cons_of_neg (p := fun u => decide (u = [])) (by simp)]
      by_cases hac : a < c
      · have h1 : (a :: t) < c :: w := List.cons_lt_cons_iff.2 (Or.inl hac)
        have hne : ¬ a = c := by omega
        rw [List.filter_cons_of_pos (by simpa using h1), List.filter_cons_of_pos (by simpa [headLt] using hac),
          if_neg hne]
        simp only [List.length_cons, ih]
        omega
      · rw [List.filter_cons_of_neg (p := headLt c) (by simpa [headLt] using hac)]
        by_cases hace : a = c
        · subst hace
          rw [if_pos rfl]
          by_cases htw : t < w
          · have h1 : (a :: t) < a :: w := List.cons_lt_cons_iff.2 (Or.inr ⟨rfl, htw⟩)
            rw [List.filter_cons_of_pos (by simpa using h1), List.filter_cons_of_pos (by simpa using htw)]
            simp only [List.length_cons, ih]
            omega
          · have h1 : ¬ (a :: t) < a :: w := by
              rw [List.cons_lt_cons_iff]; rintro (h | ⟨_, h⟩)
              · exact Nat.lt_irrefl _ h
              · exact htw h
            rw [List.filter_cons_of_neg (by simpa using h1), List.filter_cons_of_neg (by simpa using htw)]
            exact ih
        · have h1 : ¬ (a :: t) < c :: w := by
            rw [List.cons_lt_cons_iff]; rintro (h | ⟨h, _⟩)
            · exact hac h
            · exact hace h
          rw [List.filter_cons_of_neg (by simpa using h1), if_neg hace]
          exact ih

/-- total size of the sub-languages of the letters in a duplicate-free list = number of words starting with one of them -/
theorem sum_sub_length (L : List Word) (A : List Nat) (hA : A.Nodup) :
    (A.map (fun a => (sub L a).length)).sum = (L.filter (headIn A)).length := by
  have hz : ∀ A : List Nat, (A.map (fun _ => 0)).sum = 0 := by
    intro A; induction A <;> simp_all
  induction L with
  | nil => simpa [sub] using hz A
  | cons u L ih =>
    cases u with
    | nil =>
      rw [List.filter_cons_of_neg (by simp [headIn])]
      simpa [sub_cons_nil] using ih
    | cons a t =>
      have key : (A.map (fun b => (sub ((a :: t) :: L) b).length)).sum =
          (A.map (fun b => (sub L b).length)).sum + if a ∈ A then 1 else 0 := by
        clear ih
        induction A with
        | nil => simp
        | cons b A ihA =>
          rw [List.nodup_cons] at hA
          simp only [List.map_cons, List.sum_cons, List.mem_cons]
          rw [ihA hA.2, sub_cons_cons]
          by_cases hab : a = b
          · subst hab
            simp [hA.1]; omega
          · by_cases haA : a ∈ A <;> simp [hab, haA] <;> omega
      rw [key, ih]
      by_cases haA : a ∈ A
      · rw [List.filter_cons_of_pos (by simpa [headIn] using haA)]; simp [haA]
      · rw [List.filter_cons_of_neg (by simpa [headIn] using haA)]; simp [haA]

theorem length_sub_filter_prefix (L : List Word) (c : Nat) (x : Word) :
    ((sub L c).filter (fun w => x.isPrefixOf w)).length = (L.filter (fun w => (c :: x).isPrefixOf w)).length := by
  induction L with
  | nil => simp [sub]
  | cons u L ih =>
    cases u with
    | nil =>
      have e : (c :: x).isPrefixOf ([] : Word) = false := rfl
      rw [sub_cons_nil, List.filter_cons, e]
      simpa using ih
    | cons a t =>
      rw [sub_cons_cons]
      by_cases hac : a = c
      · subst hac
        have e : (a :: x).isPrefixOf (a :: t) = x.isPrefixOf t := by simp [List.isPrefixOf]
        rw [if_pos rfl, List.filter_cons, List.filter_cons, e]
        split <;> simp [ih]
      · have e : (c :: x).isPrefixOf (a :: t) = false := by
          simp only [List.isPrefixOf]
          have : (c == a) = false := by simpa using fun h => hac h.symm
          rw [this]; rfl
        rw [if_neg hac, List.filter_cons, e]
        simpa using ih

theorem length_subw (L : List Word) (x : Word) :
    (subw L x).length = (L.filter (fun w => x.isPrefixOf w)).length := by
  induction x generalizing L with
  | nil =>
    rw [List.filter_eq_self.2 (by intros; rfl)]; rfl
  | cons c x ih =>
    rw [subw, ih, length_sub_filter_prefix]

end Dawg
