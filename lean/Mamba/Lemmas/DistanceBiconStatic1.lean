import Mamba.Lemmas.DistanceBiconBlk7
/-!
# Static theory of the blocks described by the final DFS tree: leaders, edges, connectivity
-/
namespace GDist
open GraphSpec Model

variable {h : G} {st : BicSt} {tp : Nat → Nat}

/-- `c` closes a block: a non-root vertex whose lowpoint does not pass above its parent -/
def Ldr (h : G) (st : BicSt) (tp : Nat → Nat) (c : Nat) : Prop := c < h.n ∧ c ≠ 0 ∧ lo st c ≥ dI st (tp c)

/-- `x` lies in the block closed by `l` -/
def InBlk (st : BicSt) (tp : Nat → Nat) (l x : Nat) : Prop := x = tp l ∨ NL st tp l x

namespace DFinal
variable (df : DFinal h st tp)
include df

theorem lob' {x z a : Nat} (hx : x < h.n) (hz : z < h.n) (ha : a < h.n) (hxz : Anc tp x z)
    (hadj : h.adj z a = true) (hne : a ≠ tp z) : lo st x ≤ dI st a :=
  df.la.lob x hx (df.hall x hx) (df.fin x) z a hz hxz (df.hall z hz) hadj ha hne

theorem loatt' {x : Nat} (hx : x < h.n) : lo st x = dI st x ∨
    ∃ z a, z < h.n ∧ Anc tp x z ∧ h.adj z a = true ∧ a < h.n ∧ a ≠ tp z ∧ lo st x = dI st a := by
  rcases df.la.loatt x hx (df.hall x hx) (df.fin x) with h0 | ⟨z, a, h1, h2, _, h4, h5, h6, h7⟩
  · exact .inl h0
  · exact .inr ⟨z, a, h1, h2, h4, h5, h6, h7⟩

theorem lo_nonneg {x : Nat} (hx : x < h.n) : 0 ≤ lo st x := by
  rcases df.loatt' hx with h0 | ⟨z, a, _, _, _, ha, _, h0⟩
  · rw [h0]; exact df.dt.dnn x (df.hall x hx)
  · rw [h0]; exact df.dt.dnn a (df.hall a ha)

theorem depth_child {c : Nat} (hc : c < h.n) (hc0 : c ≠ 0) : dI st c = dI st (tp c) + 1 :=
  (df.dt.tree c hc (df.hall c hc) hc0).2.2.2

theorem parent_lt {c : Nat} (hc : c < h.n) (hc0 : c ≠ 0) : tp c < h.n :=
  (df.dt.tree c hc (df.hall c hc) hc0).1

theorem anc_n {a x : Nat} (hx : x < h.n) (ha : Anc tp a x) : a < h.n :=
  (df.dt.anc_vis hx (df.hall x hx) ha).1

theorem anc_eq_of_depth {a b x : Nat} (hx : x < h.n) (ha : Anc tp a x) (hb : Anc tp b x)
    (hd : dI st a = dI st b) : a = b := by
  have han := df.anc_n hx ha
  have hbn := df.anc_n hx hb
  rcases anc_linear ha hb with h1 | h1
  · by_contra hne
    have := df.anc_lt hbn h1 hne; omega
  · by_contra hne
    have := df.anc_lt han h1 (Ne.symm hne); omega

theorem ne_zero_of_proper {a x : Nat} (ha : Anc tp a x) (hne : x ≠ a) : x ≠ 0 := by
  intro h0; subst h0
  obtain ⟨k, hk⟩ := ha
  rw [iter_zero df.dt.tp0] at hk
  exact hne hk

theorem child_root_ldr {c : Nat} (hc : c < h.n) (hc0 : c ≠ 0) (htc : tp c = 0) : Ldr h st tp c := by
  refine ⟨hc, hc0, ?_⟩
  rw [htc, df.dt.root]
  exact df.lo_nonneg hc

/-- every non-root vertex lies below a unique closest block-closing vertex -/
theorem leader_exists : ∀ (m : Nat) (y : Nat), y < h.n → dI st y = (m : Int) → y ≠ 0 →
    ∃ l, Ldr h st tp l ∧ NL st tp l y := by
  intro m
  induction m with
  | zero =>
    intro y hy hd hy0
    have := df.depth_child hy hy0
    have := df.dt.dnn _ (df.hall _ (df.parent_lt hy hy0))
    simp at hd; omega
  | succ m ih =>
    intro y hy hd hy0
    by_cases hl : lo st y ≥ dI st (tp y)
    · exact ⟨y, ⟨hy, hy0, hl⟩, NL.refl df.dt hy (df.hall y hy)⟩
    · have hp := df.parent_lt hy hy0
      have hp0 : tp y ≠ 0 := by
        intro h0
        exact hl (df.child_root_ldr hy hy0 h0).2.2
      have hdc := df.depth_child hy hy0
      obtain ⟨l, hl1, hl2⟩ := ih (tp y) hp (by push_cast at hd; omega) hp0
      refine ⟨l, hl1, hl2.1.trans (anc_of_parent rfl), ?_⟩
      intro z hz1 hz2 hne
      by_cases hzy : z = y
      · subst hzy; omega
      · exact hl2.2 z hz1 (anc_parent_of_ne hz2 (Ne.symm hzy)) hne

theorem leader_of {y : Nat} (hy : y < h.n) (hy0 : y ≠ 0) : ∃ l, Ldr h st tp l ∧ NL st tp l y := by
  have hnn := df.dt.dnn y (df.hall y hy)
  exact df.leader_exists (dI st y).toNat y hy (by omega) hy0

theorem leader_unique {l l' y : Nat} (hy : y < h.n) (h1 : Ldr h st tp l) (h2 : Ldr h st tp l')
    (n1 : NL st tp l y) (n2 : NL st tp l' y) : l = l' := by
  by_contra hne
  rcases anc_linear n1.1 n2.1 with ha | ha
  · have := n1.2 l' ha n2.1 (Ne.symm hne)
    have := h2.2.2; omega
  · have := n2.2 l ha n1.1 hne
    have := h1.2.2; omega

/-- an edge between an ancestor `x` and a proper descendant `y` lies in exactly one block -/
theorem edge_block_aux (hsym : ∀ u v, h.adj u v = h.adj v u) {x y : Nat} (hx : x < h.n) (hy : y < h.n)
    (hxy : Anc tp x y) (hne : y ≠ x) (hadj : h.adj x y = true) :
    ∃ l, Ldr h st tp l ∧ InBlk st tp l x ∧ InBlk st tp l y ∧
      ∀ l', Ldr h st tp l' → InBlk st tp l' x → InBlk st tp l' y → l' = l := by
  obtain ⟨c, hc1, hc2, hc3⟩ := anc_child hxy hne
  have hcn := df.anc_n hy hc3
  have hy0 := df.ne_zero_of_proper hxy hne
  have hc0 : c ≠ 0 := df.ne_zero_of_proper (anc_of_parent hc1) hc2
  have hdc := df.depth_child hcn hc0
  rw [hc1] at hdc
  obtain ⟨l, hl1, hl2⟩ := df.leader_of hy hy0
  have hln := hl1.1
  have hex : InBlk st tp l x := by
    rcases anc_linear hl2.1 hc3 with ha | ha
    · by_cases hlc : l = c
      · subst hlc; exact .inl hc1.symm
      · right
        have := anc_parent_of_ne ha (Ne.symm hlc)
        rw [hc1] at this
        exact hl2.pre this hxy
    · by_cases hlc : l = c
      · subst hlc; exact .inl hc1.symm
      · exfalso
        -- `l` strictly below `c`: its lowpoint reaches `x`, above its parent
        have hxty : x ≠ tp y := by
          intro h0
          have hdy := df.depth_child hy hy0
          rw [← h0] at hdy
          have : c = y := df.anc_eq_of_depth hy hc3 (Anc.refl _ _) (by omega)
          subst this
          exact hlc (df.dt.anc_antisymm hcn (df.hall c hcn) hl2.1 ha)
        have h1 := df.lob' hln hy hx hl2.1 (by rw [hsym]; exact hadj) hxty
        have h2 := anc_parent_of_ne ha hlc
        have h3 := df.dt.anc_depth (df.parent_lt hln hl1.2.1) (df.hall _ (df.parent_lt hln hl1.2.1)) h2
        have := hl1.2.2
        omega
  refine ⟨l, hl1, hex, .inr hl2, ?_⟩
  intro l' hl' hx' hy'
  rcases hy' with hy' | hy'
  · exfalso
    rcases hx' with hx' | hx'
    · exact hne (hy'.trans hx'.symm)
    · have h1 : Anc tp l' (tp l') := by
        have := hx'.1.trans hxy
        rwa [hy'] at this
      have hp := df.parent_lt hl'.1 hl'.2.1
      have h2 := df.dt.anc_depth hp (df.hall _ hp) h1
      have := df.depth_child hl'.1 hl'.2.1
      omega
  · exact df.leader_unique hy hl' hl1 hy' hl2

/-- **every edge lies in exactly one block** (local labels) -/
theorem edge_block (hsym : ∀ u v, h.adj u v = h.adj v u) (hirr : ∀ v, h.adj v v = false) {x y : Nat}
    (hx : x < h.n) (hy : y < h.n) (hadj : h.adj x y = true) :
    ∃ l, Ldr h st tp l ∧ InBlk st tp l x ∧ InBlk st tp l y ∧
      ∀ l', Ldr h st tp l' → InBlk st tp l' x → InBlk st tp l' y → l' = l := by
  have hne : y ≠ x := by
    intro h0; subst h0; rw [hirr] at hadj; cases hadj
  rcases df.dt.nocross x y hx hy (df.hall x hx) (df.hall y hy) hadj with h1 | h1
  · exact df.edge_block_aux hsym hx hy h1 hne hadj
  · obtain ⟨l, h2, h3, h4, h5⟩ := df.edge_block_aux hsym hy hx h1 (Ne.symm hne) (by rw [hsym]; exact hadj)
    exact ⟨l, h2, h4, h3, fun l' a b c => h5 l' a c b⟩

/-- walking up the tree inside a vertex list -/
theorem tree_walk_up_in (hsym : ∀ u v, h.adj u v = h.adj v u) (V : List Nat) :
    ∀ (k : Nat) (z : Nat), z < h.n → (∀ j, j ≤ k → tp^[j] z ∈ V) → ReachIn h V z (tp^[k] z) := by
  intro k
  induction k with
  | zero =>
    intro z _ hV
    exact ReachIn.refl (hV 0 (Nat.le_refl _))
  | succ k ih =>
    intro z hz hV
    have hzV : z ∈ V := hV 0 (Nat.zero_le _)
    rw [Function.iterate_succ_apply]
    by_cases hz0 : z = 0
    · subst hz0
      rw [df.dt.tp0]
      exact ih 0 hz (fun j hj => by
        have := hV (j + 1) (by omega)
        rwa [Function.iterate_succ_apply, df.dt.tp0] at this)
    · obtain ⟨h1, _, h3, _⟩ := df.dt.tree z hz (df.hall z hz) hz0
      have htV : tp z ∈ V := by
        have := hV 1 (by omega)
        simpa using this
      have hstep : ReachIn h V z (tp z) := ⟨1, .step (.base hzV) (by rw [hsym]; exact h3) htV⟩
      exact hstep.trans (ih (tp z) h1 (fun j hj => by
        have := hV (j + 1) (by omega)
        rwa [Function.iterate_succ_apply] at this))

/-- **a block induces a connected subgraph** (local labels) -/
theorem block_connected (hsym : ∀ u v, h.adj u v = h.adj v u) {l : Nat} (hl : Ldr h st tp l) (B : List Nat)
    (hB : ∀ w, w ∈ B ↔ (w < h.n ∧ InBlk st tp l w)) :
    ∀ x ∈ B, ∀ y ∈ B, ReachIn h B x y := by
  have hlB : l ∈ B := (hB l).2 ⟨hl.1, .inr (NL.refl df.dt hl.1 (df.hall l hl.1))⟩
  have hp := df.parent_lt hl.1 hl.2.1
  have hpB : tp l ∈ B := (hB _).2 ⟨hp, .inl rfl⟩
  have hadj := (df.dt.tree l hl.1 (df.hall l hl.1) hl.2.1).2.2.1
  have hpl : ReachIn h B (tp l) l := ⟨1, .step (.base hpB) hadj hlB⟩
  have key : ∀ x ∈ B, ReachIn h B x l := by
    intro x hx
    obtain ⟨hxn, hor⟩ := (hB x).1 hx
    rcases hor with h0 | h0
    · rw [h0]; exact hpl
    · obtain ⟨k, hk⟩ := h0.1
      rw [← hk]
      apply df.tree_walk_up_in hsym B k x hxn
      intro j hj
      have h1 : Anc tp (tp^[j] x) x := ⟨j, rfl⟩
      have h2 : Anc tp l (tp^[j] x) := ⟨k - j, by
        rw [← Function.iterate_add_apply, Nat.sub_add_cancel hj, hk]⟩
      exact (hB _).2 ⟨df.anc_n hxn h1, .inr (h0.pre h2 h1)⟩
  intro x hx y hy
  exact (key x hx).trans ((key y hy).symm hsym)

end DFinal
end GDist
