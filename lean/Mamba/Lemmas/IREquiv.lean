import Mamba.Model.IR
import Mathlib.Data.List.Perm.Basic
import Mathlib.Data.List.Perm.Lattice
import Mathlib.Data.List.Dedup
import Mathlib.Data.List.Range
import Mathlib.Data.List.Sort

/-!
# Equivariance of the unpruned search tree under relabelling

Everything here is about the executable definitions of `Mamba/Model/IR.lean`.
`Relabel g g' σ τ`: `g'` is `g` with vertex `v` renamed `σ v` (`τ` is the inverse of `σ` on `0..n-1`).
Main result: `leaves_rel` / `leafCerts_perm` — the list of leaves (resp. leaf certificates) of `g'` is a permutation
of the list of leaves of `g` transported along `σ` (resp. of the list of leaf certificates of `g`), for every start
state, every refinement fuel and every depth fuel.
-/
namespace IR

structure Relabel (g g' : G) (σ τ : Nat → Nat) : Prop where
  n_eq : g'.n = g.n
  left : ∀ v, v < g.n → τ (σ v) = v
  right : ∀ v, v < g.n → σ (τ v) = v
  σ_lt : ∀ v, v < g.n → σ v < g.n
  τ_lt : ∀ v, v < g.n → τ v < g.n
  nbrs_lt : ∀ v, v < g.n → ∀ w ∈ g.nbrs v, w < g.n
  nbrs : ∀ v, v < g.n → (g'.nbrs (σ v)).Perm ((g.nbrs v).map σ)

/-- colourings related by σ on `0..n-1` -/
def CRel (g : G) (σ : Nat → Nat) (c c' : Array Nat) : Prop := ∀ v, v < g.n → col c' (σ v) = col c v

def SRel (g : G) (σ : Nat → Nat) (s s' : St) : Prop :=
  CRel g σ s.c s'.c ∧ s'.cells = s.cells ∧ s'.work = s.work

theorem dedup_eq (l : List Nat) : dedup l = l.dedup := by
  induction l with
  | nil => rfl
  | cons x xs ih =>
    unfold dedup
    by_cases h : x ∈ xs
    · rw [if_pos h, List.dedup_cons_of_mem h, ih]
    · rw [if_neg h, List.dedup_cons_of_notMem h, ih]

theorem col_tab {n : Nat} (f : Nat → Nat) {v : Nat} (hv : v < n) : col (tab n f) v = f v := by
  simp [col, tab, Array.getD, hv]

theorem rank_perm {ks ks' : List Nat} (h : ks.Perm ks') (k : Nat) : rank (dedup ks) k = rank (dedup ks') k := by
  unfold rank; rw [dedup_eq, dedup_eq]; exact ((h.dedup).filter _).length_eq

theorem frags_perm {n : Nat} {ks ks' : List Nat} (h : ks.Perm ks') (x : Nat) :
    frags n (dedup ks) x = frags n (dedup ks') x := by
  unfold frags; rw [dedup_eq, dedup_eq]; exact ((h.dedup).filter _).length_eq

theorem cnt_rel {g g' : G} {σ τ : Nat → Nat} (R : Relabel g g' σ τ) {c c' : Array Nat} (hc : CRel g σ c c')
    (i v : Nat) (hv : v < g.n) : cnt g' c' i (σ v) = cnt g c i v := by
  unfold cnt
  rw [(R.nbrs v hv).countP_eq, List.countP_map]
  apply List.countP_congr
  intro w hw
  simp [Function.comp, hc w (R.nbrs_lt v hv w hw)]

theorem key_rel {g g' : G} {σ τ : Nat → Nat} (R : Relabel g g' σ τ) {c c' : Array Nat} (hc : CRel g σ c c')
    (i v : Nat) (hv : v < g.n) : key g' c' i (σ v) = key g c i v := by
  unfold key
  rw [cnt_rel R hc i v hv, R.n_eq, hc v hv]

theorem range_map_perm {n : Nat} {σ τ : Nat → Nat}
    (left : ∀ v, v < n → τ (σ v) = v) (right : ∀ v, v < n → σ (τ v) = v)
    (σ_lt : ∀ v, v < n → σ v < n) (τ_lt : ∀ v, v < n → τ v < n) :
    ((List.range n).map τ).Perm (List.range n) := by
  apply (List.perm_ext_iff_of_nodup ?_ (List.nodup_range)).2
  · intro a
    simp only [List.mem_map, List.mem_range]
    constructor
    · rintro ⟨b, hb, rfl⟩; exact τ_lt b hb
    · intro ha; exact ⟨σ a, σ_lt a ha, left a ha⟩
  · apply List.Nodup.map_on _ List.nodup_range
    intro a ha b hb hab
    have := congrArg σ hab
    rwa [right a (List.mem_range.1 ha), right b (List.mem_range.1 hb)] at this

theorem keys_rel {g g' : G} {σ τ : Nat → Nat} (R : Relabel g g' σ τ) {c c' : Array Nat} (hc : CRel g σ c c')
    (i : Nat) : (keys g' c' i).Perm (keys g c i) := by
  unfold keys
  rw [R.n_eq]
  have h1 : (List.range g.n).map (key g' c' i) = ((List.range g.n).map τ).map (key g c i) := by
    rw [List.map_map]
    apply List.map_congr_left
    intro u hu
    have hu' := List.mem_range.1 hu
    have := key_rel R hc i (τ u) (R.τ_lt u hu')
    rw [R.right u hu'] at this
    simpa [Function.comp] using this
  rw [h1]
  exact (range_map_perm R.left R.right R.σ_lt R.τ_lt).map _

theorem pass_rel {g g' : G} {σ τ : Nat → Nat} (R : Relabel g g' σ τ) {s s' : St} (h : SRel g σ s s')
    (i : Nat) (rest : List Nat) : SRel g σ (pass g s i rest) (pass g' s' i rest) := by
  obtain ⟨hc, hcells, _⟩ := h
  have hk := keys_rel R hc i
  have e1 : ∀ x, rank (dedup (keys g' s'.c i)) x = rank (dedup (keys g s.c i)) x := fun x => rank_perm hk x
  have e2 : ∀ x, frags g.n (dedup (keys g' s'.c i)) x = frags g.n (dedup (keys g s.c i)) x := fun x => frags_perm hk x
  refine ⟨?_, ?_, ?_⟩
  · intro v hv
    show col (tab g'.n fun v => rank (dedup (keys g' s'.c i)) (key g' s'.c i v)) (σ v)
        = col (tab g.n fun v => rank (dedup (keys g s.c i)) (key g s.c i v)) v
    rw [col_tab _ hv, col_tab _ (by rw [R.n_eq]; exact R.σ_lt v hv), key_rel R hc i v hv, e1]
  · show (dedup (keys g' s'.c i)).length = (dedup (keys g s.c i)).length
    rw [dedup_eq, dedup_eq]
    exact hk.dedup.length_eq
  · show dedup _ = dedup _
    simp only [R.n_eq, hcells, e1, e2]

theorem refine_rel {g g' : G} {σ τ : Nat → Nat} (R : Relabel g g' σ τ) (fuel : Nat) :
    ∀ {s s' : St}, SRel g σ s s' → SRel g σ (refine g fuel s) (refine g' fuel s') := by
  induction fuel with
  | zero => intro s s' h; exact h
  | succ f ih =>
    intro s s' h
    unfold refine
    rw [h.2.2]
    cases hp : popMax s.work with
    | none => exact h
    | some p => obtain ⟨i, rest⟩ := p; exact ih (pass_rel R h i rest)

/-! ### the search tree -/

theorem cellMembers_rel {g g' : G} {σ τ : Nat → Nat} (R : Relabel g g' σ τ) {c c' : Array Nat} (hc : CRel g σ c c')
    (t : Nat) : (cellMembers g' c' t).Perm ((cellMembers g c t).map σ) := by
  unfold cellMembers
  rw [R.n_eq]
  have hσ : ((List.range g.n).map σ).Perm (List.range g.n) :=
    range_map_perm R.right R.left R.τ_lt R.σ_lt
  have h2 : ((List.range g.n).filter (fun v => col c' v == t)).Perm (((List.range g.n).map σ).filter (fun v => col c' v == t)) :=
    (hσ.symm).filter _
  refine h2.trans ?_
  rw [List.filter_map]
  apply List.Perm.of_eq
  congr 1
  apply List.filter_congr
  intro v hv
  simp [Function.comp, hc v (List.mem_range.1 hv)]

theorem target_rel {g g' : G} {σ τ : Nat → Nat} (R : Relabel g g' σ τ) {s s' : St} (h : SRel g σ s s') :
    target g' s' = target g s := by
  unfold target
  rw [h.2.1]
  have e : (fun t => decide ((cellMembers g' s'.c t).length > 1)) = (fun t => decide ((cellMembers g s.c t).length > 1)) := by
    funext t
    have := (cellMembers_rel R h.1 t).length_eq
    simp [this]
  rw [e]

theorem individualise_rel {g g' : G} {σ τ : Nat → Nat} (R : Relabel g g' σ τ) {s s' : St} (h : SRel g σ s s')
    (t v : Nat) (hv : v < g.n) : SRel g σ (individualise g s t v) (individualise g' s' t (σ v)) := by
  refine ⟨?_, ?_, rfl⟩
  · intro u hu
    have inj : σ u = σ v ↔ u = v := by
      constructor
      · intro e; have := congrArg τ e; rwa [R.left u hu, R.left v hv] at this
      · intro e; rw [e]
    show col (tab g'.n _) (σ u) = col (tab g.n _) u
    rw [col_tab _ hu, col_tab _ (by rw [R.n_eq]; exact R.σ_lt u hu)]
    simp only [inj, h.1 u hu]
  · show s'.cells + 1 = s.cells + 1
    rw [h.2.1]

theorem flatMap_rel {α : Type} {Rl : α → α → Prop} (ms : List Nat) (F F' : Nat → List α)
    (h : ∀ v ∈ ms, ∃ l, (F' v).Perm l ∧ List.Forall₂ Rl (F v) l) :
    ∃ l, (ms.flatMap F').Perm l ∧ List.Forall₂ Rl (ms.flatMap F) l := by
  induction ms with
  | nil => exact ⟨[], List.Perm.refl _, List.Forall₂.nil⟩
  | cons v ms ih =>
    obtain ⟨lv, hp, hf⟩ := h v (List.mem_cons_self ..)
    obtain ⟨lr, hpr, hfr⟩ := ih (fun w hw => h w (List.mem_cons_of_mem _ hw))
    refine ⟨lv ++ lr, ?_, ?_⟩
    · simp only [List.flatMap_cons]; exact hp.append hpr
    · simp only [List.flatMap_cons]; exact List.rel_append hf hfr

theorem mem_cellMembers_lt {g : G} {c : Array Nat} {t v : Nat} (h : v ∈ cellMembers g c t) : v < g.n := by
  unfold cellMembers at h
  exact List.mem_range.1 (List.mem_filter.1 h).1

/-- the leaf lists agree up to permutation, leaf by leaf related by σ -/
theorem leaves_rel {g g' : G} {σ τ : Nat → Nat} (R : Relabel g g' σ τ) (rf fuel : Nat) :
    ∀ {s s' : St}, SRel g σ s s' →
      ∃ l, (leaves g' rf fuel s').Perm l ∧ List.Forall₂ (fun c c' => CRel g σ c c') (leaves g rf fuel s) l := by
  induction fuel with
  | zero =>
    intro s s' h
    exact ⟨[s'.c], List.Perm.refl _, List.Forall₂.cons h.1 List.Forall₂.nil⟩
  | succ f ih =>
    intro s s' h
    unfold leaves
    rw [target_rel R h]
    cases ht : target g s with
    | none => exact ⟨[s'.c], List.Perm.refl _, List.Forall₂.cons h.1 List.Forall₂.nil⟩
    | some t =>
      simp only
      have hm := cellMembers_rel R h.1 t
      have step1 : ((cellMembers g' s'.c t).flatMap (fun v => leaves g' rf f (refine g' rf (individualise g' s' t v)))).Perm
          ((cellMembers g s.c t).flatMap (fun v => leaves g' rf f (refine g' rf (individualise g' s' t (σ v))))) := by
        have := hm.flatMap_right (fun v => leaves g' rf f (refine g' rf (individualise g' s' t v)))
        rwa [List.flatMap_map] at this
      obtain ⟨l, hp, hf⟩ := flatMap_rel (Rl := fun c c' => CRel g σ c c') (cellMembers g s.c t)
        (fun v => leaves g rf f (refine g rf (individualise g s t v)))
        (fun v => leaves g' rf f (refine g' rf (individualise g' s' t (σ v))))
        (fun v hv => ih (refine_rel R rf (individualise_rel R h t v (mem_cellMembers_lt hv))))
      exact ⟨l, step1.trans hp, hf⟩

/-! ### certificates -/

theorem codes_rel {g g' : G} {σ τ : Nat → Nat} (R : Relabel g g' σ τ) {c c' : Array Nat} (hc : CRel g σ c c') :
    (codes g' c').Perm (codes g c) := by
  unfold codes
  rw [R.n_eq]
  have hσ : ((List.range g.n).map σ).Perm (List.range g.n) := range_map_perm R.right R.left R.τ_lt R.σ_lt
  refine (hσ.symm.flatMap_right _).trans ?_
  rw [List.flatMap_map]
  apply List.Perm.flatMap_left
  intro u hu
  have hu' := List.mem_range.1 hu
  refine ((R.nbrs u hu').filterMap _).trans ?_
  rw [List.filterMap_map]
  apply List.Perm.of_eq
  apply List.filterMap_congr
  intro v hv
  simp [Function.comp, hc v (R.nbrs_lt u hu' v hv), hc u hu']

theorem sorted_perm_eq {l l' : List Nat} (p : l.Perm l') :
    l.mergeSort (fun a b => decide (a ≤ b)) = l'.mergeSort (fun a b => decide (a ≤ b)) := by
  have hle : ∀ a b : Nat, (decide (a ≤ b) || decide (b ≤ a)) = true := by intro a b; simp; omega
  have htr : ∀ a b c : Nat, decide (a ≤ b) = true → decide (b ≤ c) = true → decide (a ≤ c) = true := by
    intro a b c h1 h2; simp at *; omega
  have s1 := List.pairwise_mergeSort (le := fun a b => decide (a ≤ b)) htr hle l
  have s2 := List.pairwise_mergeSort (le := fun a b => decide (a ≤ b)) htr hle l'
  have p' : (l.mergeSort (fun a b => decide (a ≤ b))).Perm (l'.mergeSort (fun a b => decide (a ≤ b))) :=
    (List.mergeSort_perm _ _).trans (p.trans (List.mergeSort_perm _ _).symm)
  exact List.Perm.eq_of_pairwise (le := fun a b => decide (a ≤ b))
    (fun a b _ _ h1 h2 => by simp at h1 h2; omega) s1 s2 p'

theorem cert_rel {g g' : G} {σ τ : Nat → Nat} (R : Relabel g g' σ τ) {c c' : Array Nat} (hc : CRel g σ c c') :
    cert g' c' = cert g c := by
  unfold cert
  exact sorted_perm_eq (codes_rel R hc)

theorem map_cert_of_forall2 {g g' : G} {σ τ : Nat → Nat} (R : Relabel g g' σ τ) {l0 l : List (Array Nat)}
    (hf : List.Forall₂ (fun c c' => CRel g σ c c') l0 l) : l.map (cert g') = l0.map (cert g) := by
  induction hf with
  | nil => rfl
  | cons hab _ ih => simp only [List.map_cons]; rw [cert_rel R hab, ih]

/-- the multiset of leaf certificates is invariant under relabelling -/
theorem leafCerts_perm {g g' : G} {σ τ : Nat → Nat} (R : Relabel g g' σ τ) (rf fuel : Nat) {s s' : St}
    (h : SRel g σ s s') :
    ((leaves g' rf fuel s').map (cert g')).Perm ((leaves g rf fuel s).map (cert g)) := by
  obtain ⟨l, hp, hf⟩ := leaves_rel R rf fuel h
  exact (hp.map _).trans (List.Perm.of_eq (map_cert_of_forall2 R hf))

end IR
