import Mamba.Lemmas.DistanceEvenMinimal
/-!
# Gibbs' step 3 (swap-remove loop): what is kept
-/
namespace GDist
open Model

/-- `ContainsSorted(a, b)` on strictly increasing lists decides `b ⊆ a` -/
theorem sContains_spec : ∀ (a b : List Nat), a.Pairwise (· < ·) → b.Pairwise (· < ·) →
    (sContains a b = true ↔ ∀ x ∈ b, x ∈ a)
  | _, [], _, _ => by simp [sContains]
  | [], y :: b, _, _ => by
    simp only [sContains, Bool.false_eq_true, false_iff]
    intro h; exact absurd (h y List.mem_cons_self) (by simp)
  | x :: a, y :: b, ha, hb => by
    obtain ⟨hxa, ha'⟩ := List.pairwise_cons.1 ha
    obtain ⟨hyb, hb'⟩ := List.pairwise_cons.1 hb
    rw [sContains]
    by_cases h1 : x = y
    · subst h1
      simp only [if_true]
      rw [sContains_spec a b ha' hb']
      constructor
      · intro h z hz
        rcases List.mem_cons.1 hz with rfl | hz
        · exact List.mem_cons_self
        · exact List.mem_cons_of_mem _ (h z hz)
      · intro h z hz
        have := h z (List.mem_cons_of_mem _ hz)
        rcases List.mem_cons.1 this with h0 | h0
        · have := hyb z hz; omega
        · exact h0
    · simp only [h1, if_false]
      by_cases h2 : x > y
      · simp only [h2, if_true, Bool.false_eq_true, false_iff]
        intro h
        have := h y List.mem_cons_self
        rcases List.mem_cons.1 this with h0 | h0
        · exact h1 h0.symm
        · have := hxa y h0; omega
      · simp only [h2, if_false]
        rw [sContains_spec a (y :: b) ha' hb]
        constructor
        · intro h z hz; exact List.mem_cons_of_mem _ (h z hz)
        · intro h z hz
          have := h z hz
          rcases List.mem_cons.1 this with h0 | h0
          · exfalso
            rcases List.mem_cons.1 hz with h3 | h3
            · omega
            · have := hyb z h3; omega
          · exact h0

end GDist

namespace GDist
open Model

/-- the array after `R[j] = R[len-1]; R = R[:len-1]` -/
theorem swapRemove_get (R : Array (List Nat)) (j : Nat) (hj : j < R.size) :
    let R' := (R.set j (R[R.size - 1]'(by omega))).pop
    R'.size = R.size - 1 ∧
    (∀ k' (hk' : k' < R'.size), ∃ k, ∃ hk : k < R.size, k ≠ j ∧ (j ≤ k' → j < k) ∧ R'[k'] = R[k]) ∧
    (∀ k (hk : k < R.size), k ≠ j → ∃ k', ∃ hk' : k' < R'.size, R'[k'] = R[k]) := by
  intro R'
  have hsz : R'.size = R.size - 1 := by simp [R']
  refine ⟨hsz, ?_, ?_⟩
  · intro k' hk'
    have hk'2 : k' < R.size - 1 := by rw [← hsz]; exact hk'
    by_cases hkj : k' = j
    · refine ⟨R.size - 1, by omega, by omega, fun _ => by omega, ?_⟩
      simp [R', Array.getElem_pop, Array.getElem_set, hkj]
    · refine ⟨k', by omega, hkj, fun h => by omega, ?_⟩
      have : j ≠ k' := fun h => hkj h.symm
      simp [R', Array.getElem_pop, Array.getElem_set, this]
  · intro k hk hkj
    by_cases hlast : k = R.size - 1
    · refine ⟨j, by rw [hsz]; omega, ?_⟩
      simp [R', Array.getElem_pop, Array.getElem_set, hlast]
    · refine ⟨k, by rw [hsz]; omega, ?_⟩
      have : j ≠ k := fun h => hkj h.symm
      simp [R', Array.getElem_pop, Array.getElem_set, this]

/-- **what step 3 keeps**: if every element of the original `R` contains a "good" element of the original `R`, and
the current `R` still contains, for every element of the original `R`, a subset of it, then everything kept is good -/
theorem gibbsStep3_kept (Good : List Nat → Prop) (R0 : List (List Nat))
    (hs0 : ∀ V ∈ R0, V.Pairwise (· < ·))
    (hC : ∀ V ∈ R0, ∃ W ∈ R0, Good W ∧ ∀ x ∈ W, x ∈ V) :
    ∀ (j : Nat) (R : Array (List Nat)) (P : List (List Nat)) (R' : Array (List Nat)) (P' : List (List Nat)),
      j ≤ R.size → (∀ k (hk : k < R.size), R[k] ∈ R0) →
      (∀ W ∈ R0, ∃ k, ∃ hk : k < R.size, ∀ x ∈ R[k], x ∈ W) →
      gibbsStep3 j R P = .ok (R', P') →
      ∀ V ∈ R'.toList, (∃ k, ∃ hk : k < R.size, j ≤ k ∧ R[k] = V) ∨ Good V := by
  intro j
  induction j with
  | zero =>
    intro R P R' P' _ _ _ h V hV
    simp only [gibbsStep3, Outcome.ok.injEq, Prod.mk.injEq] at h
    rw [← h.1] at hV
    obtain ⟨k, hk, hkV⟩ := List.getElem_of_mem hV
    exact .inl ⟨k, by simpa using hk, Nat.zero_le _, by simpa using hkV⟩
  | succ j ih =>
    intro R P R' P' hjR hsub hinv h V hV
    have hj : j < R.size := by omega
    unfold gibbsStep3 at h
    simp only [hj, dif_pos] at h
    split at h
    · next hhit =>
      -- `R[j]` contains another element: it is removed
      obtain ⟨hsz, hget, hput⟩ := swapRemove_get R j hj
      simp only [List.any_eq_true, List.mem_range, Bool.and_eq_true, bne_iff_ne, ne_eq] at hhit
      obtain ⟨k0, hk0, hk0j, hcont⟩ := hhit
      have hgetD : R.getD k0 [] = R[k0] := by simp [Array.getD, hk0]
      rw [hgetD] at hcont
      have hcont' : ∀ x ∈ R[k0], x ∈ R[j] :=
        (sContains_spec _ _ (hs0 _ (hsub j hj)) (hs0 _ (hsub k0 hk0))).1 hcont
      have := ih _ _ R' P' (by rw [hsz]; omega)
        (fun k' hk' => by
          obtain ⟨k, hk, _, _, e⟩ := hget k' hk'
          rw [e]; exact hsub k hk)
        (fun W hW => by
          obtain ⟨k, hk, hkW⟩ := hinv W hW
          by_cases hkj : k = j
          · subst hkj
            obtain ⟨k', hk', e⟩ := hput k0 hk0 hk0j
            exact ⟨k', hk', fun x hx => by rw [e] at hx; exact hkW x (hcont' x hx)⟩
          · obtain ⟨k', hk', e⟩ := hput k hk hkj
            exact ⟨k', hk', fun x hx => by rw [e] at hx; exact hkW x hx⟩)
        h V hV
      rcases this with ⟨k', hk', hjk', e⟩ | hg
      · obtain ⟨k, hk, _, hlt, e2⟩ := hget k' hk'
        exact .inl ⟨k, hk, by have := hlt hjk'; omega, by rw [← e2]; exact e⟩
      · exact .inr hg
    · next hnohit =>
      rcases ih R P R' P' (by omega) hsub hinv h V hV with ⟨k, hk, hjk, e⟩ | hg
      · by_cases hkj : k = j
        · -- `V = R[j]` was tested and contains no other element of the current `R`
          subst hkj
          right
          obtain ⟨W, hW, hgood, hWV⟩ := hC _ (hsub k hk)
          obtain ⟨k1, hk1, hk1W⟩ := hinv W hW
          by_cases hk1k : k1 = k
          · subst hk1k
            have : R[k1] = W := strict_sorted_ext (hs0 _ (hsub k1 hk)) (hs0 W hW)
              (fun x => ⟨hk1W x, hWV x⟩)
            rw [← e, this]; exact hgood
          · exfalso
            apply hnohit
            simp only [List.any_eq_true, List.mem_range, Bool.and_eq_true, bne_iff_ne, ne_eq]
            refine ⟨k1, hk1, hk1k, ?_⟩
            have hgetD : R.getD k1 [] = R[k1] := by simp [Array.getD, hk1]
            rw [hgetD]
            exact (sContains_spec _ _ (hs0 _ (hsub k hk)) (hs0 _ (hsub k1 hk1))).2
              (fun x hx => hWV x (hk1W x hx))
        · exact .inl ⟨k, hk, by omega, e⟩
      · exact .inr hg

end GDist
