import Mamba.Lemmas.CliqueGoBK
import Mathlib.Data.List.Nodup
/-! Correctness of the faithful Bron–Kerbosch model: the inner loop, the main loop, the three Go functions. -/
namespace CliqueColour
open GraphSpec

/-- to be reported below the frame AND containing a processed vertex among `cands` -/
def qP (g : G) (R : List Nat) (piv : Int) (cands X : List Nat) (C : List Nat) : Bool :=
  respP R X C && cands.any (fun v => C.contains v && procB g piv v)

theorem qP_iff {g : G} {R : List Nat} {piv : Int} {cands X C : List Nat} :
    qP g R piv cands X C = true ↔
      ((∀ r ∈ R, r ∈ C) ∧ ∀ x ∈ X, x ∉ C) ∧ ∃ w ∈ cands, w ∈ C ∧ procB g piv w = true := by
  simp [qP, respP_iff, List.any_eq_true]

def bkWeight (st : List BKFrame) : Nat := (st.map fun f => 2 ^ f.P.length).sum

theorem swapRemove_facts {P : List Nat} {i : Nat} (hi : i < P.length) (hn : P.Nodup) :
    (swapRemove P i).Nodup ∧ (swapRemove P i).length + 1 = P.length ∧
      ∀ w, w ∈ swapRemove P i ↔ (w ∈ P ∧ w ≠ P[i]) := by
  have hp := swapRemove_perm hi
  refine ⟨hp.nodup_iff.2 (hn.sublist (List.eraseIdx_sublist _ _)), ?_, fun w => ?_⟩
  · rw [hp.length_eq, List.length_eraseIdx_of_lt hi]; omega
  · rw [hp.mem_iff, ← List.Nodup.erase_getElem hn i hi, hn.mem_erase_iff]
    exact ⟨fun h => ⟨h.2, h.1⟩, fun h => ⟨h.2, h.1⟩⟩

theorem child_ok {g : G} (hw : g.WF) {R P X : List Nat} {v : Nat} (hR : IsClique g R) (hPn : P.Nodup)
    (hd : ∀ w ∈ P, w ∉ X) (hc : ∀ w, (w ∈ P ∨ w ∈ X) ↔ CommonNbr g R w) (hv : v ∈ P) :
    FrameOK g { R := R ++ [v], P := P.filter (fun u => u != v && g.adj u v),
                X := X.filter (fun u => u != v && g.adj u v) } := by
  have hvN := (hc v).1 (Or.inl hv)
  refine ⟨⟨?_, ?_, ?_⟩, hPn.sublist List.filter_sublist, ?_, ?_⟩
  · exact List.nodup_append.2 ⟨hR.1, by simp, fun a ha b hb hab => by
      have : b = v := by simpa using hb
      subst this; subst hab; exact hvN.2.1 ha⟩
  · intro w hw'
    rcases List.mem_append.1 hw' with h | h
    · exact hR.2.1 w h
    · have : w = v := by simpa using h
      subst this; exact hvN.1
  · intro a ha b hb hab
    rcases List.mem_append.1 ha with h1 | h1 <;> rcases List.mem_append.1 hb with h2 | h2
    · exact hR.2.2 a h1 b h2 hab
    · have : b = v := by simpa using h2
      subst this; exact hvN.2.2 a h1
    · have : a = v := by simpa using h1
      subst this; rw [hw.symm]; exact hvN.2.2 b h2
    · have e1 : a = v := by simpa using h1
      have e2 : b = v := by simpa using h2
      exact absurd (e1.trans e2.symm) hab
  · intro w hwP hwX
    exact hd w (List.mem_filter.1 hwP).1 (List.mem_filter.1 hwX).1
  · intro w
    simp only [List.mem_filter, Bool.and_eq_true, bne_iff_ne, ne_eq]
    constructor
    · intro h
      have hmem : (w ∈ P ∨ w ∈ X) ∧ w ≠ v ∧ g.adj w v = true := by
        rcases h with h | h
        · exact ⟨Or.inl h.1, h.2⟩
        · exact ⟨Or.inr h.1, h.2⟩
      have hwN := (hc w).1 hmem.1
      refine ⟨hwN.1, ?_, ?_⟩
      · intro hm
        rcases List.mem_append.1 hm with h' | h'
        · exact hwN.2.1 h'
        · exact hmem.2.1 (by simpa using h')
      · intro r hr
        rcases List.mem_append.1 hr with h' | h'
        · exact hwN.2.2 r h'
        · have : r = v := by simpa using h'
          subst this; rw [hw.symm]; exact hmem.2.2
    · rintro ⟨hwn, hnm, hadj⟩
      have hwv : w ≠ v := fun h => hnm (by simp [h])
      have hvw : g.adj w v = true := by rw [hw.symm]; exact hadj v (by simp)
      have : CommonNbr g R w :=
        ⟨hwn, fun h => hnm (List.mem_append_left _ h), fun r hr => hadj r (List.mem_append_left _ hr)⟩
      rcases (hc w).2 this with h | h
      · exact Or.inl ⟨h, hwv, hvw⟩
      · exact Or.inr ⟨h, hwv, hvw⟩

theorem bkInner_spec {g : G} (hw : g.WF) {R : List Nat} {u : Nat} (hR : IsClique g R) :
    ∀ (i : Nat) (P X : List Nat) (st : List BKFrame),
      i ≤ P.length → P.Nodup → (∀ v ∈ P, v ∉ X) → (∀ v, (v ∈ P ∨ v ∈ X) ↔ CommonNbr g R v) →
      (∀ f ∈ st, FrameOK g f) →
      ∃ st', bkInner g R (u : Int) i P X st = .ok st' ∧ (∀ f ∈ st', FrameOK g f) ∧
        (st'.flatMap (Resp g)).Perm
          ((allMaximalCliquesSpec g).filter (qP g R u (P.take i) X) ++ st.flatMap (Resp g)) ∧
        bkWeight st' + 1 ≤ bkWeight st + 2 ^ P.length := by
  intro i
  induction i with
  | zero =>
    intro P X st _ _ _ _ hst
    refine ⟨st, rfl, hst, ?_, ?_⟩
    · have : (allMaximalCliquesSpec g).filter (qP g R u (P.take 0) X) = [] := by
        rw [List.filter_eq_nil_iff]
        intro C _
        simp [qP]
      rw [this]; simp
    · have := Nat.two_pow_pos P.length; omega
  | succ i ih =>
    intro P X st hi hPn hd hc hst
    have hi' : i < P.length := by omega
    have hget : P[i]? = some P[i] := List.getElem?_eq_getElem hi'
    have hvP : P[i] ∈ P := List.getElem_mem hi'
    have htake : P.take (i + 1) = P.take i ++ [P[i]] := by rw [List.take_add_one, hget]; rfl
    simp only [bkInner, hget]
    cases hcond : (((P[i] : Nat) : Int) != (u : Int)) && adjInt g P[i] (u : Int)
    · -- processed
      have hproc : procB g (u : Int) P[i] = true := by simp [procB, hcond]
      simp only [Bool.false_eq_true, if_false]
      obtain ⟨hn', hl', hm'⟩ := swapRemove_facts hi' hPn
      have hchild := child_ok hw hR hPn hd hc hvP
      obtain ⟨st', he, hok, hperm, hwt⟩ := ih (swapRemove P i) (X ++ [P[i]]) (_ :: st) (by omega) hn'
        (by
          intro w hwm hwx
          rcases List.mem_append.1 hwx with h | h
          · exact hd w ((hm' w).1 hwm).1 h
          · exact ((hm' w).1 hwm).2 (by simpa using h))
        (by
          intro w
          rw [← hc w, hm' w, List.mem_append]
          constructor
          · rintro (h | h | h)
            · exact Or.inl h.1
            · exact Or.inr h
            · have : w = P[i] := by simpa using h
              subst this; exact Or.inl hvP
          · rintro (h | h)
            · by_cases hwv : w = P[i]
              · exact Or.inr (Or.inr (by simp [hwv]))
              · exact Or.inl ⟨h, hwv⟩
            · exact Or.inr (Or.inl h))
        (by
          intro f hf
          rcases List.mem_cons.1 hf with rfl | hf
          · exact hchild
          · exact hst f hf)
      refine ⟨st', he, hok, ?_, ?_⟩
      · rw [swapRemove_take hi'] at hperm
        refine hperm.trans ?_
        simp only [List.flatMap_cons]
        rw [← List.append_assoc]
        refine List.Perm.append_right _ (List.Perm.symm ?_)
        show ((allMaximalCliquesSpec g).filter (qP g R u (P.take (i + 1)) X)).Perm
          ((allMaximalCliquesSpec g).filter (qP g R u (P.take i) (X ++ [P[i]])) ++
            (allMaximalCliquesSpec g).filter (respP (R ++ [P[i]]) (X.filter fun w => w != P[i] && g.adj w P[i])))
        have hvX : P[i] ∉ X := hd _ hvP
        -- pointwise description of the three predicates on a maximal clique `C`
        have hq2 : ∀ C, IsClique g C →
            (respP (R ++ [P[i]]) (X.filter fun w => w != P[i] && g.adj w P[i]) C = true ↔
              ((∀ r ∈ R, r ∈ C) ∧ ∀ x ∈ X, x ∉ C) ∧ P[i] ∈ C) := by
          intro C hC
          rw [respP_iff]
          constructor
          · rintro ⟨h1, h2⟩
            have hvC : P[i] ∈ C := h1 _ (by simp)
            refine ⟨⟨fun r hr => h1 r (List.mem_append_left _ hr), fun x hx hxC => ?_⟩, hvC⟩
            have hxv : x ≠ P[i] := fun h => hvX (h ▸ hx)
            exact h2 x (List.mem_filter.2 ⟨hx, by simp [hxv, hC.2.2 x hxC _ hvC hxv]⟩) hxC
          · rintro ⟨⟨h1, h2⟩, hvC⟩
            refine ⟨fun r hr => ?_, fun x hx => h2 x (List.mem_filter.1 hx).1⟩
            rcases List.mem_append.1 hr with h | h
            · exact h1 r h
            · have : r = P[i] := by simpa using h
              subst this; exact hvC
        apply filter_partition
        · intro C hC
          have hCl := (mem_allMax.1 hC).2.1
          rw [Bool.eq_iff_iff, Bool.or_eq_true, qP_iff, qP_iff, hq2 C hCl, htake]
          constructor
          · rintro ⟨⟨h1, h2⟩, w, hwm, hwC, hwp⟩
            by_cases hvC : P[i] ∈ C
            · exact Or.inr ⟨⟨h1, h2⟩, hvC⟩
            · left
              refine ⟨⟨h1, fun x hx => ?_⟩, w, ?_, hwC, hwp⟩
              · rcases List.mem_append.1 hx with h | h
                · exact h2 x h
                · have : x = P[i] := by simpa using h
                  subst this; exact hvC
              · rcases List.mem_append.1 hwm with h | h
                · exact h
                · have : w = P[i] := by simpa using h
                  subst this; exact absurd hwC hvC
          · rintro (⟨⟨h1, h2⟩, w, hwm, hwC, hwp⟩ | ⟨⟨h1, h2⟩, hvC⟩)
            · exact ⟨⟨h1, fun x hx => h2 x (List.mem_append_left _ hx)⟩, w, List.mem_append_left _ hwm, hwC, hwp⟩
            · exact ⟨⟨h1, h2⟩, P[i], List.mem_append_right _ (List.mem_singleton.2 rfl), hvC, hproc⟩
        · intro C hC
          have hCl := (mem_allMax.1 hC).2.1
          rw [qP_iff, hq2 C hCl]
          rintro ⟨⟨⟨_, h2⟩, _⟩, ⟨_, hvC⟩⟩
          exact h2 P[i] (by simp) hvC
      · have hlt : (P.filter fun w => w != P[i] && g.adj w P[i]).length < P.length :=
          length_filter_lt hvP (by simp)
        have h1 : 2 ^ (P.filter fun w => w != P[i] && g.adj w P[i]).length ≤ 2 ^ (P.length - 1) :=
          Nat.pow_le_pow_right (by omega) (by omega)
        have h2 : 2 ^ P.length = 2 * 2 ^ (P.length - 1) := by
          rw [← Nat.pow_succ']; congr 1; omega
        have h3 : (swapRemove P i).length = P.length - 1 := by omega
        simp only [bkWeight, List.map_cons, List.sum_cons] at hwt ⊢
        rw [h3] at hwt
        omega
    · -- skipped: a neighbour of the pivot
      have hproc : procB g (u : Int) P[i] = false := by simp [procB, hcond]
      simp only [if_true]
      obtain ⟨st', he, hok, hperm, hwt⟩ := ih P X st (by omega) hPn hd hc hst
      refine ⟨st', he, hok, ?_, hwt⟩
      have : (allMaximalCliquesSpec g).filter (qP g R u (P.take (i + 1)) X) =
          (allMaximalCliquesSpec g).filter (qP g R u (P.take i) X) := by
        apply filter_congr_mem
        intro C _
        simp only [qP, htake, List.any_append, List.any_cons, List.any_nil, hproc, Bool.and_false, Bool.or_false]
      rw [this]; exact hperm

theorem bkLoop_spec {g : G} (hw : g.WF) : ∀ (fuel : Nat) (stack : List BKFrame) (acc : List (List Nat)),
    (∀ f ∈ stack, FrameOK g f) → bkWeight stack ≤ fuel → (∀ c ∈ acc, IsClique g c) →
    ∃ res, bkLoop g (fun acc R => R :: acc) fuel stack acc = .ok res ∧ (∀ c ∈ res, IsClique g c) ∧
      (res.map (canon g.n)).Perm (stack.flatMap (Resp g) ++ acc.map (canon g.n)) := by
  intro fuel
  induction fuel with
  | zero =>
    intro stack acc _ hwt hacc
    cases stack with
    | nil => exact ⟨acc, rfl, hacc, by simp⟩
    | cons f rest =>
      exfalso
      simp only [bkWeight, List.map_cons, List.sum_cons] at hwt
      have := Nat.two_pow_pos f.P.length; omega
  | succ fuel ih =>
    intro stack acc hst hwt hacc
    cases stack with
    | nil => exact ⟨acc, rfl, hacc, by simp⟩
    | cons f rest =>
      have hf := hst f List.mem_cons_self
      have hrest : ∀ f' ∈ rest, FrameOK g f' := fun f' h => hst f' (List.mem_cons_of_mem _ h)
      simp only [bkWeight, List.map_cons, List.sum_cons] at hwt
      simp only [bkLoop]
      by_cases hleaf : (f.P.isEmpty && f.X.isEmpty) = true
      · rw [if_pos hleaf]
        simp only [Bool.and_eq_true, List.isEmpty_iff] at hleaf
        obtain ⟨hmax, hresp⟩ := resp_leaf hf hleaf.1 hleaf.2
        have hpos := Nat.two_pow_pos f.P.length
        obtain ⟨res, he, hcl, hperm⟩ := ih rest (f.R :: acc) hrest (by simp only [bkWeight]; omega)
          (by
            intro c hc
            rcases List.mem_cons.1 hc with rfl | hc
            · exact hf.clique
            · exact hacc c hc)
        refine ⟨res, he, hcl, hperm.trans ?_⟩
        simp only [List.flatMap_cons, hresp, List.map_cons, List.cons_append]
        exact List.perm_middle
      · rw [if_neg hleaf]
        have hne : ¬ (f.P = [] ∧ f.X = []) := by
          intro h; apply hleaf; simp [h.1, h.2]
        obtain ⟨u, hu, humem⟩ := choosePivot_mem g hne
        rw [hu]
        obtain ⟨st', he, hok, hperm, hwt'⟩ := bkInner_spec hw (u := u) hf.clique f.P.length f.P f.X rest
          (Nat.le_refl _) hf.pnodup hf.disj hf.cover hrest
        rw [he]
        simp only
        obtain ⟨res, he2, hcl, hperm2⟩ := ih st' acc hok (by simp only [bkWeight] at hwt' ⊢; omega) hacc
        refine ⟨res, he2, hcl, hperm2.trans (List.Perm.append_right _ (hperm.trans ?_))⟩
        simp only [List.flatMap_cons, List.take_length]
        refine List.Perm.append_right _ (List.Perm.of_eq ?_)
        unfold Resp
        apply filter_congr_mem
        intro C hC
        have hCm := (mem_allMax.1 hC).2
        rw [Bool.eq_iff_iff, qP_iff]
        constructor
        · rintro ⟨hr, w, hwP, hwC, hwp⟩
          exact respP_iff.2 hr
        · intro hr
          obtain ⟨v, hvP, hvC, hvp⟩ := pivot_lemma hw hf humem hCm hr
          exact ⟨respP_iff.1 hr, v, hvP, hvC, hvp⟩

theorem bkStart_ok (g : G) : ∀ f ∈ bkStart g, FrameOK g f := by
  intro f hf
  have : f = { R := [], P := List.range g.n, X := [] } := by simpa [bkStart] using hf
  subst this
  exact ⟨isClique_nil g, List.nodup_range, by simp, fun v => by simp [CommonNbr]⟩

theorem resp_start (g : G) : (bkStart g).flatMap (Resp g) = allMaximalCliquesSpec g := by
  simp only [bkStart, List.flatMap_cons, List.flatMap_nil, List.append_nil, Resp]
  rw [List.filter_eq_self]
  intro C _
  simp [respP]

theorem allMaximalCliquesGo_spec {g : G} (hw : g.WF) :
    ∃ out, allMaximalCliquesGo g = .ok out ∧ (∀ c ∈ out, IsClique g c) ∧
      (out.map (canon g.n)).Perm (allMaximalCliquesSpec g) := by
  obtain ⟨res, he, hcl, hperm⟩ := bkLoop_spec hw (2 ^ g.n) (bkStart g) [] (bkStart_ok g)
    (by simp [bkWeight, bkStart]) (by simp)
  refine ⟨res.reverse, by simp only [allMaximalCliquesGo, he], fun c hc => hcl c (List.mem_reverse.1 hc), ?_⟩
  rw [List.map_reverse]
  refine (List.reverse_perm _).trans (hperm.trans ?_)
  rw [resp_start]; simp

/-- the generic loop is the list-collecting loop followed by a fold over what was reported -/
theorem bkLoop_generic {α : Type} (g : G) (leaf : α → List Nat → α) (a : α) :
    ∀ (fuel : Nat) (stack : List BKFrame) (l : List (List Nat)),
      bkLoop g leaf fuel stack (l.foldr (fun R acc => leaf acc R) a) =
        match bkLoop g (fun acc R => R :: acc) fuel stack l with
        | .ok res => .ok (res.foldr (fun R acc => leaf acc R) a)
        | .panic => .panic
        | .outOfFuel => .outOfFuel := by
  intro fuel
  induction fuel with
  | zero =>
    intro stack l
    cases stack <;> simp [bkLoop]
  | succ fuel ih =>
    intro stack l
    cases stack with
    | nil => simp [bkLoop]
    | cons f rest =>
      simp only [bkLoop]
      split
      · exact ih rest (f.R :: l)
      · cases bkInner g f.R (choosePivot g f.P f.X) f.P.length f.P f.X rest with
        | ok st => exact ih st l
        | panic => rfl
        | outOfFuel => rfl

theorem foldr_max_eq (l : List (List Nat)) :
    l.foldr (fun R best => if best < R.length then R.length else best) 0 = maxList (l.map List.length) := by
  induction l with
  | nil => rfl
  | cons a t ih =>
    simp only [List.foldr_cons, List.map_cons, maxList] at ih ⊢
    rw [ih]
    split <;> omega

theorem cliqueNumberGo_spec {g : G} (hw : g.WF) : cliqueNumberGo g = .ok (cliqueNumberSpec g) := by
  obtain ⟨res, he, hcl, hperm⟩ := bkLoop_spec hw (2 ^ g.n) (bkStart g) [] (bkStart_ok g)
    (by simp [bkWeight, bkStart]) (by simp)
  have hgen := bkLoop_generic g (fun best R => if best < R.length then R.length else best) 0 (2 ^ g.n)
    (bkStart g) []
  simp only [List.foldr_nil, he] at hgen
  rw [cliqueNumberGo, hgen, foldr_max_eq]
  congr 1
  apply Nat.le_antisymm
  · exact maxList_le fun x hx => by
      obtain ⟨c, hc, rfl⟩ := List.mem_map.1 hx
      exact cliqueNumberSpec_bound (hcl c hc)
  · obtain ⟨s, hsub, hs, hlen⟩ := cliqueNumberSpec_witness g
    have hmax : IsMaximalClique g s := by
      refine ⟨hs, fun v hv hvs => ?_⟩
      by_contra hcon
      push Not at hcon
      have hbig : IsClique g (v :: s) := by
        refine ⟨List.nodup_cons.2 ⟨hvs, hs.1⟩, ?_, ?_⟩
        · intro w hw'
          rcases List.mem_cons.1 hw' with rfl | h
          · exact hv
          · exact hs.2.1 w h
        · intro a ha b hb hab
          have hc := fun r hr => by
            have := hcon r hr
            simp only [Bool.and_eq_true, ne_eq, Bool.not_eq_false] at this
            exact this
          rcases List.mem_cons.1 ha with rfl | h1 <;> rcases List.mem_cons.1 hb with rfl | h2
          · exact absurd rfl hab
          · exact (hc b h2).2
          · exact (hc a h1).1
          · exact hs.2.2 a h1 b h2 hab
      have := cliqueNumberSpec_bound hbig
      simp only [List.length_cons] at this
      omega
    have hin : s ∈ allMaximalCliquesSpec g := mem_allMax.2 ⟨hsub, hmax⟩
    rw [resp_start] at hperm
    have := hperm.symm.subset (List.mem_append_left _ hin)
    obtain ⟨c, hc, hce⟩ := List.mem_map.1 this
    have hcp := canon_perm (hcl c hc).1 (hcl c hc).2.1
    rw [← hlen, ← hce, hcp.length_eq]
    exact le_maxList (List.mem_map.2 ⟨c, hc, rfl⟩)

theorem complement_wf (g : G) (hw : g.WF) : g.complement.WF where
  symm := fun u v => by
    simp only [G.complement]
    rw [hw.symm u v, bne_comm]
    cases decide (u < g.n) <;> cases decide (v < g.n) <;> simp
  irrefl := fun v => by simp [G.complement]
  supp := fun u v h => by
    simp only [G.complement, Bool.and_eq_true, decide_eq_true_eq] at h
    exact ⟨h.1.1.2, h.1.2⟩

end CliqueColour
