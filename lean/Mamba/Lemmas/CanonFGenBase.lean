import Mamba.Lemmas.CanonFGenDef
/-!
# The recorded generators generate Aut: bookkeeping lemmas for `AutGen` / `FrameAuxG1` / `FrameAuxG`

Mirror of the `FrameAuxA1` / `FrameAuxA` part of `CanonFOrbBase.lean`. `AutGen n nb r gh s K` reads `gh.vsF` and the
recorded generators `RecGen s` (`s.gens`, `s.ngens`); the field `fmax` of `FrameAuxG1` does not depend on `incl`, `c`.
-/
namespace CanonF

/-! ## `GenBy`, `RecGen`, `AutGen` -/

/-- more generators generate more -/
theorem genBy_mono_gb {S S' : List Nat → Prop} {n : Nat} (h : ∀ γ, S γ → S' γ) {γ : List Nat}
    (hγ : GenBy S n γ) : GenBy S' n γ := by
  induction hγ with
  | id => exact GenBy.id
  | gen γ hs => exact GenBy.gen γ (h γ hs)
  | comp α β _ _ iha ihb => exact GenBy.comp α β iha ihb
  | inv α _ ih => exact GenBy.inv α ih

theorem RecGen_congr {s s' : LS} (e1 : s'.gens = s.gens) (e2 : s'.ngens = s.ngens) : RecGen s' = RecGen s := by
  funext γ; unfold RecGen; rw [e1, e2]

/-- the generators only grow; same first-leaf path -/
theorem AutGen.mono {n : Nat} {nb : Nbrs} {r : IR.St} {gh gh' : Gh} {s s' : LS} {K : Nat}
    (h : AutGen n nb r gh s K) (hS : ∀ γ, RecGen s γ → RecGen s' γ) (g : gh'.vsF = gh.vsF) :
    AutGen n nb r gh' s' K := by
  intro γ ha hc hfix
  rw [g] at hfix
  exact genBy_mono_gb hS (h γ ha hc hfix)

theorem AutGen.congr {n : Nat} {nb : Nbrs} {r : IR.St} {gh gh' : Gh} {s s' : LS} {K : Nat}
    (h : AutGen n nb r gh s K) (e1 : s'.gens = s.gens) (e2 : s'.ngens = s.ngens) (g : gh'.vsF = gh.vsF) :
    AutGen n nb r gh' s' K :=
  h.mono (fun γ hγ => by rw [RecGen_congr e1 e2]; exact hγ) g

/-- fixing more vertices is a stronger hypothesis -/
theorem AutGen.mono_level {n : Nat} {nb : Nbrs} {r : IR.St} {gh : Gh} {s : LS} {K K' : Nat}
    (h : AutGen n nb r gh s K) (hK : K ≤ K') : AutGen n nb r gh s K' :=
  fun γ ha hc hfix => h γ ha hc (fun j v hj hv => hfix j v (by omega) hv)

/-! ## `FrameAuxG1` -/

/-- general form of the congruence / monotonicity lemmas of `FrameAuxG1` -/
theorem FrameAuxG1.mono {n : Nat} {nb : Nbrs} {rf : Nat} {r : IR.St} {gh gh' : Gh} {s s' : LS} {us us' : List Nat}
    {incl : Bool} {ps : List Nat} {c st sz : Nat} (h : FrameAuxG1 n nb rf r gh s us incl ps c st sz)
    (hc : 0 < s'.count → 0 < s.count) (hS : ∀ γ, RecGen s γ → RecGen s' γ) (g : gh'.vsF = gh.vsF)
    (ev : us'.take ps.length = us.take ps.length) :
    FrameAuxG1 n nb rf r gh' s' us' incl ps c st sz := by
  have ec := cellL_congr (n := n) (nb := nb) (rf := rf) (r := r) (st := st) ev
  constructor
  · intro h0 hpre i w hi hw hx
    rw [ev, g] at hpre; rw [ec] at hw; rw [g] at hx
    exact (h.gF (hc h0) hpre i w hi hw hx).mono hS g
  · intro h0 hpre
    rw [ev, g] at hpre
    rw [g, ec]
    exact h.fmax (hc h0) hpre

/-- `FrameAuxG1` only looks at `count`, `gens`, `ngens` and at `us.take L` -/
theorem FrameAuxG1.congr {n : Nat} {nb : Nbrs} {rf : Nat} {r : IR.St} {gh : Gh} {s s' : LS} {us us' : List Nat}
    {incl : Bool} {ps : List Nat} {c st sz : Nat} (h : FrameAuxG1 n nb rf r gh s us incl ps c st sz)
    (e1 : s'.count = s.count) (e2 : s'.gens = s.gens) (e3 : s'.ngens = s.ngens)
    (ev : us'.take ps.length = us.take ps.length) : FrameAuxG1 n nb rf r gh s' us' incl ps c st sz :=
  h.mono (fun h0 => by rw [← e1]; exact h0) (fun γ hγ => by rw [RecGen_congr e2 e3]; exact hγ) rfl ev

/-- `FrameAuxG1.congr` when `count` changes between two positive values -/
theorem FrameAuxG1.congr_pos {n : Nat} {nb : Nbrs} {rf : Nat} {r : IR.St} {gh : Gh} {s s' : LS} {us us' : List Nat}
    {incl : Bool} {ps : List Nat} {c st sz : Nat} (h : FrameAuxG1 n nb rf r gh s us incl ps c st sz)
    (e1 : 0 < s.count) (e2 : s'.gens = s.gens) (e3 : s'.ngens = s.ngens)
    (ev : us'.take ps.length = us.take ps.length) : FrameAuxG1 n nb rf r gh s' us' incl ps c st sz :=
  h.mono (fun _ => e1) (fun γ hγ => by rw [RecGen_congr e2 e3]; exact hγ) rfl ev

/-- `FrameAuxG1` only reads `vsF` of the ghost data -/
theorem FrameAuxG1.congr_gh {n : Nat} {nb : Nbrs} {rf : Nat} {r : IR.St} {gh gh' : Gh} {s : LS} {us : List Nat}
    {incl : Bool} {ps : List Nat} {c st sz : Nat} (h : FrameAuxG1 n nb rf r gh s us incl ps c st sz)
    (g : gh'.vsF = gh.vsF) : FrameAuxG1 n nb rf r gh' s us incl ps c st sz :=
  h.mono (fun h0 => h0) (fun _ hγ => hγ) g rfl

/-- the recorded generators grow (`count` may change between positive values) -/
theorem FrameAuxG1.mono_gens {n : Nat} {nb : Nbrs} {rf : Nat} {r : IR.St} {gh : Gh} {s s' : LS} {us : List Nat}
    {incl : Bool} {ps : List Nat} {c st sz : Nat} (h : FrameAuxG1 n nb rf r gh s us incl ps c st sz)
    (hc : 0 < s'.count → 0 < s.count) (hS : ∀ γ, RecGen s γ → RecGen s' γ) :
    FrameAuxG1 n nb rf r gh s' us incl ps c st sz :=
  h.mono hc hS rfl rfl

/-- a frame whose node is not on the first-leaf path (a fresh node, or before the first leaf) -/
theorem FrameAuxG1.of_off {n : Nat} {nb : Nbrs} {rf : Nat} {r : IR.St} {gh : Gh} {s : LS} {us : List Nat}
    {incl : Bool} {ps : List Nat} {c st sz : Nat}
    (hF : 0 < s.count → us.take ps.length ≠ gh.vsF.take ps.length) :
    FrameAuxG1 n nb rf r gh s us incl ps c st sz :=
  ⟨fun h0 hpre => absurd hpre (hF h0), fun h0 hpre => absurd hpre (hF h0)⟩

/-- `incl`, `c` only matter for `gF` -/
theorem FrameAuxG1.of_fmax {n : Nat} {nb : Nbrs} {rf : Nat} {r : IR.St} {gh : Gh} {s : LS} {us : List Nat}
    {incl incl' : Bool} {ps : List Nat} {c c' st sz : Nat} (h : FrameAuxG1 n nb rf r gh s us incl ps c st sz)
    (hg : 0 < s.count → us.take ps.length = gh.vsF.take ps.length → ∀ i w,
      (if incl' then c' - st ≤ i else c' - st < i) → (cellL n nb rf r us ps.length st)[i]? = some w →
      gh.vsF[ps.length]? = some w → AutGen n nb r gh s (ps.length + 1)) :
    FrameAuxG1 n nb rf r gh s us incl' ps c' st sz :=
  ⟨hg, h.fmax⟩

/-- the top frame: the member with index `c - 1 - st` becomes processed (skip, `splitBin` worse); it is not the
first-path child because it was unprocessed (`futF` of the D-layer) -/
theorem FrameAuxG1.step_head {n : Nat} {nb : Nbrs} {rf : Nat} {r : IR.St} {gh : Gh} {s : LS} {us : List Nat}
    {ps : List Nat} {c st sz : Nat} (h : FrameAuxG1 n nb rf r gh s us true ps c st sz)
    (hD : FrameAux1 n nb rf r gh s us true ps c st sz) : FrameAuxG1 n nb rf r gh s us true ps (c - 1) st sz := by
  refine h.of_fmax ?_
  intro h0 hpre i w hi hw hx
  simp only [if_true] at hi
  rcases Nat.lt_or_ge i (c - st) with hlt | hge
  · exact absurd ⟨hpre, hx⟩ (hD.futF h0 i w hlt hw)
  · exact h.gF h0 hpre i w (by simp only [if_true]; exact hge) hw hx

/-- the top frame: the member with index `c - 1 - st` starts being explored -/
theorem FrameAuxG1.start_child {n : Nat} {nb : Nbrs} {rf : Nat} {r : IR.St} {gh : Gh} {s : LS} {us : List Nat}
    {ps : List Nat} {c st sz : Nat} (h : FrameAuxG1 n nb rf r gh s us true ps c st sz) (hc : st < c) :
    FrameAuxG1 n nb rf r gh s us false ps (c - 1) st sz := by
  refine h.of_fmax ?_
  intro h0 hpre i w hi hw hx
  simp only [Bool.false_eq_true, if_false] at hi
  exact h.gF h0 hpre i w (by simp only [if_true]; omega) hw hx

/-- the top frame: the child that was being explored (index `c - st`) is processed; if it is the first-path child the
stabiliser of the next level is generated -/
theorem FrameAuxG1.finish_child' {n : Nat} {nb : Nbrs} {rf : Nat} {r : IR.St} {gh : Gh} {s : LS} {us : List Nat}
    {ps : List Nat} {c st sz : Nat} (h : FrameAuxG1 n nb rf r gh s us false ps c st sz)
    (hnew : ∀ w, (cellL n nb rf r us ps.length st)[c - st]? = some w → us.take ps.length = gh.vsF.take ps.length →
      gh.vsF[ps.length]? = some w → AutGen n nb r gh s (ps.length + 1)) :
    FrameAuxG1 n nb rf r gh s us true ps c st sz := by
  refine h.of_fmax ?_
  intro h0 hpre i w hi hw hx
  simp only [if_true] at hi
  rcases Nat.lt_or_ge (c - st) i with hlt | hge
  · exact h.gF h0 hpre i w (by simp only [Bool.false_eq_true, if_false]; exact hlt) hw hx
  · have : i = c - st := by omega
    subst this
    exact hnew w hw hpre hx

theorem FrameAuxG1.finish_child {n : Nat} {nb : Nbrs} {rf : Nat} {r : IR.St} {gh : Gh} {s : LS} {us : List Nat}
    {ps : List Nat} {c st sz : Nat} (h : FrameAuxG1 n nb rf r gh s us false ps c st sz)
    (hnew : ∀ w, (cellL n nb rf r us ps.length st)[c - st]? = some w → gh.vsF[ps.length]? = some w →
      AutGen n nb r gh s (ps.length + 1)) :
    FrameAuxG1 n nb rf r gh s us true ps c st sz :=
  h.finish_child' (fun w hw _ hx => hnew w hw hx)

/-! ## `FrameAuxG` -/

/-- general form of the congruence / monotonicity lemmas of `FrameAuxG` -/
theorem FrameAuxG.mono {n : Nat} {nb : Nbrs} {rf : Nat} {r : IR.St} {gh gh' : Gh} {s s' : LS} {us us' : List Nat}
    (hc : 0 < s'.count → 0 < s.count) (hS : ∀ γ, RecGen s γ → RecGen s' γ) (g : gh'.vsF = gh.vsF) :
    ∀ (incl : Bool) (path choices : List Nat) (lv : List (Nat × Nat)),
      (∀ L, L < path.length → us'.take L = us.take L) →
      FrameAuxG n nb rf r gh s us incl path choices lv → FrameAuxG n nb rf r gh' s' us' incl path choices lv := by
  intro incl path
  induction path generalizing incl with
  | nil => intro choices lv _ h; cases choices <;> cases lv <;> simp_all [FrameAuxG]
  | cons p ps ih =>
    intro choices lv hv h
    cases choices with
    | nil => simp [FrameAuxG] at h
    | cons c cs =>
      cases lv with
      | nil => simp [FrameAuxG] at h
      | cons x ls =>
        obtain ⟨st, sz⟩ := x
        simp only [FrameAuxG] at h ⊢
        exact ⟨h.1.mono hc hS g (hv ps.length (by simp)),
          ih false cs ls (fun L hL => hv L (by simp only [List.length_cons]; omega)) h.2⟩

theorem FrameAuxG.congr {n : Nat} {nb : Nbrs} {rf : Nat} {r : IR.St} {gh : Gh} {s s' : LS} {us us' : List Nat}
    (e1 : s'.count = s.count) (e2 : s'.gens = s.gens) (e3 : s'.ngens = s.ngens) :
    ∀ (incl : Bool) (path choices : List Nat) (lv : List (Nat × Nat)),
      (∀ L, L < path.length → us'.take L = us.take L) →
      FrameAuxG n nb rf r gh s us incl path choices lv → FrameAuxG n nb rf r gh s' us' incl path choices lv :=
  FrameAuxG.mono (fun h0 => by rw [← e1]; exact h0) (fun γ hγ => by rw [RecGen_congr e2 e3]; exact hγ) rfl

theorem FrameAuxG.congr_pos {n : Nat} {nb : Nbrs} {rf : Nat} {r : IR.St} {gh : Gh} {s s' : LS} {us us' : List Nat}
    (e1 : 0 < s.count) (e2 : s'.gens = s.gens) (e3 : s'.ngens = s.ngens) :
    ∀ (incl : Bool) (path choices : List Nat) (lv : List (Nat × Nat)),
      (∀ L, L < path.length → us'.take L = us.take L) →
      FrameAuxG n nb rf r gh s us incl path choices lv → FrameAuxG n nb rf r gh s' us' incl path choices lv :=
  FrameAuxG.mono (fun _ => e1) (fun γ hγ => by rw [RecGen_congr e2 e3]; exact hγ) rfl

theorem FrameAuxG.congr_gh {n : Nat} {nb : Nbrs} {rf : Nat} {r : IR.St} {gh gh' : Gh} {s : LS} {us : List Nat}
    (g : gh'.vsF = gh.vsF) (incl : Bool) (path choices : List Nat) (lv : List (Nat × Nat))
    (h : FrameAuxG n nb rf r gh s us incl path choices lv) : FrameAuxG n nb rf r gh' s us incl path choices lv :=
  FrameAuxG.mono (fun h0 => h0) (fun _ hγ => hγ) g incl path choices lv (fun _ _ => rfl) h

theorem FrameAuxG.mono_gens {n : Nat} {nb : Nbrs} {rf : Nat} {r : IR.St} {gh : Gh} {s s' : LS} {us : List Nat}
    (hc : 0 < s'.count → 0 < s.count) (hS : ∀ γ, RecGen s γ → RecGen s' γ)
    (incl : Bool) (path choices : List Nat) (lv : List (Nat × Nat))
    (h : FrameAuxG n nb rf r gh s us incl path choices lv) : FrameAuxG n nb rf r gh s' us incl path choices lv :=
  FrameAuxG.mono hc hS rfl incl path choices lv (fun _ _ => rfl) h

theorem FrameAuxG.tail {n : Nat} {nb : Nbrs} {rf : Nat} {r : IR.St} {gh : Gh} {s : LS} {us : List Nat} {incl : Bool}
    {p c : Nat} {ps cs : List Nat} {x : Nat × Nat} {ls : List (Nat × Nat)}
    (h : FrameAuxG n nb rf r gh s us incl (p :: ps) (c :: cs) (x :: ls)) :
    FrameAuxG n nb rf r gh s us false ps cs ls := by
  obtain ⟨st, sz⟩ := x
  simp only [FrameAuxG] at h
  exact h.2

theorem FrameAuxG.head {n : Nat} {nb : Nbrs} {rf : Nat} {r : IR.St} {gh : Gh} {s : LS} {us : List Nat} {incl : Bool}
    {p c : Nat} {ps cs : List Nat} {st sz : Nat} {ls : List (Nat × Nat)}
    (h : FrameAuxG n nb rf r gh s us incl (p :: ps) (c :: cs) ((st, sz) :: ls)) :
    FrameAuxG1 n nb rf r gh s us incl ps c st sz := by
  simp only [FrameAuxG] at h
  exact h.1

theorem FrameAuxG.mk {n : Nat} {nb : Nbrs} {rf : Nat} {r : IR.St} {gh : Gh} {s : LS} {us : List Nat} {incl : Bool}
    {p c : Nat} {ps cs : List Nat} {st sz : Nat} {ls : List (Nat × Nat)}
    (h1 : FrameAuxG1 n nb rf r gh s us incl ps c st sz) (h2 : FrameAuxG n nb rf r gh s us false ps cs ls) :
    FrameAuxG n nb rf r gh s us incl (p :: ps) (c :: cs) ((st, sz) :: ls) := by
  simp only [FrameAuxG]
  exact ⟨h1, h2⟩

theorem FrameAuxG.drop {n : Nat} {nb : Nbrs} {rf : Nat} {r : IR.St} {gh : Gh} {s : LS} {us : List Nat} :
    ∀ (j : Nat) (path choices : List Nat) (lv : List (Nat × Nat)), 0 < j →
      FrameAuxG n nb rf r gh s us false path choices lv →
      FrameAuxG n nb rf r gh s us false (path.drop j) (choices.drop j) (lv.drop j) := by
  intro j
  induction j with
  | zero => intro _ _ _ h; omega
  | succ j ih =>
    intro path choices lv _ h
    cases path with
    | nil => cases choices <;> cases lv <;> simp_all [FrameAuxG]
    | cons p ps =>
      cases choices with
      | nil => simp [FrameAuxG] at h
      | cons c cs =>
        cases lv with
        | nil => simp [FrameAuxG] at h
        | cons x ls =>
          simp only [List.drop_succ_cons]
          rcases Nat.eq_zero_or_pos j with h0 | hpos
          · subst h0; simpa using h.tail
          · exact ih ps cs ls hpos h.tail

/-- rewriting the `path` argument -/
theorem FrameAuxG.path_eq {n : Nat} {nb : Nbrs} {rf : Nat} {r : IR.St} {gh : Gh} {s : LS} {us : List Nat} {incl : Bool}
    {path path' choices : List Nat} {lv : List (Nat × Nat)} (e : path' = path)
    (h : FrameAuxG n nb rf r gh s us incl path choices lv) : FrameAuxG n nb rf r gh s us incl path' choices lv := by
  subst e; exact h

end CanonF
