import Mamba.Lemmas.CanonFDfsBase
/-!
# Index paths of the stack frames and of the stored leaves: the Heuristic-2 tests determine common ancestors
-/
namespace CanonF

/-- the `path` of the stack frames is the index path of the vertex path the frames refer to -/
theorem frames_idxPath {n : Nat} {nb : Nbrs} {rf : Nat} {r : IR.St} {us : List Nat} :
    ∀ (path choices : List Nat) (lv : List (Nat × Nat)),
      FramesOK n nb rf r us path choices lv → path.length ≤ us.length →
      IdxPath n nb rf r us path.reverse path.length := by
  intro path
  induction path with
  | nil => intro _ _ _ _ i hi; simp at hi
  | cons p ps ih =>
    intro choices lv h hlen
    cases choices with
    | nil => simp [FramesOK] at h
    | cons c cs =>
      cases lv with
      | nil => simp [FramesOK] at h
      | cons x ls =>
        obtain ⟨st, sz⟩ := x
        simp only [FramesOK] at h
        obtain ⟨a1, _, a3, a4⟩ := h
        simp only [List.length_cons] at hlen
        have ih' := ih cs ls a4 (by omega)
        intro i hi
        simp only [List.length_cons] at hi
        simp only [List.reverse_cons]
        rcases Nat.lt_or_ge i ps.length with hlt | hge
        · obtain ⟨t, j, v, b1, b2, b3, b4⟩ := ih' i hlt
          refine ⟨t, j, v, b1, b2, b3, ?_⟩
          rw [List.getElem?_append_left (by simpa using hlt)]
          exact b4
        · have e : i = ps.length := by omega
          subst e
          have hl : ps.length < us.length := by omega
          obtain ⟨c1, _⟩ := a3 hl
          refine ⟨st, p, us[ps.length], a1, List.getElem?_eq_getElem hl, ?_, ?_⟩
          · rw [← c1]; exact List.getElem?_eq_getElem hl
          · rw [List.getElem?_append_right (by simp)]
            simp

theorem dix_hasPrefix {P q : List Nat} (h : hasPrefix P q = true) : ∀ i, i < q.length → q[i]? = P[i]? := by
  unfold hasPrefix at h
  simp only [Bool.and_eq_true, decide_eq_true_eq, beq_iff_eq] at h
  intro i hi
  rw [← h.2, List.getElem?_take, if_pos hi]

set_option linter.unusedVariables false in
/-- a vertex path whose index path is a prefix of the index path of a leaf is a prefix of the vertex path of the leaf -/
theorem prefix_of_hasPrefix {n : Nat} {nb : Nbrs} {rf : Nat} {r : IR.St} {us vsX P ps : List Nat}
    (hI : IdxPath n nb rf r us ps.reverse ps.length) (hp : IR.IsPath (irG n nb) rf r us) (hlen : ps.length ≤ us.length)
    (hpX : IR.IsPath (irG n nb) rf r vsX) (hlX : IR.target (irG n nb) (IR.nodeAt (irG n nb) rf r vsX) = none)
    (hIX : IdxPath n nb rf r vsX P vsX.length) (hh : hasPrefix P ps.reverse = true) :
    us.take ps.length = vsX.take ps.length ∧ ps.length ≤ vsX.length := by
  have hpre := dix_hasPrefix hh
  simp only [List.length_reverse] at hpre
  have key : ∀ L, L ≤ ps.length → L ≤ vsX.length → us.take L = vsX.take L := by
    intro L h1 h2
    apply same_prefix_of_idx (P := P)
    · intro i hi
      obtain ⟨t, j, v, b1, b2, b3, b4⟩ := hI i (by omega)
      exact ⟨t, j, v, b1, b2, b3, by rw [← hpre i (by omega)]; exact b4⟩
    · intro i hi
      exact hIX i (by omega)
  rcases Nat.lt_or_ge vsX.length ps.length with hlt | hge
  · exfalso
    have e := key vsX.length (by omega) (Nat.le_refl _)
    rw [List.take_length] at e
    have hl : vsX.length < us.length := by omega
    have hsplit := bj_split_at (List.getElem?_eq_getElem hl)
    rw [e] at hsplit
    rw [hsplit] at hp
    obtain ⟨_, t, ht, _⟩ := (bj_isPath_append vsX r _).1 hp
    rw [hlX] at ht
    cases ht
  · exact ⟨key ps.length (Nat.le_refl _) hge, hge⟩

theorem dix_count_of_onFirst {s : LS} {ps : List Nat} (h : onFirstB s ps = true) :
    0 < s.count ∧ hasPrefix s.flPath.toList ps.reverse = true := by
  unfold onFirstB at h
  simpa only [Bool.and_eq_true, decide_eq_true_eq] using h

theorem dix_count_of_onBest {s : LS} {ps : List Nat} (h : onBestB s ps = true) :
    0 < s.count ∧ hasPrefix s.bestPath.toList ps.reverse = true := by
  unfold onBestB at h
  simpa only [Bool.and_eq_true, decide_eq_true_eq] using h

/-- the first-leaf test of Heuristic 2 holds ⇒ the frame's node is on the first-leaf path -/
theorem prefixF_of_onFirst {n : Nat} {nb : Nbrs} {rf : Nat} {r : IR.St} {gh : Gh} {s : LS} {us ps : List Nat}
    (hI : IdxPath n nb rf r us ps.reverse ps.length) (hp : IR.IsPath (irG n nb) rf r us) (hlen : ps.length ≤ us.length)
    (hG : GlobalInv n nb rf r gh s) (h : onFirstB s ps = true) : us.take ps.length = gh.vsF.take ps.length := by
  obtain ⟨hc, hh⟩ := dix_count_of_onFirst h
  have L := hG.first hc
  exact (prefix_of_hasPrefix hI hp hlen L.path L.leaf L.idx hh).1

/-- the best-leaf test of Heuristic 2 holds ⇒ the frame's node is on the best-leaf path -/
theorem prefixB_of_onBest {n : Nat} {nb : Nbrs} {rf : Nat} {r : IR.St} {gh : Gh} {s : LS} {us ps : List Nat}
    (hI : IdxPath n nb rf r us ps.reverse ps.length) (hp : IR.IsPath (irG n nb) rf r us) (hlen : ps.length ≤ us.length)
    (hG : GlobalInv n nb rf r gh s) (h : onBestB s ps = true) : us.take ps.length = gh.vsB.take ps.length := by
  obtain ⟨hc, hh⟩ := dix_count_of_onBest h
  have L := hG.best hc
  exact (prefix_of_hasPrefix hI hp hlen L.path L.leaf L.idx hh).1

end CanonF
