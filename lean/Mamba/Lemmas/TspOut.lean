import Mamba.Lemmas.Tsp
import Mamba.Spec.Tsplib
/-! Helper lemmas for `lib_output` (C20): the bytes of the fault-free run and how they read back. -/
namespace Tsp

/-! ### the fault-free writer -/

theorem write_noFaults (s : W) (p : List Char) :
    write noFaults s p = (⟨s.calls + 1, s.out ++ p⟩, p.length, none) := rfl

theorem write0_noFaults (s : W) (p : List Char) : write0 noFaults s p = (⟨s.calls + 1, s.out ++ p⟩, none) := by
  simp [write0, write_noFaults]

theorem writeAll0_noFaults (cs : List Chunk) :
    ∀ s : W, writeAll0 noFaults s cs = (⟨s.calls + cs.length, s.out ++ cs.flatMap Chunk.bytes⟩, none) := by
  induction cs with
  | nil => intro s; simp [writeAll0]
  | cons c cs ih =>
    intro s
    simp [writeAll0, write0_noFaults, ih]
    omega

theorem writeAll_noFaults (ps : List (List Char)) :
    ∀ s : W, writeAll noFaults s ps = (⟨s.calls + ps.length, s.out ++ ps.flatten⟩, none) := by
  induction ps with
  | nil => intro s; simp [writeAll]
  | cons p ps ih =>
    intro s
    simp [writeAll, write_noFaults, ih]
    omega

theorem lib_noFaults (n : Nat) (w : Nat → Nat → Int) :
    lib n w noFaults =
      ⟨(hdrWrites n).flatten ++ (body n w).flatMap Chunk.bytes ++ trailerWrites.flatten, none,
        (hdrWrites n).length + (body n w).length + trailerWrites.length, allPairs n⟩ := by
  rw [lib_unfold]
  simp [writeAll_noFaults, writeAll0_noFaults, Res.of]

/-! ### the generated constants, as far as the proofs need their values -/

/-- the padding character is a blank (the reader cuts fields at blanks) -/
theorem padChar_eq : padChar = ' ' := by decide

/-- at least one pad byte between columns -/
theorem padding_pos : 0 < padding := by decide

/-! ### bytes of one row -/

theorem padChunks_bytes (k : Nat) : (padChunks k).flatMap Chunk.bytes = List.replicate k padChar := by
  induction k using Nat.strongRecOn with
  | _ k ih =>
    rw [padChunks]
    split
    · rename_i h
      simp only [List.flatMap_cons, Chunk.bytes, ih (k - 8) (by omega)]
      rw [List.replicate_append_replicate]
      congr 1
      omega
    · simp [Chunk.bytes]

/-- the texts of the tab-terminated cells of row `i` -/
def rowTexts (w : Nat → Nat → Int) (i : Nat) : List (List Char) :=
  (List.range' 0 i).map (fun j => decInt (w i j)) ++ [['0']]

theorem rowCells_eq (w : Nat → Nat → Int) (i : Nat) :
    rowCells w i = (rowTexts w i).map (fun t => ⟨t, true⟩) ++ [⟨[], false⟩] := by
  simp [rowCells, rowTexts]

/-- a cell as it appears in the output: padding then text (`AlignRight`) or text then padding -/
def cellBytes (p : Nat × List Char) : List Char :=
  if alignRight then List.replicate (p.1 - p.2.length) padChar ++ p.2
  else p.2 ++ List.replicate (p.1 - p.2.length) padChar

theorem writeCells_bytes (ts : List (List Char)) (hne : ∀ t ∈ ts, t ≠ []) :
    ∀ ws : List Nat, ws.length = ts.length →
      (writeCells ws (ts.map (fun t => ⟨t, true⟩) ++ [⟨[], false⟩])).flatMap Chunk.bytes =
        (List.zip ws ts).flatMap cellBytes := by
  induction ts with
  | nil =>
    intro ws h
    have : ws = [] := List.length_eq_zero_iff.mp h
    subst this
    simp [writeCells, writeCell]
  | cons t ts ih =>
    intro ws h
    cases ws with
    | nil => simp at h
    | cons wd ws =>
      have ht : t.length ≠ 0 := by
        have := hne t (by simp)
        intro h0; exact this (List.length_eq_zero_iff.mp h0)
      simp only [List.map_cons, List.cons_append, writeCells, writeCell, ht, if_false, List.flatMap_append,
        List.zip_cons_cons, List.flatMap_cons, cellBytes]
      rw [ih (fun x hx => hne x (by simp [hx])) ws (by simpa using h)]
      by_cases har : alignRight = true
      · simp [har, padChunks_bytes, Chunk.bytes]
      · simp [har, padChunks_bytes, Chunk.bytes]

theorem rowTexts_ne_nil (w : Nat → Nat → Int) (i : Nat) : ∀ t ∈ rowTexts w i, t ≠ [] := by
  intro t ht
  simp [rowTexts] at ht
  rcases ht with ⟨j, _, rfl⟩ | rfl
  · exact decInt_ne_nil _
  · simp

theorem rowTexts_length (w : Nat → Nat → Int) (i : Nat) : (rowTexts w i).length = i + 1 := by
  simp [rowTexts]

/-- the bytes of row `i` without the line break -/
def rowBytes (n : Nat) (w : Nat → Nat → Int) (i : Nat) : List Char :=
  (List.zip (widthsUpTo n w i) (rowTexts w i)).flatMap cellBytes

theorem writeLine_bytes (n : Nat) (w : Nat → Nat → Int) (i : Nat) :
    (writeLine (widthsUpTo n w i) (rowL w i)).flatMap Chunk.bytes = rowBytes n w i ++ ['\n'] := by
  simp only [writeLine, rowL, rowCells_eq, List.flatMap_append, Bool.false_eq_true, if_false]
  rw [writeCells_bytes _ (rowTexts_ne_nil w i) _ (by simp [widthsUpTo, rowTexts_length])]
  simp [rowBytes, Chunk.bytes]

theorem body_bytes (n : Nat) (w : Nat → Nat → Int) :
    (body n w).flatMap Chunk.bytes = (List.range' 0 n).flatMap (fun i => rowBytes n w i ++ ['\n']) := by
  rw [body_eq]
  simp only [List.flatMap_append, List.flatMap_assoc, writeLine_bytes]
  simp [Chunk.bytes]

/-! ### the padding is at least one blank (and the subtraction in `writePadding` is never truncated) -/

theorem foldl_max_ge (c : Nat) (blk : List Line) :
    ∀ acc : Nat, acc ≤ blk.foldl (fun a l => max a (cellW c l)) acc ∧
      ∀ l ∈ blk, cellW c l ≤ blk.foldl (fun a l => max a (cellW c l)) acc := by
  induction blk with
  | nil => intro acc; simp
  | cons x xs ih =>
    intro acc
    have h := ih (max acc (cellW c x))
    constructor
    · simp only [List.foldl_cons]; have := h.1; omega
    · intro l hl
      simp only [List.foldl_cons]
      rcases List.mem_cons.mp hl with rfl | hl
      · have := h.1; omega
      · exact h.2 l hl

theorem blockWidth_ge (c : Nat) (blk : List Line) (l : Line) (h : l ∈ blk) : cellW c l ≤ blockWidth c blk :=
  (foldl_max_ge c blk minwidth).2 l h

theorem cellW_rowL (w : Nat → Nat → Int) (i j : Nat) (hj : j < (rowTexts w i).length) :
    cellW j (rowL w i) = ((rowTexts w i)[j]).length + padding := by
  have : (rowCells w i)[j]? = some ⟨(rowTexts w i)[j], true⟩ := by
    rw [rowCells_eq, List.getElem?_append_left (by simpa using hj)]
    simp [hj]
  simp [cellW, rowL, this]

theorem pad_ok (n : Nat) (w : Nat → Nat → Int) (i : Nat) (hi : i < n) :
    ∀ p ∈ List.zip (widthsUpTo n w i) (rowTexts w i), p.2.length + 1 ≤ p.1 := by
  intro p hp
  obtain ⟨j, hj, rfl⟩ := List.mem_iff_getElem.mp hp
  have hj' : j < i + 1 := by
    simp [widthsUpTo, rowTexts_length] at hj; exact hj
  have hjt : j < (rowTexts w i).length := by rw [rowTexts_length]; exact hj'
  simp only [List.getElem_zip]
  have hw : (widthsUpTo n w i)[j]'(by simp [widthsUpTo]; exact hj') = colW n w j := by
    simp [widthsUpTo]
  have hge : ((rowTexts w i)[j]).length + padding ≤ colW n w j := by
    rw [← cellW_rowL w i j hjt]
    apply blockWidth_ge
    simp only [rowsFrom, List.mem_map]
    refine ⟨i, ?_, rfl⟩
    rw [List.mem_range'_1]
    omega
  have := padding_pos
  rw [hw]
  omega

/-! ### reading the bytes back -/

theorem splitAux_append_sep (sep : Char) (a rest : List Char) (h : sep ∉ a) :
    ∀ acc, splitAux sep (a ++ sep :: rest) acc = (acc.reverse ++ a) :: splitAux sep rest [] := by
  induction a with
  | nil => intro acc; simp [splitAux]
  | cons c cs ih =>
    intro acc
    have hc : c ≠ sep := fun e => h (by simp [e])
    simp only [List.cons_append, splitAux, hc, if_false]
    rw [ih (fun hm => h (by simp [hm]))]
    simp

theorem splitAux_no_sep (sep : Char) (a : List Char) (h : sep ∉ a) :
    ∀ acc, splitAux sep a acc = [acc.reverse ++ a] := by
  induction a with
  | nil => intro acc; simp [splitAux]
  | cons c cs ih =>
    intro acc
    have hc : c ≠ sep := fun e => h (by simp [e])
    simp only [splitAux, hc, if_false]
    rw [ih (fun hm => h (by simp [hm]))]
    simp

theorem lines_flatMap (ls : List (List Char)) (h : ∀ l ∈ ls, '\n' ∉ l) :
    lines (ls.flatMap (fun l => l ++ ['\n'])) = ls ++ [[]] := by
  induction ls with
  | nil => simp [lines, splitOn, splitAux]
  | cons l ls ih =>
    have := splitAux_append_sep '\n' l (ls.flatMap (fun l => l ++ ['\n'])) (h l (by simp)) []
    simp only [lines, splitOn] at ih ⊢
    simp only [List.flatMap_cons, List.append_assoc, List.singleton_append, this]
    rw [ih (fun x hx => h x (by simp [hx]))]
    simp

theorem fields_space (l : List Char) : fields (' ' :: l) = fields l := by
  simp [fields, splitOn, splitAux]

theorem fields_spaces (k : Nat) (l : List Char) : fields (List.replicate k ' ' ++ l) = fields l := by
  induction k with
  | zero => simp
  | succ k ih => simp [List.replicate_succ, fields_space, ih]

theorem fields_tok_space (t l : List Char) (hne : t ≠ []) (h : ' ' ∉ t) :
    fields (t ++ ' ' :: l) = t :: fields l := by
  simp only [fields, splitOn, splitAux_append_sep ' ' t l h []]
  cases t with
  | nil => exact absurd rfl hne
  | cons a as => simp

theorem fields_tok (t : List Char) (hne : t ≠ []) (h : ' ' ∉ t) : fields t = [t] := by
  simp only [fields, splitOn, splitAux_no_sep ' ' t h []]
  cases t with
  | nil => exact absurd rfl hne
  | cons a as => simp

/-- right-aligned cells: `k ≥ 1` blanks, then the text -/
def cellBytesR (p : Nat × List Char) : List Char := List.replicate (p.1 - p.2.length) ' ' ++ p.2
/-- left-aligned cells: the text, then `k ≥ 1` blanks -/
def cellBytesL (p : Nat × List Char) : List Char := p.2 ++ List.replicate (p.1 - p.2.length) ' '

theorem fields_cellsR (ps : List (Nat × List Char))
    (h : ∀ p ∈ ps, p.2.length + 1 ≤ p.1 ∧ p.2 ≠ [] ∧ ' ' ∉ p.2) :
    fields (ps.flatMap cellBytesR) = ps.map Prod.snd ∧
      (ps.flatMap cellBytesR = [] ∨ ∃ Y, ps.flatMap cellBytesR = ' ' :: Y) := by
  induction ps with
  | nil => simp [fields, splitOn, splitAux]
  | cons p ps ih =>
    obtain ⟨ih1, ih2⟩ := ih (fun q hq => h q (by simp [hq]))
    obtain ⟨hp1, hp2, hp3⟩ := h p (by simp)
    have hk : p.1 - p.2.length = (p.1 - p.2.length - 1) + 1 := by omega
    constructor
    · simp only [List.flatMap_cons, cellBytesR, List.append_assoc, fields_spaces, List.map_cons]
      rcases ih2 with h0 | ⟨Y, hY⟩
      · rw [h0, List.append_nil, fields_tok _ hp2 hp3]
        rw [h0] at ih1
        rw [← ih1]
        simp [fields, splitOn, splitAux]
      · rw [hY, fields_tok_space _ _ hp2 hp3]
        rw [hY, fields_space] at ih1
        rw [ih1]
    · right
      refine ⟨List.replicate (p.1 - p.2.length - 1) ' ' ++ p.2 ++ ps.flatMap cellBytesR, ?_⟩
      simp only [List.flatMap_cons, cellBytesR]
      rw [hk, List.replicate_succ]
      simp

theorem fields_cellsL (ps : List (Nat × List Char))
    (h : ∀ p ∈ ps, p.2.length + 1 ≤ p.1 ∧ p.2 ≠ [] ∧ ' ' ∉ p.2) :
    fields (ps.flatMap cellBytesL) = ps.map Prod.snd := by
  induction ps with
  | nil => simp [fields, splitOn, splitAux]
  | cons p ps ih =>
    obtain ⟨hp1, hp2, hp3⟩ := h p (by simp)
    have hk : p.1 - p.2.length = (p.1 - p.2.length - 1) + 1 := by omega
    simp only [List.flatMap_cons, cellBytesL, List.map_cons, List.append_assoc]
    rw [hk, List.replicate_succ, List.cons_append, fields_tok_space _ _ hp2 hp3, fields_spaces,
      ih (fun q hq => h q (by simp [hq]))]

theorem cellBytes_eq : cellBytes = if alignRight then cellBytesR else cellBytesL := by
  funext p
  simp only [cellBytes, padChar_eq]
  split <;> rfl

theorem fields_cells (ps : List (Nat × List Char))
    (h : ∀ p ∈ ps, p.2.length + 1 ≤ p.1 ∧ p.2 ≠ [] ∧ ' ' ∉ p.2) :
    fields (ps.flatMap cellBytes) = ps.map Prod.snd := by
  rw [cellBytes_eq]
  split
  · exact (fields_cellsR ps h).1
  · exact fields_cellsL ps h

theorem rowTexts_plain (w : Nat → Nat → Int) (i : Nat) : ∀ t ∈ rowTexts w i, ∀ c ∈ t, Plain c := by
  intro t ht c hc
  simp [rowTexts] at ht
  rcases ht with ⟨j, _, rfl⟩ | rfl
  · exact decInt_plain _ c hc
  · simp at hc; subst hc; unfold Plain; decide

theorem zip_snd_mem {α β : Type} {l₁ : List α} {l₂ : List β} {p : α × β} (h : p ∈ List.zip l₁ l₂) : p.2 ∈ l₂ :=
  (List.of_mem_zip (a := p.1) (b := p.2) h).2

theorem fields_rowBytes (n : Nat) (w : Nat → Nat → Int) (i : Nat) (hi : i < n) :
    fields (rowBytes n w i) = rowTexts w i := by
  have h := fields_cells (List.zip (widthsUpTo n w i) (rowTexts w i)) (by
    intro p hp
    refine ⟨pad_ok n w i hi p hp, rowTexts_ne_nil w i _ (zip_snd_mem hp), ?_⟩
    intro hsp
    exact (rowTexts_plain w i _ (zip_snd_mem hp) ' ' hsp).2.2 rfl)
  rw [rowBytes, h, List.map_snd_zip]
  simp [widthsUpTo, rowTexts_length]

theorem rowBytes_no_nl (n : Nat) (w : Nat → Nat → Int) (i : Nat) : '\n' ∉ rowBytes n w i := by
  intro h
  simp only [rowBytes, List.mem_flatMap, cellBytes] at h
  obtain ⟨p, hp, hc⟩ := h
  have hpad : '\n' ∉ List.replicate (p.1 - p.2.length) padChar := by
    rw [padChar_eq]; intro hm; exact absurd (List.mem_replicate.mp hm).2 (by decide)
  have htxt : '\n' ∉ p.2 := fun hm => (rowTexts_plain w i _ (zip_snd_mem hp) '\n' hm).2.1 rfl
  split at hc <;> rcases List.mem_append.mp hc with hc | hc <;> first | exact hpad hc | exact htxt hc

def ln1 : List Char := "TYPE: TSP".toList
def lnDim : List Char := "DIMENSION: ".toList
def ln3 : List Char := "DISPLAY_DATA_TYPE: NO_DISPLAY".toList
def ln4 : List Char := "EDGE_WEIGHT_TYPE: EXPLICIT".toList
def ln5 : List Char := "EDGE_WEIGHT_FORMAT: LOWER_DIAG_ROW".toList
def ln6 : List Char := "EDGE_WEIGHT_SECTION".toList
def lnEOF : List Char := "EOF".toList

/-- the writes before the weight section concatenate to the generated header text -/
theorem hdrWrites_flatten (n : Nat) : (hdrWrites n).flatten = headerText n := by
  simp [hdrWrites, hdrSegs, Gen.Tsp.found_header, Gen.Tsp.hdrWrites, segBytes, headerText, hdrBeforeN, hdrAfterN,
    Gen.Tsp.hdrBeforeN, Gen.Tsp.hdrAfterN]

theorem trailerWrites_flatten : trailerWrites.flatten = trailerText := rfl

/-- **the header keywords** (hard-wired: the property dictates them) -/
theorem hdrBeforeN_eq : hdrBeforeN.toList = ln1 ++ '\n' :: lnDim := by rfl

theorem hdrAfterN_eq : hdrAfterN.toList =
    '\n' :: (ln3 ++ '\n' :: (ln4 ++ '\n' :: (ln5 ++ '\n' :: (ln6 ++ ['\n'])))) := by rfl

theorem headerText_eq (n : Nat) :
    headerText n = ln1 ++ '\n' :: (lnDim ++ (decNat n ++ '\n' :: (ln3 ++ '\n' :: (ln4 ++ '\n' :: (ln5 ++ '\n' ::
      (ln6 ++ ['\n'])))))) := by
  rw [headerText, hdrBeforeN_eq, hdrAfterN_eq]
  simp only [List.append_assoc, List.cons_append]

theorem trailerText_eq : trailerText = lnEOF ++ ['\n'] := by rfl

/-- the lines of the fault-free output, without their line breaks -/
def outLines (n : Nat) (w : Nat → Nat → Int) : List (List Char) :=
  [ln1, lnDim ++ decNat n, ln3, ln4, ln5, ln6] ++ (List.range' 0 n).map (rowBytes n w) ++ [lnEOF]

theorem out_eq_lines (n : Nat) (w : Nat → Nat → Int) :
    (lib n w noFaults).out = (outLines n w).flatMap (fun l => l ++ ['\n']) := by
  rw [lib_noFaults, body_bytes, outLines, hdrWrites_flatten, headerText_eq, trailerWrites_flatten, trailerText_eq]
  simp only [List.flatMap_append, List.flatMap_cons, List.flatMap_nil, List.flatMap_map, List.append_assoc,
    List.append_nil, List.cons_append, List.nil_append]

theorem decNat_no_nl (n : Nat) : '\n' ∉ decNat n := fun h => (decNat_plain n _ h).2.1 rfl
theorem decNat_no_space (n : Nat) : ' ' ∉ decNat n := fun h => (decNat_plain n _ h).2.2 rfl

theorem outLines_no_nl (n : Nat) (w : Nat → Nat → Int) : ∀ l ∈ outLines n w, '\n' ∉ l := by
  intro l hl
  simp only [outLines, List.mem_append, List.mem_cons, List.mem_map, List.not_mem_nil, or_false] at hl
  rcases hl with (((rfl | rfl | rfl | rfl | rfl | rfl) | ⟨i, _, rfl⟩) | rfl)
  · decide
  · intro h
    rcases List.mem_append.mp h with h | h
    · revert h; decide
    · exact decNat_no_nl n h
  · decide
  · decide
  · decide
  · decide
  · exact rowBytes_no_nl n w i
  · decide

theorem expectedRow_eq (w : Nat → Nat → Int) (i : Nat) : expectedRow w i = rowTexts w i := by
  simp [expectedRow, rowTexts, List.range_eq_range']

def tk1a : List Char := "TYPE:".toList
def tk1b : List Char := "TSP".toList
def tokDim : List Char := "DIMENSION:".toList
def tk3a : List Char := "DISPLAY_DATA_TYPE:".toList
def tk3b : List Char := "NO_DISPLAY".toList
def tk4a : List Char := "EDGE_WEIGHT_TYPE:".toList
def tk4b : List Char := "EXPLICIT".toList
def tk5a : List Char := "EDGE_WEIGHT_FORMAT:".toList
def tk5b : List Char := "LOWER_DIAG_ROW".toList
def tk6 : List Char := "EDGE_WEIGHT_SECTION".toList
def tkEOF : List Char := "EOF".toList

/-- the header lines, without their line breaks -/
def hdrLines (n : Nat) : List (List Char) := [ln1, lnDim ++ decNat n, ln3, ln4, ln5, ln6]

theorem headerText_lines (n : Nat) : headerText n = (hdrLines n).flatMap (fun l => l ++ ['\n']) := by
  rw [headerText_eq]
  simp only [hdrLines, List.flatMap_cons, List.flatMap_nil, List.append_assoc, List.append_nil,
    List.cons_append, List.nil_append]

theorem fields_ln1 : fields ln1 = [tk1a, tk1b] := by rfl
theorem fields_ln3 : fields ln3 = [tk3a, tk3b] := by rfl
theorem fields_ln4 : fields ln4 = [tk4a, tk4b] := by rfl
theorem fields_ln5 : fields ln5 = [tk5a, tk5b] := by rfl
theorem fields_ln6 : fields ln6 = [tk6] := by rfl
theorem fields_lnEOF : fields lnEOF = [tkEOF] := by rfl
theorem fields_nil : fields [] = [] := by rfl

theorem lnDim_eq : lnDim = tokDim ++ [' '] := by rfl
theorem tokDim_ne : tokDim ≠ [] := by decide
theorem tokDim_no_space : ' ' ∉ tokDim := by decide

theorem fields_dim (n : Nat) : fields (lnDim ++ decNat n) = [tokDim, decNat n] := by
  have : lnDim ++ decNat n = tokDim ++ ' ' :: decNat n := by rw [lnDim_eq]; simp
  rw [this, fields_tok_space _ _ tokDim_ne tokDim_no_space, fields_tok _ (decNat_ne_nil n) (decNat_no_space n)]

theorem hdrLines_no_nl (n : Nat) : ∀ l ∈ hdrLines n, '\n' ∉ l := by
  intro l hl
  simp only [hdrLines, List.mem_cons, List.not_mem_nil, or_false] at hl
  rcases hl with rfl | rfl | rfl | rfl | rfl | rfl
  · decide
  · intro h
    rcases List.mem_append.mp h with h | h
    · revert h; decide
    · exact decNat_no_nl n h
  · decide
  · decide
  · decide
  · decide

/-- **the header and trailer keywords as they read back** (for the current string literals) -/
theorem expectedHeader_eq (n : Nat) :
    expectedHeader n = [[tk1a, tk1b], [tokDim, decNat n], [tk3a, tk3b], [tk4a, tk4b], [tk5a, tk5b], [tk6]] := by
  rw [expectedHeader, headerText_lines, lines_flatMap _ (hdrLines_no_nl n), List.dropLast_concat]
  simp only [hdrLines, List.map_cons, List.map_nil, fields_dim, fields_ln1, fields_ln3, fields_ln4, fields_ln5,
    fields_ln6]

theorem expectedTrailer_eq : (lines trailerText).map fields = [[tkEOF], []] := by
  have h : trailerText = [lnEOF].flatMap (fun l => l ++ ['\n']) := by rw [trailerText_eq]; simp
  rw [h, lines_flatMap _ (by intro l hl; simp at hl; subst hl; decide)]
  simp only [List.cons_append, List.nil_append, List.map_cons, List.map_nil, fields_lnEOF, fields_nil]

theorem expected_eq (n : Nat) (w : Nat → Nat → Int) :
    expected n w = [[tk1a, tk1b], [tokDim, decNat n], [tk3a, tk3b], [tk4a, tk4b], [tk5a, tk5b], [tk6]] ++
      (List.range n).map (expectedRow w) ++ [[tkEOF], []] := by
  rw [expected, expectedHeader_eq, expectedTrailer_eq]

theorem parse_out (n : Nat) (w : Nat → Nat → Int) : parse (lib n w noFaults).out = expected n w := by
  rw [parse, out_eq_lines, lines_flatMap _ (outLines_no_nl n w), expected_eq]
  have hrows : ((List.range' 0 n).map (rowBytes n w)).map fields = (List.range n).map (expectedRow w) := by
    rw [List.map_map, List.range_eq_range']
    apply List.map_congr_left
    intro i hi
    rw [List.mem_range'_1] at hi
    simp only [Function.comp, expectedRow_eq]
    exact fields_rowBytes n w i (by omega)
  simp only [outLines, List.map_append, List.map_cons, List.map_nil, fields_dim, hrows, fields_ln1, fields_ln3,
    fields_ln4, fields_ln5, fields_ln6, fields_lnEOF, fields_nil]
  simp only [List.append_assoc, List.cons_append, List.nil_append]

/-! ### success means the complete output -/

theorem lib_success_eq (n : Nat) (w : Nat → Nat → Int) (f : Nat → WriteResult)
    (hs : ∀ k c, f k ≠ .shortNil c) (h : (lib n w f).err = none) : lib n w f = lib n w noFaults := by
  rw [lib_noFaults]
  rw [lib_unfold] at h ⊢
  rcases h3 : writeAll f ⟨0, []⟩ (hdrWrites n) with ⟨s3, _ | e3⟩
  rotate_left
  · rw [h3] at h; simp [Res.of] at h
  rw [h3] at h
  dsimp only at h ⊢
  have e3 := writeAll_none_ok hs _ _ _ h3
  subst e3
  rcases h4 : writeAll0 f _ (body n w) with ⟨s4, _ | e4⟩
  rotate_left
  · rw [h4] at h; simp [Res.of] at h
  rw [h4] at h
  dsimp only at h ⊢
  have e4 := writeAll0_none_ok hs _ _ _ h4
  subst e4
  rcases h5 : writeAll f _ trailerWrites with ⟨s5, _ | e5⟩
  rotate_left
  · rw [h5] at h; simp [Res.of] at h
  dsimp only
  have e5 := writeAll_none_ok hs _ _ _ h5
  subst e5
  simp [Res.of]

theorem write_ok {f : Nat → WriteResult} (s : W) (p : List Char) (h : f s.calls = .ok) :
    write f s p = (⟨s.calls + 1, s.out ++ p⟩, p.length, none) := by
  simp [write, h]

theorem writeAll_ok {f : Nat → WriteResult} (ps : List (List Char)) :
    ∀ s : W, (∀ k, s.calls ≤ k → k < s.calls + ps.length → f k = .ok) →
      writeAll f s ps = (⟨s.calls + ps.length, s.out ++ ps.flatten⟩, none) := by
  induction ps with
  | nil => intro s _; simp [writeAll]
  | cons p ps ih =>
    intro s h
    have h0 := h s.calls (Nat.le_refl _) (by simp)
    simp only [writeAll, write_ok s p h0]
    rw [ih _ (fun k h1 h2 => h k (by simp at h1; omega) (by simp at h1 h2 ⊢; omega))]
    simp
    omega

theorem writeAll0_ok {f : Nat → WriteResult} (cs : List Chunk) :
    ∀ s : W, (∀ k, s.calls ≤ k → k < s.calls + cs.length → f k = .ok) →
      writeAll0 f s cs = (⟨s.calls + cs.length, s.out ++ cs.flatMap Chunk.bytes⟩, none) := by
  induction cs with
  | nil => intro s _; simp [writeAll0]
  | cons c cs ih =>
    intro s h
    have h0 := h s.calls (Nat.le_refl _) (by simp)
    simp only [writeAll0, write0, write_ok s c.bytes h0, ne_eq, not_true_eq_false, if_false]
    rw [ih _ (fun k h1 h2 => h k (by simp at h1; omega) (by simp at h1 h2 ⊢; omega))]
    simp
    omega

theorem lib_ok_eq (n : Nat) (w : Nat → Nat → Int) (f : Nat → WriteResult)
    (h : ∀ k, k < (lib n w noFaults).calls → f k = .ok) : lib n w f = lib n w noFaults := by
  rw [lib_noFaults] at h ⊢
  dsimp only at h
  rw [lib_unfold]
  rw [writeAll_ok (f := f) (hdrWrites n) ⟨0, []⟩ (fun k _ h2 => h k (by simp at h2; omega))]
  dsimp only
  rw [writeAll0_ok (f := f) (body n w) _ (fun k _ h2 => h k (by simp at h2; omega))]
  dsimp only
  rw [writeAll_ok (f := f) trailerWrites _ (fun k _ h2 => h k (by simp at h2; omega))]
  simp [Res.of]

/-! ### `decNat` is the decimal numeral -/

theorem digitsValue_append (l : List Char) (c : Char) :
    digitsValue (l ++ [c]) = 10 * digitsValue l + (c.toNat - '0'.toNat) := by
  simp [digitsValue, List.foldl_append]

theorem digitChar_value : ∀ d, d < 10 → (digitChar d).toNat - '0'.toNat = d := by decide

theorem decNat_value (n : Nat) : digitsValue (decNat n) = n := by
  induction n using Nat.strongRecOn with
  | _ n ih =>
    rw [decNat]
    split
    · rename_i h
      have := digitChar_value n h
      simp only [digitsValue, List.foldl_cons, List.foldl_nil]
      omega
    · rw [digitsValue_append, ih (n / 10) (by omega), digitChar_value _ (Nat.mod_lt _ (by omega))]
      omega

theorem decNat_head (n : Nat) (h : 0 < n) : (decNat n).head? ≠ some '0' := by
  induction n using Nat.strongRecOn with
  | _ n ih =>
    rw [decNat]
    split
    · rename_i h10
      have : ∀ d, d < 10 → 0 < d → digitChar d ≠ '0' := by decide
      simpa using this n h10 h
    · have hne := decNat_ne_nil (n / 10)
      have := ih (n / 10) (by omega) (by omega)
      cases hd : decNat (n / 10) with
      | nil => exact absurd hd hne
      | cons a as => simpa [hd] using this

end Tsp
