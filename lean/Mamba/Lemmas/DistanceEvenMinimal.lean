import Mamba.Lemmas.DistanceEvenCycle
/-!
# A minimal non-empty even edge set is a single simple cycle
-/
namespace GDist
open GraphSpec Model

theorem chainAdj_of_codes {n : Nat} {t : List Nat} : ∀ (c : List Nat), c.Nodup → (∀ x ∈ c, x < n) →
    (∀ z ∈ pathCodes c, z ∈ t) → chainAdj (codeG n t) c
  | [], _, _, _ => trivial
  | [_], _, _, _ => trivial
  | x :: y :: r, hnd, hn, hc => by
    obtain ⟨hxnot, hnd'⟩ := List.nodup_cons.1 hnd
    refine ⟨codeG_adj.2 ⟨fun h => hxnot (by simp [h]), hn y (by simp), hn x (by simp), ?_⟩,
      chainAdj_of_codes (y :: r) hnd' (fun z hz => hn z (List.mem_cons_of_mem _ hz))
        (fun z hz => hc z (by rw [pathCodes]; exact List.mem_cons_of_mem _ hz))⟩
    rw [edgeCode_comm]
    exact hc _ (by rw [pathCodes]; exact List.mem_cons_self)

/-- a vertex sequence whose cycle codes lie in `t` is a cycle of the graph of `t` -/
theorem isCycleSeq_of_codes {n : Nat} {t : List Nat} {c : List Nat} (hlen : 3 ≤ c.length) (hnd : c.Nodup)
    (hn : ∀ x ∈ c, x < n) (hc : ∀ z ∈ cycCodes c, z ∈ t) : IsCycleSeq (codeG n t) c := by
  refine ⟨hlen, hnd, hn, chainAdj_of_codes c hnd hn (fun z hz => hc z (List.mem_cons_of_mem _ hz)), ?_⟩
  match c, hlen, hnd, hn, hc with
  | x :: y :: r, hlen, hnd, hn, hc =>
    have hr : r ≠ [] := by intro h; subst h; simp at hlen
    have hlm : (x :: y :: r).getLastD 0 ∈ y :: r := by
      rw [List.getLastD_eq_getLast?, List.getLast?_cons_cons,
        List.getLast?_eq_some_getLast (by simp)]
      exact List.getLast_mem _
    have hxl : x ≠ (x :: y :: r).getLastD 0 := fun h => (List.nodup_cons.1 hnd).1 (h ▸ hlm)
    rw [List.headD_cons]
    exact codeG_adj.2 ⟨hxl, hn x List.mem_cons_self, hn _ (List.mem_cons_of_mem _ hlm),
      hc _ (by unfold cycCodes; rw [List.headD_cons]; exact List.mem_cons_self)⟩

/-- **a minimal non-empty edge set with even degrees is a single simple cycle** -/
theorem minimal_even_is_cycle {n : Nat} {t : List Nat} (hnd : t.Nodup) (hne : t ≠ [])
    (hcodes : ∀ z ∈ t, ∃ p q, p < n ∧ q < n ∧ p ≠ q ∧ z = edgeCode p q) (hev : EvenSet n t)
    (hmin : ∀ u : List Nat, u.Nodup → u ≠ [] → (∀ z ∈ u, z ∈ t) → EvenSet n u → ∀ z ∈ t, z ∈ u) :
    ∃ c, IsCycleSeq (codeG n t) c ∧ t.Perm (cycCodes c) := by
  obtain ⟨z0, r, rfl⟩ := List.exists_cons_of_ne_nil hne
  obtain ⟨p, q, hp, hq, hpq, hz0⟩ := hcodes z0 List.mem_cons_self
  obtain ⟨c, hlen, hcnd, hcn, _, _, hsub, _⟩ := even_edge_on_cycle hnd hev hp hq hpq (hz0 ▸ List.mem_cons_self)
  have hcyc := isCycleSeq_of_codes hlen hcnd hcn hsub
  have hund := cycCodes_nodup hcyc
  refine ⟨c, hcyc, (List.perm_ext_iff_of_nodup hnd hund).2 fun z => ⟨?_, hsub z⟩⟩
  exact hmin (cycCodes c) hund (by simp [cycCodes]) hsub (cycle_even hcyc) z

end GDist
