import Mamba.Lemmas.CanonFTotalInv
/-!
# Totality: the small steps (`h2Best`, `deage` in the stepping loops, the Heuristic-2 tests, `innerNode`)
-/
namespace CanonF

/-! ### operation level -/

/-- every divider is `≤ n` -/
theorem ts_div_le {n : Nat} {op : OP} (hp : PartInv n op) {d : Nat} (hd : d ∈ op.binDividers.toList) : d ≤ n := by
  have hs := (List.pairwise_cons.1 hp.sorted).2
  have hl := hp.last
  rw [List.getLast?_eq_getElem?] at hl
  obtain ⟨hlt, e⟩ := List.getElem?_eq_some_iff.1 hl
  obtain ⟨j, hj, ej⟩ := List.getElem_of_mem hd
  by_cases hjl : j = op.binDividers.toList.length - 1
  · subst hjl; rw [ej] at e; omega
  · have := List.pairwise_iff_getElem.1 hs j (op.binDividers.toList.length - 1) hj hlt (by omega)
    rw [ej, e] at this; omega

/-- every divider is positive -/
theorem ts_div_pos {n : Nat} {op : OP} (hp : PartInv n op) {d : Nat} (hd : d ∈ op.binDividers.toList) : 0 < d :=
  (List.pairwise_cons.1 hp.sorted).1 d hd

theorem ts_n_pos {n : Nat} {op : OP} (hp : PartInv n op) : 0 < n := by
  have hpos := hp.bdLen_pos
  have hlen := Sl.length_toList _ hp.wfBd
  have h0 : 0 < op.binDividers.toList.length := by omega
  have hm : op.binDividers.toList[0] ∈ op.binDividers.toList := List.getElem_mem h0
  have := ts_div_le hp hm
  have := ts_div_pos hp hm
  omega

theorem ts_pickCell_total (bd : Sl Nat) (hw : bd.WF) : ∀ (k i prev : Nat), i + k ≤ bd.len →
    ∃ r, pickCell bd k i prev = .ok r := by
  intro k
  induction k with
  | zero => intro i prev _; exact ⟨none, rfl⟩
  | succ k ih =>
    intro i prev hik
    obtain ⟨d, hg, _⟩ := Sl.get_ok_of_lt hw (i := i) (by omega)
    rw [pickCell, hg]
    simp only
    by_cases hc : d - prev > 1
    · rw [if_pos hc]; exact ⟨_, rfl⟩
    · rw [if_neg hc]; exact ih (i + 1) d (by omega)

theorem ts_binEndLoop_total (bd : Sl Nat) (hw : bd.WF) (cp dflt : Nat) : ∀ (k i : Nat), i + k ≤ bd.len →
    ∃ be, binEndLoop bd cp dflt k i = .ok be ∧ (be = dflt ∨ be ∈ bd.toList) := by
  intro k
  induction k with
  | zero => intro i _; exact ⟨dflt, rfl, Or.inl rfl⟩
  | succ k ih =>
    intro i hik
    obtain ⟨d, hg, _⟩ := Sl.get_ok_of_lt hw (i := i) (by omega)
    rw [binEndLoop, hg]
    simp only
    by_cases hc : cp < d
    · rw [if_pos hc]
      exact ⟨d, rfl, Or.inr (List.mem_of_getElem? (Sl.get_eq_toList.1 hg))⟩
    · rw [if_neg hc]; exact ih (i + 1) (by omega)

theorem ts_orbitScan_total {n : Nat} (order : Sl Nat) (hw : order.WF) (hlen : order.len = n)
    (hperm : order.toList.Perm (List.range n)) (r0 : Nat) : ∀ (c k : Nat) (ds : Disjoint.DS),
    Disjoint.Inv ds → ds.size = n → k + c ≤ n → ∃ r, orbitScan order r0 c k ds = .ok r := by
  intro c
  induction c with
  | zero => intro k ds _ _ _; exact ⟨_, rfl⟩
  | succ c ih =>
    intro k ds hds hsz hkc
    obtain ⟨v, hg, _⟩ := Sl.get_ok_of_lt hw (i := k) (by omega)
    have hv : v < n := perm_range_lt hperm (Sl.get_eq_toList.1 hg)
    obtain ⟨d1, e1, i1, s1, _⟩ := Disjoint.find_spec hds v (by omega)
    rw [orbitScan, hg]
    simp only
    rw [e1]
    simp only
    by_cases hr : Disjoint.rep ds v = r0
    · rw [if_pos hr]; exact ⟨_, rfl⟩
    · rw [if_neg hr]; exact ih (k + 1) d1 i1 (by omega) (by omega)

/-- Heuristic 2 on the best path -/
theorem h2Best_totalG {n : Nat} {op : OP} {ds : Disjoint.DS} {cp ce : Nat} (hp : PartInv n op) (hds : Disjoint.Inv ds)
    (hsz : ds.size = n) (hcp : cp < n) (hce : ce < n) : ∃ r, h2Best op ds cp ce = .ok r := by
  obtain ⟨be, hb, hbe⟩ := ts_binEndLoop_total op.binDividers hp.wfBd cp op.order.len op.binDividers.len 0 (by omega)
  have hben : be ≤ n := by
    rcases hbe with e | hm
    · rw [e, hp.lenOrder]
    · exact ts_div_le hp hm
  obtain ⟨d1, e1, i1, s1, _⟩ := Disjoint.find_spec hds ce (by omega)
  unfold h2Best
  rw [hb]
  simp only
  rw [e1]
  simp only
  exact ts_orbitScan_total op.order hp.wfOrder hp.lenOrder hp.perm _ _ _ d1 i1 (by omega) (by omega)

/-! ### state level -/

section
variable {n m : Nat} {nb : Nbrs} {rf : Nat} {r : IR.St}
  (hnb : NbOK nb n) (hA : IR.InvA (irG n nb) r) (hD : IR.InvD (irG n nb) r)

set_option linter.unusedVariables false in
theorem prog_deage (lv : List (Nat × Nat)) (s : LS) (k : Nat) (hc : Core n s) (ht : TopOK s.op k s.path s.choices lv)
    (hsk : s.skipDeage = false) (hage : s.op.age = s.path.length) (hT : TA n m nb rf r lv s) :
    ∃ op', deage s.op = .ok op' := by
  obtain ⟨p, ps, c, cs, st, sz, ls, e1, _, _⟩ := topOK_path_ne ht
  have hpos : 0 < s.op.age := by rw [hage, e1]; simp
  have hvw : s.op.value.WF := by
    rcases hT.1.1.2.1 with hv | ⟨hv, _⟩
    · exact hv.wf
    · exact hv.wf
  exact deage_no_panic hc.part hc.age hpos hvw

set_option linter.unusedVariables false in
theorem prog_flOrb (st sz : Nat) (ls : List (Nat × Nat)) (s : LS) (c : Nat) (cs : List Nat) (p : Nat) (ps : List Nat)
    (ce k : Nat) (hc : Core n s) (ht : TopOK s.op (k + 1) s.path s.choices ((st, sz) :: ls))
    (hsk : s.skipDeage = false) (hage : s.op.age + 1 = s.path.length) (hch : s.choices = c :: cs)
    (hpth : s.path = p :: ps) (hget : s.op.order.get (c - 1) = .ok ce)
    (hon : (decide (s.count > 0) && hasPrefix s.flPath.toList ps.reverse) = true)
    (hT : TN n m nb rf r ((st, sz) :: ls) s) : ∃ x, s.flOrbits[ce]? = some x := by
  have hce : ce < n := perm_range_lt hc.part.perm (Sl.get_eq_toList.1 hget)
  have hsz : s.flOrbits.size = n := hT.1.1.1.orbSz.1
  have hlt : ce < s.flOrbits.size := by omega
  exact ⟨s.flOrbits[ce], by simp [hlt]⟩

set_option linter.unusedVariables false in
theorem prog_h2 (st sz : Nat) (ls : List (Nat × Nat)) (s : LS) (c : Nat) (cs : List Nat) (p : Nat) (ps : List Nat)
    (ce k : Nat) (hc : Core n s) (ht : TopOK s.op (k + 1) s.path s.choices ((st, sz) :: ls))
    (hsk : s.skipDeage = false) (hage : s.op.age + 1 = s.path.length) (hch : s.choices = c :: cs)
    (hpth : s.path = p :: ps) (hget : s.op.order.get (c - 1) = .ok ce)
    (hon : (decide (s.count > 0) && !hasPrefix s.flPath.toList ps.reverse && hasPrefix s.bestPath.toList ps.reverse) = true)
    (hT : TN n m nb rf r ((st, sz) :: ls) s) : ∃ r', h2Best s.op s.bestOrbits (c - 1) ce = .ok r' := by
  have hce : ce < n := perm_range_lt hc.part.perm (Sl.get_eq_toList.1 hget)
  have hcp : c - 1 < n := by
    have := Sl.get_lt hget; rw [hc.part.lenOrder] at this; exact this
  simp only [Bool.and_eq_true, decide_eq_true_eq] at hon
  have hcnt : 0 < s.count := hon.1.1
  obtain ⟨gh, _, hG, _, _⟩ := hT.1.2
  obtain ⟨hds, hdsz, _⟩ := hG.bestOrb hcnt
  exact h2Best_totalG hc.part hds hdsz hcp hce

set_option linter.unusedVariables false in
include hnb hA hD in
/-- the inner-node step returns, and pushes a frame with at most `n` children at depth `< n` -/
theorem prog_inner (lv : List (Nat × Nat)) (s : LS) (hI : MInv n m nb s) (hlv : LevelsOK s.op s.path s.choices lv)
    (hnl : s.op.binDividers.len ≠ n) (hT : TM n m nb rf r lv false s) :
    ∃ s1, innerNode s = .ok s1 ∧ ∃ sz, s1.path = sz :: s.path ∧ sz ≤ n ∧ s.path.length < n := by
  have hc := hI.core
  obtain ⟨pr, hpk⟩ := ts_pickCell_total s.op.binDividers hc.part.wfBd s.op.binDividers.len 0 0 (by omega)
  have hex : ∃ s1, innerNode s = .ok s1 := by
    unfold innerNode
    rw [hpk]
    cases pr with
    | none => exact ⟨_, rfl⟩
    | some x => obtain ⟨d, bs⟩ := x; exact ⟨_, rfl⟩
  obtain ⟨s1, hs1⟩ := hex
  obtain ⟨st, sz, e, _, hbd, _, _⟩ := innerNode_spec hc hlv hI.age hnl hs1
  have hle : st + sz ≤ n := ts_div_le hc.part (List.mem_of_getElem? hbd)
  refine ⟨s1, hs1, sz, by rw [e], by omega, ?_⟩
  -- depth `< n`: the number of cells grows along the path
  have hN : ∃ gh, DNodev n nb rf r gh lv s := by
    have := hT.1.2
    simpa [DM] using this
  obtain ⟨gh, hw, _⟩ := hN
  obtain ⟨h1, _, h3, _⟩ := hw
  obtain ⟨hcells, _, hDν⟩ := IR.path_cells (irG_wf hnb) (rf := rf) gh.vs r hA hD h1
  have hn0 : 0 < n := ts_n_pos hc.part
  have hr1 : 1 ≤ r.cells := by
    have := hA 0 hn0
    omega
  have hle' : (IR.nodeAt (irG n nb) rf r gh.vs).cells ≤ n := by
    have := IR.D_le (irG n nb).n (IR.nodeAt (irG n nb) rf r gh.vs).c
    rw [hDν] at this
    exact this
  omega

end
end CanonF
