import Mamba.Lemmas.CanonFTreeDef
import Mamba.Lemmas.CanonFSort
/-!
# One refinement iteration at the level of colourings: `refineIter_col`

`splitCell_splitX` strengthens `splitCell_split` of CanonFRefine.lean (the split bin is sorted by the counts, the new
dividers sit where the count changes, the new work list); `ColInv` is the invariant of the loop over the bins.
-/
namespace CanonF

/-! ## list level: bin indices -/

theorem tr_binIdx_add (bd : List Nat) {p q : Nat} (h : p ≤ q) :
    binIdx bd q = binIdx bd p + bd.countP (fun d => decide (p < d ∧ d ≤ q)) := by
  unfold binIdx
  induction bd with
  | nil => rfl
  | cons x xs ih =>
    rw [List.countP_cons, List.countP_cons, List.countP_cons, ih]
    have e1 : (if decide (x ≤ q) = true then 1 else 0) = if x ≤ q then 1 else 0 := by
      by_cases h : x ≤ q <;> simp [h]
    have e2 : (if decide (x ≤ p) = true then 1 else 0) = if x ≤ p then 1 else 0 := by
      by_cases h : x ≤ p <;> simp [h]
    have e3 : (if decide (p < x ∧ x ≤ q) = true then 1 else 0) = if p < x ∧ x ≤ q then 1 else 0 := by
      by_cases h : p < x ∧ x ≤ q
      · rw [if_pos h, if_pos (decide_eq_true h)]
      · rw [if_neg h, if_neg (by rw [decide_eq_false h]; exact Bool.false_ne_true)]
    rw [e1, e2, e3]
    by_cases h1 : x ≤ p
    · rw [if_pos h1, if_pos (show x ≤ q by omega), if_neg (show ¬ (p < x ∧ x ≤ q) by omega)]; omega
    · by_cases h2 : x ≤ q
      · rw [if_neg h1, if_pos h2, if_pos (show p < x ∧ x ≤ q by omega)]; omega
      · rw [if_neg h1, if_neg h2, if_neg (show ¬ (p < x ∧ x ≤ q) by omega)]; omega

/-- the bin index of `p` is below that of `q` iff a divider separates them -/
theorem tr_binIdx_lt_iff (bd : List Nat) (p q : Nat) :
    binIdx bd p < binIdx bd q ↔ ∃ d ∈ bd, p < d ∧ d ≤ q := by
  by_cases h : p ≤ q
  · rw [tr_binIdx_add bd h]
    constructor
    · intro hlt
      have : 0 < bd.countP (fun d => decide (p < d ∧ d ≤ q)) := by omega
      obtain ⟨d, hd, hpd⟩ := List.countP_pos_iff.1 this
      exact ⟨d, hd, by simpa using hpd⟩
    · rintro ⟨d, hd, hpd⟩
      have : 0 < bd.countP (fun d => decide (p < d ∧ d ≤ q)) :=
        List.countP_pos_iff.2 ⟨d, hd, by simpa using hpd⟩
      omega
  · have := binIdx_mono bd (show q ≤ p by omega)
    constructor
    · intro hlt; omega
    · rintro ⟨d, _, h1, h2⟩; omega

/-- bin indices after inserting a block of dividers -/
theorem tr_binIdx_insert (bd nbs : List Nat) (j p : Nat) :
    binIdx (bd.take j ++ nbs ++ bd.drop j) p = binIdx bd p + binIdx nbs p := by
  unfold binIdx
  rw [List.countP_append, List.countP_append]
  conv => rhs; rw [← List.take_append_drop j bd, List.countP_append]
  omega

/-- position of a bin: `p` lies in front of / inside / behind bin `j` -/
theorem tr_binIdx_cmp {bd : List Nat} (hs : bd.Pairwise (· < ·)) {j bs dj : Nat}
    (hbs : (0 :: bd)[j]? = some bs) (hdj : bd[j]? = some dj) (p : Nat) :
    (binIdx bd p < j ↔ p < bs) ∧ (j < binIdx bd p ↔ dj ≤ p) := by
  have h0 := rf_binIdx_eq_iff hs hbs hdj p
  obtain ⟨hj, hdj'⟩ := List.getElem?_eq_some_iff.1 hdj
  have h1 := sorted_lt_iff_idx bd hs (p + 1) j hj
  rw [hdj', ← binIdx_eq] at h1
  have hlt : bs < dj ∨ bs ≥ dj := by omega
  constructor
  · constructor
    · intro h
      apply Nat.lt_of_not_le
      intro hge
      by_cases hp : p < dj
      · have := h0.2 ⟨hge, hp⟩; omega
      · have := h1.1 (by omega); omega
    · intro h
      cases j with
      | zero => simp at hbs; omega
      | succ k =>
        rw [List.getElem?_cons_succ] at hbs
        obtain ⟨hk, hbs'⟩ := List.getElem?_eq_some_iff.1 hbs
        have h2 := sorted_lt_iff_idx bd hs (p + 1) k hk
        rw [hbs', ← binIdx_eq] at h2
        omega
  · constructor
    · intro h; have := h1.2 h; omega
    · intro h; exact h1.1 (by omega)

theorem tr_countP_le_zero {l : List Nat} {p b : Nat} (h : ∀ x ∈ l, b < x) (hp : p ≤ b) : binIdx l p = 0 := by
  unfold binIdx
  rw [List.countP_eq_zero]
  intro x hx
  have := h x hx
  simp; omega

theorem tr_countP_le_all {l : List Nat} {p b : Nat} (h : ∀ x ∈ l, x < b) (hp : b ≤ p) : binIdx l p = l.length := by
  unfold binIdx
  rw [List.countP_eq_length]
  intro x hx
  have := h x hx
  simp; omega

theorem tr_binIdx_le_length (l : List Nat) (p : Nat) : binIdx l p ≤ l.length := by
  unfold binIdx; exact List.countP_le_length

/-! ## the stages of `splitCell` once more, with the facts about the values -/

/-- why a bin is skipped -/
def SkipReason (sc : Scratch) (j bs dj : Nat) : Prop :=
  dj = bs + 1 ∨ ∃ mc, sc.maxCell.get j = .ok mc ∧ (mc = 0 ∨ ∃ nm, sc.numberOfMax.get j = .ok nm ∧ bs ≤ dj ∧ nm = dj - bs)

theorem scHead_ok2 {nb : Nbrs} {n : Nat} {cb fl : Sl Nat} {opts : Options} {j : Nat} {op : OP} {sc : Scratch}
    {R : Bool × OP × Scratch} (h : scHead nb n cb fl opts j op sc = .ok R) :
    ∃ bs dj, (0 :: op.binDividers.toList)[j]? = some bs ∧ op.binDividers.toList[j]? = some dj ∧
      ((R = (false, op, sc) ∧ SkipReason sc j bs dj) ∨
       ∃ mc nm dws0, dj ≠ bs + 1 ∧ bs ≤ dj ∧ sc.maxCell.get j = .ok mc ∧ mc ≠ 0 ∧ sc.numberOfMax.get j = .ok nm ∧
        nm ≠ dj - bs ∧ sc.dws.reslice (dj - bs) = .ok dws0 ∧
        scFill nb n cb fl opts j op sc bs (dj - bs) mc nm dws0 = .ok R) := by
  unfold scHead at h
  dsimp only at h
  cases hbs : (if j > 0 then op.binDividers.get (j - 1) else Outcome.ok 0) with
  | ok bs =>
    cases hdj : op.binDividers.get j with
    | ok dj =>
      rw [hbs, hdj] at h
      dsimp only at h
      refine ⟨bs, dj, rf_binStart_eq hbs, Sl.get_eq_toList.1 hdj, ?_⟩
      by_cases h1 : dj = bs + 1
      · rw [if_pos h1] at h
        simp only [Outcome.ok.injEq] at h
        exact Or.inl ⟨h.symm, Or.inl h1⟩
      · rw [if_neg h1] at h
        cases hmc : sc.maxCell.get j with
        | ok mc =>
          rw [hmc] at h; dsimp only at h
          by_cases h2 : mc = 0
          · rw [if_pos h2] at h
            simp only [Outcome.ok.injEq] at h
            exact Or.inl ⟨h.symm, Or.inr ⟨mc, hmc, Or.inl h2⟩⟩
          · rw [if_neg h2] at h
            cases hnm : sc.numberOfMax.get j with
            | ok nm =>
              rw [hnm] at h; dsimp only at h
              by_cases h3 : bs ≤ dj ∧ nm = dj - bs
              · rw [decide_eq_true h3] at h
                simp only [Outcome.ok.injEq] at h
                exact Or.inl ⟨h.symm, Or.inr ⟨mc, hmc, Or.inr ⟨nm, hnm, h3.1, h3.2⟩⟩⟩
              · rw [decide_eq_false h3] at h
                dsimp only at h
                by_cases h4 : dj < bs
                · rw [if_pos h4] at h; simp at h
                · rw [if_neg h4] at h
                  cases hd : sc.dws.reslice (dj - bs) with
                  | ok dws0 =>
                    rw [hd] at h
                    exact Or.inr ⟨mc, nm, dws0, h1, by omega, rfl, h2, rfl, by omega, rfl, h⟩
                  | panic => rw [hd] at h; simp at h
                  | outOfFuel => rw [hd] at h; simp at h
            | panic => rw [hnm] at h; simp at h
            | outOfFuel => rw [hnm] at h; simp at h
        | panic => rw [hmc] at h; simp at h
        | outOfFuel => rw [hmc] at h; simp at h
    | panic => rw [hbs, hdj] at h; simp at h
    | outOfFuel => rw [hbs, hdj] at h; simp at h
  | panic => rw [hbs] at h; simp at h
  | outOfFuel => rw [hbs] at h; simp at h

/-- in a skipped bin all counts are equal -/
theorem skip_allEq {n : Nat} {op : OP} {sc : Scratch} {j bs dj : Nat} (hp : PartInv n op)
    (hcc : CellCount op sc.timesSeen sc.maxCell sc.numberOfMax j)
    (hbs : (0 :: op.binDividers.toList)[j]? = some bs) (hdj : op.binDividers.toList[j]? = some dj)
    (hr : SkipReason sc j bs dj) :
    ∀ a ∈ rfSeg op.order.toList bs dj, ∀ b ∈ rfSeg op.order.toList bs dj, rfTv sc.timesSeen a = rfTv sc.timesSeen b := by
  obtain ⟨c1, c2, _⟩ := hcc bs dj hbs hdj
  have hs : op.binDividers.toList.Pairwise (· < ·) := (List.pairwise_cons.1 hp.sorted).2
  have hdn : dj ≤ n := rf_bd_le_last hs hp.last dj (List.mem_of_getElem? hdj)
  have hlt : bs < dj := rf_sorted_start_lt hp.sorted hbs hdj
  have holen : op.order.toList.length = n := by rw [Sl.length_toList _ hp.wfOrder, hp.lenOrder]
  intro a ha b hb
  obtain ⟨pa, a1, a2, a3⟩ := mem_rfSeg.1 ha
  obtain ⟨pb, b1, b2, b3⟩ := mem_rfSeg.1 hb
  rcases hr with h1 | ⟨mc, hmc, h2 | ⟨nm, hnm, _, h3⟩⟩
  · have : pa = pb := by omega
    subst this
    rw [a3] at b3
    rw [Option.some.inj b3]
  · rw [rfDv_of_get hmc, h2] at c1
    have := c1 pa a a1 a2 a3
    have := c1 pb b b1 b2 b3
    omega
  · rw [rfDv_of_get hmc] at c1 c2
    rw [rfDv_of_get hnm] at c2
    by_cases hm0 : mc = 0
    · rw [hm0] at c1
      have := c1 pa a a1 a2 a3
      have := c1 pb b b1 b2 b3
      omega
    · have hc := c2 (by omega)
      have hl : (rfSeg op.order.toList bs dj).length = dj - bs := length_rfSeg _ _ _ (by omega) (by omega)
      have hall := List.countP_eq_length.1 (by rw [← hc, hl]; exact h3)
      have := hall a ha
      have := hall b hb
      simp only [decide_eq_true_eq] at *
      omega

/-! ## the values in `dws` after the fill -/

/-- the two-bucket fill stores, with every key, its count -/
theorem fillOnes_vals {order ts : Sl Nat} {bs B nm : Nat} {dws0 dws : Sl KV} {z : Nat} {o : Option Nat}
    (hlen : dws0.len = B) (hB : bs + B ≤ order.toList.length)
    (hle : ∀ v ∈ rfSeg order.toList bs (bs + B), rfTv ts v ≤ 1)
    (hnm : nm = (rfSeg order.toList bs (bs + B)).countP (fun v => decide (rfTv ts v = 1)))
    (h : forRange (fillOnesStep order ts bs) B 0 (dws0, 0, if nm ≤ B then some (B - nm) else none) = .ok (dws, z, o)) :
    ∀ i, i < B → ∃ v, dws.data[i]? = some (rfTv ts v, v) := by
  generalize hS : rfSeg order.toList bs (bs + B) = S at hle hnm ⊢
  have hSlen : S.length = B := by rw [← hS, length_rfSeg _ _ _ (by omega) hB]; omega
  have hSk : ∀ k, k < B → S[k]? = order.toList[bs + k]? := by
    intro k hk; rw [← hS, getElem?_rfSeg, if_pos (by omega)]
  let p0 : Nat → Bool := fun v => decide (rfTv ts v = 0)
  have hc1 : S.countP (fun x => !p0 x) = nm := by
    rw [hnm]
    apply List.countP_congr
    intro v hv
    have := hle v hv
    simp only [p0, Bool.not_eq_true', decide_eq_false_iff_not, decide_eq_true_eq]
    omega
  have hc2 : S.length = S.countP p0 + S.countP (fun x => !p0 x) := by
    have := List.length_eq_countP_add_countP (p := p0) (l := S)
    simpa using this
  have hnB : nm ≤ B := by omega
  have hz : S.countP p0 = B - nm := by omega
  rw [if_pos hnB] at h
  have hfin := forRange_inv (fillOnesStep order ts bs) (fun i st => FOInv S p0 B nm dws0.data.size i st)
    B 0 (dws0, 0, some (B - nm)) (dws, z, o)
    ⟨hlen, rfl, by simp, by simp, by intro i hi; simp at hi, by intro i hi; simp at hi⟩
    (fun i st st' _ hi hI hf => fillOnesStep_inv hSk p0 (fun _ => rfl) hz i (by omega) st st' hI hf) h
  obtain ⟨g1, g2, g3, g4, g5, g6⟩ := hfin
  simp only [Nat.zero_add] at g1 g2 g3 g4 g5 g6
  rw [List.take_of_length_le (by omega)] at g3 g4 g5 g6
  have hZ : (S.filter p0).length = B - nm := by rw [← List.countP_eq_length_filter]; exact hz
  have hO : (S.filter (fun x => !p0 x)).length = nm := by rw [← List.countP_eq_length_filter]; exact hc1
  intro i hi
  by_cases hi2 : i < B - nm
  · have hx : (S.filter p0)[i]? = some ((S.filter p0)[i]'(by omega)) := List.getElem?_eq_getElem (by omega)
    have hmem := List.getElem_mem (l := S.filter p0) (show i < (S.filter p0).length by omega)
    have hp := (List.mem_filter.1 hmem).2
    simp only [p0, decide_eq_true_eq] at hp
    refine ⟨(S.filter p0)[i]'(by omega), ?_⟩
    rw [g5 i (by omega), hx, hp]; rfl
  · have hlt : i - (B - nm) < (S.filter (fun x => !p0 x)).length := by omega
    obtain ⟨X, hx⟩ : ∃ X, (S.filter (fun x => !p0 x))[i - (B - nm)]? = some X := ⟨_, List.getElem?_eq_getElem hlt⟩
    obtain ⟨hm1, hp⟩ := List.mem_filter.1 (List.mem_of_getElem? hx)
    have h1 := hle _ hm1
    have hp' : rfTv ts X ≠ 0 := by simpa [p0] using hp
    have hone : rfTv ts X = 1 := by omega
    have := g6 (i - (B - nm)) hlt
    rw [show B - nm + (i - (B - nm)) = i by omega] at this
    refine ⟨X, ?_⟩
    rw [this, hx, hone]; rfl

/-- after the fill, every entry of `dws[:binSize]` is a key with its count, and the values ascend -/
theorem fill_vals (hst : StablePerm) {n : Nat} {op : OP} {sc : Scratch} {j bs dj mc nm : Nat} {dws0 dws : Sl KV}
    (hp : PartInv n op) (hcc : CellCount op sc.timesSeen sc.maxCell sc.numberOfMax j)
    (hbs : (0 :: op.binDividers.toList)[j]? = some bs) (hdj : op.binDividers.toList[j]? = some dj)
    (hmc : sc.maxCell.get j = .ok mc) (hnm : sc.numberOfMax.get j = .ok nm)
    (hd0 : sc.dws.reslice (dj - bs) = .ok dws0)
    (hf : (mc = 1 ∧ ∃ z o, forRange (fillOnesStep op.order sc.timesSeen bs) (dj - bs) 0
            (dws0, 0, if nm ≤ dj - bs then some (dj - bs - nm) else none) = .ok (dws, z, o)) ∨
          (mc ≠ 1 ∧ ∃ dws1, forRange (fillStep op.order sc.timesSeen bs) (dj - bs) 0 dws0 = .ok dws1 ∧
            stable dws1 dws1.len = .ok dws)) :
    (∀ i, i < dj - bs → ∃ v, dws.data[i]? = some (rfTv sc.timesSeen v, v)) ∧
    (∀ a b x y, a ≤ b → b < dj - bs → dws.data[a]? = some x → dws.data[b]? = some y → x.1 ≤ y.1) := by
  have hlt : bs < dj := rf_sorted_start_lt hp.sorted hbs hdj
  have hs : op.binDividers.toList.Pairwise (· < ·) := (List.pairwise_cons.1 hp.sorted).2
  have hdn : dj ≤ n := rf_bd_le_last hs hp.last dj (List.mem_of_getElem? hdj)
  have holen : op.order.toList.length = n := by rw [Sl.length_toList _ hp.wfOrder, hp.lenOrder]
  obtain ⟨e1, e2, w0⟩ := Sl.reslice_len hd0
  have hsum : bs + (dj - bs) = dj := by omega
  rcases hf with ⟨hmc1, z, o, hfo⟩ | ⟨_, dws1, hf1, hstb⟩
  · subst hmc1
    obtain ⟨c1, c2, _⟩ := hcc bs dj hbs hdj
    rw [rfDv_of_get hmc] at c1 c2
    rw [rfDv_of_get hnm] at c2
    have hle : ∀ v ∈ rfSeg op.order.toList bs (bs + (dj - bs)), rfTv sc.timesSeen v ≤ 1 := by
      rw [hsum]; intro v hv
      obtain ⟨p, h1, h2, h3⟩ := mem_rfSeg.1 hv
      exact c1 p v h1 h2 h3
    have hcn : nm = (rfSeg op.order.toList bs (bs + (dj - bs))).countP (fun v => decide (rfTv sc.timesSeen v = 1)) := by
      rw [hsum]; exact c2 (by omega)
    have hv := fillOnes_vals (order := op.order) (ts := sc.timesSeen) (bs := bs) (B := dj - bs) (nm := nm) e1
      (by rw [hsum, holen]; exact hdn) hle hcn hfo
    obtain ⟨_, _, _, _, hval⟩ := fillOnes_spec (order := op.order) (ts := sc.timesSeen) (bs := bs) (B := dj - bs)
      (nm := nm) e1 (by rw [hsum, holen]; exact hdn) hle hcn hfo
    refine ⟨hv, ?_⟩
    intro a b x y hab hb hx hy
    have ha' := hval a (by omega)
    have hb' := hval b hb
    rw [hx] at ha'; rw [hy] at hb'
    simp only [Option.map_some, Option.some.injEq] at ha' hb'
    rw [ha', hb']
    split <;> split <;> omega
  · obtain ⟨f1, f2, f3⟩ := fill_spec hf1
    obtain ⟨g1, g2, g3⟩ := hst _ _ _ hstb
    have hw1 : dws1.WF := by unfold Sl.WF at *; omega
    have hdl : dws.len = dj - bs := by rw [g1, f1, e1]
    have hdw : dws.WF := by unfold Sl.WF at *; omega
    have hso := stable_sorted hw1 hstb
    have hidx : ∀ i x, i < dj - bs → dws.data[i]? = some x → dws.toList[i]? = some x := by
      intro i x hi hx; rw [Sl.getElem?_toList, if_pos (by omega)]; exact hx
    refine ⟨?_, ?_⟩
    · intro i hi
      obtain ⟨x, hx, hx'⟩ := Sl.get_ok_of_lt hdw (show i < dws.len by omega)
      have hmem : x ∈ dws1.toList := g3.mem_iff.1 (List.mem_of_getElem? (hidx i x hi hx'))
      obtain ⟨k, hk⟩ := List.mem_iff_getElem?.1 hmem
      rw [Sl.getElem?_toList] at hk
      by_cases hkl : k < dws1.len
      · rw [if_pos hkl] at hk
        obtain ⟨v, _, hv2⟩ := f3 k (by omega)
        rw [hv2] at hk
        exact ⟨v, by rw [hx', ← Option.some.inj hk]⟩
      · rw [if_neg hkl] at hk; cases hk
    · intro a b x y hab hb hx hy
      by_cases hab' : a = b
      · subst hab'; rw [hx] at hy; exact Nat.le_of_eq (by rw [Option.some.inj hy])
      · have ha1 := List.getElem?_eq_some_iff.1 (hidx a x (by omega) hx)
        have hb1 := List.getElem?_eq_some_iff.1 (hidx b y hb hy)
        have := List.pairwise_iff_getElem.1 hso a b ha1.1 hb1.1 (by omega)
        rw [ha1.2, hb1.2] at this; exact this

/-! ## the new dividers are exactly the places where the value changes -/

/-- the value of `dws` changes at index `k` -/
def chgAt (dws : Sl KV) (k : Nat) : Bool := (dws.data[k]?).map Prod.fst != (dws.data[k - 1]?).map Prod.fst

theorem writeBack_nbs {dws : Sl KV} {bs B : Nat} {order1 nbs0 order2 nbs2 : Sl Nat} {idx : Nat}
    (h : forRange (writeBackStep dws bs) (B - 1) 1 (order1, nbs0, 0) = .ok (order2, nbs2, idx)) :
    nbs2.toList.take idx = ((List.range' 1 (B - 1)).filter (chgAt dws)).map (fun k => bs + k) := by
  have := forRange_inv (writeBackStep dws bs)
    (fun k (st : Sl Nat × Sl Nat × Nat) =>
      st.2.1.toList.take st.2.2 = ((List.range' 1 (k - 1)).filter (chgAt dws)).map (fun k => bs + k))
    (B - 1) 1 (order1, nbs0, 0) (order2, nbs2, idx) (by simp)
    (by
      rintro k ⟨o, nb, ix⟩ ⟨o', nb', ix'⟩ hk1 _ hI hf
      simp only at hI
      have hr : List.range' 1 (k + 1 - 1) = List.range' 1 (k - 1) ++ [k] := by
        rw [show k + 1 - 1 = (k - 1) + 1 by omega, List.range'_1_concat, show 1 + (k - 1) = k by omega]
      unfold writeBackStep at hf
      dsimp only at hf
      cases hx : dws.get k with
      | ok x =>
        cases hy : dws.get (k - 1) with
        | ok y =>
          rw [hx, hy] at hf; dsimp only at hf
          have hdx : dws.data[k]? = some x := (Sl.get_eq_ok.1 hx).2
          have hdy : dws.data[k - 1]? = some y := (Sl.get_eq_ok.1 hy).2
          cases ho : o.set (bs + k) x.2 with
          | ok o1 =>
            rw [ho] at hf; dsimp only at hf
            by_cases hne : x.1 ≠ y.1
            · rw [if_pos hne] at hf
              cases hn : nb.set ix (bs + k) with
              | ok nb1 =>
                rw [hn] at hf
                simp only [Outcome.ok.injEq, Prod.mk.injEq] at hf
                obtain ⟨_, rfl, rfl⟩ := hf
                obtain ⟨⟨g1, g2⟩, _⟩ := Sl.set_eq_ok.1 hn
                have hlt : ix < nb.toList.length := by simp [Sl.toList]; omega
                have hc : chgAt dws k = true := by
                  unfold chgAt; rw [hdx, hdy]; simpa using hne
                simp only
                rw [Sl.toList_set hn, rf_take_succ_set hlt, hI, hr, List.filter_append, List.map_append,
                  List.filter_cons_of_pos hc]
                rfl
              | panic => rw [hn] at hf; simp at hf
              | outOfFuel => rw [hn] at hf; simp at hf
            · rw [if_neg hne] at hf
              simp only [Outcome.ok.injEq, Prod.mk.injEq] at hf
              obtain ⟨_, rfl, rfl⟩ := hf
              have hc : ¬ chgAt dws k = true := by
                unfold chgAt; rw [hdx, hdy]; simpa using hne
              simp only
              rw [hI, hr, List.filter_append, List.filter_cons_of_neg hc, List.filter_nil, List.append_nil]
          | panic => rw [ho] at hf; simp at hf
          | outOfFuel => rw [ho] at hf; simp at hf
        | panic => rw [hx, hy] at hf; simp at hf
        | outOfFuel => rw [hx, hy] at hf; simp at hf
      | panic => rw [hx] at hf; simp at hf
      | outOfFuel => rw [hx] at hf; simp at hf)
    h
  simp only at this
  rw [show 1 + (B - 1) - 1 = B - 1 by omega] at this
  exact this

/-! ## one effective `splitCell`, with the order of the fragments and the new work list -/

/-- the facts about one effective `splitCell j` beyond `SplitRel`: the bin is sorted by the counts, the new dividers
sit exactly where the count changes, the new work list -/
structure SplitX (ts : Sl Nat) (j bs : Nat) (K nbsL : List Nat) (op op2 : OP) : Prop where
  ksorted : K.Pairwise (fun a b => rfTv ts a ≤ rfTv ts b)
  nmem : ∀ x, x ∈ nbsL ↔ ∃ k, 1 ≤ k ∧ k < K.length ∧ x = bs + k ∧ rfTv ts (K.getD k 0) ≠ rfTv ts (K.getD (k - 1) 0)
  btc : ∀ x : Int, x ∈ op2.binsToCheck.toList ↔
    (∃ y ∈ op.binsToCheck.toList, x = btcShiftF j nbsL.length y) ∨ ((j : Int) ≤ x ∧ x ≤ ((j + nbsL.length : Nat) : Int))
  btcInv : BtcInv op2
  nonconst : ∃ a ∈ K, ∃ b ∈ K, rfTv ts a ≠ rfTv ts b

theorem SplitRel.bdLen {n j bs dj : Nat} {K nbsL : List Nat} {op op2 : OP} (h : SplitRel n j bs dj K nbsL op op2)
    (hp : PartInv n op) : op2.binDividers.len = op.binDividers.len + nbsL.length := by
  have h1 : op2.binDividers.toList.length = op2.binDividers.len := Sl.length_toList _ h.inv.wfBd
  have h2 : op.binDividers.toList.length = op.binDividers.len := Sl.length_toList _ hp.wfBd
  have hj := (h.lens hp).1
  rw [h.bd] at h1
  simp only [List.length_append, List.length_take, List.length_drop] at h1
  omega

theorem tr_mem_ofNat_range {j m : Nat} {x : Int} :
    x ∈ (List.range' j (m + 1)).map Int.ofNat ↔ (j : Int) ≤ x ∧ x ≤ ((j + m : Nat) : Int) := by
  rw [List.mem_map]
  constructor
  · rintro ⟨t, ht, rfl⟩
    rw [List.mem_range'_1] at ht
    simp only [Int.ofNat_eq_natCast]
    omega
  · rintro ⟨h1, h2⟩
    refine ⟨x.toNat, ?_, ?_⟩
    · rw [List.mem_range'_1]; omega
    · simp only [Int.ofNat_eq_natCast]; omega

theorem tr_ok_inj {α : Type} {a b : α} (h : (Outcome.ok a) = Outcome.ok b) : a = b := by cases h; rfl


/-- `splitCell_split` with the additional facts -/
theorem splitCell_splitX (hst : StablePerm) {nb : Nbrs} {n : Nat} {cb fl : Sl Nat} {opts : Options} {j : Nat}
    {op op' : OP} {sc sc' : Scratch} {r : Bool}
    (hp : PartInv n op) (hb : BtcInv op) (hcc : CellCount op sc.timesSeen sc.maxCell sc.numberOfMax j)
    (h : splitCell nb n cb fl opts j (false, op, sc) = .ok (r, op', sc')) :
    ∃ bs dj, (0 :: op.binDividers.toList)[j]? = some bs ∧ op.binDividers.toList[j]? = some dj ∧
    ((r = false ∧ op' = op ∧ sc' = sc ∧
        ∀ a ∈ rfSeg op.order.toList bs dj, ∀ b ∈ rfSeg op.order.toList bs dj, rfTv sc.timesSeen a = rfTv sc.timesSeen b) ∨
     ∃ K nbsL op2 sc2, SplitRel n j bs dj K nbsL op op2 ∧ SplitX sc.timesSeen j bs K nbsL op op2 ∧ ScrRel sc sc2 ∧
      scTail nb cb fl opts j op2 sc2 = .ok (r, op', sc')) := by
  rw [splitCell_false] at h
  obtain ⟨bs, dj, hbs, hdj, hcase⟩ := scHead_ok2 h
  refine ⟨bs, dj, hbs, hdj, ?_⟩
  rcases hcase with ⟨hR, hskip⟩ | ⟨mc, nm, dws0, hne, _, hmc, hmc0, hnm, hnmB, hd0, h⟩
  · simp only [Prod.mk.injEq] at hR
    exact Or.inl ⟨hR.1, hR.2.1, hR.2.2, skip_allEq hp hcc hbs hdj hskip⟩
  · right
    obtain ⟨dws, hf, h⟩ := scFill_ok h
    obtain ⟨f1, f2, f3, f4⟩ := fill_stage hst hp hcc hbs hdj hmc hnm hd0 hf
    obtain ⟨v1, v2⟩ := fill_vals hst hp hcc hbs hdj hmc hnm hd0 hf
    obtain ⟨k', hk1, hk2, hk3⟩ := fill_nonconst hst hp hcc hbs hdj hmc hnm hmc0 hnmB hd0 hf
    obtain ⟨nbs0, kv0, order1, order2, nbs2, idx, w1, w2, w3, w4, h⟩ := scWrite_ok h
    obtain ⟨nbs3, btc1, bd1, bd2, bd3, u1, u2, u3, u4, u5, h⟩ := scUpd1_ok h
    have hlt : bs < dj := rf_sorted_start_lt hp.sorted hbs hdj
    have hs : op.binDividers.toList.Pairwise (· < ·) := (List.pairwise_cons.1 hp.sorted).2
    have hdn : dj ≤ n := rf_bd_le_last hs hp.last dj (List.mem_of_getElem? hdj)
    obtain ⟨o1, o2, o3, o4, n1, n2, _, n4, n5⟩ :=
      write_stage hp.wfOrder hp.lenOrder hlt hdn f1 f3 w1 w2 w3 w4 u1
    obtain ⟨ag1, ag2, ag3, sp1, sp2, btc2, op2, ha1, ha2, ha3, hs1, hs2, hun, hrec, h⟩ := scUpd2_ok h
    obtain ⟨ic, hic, hrel⟩ := upd_core btc2 hp hbs hdj hne ⟨o1, o2, o3, o4⟩ f4 ⟨n1, n4, n5⟩ u3 u4 u5 ha1 ha2 ha3
    rw [hic] at hrec
    have hop2 := tr_ok_inj hrec
    subst hop2
    have hsz : sp2.data.size = sc.space.data.size := by
      rw [rf_forRange_set_size (fun k => k - j) (fun k => k) _ _ _ _ hs2, (Sl.reslice_len hs1).2.1]
    -- the rfKeys and their values
    have hKl : (rfKeys dws).length = dj - bs := by rw [length_rfKeys f3, f1]
    have hKget : ∀ k, k < dj - bs → ∃ v, dws.data[k]? = some (rfTv sc.timesSeen v, v) ∧ (rfKeys dws)[k]? = some v := by
      intro k hk
      obtain ⟨v, hv⟩ := v1 k hk
      exact ⟨v, hv, by rw [getElem?_rfKeys, if_pos (by omega), hv]; rfl⟩
    have hKD : ∀ k, k < dj - bs → dws.data[k]? = some (rfTv sc.timesSeen ((rfKeys dws).getD k 0), (rfKeys dws).getD k 0) := by
      intro k hk
      obtain ⟨v, hv, hk'⟩ := hKget k hk
      rw [List.getD_eq_getElem?_getD, hk']; exact hv
    -- the new dividers
    obtain ⟨c1, c2, _⟩ := Sl.reslice_len u1
    obtain ⟨_, _, _, b4, _, b6, _, _, _⟩ := writeBack_spec (n := n) f1 (Sl.reslice_len w1).1 w2 w3 w4
    have hnl : nbs3.toList.length = idx := by rw [Sl.length_toList _ n1, c1]
    have e3 : nbs3.toList = nbs2.toList.take idx := by
      unfold Sl.toList
      rw [c1, c2, List.take_take, Nat.min_eq_left (by omega)]
    have hnb := writeBack_nbs w4
    refine ⟨rfKeys dws, nbs3.toList, _, { sc with dws := dws, nbs := nbs3, space := sp2 }, hrel, ?_,
      ⟨rfl, rfl, rfl, f2, n2, hsz⟩, h⟩
    have hjl : j < op.binDividers.len := by
      have := (List.getElem?_eq_some_iff.1 hdj).1
      rw [Sl.length_toList _ hp.wfBd] at this; exact this
    -- the work list
    obtain ⟨b', hb1, _, _, _, hb5⟩ := shiftBtc_full j idx op.binsToCheck hb.wf hb.sorted
    rw [u2] at hb1
    have hb1' := tr_ok_inj hb1
    subst hb1'
    obtain ⟨sp2', hp1, _, hp3⟩ := spaceLoop_spec j idx sp1 (Sl.reslice_len hs1).2.2 (Sl.reslice_len hs1).1
    rw [hs2] at hp1
    have hp1' := tr_ok_inj hp1
    subst hp1'
    obtain ⟨s', hu1, hu2, hu3, _⟩ := unionSl_ok btc1 (sp2.toList.map Int.ofNat)
      (by rw [hb5]; exact hb.sorted.map _ (fun a b h => btcShiftF_lt h))
      (by rw [hp3]; exact (List.pairwise_lt_range' (s := j) (n := idx + 1)).map _ (fun a b h => by simpa using h))
    rw [hun] at hu1
    have hu1' := tr_ok_inj hu1
    subst hu1'
    rw [hb5, hp3] at hu3
    obtain ⟨q1, q2, _, _⟩ := btc_union_facts (j := j) (idx := idx) hb.sorted hb.range hjl
    exact
      { ksorted := by
          rw [List.pairwise_iff_getElem]
          intro a b ha hb' hab
          rw [hKl] at ha hb'
          obtain ⟨va, hva, hka⟩ := hKget a ha
          obtain ⟨vb, hvb, hkb⟩ := hKget b hb'
          have e1 : (rfKeys dws)[a] = va := (List.getElem?_eq_some_iff.1 hka).2
          have e2 : (rfKeys dws)[b] = vb := (List.getElem?_eq_some_iff.1 hkb).2
          rw [e1, e2]
          exact v2 a b _ _ (by omega) hb' hva hvb
        nmem := by
          intro x
          rw [e3, hnb, List.mem_map, hKl]
          constructor
          · rintro ⟨k, hk, rfl⟩
            obtain ⟨hk1', hk2'⟩ := List.mem_filter.1 hk
            rw [List.mem_range'_1] at hk1'
            refine ⟨k, by omega, by omega, rfl, ?_⟩
            unfold chgAt at hk2'
            rw [hKD k (by omega), hKD (k - 1) (by omega)] at hk2'
            simpa using hk2'
          · rintro ⟨k, hk1', hk2', rfl, hk4⟩
            refine ⟨k, List.mem_filter.2 ⟨by rw [List.mem_range'_1]; omega, ?_⟩, rfl⟩
            unfold chgAt
            rw [hKD k (by omega), hKD (k - 1) (by omega)]
            simpa using hk4
        btc := by
          intro x
          show x ∈ btc2.toList ↔ _
          rw [hu3, SortInts.mem_union, List.mem_map, tr_mem_ofNat_range, hnl]
          constructor
          · rintro (⟨y, hy, rfl⟩ | h2)
            · exact Or.inl ⟨y, hy, rfl⟩
            · exact Or.inr h2
          · rintro (⟨y, hy, rfl⟩ | h2)
            · exact Or.inl ⟨y, hy, rfl⟩
            · exact Or.inr h2
        btcInv :=
          { wf := hu2
            sorted := by show btc2.toList.Pairwise _; rw [hu3]; exact q1
            range := by
              intro x hx
              have hx' : x ∈ btc2.toList := hx
              rw [hu3] at hx'
              have := q2 x hx'
              have hl := hrel.bdLen hp
              rw [hnl] at hl
              have hl' : bd3.len = op.binDividers.len + idx := hl
              show 0 ≤ x ∧ x < (bd3.len : Int)
              rw [hl']; exact this }
        nonconst := by
          obtain ⟨va, hva, hka⟩ := hKget k' hk2
          obtain ⟨vb, hvb, hkb⟩ := hKget (k' - 1) (by omega)
          refine ⟨va, List.mem_of_getElem? hka, vb, List.mem_of_getElem? hkb, ?_⟩
          rw [hva, hvb] at hk3
          simpa using hk3 }

/-! ## the cells of the vertices before and after one split -/

theorem tr_cellOf_of_pos {n : Nat} {op : OP} (hp : PartInv n op) {p v : Nat} (h : op.order.toList[p]? = some v) :
    cellOf op v = binIdx op.binDividers.toList p := by
  unfold cellOf; rw [hp.inCell p v h]; rfl

theorem tr_cellOf_pos {n : Nat} {op : OP} (hp : PartInv n op) {v : Nat} (hv : v < n) :
    ∃ p, p < n ∧ op.order.toList[p]? = some v ∧ cellOf op v = binIdx op.binDividers.toList p := by
  have hmem : v ∈ op.order.toList := hp.perm.mem_iff.2 (List.mem_range.2 hv)
  obtain ⟨p, hpv⟩ := List.mem_iff_getElem?.1 hmem
  have hpl : p < n := by
    have := (List.getElem?_eq_some_iff.1 hpv).1
    rw [Sl.length_toList _ hp.wfOrder, hp.lenOrder] at this; exact this
  exact ⟨p, hpl, hpv, tr_cellOf_of_pos hp hpv⟩

/-- in a monotone sequence the value grows between `a` and `b` iff it changes somewhere in `(a, b]` -/
theorem tr_mono_change_iff (f : Nat → Nat) (L : Nat) (hmono : ∀ a b, a ≤ b → b < L → f a ≤ f b) {a b : Nat}
    (ha : a < L) (hb : b < L) : (∃ k, a < k ∧ k ≤ b ∧ f k ≠ f (k - 1)) ↔ f a < f b := by
  constructor
  · rintro ⟨k, h1, h2, h3⟩
    have e1 := hmono a (k - 1) (by omega) (by omega)
    have e2 := hmono (k - 1) k (by omega) (by omega)
    have e3 := hmono k b h2 hb
    omega
  · intro hlt
    have hab : a < b := by
      apply Nat.lt_of_not_le
      intro hle
      have := hmono b a hle ha
      omega
    apply Classical.byContradiction
    intro hno
    have hall : ∀ d, a + d ≤ b → f (a + d) = f a := by
      intro d
      induction d with
      | zero => intro _; rfl
      | succ d ih =>
        intro hd
        have := ih (by omega)
        have h2 : f (a + (d + 1)) = f (a + (d + 1) - 1) :=
          Classical.byContradiction (fun hne => hno ⟨a + (d + 1), by omega, hd, hne⟩)
        rw [h2, show a + (d + 1) - 1 = a + d by omega, this]
    have := hall (b - a) (by omega)
    rw [show a + (b - a) = b by omega] at this
    omega

/-- where a vertex ends up after the split of bin `j` -/
theorem SplitRel.pos {n j bs dj : Nat} {K nbsL : List Nat} {op op2 : OP} (h : SplitRel n j bs dj K nbsL op op2)
    (hp : PartInv n op) {p1 v : Nat} (hv : op.order.toList[p1]? = some v) :
    ∃ p2, op2.order.toList[p2]? = some v ∧
      (((p1 < bs ∨ dj ≤ p1) ∧ p2 = p1) ∨ (bs ≤ p1 ∧ p1 < dj ∧ bs ≤ p2 ∧ p2 < dj ∧ K[p2 - bs]? = some v)) := by
  have hlt : bs < dj := rf_sorted_start_lt hp.sorted h.hbs h.hdj
  have hs : op.binDividers.toList.Pairwise (· < ·) := (List.pairwise_cons.1 hp.sorted).2
  have hdn : dj ≤ n := rf_bd_le_last hs hp.last dj (List.mem_of_getElem? h.hdj)
  have holen : op.order.toList.length = n := by rw [Sl.length_toList _ hp.wfOrder, hp.lenOrder]
  have hKl : K.length = dj - bs := by rw [h.kperm.length_eq, length_rfSeg _ _ _ (by omega) (by omega)]
  have htk : (op.order.toList.take bs).length = bs := by rw [List.length_take]; omega
  by_cases h1 : p1 < bs
  · exact ⟨p1, by rw [h.order_lt hp h1]; exact hv, Or.inl ⟨Or.inl h1, rfl⟩⟩
  · by_cases h2 : p1 < dj
    · have hvs : v ∈ rfSeg op.order.toList bs dj := mem_rfSeg.2 ⟨p1, by omega, h2, hv⟩
      obtain ⟨a, ha⟩ := List.mem_iff_getElem?.1 (h.kperm.mem_iff.2 hvs)
      have hal := (List.getElem?_eq_some_iff.1 ha).1
      refine ⟨bs + a, ?_, Or.inr ⟨by omega, h2, by omega, by omega, by rw [Nat.add_sub_cancel_left]; exact ha⟩⟩
      rw [h.order, List.append_assoc, List.getElem?_append_right (by omega), htk, Nat.add_sub_cancel_left,
        List.getElem?_append_left hal]
      exact ha
    · refine ⟨p1, ?_, Or.inl ⟨Or.inr (by omega), rfl⟩⟩
      rw [h.order, List.getElem?_append_right (by rw [List.length_append]; omega), List.length_append, htk, hKl,
        List.getElem?_drop, show dj + (p1 - (bs + (dj - bs))) = p1 by omega]
      exact hv


/-- old and new position and cell of a vertex -/
theorem SplitRel.vertex {n j bs dj : Nat} {K nbsL : List Nat} {op op2 : OP} (h : SplitRel n j bs dj K nbsL op op2)
    (hp : PartInv n op) {v : Nat} (hv : v < n) :
    ∃ p1 p2, cellOf op v = binIdx op.binDividers.toList p1 ∧
      cellOf op2 v = binIdx op.binDividers.toList p2 + binIdx nbsL p2 ∧
      (((p1 < bs ∨ dj ≤ p1) ∧ p2 = p1) ∨ (bs ≤ p1 ∧ p1 < dj ∧ bs ≤ p2 ∧ p2 < dj ∧ K[p2 - bs]? = some v)) := by
  obtain ⟨p1, _, hp1, hc1⟩ := tr_cellOf_pos hp hv
  obtain ⟨p2, hp2, hcase⟩ := h.pos hp hp1
  refine ⟨p1, p2, hc1, ?_, hcase⟩
  rw [tr_cellOf_of_pos h.inv hp2, h.bd, tr_binIdx_insert]

theorem SplitRel.cells {n j bs dj : Nat} {K nbsL : List Nat} {op op2 : OP} {ts : Sl Nat}
    (h : SplitRel n j bs dj K nbsL op op2) (hx : SplitX ts j bs K nbsL op op2) (hp : PartInv n op) :
    (∀ v, v < n → (cellOf op v < j → cellOf op2 v = cellOf op v) ∧
      (j < cellOf op v → cellOf op2 v = cellOf op v + nbsL.length) ∧
      (cellOf op v = j → j ≤ cellOf op2 v ∧ cellOf op2 v ≤ j + nbsL.length)) ∧
    (∀ u v, u < n → v < n → cellOf op u = j → cellOf op v = j →
      (cellOf op2 u < cellOf op2 v ↔ rfTv ts u < rfTv ts v)) := by
  have hs : op.binDividers.toList.Pairwise (· < ·) := (List.pairwise_cons.1 hp.sorted).2
  have hlt : bs < dj := rf_sorted_start_lt hp.sorted h.hbs h.hdj
  have hdn : dj ≤ n := rf_bd_le_last hs hp.last dj (List.mem_of_getElem? h.hdj)
  have holen : op.order.toList.length = n := by rw [Sl.length_toList _ hp.wfOrder, hp.lenOrder]
  have hKl : K.length = dj - bs := by rw [h.kperm.length_eq, length_rfSeg _ _ _ (by omega) (by omega)]
  have hcmp := fun p => tr_binIdx_cmp hs h.hbs h.hdj p
  have heq := fun p => rf_binIdx_eq_iff hs h.hbs h.hdj p
  constructor
  · intro v hv
    obtain ⟨p1, p2, e1, e2, hcase⟩ := h.vertex hp hv
    refine ⟨?_, ?_, ?_⟩
    · intro hlt1
      rw [e1] at hlt1
      have hp1 := (hcmp p1).1.1 hlt1
      rcases hcase with ⟨_, rfl⟩ | ⟨_, _, _, _, _⟩
      · rw [e2, e1, tr_countP_le_zero (b := bs) (fun x hx' => (h.nrange x hx').1) (by omega)]; rfl
      · omega
    · intro hgt
      rw [e1] at hgt
      have hp1 := (hcmp p1).2.1 hgt
      rcases hcase with ⟨_, rfl⟩ | ⟨_, _, _, _, _⟩
      · rw [e2, e1, tr_countP_le_all (b := dj) (fun x hx' => (h.nrange x hx').2) hp1]
      · omega
    · intro hj
      rw [e1] at hj
      have hp1 := (heq p1).1 hj
      rcases hcase with ⟨hout, _⟩ | ⟨_, _, g1, g2, _⟩
      · omega
      · have := (heq p2).2 ⟨g1, g2⟩
        have := tr_binIdx_le_length nbsL p2
        rw [e2]; omega
  · intro u v hu hv hcu hcv
    obtain ⟨pu1, pu2, eu1, eu2, hcaseu⟩ := h.vertex hp hu
    obtain ⟨pv1, pv2, ev1, ev2, hcasev⟩ := h.vertex hp hv
    rw [eu1] at hcu
    rw [ev1] at hcv
    have hpu := (heq pu1).1 hcu
    have hpv := (heq pv1).1 hcv
    rcases hcaseu with ⟨_, _⟩ | ⟨_, _, gu1, gu2, gu3⟩
    · omega
    rcases hcasev with ⟨_, _⟩ | ⟨_, _, gv1, gv2, gv3⟩
    · omega
    have hbu := (heq pu2).2 ⟨gu1, gu2⟩
    have hbv := (heq pv2).2 ⟨gv1, gv2⟩
    rw [eu2, ev2, hbu, hbv]
    -- monotonicity of the counts along K
    obtain ⟨f, hf⟩ : ∃ f : Nat → Nat, ∀ k, f k = rfTv ts (K.getD k 0) := ⟨_, fun _ => rfl⟩
    have hmono : ∀ a b, a ≤ b → b < K.length → f a ≤ f b := by
      intro a b hab hb
      by_cases hab' : a = b
      · subst hab'; exact Nat.le_refl _
      · have := List.pairwise_iff_getElem.1 hx.ksorted a b (by omega) hb (by omega)
        rw [hf, hf, List.getD_eq_getElem?_getD, List.getD_eq_getElem?_getD, List.getElem?_eq_getElem (by omega),
          List.getElem?_eq_getElem hb]
        exact this
    have hfu : f (pu2 - bs) = rfTv ts u := by
      rw [hf, List.getD_eq_getElem?_getD, gu3]; rfl
    have hfv : f (pv2 - bs) = rfTv ts v := by
      rw [hf, List.getD_eq_getElem?_getD, gv3]; rfl
    have hmc := tr_mono_change_iff f K.length hmono (a := pu2 - bs) (b := pv2 - bs) (by omega) (by omega)
    rw [hfu, hfv] at hmc
    rw [← hmc]
    have hlt' : j + binIdx nbsL pu2 < j + binIdx nbsL pv2 ↔ binIdx nbsL pu2 < binIdx nbsL pv2 := by omega
    rw [hlt', tr_binIdx_lt_iff]
    clear hmc hlt'
    constructor
    · rintro ⟨d, hd, h1, h2⟩
      obtain ⟨k, k1, k2, rfl, k4⟩ := (hx.nmem d).1 hd
      exact ⟨k, by omega, by omega, by rw [hf, hf]; exact k4⟩
    · rintro ⟨k, k1, k2, k3⟩
      have hkl : k < K.length := by omega
      have hk1 : 1 ≤ k := by omega
      rw [hf, hf] at k3
      exact ⟨bs + k, (hx.nmem (bs + k)).2 ⟨k, hk1, hkl, rfl, k3⟩, by omega, by omega⟩

/-! ## the invariant of the loop over the bins, at the level of colourings -/

/-- pure arithmetic: the order of the cells after bin `j` has been processed -/
theorem tr_ord_step (old c1 c2 T : Nat → Nat) (n j m : Nat)
    (I1 : ∀ u v, u < n → v < n → (c1 u < c1 v ↔ (old u < old v ∨ (old u = old v ∧ j + 1 ≤ old u ∧ T u < T v))))
    (I2 : ∀ v, v < n → (old v < j + 1 → c1 v = old v) ∧ (j + 1 ≤ old v → j + 1 ≤ c1 v))
    (V : ∀ v, v < n → (c1 v < j → c2 v = c1 v) ∧ (j < c1 v → c2 v = c1 v + m) ∧
      (c1 v = j → j ≤ c2 v ∧ c2 v ≤ j + m))
    (V4 : ∀ u v, u < n → v < n → c1 u = j → c1 v = j → (c2 u < c2 v ↔ T u < T v)) :
    (∀ u v, u < n → v < n → (c2 u < c2 v ↔ (old u < old v ∨ (old u = old v ∧ j ≤ old u ∧ T u < T v)))) ∧
    (∀ v, v < n → (old v < j → c2 v = old v) ∧ (j ≤ old v → j ≤ c2 v)) := by
  constructor
  · intro u v hu hv
    have a1 := I1 u v hu hv
    have a2 := I2 u hu
    have a3 := I2 v hv
    have a4 := V u hu
    have a5 := V v hv
    by_cases hb : c1 u = j ∧ c1 v = j
    · have a6 := V4 u v hu hv hb.1 hb.2
      rw [a6]
      constructor
      · intro h; right; omega
      · intro h; omega
    · constructor
      · intro h; omega
      · intro h; omega
  · intro v hv
    have a3 := I2 v hv
    have a5 := V v hv
    constructor
    · intro h; omega
    · intro h; omega

/-- the invariant after the bins `≥ k` have been processed (`op0` = the partition at the start of the iteration, after
the pop; `ts` = the counts) -/
structure ColInv (n : Nat) (ts : Sl Nat) (op0 : OP) (k : Nat) (opc : OP) : Prop where
  ord : ∀ u v, u < n → v < n → (cellOf opc u < cellOf opc v ↔
    (cellOf op0 u < cellOf op0 v ∨ (cellOf op0 u = cellOf op0 v ∧ k ≤ cellOf op0 u ∧ rfTv ts u < rfTv ts v)))
  low : ∀ v, v < n → (cellOf op0 v < k → cellOf opc v = cellOf op0 v) ∧ (k ≤ cellOf op0 v → k ≤ cellOf opc v)
  work : ∀ v, v < n → (((cellOf opc v : Nat) : Int) ∈ opc.binsToCheck.toList ↔
    ((cellOf op0 v < k ∧ ((cellOf op0 v : Nat) : Int) ∈ op0.binsToCheck.toList) ∨
     (k ≤ cellOf op0 v ∧
       ((((cellOf op0 v : Nat) : Int) ∈ op0.binsToCheck.toList ∧
          ∀ u, u < n → cellOf op0 u = cellOf op0 v → rfTv ts v ≤ rfTv ts u) ∨
        ∃ u, u < n ∧ cellOf op0 u = cellOf op0 v ∧ rfTv ts u ≠ rfTv ts v))))
  btc : BtcInv opc

theorem ColInv.of_frame {n : Nat} {ts : Sl Nat} {op0 : OP} {k : Nat} {opc opd : OP} (h : ColInv n ts op0 k opc)
    (e1 : opd.inCell = opc.inCell) (e2 : opd.binsToCheck = opc.binsToCheck) (e3 : opd.binDividers = opc.binDividers) :
    ColInv n ts op0 k opd := by
  have hc : ∀ v, cellOf opd v = cellOf opc v := fun v => by unfold cellOf; rw [e1]
  constructor
  · intro u v hu hv; rw [hc, hc]; exact h.ord u v hu hv
  · intro v hv; rw [hc]; exact h.low v hv
  · intro v hv; rw [hc, e2]; exact h.work v hv
  · exact ⟨by rw [e2]; exact h.btc.wf, by rw [e2]; exact h.btc.sorted, by rw [e2, e3]; exact h.btc.range⟩

/-- the vertices of cell `j` are the entries of the segment of bin `j` -/
theorem tr_cellOf_eq_iff_mem_bin {n : Nat} {op : OP} (hp : PartInv n op) {j bs dj : Nat}
    (hbs : (0 :: op.binDividers.toList)[j]? = some bs) (hdj : op.binDividers.toList[j]? = some dj) (v : Nat) :
    (v < n ∧ cellOf op v = j) ↔ v ∈ rfSeg op.order.toList bs dj := by
  have hs : op.binDividers.toList.Pairwise (· < ·) := (List.pairwise_cons.1 hp.sorted).2
  constructor
  · rintro ⟨hv, hc⟩
    obtain ⟨p, _, hpv, hcp⟩ := tr_cellOf_pos hp hv
    rw [hcp] at hc
    obtain ⟨h1, h2⟩ := (rf_binIdx_eq_iff hs hbs hdj p).1 hc
    exact mem_rfSeg.2 ⟨p, h1, h2, hpv⟩
  · intro hm
    obtain ⟨p, h1, h2, h3⟩ := mem_rfSeg.1 hm
    exact ⟨perm_range_lt hp.perm h3, by rw [tr_cellOf_of_pos hp h3]; exact (rf_binIdx_eq_iff hs hbs hdj p).2 ⟨h1, h2⟩⟩


theorem ColInv.cell_iff {n : Nat} {ts : Sl Nat} {op0 : OP} {j : Nat} {op1 : OP} (h : ColInv n ts op0 (j + 1) op1)
    {x : Nat} (hx : x < n) : cellOf op1 x = j ↔ cellOf op0 x = j := by
  have := h.low x hx
  constructor <;> intro _ <;> omega

/-- a skipped bin -/
theorem ColInv.step_skip {n : Nat} {ts : Sl Nat} {op0 : OP} {j : Nat} {op1 : OP} (h : ColInv n ts op0 (j + 1) op1)
    (hp : PartInv n op1) {bs dj : Nat}
    (hbs : (0 :: op1.binDividers.toList)[j]? = some bs) (hdj : op1.binDividers.toList[j]? = some dj)
    (hall : ∀ a ∈ rfSeg op1.order.toList bs dj, ∀ b ∈ rfSeg op1.order.toList bs dj, rfTv ts a = rfTv ts b) :
    ColInv n ts op0 j op1 := by
  have hT : ∀ u v, u < n → v < n → cellOf op1 u = j → cellOf op1 v = j → rfTv ts u = rfTv ts v := by
    intro u v hu hv hcu hcv
    exact hall u ((tr_cellOf_eq_iff_mem_bin hp hbs hdj u).1 ⟨hu, hcu⟩) v ((tr_cellOf_eq_iff_mem_bin hp hbs hdj v).1 ⟨hv, hcv⟩)
  obtain ⟨o1, o2⟩ := tr_ord_step (cellOf op0) (cellOf op1) (cellOf op1) (rfTv ts) n j 0 h.ord h.low
    (fun v _ => ⟨fun _ => rfl, fun _ => rfl, fun hc => by omega⟩)
    (fun u v hu hv hcu hcv => by
      have := hT u v hu hv hcu hcv
      constructor <;> intro _ <;> omega)
  refine ⟨o1, o2, ?_, h.btc⟩
  intro v hv
  rw [h.work v hv]
  by_cases hj : cellOf op0 v = j
  · have hmin : ∀ u, u < n → cellOf op0 u = cellOf op0 v → rfTv ts v ≤ rfTv ts u := by
      intro u hu hcu
      exact Nat.le_of_eq (hT v u hv hu ((h.cell_iff hv).2 hj) ((h.cell_iff hu).2 (by omega)))
    have htwo : ¬ ∃ u, u < n ∧ cellOf op0 u = cellOf op0 v ∧ rfTv ts u ≠ rfTv ts v := by
      rintro ⟨u, hu, hcu, hne⟩
      exact hne (hT u v hu hv ((h.cell_iff hu).2 (by omega)) ((h.cell_iff hv).2 hj))
    constructor
    · rintro (⟨_, h2⟩ | ⟨h1, _⟩)
      · exact Or.inr ⟨by omega, Or.inl ⟨h2, hmin⟩⟩
      · omega
    · rintro (⟨h1, _⟩ | ⟨_, ⟨h2, _⟩ | h3⟩)
      · omega
      · exact Or.inl ⟨by omega, h2⟩
      · exact absurd h3 htwo
  · constructor
    · rintro (⟨h1, h2⟩ | ⟨h1, h2⟩)
      · exact Or.inl ⟨by omega, h2⟩
      · exact Or.inr ⟨by omega, h2⟩
    · rintro (⟨h1, h2⟩ | ⟨h1, h2⟩)
      · exact Or.inl ⟨by omega, h2⟩
      · exact Or.inr ⟨by omega, h2⟩

/-- a bin that is split -/
theorem ColInv.step_split {n : Nat} {ts : Sl Nat} {op0 : OP} {j : Nat} {op1 op2 : OP}
    (h : ColInv n ts op0 (j + 1) op1) (hp : PartInv n op1) {bs dj : Nat} {K nbsL : List Nat}
    (hrel : SplitRel n j bs dj K nbsL op1 op2) (hx : SplitX ts j bs K nbsL op1 op2) :
    ColInv n ts op0 j op2 := by
  obtain ⟨V, V4⟩ := hrel.cells hx hp
  obtain ⟨o1, o2⟩ := tr_ord_step (cellOf op0) (cellOf op1) (cellOf op2) (rfTv ts) n j nbsL.length h.ord h.low V V4
  refine ⟨o1, o2, ?_, hx.btcInv⟩
  -- two different counts in the old cell `j`
  have htwo : ∀ v, v < n → cellOf op0 v = j → ∃ u, u < n ∧ cellOf op0 u = cellOf op0 v ∧ rfTv ts u ≠ rfTv ts v := by
    intro v hv hcv
    obtain ⟨a, ha, b, hb, hab⟩ := hx.nonconst
    obtain ⟨han, hca⟩ := (tr_cellOf_eq_iff_mem_bin hp hrel.hbs hrel.hdj a).2 (hrel.kperm.mem_iff.1 ha)
    obtain ⟨hbn, hcb⟩ := (tr_cellOf_eq_iff_mem_bin hp hrel.hbs hrel.hdj b).2 (hrel.kperm.mem_iff.1 hb)
    have ha0 := (h.cell_iff han).1 hca
    have hb0 := (h.cell_iff hbn).1 hcb
    by_cases hav : rfTv ts a = rfTv ts v
    · exact ⟨b, hbn, by omega, by omega⟩
    · exact ⟨a, han, by omega, hav⟩
  intro v hv
  have hV := V v hv
  have hJ := h.cell_iff hv
  have hlow := h.low v hv
  have hw1 := h.work v hv
  -- membership of the new cell in the new work list
  have hw2 : (((cellOf op2 v : Nat) : Int) ∈ op2.binsToCheck.toList ↔
      ((cellOf op1 v ≠ j ∧ ((cellOf op1 v : Nat) : Int) ∈ op1.binsToCheck.toList) ∨ cellOf op1 v = j)) := by
    rw [hx.btc]
    constructor
    · rintro (⟨y, hy, hye⟩ | ⟨h1, h2⟩)
      · by_cases hcj : cellOf op1 v = j
        · exact Or.inr hcj
        · left
          refine ⟨hcj, ?_⟩
          have : y = ((cellOf op1 v : Nat) : Int) := by
            unfold btcShiftF at hye
            split at hye <;> omega
          rw [← this]; exact hy
      · right; omega
    · rintro (⟨h1, h2⟩ | h1)
      · left
        refine ⟨_, h2, ?_⟩
        unfold btcShiftF
        split <;> omega
      · right; omega
  rw [hw2, hw1]
  by_cases hj : cellOf op0 v = j
  · have h2 := htwo v hv hj
    constructor
    · intro _; exact Or.inr ⟨by omega, Or.inr h2⟩
    · intro _; exact Or.inr (hJ.2 hj)
  · have hne : cellOf op1 v ≠ j := fun e => hj (hJ.1 e)
    constructor
    · rintro (⟨_, ⟨h1, h2⟩ | ⟨h1, h2⟩⟩ | h3)
      · exact Or.inl ⟨by omega, h2⟩
      · exact Or.inr ⟨by omega, h2⟩
      · exact absurd h3 hne
    · rintro (⟨h1, h2⟩ | ⟨h1, h2⟩)
      · exact Or.inl ⟨hne, Or.inl ⟨by omega, h2⟩⟩
      · exact Or.inl ⟨hne, Or.inr ⟨by omega, h2⟩⟩

/-! ## the loop over the bins and one iteration, at the level of colourings -/

theorem tr_cellOf_lt {n : Nat} {op : OP} (hp : PartInv n op) {v : Nat} (hv : v < n) : cellOf op v < op.binDividers.len := by
  obtain ⟨p, hpn, _, hc⟩ := tr_cellOf_pos hp hv
  rw [hc]
  have := binIdx_lt _ n p hp.last hpn
  rw [Sl.length_toList _ hp.wfBd] at this; exact this

/-- the loop over the bins -/
theorem splitLoop_col (hst : StablePerm) {nb : Nbrs} {n : Nat} {cb fl : Sl Nat} {opts : Options} {op0 : OP}
    {k : Nat} {op1 op' : OP} {sc1 sc' : Scratch}
    (hp : PartInv n op1) (ha : AgeInv op1)
    (hcc : ∀ j, j < k → CellCount op1 sc1.timesSeen sc1.maxCell sc1.numberOfMax j)
    (hc : ColInv n sc1.timesSeen op0 k op1)
    (h : forDown (splitCell nb n cb fl opts) k (false, op1, sc1) = .ok (false, op', sc')) :
    ColInv n sc1.timesSeen op0 0 op' ∧ ScrRel sc1 sc' := by
  have := forDown_inv (splitCell nb n cb fl opts)
    (fun i (st : Bool × OP × Scratch) => st.1 = false →
      (PartInv n st.2.1 ∧ AgeInv st.2.1 ∧ ScrRel sc1 st.2.2 ∧
        (∀ j, j < i → CellCount st.2.1 sc1.timesSeen sc1.maxCell sc1.numberOfMax j) ∧
        ColInv n sc1.timesSeen op0 i st.2.1))
    k (false, op1, sc1) (false, op', sc') (fun _ => ⟨hp, ha, ScrRel.refl _, hcc, hc⟩)
    (by
      rintro i ⟨ret, opA, scA⟩ ⟨r2, opB, scB⟩ _ hP hf
      simp only at hP
      intro hr2
      simp only at hr2
      subst hr2
      cases ret with
      | true =>
        rw [splitCell_true] at hf
        simp only [Outcome.ok.injEq, Prod.mk.injEq] at hf
        exact absurd hf.1 (by simp)
      | false =>
        obtain ⟨pA, aA, sA, cA, iA⟩ := hP rfl
        have sA' := sA
        obtain ⟨e1, e2, e3, _, _, _⟩ := sA'
        have hcc1 : CellCount opA scA.timesSeen scA.maxCell scA.numberOfMax i := by
          rw [e1, e2, e3]; exact cA i (Nat.lt_succ_self i)
        obtain ⟨g1, g2, g3⟩ := splitCell_step hst pA aA hcc1 hf
        refine ⟨g1.1, g1.2.1, sA.trans g2, ?_, ?_⟩
        · intro j hj
          have := g3 j hj (by rw [e1, e2, e3]; exact cA j (by omega))
          rw [e1, e2, e3] at this; exact this
        · obtain ⟨bs, dj, hbs, hdj, hcase⟩ := splitCell_splitX hst pA iA.btc hcc1 hf
          rw [e1] at hcase
          rcases hcase with ⟨_, rfl, _, hall⟩ | ⟨K, nbsL, op2, sc2, hrel, hx, _, ht⟩
          · exact iA.step_skip pA hbs hdj hall
          · obtain ⟨_, _, f2, _, f4, _, f6⟩ := scTail_frame ht
            exact (iA.step_split pA hrel hx).of_frame f6 f4 f2)
    h
  obtain ⟨_, _, s1, _, c1⟩ := this rfl
  exact ⟨c1, s1⟩


/-- the popped work list -/
theorem tr_pop_facts {b : Sl Int} {i : Int} {btc : Sl Int} (hw : b.WF) (hs : b.toList.Pairwise (· < ·))
    (hpos : 0 < b.len) (h3 : b.get (b.len - 1) = .ok i) (h4 : b.reslice (b.len - 1) = .ok btc) :
    i ∈ b.toList ∧ (∀ x ∈ b.toList, x ≤ i) ∧ btc.WF ∧ btc.toList.Pairwise (· < ·) ∧
      (∀ x, x ∈ btc.toList ↔ (x ∈ b.toList ∧ x ≠ i)) := by
  have hlen : b.toList.length = b.len := Sl.length_toList _ hw
  have hi : b.toList[b.len - 1]? = some i := Sl.get_eq_toList.1 h3
  obtain ⟨hil, hie⟩ := List.getElem?_eq_some_iff.1 hi
  obtain ⟨c1, c2, c3⟩ := Sl.reslice_len h4
  have htl : btc.toList = b.toList.take (b.len - 1) := by
    unfold Sl.toList
    rw [c1, c2, List.take_take, Nat.min_eq_left (by omega)]
  have hpw := List.pairwise_iff_getElem.1 hs
  have hle : ∀ x ∈ b.toList, x ≤ i := by
    intro x hx
    obtain ⟨k, hk⟩ := List.mem_iff_getElem?.1 hx
    obtain ⟨hkl, hke⟩ := List.getElem?_eq_some_iff.1 hk
    by_cases hkk : k = b.len - 1
    · subst hkk; exact Int.le_of_eq (by rw [← hke, hie])
    · have := hpw k (b.len - 1) hkl hil (by omega)
      rw [hke, hie] at this; exact Int.le_of_lt this
  refine ⟨List.mem_of_getElem? hi, hle, c3, by rw [htl]; exact List.Pairwise.sublist (List.take_sublist _ _) hs, ?_⟩
  intro x
  rw [htl]
  constructor
  · intro hx
    obtain ⟨k, hk⟩ := List.mem_iff_getElem?.1 hx
    rw [List.getElem?_take] at hk
    by_cases hkl : k < b.len - 1
    · rw [if_pos hkl] at hk
      obtain ⟨hkl', hke⟩ := List.getElem?_eq_some_iff.1 hk
      have := hpw k (b.len - 1) hkl' hil hkl
      rw [hke, hie] at this
      exact ⟨List.mem_of_getElem? hk, by omega⟩
    · rw [if_neg hkl] at hk; cases hk
  · rintro ⟨hx, hne⟩
    obtain ⟨k, hk⟩ := List.mem_iff_getElem?.1 hx
    obtain ⟨hkl, hke⟩ := List.getElem?_eq_some_iff.1 hk
    have hkk : k ≠ b.len - 1 := by
      intro e; subst e; rw [hie] at hke; exact hne hke.symm
    apply List.mem_iff_getElem?.2
    exact ⟨k, by rw [List.getElem?_take, if_pos (by omega)]; exact hk⟩


/-- One iteration of the refinement at the level of colourings (the unfolded `RefineIterCol`, with the two additional
hypotheses on `timesSeen` that `CountSem` needs, and three additional conjuncts at the end). -/
theorem refineIter_col (hst : StablePerm) (hcs : CountSem)
    {n : Nat} {nb : Nbrs} {cb fl : Sl Nat} {opts : Options} {op op' : OP} {sc sc' : Scratch}
    (hp : PartInv n op) (ha : AgeInv op) (hs : ScrInv n sc) (htw : sc.timesSeen.WF) (htl : sc.timesSeen.len = n)
    (hb : BtcInv op) (hpos : 0 < op.binsToCheck.len) (hnb : NbOK nb n)
    (h : refineIter nb n cb fl opts op sc = .ok (false, op', sc')) :
    ∃ i : Nat, i < op.binDividers.len ∧ (i : Int) ∈ op.binsToCheck.toList ∧
      (∀ x ∈ op.binsToCheck.toList, x ≤ (i : Int)) ∧
      (∀ u v, u < n → v < n → (cellOf op' u < cellOf op' v ↔
        (cellOf op u < cellOf op v ∨ (cellOf op u = cellOf op v ∧ cntIn nb op i u < cntIn nb op i v)))) ∧
      (∀ v, v < n → (((cellOf op' v : Nat) : Int) ∈ op'.binsToCheck.toList ↔
        ((((cellOf op v : Nat) : Int) ∈ op.binsToCheck.toList ∧ cellOf op v ≠ i ∧
            ∀ u, u < n → cellOf op u = cellOf op v → cntIn nb op i v ≤ cntIn nb op i u) ∨
          (∃ u, u < n ∧ cellOf op u = cellOf op v ∧ cntIn nb op i u ≠ cntIn nb op i v)))) ∧
      BtcInv op' ∧ sc'.timesSeen.WF ∧ sc'.timesSeen.len = n ∧ ScrInv n sc' := by
  have hscr' : ScrInv n sc' := (refineIter_inv hst (carried_true nb n cb fl opts) hp ha trivial hs h).2.2.1
  obtain ⟨mc1, nm1, i, btc, a, b, ts2, mc2, nm2, h1, h2, h3, h4, hi0, h5, h6, hcnt, hfd⟩ := refineIter_ok h
  obtain ⟨p1, p2, p3, p4, p5⟩ := tr_pop_facts hb.wf hb.sorted hpos h3 h4
  have hir := hb.range i p1
  have hiN : ((i.toNat : Nat) : Int) = i := by omega
  have hil : i.toNat < op.binDividers.len := by omega
  -- the counts
  have hbs : (0 :: op.binDividers.toList)[i.toNat]? = some a := rf_binStart_eq h5
  have hdj : op.binDividers.toList[i.toNat]? = some b := Sl.get_eq_toList.1 h6
  have hzero : ∀ v, v < n → sc.timesSeen.fill0.toList[v]? = some 0 := by
    intro v hv
    rw [Sl.getElem?_toList, rf_fill0_len, if_pos (by omega), rf_fill0_data, if_pos (by omega),
      if_pos (by have := htw; unfold Sl.WF at this; omega)]
  obtain ⟨t1, t2, t3⟩ := hcs hp hnb hbs hdj (rf_fill0_wf htw) (by rw [rf_fill0_len]; exact htl) hzero hcnt
  have hT : ∀ v, v < n → rfTv ts2 v = cntIn nb op i.toNat v := by
    intro v hv; unfold rfTv; rw [t3 v hv]; rfl
  -- the counting invariant
  obtain ⟨m1, m2, _⟩ := Sl.reslice_len h1
  have hz1 := rfDv_fill0_reslice hs.capM hs.zeroM h1
  have hbn : op.binDividers.len ≤ n := hp.bdLen_le
  have hI0 : CountInv n op.inCell sc.timesSeen.fill0 mc1 nm1 :=
    countInv_zero (fun v => rfTv_fill0 _ v) (fun c hc => by unfold rfDv; rw [hz1 c (by omega)]; rfl)
  obtain ⟨hI, f1, f2, f3⟩ := countLoop_st (n := n) (Nat.le_of_eq hp.lenInCell) nb op.order _ _ _ hI0 hcnt
  simp only at hI f1 f2 f3
  have hp1 : PartInv n { op with binsToCheck := btc } := hp.of_btc btc
  have ha1 : AgeInv { op with binsToCheck := btc } := AgeInv.of_frame ha rfl rfl
  have hcc : ∀ j, j < op.binDividers.len → CellCount { op with binsToCheck := btc } ts2 mc2 nm2 j := by
    intro j hj
    exact cellCount_of_countInv hp1 hI (by rw [f2.1, m1]; exact hj)
  -- the invariant at the start of the loop over the bins
  have hc0 : ColInv n ts2 { op with binsToCheck := btc } op.binDividers.len { op with binsToCheck := btc } := by
    have hlt : ∀ v, v < n → cellOf { op with binsToCheck := btc } v < op.binDividers.len :=
      fun v hv => tr_cellOf_lt hp1 hv
    refine ⟨?_, ?_, ?_, ⟨p3, p4, fun x hx => hb.range x ((p5 x).1 hx).1⟩⟩
    · intro u v hu hv
      have := hlt u hu
      constructor
      · intro h'; exact Or.inl h'
      · rintro (h' | ⟨_, h', _⟩)
        · exact h'
        · omega
    · intro v hv
      have := hlt v hv
      exact ⟨fun _ => rfl, fun h' => by omega⟩
    · intro v hv
      have := hlt v hv
      constructor
      · intro h'; exact Or.inl ⟨this, h'⟩
      · rintro (⟨_, h'⟩ | ⟨h', _⟩)
        · exact h'
        · omega
  obtain ⟨hfin, hsr⟩ := splitLoop_col hst (op0 := { op with binsToCheck := btc }) hp1 ha1 hcc hc0 hfd
  obtain ⟨e1, _, _, _, _, _⟩ := hsr
  simp only at e1
  have hcell : ∀ v, cellOf { op with binsToCheck := btc } v = cellOf op v := fun _ => rfl
  refine ⟨i.toNat, hil, by rw [hiN]; exact p1, by rw [hiN]; exact p2, ?_, ?_, hfin.btc,
    by rw [e1]; exact t2, by rw [e1]; exact t1, hscr'⟩
  · intro u v hu hv
    have := hfin.ord u v hu hv
    rw [hcell, hcell, hT u hu, hT v hv] at this
    rw [this]
    constructor
    · rintro (h' | ⟨h1', _, h3'⟩)
      · exact Or.inl h'
      · exact Or.inr ⟨h1', h3'⟩
    · rintro (h' | ⟨h1', h3'⟩)
      · exact Or.inl h'
      · exact Or.inr ⟨h1', Nat.zero_le _, h3'⟩
  · intro v hv
    have hw := hfin.work v hv
    rw [hcell] at hw
    rw [hw]
    have hmem : (((cellOf op v : Nat) : Int) ∈ btc.toList ↔
        (((cellOf op v : Nat) : Int) ∈ op.binsToCheck.toList ∧ cellOf op v ≠ i.toNat)) := by
      rw [p5]
      constructor
      · rintro ⟨h1', h2'⟩; exact ⟨h1', fun e => h2' (by rw [e, hiN])⟩
      · rintro ⟨h1', h2'⟩; exact ⟨h1', fun e => h2' (by omega)⟩
    have hmin : (∀ u, u < n → cellOf op u = cellOf op v → rfTv ts2 v ≤ rfTv ts2 u) ↔
        (∀ u, u < n → cellOf op u = cellOf op v → cntIn nb op i.toNat v ≤ cntIn nb op i.toNat u) := by
      constructor
      · intro h' u hu hcu; have := h' u hu hcu; rw [hT v hv, hT u hu] at this; exact this
      · intro h' u hu hcu; rw [hT v hv, hT u hu]; exact h' u hu hcu
    have htwo : (∃ u, u < n ∧ cellOf op u = cellOf op v ∧ rfTv ts2 u ≠ rfTv ts2 v) ↔
        (∃ u, u < n ∧ cellOf op u = cellOf op v ∧ cntIn nb op i.toNat u ≠ cntIn nb op i.toNat v) := by
      constructor
      · rintro ⟨u, hu, hcu, hne⟩; exact ⟨u, hu, hcu, by rw [← hT v hv, ← hT u hu]; exact hne⟩
      · rintro ⟨u, hu, hcu, hne⟩; exact ⟨u, hu, hcu, by rw [hT v hv, hT u hu]; exact hne⟩
    constructor
    · rintro (⟨h', _⟩ | ⟨_, ⟨h1', h2'⟩ | h3'⟩)
      · omega
      · have hm : ((cellOf op v : Nat) : Int) ∈ btc.toList := h1'
        have hm2 : ∀ u, u < n → cellOf op u = cellOf op v → rfTv ts2 v ≤ rfTv ts2 u := h2'
        obtain ⟨m1', m2'⟩ := hmem.1 hm
        exact Or.inl ⟨m1', m2', hmin.1 hm2⟩
      · have h3'' : ∃ u, u < n ∧ cellOf op u = cellOf op v ∧ rfTv ts2 u ≠ rfTv ts2 v := h3'
        exact Or.inr (htwo.1 h3'')
    · rintro (⟨h1', h2', h3'⟩ | h4')
      · exact Or.inr ⟨Nat.zero_le _, Or.inl ⟨hmem.2 ⟨h1', h2'⟩, hmin.2 h3'⟩⟩
      · exact Or.inr ⟨Nat.zero_le _, Or.inr (htwo.2 h4')⟩

end CanonF
