import Mathlib.Data.List.Chain
import Mathlib.Data.List.Nodup
import Mamba.Model.IterPerm
import Mamba.Lemmas.IterBase
import Mamba.Lemmas.IterChain
import Mamba.Lemmas.IterGeneric

namespace Iter.Spec

/-- the identity arrangement `[0, 1, …, m-1]` -/
def idList (m : Nat) : List Int := (List.range m).map (fun (i : Nat) => (i : Int))

/-- `inverse σ`: the list whose entry at `e` is the position of `e` in `σ` -/
def inverse (σ : List Int) : List Int :=
  (List.range σ.length).map (fun (e : Nat) => ((σ.idxOf (e : Int) : Nat) : Int))

/-- `slide less k rpre suf`: the arrangements `a ++ k :: b ++ suf` with `a ++ b = rpre.reverse`, starting with
`b = []` and moving `k` one step to the left as long as its left neighbour `l` does not satisfy `less l k`. -/
def slide (less : Int → Int → Bool) (k : Int) : List Int → List Int → List (List Int)
  | [], suf => [k :: suf]
  | l :: rpre, suf =>
    ((l :: rpre).reverse ++ k :: suf) :: (if less l k then [] else slide less k rpre (l :: suf))

/-- the topological sorts of `0..n-1` in the order of Algorithm V -/
def topoList (less : Int → Int → Bool) : Nat → List (List Int)
  | 0 => [[]]
  | k+1 => (topoList less k).flatMap (fun σ => slide less (k : Int) σ.reverse [])

/-- the successor of an arrangement of `0..n-1` in Algorithm V -/
def topoSucc (less : Int → Int → Bool) : Nat → List Int → Option (List Int)
  | 0, _ => none
  | k+1, x =>
    let a := x.take (x.idxOf (k : Int))
    let b := x.drop (x.idxOf (k : Int) + 1)
    match a.getLast? with
    | some l =>
      if less l k then (topoSucc less k (a ++ b)).map (· ++ [(k : Int)])
      else some (a.dropLast ++ (k : Int) :: l :: b)
    | none => (topoSucc less k (a ++ b)).map (· ++ [(k : Int)])

end Iter.Spec

namespace Iter
open Spec

/-! ### chains of a `flatMap` -/

theorem isChain_flatMap' {α β : Type} (R : α → α → Prop) (S : β → β → Prop) (B : α → List β) :
    ∀ L : List α, L.IsChain R → (∀ a ∈ L, (B a).IsChain S) → (∀ a ∈ L, B a ≠ []) →
      (∀ a ∈ L, ∀ a' ∈ L, R a a' → ∀ x ∈ (B a).getLast?, ∀ y ∈ (B a').head?, S x y) →
      (L.flatMap B).IsChain S ∧ (L.flatMap B).head? = L.head?.bind (fun a => (B a).head?) ∧
        (L.flatMap B).getLast? = L.getLast?.bind (fun a => (B a).getLast?) := by
  intro L
  induction L with
  | nil => intro _ _ _ _; simp
  | cons a L ih =>
    intro hc hB hne hl
    have hBa := hne a (by simp)
    cases L with
    | nil => simp [hB a (by simp)]
    | cons a' L' =>
      rw [List.isChain_cons_cons] at hc
      obtain ⟨ih1, ih2, ih3⟩ := ih hc.2 (fun b hb => hB b (by simp [hb])) (fun b hb => hne b (by simp [hb]))
        (fun b hb b' hb' => hl b (by simp [hb]) b' (by simp [hb']))
      have hne' : (a' :: L').flatMap B ≠ [] := by
        intro h
        rw [List.flatMap_eq_nil_iff] at h
        exact hne a' (by simp) (h a' (by simp))
      rw [List.flatMap_cons]
      refine ⟨?_, ?_, ?_⟩
      · apply List.IsChain.append (hB a (by simp)) ih1
        intro x hx y hy
        rw [ih2] at hy
        exact hl a (by simp) a' (by simp) hc.1 x hx y (by simpa using hy)
      · rw [List.head?_append_of_ne_nil _ hBa]; simp
      · rw [List.getLast?_append_of_ne_nil _ hne', ih3]; simp [List.getLast?_cons_cons]

/-! ### the split form of `topoSucc` -/

theorem topoSucc_split (less : Int → Int → Bool) (k : Nat) (a b : List Int) (h : (k : Int) ∉ a) :
    topoSucc less (k + 1) (a ++ (k : Int) :: b) =
      match a.getLast? with
      | some l =>
        if less l k then (topoSucc less k (a ++ b)).map (· ++ [(k : Int)])
        else some (a.dropLast ++ (k : Int) :: l :: b)
      | none => (topoSucc less k (a ++ b)).map (· ++ [(k : Int)]) := by
  have hi : (a ++ (k : Int) :: b).idxOf (k : Int) = a.length := by
    rw [List.idxOf_append_of_notMem h]; simp
  simp only [topoSucc, hi]
  simp

theorem slide_head (less : Int → Int → Bool) (k : Int) (rpre suf : List Int) :
    (slide less k rpre suf).head? = some (rpre.reverse ++ k :: suf) := by
  cases rpre <;> simp [slide]

theorem slide_ne_nil (less : Int → Int → Bool) (k : Int) (rpre suf : List Int) :
    slide less k rpre suf ≠ [] := by
  cases rpre <;> simp [slide]

theorem mem_slide (less : Int → Int → Bool) (k : Int) : ∀ (rpre suf x : List Int),
    x ∈ slide less k rpre suf ↔
      ∃ a b, rpre.reverse = a ++ b ∧ x = a ++ k :: b ++ suf ∧ ∀ l ∈ b, less l k = false := by
  intro rpre
  induction rpre with
  | nil =>
    intro suf x
    simp only [slide, List.mem_singleton, List.reverse_nil, List.nil_eq, List.append_eq_nil_iff]
    constructor
    · rintro rfl; exact ⟨[], [], ⟨rfl, rfl⟩, rfl, by simp⟩
    · rintro ⟨a, b, ⟨rfl, rfl⟩, rfl, _⟩; rfl
  | cons l rpre ih =>
    intro suf x
    simp only [slide, List.mem_cons]
    constructor
    · rintro (rfl | hx)
      · exact ⟨(l :: rpre).reverse, [], by simp, by simp, by simp⟩
      · by_cases hl : less l k = true
        · simp [hl] at hx
        · simp only [hl, Bool.false_eq_true, if_false] at hx
          obtain ⟨a, b, h1, h2, h3⟩ := (ih _ _).mp hx
          refine ⟨a, b ++ [l], by simp [h1], by simp [h2], ?_⟩
          intro e he
          rcases List.mem_append.mp he with he | he
          · exact h3 e he
          · simp at he; subst he; simpa using hl
    · rintro ⟨a, b, h1, h2, h3⟩
      rcases List.eq_nil_or_concat b with rfl | ⟨b', e, rfl⟩
      · left; simp at h1; simp [h2, ← h1]
      · right
        rw [List.concat_eq_append] at h1 h2 h3
        simp only [List.reverse_cons, ← List.append_assoc] at h1
        obtain ⟨h1a, h1b⟩ := List.append_inj' h1 rfl
        simp only [List.cons.injEq, and_true] at h1b
        subst h1b
        have hl : less l k = false := h3 l (by simp)
        simp only [hl, Bool.false_eq_true, if_false]
        exact (ih _ _).mpr ⟨a, b', h1a, by simp [h2], fun e he => h3 e (by simp [he])⟩

theorem slide_chain (less : Int → Int → Bool) (k : Nat) : ∀ (rpre suf : List Int), (k : Int) ∉ rpre →
    (slide less (k : Int) rpre suf).IsChain (fun x y => topoSucc less (k + 1) x = some y) := by
  intro rpre
  induction rpre with
  | nil => intro suf _; simp [slide]
  | cons l rpre ih =>
    intro suf hk
    simp only [List.mem_cons, not_or] at hk
    simp only [slide]
    by_cases hl : less l k = true
    · simp [hl]
    · simp only [hl, Bool.false_eq_true, if_false]
      apply List.IsChain.cons (ih _ hk.2)
      intro y hy
      rw [slide_head] at hy
      simp only [Option.mem_def, Option.some.injEq] at hy
      subst hy
      have := topoSucc_split less k (rpre.reverse ++ [l]) suf (by simp [hk.2, hk.1])
      simp only [List.reverse_cons]
      rw [this]
      simp [hl]

theorem slide_last (less : Int → Int → Bool) (k : Nat) : ∀ (rpre suf : List Int), (k : Int) ∉ rpre →
    ∀ z ∈ (slide less (k : Int) rpre suf).getLast?,
      topoSucc less (k + 1) z = (topoSucc less k (rpre.reverse ++ suf)).map (· ++ [(k : Int)]) := by
  intro rpre
  induction rpre with
  | nil =>
    intro suf _ z hz
    simp only [slide, List.getLast?_singleton, Option.mem_def, Option.some.injEq] at hz
    subst hz
    have := topoSucc_split less k [] suf (by simp)
    simpa using this
  | cons l rpre ih =>
    intro suf hk z hz
    simp only [List.mem_cons, not_or] at hk
    simp only [slide] at hz
    by_cases hl : less l k = true
    · simp only [hl, if_true, List.getLast?_singleton, Option.mem_def, Option.some.injEq] at hz
      subst hz
      have := topoSucc_split less k (rpre.reverse ++ [l]) suf (by simp [hk.2, hk.1])
      simp only [List.reverse_cons]
      rw [this]
      simp [hl]
    · simp only [hl, Bool.false_eq_true, if_false] at hz
      rw [List.getLast?_cons_of_ne_nil (slide_ne_nil _ _ _ _)] at hz
      have := ih (l :: suf) hk.2 z hz
      rw [this]
      simp

theorem idList_succ (k : Nat) : idList (k + 1) = idList k ++ [(k : Int)] := by
  simp [idList, List.range_succ]

theorem mem_idList (k : Nat) (e : Int) : e ∈ idList k ↔ 0 ≤ e ∧ e < k := by
  simp only [idList, List.mem_map, List.mem_range]
  constructor
  · rintro ⟨i, hi, rfl⟩; omega
  · rintro ⟨h0, h1⟩; exact ⟨e.toNat, by omega, by omega⟩

theorem length_idList (k : Nat) : (idList k).length = k := by simp [idList]

theorem topoList_perm (less : Int → Int → Bool) : ∀ (k : Nat) (σ : List Int),
    σ ∈ topoList less k → σ.Perm (idList k) := by
  intro k
  induction k with
  | zero => intro σ h; simp [topoList] at h; subst h; simp [idList]
  | succ k ih =>
    intro σ h
    simp only [topoList, List.mem_flatMap] at h
    obtain ⟨τ, hτ, hσ⟩ := h
    obtain ⟨a, b, h1, h2, _⟩ := (mem_slide _ _ _ _ _).mp hσ
    simp only [List.reverse_reverse] at h1
    subst h1 h2
    rw [idList_succ, List.append_nil]
    refine List.perm_middle.trans ?_
    refine (List.Perm.cons _ (ih _ hτ)).trans ?_
    exact (List.perm_append_singleton _ _).symm

theorem notMem_of_perm_idList {k : Nat} {σ : List Int} (h : σ.Perm (idList k)) : (k : Int) ∉ σ := by
  intro hk
  have := (mem_idList k k).mp (h.subset hk)
  omega

/-- the chain property of `topoList` w.r.t. `topoSucc`, with first and last elements -/
theorem topoList_chain (less : Int → Int → Bool) : ∀ n : Nat,
    (topoList less n).IsChain (fun x y => topoSucc less n x = some y) ∧
    (topoList less n).head? = some (idList n) ∧
    ∃ l, (topoList less n).getLast? = some l ∧ topoSucc less n l = none := by
  intro n
  induction n with
  | zero => simp [topoList, topoSucc, idList]
  | succ k ih =>
    obtain ⟨ihc, ihh, l, ihl, ihn⟩ := ih
    have hk : ∀ σ ∈ topoList less k, (k : Int) ∉ σ.reverse := by
      intro σ hσ
      rw [List.mem_reverse]
      exact notMem_of_perm_idList (topoList_perm less k σ hσ)
    have key := isChain_flatMap' (fun x y => topoSucc less k x = some y)
      (fun x y => topoSucc less (k + 1) x = some y)
      (fun σ => slide less (k : Int) σ.reverse []) (topoList less k) ihc
      (fun σ hσ => slide_chain less k _ _ (hk σ hσ))
      (fun σ _ => slide_ne_nil _ _ _ _)
      (by
        intro σ hσ σ' _ hs x hx y hy
        rw [slide_head] at hy
        simp only [Option.mem_def, Option.some.injEq] at hy
        subst hy
        rw [slide_last less k _ _ (hk σ hσ) x hx]
        simp [hs])
    obtain ⟨k1, k2, k3⟩ := key
    refine ⟨k1, ?_, ?_⟩
    · show ((topoList less k).flatMap _).head? = _
      rw [k2, ihh]
      simp [slide_head, idList_succ]
    · have hlm : l ∈ topoList less k := List.mem_of_getLast? ihl
      have hne := slide_ne_nil less (k : Int) l.reverse []
      obtain ⟨z, hz⟩ : ∃ z, (slide less (k : Int) l.reverse []).getLast? = some z := by
        cases h : (slide less (k : Int) l.reverse []).getLast? with
        | none => exact absurd (List.getLast?_eq_none_iff.mp h) hne
        | some z => exact ⟨z, rfl⟩
      refine ⟨z, ?_, ?_⟩
      · show ((topoList less k).flatMap _).getLast? = _
        rw [k3, ihl]; simpa using hz
      · rw [slide_last less k _ _ (hk l hlm) z hz]
        simp [ihn]

theorem get_ok_iff (a : Sl) (i w : Int) : get a i = .ok w ↔ 0 ≤ i ∧ a[i.toNat]? = some w := by
  unfold get
  by_cases h : i < 0
  · simp [h]
  · simp only [h, if_false]
    cases a[i.toNat]? with
    | none => simp
    | some v => simp; omega

/-- a successful `get` guarantees a successful `set`; pointwise description of the result -/
theorem set_spec (a : Sl) (i v w : Int) (h : get a i = .ok w) :
    ∃ a', set a i v = .ok a' ∧ a'.length = a.length ∧
      ∀ e, get a' e = if e = i then .ok v else get a e := by
  obtain ⟨h0, h1⟩ := (get_ok_iff a i w).mp h
  have hlt : i.toNat < a.length := (List.getElem?_eq_some_iff.mp h1).1
  refine ⟨a.set i.toNat v, ?_, by simp, ?_⟩
  · unfold set
    have : ¬ i < 0 := by omega
    simp [this, hlt]
  · intro e
    unfold get
    by_cases he : e < 0
    · have : e ≠ i := by omega
      simp [he, this]
    · simp only [he, if_false]
      by_cases hei : e = i
      · subst hei; simp [hlt]
      · have : i.toNat ≠ e.toNat := by omega
        simp [hei, List.getElem?_set_ne this]

theorem shift_spec (k : Nat) : ∀ (b P R : List Int) (y : Int) (inv : Sl) (fuel : Nat),
    P.length + b.length = k → b.length < fuel → b.Nodup → (∀ e ∈ b, ∃ w, get inv e = .ok w) →
    ∃ y' inv', Topo.shift (k : Int) fuel (P.length : Int) (P ++ y :: b ++ R) inv = .ok (P ++ b ++ y' :: R, inv') ∧
      inv'.length = inv.length ∧
      ∀ e, get inv' e = if e ∈ b then .ok (((P.length + b.idxOf e : Nat)) : Int) else get inv e := by
  intro b
  induction b with
  | nil =>
    intro P R y inv fuel hk hf _ _
    obtain ⟨f, rfl⟩ : ∃ f, fuel = f + 1 := ⟨fuel - 1, by simp at hf; omega⟩
    simp only [List.length_nil, Nat.add_zero] at hk
    refine ⟨y, inv, ?_, rfl, by simp⟩
    simp [Topo.shift, hk]
  | cons l b ih =>
    intro P R y inv fuel hk hf hnd hok
    obtain ⟨f, rfl⟩ : ∃ f, fuel = f + 1 := ⟨fuel - 1, by simp at hf; omega⟩
    simp only [List.length_cons] at hk hf
    rw [List.nodup_cons] at hnd
    have hjk : (P.length : Int) < (k : Int) := by omega
    have g1 : get (P ++ y :: (l :: b) ++ R) ((P.length : Int) + 1) = .ok l := by
      have := get_append_length (P ++ [y]) (b ++ R) l
      simpa using this
    have s1 : set (P ++ y :: (l :: b) ++ R) (P.length : Int) l = .ok (P ++ l :: (l :: b) ++ R) := by
      simp
    obtain ⟨wl, hwl⟩ := hok l (by simp)
    obtain ⟨inv1, s2, hlen1, hget1⟩ := set_spec inv l (P.length : Int) wl hwl
    have hok1 : ∀ e ∈ b, ∃ w, get inv1 e = .ok w := by
      intro e he
      rw [hget1]
      by_cases hel : e = l
      · simp [hel]
      · simpa [hel] using hok e (by simp [he])
    obtain ⟨y', inv', h1, h2, h3⟩ := ih (P ++ [l]) R l inv1 f (by simp; omega) (by omega) hnd.2 hok1
    refine ⟨y', inv', ?_, by omega, ?_⟩
    · unfold Topo.shift
      simp only [hjk, if_true, g1, s1, s2, Outcome.bind_ok]
      simp only [List.length_append, List.length_cons, List.length_nil, Nat.zero_add, Int.natCast_add,
        Int.natCast_one, List.append_assoc, List.cons_append, List.nil_append] at h1
      simp only [List.append_assoc, List.cons_append]
      exact h1
    · intro e
      rw [h3, hget1]
      by_cases hel : e = l
      · subst hel
        simp [hnd.1]
      · by_cases heb : e ∈ b
        · have : ¬ (l = e) := fun h => hel h.symm
          simp [heb, hel, this]; omega
        · simp [heb, hel]

/-- `inv` is the inverse of `st` (on the elements of `st`) -/
def GI (st inv : Sl) : Prop := ∀ e ∈ st, get inv e = .ok ((st.idxOf e : Nat) : Int)

/-- moving `k` back to its home position -/
theorem home_spec (k : Nat) (a b R : List Int) (inv : Sl) (hlen : a.length + b.length = k)
    (hnd : (a ++ (k : Int) :: b ++ R).Nodup) (hg : GI (a ++ (k : Int) :: b ++ R) inv) :
    ∃ y' inv1 inv2,
      Topo.shift (k : Int) (k + 2) (a.length : Int) (a ++ (k : Int) :: b ++ R) inv = .ok (a ++ b ++ y' :: R, inv1) ∧
      set (a ++ b ++ y' :: R) (k : Int) (k : Int) = .ok (a ++ b ++ (k : Int) :: R) ∧
      set inv1 (k : Int) (k : Int) = .ok inv2 ∧ inv2.length = inv.length ∧ GI (a ++ b ++ (k : Int) :: R) inv2 := by
  simp only [List.append_assoc, List.cons_append, List.nodup_append, List.nodup_cons, List.mem_append,
    List.mem_cons] at hnd
  obtain ⟨hnda, ⟨hkbR, hndb, hndR, hbR⟩, haall⟩ := hnd
  have hkb : (k : Int) ∉ b := fun h => hkbR (Or.inl h)
  have hkR : (k : Int) ∉ R := fun h => hkbR (Or.inr h)
  have hka : (k : Int) ∉ a := fun h => haall _ h _ (Or.inl rfl) rfl
  have hab : ∀ e ∈ a, e ∉ b := fun e he h => haall e he e (Or.inr (Or.inl h)) rfl
  have haR : ∀ e ∈ a, e ∉ R := fun e he h => haall e he e (Or.inr (Or.inr h)) rfl
  have hbR' : ∀ e ∈ b, e ∉ R := fun e he h => hbR e he e h rfl
  have hokb : ∀ e ∈ b, ∃ w, get inv e = .ok w := fun e he => ⟨_, hg e (by simp [he])⟩
  obtain ⟨y', inv1, h1, h2, h3⟩ := shift_spec k b a R (k : Int) inv (k + 2) hlen (by omega) hndb hokb
  have hk1 : get inv1 (k : Int) = .ok (a.length : Int) := by
    rw [h3, if_neg hkb, hg (k : Int) (by simp)]
    simp [List.idxOf_append, hka]
  obtain ⟨inv2, h4, h5, h6⟩ := set_spec inv1 (k : Int) (k : Int) _ hk1
  refine ⟨y', inv1, inv2, h1, ?_, h4, by omega, ?_⟩
  · have := set_append_length (a ++ b) R y' (k : Int)
    simpa [hlen] using this
  · intro e he
    rw [h6, h3]
    simp only [List.mem_append, List.mem_cons] at he
    by_cases hek : e = (k : Int)
    · subst hek
      simp [List.idxOf_append, hka, hkb]; omega
    · have hke : ¬ ((k : Int) = e) := fun h => hek h.symm
      by_cases hea : e ∈ a
      · have := hab e hea
        rw [hg e (by simp [hea])]
        simp [List.idxOf_append, hea, hek, this]
      · by_cases heb : e ∈ b
        · simp [List.idxOf_append, hea, hek, heb]; omega
        · have heR : e ∈ R := by
            rcases he with (h | h) | h | h
            · exact absurd h hea
            · exact absurd h heb
            · exact absurd h hek
            · exact h
          rw [hg e (by simp [heR])]
          simp [List.idxOf_append, hea, hek, heb, hke]; omega

/-- moving `k` one step to the left -/
theorem swap_spec (k l : Int) (a' b R : List Int) (inv : Sl) (J : Int) (hJ : J = (a'.length : Int) + 1)
    (hnd : (a' ++ l :: k :: b ++ R).Nodup) (hg : GI (a' ++ l :: k :: b ++ R) inv) :
    ∃ inv1 inv2,
      get (a' ++ l :: k :: b ++ R) (J - 1) = .ok l ∧
      set (a' ++ l :: k :: b ++ R) (J - 1) k = .ok (a' ++ k :: k :: b ++ R) ∧
      set (a' ++ k :: k :: b ++ R) J l = .ok (a' ++ k :: l :: b ++ R) ∧
      set inv k (J - 1) = .ok inv1 ∧ set inv1 l J = .ok inv2 ∧ inv2.length = inv.length ∧
      GI (a' ++ k :: l :: b ++ R) inv2 := by
  subst hJ
  simp only [Int.add_sub_cancel]
  simp only [List.append_assoc, List.cons_append, List.nodup_append, List.nodup_cons, List.mem_append,
    List.mem_cons] at hnd
  obtain ⟨hnda, ⟨hl, hk, _⟩, haall⟩ := hnd
  have hlk : l ≠ k := fun h => hl (Or.inl h)
  have hkl : k ≠ l := fun h => hlk h.symm
  have hla : l ∉ a' := fun h => haall _ h _ (Or.inl rfl) rfl
  have hka : k ∉ a' := fun h => haall _ h _ (Or.inr (Or.inl rfl)) rfl
  obtain ⟨inv1, h1, h2, h3⟩ := set_spec inv k (a'.length : Int) _ (hg k (by simp))
  have hl1 : get inv1 l = .ok (a'.length : Int) := by
    rw [h3, if_neg hlk, hg l (by simp)]
    simp [List.idxOf_append, hla]
  obtain ⟨inv2, h4, h5, h6⟩ := set_spec inv1 l ((a'.length : Int) + 1) _ hl1
  refine ⟨inv1, inv2, by simp, by simp, ?_, h1, h4, by omega, ?_⟩
  · have := set_append_length (a' ++ [k]) (b ++ R) k l
    simpa using this
  · intro e he
    rw [h6, h3]
    by_cases hel : e = l
    · subst hel
      simp [List.idxOf_append, hla, hkl]; omega
    · by_cases hek : e = k
      · subst hek
        simp [List.idxOf_append, hka, hel]
      · have hle : ¬ (l = e) := fun h => hel h.symm
        have hke : ¬ (k = e) := fun h => hek h.symm
        have he' : e ∈ a' ++ l :: k :: b ++ R := by
          simp only [List.mem_append, List.mem_cons] at he ⊢
          tauto
        rw [if_neg hel, if_neg hek, hg e he']
        simp [List.idxOf_append, hle, hke]

/-- the scan of `Next` computes `topoSucc` on the first `k` positions (the others are at home) -/
theorem topo_scan_spec (less : Int → Int → Bool) : ∀ (k : Nat) (x R : List Int) (inv : Sl),
    x.Perm (idList k) → (x ++ R).Nodup → GI (x ++ R) inv →
    ∃ inv', inv'.length = inv.length ∧
      ((∃ y, topoSucc less k x = some y ∧ Topo.scan less k (x ++ R) inv = .ok (y ++ R, inv', true) ∧
          y.Perm (idList k) ∧ GI (y ++ R) inv') ∨
       (topoSucc less k x = none ∧ Topo.scan less k (x ++ R) inv = .ok (idList k ++ R, inv', false) ∧
          GI (idList k ++ R) inv')) := by
  intro k
  induction k with
  | zero =>
    intro x R inv hp hnd hg
    have hx : x = [] := by simpa [idList] using hp
    subst hx
    exact ⟨inv, rfl, Or.inr ⟨by simp [topoSucc], by simp [Topo.scan, idList], by simpa [idList] using hg⟩⟩
  | succ k ih =>
    intro x R inv hp hnd hg
    have hkx : (k : Int) ∈ x := hp.symm.subset (by simp [idList_succ])
    obtain ⟨a, b, rfl⟩ := List.append_of_mem hkx
    have hlen : a.length + b.length = k := by
      have := hp.length_eq
      simp [length_idList] at this; omega
    have hp' : (a ++ b).Perm (idList k) := by
      rw [idList_succ] at hp
      exact ((List.perm_middle.symm.trans hp).trans (List.perm_append_singleton _ _)).cons_inv
    have hka : (k : Int) ∉ a := by
      intro h
      have := notMem_of_perm_idList hp'
      exact this (by simp [h])
    have hsplit := topoSucc_split less k a b hka
    have e0 : a ++ (k : Int) :: b ++ R = a ++ (k : Int) :: (b ++ R) := by simp
    have hnd0 : (a ++ (k : Int) :: b ++ R).Nodup := hnd
    have hj : get inv (k : Int) = .ok (a.length : Int) := by
      rw [hg (k : Int) (by simp)]
      simp [List.idxOf_append, hka]
    -- the `home` branch
    have home : topoSucc less (k + 1) (a ++ (k : Int) :: b) = (topoSucc less k (a ++ b)).map (· ++ [(k : Int)]) →
        (do
          let __x ← Topo.shift (k : Int) (k + 2) (a.length : Int) (a ++ (k : Int) :: b ++ R) inv
          let st ← set __x.fst (k : Int) (k : Int)
          let inv ← set __x.snd (k : Int) (k : Int)
          Topo.scan less k st inv) = Topo.scan less (k + 1) (a ++ (k : Int) :: b ++ R) inv →
        ∃ inv', inv'.length = inv.length ∧
      ((∃ y, topoSucc less (k + 1) (a ++ (k : Int) :: b) = some y ∧
          Topo.scan less (k + 1) (a ++ (k : Int) :: b ++ R) inv = .ok (y ++ R, inv', true) ∧
          y.Perm (idList (k + 1)) ∧ GI (y ++ R) inv') ∨
       (topoSucc less (k + 1) (a ++ (k : Int) :: b) = none ∧
          Topo.scan less (k + 1) (a ++ (k : Int) :: b ++ R) inv = .ok (idList (k + 1) ++ R, inv', false) ∧
          GI (idList (k + 1) ++ R) inv')) := by
      intro hs hscan
      obtain ⟨y', inv1, inv2, h1, h2, h3, h4, h5⟩ := home_spec k a b R inv hlen hnd0 hg
      rw [h1] at hscan
      simp only [Outcome.bind_ok, h2, h3] at hscan
      have hnd2 : (a ++ b ++ (k : Int) :: R).Nodup := by
        refine (List.Perm.nodup_iff ?_).mp hnd0
        have p1 : (a ++ (k : Int) :: (b ++ R)).Perm ((k : Int) :: (a ++ (b ++ R))) := List.perm_middle
        have p2 : ((a ++ b) ++ (k : Int) :: R).Perm ((k : Int) :: ((a ++ b) ++ R)) := List.perm_middle
        simp only [List.append_assoc, List.cons_append] at p1 p2 ⊢
        exact p1.trans p2.symm
      obtain ⟨inv', hl', hcase⟩ := ih (a ++ b) ((k : Int) :: R) inv2 hp' hnd2 h5
      refine ⟨inv', by omega, ?_⟩
      rw [← hscan, hs]
      rcases hcase with ⟨y, c1, c2, c3, c4⟩ | ⟨c1, c2, c3⟩
      · left
        refine ⟨y ++ [(k : Int)], by simp [c1], by simpa using c2, ?_, by simpa using c4⟩
        rw [idList_succ]
        exact List.Perm.append_right _ c3
      · right
        exact ⟨by simp [c1], by simpa [idList_succ] using c2, by simpa [idList_succ] using c3⟩
    rcases List.eq_nil_or_concat a with rfl | ⟨a', l, rfl⟩
    · apply home (by simpa using hsplit)
      conv => rhs; unfold Topo.scan
      simp only [hj, Outcome.bind_ok]
      simp
    · rw [List.concat_eq_append] at *
      have est : a' ++ [l] ++ (k : Int) :: b ++ R = a' ++ l :: (k : Int) :: b ++ R := by simp
      have hJ : (((a' ++ [l]).length : Nat) : Int) = (a'.length : Int) + 1 := by simp
      have hJ0 : (((a' ++ [l]).length : Nat) : Int) > 0 := by omega
      obtain ⟨inv1, inv2, w1, w2, w3, w4, w5, w6, w7⟩ := swap_spec (k : Int) l a' b R inv _ hJ
        (by rw [← est]; exact hnd0) (by rw [← est]; exact hg)
      rw [← est] at w1 w2
      by_cases hl : less l (k : Int) = true
      · apply home (by simpa [hl] using hsplit)
        conv => rhs; unfold Topo.scan
        simp only [hj, Outcome.bind_ok, hJ0, if_true, w1, hl]
        simp
      · have hl' : less l (k : Int) = false := by simpa using hl
        refine ⟨inv2, w6, Or.inl ⟨a' ++ (k : Int) :: l :: b, by simpa [hl'] using hsplit, ?_, ?_, ?_⟩⟩
        · unfold Topo.scan
          simp only [hj, Outcome.bind_ok, hJ0, if_true, w1, hl', w2, w3, w4, w5]
          simp
        · refine List.Perm.trans ?_ hp
          simp only [List.append_assoc, List.cons_append, List.nil_append]
          exact List.Perm.append_left _ (List.Perm.swap _ _ _)
        · simpa using w7

theorem nodup_idList (n : Nat) : (idList n).Nodup := by
  unfold idList
  exact List.Nodup.map (fun a b h => by have h' : (a : Int) = (b : Int) := h; omega) List.nodup_range

theorem getElem_idList (n i : Nat) (h : i < (idList n).length) : (idList n)[i] = (i : Int) := by
  simp [idList]

theorem idxOf_idList (n i : Nat) (h : i < n) : (idList n).idxOf (i : Int) = i := by
  have h' : i < (idList n).length := by simpa [length_idList] using h
  have := (nodup_idList n).idxOf_getElem i h'
  rwa [getElem_idList] at this

theorem inverse_idList (n : Nat) : inverse (idList n) = idList n := by
  unfold inverse
  rw [length_idList]
  unfold idList
  apply List.map_congr_left
  intro i hi
  rw [List.mem_range] at hi
  have := idxOf_idList n i hi
  unfold idList at this
  rw [this]

theorem GI_inverse {n : Nat} {x : List Int} (hp : x.Perm (idList n)) : GI x (inverse x) := by
  intro e he
  obtain ⟨h0, h1⟩ := (mem_idList n e).mp (hp.subset he)
  obtain ⟨m, rfl⟩ : ∃ m : Nat, e = (m : Int) := ⟨e.toNat, by omega⟩
  have hlen : x.length = n := by simpa [length_idList] using hp.length_eq
  have hm : m < n := by omega
  rw [get_natCast]
  simp [inverse, hlen, hm]

theorem inverse_eq_of_GI {n : Nat} {x : List Int} {inv : Sl} (hp : x.Perm (idList n)) (hg : GI x inv)
    (hl : inv.length = n) : inv = inverse x := by
  have hlen : x.length = n := by simpa [length_idList] using hp.length_eq
  apply List.ext_getElem
  · simp [inverse, hl, hlen]
  · intro i h1 h2
    have hi : i < n := by omega
    have hmem : (i : Int) ∈ x := hp.symm.subset ((mem_idList n i).mpr ⟨by omega, by omega⟩)
    have := hg (i : Int) hmem
    rw [get_natCast] at this
    simp only [h1, dite_true, Outcome.ok.injEq] at this
    simp [inverse, this]

theorem Topo.init_eq (n : Int) (hn : 0 ≤ n) :
    Topo.init n = .ok ⟨idList n.toNat, idList n.toNat, n, true, false⟩ := by
  unfold Topo.init iota
  have : ¬ n < 0 := by omega
  simp only [this, if_false, Outcome.bind_ok, Outcome.pure_eq]
  rfl

/-- state invariant: the iterator shows the arrangement `v.1` with its inverse `v.2` -/
def Topo.Rep (n : Int) (s : Topo) (v : Sl × Sl) : Prop :=
  s.n = n ∧ s.state = v.1 ∧ s.inv = v.2 ∧ s.first = false ∧ s.done = false ∧
    v.1.Perm (idList n.toNat) ∧ v.2 = inverse v.1

/-- exhausted states -/
def Topo.Dead (s : Topo) : Prop := s.first = false ∧ s.done = true

theorem Topo.next_dead (less : Int → Int → Bool) (s : Topo) (h : Topo.Dead s) :
    ∃ s', Topo.next less s = .ok (s', false) ∧ Topo.Dead s' := by
  refine ⟨s, ?_, h⟩
  simp [Topo.next, h.1, h.2]

/-- refinement: on a state showing `v.1`, `Next` computes `topoSucc` (and the inverse) -/
theorem Topo.next_step (less : Int → Int → Bool) (n : Int) (v : Sl × Sl) (y : List Int)
    (hy : topoSucc less n.toNat v.1 = some y) (s : Topo) (h : Topo.Rep n s v) :
    ∃ s', Topo.next less s = .ok (s', true) ∧ Topo.Rep n s' (y, inverse y) := by
  obtain ⟨hn, hs, hi, hf, hd, hp, hv⟩ := h
  have hlen : v.1.length = n.toNat := by simpa [length_idList] using hp.length_eq
  obtain ⟨inv', hl', hcase⟩ := topo_scan_spec less n.toNat v.1 [] v.2 hp
    (by simpa using hp.nodup_iff.mpr (nodup_idList _)) (by rw [hv]; simpa using GI_inverse hp)
  rcases hcase with ⟨y', c1, c2, c3, c4⟩ | ⟨c1, _, _⟩
  · rw [hy] at c1
    simp only [Option.some.injEq] at c1
    subst c1
    simp only [List.append_nil] at c2 c4
    have hinv : inv' = inverse y := inverse_eq_of_GI c3 c4 (by rw [hl', hv]; simp [inverse, hlen])
    refine ⟨{ s with state := y, inv := inv' }, ?_, hn, rfl, hinv, hf, hd, c3, rfl⟩
    unfold Topo.next
    simp [hf, hd, hn, hs, hi, c2]
  · rw [hy] at c1; simp at c1

/-- from the last arrangement `Next` returns false and sets `done` -/
theorem Topo.next_last (less : Int → Int → Bool) (n : Int) (v : Sl × Sl)
    (hy : topoSucc less n.toNat v.1 = none) (s : Topo) (h : Topo.Rep n s v) :
    ∃ s', Topo.next less s = .ok (s', false) ∧ Topo.Dead s' := by
  obtain ⟨hn, hs, hi, hf, hd, hp, hv⟩ := h
  obtain ⟨inv', hl', hcase⟩ := topo_scan_spec less n.toNat v.1 [] v.2 hp
    (by simpa using hp.nodup_iff.mpr (nodup_idList _)) (by rw [hv]; simpa using GI_inverse hp)
  rcases hcase with ⟨y', c1, _⟩ | ⟨_, c2, _⟩
  · rw [hy] at c1; simp at c1
  · simp only [List.append_nil] at c2
    refine ⟨{ s with state := idList n.toNat, inv := inv', done := true }, ?_, hf, rfl⟩
    unfold Topo.next
    simp [hf, hd, hn, hs, hi, c2]

theorem topoList_ne_nil (less : Int → Int → Bool) (n : Nat) : topoList less n ≠ [] := by
  intro h
  have := (topoList_chain less n).2.1
  simp [h] at this

theorem Topo.enumerates_lemma (less : Int → Int → Bool) (n : Int) (hn : 0 ≤ n) :
    ∃ s0, Topo.init n = .ok s0 ∧ ∀ bound, (topoList less n.toNat).length < bound →
      ∃ s', outputs (Topo.it less) bound s0 =
          ((topoList less n.toNat).map (fun σ => (σ, inverse σ)), s', .exhausted) ∧
        ∀ k, extras (Topo.it less) k s' = .ok (List.replicate k none) := by
  refine ⟨_, Topo.init_eq n hn, fun bound hb => ?_⟩
  obtain ⟨hchain, hhead, l, hlast, hl⟩ := topoList_chain less n.toNat
  obtain ⟨s', h1, _, h3⟩ := enumerates_aux (Topo.it less) (Topo.Rep n) Topo.Dead
    (fun v w => topoSucc less n.toNat v.1 = some w.1 ∧ w.2 = inverse w.1)
    (⟨idList n.toNat, idList n.toNat, n, true, false⟩ : Topo)
    ((topoList less n.toNat).map (fun σ => (σ, inverse σ)))
    (by
      rw [List.isChain_map]
      exact hchain.imp (fun x y h => ⟨h, rfl⟩))
    (by
      rintro s v ⟨hn', hs, hi, hrest⟩
      exact ⟨s, by simp [Topo.it, hs, hi], hn', hs, hi, hrest⟩)
    (by
      intro hnil
      exact absurd (List.map_eq_nil_iff.mp hnil) (topoList_ne_nil less _))
    (by
      intro v hv
      simp only [List.head?_map, hhead, Option.map_some, Option.mem_def, Option.some.injEq] at hv
      subst hv
      refine ⟨⟨idList n.toNat, idList n.toNat, n, false, false⟩, by simp [Topo.it, Topo.next], rfl, rfl, ?_, rfl, rfl,
        List.Perm.refl _, rfl⟩
      simp [inverse_idList])
    (by
      rintro v w ⟨hvw, hw⟩ s hs
      obtain ⟨s', g1, g2⟩ := Topo.next_step less n v w.1 hvw s hs
      refine ⟨s', g1, ?_⟩
      rw [← hw] at g2
      exact g2)
    (by
      intro v hv s hs
      simp only [List.getLast?_map, hlast, Option.map_some, Option.mem_def, Option.some.injEq] at hv
      subst hv
      exact Topo.next_last less n _ hl s hs)
    (fun s hs => Topo.next_dead less s hs) bound (by simpa using hb)
  exact ⟨s', h1, h3⟩

/-- membership in `topoList` (pairwise form of "`i` occurs before `j` whenever `less i j`") -/
theorem mem_topoList_pairwise (less : Int → Int → Bool) (hless : ∀ i j, less i j = true → i < j) :
    ∀ (n : Nat) (x : List Int), x ∈ topoList less n ↔
      x.Perm (idList n) ∧ x.Pairwise (fun u v => less v u = false) := by
  intro n
  induction n with
  | zero =>
    intro x
    simp only [topoList, idList, List.mem_singleton, List.range_zero, List.map_nil, List.perm_nil]
    exact ⟨fun h => ⟨h, by simp [h]⟩, fun h => h.1⟩
  | succ k ih =>
    intro x
    simp only [topoList, List.mem_flatMap]
    constructor
    · rintro ⟨τ, hτ, hx⟩
      refine ⟨topoList_perm less (k + 1) x (by simp only [topoList, List.mem_flatMap]; exact ⟨τ, hτ, hx⟩), ?_⟩
      obtain ⟨hp, hpw⟩ := (ih τ).mp hτ
      obtain ⟨a, b, h1, h2, h3⟩ := (mem_slide _ _ _ _ _).mp hx
      simp only [List.reverse_reverse] at h1
      subst h1 h2
      rw [List.append_nil]
      rw [List.pairwise_append] at hpw ⊢
      refine ⟨hpw.1, ?_, ?_⟩
      · rw [List.pairwise_cons]
        exact ⟨fun v hv => h3 v hv, hpw.2.1⟩
      · intro u hu v hv
        rcases List.mem_cons.mp hv with rfl | hv
        · have hu' := (mem_idList k u).mp (hp.subset (by simp [hu]))
          cases hlt : less (k : Int) u with
          | false => rfl
          | true => have := hless _ _ hlt; omega
        · exact hpw.2.2 u hu v hv
    · rintro ⟨hp, hpw⟩
      have hkx : (k : Int) ∈ x := hp.symm.subset (by simp [idList_succ])
      obtain ⟨a, b, rfl⟩ := List.append_of_mem hkx
      have hp' : (a ++ b).Perm (idList k) := by
        rw [idList_succ] at hp
        exact ((List.perm_middle.symm.trans hp).trans (List.perm_append_singleton _ _)).cons_inv
      rw [List.pairwise_append, List.pairwise_cons] at hpw
      have hpw' : (a ++ b).Pairwise (fun u v => less v u = false) := by
        rw [List.pairwise_append]
        exact ⟨hpw.1, hpw.2.1.2, fun u hu v hv => hpw.2.2 u hu v (by simp [hv])⟩
      refine ⟨a ++ b, (ih _).mpr ⟨hp', hpw'⟩, ?_⟩
      exact (mem_slide _ _ _ _ _).mpr ⟨a, b, by simp, by simp, fun l hl => hpw.2.1.1 l hl⟩

/-- for duplicate-free lists the pairwise form says: `i` occurs before `j` whenever `less i j` -/
theorem pairwise_iff_idxOf_lt (less : Int → Int → Bool) (hless : ∀ i j, less i j = true → i < j)
    (x : List Int) (hnd : x.Nodup) :
    x.Pairwise (fun u v => less v u = false) ↔
      ∀ i j, less i j = true → i ∈ x → j ∈ x → x.idxOf i < x.idxOf j := by
  constructor
  · intro hpw i j hij hi hj
    rw [List.pairwise_iff_getElem] at hpw
    have hi' := List.idxOf_lt_length_of_mem hi
    have hj' := List.idxOf_lt_length_of_mem hj
    by_contra hcon
    have hne : x.idxOf j ≠ x.idxOf i := by
      intro h
      have e1 := List.getElem_idxOf hi'
      have e2 := List.getElem_idxOf hj'
      have : i = j := by rw [← e1, ← e2]; simp [h]
      have := hless _ _ hij
      omega
    have := hpw (x.idxOf j) (x.idxOf i) hj' hi' (by omega)
    rw [List.getElem_idxOf hi', List.getElem_idxOf hj', hij] at this
    exact absurd this (by simp)
  · intro h
    rw [List.pairwise_iff_getElem]
    intro p q hp hq hpq
    cases hlt : less x[q] x[p] with
    | false => rfl
    | true =>
      have := h _ _ hlt (List.getElem_mem hq) (List.getElem_mem hp)
      rw [hnd.idxOf_getElem q hq, hnd.idxOf_getElem p hp] at this
      omega

/-- (1) `topoList less n` consists exactly of the permutations of `0..n-1` in which `i` occurs before `j`
whenever `less i j` -/
theorem mem_topoList (less : Int → Int → Bool) (hless : ∀ i j, less i j = true → i < j)
    (n : Nat) (x : List Int) : x ∈ topoList less n ↔
      x.Perm (idList n) ∧ ∀ i j, less i j = true → i ∈ x → j ∈ x → x.idxOf i < x.idxOf j := by
  rw [mem_topoList_pairwise less hless]
  constructor
  · rintro ⟨hp, h⟩
    exact ⟨hp, (pairwise_iff_idxOf_lt less hless x (hp.nodup_iff.mpr (nodup_idList n))).mp h⟩
  · rintro ⟨hp, h⟩
    exact ⟨hp, (pairwise_iff_idxOf_lt less hless x (hp.nodup_iff.mpr (nodup_idList n))).mpr h⟩

theorem slide_idxOf_le (less : Int → Int → Bool) (k : Int) (rpre suf x : List Int) (hk : k ∉ rpre)
    (hx : x ∈ slide less k rpre suf) : x.idxOf k ≤ rpre.length := by
  obtain ⟨a, b, h1, h2, _⟩ := (mem_slide _ _ _ _ _).mp hx
  have hka : k ∉ a := by
    intro h
    have : k ∈ rpre.reverse := by rw [h1]; simp [h]
    exact hk (List.mem_reverse.mp this)
  have hl : rpre.length = a.length + b.length := by
    have := congrArg List.length h1
    simpa using this
  subst h2
  simp [List.idxOf_append, hka]
  omega

theorem slide_nodup (less : Int → Int → Bool) (k : Int) : ∀ (rpre suf : List Int), k ∉ rpre →
    (slide less k rpre suf).Nodup := by
  intro rpre
  induction rpre with
  | nil => intro suf _; simp [slide]
  | cons l rpre ih =>
    intro suf hk
    simp only [List.mem_cons, not_or] at hk
    simp only [slide]
    by_cases hl : less l k = true
    · simp [hl]
    · have hl' : less l k = false := by simpa using hl
      simp only [hl', Bool.false_eq_true, if_false, List.nodup_cons]
      refine ⟨?_, ih _ hk.2⟩
      intro hmem
      have h1 := slide_idxOf_le less k rpre (l :: suf) _ hk.2 hmem
      have hkr : k ∉ (l :: rpre).reverse := by
        simp only [List.mem_reverse, List.mem_cons, not_or]; exact hk
      rw [List.idxOf_append_of_notMem hkr] at h1
      simp at h1
      omega

theorem slide_erase (less : Int → Int → Bool) (k : Int) (σ x : List Int) (hk : k ∉ σ)
    (hx : x ∈ slide less k σ.reverse []) : x.erase k = σ := by
  obtain ⟨a, b, h1, h2, _⟩ := (mem_slide _ _ _ _ _).mp hx
  simp only [List.reverse_reverse] at h1
  subst h1 h2
  have hka : k ∉ a := fun h => hk (by simp [h])
  rw [List.append_nil, List.erase_append_right _ hka]
  simp

/-- (1) every arrangement is listed exactly once -/
theorem topoList_nodup (less : Int → Int → Bool) : ∀ n : Nat, (topoList less n).Nodup := by
  intro n
  induction n with
  | zero => simp [topoList]
  | succ k ih =>
    simp only [topoList]
    rw [List.nodup_flatMap]
    have hk : ∀ σ ∈ topoList less k, (k : Int) ∉ σ :=
      fun σ hσ => notMem_of_perm_idList (topoList_perm less k σ hσ)
    refine ⟨fun σ hσ => slide_nodup less _ _ _ (by simpa using hk σ hσ), ?_⟩
    refine List.Pairwise.imp_of_mem ?_ ih
    intro σ τ hσ hτ hne
    simp only [Function.onFun]
    intro x hx1 hx2
    apply hne
    rw [← slide_erase less _ σ x (hk σ hσ) hx1, ← slide_erase less _ τ x (hk τ hτ) hx2]

/-- `inverse σ` is the inverse permutation: `inv[σ[p]] = p` -/
theorem inverse_spec {n : Nat} {σ : List Int} (hp : σ.Perm (idList n)) :
    (inverse σ).length = n ∧ ∀ (p : Nat) (h : p < σ.length), get (inverse σ) σ[p] = .ok (p : Int) := by
  have hlen : σ.length = n := by simpa [length_idList] using hp.length_eq
  refine ⟨by simp [inverse, hlen], fun p h => ?_⟩
  rw [GI_inverse hp σ[p] (List.getElem_mem h), (hp.nodup_iff.mpr (nodup_idList n)).idxOf_getElem p h]

end Iter
