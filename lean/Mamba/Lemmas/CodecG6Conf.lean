import Mamba.Lemmas.CodecG6
/-! graph6: every accepted string is read as the format says; the format's string determines the graph. -/
namespace Codec
open Formats GraphSpec

/-- the decoder's `j`-th edge byte is the `j`-th bit of the stream behind the size header, for any string of bytes 63..126 -/
theorem g6BitVal_unR (s : Bytes) (hr : inRange s = true) (i j : Nat) (h : i + j / 6 < s.size) :
    g6BitVal s i j = if (unR (s.toList.drop i))[j]? = some true then 1 else 0 := by
  have hc : 63 ≤ s[i + j / 6] ∧ s[i + j / 6] ≤ 126 := (inRange_iff s).1 hr _ (by simp)
  have hget : s.getD (i + j / 6) 0 = s[i + j / 6] := by simp [Array.getD, h]
  have hd : (s.toList.drop i)[j / 6]? = some s[i + j / 6] := by
    rw [List.getElem?_drop, Array.getElem?_toList, Array.getElem?_eq_getElem h]
  unfold g6BitVal
  rw [hget, bsub_of_le hc.1 (by omega), bit_extract _ (by omega) _ (Nat.mod_lt _ (by decide)),
    g6_unR_getElem?, hd]

/-- **the decoder follows the format**: whenever the core of `Graph6Decode` accepts a non-empty string, the size
header is read as `Formats.readN` reads it and the adjacency of the result is, pair by pair in the order
(0,1),(0,2),(1,2),…, the bit stream `unR` of the bytes after the header. -/
theorem g6DecodeCore_reads (s : Bytes) (hs : s.size ≠ 0) (d : Dense) (h : g6DecodeCore s = .ok (some d)) :
    ∃ rest, readN s.toList = some (d.n, rest) ∧
      ∀ i j, i < j → j < d.n → d.toG.adj i j = ((unR rest)[tri j + i]? == some true) := by
  unfold g6DecodeCore at h
  by_cases hr : inRange s = true
  swap
  · simp [hr] at h
  simp only [hr, Bool.not_true, Bool.false_eq_true, if_false, hs] at h
  rcases decHeader_spec s (by omega) hr with ⟨h1, _⟩ | ⟨n, i, h1, h2, h3, h4, h5, h6, h7⟩
  · simp [h1] at h
  · simp only [h1] at h
    by_cases c1 : (i = 8 && n > 4294967296) = true
    · simp [c1] at h
    simp only [c1, if_false, Bool.false_eq_true] at h
    by_cases c2 : i + (n * (n - 1) / 2 + 5) / 6 > s.size
    · simp [c2] at h
    simp only [c2, if_false] at h
    have hm : (List.range (n * (n - 1) / 2)).mapM (g6Bit s i)
        = .ok ((List.range (n * (n - 1) / 2)).map (g6BitVal s i)) := by
      apply mapM_ok
      intro j hj
      have hj := List.mem_range.1 hj
      apply g6Bit_ok
      omega
    rw [hm] at h
    obtain ⟨d', hd, hwf, hdn, hde⟩ := newDense_ok n ((List.range (n * (n - 1) / 2)).map (g6BitVal s i)).toArray (by simp)
    simp only [hd, Outcome.ok.injEq, Option.some.injEq] at h
    subst h
    refine ⟨s.toList.drop i, hdn ▸ h2, ?_⟩
    intro a b hab hb
    have hb' : b < n := hdn ▸ hb
    have hidx : tri b + a < tri n := tri_idx_lt hab hb'
    have htri : tri n = n * (n - 1) / 2 := rfl
    rw [Dense.toG_adj_lt hwf.edges_size hab hb, hde]
    have : (((List.range (n * (n - 1) / 2)).map (g6BitVal s i)).toArray).getD (tri b + a) 0 = g6BitVal s i (tri b + a) := by
      rw [Array.getD_eq_getD_getElem?, List.getElem?_toArray, List.getElem?_map,
        List.getElem?_range (by omega)]
      rfl
    rw [this, g6BitVal_unR s hr i _ (by omega)]
    cases hx : (unR (s.toList.drop i))[tri b + a]? with
    | none => simp
    | some x => cases x <;> simp

/-- the graph6 string of the format determines the number of vertices and the adjacency -/
theorem g6Spec_injective (g h : G) (hn : g.n ≤ 68719476735) (hn' : h.n ≤ 68719476735) (e : g6Spec g = g6Spec h) :
    g.n = h.n ∧ ∀ i j, i < j → j < g.n → g.adj i j = h.adj i j := by
  have r1 := readN_Nn g.n hn (R (g6Bits g))
  have r2 := readN_Nn h.n hn' (R (g6Bits h))
  unfold g6Spec at e
  rw [e, r2] at r1
  simp only [Option.some.injEq, Prod.mk.injEq] at r1
  obtain ⟨en, eR⟩ := r1
  refine ⟨en.symm, ?_⟩
  have eu := congrArg unR eR
  rw [unR_R, unR_R] at eu
  have el : (g6Bits h).length = (g6Bits g).length := by rw [g6Bits_length, g6Bits_length, en]
  have eb : g6Bits h = g6Bits g := by
    have := congrArg (List.take (g6Bits g).length) eu
    rw [List.take_left' el, List.take_left' rfl] at this
    exact this
  intro i j hij hj
  have h1 : g6Bits g = (allPairs g.n).map (fun p => g.adj p.1 p.2) := by
    unfold g6Bits allPairs
    rw [List.map_flatMap]; congr 1; funext j; simp
  have h2 : g6Bits h = (allPairs h.n).map (fun p => h.adj p.1 p.2) := by
    unfold g6Bits allPairs
    rw [List.map_flatMap]; congr 1; funext j; simp
  have := congrArg (fun l => l[tri j + i]?) eb
  simp only [h1, h2, List.getElem?_map, allPairs_getElem? hij hj, allPairs_getElem? hij (en.symm ▸ hj : j < h.n),
    Option.map_some, Option.some.injEq] at this
  exact this.symm

end Codec
