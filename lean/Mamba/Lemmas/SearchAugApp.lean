import Mamba.Lemmas.SearchInv
/-! `addAugmentations` only appends to the choices stack: the appended block does not depend on what is below. -/
namespace Search

theorem push_append_eq {α : Type} (ch : Array α) (x : α) (new : Array α) :
    ch.push x ++ new = ch ++ (#[x] ++ new) := by
  apply Array.toList_inj.1; simp

theorem rootPass_append (ds : Disjoint.DS) :
    ∀ (l : List (List Nat × Nat)) (ch : Array Nat) (num : Nat) (ch' : Array Nat) (num' : Nat),
      rootPass ds l ch num = .ok (ch', num') →
      ∃ new : Array Nat, ch' = ch ++ new ∧ num' = num + new.size ∧
        ∀ (base : Array Nat) (k : Nat), rootPass ds l base k = .ok (base ++ new, k + new.size)
  | [], ch, num, ch', num', h => by
    simp only [rootPass] at h; cases h
    exact ⟨#[], by simp, by simp, fun base k => by simp [rootPass]⟩
  | (c, i) :: rest, ch, num, ch', num', h => by
    simp only [rootPass] at h
    split at h
    · cases h
    · rename_i v hv
      split at h
      · rename_i hneg
        obtain ⟨new, h1, h2, h3⟩ := rootPass_append ds rest _ _ _ _ h
        refine ⟨#[maskOf c] ++ new, ?_, ?_, ?_⟩
        · rw [h1, push_append_eq]
        · rw [h2]; simp only [Array.size_append, List.size_toArray, List.length_cons, List.length_nil]; omega
        · intro base k
          simp only [rootPass, hv, hneg, if_true]
          rw [h3 (base.push (maskOf c)) (k + 1), push_append_eq]
          simp only [Array.size_append, List.size_toArray, List.length_cons, List.length_nil]
          congr 2; omega
      · rename_i hneg
        obtain ⟨new, h1, h2, h3⟩ := rootPass_append ds rest _ _ _ _ h
        refine ⟨new, h1, h2, ?_⟩
        intro base k
        simp only [rootPass, hv, hneg, if_false]
        exact h3 base k

theorem sizeLoop_append (cap n : Nat) (gens : List (Array Nat)) :
    ∀ (ks : List Nat) (ch : Array Nat) (num : Nat) (ch' : Array Nat) (num' : Nat),
      sizeLoop cap n gens ks ch num = .ok (ch', num') →
      ∃ new : Array Nat, ch' = ch ++ new ∧ num' = num + new.size ∧
        ∀ (base : Array Nat) (k : Nat), sizeLoop cap n gens ks base k = .ok (base ++ new, k + new.size)
  | [], ch, num, ch', num', h => by
    simp only [sizeLoop] at h; cases h
    exact ⟨#[], by simp, by simp, fun base k => by simp [sizeLoop]⟩
  | k0 :: ks, ch, num, ch', num', h => by
    simp only [sizeLoop] at h
    split at h
    · cases h
    · rename_i hcap
      split at h
      · rename_i ds hds
        split at h
        · rename_i ch1 num1 hr
          obtain ⟨new1, a1, a2, a3⟩ := rootPass_append ds _ _ _ _ _ hr
          obtain ⟨new2, b1, b2, b3⟩ := sizeLoop_append cap n gens ks _ _ _ _ h
          refine ⟨new1 ++ new2, ?_, ?_, ?_⟩
          · rw [b1, a1, Array.append_assoc]
          · rw [b2, a2]; simp only [Array.size_append]; omega
          · intro base k
            simp only [sizeLoop, hcap, if_false, hds, a3 base k, b3 (base ++ new1) (k + new1.size)]
            simp only [Array.append_assoc, Array.size_append]
            congr 2; omega
        · cases h
        · cases h
      · cases h
      · cases h

theorem orbitRoots_append (orbits : Array Int) :
    ∃ new : Array Nat, ∀ (base : Array Nat) (k : Nat), orbitRoots orbits base k = (base ++ new, k + new.size) := by
  unfold orbitRoots
  generalize orbits.toList.zipIdx = l
  induction l with
  | nil => exact ⟨#[], fun base k => by simp⟩
  | cons x xs ih =>
    obtain ⟨new, hn⟩ := ih
    by_cases hx : x.1 < 0
    · refine ⟨#[1 <<< x.2] ++ new, fun base k => ?_⟩
      simp only [List.foldl_cons, hx, if_true]
      rw [hn, push_append_eq]
      simp only [Array.size_append, List.size_toArray, List.length_cons, List.length_nil]
      congr 1; omega
    · refine ⟨new, fun base k => ?_⟩
      simp only [List.foldl_cons, hx, if_false]
      exact hn base k

/-- the part of `addAugmentations` after the oracle call -/
theorem augTail_append (cap n : Nat) (orbs : Array Int) (gens : List (Array Nat)) (ks : List Nat)
    (c1 : Option Ans) (ch : Array Nat) {ch' : Array Nat} {cache' : Option Ans} {num : Nat}
    (h : (match sizeLoop cap n gens ks (orbitRoots orbs (ch.push 0) 1).1 (orbitRoots orbs (ch.push 0) 1).2 with
          | .ok (ch2, num2) => Outcome.ok (ch2, c1, num2)
          | .panic => .panic
          | .outOfFuel => .outOfFuel) = .ok (ch', cache', num)) :
    ∃ new : Array Nat, ch' = ch ++ new ∧ num = new.size ∧ cache' = c1 ∧
      ∀ base : Array Nat,
        (match sizeLoop cap n gens ks (orbitRoots orbs (base.push 0) 1).1 (orbitRoots orbs (base.push 0) 1).2 with
          | .ok (ch2, num2) => Outcome.ok (ch2, c1, num2)
          | .panic => .panic
          | .outOfFuel => .outOfFuel) = .ok (base ++ new, c1, new.size) := by
  obtain ⟨newO, hO⟩ := orbitRoots_append orbs
  rw [hO] at h
  simp only at h
  split at h
  · rename_i ch2 num2 hs
    cases h
    obtain ⟨newS, s1, s2, s3⟩ := sizeLoop_append _ _ _ _ _ _ _ _ hs
    refine ⟨#[0] ++ newO ++ newS, ?_, ?_, rfl, ?_⟩
    · rw [s1, push_append_eq, Array.append_assoc, Array.append_assoc]
    · rw [s2]; simp only [Array.size_append, List.size_toArray, List.length_cons, List.length_nil]; try omega
    · intro base
      rw [hO]
      simp only [s3 (base.push 0 ++ newO) (1 + newO.size)]
      rw [push_append_eq, Array.append_assoc, Array.append_assoc]
      simp only [Array.size_append, List.size_toArray, List.length_cons, List.length_nil]
      congr 3; omega
  · cases h
  · cases h

/-- the block pushed by `addAugmentations` and its other results do not depend on the stack below -/
theorem addAugmentations_append (O : Oracle) (cap : Nat) (g : DG) (cache : Option Ans) (ch : Array Nat)
    {ch' : Array Nat} {cache' : Option Ans} {num : Nat}
    (h : addAugmentations O cap g ch cache = .ok (ch', cache', num)) :
    ∃ new : Array Nat, ch' = ch ++ new ∧ num = new.size ∧
      ∀ base : Array Nat, addAugmentations O cap g base cache = .ok (base ++ new, cache', new.size) := by
  unfold addAugmentations at h
  split at h
  · cases h
  · cases h
  · rename_i minDegree hmin
    simp only at h
    split at h
    · cases h
    · cases h
    · rename_i c1 hc1
      obtain ⟨new, h1, h2, h3, h4⟩ := augTail_append _ _ _ _ _ c1 ch h
      refine ⟨new, h1, h2, ?_⟩
      intro base
      unfold addAugmentations
      simp only [hmin, hc1]
      rw [h3]
      exact h4 base

end Search
