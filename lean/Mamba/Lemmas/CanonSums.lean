import Mamba.Lemmas.ExactAssemble
namespace Search
open Disjoint GSearch GraphSpec

/-- the edge array of a built graph holds 0/1 -/
theorem Built.edges01 {g : DG} (h : Built g) : ∀ j, j < g.edges.size → g.edges[j]? = some 0 ∨ g.edges[j]? = some 1 := by
  induction h with
  | one => intro j hj; simp [K1, DG.single, DG.empty] at hj
  | @add P g2 l hb hnd hl ha ih =>
    intro j hj
    have hs := hb.sized
    unfold DG.addVertex at ha
    simp only at ha
    split at ha
    · cases ha
    · split at ha
      · rename_i e d heq
        cases ha
        obtain ⟨-, f2, f3, -, -⟩ := addVertex_fold_spec (tri P.nv) l _ _ hnd heq
        simp only at f2 f3 hj ⊢
        by_cases hm : ∃ v ∈ l, j = tri P.nv + v
        · obtain ⟨v, hv, rfl⟩ := hm
          exact Or.inr (f2 v hv)
        · have hm' : ∀ v ∈ l, j ≠ tri P.nv + v := fun v hv he => hm ⟨v, hv, he⟩
          rw [f3 j hm']
          by_cases hjo : j < P.edges.size
          · rw [Array.getElem?_append_left hjo]; exact ih j hjo
          · have fs := addVertex_fold_sizes _ _ _ _ heq
            simp only [Array.size_append, Array.size_replicate] at fs
            rw [Array.getElem?_append_right (by omega)]
            left
            have : j - P.edges.size < P.nv := by omega
            simp [this]
      · cases ha
      · cases ha

/-- the edge bit read by `isCanonical` is the adjacency of the abstraction -/
theorem edgeAt_adj {g : DG} (hb : Built g) {lo hi : Nat} (hlt : lo < hi) (hhi : hi < g.nv) :
    ∃ b, g.edgeAt lo hi = some b ∧ (b = 1 ↔ g.toG.adj lo hi = true) := by
  have hidx : tri hi + lo < g.edges.size := by rw [hb.sized.edges]; exact tri_add_lt hlt hhi
  have h01 := hb.edges01 _ hidx
  have hlo : lo < g.nv := Nat.lt_trans hlt hhi
  have hne : (lo != hi) = true := by simp [Nat.ne_of_lt hlt]
  unfold DG.edgeAt
  rcases h01 with h0 | h1
  · refine ⟨0, h0, ?_⟩
    simp [DG.toG, hne, hlt, hlo, hhi, Array.getD_eq_getD_getElem?, h0]
  · refine ⟨1, h1, ?_⟩
    simp [DG.toG, hne, hlt, hlo, hhi, Array.getD_eq_getD_getElem?, h1]

/-- Σ deg and Σ deg² over a list of vertices -/
def wsum (g : DG) (l : List Nat) : Int × Int :=
  ((l.map fun j => ((g.toG.deg j : Nat) : Int)).sum, (l.map fun j => ((g.toG.deg j : Nat) : Int) * ((g.toG.deg j : Nat) : Int)).sum)

theorem sumSq_spec {g : DG} (hb : Built g) :
    ∀ (l : List Nat) (acc : Int × Int), (∀ v ∈ l, v < g.nv) →
      sumSq g.degs l acc = .ok (acc.1 + (wsum g l).1, acc.2 + (wsum g l).2)
  | [], acc, _ => by simp [sumSq, wsum]
  | v :: vs, (s, q), hl => by
    have hv := hl v List.mem_cons_self
    simp only [sumSq, hb.degOK v hv]
    rw [sumSq_spec hb vs _ (fun w hw => hl w (List.mem_cons_of_mem _ hw))]
    simp only [wsum, List.map_cons, List.sum_cons]
    congr 2 <;> omega

end Search

namespace Search
open Disjoint GSearch GraphSpec

theorem wsum_cons (g : DG) (j : Nat) (l : List Nat) :
    wsum g (j :: l) = (((g.toG.deg j : Nat) : Int) + (wsum g l).1,
      ((g.toG.deg j : Nat) : Int) * ((g.toG.deg j : Nat) : Int) + (wsum g l).2) := by
  simp [wsum]

theorem sumSqNbrs_spec {g : DG} (hb : Built g) {v : Nat} (hv : v < g.nv) :
    ∀ (l : List Nat) (acc : Int × Int), (∀ j ∈ l, j < g.nv) →
      sumSqNbrs g v l acc =
        .ok (acc.1 + (wsum g (l.filter fun j => g.toG.adj v j)).1, acc.2 + (wsum g (l.filter fun j => g.toG.adj v j)).2)
  | [], acc, _ => by simp [sumSqNbrs, wsum]
  | j :: js, (s, q), hl => by
    have hj := hl j List.mem_cons_self
    have ih := fun acc => sumSqNbrs_spec hb hv js acc (fun w hw => hl w (List.mem_cons_of_mem _ hw))
    have hdj := hb.degOK j hj
    simp only [sumSqNbrs, List.filter_cons]
    rcases Nat.lt_trichotomy v j with hlt | heq | hgt
    · have h1 : ¬ v > j := by omega
      obtain ⟨b, hb1, hb2⟩ := edgeAt_adj hb hlt hj
      simp only [h1, if_false, hlt, if_true, hb1, hdj]
      by_cases hadj : g.toG.adj v j = true
      · have : b = 1 := hb2.2 hadj
        simp only [this, if_true, ih, hadj, wsum_cons]
        congr 2 <;> omega
      · have : ¬ b = 1 := fun h => hadj (hb2.1 h)
        have hadj' : g.toG.adj v j = false := by simpa using hadj
        simp only [this, if_false, ih, hadj', Bool.false_eq_true]
    · subst heq
      have h1 : ¬ v > v := by omega
      have h2 : ¬ v < v := by omega
      have hadj : g.toG.adj v v = false := (toG_wf g).irrefl v
      simp only [h1, h2, if_false, ih, hadj, Bool.false_eq_true]
    · obtain ⟨b, hb1, hb2⟩ := edgeAt_adj hb hgt hv
      rw [(toG_wf g).symm j v] at hb2
      simp only [hgt, if_true, hb1, hdj]
      by_cases hadj : g.toG.adj v j = true
      · have : b = 1 := hb2.2 hadj
        simp only [this, if_true, ih, hadj, wsum_cons]
        congr 2 <;> omega
      · have : ¬ b = 1 := fun h => hadj (hb2.1 h)
        have hadj' : g.toG.adj v j = false := by simpa using hadj
        simp only [this, if_false, ih, hadj', Bool.false_eq_true]

/-- the (Σ deg, Σ deg²) of the neighbours of `v` -/
def nkey (g : DG) (v : Nat) : Int × Int := wsum g (g.toG.nbrs v)

theorem sumSqNbrs_range {g : DG} (hb : Built g) {v : Nat} (hv : v < g.nv) :
    sumSqNbrs g v (List.range g.nv) (0, 0) = .ok (nkey g v) := by
  rw [sumSqNbrs_spec hb hv _ _ (fun j hj => List.mem_range.1 hj)]
  simp [nkey, G.nbrs, DG.toG]

end Search
