import Mamba.Lemmas.CanonFCovStep
/-!
# The coverage invariant at a leaf of the search
-/
namespace CanonF

/-- at a leaf the colouring of the partition is the inverse of `order` -/
theorem leaf_colOf {n : Nat} {op : OP} (hp : PartInv n op) (hleaf : op.binDividers.len = n) :
    colOf n op = IR.tab n (fun v => op.order.toList.idxOf v) := by
  unfold colOf
  apply tab_congr
  intro v hv
  have hmem : v ∈ op.order.toList := hp.perm.mem_iff.2 (List.mem_range.2 hv)
  rw [cellOf_order hp (getElem?_idxOf_of_mem hmem)]
  have hi := List.idxOf_lt_length_of_mem hmem
  have holen : op.order.toList.length = n := by rw [Sl.length_toList _ hp.wfOrder, hp.lenOrder]
  exact binIdx_eq_of_single _ hp.sorted n (ts_leaf_dividers hp hleaf) _ (by omega)

/-- the only leaf below a leaf node is the node itself; its certificate is `op.value` -/
theorem complete_leaf {n : Nat} {nb : Nbrs} {rf : Nat} (hnb : NbOK nb n) {op : OP} {ν : IR.St} {best : List Nat}
    (hp : PartInv n op) (hleaf : op.binDividers.len = n) (hm : Match n op ν) (hvc : VClean nb op) (hspl : op.spl = n)
    (hle : compare op.value.toList best ≠ 1) : Complete n nb rf best ν := by
  intro x hx
  have htn := target_none (nb := nb) hp hm hleaf
  rw [IR.certBelow_of_target_none htn] at hx
  rw [← hx, hm.col, leaf_colOf hp hleaf, cert_link hnb hp.perm]
  have := hvc.val
  rw [hspl] at this
  rw [← this]
  exact hle

/-- a better `currentBest` keeps every coverage fact -/
theorem CovFrames.mono_best {n : Nat} {nb : Nbrs} {rf : Nat} {r : IR.St} {s s' : LS} {vs : List Nat}
    (hb : ∀ x, compare x s.currentBest.toList ≠ 1 → compare x s'.currentBest.toList ≠ 1)
    (e2 : ∀ qs, onFirstB s' qs = onFirstB s qs) (e4 : s'.flOrbits = s.flOrbits) :
    ∀ (incl : Bool) (path choices : List Nat) (lv : List (Nat × Nat)),
      CovFrames n nb rf r s vs incl path choices lv → CovFrames n nb rf r s' vs incl path choices lv := by
  intro incl path
  induction path generalizing incl with
  | nil => intro choices lv h; cases choices <;> cases lv <;> simp_all [CovFrames]
  | cons p ps ih =>
    intro choices lv h
    cases choices with
    | nil => simp [CovFrames] at h
    | cons c cs =>
      cases lv with
      | nil => simp [CovFrames] at h
      | cons x ls =>
        obtain ⟨st, sz⟩ := x
        simp only [CovFrames] at h ⊢
        refine ⟨fun i w hi hw => ?_, ih false cs ls h.2⟩
        rcases h.1 i w hi hw with hcomp | ⟨hon, hdef⟩
        · exact Or.inl (fun x hx => hb x (hcomp x hx))
        · exact Or.inr ⟨by rw [e2]; exact hon, by rw [e4]; exact hdef⟩

set_option maxHeartbeats 1000000 in
/-- at a leaf whose certificate is `≤` the (new) `currentBest`, the child that was being explored — the leaf — is covered:
the top frame turns to "between two children" -/
theorem cov_finish_leaf {n : Nat} {nb : Nbrs} {rf : Nat} {r : IR.St} (hnb : NbOK nb n) {s s' : LS}
    {lv : List (Nat × Nat)} {vs : List Nat} (hc : Core n s) (hl : LevelsOK s.op s.path s.choices lv)
    (hw : WalkNodev n nb rf r vs lv s) (hleaf : s.op.binDividers.len = n) (hvc : VClean nb s.op)
    (hspl : s.op.spl = n) (hle : compare s.op.value.toList s'.currentBest.toList ≠ 1)
    (hcov : CovFrames n nb rf r s' vs false s.path s.choices lv) :
    CovFrames n nb rf r s' vs true s.path s.choices lv := by
  obtain ⟨h1, h2, h3, h4, h5, h6, h7⟩ := hw
  cases hpth : s.path with
  | nil => rw [hpth] at hcov; cases hcc : s.choices <;> cases lv <;> simp_all [CovFrames]
  | cons p ps =>
    rw [hpth] at hcov hl h5 h3
    cases hch : s.choices with
    | nil => rw [hch] at hcov; simp [CovFrames] at hcov
    | cons c cs =>
      cases lv with
      | nil => rw [hch] at hcov; simp [CovFrames] at hcov
      | cons x ls =>
        obtain ⟨st, sz⟩ := x
        rw [hch] at hcov hl h5
        simp only [LevelsOK] at hl
        obtain ⟨_, _, tc, _, _⟩ := hl
        simp only [FramesOK] at h5
        obtain ⟨g1, _, g3, _⟩ := h5
        simp only [List.length_cons] at h3
        obtain ⟨g3a, _⟩ := g3 (by omega)
        have hm : Match n s.op (nodeL n nb rf r vs vs.length) :=
          (h4 vs.length (Nat.le_refl _)).toMatch hc.part hc.age (by omega) h7
        have hcomp := complete_leaf (rf := rf) hnb hc.part hleaf hm hvc hspl hle
        exact hcov.finish_child (fun w hw' => by
          rw [show c - st = p by omega, ← g3a] at hw'
          have hn := nodeL_succ h1 hw' g1
          rw [h3, hn] at hcomp
          exact Or.inl hcomp)

end CanonF
