import Mamba.Lemmas.MinorOrder
import Mathlib.Tactic.IntervalCases
/-!
# Vertices of degree at most two cannot matter for minors of minimum degree three (property C11)

Consequences: subdividing an edge, adding an isolated vertex, adding a pendant vertex do not change whether
K5 / K3,3 is a minor.
-/
namespace Minor
open GraphSpec

/-- every vertex of `H` has three distinct neighbours -/
def MinDeg3 (H : G) : Prop :=
  ∀ c, c < H.n → ∃ h1 h2 h3, h1 < H.n ∧ h2 < H.n ∧ h3 < H.n ∧ h1 ≠ c ∧ h2 ≠ c ∧ h3 ≠ c ∧
    h1 ≠ h2 ∧ h1 ≠ h3 ∧ h2 ≠ h3 ∧ H.adj c h1 = true ∧ H.adj c h2 = true ∧ H.adj c h3 = true

theorem K5_minDeg3 : MinDeg3 K5 := by
  intro c hc
  have hc' : c < 5 := hc
  interval_cases c
  · exact ⟨1, 2, 3, by decide⟩
  · exact ⟨0, 2, 3, by decide⟩
  · exact ⟨0, 1, 3, by decide⟩
  · exact ⟨0, 1, 2, by decide⟩
  · exact ⟨0, 1, 2, by decide⟩

theorem K33_minDeg3 : MinDeg3 K33 := by
  intro c hc
  have hc' : c < 6 := hc
  interval_cases c
  · exact ⟨3, 4, 5, by decide⟩
  · exact ⟨3, 4, 5, by decide⟩
  · exact ⟨3, 4, 5, by decide⟩
  · exact ⟨0, 1, 2, by decide⟩
  · exact ⟨0, 1, 2, by decide⟩
  · exact ⟨0, 1, 2, by decide⟩

/-- a vertex `w` all of whose neighbours are among `u`, `v` can be deleted or contracted into `u` or `v` -/
theorem lowdeg_elim {p : PG} {H : G} {f : Nat → Nat} {w u v : Nat} (hH : MinDeg3 H) (hm : IsModel p H f)
    (hw : p.V w) (hN : ∀ x, p.V x → p.adj w x = true → x = u ∨ x = v) :
    HasMinorP (p.delV w) H ∨
    (p.V u ∧ u ≠ w ∧ p.adj w u = true ∧ HasMinorP (p.contract u w) H) ∨
    (p.V v ∧ v ≠ w ∧ p.adj w v = true ∧ HasMinorP (p.contract v w) H) := by
  by_cases hun : H.n ≤ f w
  · exact Or.inl ⟨f, hm.delV hun⟩
  · have hlt : f w < H.n := by omega
    right
    by_cases hex : ∃ y, p.V y ∧ f y = f w ∧ y ≠ w
    · obtain ⟨y, hy, hfy, hyw⟩ := hex
      have hc := hm.conn w y hw hy hlt hfy.symm
      obtain ⟨x, hx, hfx, hxw, hadj⟩ := hc.exists_nbr (Ne.symm hyw)
      rcases hN x hx hadj with rfl | rfl
      · exact Or.inl ⟨hx, hxw, hadj, ⟨f, hm.contract hx hxw hfx⟩⟩
      · exact Or.inr ⟨hx, hxw, hadj, ⟨f, hm.contract hx hxw hfx⟩⟩
    · exfalso
      have hsing : ∀ a, p.V a → f a = f w → a = w := by
        intro a ha hfa
        by_contra hne
        exact hex ⟨a, ha, hfa, hne⟩
      obtain ⟨h1, h2, h3, l1, l2, l3, n1, n2, n3, d12, d13, d23, a1, a2, a3⟩ := hH (f w) hlt
      have key : ∀ h, h < H.n → h ≠ f w → H.adj (f w) h = true → h = f u ∨ h = f v := by
        intro h hh hne hadj
        obtain ⟨a, b, ha, hb, hfa, hfb, hab⟩ := hm.edge (f w) h hlt hh (Ne.symm hne) hadj
        have := hsing a ha hfa
        subst this
        rcases hN b hb hab with rfl | rfl
        · exact Or.inl hfb.symm
        · exact Or.inr hfb.symm
      rcases key h1 l1 n1 a1 with e1 | e1 <;> rcases key h2 l2 n2 a2 with e2 | e2 <;>
        rcases key h3 l3 n3 a3 with e3 | e3 <;> omega

/-! ## subdivision -/

section subdivide
variable (g : G) (a b : Nat)

theorem subdivide_V (x : Nat) : (ofG (subdivide g a b)).V x ↔ x < g.n + 1 := ofG_V _ _

/-- adjacency of the new vertex -/
theorem subdivide_adj_new (x : Nat) (h : (ofG (subdivide g a b)).adj g.n x = true) : x = a ∨ x = b := by
  rw [ofG_adj] at h
  simp only [subdivide] at h
  by_cases hx : x = g.n
  · subst hx; simp at h
  · have hx' : (x == g.n) = false := by simpa using hx
    simp [hx'] at h
    exact h.2

/-- adjacency of old vertices -/
theorem subdivide_adj_old {x y : Nat} (hx : x < g.n) (hy : y < g.n) :
    (ofG (subdivide g a b)).adj x y =
      (!((x == a && y == b) || (x == b && y == a)) && (g.adj x y || g.adj y x)) := by
  have hx' : (x == g.n) = false := by simp; omega
  have hy' : (y == g.n) = false := by simp; omega
  simp only [ofG_adj, subdivide, hx', hy', Bool.false_eq_true, if_false]
  cases (x == a) <;> cases (y == b) <;> cases (x == b) <;> cases (y == a) <;> cases g.adj x y <;>
    cases g.adj y x <;> rfl

theorem subdivide_adj_old_new {x : Nat} (hx : x < g.n) (hxa : x = a ∨ x = b) :
    (ofG (subdivide g a b)).adj x g.n = true := by
  have hx' : (x == g.n) = false := by simp; omega
  rw [ofG_adj]
  simp only [subdivide]
  simp [hx', hx, hxa]

theorem subdivide_delV_sub : ((ofG (subdivide g a b)).delV g.n).Sub (ofG g) := by
  refine ⟨?_, ?_⟩
  · intro x hx
    have := delV_V.1 hx
    rw [subdivide_V] at this
    exact (ofG_V g x).2 (by omega)
  · intro x y hx hy _ h
    have hx' := delV_V.1 hx
    have hy' := delV_V.1 hy
    rw [subdivide_V] at hx' hy'
    have h' : (ofG (subdivide g a b)).adj x y = true := h
    rw [subdivide_adj_old g a b (by omega) (by omega), Bool.and_eq_true] at h'
    exact h'.2

/-- contracting the new vertex into an end of the subdivided edge gives (a subgraph of) `g` back -/
theorem subdivide_contract_sub (hab : (g.adj a b || g.adj b a) = true) (c d : Nat)
    (hcd : (c = a ∧ d = b) ∨ (c = b ∧ d = a)) :
    ((ofG (subdivide g a b)).contract c g.n).Sub (ofG g) := by
  have hcd' : (g.adj c d || g.adj d c) = true := by
    rcases hcd with ⟨rfl, rfl⟩ | ⟨rfl, rfl⟩
    · exact hab
    · rw [Bool.or_comm]; exact hab
  refine ⟨?_, ?_⟩
  · intro x hx
    have := contract_V.1 hx
    rw [subdivide_V] at this
    exact (ofG_V g x).2 (by omega)
  · intro x y hx hy hne h
    have hx' := contract_V.1 hx
    have hy' := contract_V.1 hy
    rw [subdivide_V] at hx' hy'
    have hxn : x < g.n := by omega
    have hyn : y < g.n := by omega
    simp only [PG.contract, Bool.and_eq_true, bne_iff_ne, ne_eq] at h
    obtain ⟨_, h⟩ := h
    rw [ofG_adj]
    by_cases hxc : x = c
    · subst hxc
      simp only [beq_self_eq_true, if_true, Bool.or_eq_true] at h
      rcases h with h | h
      · rw [subdivide_adj_old g a b hxn hyn, Bool.and_eq_true] at h; exact h.2
      · have := subdivide_adj_new g a b y h
        have hyd : y = d := by
          rcases hcd with ⟨e1, e2⟩ | ⟨e1, e2⟩ <;> rcases this with e | e <;> omega
        rw [hyd]; exact hcd'
    · by_cases hyc : y = c
      · subst hyc
        simp only [beq_iff_eq, hxc, if_false, beq_self_eq_true, if_true, Bool.or_eq_true] at h
        rcases h with h | h
        · rw [subdivide_adj_old g a b hxn hyn, Bool.and_eq_true] at h; exact h.2
        · rw [(ofG_sym _) x g.n] at h
          have := subdivide_adj_new g a b x h
          have hxd : x = d := by
            rcases hcd with ⟨e1, e2⟩ | ⟨e1, e2⟩ <;> rcases this with e | e <;> omega
          rw [hxd, Bool.or_comm]; exact hcd'
      · simp only [beq_iff_eq, hxc, hyc, if_false] at h
        rw [subdivide_adj_old g a b hxn hyn, Bool.and_eq_true] at h; exact h.2

/-- `g` is a subgraph of the subdivision with the new vertex contracted into `a` -/
theorem sub_subdivide_contract (ha : a < g.n) (hb : b < g.n) (hne : a ≠ b) :
    (ofG g).Sub ((ofG (subdivide g a b)).contract a g.n) := by
  refine ⟨?_, ?_⟩
  · intro x hx
    have := (ofG_V g x).1 hx
    exact contract_V.2 ⟨(subdivide_V g a b x).2 (by omega), by omega⟩
  · intro x y hx hy hxy h
    have hxn := (ofG_V g x).1 hx
    have hyn := (ofG_V g y).1 hy
    rw [ofG_adj] at h
    have e : (x != y) = true := by simpa using hxy
    simp only [PG.contract, e, Bool.true_and]
    by_cases hxa : x = a
    · subst hxa
      simp only [beq_self_eq_true, if_true, Bool.or_eq_true]
      by_cases hyb : y = b
      · right
        rw [(ofG_sym _) g.n y]
        exact subdivide_adj_old_new g x b hyn (Or.inr hyb)
      · left
        rw [subdivide_adj_old g x b hxn hyn, Bool.and_eq_true]
        refine ⟨?_, h⟩
        simp [hyb, Ne.symm hxy]
    · by_cases hya : y = a
      · subst hya
        simp only [beq_iff_eq, hxa, if_false, beq_self_eq_true, if_true, Bool.or_eq_true]
        by_cases hxb : x = b
        · right
          exact subdivide_adj_old_new g y b hxn (Or.inr hxb)
        · left
          rw [subdivide_adj_old g y b hxn hyn, Bool.and_eq_true]
          refine ⟨?_, h⟩
          simp [hxb, hxa]
      · simp only [beq_iff_eq, hxa, hya, if_false]
        rw [subdivide_adj_old g a b hxn hyn, Bool.and_eq_true]
        refine ⟨?_, h⟩
        simp [hxa, hya]

theorem hasMinor_subdivide_iff' {H : G} (hH : MinDeg3 H) (ha : a < g.n) (hb : b < g.n) (hne : a ≠ b)
    (hab : (g.adj a b || g.adj b a) = true) : HasMinor (subdivide g a b) H ↔ HasMinor g H := by
  have hs := ofG_sym (subdivide g a b)
  have hw : (ofG (subdivide g a b)).V g.n := (subdivide_V g a b g.n).2 (by omega)
  have hVa : (ofG (subdivide g a b)).V a := (subdivide_V g a b a).2 (by omega)
  constructor
  · rintro ⟨f, hf⟩
    rcases lowdeg_elim hH hf hw (fun x _ h => subdivide_adj_new g a b x h) with h | ⟨_, _, _, h⟩ | ⟨_, _, _, h⟩
    · exact h.of_sub (subdivide_delV_sub g a b)
    · exact h.of_sub (subdivide_contract_sub g a b hab a b (Or.inl ⟨rfl, rfl⟩))
    · exact h.of_sub (subdivide_contract_sub g a b hab b a (Or.inr ⟨rfl, rfl⟩))
  · intro h
    have h' : HasMinorP ((ofG (subdivide g a b)).contract a g.n) H := h.of_sub (sub_subdivide_contract g a b ha hb hne)
    exact h'.of_contract hs hVa hw (by omega) (subdivide_adj_old_new g a b ha (Or.inl rfl))

end subdivide

/-! ## isolated and pendant vertices -/

theorem addIsolated_adj_new (g : G) (x : Nat) : (ofG (addIsolated g)).adj g.n x = false := by
  simp [ofG_adj, addIsolated]

theorem addIsolated_adj_old (g : G) {x y : Nat} (hx : x < g.n) (hy : y < g.n) :
    (ofG (addIsolated g)).adj x y = (ofG g).adj x y := by
  simp [ofG_adj, addIsolated, hx, hy]

theorem hasMinor_addIsolated_iff' (g : G) {H : G} (hH : MinDeg3 H) : HasMinor (addIsolated g) H ↔ HasMinor g H := by
  have hw : (ofG (addIsolated g)).V g.n := (ofG_V _ _).2 (Nat.lt_succ_self _)
  constructor
  · rintro ⟨f, hf⟩
    rcases lowdeg_elim (u := 0) (v := 0) hH hf hw
      (fun x _ h => by rw [addIsolated_adj_new] at h; cases h) with h | ⟨_, _, h, _⟩ | ⟨_, _, h, _⟩
    · refine h.of_sub ⟨?_, ?_⟩
      · intro x hx
        have := delV_V.1 hx
        rw [ofG_V] at this
        exact (ofG_V g x).2 (by have := this.1; simp only [addIsolated] at this; omega)
      · intro x y hx hy _ h
        have hx' := delV_V.1 hx
        have hy' := delV_V.1 hy
        rw [ofG_V] at hx' hy'
        have h1 : x < g.n := by have := hx'.1; simp only [addIsolated] at this; omega
        have h2 : y < g.n := by have := hy'.1; simp only [addIsolated] at this; omega
        rw [← addIsolated_adj_old g h1 h2]; exact h
    · rw [addIsolated_adj_new] at h; cases h
    · rw [addIsolated_adj_new] at h; cases h
  · intro h
    refine h.of_sub ⟨?_, ?_⟩
    · intro x hx
      exact (ofG_V _ _).2 (Nat.lt_succ_of_lt ((ofG_V g x).1 hx))
    · intro x y hx hy _ h
      rw [addIsolated_adj_old g ((ofG_V g x).1 hx) ((ofG_V g y).1 hy)]; exact h

theorem addPendant_adj_new (g : G) (a x : Nat) (h : (ofG (addPendant g a)).adj g.n x = true) : x = a := by
  rw [ofG_adj] at h
  simp only [addPendant] at h
  by_cases hx : x = g.n
  · subst hx; simp at h
  · have hx' : (x == g.n) = false := by simpa using hx
    simp [hx'] at h
    exact h.2

theorem addPendant_adj_old (g : G) (a : Nat) {x y : Nat} (hx : x < g.n) (hy : y < g.n) :
    (ofG (addPendant g a)).adj x y = (ofG g).adj x y := by
  have hx' : ¬ x = g.n := by omega
  have hy' : ¬ y = g.n := by omega
  simp [ofG_adj, addPendant, hx', hy']

theorem hasMinor_addPendant_iff' (g : G) (a : Nat) {H : G} (hH : MinDeg3 H) :
    HasMinor (addPendant g a) H ↔ HasMinor g H := by
  have hw : (ofG (addPendant g a)).V g.n := (ofG_V _ _).2 (Nat.lt_succ_self _)
  have hVlt : ∀ x, (ofG (addPendant g a)).V x → x ≠ g.n → x < g.n := by
    intro x hx hne
    have := (ofG_V _ _).1 hx
    simp only [addPendant] at this
    omega
  constructor
  · rintro ⟨f, hf⟩
    rcases lowdeg_elim (u := a) (v := a) hH hf hw
      (fun x _ h => Or.inl (addPendant_adj_new g a x h)) with h | ⟨_, _, _, h⟩ | ⟨_, _, _, h⟩
    · refine h.of_sub ⟨?_, ?_⟩
      · intro x hx
        have := delV_V.1 hx
        exact (ofG_V g x).2 (hVlt x this.1 this.2)
      · intro x y hx hy _ h
        have hx' := delV_V.1 hx
        have hy' := delV_V.1 hy
        rw [← addPendant_adj_old g a (hVlt x hx'.1 hx'.2) (hVlt y hy'.1 hy'.2)]; exact h
    all_goals
      refine h.of_sub ⟨?_, ?_⟩
      · intro x hx
        have := contract_V.1 hx
        exact (ofG_V g x).2 (hVlt x this.1 this.2)
      · intro x y hx hy hne h
        have hx' := contract_V.1 hx
        have hy' := contract_V.1 hy
        have hxn := hVlt x hx'.1 hx'.2
        have hyn := hVlt y hy'.1 hy'.2
        simp only [PG.contract, Bool.and_eq_true, bne_iff_ne, ne_eq] at h
        obtain ⟨_, h⟩ := h
        by_cases hxa : x = a
        · subst hxa
          simp only [beq_self_eq_true, if_true, Bool.or_eq_true] at h
          rcases h with h | h
          · rw [← addPendant_adj_old g x hxn hyn]; exact h
          · exact absurd (addPendant_adj_new g x y h) (Ne.symm hne)
        · by_cases hya : y = a
          · subst hya
            simp only [beq_iff_eq, hxa, if_false, beq_self_eq_true, if_true, Bool.or_eq_true] at h
            rcases h with h | h
            · rw [← addPendant_adj_old g y hxn hyn]; exact h
            · rw [(ofG_sym _) x g.n] at h
              exact absurd (addPendant_adj_new g y x h) hxa
          · simp only [beq_iff_eq, hxa, hya, if_false] at h
            rw [← addPendant_adj_old g a hxn hyn]; exact h
  · intro h
    refine h.of_sub ⟨?_, ?_⟩
    · intro x hx
      exact (ofG_V _ _).2 (Nat.lt_succ_of_lt ((ofG_V g x).1 hx))
    · intro x y hx hy _ h
      rw [addPendant_adj_old g a ((ofG_V g x).1 hx) ((ofG_V g y).1 hy)]; exact h

end Minor
