import Mamba.Lemmas.DistanceBiconStatic3
/-!
# Static theory: a block has no articulation vertex
-/
namespace GDist
open GraphSpec Model

variable {h : G} {st : BicSt} {tp : Nat → Nat}

theorem mem_erase_nodup {B : List Nat} (hnd : B.Nodup) {y v : Nat} : y ∈ B.erase v ↔ (y ∈ B ∧ y ≠ v) := by
  rw [List.Nodup.mem_erase_iff hnd]
  exact ⟨fun h => ⟨h.2, h.1⟩, fun h => ⟨h.2, h.1⟩⟩

namespace DFinal
variable (df : DFinal h st tp)
include df

/-- walking up from `y` to its ancestor `c`, all the vertices passed lying in `V` -/
theorem walk_up_to (hsym : ∀ u v, h.adj u v = h.adj v u) (V : List Nat) {c y : Nat} (hy : y < h.n)
    (ha : Anc tp c y) (hV : ∀ w, Anc tp c w → Anc tp w y → w ∈ V) : ReachIn h V y c := by
  obtain ⟨k, hk⟩ := ha
  rw [← hk]
  apply df.tree_walk_up_in hsym V k y hy
  intro j hj
  exact hV _ ⟨k - j, by rw [← Function.iterate_add_apply, Nat.sub_add_cancel hj, hk]⟩ ⟨j, rfl⟩

/-- below a vertex `v` of the block, a child that stays in the block has a back edge to a vertex of the block
strictly above `v` -/
theorem block_back_edge {l v c : Nat} (hl : Ldr h st tp l) (hv : NL st tp l v) (hvn : v < h.n) (hc : c < h.n)
    (htc : tp c = v) (hcv : c ≠ v) (hnc : NL st tp l c) :
    ∃ z a, z < h.n ∧ a < h.n ∧ NL st tp l z ∧ Anc tp c z ∧ h.adj z a = true ∧ InBlk st tp l a ∧
      Anc tp a v ∧ a ≠ v := by
  have hln := hl.1
  have hvc : Anc tp v c := anc_of_parent htc
  have hc0 : c ≠ 0 := df.ne_zero_of_proper hvc hcv
  have hdc := df.depth_child hc hc0
  rw [htc] at hdc
  have hcl : c ≠ l := by
    intro h0; subst h0
    exact hcv (df.dt.anc_antisymm hvn (df.hall v hvn) hv.1 hvc)
  have hlow : lo st c < dI st v := by
    have := hnc.2 c hnc.1 (Anc.refl _ _) hcl
    rwa [htc] at this
  rcases df.loatt' hc with h0 | ⟨z, a, hz, hcz, hadj, ha, hne, h0⟩
  · omega
  have hda : dI st a < dI st v := by omega
  have hdz := df.dt.anc_depth hz (df.hall z hz) hcz
  have haz : Anc tp a z := by
    rcases df.dt.nocross z a hz ha (df.hall z hz) (df.hall a ha) hadj with h1 | h1
    · have := df.dt.anc_depth ha (df.hall a ha) h1; omega
    · exact h1
  have hvz : Anc tp v z := hvc.trans hcz
  have hav : Anc tp a v := by
    rcases anc_linear haz hvz with h1 | h1
    · exact h1
    · have := df.dt.anc_depth ha (df.hall a ha) h1; omega
  have hav' : a ≠ v := fun h0 => by rw [h0] at hda; omega
  have hlz : Anc tp l z := hv.1.trans hvz
  have hlo := df.lob' hln hz ha hlz hadj hne
  have hp := df.parent_lt hln hl.2.1
  have hpl : Anc tp (tp l) l := anc_of_parent rfl
  have hpv : Anc tp (tp l) v := hpl.trans hv.1
  have hdl := df.depth_child hln hl.2.1
  have hge := hl.2.2
  have hina : InBlk st tp l a := by
    rcases anc_linear hpv hav with h1 | h1
    · by_cases hap : a = tp l
      · exact .inl hap
      · right
        rcases anc_linear hv.1 hav with h2 | h2
        · exact hv.pre h2 hav
        · by_cases hal : a = l
          · subst hal; exact NL.refl df.dt hln (df.hall _ hln)
          · exfalso
            have l1 := df.anc_lt hln h2 hal
            have l2 := df.anc_lt ha h1 (Ne.symm hap)
            omega
    · left
      have := df.dt.anc_depth hp (df.hall _ hp) h1
      exact df.anc_eq_of_depth hvn hav hpv (by omega)
  refine ⟨z, a, hz, ha, ⟨hlz, ?_⟩, hcz, hadj, hina, hav, hav'⟩
  intro w hw1 hw2 hwl
  rcases anc_linear hw2 hcz with h1 | h1
  · exact hnc.2 w hw1 h1 hwl
  · by_cases hwc : w = c
    · subst hwc; exact hnc.2 w hw1 (Anc.refl _ _) hwl
    · have hwn := df.anc_n hz hw2
      have l1 := df.lob' hwn hz ha hw2 hadj hne
      have h2 := anc_parent_of_ne h1 hwc
      have hw0 : w ≠ 0 := df.ne_zero_of_proper h1 hwc
      have hpw := df.parent_lt hwn hw0
      have l2 := df.dt.anc_depth hpw (df.hall _ hpw) h2
      omega

/-- **a block has no articulation vertex** (local labels) -/
theorem block_no_sep (hsym : ∀ u v, h.adj u v = h.adj v u) {l : Nat} (hl : Ldr h st tp l) (B : List Nat)
    (hB : ∀ w, w ∈ B ↔ (w < h.n ∧ InBlk st tp l w)) (hnd : B.Nodup) : ∀ v ∈ B, ¬ SepIn h B v := by
  intro v hvB
  have hln := hl.1
  have hp := df.parent_lt hln hl.2.1
  have hdl := df.depth_child hln hl.2.1
  have hlB : l ∈ B := (hB l).2 ⟨hln, .inr (NL.refl df.dt hln (df.hall l hln))⟩
  have hpB : tp l ∈ B := (hB _).2 ⟨hp, .inl rfl⟩
  have hadjl := (df.dt.tree l hln (df.hall l hln) hl.2.1).2.2.1
  have hNLB : ∀ w, w < h.n → NL st tp l w → w ∈ B := fun w hw hn => (hB w).2 ⟨hw, .inr hn⟩
  -- it suffices to find a vertex that every other vertex reaches without `v`
  suffices hR : ∃ R, ∀ y ∈ B, y ≠ v → ReachIn h (B.erase v) y R by
    obtain ⟨R, hR⟩ := hR
    rintro ⟨x, y, hx, hy, _, hnr⟩
    obtain ⟨hx1, hx2⟩ := (mem_erase_nodup hnd).1 hx
    obtain ⟨hy1, hy2⟩ := (mem_erase_nodup hnd).1 hy
    exact hnr ((hR x hx1 hx2).trans ((hR y hy1 hy2).symm hsym))
  obtain ⟨hvn, hvor⟩ := (hB v).1 hvB
  rcases hvor with hvp | hvN
  · -- `v` is the top of the block
    refine ⟨l, ?_⟩
    intro y hy hyv
    obtain ⟨hyn, hor⟩ := (hB y).1 hy
    rcases hor with h0 | h0
    · exact absurd (h0.trans hvp.symm) hyv
    · apply df.walk_up_to hsym _ hyn h0.1
      intro w hw1 hw2
      have hwn := df.anc_n hyn hw2
      refine (mem_erase_nodup hnd).2 ⟨hNLB w hwn (h0.pre hw1 hw2), ?_⟩
      intro h1
      have := df.dt.anc_depth hwn (df.hall w hwn) hw1
      rw [h1, hvp] at this; omega
  · -- `v` is inside the block
    have hvp : v ≠ tp l := by
      intro h0
      have := df.dt.anc_depth hvn (df.hall v hvn) hvN.1
      rw [h0] at this; omega
    have hpE : tp l ∈ B.erase v := (mem_erase_nodup hnd).2 ⟨hpB, Ne.symm hvp⟩
    refine ⟨tp l, ?_⟩
    -- vertices that are not below `v`
    have hU : ∀ y, y < h.n → NL st tp l y → ¬ Anc tp v y → ReachIn h (B.erase v) y (tp l) := by
      intro y hyn hyN hnv
      have h1 : ReachIn h (B.erase v) y l := by
        apply df.walk_up_to hsym _ hyn hyN.1
        intro w hw1 hw2
        have hwn := df.anc_n hyn hw2
        refine (mem_erase_nodup hnd).2 ⟨hNLB w hwn (hyN.pre hw1 hw2), ?_⟩
        intro h0; subst h0; exact hnv hw2
      have h2 : ReachIn h (B.erase v) l (tp l) :=
        ⟨1, .step (.base h1.mem_V) (by rw [hsym]; exact hadjl) hpE⟩
      exact h1.trans h2
    intro y hy hyv
    obtain ⟨hyn, hor⟩ := (hB y).1 hy
    rcases hor with h0 | hyN
    · rw [h0]; exact ReachIn.refl hpE
    · by_cases hvy : Anc tp v y
      · obtain ⟨c, hc1, hc2, hc3⟩ := anc_child hvy hyv
        have hcn := df.anc_n hyn hc3
        have hvc : Anc tp v c := anc_of_parent hc1
        have hcN : NL st tp l c := hyN.pre (hvN.1.trans hvc) hc3
        have hdc := df.depth_child hcn (df.ne_zero_of_proper hvc hc2)
        rw [hc1] at hdc
        -- vertices below `c` in the block are not `v`
        have hbelow : ∀ x, x < h.n → NL st tp l x → Anc tp c x → ∀ w, Anc tp c w → Anc tp w x →
            w ∈ B.erase v := by
          intro x hxn hxN _ w hw1 hw2
          have hwn := df.anc_n hxn hw2
          refine (mem_erase_nodup hnd).2 ⟨hNLB w hwn (hxN.pre ((hvN.1.trans hvc).trans hw1) hw2), ?_⟩
          intro h0
          have := df.dt.anc_depth hwn (df.hall w hwn) hw1
          rw [h0] at this; omega
        have r1 : ReachIn h (B.erase v) y c := df.walk_up_to hsym _ hyn hc3 (hbelow y hyn hyN hc3)
        obtain ⟨z, a, hz, ha, hzN, hcz, hadj, hina, hav, hav'⟩ := df.block_back_edge hl hvN hvn hcn hc1 hc2 hcN
        have r2 : ReachIn h (B.erase v) z c := df.walk_up_to hsym _ hz hcz (hbelow z hz hzN hcz)
        have haB : a ∈ B.erase v := (mem_erase_nodup hnd).2 ⟨(hB a).2 ⟨ha, hina⟩, hav'⟩
        have r3 : ReachIn h (B.erase v) z a := ⟨1, .step (.base (hbelow z hz hzN hcz z hcz (Anc.refl _ _))) hadj haB⟩
        have r4 : ReachIn h (B.erase v) a (tp l) := by
          rcases hina with h0 | h0
          · rw [h0]; exact ReachIn.refl hpE
          · apply hU a ha h0
            intro hva
            exact hav' (df.dt.anc_antisymm hvn (df.hall v hvn) hav hva)
        exact (r1.trans (r2.symm hsym)).trans (r3.trans r4)
      · exact hU y hyn hyN hvy

end DFinal
end GDist
