import Mamba.Lemmas.CanonFTotalInv
/-!
# Totality: counting the classes of a union–find (`numRoots`) through the orbit loop

`Find` only redirects non-roots to non-negative parents (the number of roots does not change or — without the invariant —
at least does not grow); `Union` of two different classes turns exactly one root into a non-root.
-/
namespace CanonF

theorem nr_eq_countP (ds : Disjoint.DS) : numRoots ds = ds.toList.countP (fun x => decide (x < 0)) := by
  unfold numRoots; rw [List.countP_eq_length_filter]

/-- the effect of one write on the number of roots -/
theorem nr_set (ds : Disjoint.DS) (i : Nat) (v : Int) (hi : i < ds.size) :
    numRoots (ds.setIfInBounds i v) =
      (numRoots ds - if ds[i] < 0 then 1 else 0) + if v < 0 then 1 else 0 := by
  rw [nr_eq_countP, nr_eq_countP, Array.toList_setIfInBounds, List.countP_set (by simpa using hi)]
  simp only [Array.getElem_toList, decide_eq_true_eq]

theorem nr_set_oob (ds : Disjoint.DS) (i : Nat) (v : Int) (hi : ¬ i < ds.size) : ds.setIfInBounds i v = ds := by
  apply Array.ext_getElem?
  intro j
  rw [Array.getElem?_setIfInBounds]
  by_cases hij : i = j
  · subst hij; rw [if_pos rfl, if_neg hi]; simp; omega
  · rw [if_neg hij]

/-- a root exists at position `i` iff the entry is negative; then the count is positive -/
theorem nr_pos_of_root (ds : Disjoint.DS) (i : Nat) (hi : i < ds.size) (h : ds[i] < 0) : 1 ≤ numRoots ds := by
  rw [nr_eq_countP]
  exact List.countP_pos_iff.2 ⟨ds[i], by simp, by simpa using h⟩

/-- writing a non-negative value never increases the number of roots -/
theorem nr_set_nonneg_le (ds : Disjoint.DS) (i : Nat) (v : Int) (hv : 0 ≤ v) :
    numRoots (ds.setIfInBounds i v) ≤ numRoots ds := by
  by_cases hi : i < ds.size
  · have h2 : (if v < 0 then 1 else 0) = 0 := if_neg (by omega)
    rw [nr_set ds i v hi, h2]
    omega
  · rw [nr_set_oob ds i v hi]

/-- a root becomes a non-root: one class less -/
theorem nr_set_root (ds : Disjoint.DS) (i : Nat) (v : Int) (hi : i < ds.size) (hr : ds[i] < 0) (hv : 0 ≤ v) :
    numRoots (ds.setIfInBounds i v) + 1 = numRoots ds := by
  have := nr_pos_of_root ds i hi hr
  have h2 : (if v < 0 then 1 else 0) = 0 := if_neg (by omega)
  rw [nr_set ds i v hi, if_pos hr, h2]
  omega

/-- a root stays a root (rank update) -/
theorem nr_set_neg (ds : Disjoint.DS) (i : Nat) (v : Int) (hi : i < ds.size) (hr : ds[i] < 0) (hv : v < 0) :
    numRoots (ds.setIfInBounds i v) = numRoots ds := by
  have := nr_pos_of_root ds i hi hr
  rw [nr_set ds i v hi, if_pos hr, if_pos hv]
  omega

theorem nr_compress_le (tmp : Nat) : ∀ (xs : List Nat) (ds : Disjoint.DS),
    numRoots (Disjoint.compress ds tmp xs) ≤ numRoots ds := by
  intro xs
  induction xs with
  | nil => intro ds; exact Nat.le_refl _
  | cons x xs ih =>
    intro ds
    have e : Disjoint.compress ds tmp (x :: xs) = Disjoint.compress (ds.setIfInBounds x (tmp : Int)) tmp xs := rfl
    rw [e]
    exact Nat.le_trans (ih _) (nr_set_nonneg_le ds x _ (by omega))

/-- `Find` does not increase the number of roots -/
theorem nr_find_le {ds ds' : Disjoint.DS} {x r : Nat} (h : Disjoint.find ds x = .ok (ds', r)) :
    numRoots ds' ≤ numRoots ds := by
  unfold Disjoint.find Disjoint.findF at h
  osplit h
  · cases h; exact Nat.le_refl _
  · cases h; exact nr_compress_le _ _ _

theorem nr_getD {ds : Disjoint.DS} {i : Nat} (hi : i < ds.size) : ds.getD i 0 = ds[i] := by
  simp [Array.getD, hi]

/-- linking two different roots: one class less -/
theorem nr_link {ds ds' : Disjoint.DS} {a b : Nat} (h : Disjoint.link ds a b = .ok ds') (hab : a ≠ b)
    (ha : a < ds.size) (hb : b < ds.size) (hra : ds[a] < 0) (hrb : ds[b] < 0) :
    numRoots ds' + 1 = numRoots ds := by
  unfold Disjoint.link at h
  rw [if_neg hab] at h
  have ea : ds[a]? = some ds[a] := by simp [ha]
  have eb : ds[b]? = some ds[b] := by simp [hb]
  rw [ea, eb] at h
  by_cases c1 : ds[a] < ds[b]
  · simp only [c1, if_true] at h
    cases h; exact nr_set_root ds b _ hb hrb (by omega)
  · by_cases c2 : ds[b] < ds[a]
    · simp only [c1, c2, if_true, if_false] at h
      cases h; exact nr_set_root ds a _ ha hra (by omega)
    · simp only [c1, c2, if_false] at h
      cases h
      have h1 := nr_set_root ds a (b : Int) ha hra (by omega)
      have hb' : b < (ds.setIfInBounds a (b : Int)).size := by simpa using hb
      have hval : (ds.setIfInBounds a (b : Int))[b] = ds[b] := by
        have h2 : (ds.setIfInBounds a (b : Int))[b]? = ds[b]? := by
          rw [Array.getElem?_setIfInBounds, if_neg hab]
        rw [Array.getElem?_eq_getElem hb', Array.getElem?_eq_getElem hb] at h2
        exact Option.some.inj h2
      rw [nr_set_neg _ b _ hb' (by rw [hval]; exact hrb) (by omega)]
      exact h1

/-- `Union` of two different classes: one class less -/
theorem nr_union {ds ds' : Disjoint.DS} {x y : Nat} (hds : Disjoint.Inv ds) (h : Disjoint.union ds x y = .ok ds')
    (hne : Disjoint.rep ds x ≠ Disjoint.rep ds y) : numRoots ds' + 1 ≤ numRoots ds := by
  unfold Disjoint.union at h
  cases hf1 : Disjoint.find ds x with
  | ok pr1 =>
    obtain ⟨d1, px⟩ := pr1
    rw [hf1] at h; simp only at h
    obtain ⟨hx, hpx, i1, s1, k1⟩ := h2_find_ok hds hf1
    cases hf2 : Disjoint.find d1 y with
    | ok pr2 =>
      obtain ⟨d2, py⟩ := pr2
      rw [hf2] at h; simp only at h
      obtain ⟨hy, hpy, i2, s2, k2⟩ := h2_find_ok i1 hf2
      have hpx2 : px = Disjoint.rep d2 x := by rw [k2 x (by omega), k1 x hx]; exact hpx
      have hpy2 : py = Disjoint.rep d2 y := by rw [k2 y hy]; exact hpy
      obtain ⟨lx, yx, ex, nx⟩ := rep_is_root i2 (v := x) (by omega)
      obtain ⟨ly, yy, ey, ny⟩ := rep_is_root i2 (v := y) (by omega)
      rw [← hpx2] at lx ex
      rw [← hpy2] at ly ey
      have hrx : d2[px] < 0 := by
        have : d2[px]? = some d2[px] := by simp [lx]
        rw [this] at ex; injection ex with ex; omega
      have hry : d2[py] < 0 := by
        have : d2[py]? = some d2[py] := by simp [ly]
        rw [this] at ey; injection ey with ey; omega
      have hpne : px ≠ py := by
        rw [hpx, hpy, k1 y (by omega)]; exact hne
      have := nr_link h hpne lx ly hrx hry
      have := nr_find_le hf1
      have := nr_find_le hf2
      omega
    | panic => rw [hf2] at h; simp at h
    | outOfFuel => rw [hf2] at h; simp at h
  | panic => rw [hf1] at h; simp at h
  | outOfFuel => rw [hf1] at h; simp at h

/-- one step of the orbit loop -/
theorem nr_orbitStep {order permInv : Sl Nat} {i : Nat} {ds ds' : Disjoint.DS} {mm mm' : Bool}
    (hds : Disjoint.Inv ds) (h : orbitStep order permInv i (ds, mm) = .ok (ds', mm')) :
    numRoots ds' ≤ numRoots ds ∧ (mm' = true → mm = true ∨ numRoots ds' + 1 ≤ numRoots ds) := by
  unfold orbitStep at h
  simp only at h
  cases hp : permInv.get i with
  | ok p =>
    rw [hp] at h; simp only at h
    cases hv : order.get p with
    | ok v =>
      rw [hv] at h; simp only at h
      cases hf1 : Disjoint.find ds v with
      | ok pr1 =>
        obtain ⟨d1, r1⟩ := pr1
        rw [hf1] at h; simp only at h
        obtain ⟨hx1, hr1, i1, s1, k1⟩ := h2_find_ok hds hf1
        cases hf2 : Disjoint.find d1 i with
        | ok pr2 =>
          obtain ⟨d2, r2⟩ := pr2
          rw [hf2] at h; simp only at h
          obtain ⟨hx2, hr2, i2, s2, k2⟩ := h2_find_ok i1 hf2
          have l1 := nr_find_le hf1
          have l2 := nr_find_le hf2
          by_cases hne : r1 ≠ r2
          · rw [if_pos hne] at h
            cases hu : Disjoint.union d2 i v with
            | ok d3 =>
              rw [hu] at h
              injection h with h
              injection h with hd hm
              subst hd
              have hne' : Disjoint.rep d2 i ≠ Disjoint.rep d2 v := by
                rw [k2 i hx2, k2 v (by omega), ← hr2, k1 v hx1, ← hr1]
                exact fun e => hne e.symm
              have := nr_union i2 hu hne'
              exact ⟨by omega, fun _ => Or.inr (by omega)⟩
            | panic => rw [hu] at h; simp at h
            | outOfFuel => rw [hu] at h; simp at h
          · rw [if_neg hne] at h
            injection h with h
            injection h with hd hm
            subst hd
            exact ⟨by omega, fun e => Or.inl (by rw [hm]; exact e)⟩
        | panic => rw [hf2] at h; simp at h
        | outOfFuel => rw [hf2] at h; simp at h
      | panic => rw [hf1] at h; simp at h
      | outOfFuel => rw [hf1] at h; simp at h
    | panic => rw [hv] at h; simp at h
    | outOfFuel => rw [hv] at h; simp at h
  | panic => rw [hp] at h; simp at h
  | outOfFuel => rw [hp] at h; simp at h

theorem numRoots_new (n : Nat) : numRoots (Disjoint.new n) = n := by
  unfold numRoots Disjoint.new
  simp

/-- the orbit loop never increases the number of classes; a merge decreases it; at least one class remains -/
theorem numRoots_orbitLoop {n : Nat} {order permInv : Sl Nat} {ds ds' : Disjoint.DS} {merges : Bool}
    (hinv : Disjoint.Inv ds) (hsz : ds.size = n) (hn : 0 < n)
    (h : forRange (orbitStep order permInv) n 0 (ds, false) = .ok (ds', merges)) :
    numRoots ds' ≤ numRoots ds ∧ (merges = true → numRoots ds' + 1 ≤ numRoots ds) ∧ 1 ≤ numRoots ds' := by
  have key := forRange_inv (orbitStep order permInv)
    (fun _ (st : Disjoint.DS × Bool) => Disjoint.Inv st.1 ∧ numRoots st.1 ≤ numRoots ds ∧
      (st.2 = true → numRoots st.1 + 1 ≤ numRoots ds))
    n 0 (ds, false) (ds', merges) ⟨hinv, Nat.le_refl _, fun e => by cases e⟩ ?_ h
  · obtain ⟨k1, k2, k3⟩ := key
    simp only at k1 k2 k3
    refine ⟨k2, k3, ?_⟩
    have hs' : ds'.size = n := by rw [orbitLoop_size h]; exact hsz
    obtain ⟨hl, y, hy, hneg⟩ := rep_is_root k1 (v := 0) (by omega)
    have : ds'[Disjoint.rep ds' 0]? = some ds'[Disjoint.rep ds' 0] := by simp [hl]
    rw [this] at hy; injection hy with hy
    exact nr_pos_of_root ds' _ hl (by omega)
  · rintro i ⟨d, m⟩ ⟨d', m'⟩ _ _ ⟨j1, j2, j3⟩ hstep
    simp only at j1 j2 j3 ⊢
    obtain ⟨a, b⟩ := nr_orbitStep j1 hstep
    refine ⟨(nonroot_orbitStep j1 hstep).1, by omega, fun hm' => ?_⟩
    rcases b hm' with hm | hlt
    · have := j3 hm; omega
    · omega

end CanonF
