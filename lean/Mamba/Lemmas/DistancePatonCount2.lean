import Mamba.Lemmas.DistancePatonCount
/-!
# Paton's phase: `m - n + 1` fundamental cycles
-/
namespace GDist
open GraphSpec Model

variable {a : G}

/-- one iteration of `for len(X) > 0` keeps the invariant `PO` -/
theorem po_step (hsym : ∀ u v, a.adj u v = a.adj v u) (hirr : ∀ v, a.adj v v = false) {st st1 : PatonSt}
    {v : Nat} {X' : List Nat} (o : PO a st) (hX : st.X = v :: X')
    (hscan : patonScan v ((a.nbrs v).filter fun u => !edgeRemoved st.removed u v) { st with X := X' } = .ok st1) :
    PO a st1 := by
  have hvX : v ∈ st.X := by rw [hX]; exact List.mem_cons_self
  obtain ⟨hvn, hvt, hv0⟩ := o.xin v hvX
  have hnd := o.xnd
  rw [hX, List.nodup_cons] at hnd
  have hpair := o.xpair
  rw [hX, List.pairwise_cons] at hpair
  have hX'0 : ∀ x ∈ X', x ≠ 0 := by
    intro x hx
    have hxX : x ∈ st.X := by rw [hX]; exact List.mem_cons_of_mem _ hx
    rcases (o.xin x hxX).2.2 with h | h
    · exact h
    · rw [hX] at h
      have : X' = [] := (List.cons.inj h).2
      rw [this] at hx; cases hx
  have inv : PS a { st with X := X' } v :=
    { tsz := o.tsz, dsz := o.dsz, root := o.root, ptree := o.ptree, pdep := o.pdep,
      xin := fun x hx => by
        have hxX : x ∈ st.X := by rw [hX]; exact List.mem_cons_of_mem _ hx
        exact ⟨(o.xin x hxX).1, (o.xin x hxX).2.1, hX'0 x hx⟩,
      xnd := hnd.2, vnx := hnd.1, cur := ⟨hvn, hvt⟩,
      leaf := fun x hx ht hm => by
        by_cases hx0 : x = 0
        · subst hx0
          rw [par_root o.root] at hm
          exact hX'0 0 hm rfl
        · exact o.leaf x hx ht hx0 (by rw [hX]; exact List.mem_cons_of_mem _ hm),
      xanc := fun x hx => by
        obtain ⟨k, h1, h2⟩ := hpair.1 x hx
        have hv0' : v ≠ 0 := by
          rcases hv0 with h | h
          · exact h
          · rw [hX] at h
            have : X' = [] := (List.cons.inj h).2
            rw [this] at hx; cases hx
        have hd := (o.pdep v hvn hvt hv0').1
        exact ⟨k + 1, by rw [Function.iterate_succ_apply]; exact h1, by
          show dep st.depth (par st.T x) + (k + 1) = dep st.depth v
          omega⟩,
      xpair := hpair.2,
      exam := fun x hx ht hxX hxv => o.exam x hx ht (by
        rw [hX]; intro hm
        rcases List.mem_cons.1 hm with h | h
        · exact hxv h
        · exact hxX h),
      fund := o.fund }
  have hnbnd : ((a.nbrs v).filter fun u => !edgeRemoved st.removed u v).Nodup :=
    (List.nodup_range.filter _).filter _
  obtain ⟨inv1, hrm⟩ := patonScan_sound hsym hirr False _ _ inv hnbnd
    (fun u hu => by
      obtain ⟨h1, h2⟩ := List.mem_filter.1 hu
      obtain ⟨h3, h4⟩ := mem_nbrs.1 h1
      exact ⟨h3, h4, by simpa using h2⟩)
    (fun w hw hwn => by
      cases hh : edgeRemoved st.removed w v with
      | true => exact .inr (.inr rfl)
      | false => exact .inr (.inl (List.mem_filter.2 ⟨mem_nbrs.2 ⟨hwn, hw⟩, by simp [hh]⟩)))
    (fun x hx hp _ => by
      have hxX : x ∈ st.X := by rw [hX]; exact List.mem_cons_of_mem _ hx
      obtain ⟨h1, h2, _⟩ := o.xin x hxX
      exact o.leaf x h1 h2 (hX'0 x hx) (by
        show par st.T x ∈ st.X
        rw [hp]; exact hvX))
    st1 hscan
  exact { tsz := inv1.tsz, dsz := inv1.dsz, root := inv1.root, ptree := inv1.ptree, pdep := inv1.pdep,
          xin := fun x hx => ⟨(inv1.xin x hx).1, (inv1.xin x hx).2.1, .inl (inv1.xin x hx).2.2⟩,
          xnd := inv1.xnd, leaf := fun x hx ht _ => inv1.leaf x hx ht, xpair := inv1.xpair,
          exam := fun x hx ht hxX w hw hwn => by
            by_cases hxv : x = v
            · subst hxv; exact (hrm w hw hwn).resolve_left id
            · exact inv1.exam x hx ht hxX hxv w hw hwn,
          fund := inv1.fund }

theorem patonLoop_count (hsym : ∀ u v, a.adj u v = a.adj v u) (hirr : ∀ v, a.adj v v = false) :
    ∀ (fuel : Nat) (st : PatonSt), PO a st → PC a st → ∀ st', patonLoop a fuel st = .ok st' →
      PO a st' ∧ PC a st' ∧ st'.X = [] := by
  intro fuel
  induction fuel with
  | zero => intro st _ _ st' hres; simp [patonLoop] at hres
  | succ f ih =>
    intro st o pc st' hres
    unfold patonLoop at hres
    match hX : st.X with
    | [] =>
      rw [hX] at hres
      simp only [Outcome.ok.injEq] at hres
      subst hres
      exact ⟨o, pc, hX⟩
    | v :: X' =>
      rw [hX] at hres
      simp only at hres
      have hvX : v ∈ st.X := by rw [hX]; exact List.mem_cons_self
      obtain ⟨hvn, hvt, _⟩ := o.xin v hvX
      cases hscan : patonScan v ((a.nbrs v).filter fun u => !edgeRemoved st.removed u v) { st with X := X' } with
      | panic => rw [hscan] at hres; simp at hres
      | outOfFuel => rw [hscan] at hres; simp at hres
      | ok st1 =>
        rw [hscan] at hres
        simp only at hres
        have o1 := po_step hsym hirr o hX hscan
        have pc0 : PC a { st with X := X' } := ⟨pc.tsz, pc.rin, pc.rnd, pc.cnt⟩
        have pc1 := patonScan_count hsym hvn _ _ pc0 hvt ((List.nodup_range.filter _).filter _)
          (fun u hu => by
            obtain ⟨h1, h2⟩ := List.mem_filter.1 hu
            obtain ⟨h3, h4⟩ := mem_nbrs.1 h1
            exact ⟨h3, h4, by simpa using h2⟩) st1 hscan
        exact ih st1 o1 pc1 st' hres

theorem edges_mem {u v : Nat} : (u, v) ∈ a.edges ↔ (v < a.n ∧ u < v ∧ a.adj u v = true) := by
  unfold G.edges
  simp only [List.mem_flatMap, List.mem_range, List.mem_map, List.mem_filter, Prod.mk.injEq]
  constructor
  · rintro ⟨w, hw, x, ⟨hx1, hx2⟩, rfl, rfl⟩
    exact ⟨hw, hx1, hx2⟩
  · rintro ⟨h1, h2, h3⟩
    exact ⟨v, h1, u, ⟨h2, h3⟩, rfl, rfl⟩

theorem edges_nodup (a : G) : a.edges.Nodup := by
  unfold G.edges
  rw [List.nodup_flatMap]
  constructor
  · intro v _
    exact (List.nodup_range.filter _).map (fun x y h => by simpa using h)
  · refine List.nodup_range.imp ?_
    intro v w hvw
    simp only [Function.onFun]
    intro e h1 h2
    obtain ⟨x, _, rfl⟩ := List.mem_map.1 h1
    obtain ⟨y, _, hy⟩ := List.mem_map.1 h2
    simp at hy
    exact hvw hy.2.symm

/-- **Paton's phase produces exactly `m - n + 1` fundamental cycles on a connected simple graph** -/
theorem paton_fund_count (a : G) (hsym : ∀ u v, a.adj u v = a.adj v u) (hirr : ∀ v, a.adj v v = false)
    (hn : 0 < a.n) (hconn : ∀ x, x < a.n → Reach a 0 x) (fuel : Nat) (st : PatonSt)
    (hres : patonLoop a fuel (patonInit a.n) = .ok st) :
    st.fund.length + a.n = a.m + 1 := by
  have pc0 : PC a (patonInit a.n) := by
    refine ⟨by simp [patonInit], fun e he => by simp [patonInit] at he, by simp [patonInit], ?_⟩
    have hset : (Array.replicate a.n (-1 : Int)).setIfInBounds 0 0
        = (Array.replicate a.n (-1 : Int)).set 0 0 (by simpa using hn) := by
      simp [Array.setIfInBounds, hn]
    unfold patonInit; simp only
    rw [hset, Array.count_set (by simpa using hn)]
    simp
    omega
  obtain ⟨o, pc, hX⟩ := patonLoop_count hsym hirr fuel _ (po_init hn) pc0 st hres
  -- every vertex is in the tree
  have hroot : inTree st.T 0 := by unfold inTree; rw [o.root]; omega
  have hrm : ∀ u v, edgeRemoved st.removed u v = true → inTree st.T u ∧ inTree st.T v := by
    intro u v h
    unfold edgeRemoved at h
    simp only [Bool.or_eq_true, List.contains_iff_mem] at h
    rcases h with h | h
    · obtain ⟨_, _, _, h4, h5⟩ := pc.rin _ h; exact ⟨h4, h5⟩
    · obtain ⟨_, _, _, h4, h5⟩ := pc.rin _ h; exact ⟨h5, h4⟩
  have hall : ∀ x, x < a.n → inTree st.T x := by
    intro x hx
    obtain ⟨k, hk⟩ := hconn x hx
    have : ∀ y k, WalkIn a (List.range a.n) 0 y k → inTree st.T y := by
      intro y k hw
      induction hw with
      | base _ => exact hroot
      | @step u w k hwu hadj hwV ih =>
        have hun := List.mem_range.1 hwu.mem_V
        have := o.exam u hun ih (by rw [hX]; simp) w hadj (List.mem_range.1 hwV)
        exact (hrm w u this).1
    exact this x k hk
  have hcount : st.T.count (-1) = 0 := by
    rw [Array.count_eq_zero]
    intro hm
    obtain ⟨i, hi, hiv⟩ := Array.mem_iff_getElem.1 hm
    have hin := hall i (by rw [← o.tsz]; exact hi)
    unfold inTree at hin
    apply hin
    simp [Array.getD, hi, hiv]
  -- the removed edges are the edges of the graph
  have hnorm_nd : (st.removed.map normE).Nodup := by
    rw [List.Nodup, List.pairwise_map]
    exact pc.rnd
  have hmem : ∀ p, p ∈ st.removed.map normE ↔ p ∈ a.edges := by
    rintro ⟨p1, p2⟩
    constructor
    · intro hp
      obtain ⟨⟨e1, e2⟩, he, hne⟩ := List.mem_map.1 hp
      obtain ⟨h1, h2, h3, _, _⟩ := pc.rin _ he
      simp only at h1 h2 h3
      have hne12 : e1 ≠ e2 := by
        intro h0; subst h0; rw [hirr] at h3; cases h3
      unfold normE at hne
      simp only at hne
      by_cases c : e1 < e2
      · simp only [c, if_true, Prod.mk.injEq] at hne
        rw [← hne.1, ← hne.2]
        exact edges_mem.2 ⟨h2, c, h3⟩
      · simp only [c, if_false, Prod.mk.injEq] at hne
        rw [← hne.1, ← hne.2]
        exact edges_mem.2 ⟨h1, by omega, by rw [hsym]; exact h3⟩
    · intro hp
      obtain ⟨h1, h2, h3⟩ := edges_mem.1 hp
      have := o.exam p2 h1 (hall p2 h1) (by rw [hX]; simp) p1 (by rw [hsym]; exact h3) (by omega)
      unfold edgeRemoved at this
      simp only [Bool.or_eq_true, List.contains_iff_mem] at this
      rcases this with h | h
      · exact List.mem_map.2 ⟨(p1, p2), h, by simp [normE, h2]⟩
      · exact List.mem_map.2 ⟨(p2, p1), h, by
          have : ¬ p2 < p1 := by omega
          simp [normE, this]⟩
  have hlen : st.removed.length = a.m := by
    have := ((List.perm_ext_iff_of_nodup hnorm_nd (edges_nodup a)).2 hmem).length_eq
    simpa [G.m] using this
  have := pc.cnt
  omega

end GDist
