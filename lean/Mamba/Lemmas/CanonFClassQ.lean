import Mamba.Lemmas.CanonFGens
import Mamba.Lemmas.CanonFClassDef
import Mamba.Lemmas.CanonFClassSplit
import Mamba.Lemmas.CanonFClassDeage
import Mamba.Lemmas.CanonFClassRefine
import Mamba.Lemmas.CanonFClassReset
/-!
# The vertex classes through the search: the class invariant is an `OrdQ`, generators preserve the classes
(faithful model `Model/CanonF.lean`)
-/
namespace CanonF

/-- the vertex at position `p` of a leaf lies in the initial cell of position `p` -/
def ClsPL (cl : Nat → Nat) (bd0 : List Nat) (o : List Nat) : Prop := ∀ p v, o[p]? = some v → cl v = binIdx bd0 p

/-- `γ` maps every vertex to a vertex of the same initial cell -/
def ClsR (cl : Nat → Nat) (γ : List Nat) : Prop := ∀ v w, γ[v]? = some w → cl w = cl v

theorem mem_bd_of_mem_divs {op : OP} {d : Nat} {a : Int} (h : (d, a) ∈ divs op) : d ∈ op.binDividers.toList :=
  (List.of_mem_zip h).1

theorem transport_cls {n : Nat} {cl : Nat → Nat} {bd0 o1 o2 : List Nat} (h1 : o1.Perm (List.range n))
    (h2 : o2.Perm (List.range n)) (p1 : ClsPL cl bd0 o1) (p2 : ClsPL cl bd0 o2) : ClsR cl (transport n o1 o2) := by
  obtain ⟨hl1, hnd1, hmem1⟩ := aut_perm_facts h1
  obtain ⟨hl2, _, _⟩ := aut_perm_facts h2
  intro v w hvw
  unfold transport at hvw
  rw [List.getElem?_map] at hvw
  by_cases hv : v < n
  · rw [List.getElem?_range hv] at hvw
    simp only [Option.map_some, Option.some.injEq] at hvw
    have hmem : v ∈ o1 := (hmem1 v).2 hv
    have hidx : o1.idxOf v < o1.length := List.idxOf_lt_length_of_mem hmem
    have e1 : o1[o1.idxOf v]? = some v := by
      rw [List.getElem?_eq_getElem hidx, List.getElem_idxOf hidx]
    have e2 : o2[o1.idxOf v]? = some w := by
      rw [← hvw, List.getD_eq_getElem?_getD, List.getElem?_eq_getElem (by omega), Option.getD_some]
    rw [p1 _ _ e1, p2 _ _ e2]
  · rw [List.getElem?_eq_none (by simp; omega)] at hvw
    cases hvw

/-- the class invariant is carried by every operation on the partition -/
theorem clsOrdQ (hst : StablePerm) (n : Nat) (nb : Nbrs) (cl : Nat → Nat) (bd0 : List Nat) :
    OrdQ n nb (ClsInv cl bd0) (ClsInv cl bd0) (ClsInv cl bd0) (ClsPL cl bd0) (ClsR cl) := by
  apply OrdQ.ofSimple
  · exact fun _ _ e1 e2 e3 h => h.of_frame e1 e2 e3
  · intro op op' hp ha hage h hd
    apply h.of_rearr
    · intro p v hv
      obtain ⟨q, hq, hs⟩ := deage_rearr hp ha hage hd p v hv
      exact ⟨q, hq, fun d a hda ha0 => hs d a hda (by omega)⟩
    · intro d a hda ha0
      obtain ⟨_, _, _, d4, _⟩ := deage_inv hp ha hage hd
      rw [d4]
      have hne : a ≠ op.age := by omega
      exact List.mem_filter.2 ⟨hda, by simpa using hne⟩
  · intro cb fl op op' i w hp ha hi hns h hs
    obtain ⟨r1, r2⟩ := splitBin_rearr hp ha hi hns hs
    apply h.of_rearr
    · intro p v hv
      obtain ⟨q, hq, hsep⟩ := r1 p v hv
      exact ⟨q, hq, fun d a hda _ => hsep d (mem_bd_of_mem_divs hda)⟩
    · intro d a hda _; exact r2 _ hda
  · intro cb fl opts op op' sc sc' w hp ha hsc h hr
    obtain ⟨r1, r2⟩ := refine_rearr hst hp ha hsc hr
    apply h.of_rearr
    · intro p v hv
      obtain ⟨q, hq, hsep⟩ := r1 p v hv
      exact ⟨q, hq, fun d a hda _ => hsep d (mem_bd_of_mem_divs hda)⟩
    · intro d a hda _; exact r2 _ hda
  · exact fun _ h => h.pos
  · exact fun _ _ h1 h2 p1 p2 => transport_cls h1 h2 p1 p2

/-- a permutation that preserves the initial `inCell` maps every class into itself -/
theorem cls_of_inCell {n m : Nat} {cls : List (List Nat)} {op0 : OP} (hn : 0 < n) (hc : ClassesOK n (some cls))
    (h : newOrderedPartition n m (some cls) = .ok (some op0)) {γ : List Nat} (hperm : γ.Perm (List.range n))
    (hR : ClsR (fun v => (op0.inCell.toList[v]?).getD 0) γ) :
    ∀ c ∈ cls, ∀ v ∈ c, ∀ w, γ[v]? = some w → w ∈ c := by
  have hin : ∀ (k : Nat) (c : List Nat), cls[k]? = some c → ∀ v ∈ c, op0.inCell.toList[v]? = some k :=
    new_inCell_classes hn hc h
  intro c hcm v hv w hvw
  obtain ⟨k, hk⟩ := List.getElem?_of_mem hcm
  have hwn : w < n := by
    have : w ∈ γ := List.mem_of_getElem? hvw
    simpa using hperm.mem_iff.1 this
  have hwf : w ∈ cls.flatten := hc.1.mem_iff.2 (List.mem_range.2 hwn)
  obtain ⟨c', hc', hwc'⟩ := List.mem_flatten.1 hwf
  obtain ⟨k', hk'⟩ := List.getElem?_of_mem hc'
  have e := hR v w hvw
  simp only [hin k c hk v hv, hin k' c' hk' w hwc', Option.getD_some] at e
  subst e
  rw [hk] at hk'
  cases hk'
  exact hwc'

end CanonF
