import Mamba.Lemmas.CanonBest
namespace Search
open Disjoint GSearch GraphSpec

variable {O : Oracle} {n : Nat}

/-- the condition under which `isCanonical` accepts: the last vertex is a best vertex and lies in the orbit of the first
best vertex in the order of the canonical labelling -/
def CanonLast (g : DG) (a : Ans) : Prop :=
  Best g (g.nv - 1) ∧ ∃ w, firstBest g a.perm.toList = some w ∧ rep a.orbits w = rep a.orbits (g.nv - 1)

theorem firstBest_some {g : DG} {l : List Nat} {w : Nat} (h : firstBest g l = some w) : w ∈ l ∧ Best g w := by
  unfold firstBest at h
  exact ⟨List.mem_of_find?_eq_some h, by simpa using List.find?_some h⟩

/-- if the last vertex is the only best vertex, it is the first best vertex -/
theorem firstBest_unique {g : DG} {l : List Nat} (hL : Best g (g.nv - 1)) (hmem : g.nv - 1 ∈ l)
    (huniq : ∀ u, Best g u → u = g.nv - 1) : firstBest g l = some (g.nv - 1) := by
  unfold firstBest
  cases hf : l.find? fun u => decide (Best g u) with
  | none =>
    have := List.find?_eq_none.1 hf _ hmem
    simp [hL] at this
  | some w =>
    have hw : Best g w := by simpa using List.find?_some hf
    rw [huniq w hw]

/-- **`isCanonical` decides the canonical-deletion condition** (for a built graph, the neighbour list `aug` of the last
vertex, and the oracle's full answer `a`) -/
theorem accept_iff (hO : OracleSpec O n) {g : DG} (hb : Built g) {aug : List Nat}
    (haug : wsum g aug = nkey g (g.nv - 1)) (haugr : ∀ v ∈ aug, v < g.nv) {a : Ans}
    (ha : getAut O n g none = .ok (some a)) {c : Option Ans} {b : Bool}
    (h : isCanonical O n g aug none = .ok (c, b)) : b = true ↔ CanonLast g a := by
  obtain ⟨hnv, degree, hdeg, r0, hscan, hr⟩ := isCanonical_struct h
  have hLlt : g.nv - 1 < g.nv := by omega
  have hdL := hb.degOK (g.nv - 1) hLlt
  rw [hdL] at hdeg
  have hdegree : degree = dgi g (g.nv - 1) := (Option.some.inj hdeg).symm
  subst hdegree
  have hd := autData_of_answer hO hb ha
  have hperm := hO.perm hb ha
  have hpl : ∀ u ∈ a.perm.toList, u < g.nv := fun u hu => by simpa using hperm.mem_iff.1 hu
  have hLmem : g.nv - 1 ∈ a.perm.toList := hperm.mem_iff.2 (List.mem_range.2 hLlt)
  have hdg : ∀ i, i < g.nv → g.degs[i]? = some (dgi g i) := fun i hi => hb.degOK i hi
  obtain ⟨s1, s2⟩ := degreeScan_spec _ _ _ _ _ hscan
  rcases hr with ⟨rfl, -, rfl⟩ | ⟨vb0, rfl, hr⟩
  · -- a vertex of smaller degree
    obtain ⟨i, hi, d, hd', hlt⟩ := s1 rfl
    have hi' : i < g.nv - 1 := List.mem_range.1 hi
    rw [hdg i (by omega)] at hd'
    have : dgi g i < dgi g (g.nv - 1) := by rw [Option.some.inj hd']; exact hlt
    constructor
    · intro hh; cases hh
    · rintro ⟨hbest, -⟩
      have := (hbest.2 i (by omega)).1
      omega
  · obtain ⟨hge, hbits0⟩ := s2 vb0 rfl
    have hge' : ∀ i, i < g.nv - 1 → dgi g (g.nv - 1) ≤ dgi g i := by
      intro i hi
      obtain ⟨d, hd', hle⟩ := hge i (List.mem_range.2 hi)
      rw [hdg i (by omega)] at hd'
      rw [Option.some.inj hd']; exact hle
    have hvb0 : ∀ u, vb0.testBit u = true ↔ (u < g.nv - 1 ∧ dgi g u = dgi g (g.nv - 1)) := by
      intro u
      rw [hbits0 u]
      simp only [Nat.zero_testBit, Bool.false_or, decide_eq_true_eq, List.mem_range]
      constructor
      · rintro ⟨hu, he⟩
        rw [hdg u (by omega)] at he
        exact ⟨hu, Option.some.inj he⟩
      · rintro ⟨hu, he⟩
        exact ⟨hu, by rw [hdg u (by omega), he]⟩
    have hmin : ∀ u, u < g.nv → dgi g (g.nv - 1) ≤ dgi g u := by
      intro u hu
      by_cases hul : u < g.nv - 1
      · exact hge' u hul
      · have : u = g.nv - 1 := by omega
        rw [this]
    rcases hr with ⟨hz, -, rfl⟩ | ⟨hz, sum, square, hsq, r1, hss, hr⟩
    · -- no other vertex of minimum degree
      have hnone : ∀ u, u < g.nv → dgi g u = dgi g (g.nv - 1) → u = g.nv - 1 := by
        intro u hu he
        by_contra hne
        have := (hvb0 u).2 ⟨by omega, he⟩
        rw [hz] at this; simp at this
      have hbest : Best g (g.nv - 1) := by
        refine ⟨hLlt, fun u hu => ⟨hmin u hu, fun he => ?_⟩⟩
        rw [hnone u hu he]; exact keyGt_irrefl _
      have huniq : ∀ u, Best g u → u = g.nv - 1 := fun u hu =>
        hnone u hu.1 ((best_iff hbest hu.1).1 hu).1
      constructor
      · intro _
        exact ⟨hbest, g.nv - 1, firstBest_unique hbest hLmem huniq, rfl⟩
      · intro _; rfl
    · rw [sumSq_spec hb aug (0, 0) haugr] at hsq
      simp only [Int.zero_add, Outcome.ok.injEq, Prod.mk.injEq] at hsq
      have hkey : nkey g (g.nv - 1) = (sum, square) := by
        rw [← haug]; exact Prod.ext hsq.1 hsq.2
      have hl0 : ∀ v ∈ bitsOf vb0, v < g.nv ∧ vb0.testBit v = true := by
        intro v hv
        have := mem_bitsOf.1 hv
        exact ⟨by have := ((hvb0 v).1 this).1; omega, this⟩
      obtain ⟨t1, t2⟩ := sumScan_spec hb sum square _ _ _ (bitsOf_nodup vb0) hl0 hss
      rcases hr with ⟨rfl, -, rfl⟩ | ⟨vb, rfl, hr⟩
      · -- a vertex of minimum degree with a larger key
        obtain ⟨v, hv, hgt⟩ := t1 rfl
        have hv' := (hvb0 v).1 (mem_bitsOf.1 hv)
        constructor
        · intro hh; cases hh
        · rintro ⟨hbest, -⟩
          have := (hbest.2 v (by omega)).2 hv'.2
          rw [hkey] at this
          exact absurd hgt this
      · obtain ⟨hnogt, hbits⟩ := t2 vb rfl
        have hbest : Best g (g.nv - 1) := by
          refine ⟨hLlt, fun u hu => ⟨hmin u hu, fun he => ?_⟩⟩
          by_cases hul : u < g.nv - 1
          · have := hnogt u (mem_bitsOf.2 ((hvb0 u).2 ⟨hul, he⟩))
            rw [hkey]; exact this
          · have : u = g.nv - 1 := by omega
            rw [this]; exact keyGt_irrefl _
        have hvb : ∀ u, vb.testBit u = true ↔ (u < g.nv - 1 ∧ Best g u) := by
          intro u
          rw [hbits u]
          simp only [Bool.and_eq_true, Bool.not_eq_eq_eq_not, Bool.not_true, decide_eq_false_iff_not, not_and,
            Decidable.not_not]
          constructor
          · rintro ⟨h1, h2⟩
            have h1' := (hvb0 u).1 h1
            have hk := h2 (mem_bitsOf.2 h1)
            exact ⟨h1'.1, (best_iff hbest (by omega)).2 ⟨h1'.2, by rw [hk, hkey]⟩⟩
          · rintro ⟨hu, hbu⟩
            have := (best_iff hbest (by omega : u < g.nv)).1 hbu
            exact ⟨(hvb0 u).2 ⟨hu, this.1⟩, fun _ => by rw [this.2, hkey]⟩
        have hfh := firstHit_eq_firstBest hnv hbest hvb hpl
        -- the full scan
        have hLO : g.nv - 1 < a.orbits.size := by rw [hd.size]; exact hLlt
        obtain ⟨d1, f1, i1, sz1, r1'⟩ := find_spec hd.inv (g.nv - 1) hLO
        have hlt1 : ∀ u ∈ a.perm.toList, u < d1.size := fun u hu => by rw [sz1, hd.size]; exact hpl u hu
        have hscanval : ∀ ds2 b', permScan g.nv vb (rep a.orbits (g.nv - 1)) a.perm.toList d1 = .ok (ds2, b') →
            (b' = true ↔ CanonLast g a) := by
          intro ds2 b' hp
          obtain ⟨-, -, -, hb'⟩ := permScan_spec _ _ _ _ _ _ _ i1 hlt1 hp
          rw [hfh] at hb'
          constructor
          · intro hbt
            subst hbt
            cases hfb : firstBest g a.perm.toList with
            | none =>
              have := List.find?_eq_none.1 hfb _ hLmem
              simp [hbest] at this
            | some w =>
              rw [hfb] at hb'
              simp only at hb'
              have hw := firstBest_some hfb
              refine ⟨hbest, w, hfb, ?_⟩
              have hwO : w < a.orbits.size := by rw [hd.size]; exact hpl w hw.1
              by_cases hwl : w = g.nv - 1
              · rw [hwl]
              · have hne : (w == g.nv - 1) = false := by simpa using hwl
                rw [hne, Bool.false_or] at hb'
                have := (beq_iff_eq.1 hb'.symm)
                rw [r1' w hwO] at this
                exact this.symm
          · rintro ⟨-, w, hfb, hrep⟩
            rw [hfb] at hb'
            simp only at hb'
            have hw := firstBest_some hfb
            have hwO : w < a.orbits.size := by rw [hd.size]; exact hpl w hw.1
            rw [hb', r1' w hwO, hrep]
            simp
        rcases hr with ⟨hz, -, rfl⟩ | ⟨hz, hst⟩
        · -- no other best vertex
          have huniq : ∀ u, Best g u → u = g.nv - 1 := by
            intro u hu
            by_contra hne
            have := (hvb u).2 ⟨by have := hu.1; omega, hu⟩
            rw [hz] at this; simp at this
          constructor
          · intro _
            exact ⟨hbest, g.nv - 1, firstBest_unique hbest hLmem huniq, rfl⟩
          · intro _; rfl
        · rcases hst with ⟨hnone, -, rfl⟩ | ⟨a', ds1, correct, ds2, hga, hfind, hps, -⟩
          · -- early exit: the full scan rejects as well
            obtain ⟨ds2, b', hp⟩ := permScan_total g.nv vb (rep a.orbits (g.nv - 1)) a.perm.toList d1 i1 hlt1
            have := hO.early_reject hb hnone ha f1 hp
            subst this
            exact hscanval ds2 false hp
          · have hfull : a' = a := by
              rcases hO.early vb hb with he | he
              · rw [he] at hga; cases hga
              · rw [he, ha] at hga; exact (Option.some.inj (Outcome.ok.inj hga)).symm
            subst hfull
            rw [f1] at hfind
            simp only [Outcome.ok.injEq, Prod.mk.injEq] at hfind
            obtain ⟨rfl, rfl⟩ := hfind
            exact hscanval ds2 b hps

end Search
