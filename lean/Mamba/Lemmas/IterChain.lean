import Mathlib.Data.List.Chain
import Mamba.Model.IterBase


namespace Iter


/-- chains of blocks indexed by `0..cnt-1` -/
theorem isChain_flatMap_range {β : Type} (R : β → β → Prop) (B : Nat → List β) :
    ∀ cnt, (∀ a, a < cnt → (B a).IsChain R) → (∀ a, a < cnt → B a ≠ []) →
      (∀ a, a + 1 < cnt → ∀ x ∈ (B a).getLast?, ∀ y ∈ (B (a + 1)).head?, R x y) →
      ((List.range cnt).flatMap B).IsChain R ∧
        (0 < cnt → ((List.range cnt).flatMap B).getLast? = (B (cnt - 1)).getLast? ∧
                   ((List.range cnt).flatMap B).head? = (B 0).head?) := by
  intro cnt
  induction cnt with
  | zero => intro _ _ _; simp
  | succ c ih =>
    intro hB hne hl
    obtain ⟨ihc, ihl⟩ := ih (fun a h => hB a (by omega)) (fun a h => hne a (by omega))
      (fun a h => hl a (by omega))
    have hBc := hne c (by omega)
    rw [List.range_succ, List.flatMap_append]
    simp only [List.flatMap_cons, List.flatMap_nil, List.append_nil]
    refine ⟨?_, fun _ => ⟨?_, ?_⟩⟩
    · apply List.IsChain.append ihc (hB c (by omega))
      intro x hx y hy
      rcases Nat.eq_zero_or_pos c with rfl | hc
      · simp at hx
      · rw [(ihl hc).1] at hx
        have := hl (c - 1) (by omega) x hx y
        rw [show c - 1 + 1 = c by omega] at this
        exact this hy
    · rw [List.getLast?_append_of_ne_nil _ hBc]; simp
    · rcases Nat.eq_zero_or_pos c with rfl | hc
      · simp
      · rw [List.head?_append_of_ne_nil]
        · exact (ihl hc).2
        · intro h
          have := hne 0 (by omega)
          rw [List.flatMap_eq_nil_iff] at h
          exact this (h 0 (by simp [hc]))

end Iter
