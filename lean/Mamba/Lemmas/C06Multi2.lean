import Mamba.Lemmas.C06Multi
/-! C06: `MulticodeDecode` — main theorem. -/
namespace Construct
open GraphSpec

/-- the larger neighbours of `u`, ascending -/
def mcRow (g : G) (u : Nat) : List Nat := (List.range' (u + 1) (g.n - (u + 1))).filter fun w => g.adj u w

/-- the multicode of a graph: `n`, then for each vertex but the last its larger neighbours (plus one) and a `0` -/
def multicodeOf (g : G) : List Nat :=
  g.n :: (List.range (g.n - 1)).flatMap fun u => (mcRow g u).map (· + 1) ++ [0]

theorem mcRow_fold (n : Nat) (ws : List Nat) (st : MultiSt) (hwf : (st.dense n).WF)
    (hws : ∀ w ∈ ws, st.cur < w ∧ w < n) (hnd : ws.Nodup)
    (hnew : ∀ w ∈ ws, (st.dense n).abs.adj st.cur w = false) :
    ∃ st', (ws.map (· + 1)).foldlM mcStep st = .ok st' ∧ st'.cur = st.cur ∧ (st'.dense n).WF ∧
      (st'.dense n).abs = (ws.map fun w => (st.cur, w)).foldl (fun g p => Families.addEdge g p.1 p.2) (st.dense n).abs := by
  induction ws generalizing st with
  | nil => exact ⟨st, rfl, rfl, hwf, rfl⟩
  | cons w t ih =>
    obtain ⟨h1, h2⟩ := hws w (by simp)
    have hnd' := List.nodup_cons.mp hnd
    obtain ⟨st1, e1, c1, a1⟩ := mcStep_eq_addEdge n st w h1 h2 hwf (hnew w (by simp))
    have hcur : st.cur < (st.dense n).n := by show st.cur < n; omega
    obtain ⟨d', e', w', n', abs'⟩ := addEdge_ok (st.dense n) hwf st.cur w hcur h2
    rw [a1] at e'; cases e'
    obtain ⟨st2, e2, c2, w2, a2⟩ := ih st1 w' (by rw [c1]; exact fun x hx => hws x (by simp [hx])) hnd'.2 (by
      intro x hx
      rw [abs', c1, addEdge_adj _ _ _ (by omega) hcur h2, hnew x (by simp [hx])]
      simp only [Bool.false_or]
      rw [Bool.eq_false_iff]; intro hp; rw [isPair_iff] at hp
      have hxw : x ≠ w := fun e => hnd'.1 (e ▸ hx)
      have := (hws x (by simp [hx])).1
      omega)
    refine ⟨st2, ?_, by omega, w2, ?_⟩
    · simp only [List.map_cons, List.foldlM_cons, e1, Outcome.bind_ok]; exact e2
    · rw [a2, abs', c1]; rfl


theorem mem_mcRow (g : G) (u w : Nat) : w ∈ mcRow g u ↔ u < w ∧ w < g.n ∧ g.adj u w = true := by
  simp only [mcRow, List.mem_filter, List.mem_range'_1]
  constructor
  · rintro ⟨⟨h1, h2⟩, h3⟩; exact ⟨by omega, by omega, h3⟩
  · rintro ⟨h1, h2, h3⟩; exact ⟨⟨by omega, by omega⟩, h3⟩

theorem nodup_mcRow (g : G) (u : Nat) : (mcRow g u).Nodup :=
  (List.nodup_range').sublist List.filter_sublist

theorem mc_fold (gs : G) (hg : gs.WF) (k : Nat) (hk : k ≤ gs.n - 1) :
    ∃ st, ((List.range k).flatMap fun u => (mcRow gs u).map (· + 1) ++ [0]).foldlM mcStep
        { edges := zeros ((gs.n * (gs.n - 1)) / 2), deg := Array.replicate gs.n 0, m := 0, cur := 0 } = .ok st ∧
      st.cur = k ∧ (st.dense gs.n).WF ∧
      ∀ a b, a < b → (st.dense gs.n).abs.adj a b = (decide (a < k) && gs.adj a b) := by
  induction k with
  | zero =>
    refine ⟨_, rfl, rfl, (newDenseNil_wf gs.n).1, ?_⟩
    intro a b _
    have := (newDenseNil_wf gs.n).2
    simp only [MultiSt.dense]
    rw [show (⟨gs.n, 0, Array.replicate gs.n 0, zeros ((gs.n * (gs.n - 1)) / 2)⟩ : Dense) = newDenseNil gs.n from rfl, this]
    simp
  | succ k ih =>
    obtain ⟨st, e, c, w, q⟩ := ih (by omega)
    have hk' : k < gs.n := by omega
    obtain ⟨st1, e1, c1, w1, a1⟩ := mcRow_fold gs.n (mcRow gs k) st w
      (by intro x hx; rw [c]; have := (mem_mcRow gs k x).mp hx; omega) (nodup_mcRow gs k)
      (by
        intro x hx
        have := (mem_mcRow gs k x).mp hx
        rw [c, q k x this.1]; simp)
    refine ⟨{ st1 with cur := st1.cur + 1 }, ?_, by simp only; omega, w1, ?_⟩
    · rw [List.range_succ, List.flatMap_append, List.foldlM_append, e]
      simp only [Outcome.bind_ok, List.flatMap_cons, List.flatMap_nil, List.append_nil, List.foldlM_append, e1,
        List.foldlM_cons, List.foldlM_nil, mcStep, beq_self_eq_true, ↓reduceIte, Outcome.pure_eq]
    · intro a b hab
      show (st1.dense gs.n).abs.adj a b = _
      rw [a1, foldl_addEdge _ _ (by
        intro p hp
        simp only [List.mem_map] at hp
        obtain ⟨x, hx, rfl⟩ := hp
        have := (mem_mcRow gs k x).mp hx
        exact ⟨by show st.cur < gs.n; omega, this.2.1⟩)]
      show ((st.dense gs.n).abs.adj a b || _) = _
      rw [q a b hab, List.any_map, Bool.eq_iff_iff]
      simp only [Bool.or_eq_true, Bool.and_eq_true, decide_eq_true_eq, List.any_eq_true, Function.comp, bne_iff_ne, ne_eq,
        isPair_iff, c]
      constructor
      · rintro (⟨h1, h2⟩ | ⟨x, hx, hne, h⟩)
        · exact ⟨by omega, h2⟩
        · have hm := (mem_mcRow gs k x).mp hx
          rcases h with ⟨rfl, rfl⟩ | ⟨rfl, rfl⟩
          · exact ⟨by omega, hm.2.2⟩
          · omega
      · rintro ⟨h1, h2⟩
        by_cases hak : a < k
        · exact Or.inl ⟨hak, h2⟩
        · have hak' : a = k := by omega
          subst hak'
          exact Or.inr ⟨b, (mem_mcRow gs a b).mpr ⟨hab, (hg.supp a b h2).2, h2⟩, by omega, Or.inl ⟨rfl, rfl⟩⟩

theorem multicodeDecode_ok (gs : G) (hg : gs.WF) :
    ∃ d, multicodeDecode (multicodeOf gs) = .ok d ∧ d.WF ∧ d.abs = gs := by
  obtain ⟨st, e, c, w, q⟩ := mc_fold gs hg (gs.n - 1) (Nat.le_refl _)
  refine ⟨st.dense gs.n, ?_, w, ?_⟩
  · unfold multicodeDecode multicodeOf
    have : (fun (st : MultiSt) (b : Nat) => (if b == 0 then pure { st with cur := st.cur + 1 } else do
          let idx := ((b - 1) * (b - 2)) / 2 + st.cur
          let e ← setAt st.edges idx 1
          let d ← incrAt st.deg (b - 1)
          let d ← incrAt d st.cur
          pure { edges := e, deg := d, m := st.m + 1, cur := st.cur } : Outcome MultiSt)) = mcStep := rfl
    simp only [this, e, Outcome.bind_ok]
    have hcond : (decide (gs.n > 0) && decide (st.cur ≠ gs.n - 1)) = false := by
      rw [Bool.and_eq_false_iff]; right; simp [c]
    simp only [hcond, Bool.false_eq_true, ↓reduceIte]; rfl
  · have hs : (st.dense gs.n).edges.size = tri (st.dense gs.n).n := w.size_edges
    have hwf := Dense.abs_wf _ hs
    refine G_ext (show _ = _ from rfl) ?_
    intro a b
    rcases Nat.lt_trichotomy a b with hab | hab | hab
    · rw [q a b hab]
      by_cases ha : a < gs.n - 1
      · simp [ha]
      · have : gs.adj a b = false := by
          rw [Bool.eq_false_iff]; intro h; have := hg.supp a b h; omega
        simp [this]
    · subst hab; rw [hwf.irrefl, hg.irrefl]
    · rw [hwf.symm, hg.symm a b, q b a hab]
      by_cases hb : b < gs.n - 1
      · simp [hb]
      · have : gs.adj b a = false := by
          rw [Bool.eq_false_iff]; intro h; have := hg.supp b a h; omega
        simp [this]


end Construct
