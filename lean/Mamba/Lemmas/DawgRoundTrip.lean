import Mamba.Lemmas.DawgDec
import Mathlib.Data.List.Perm.Subperm
import Mathlib.Data.List.Nodup
/-! `gobDecode (gobEncode d)` is an id-preserving isomorphic copy of `d`. -/
namespace Dawg

theorem length_le_of_nodup_lt (n : Nat) (l : List Nat) (h : l.Nodup) (hb : ∀ x ∈ l, x < n) : l.length ≤ n := by
  have := (List.subperm_of_subset h (fun x hx => List.mem_range.2 (hb x hx))).length_le
  simpa using this

theorem decIds_spec : ∀ (L : List Nat) (i : Nat) (ts : Heap) (rest : List Nat),
    i + L.length ≤ ts.size → (∀ x ∈ L, x < 2 ^ 64) →
    ∃ ts', decIds ts L.length i (L.flatMap encodeUint64 ++ rest) = .ok (ts', rest) ∧ ts'.size = ts.size ∧
      (∀ m, m < i → ts'[m]? = ts[m]?) ∧
      (∀ m x, L[m]? = some x → ts'[i + m]? = (ts[i + m]?).map (fun n => { n with id := x })) := by
  intro L
  induction L with
  | nil =>
    intro i ts rest _ _
    exact ⟨ts, by simp [decIds], rfl, fun _ _ => rfl, fun m x h => by simp at h⟩
  | cons a L ih =>
    intro i ts rest hsz hsmall
    simp only [List.length_cons] at hsz
    have hlt : i < ts.size := by omega
    simp only [List.length_cons, List.flatMap_cons, List.append_assoc, decIds]
    rw [decodeUint64_encodeUint64_append a (hsmall a List.mem_cons_self)]
    simp only [Array.getElem?_eq_getElem hlt]
    obtain ⟨ts', hdec, hsize, hlow, hmine⟩ := ih (i + 1) (ts.setIfInBounds i { ts[i] with id := a }) rest
      (by rw [Array.size_setIfInBounds]; omega) (fun x hx => hsmall x (List.mem_cons_of_mem _ hx))
    refine ⟨ts', hdec, by rw [hsize, Array.size_setIfInBounds], ?_, ?_⟩
    · intro m hm
      rw [hlow m (by omega), Array.getElem?_setIfInBounds_ne (by omega)]
    · intro m x hx
      cases m with
      | zero =>
        simp only [List.getElem?_cons_zero, Option.some.injEq] at hx
        subst hx
        rw [Nat.add_zero, hlow i (by omega), Array.getElem?_setIfInBounds_self]
        simp [hlt]
      | succ m =>
        simp only [List.getElem?_cons_succ] at hx
        have := hmine m x hx
        rw [show i + (m + 1) = i + 1 + m by omega, this, Array.getElem?_setIfInBounds_ne (by omega)]

theorem searchGE_lt_of_mem (l : List Nat) (x : Nat) (hs : l.Pairwise (· ≤ ·)) (hx : x ∈ l) :
    searchGE l x < l.length := by
  have := (get_searchGE_iff l x hs).2 hx
  rcases List.getElem?_eq_some_iff.1 this with ⟨h, _⟩
  exact h

theorem sorted_le_of_lt {l : List Nat} (hs : l.Pairwise (· < ·)) : l.Pairwise (· ≤ ·) :=
  hs.imp (fun h => Nat.le_of_lt h)

/-- The main round-trip statement, with the witnessing relocation `posOf`. -/
theorem gobDecode_of_encodePost (d : Dawg) (wf : WF d) (bs : List Nat) (hpost : EncodePost d bs) :
    ∃ L d', ListNodesPost d L ∧ gobDecode bs = .ok d' ∧ IsoVia (posOf d.heap L) d d' ∧ d'.heap.size = L.length := by
  obtain ⟨L, tl, recs, hL, hnd, hall, hem, hbs⟩ := hpost
  have hLs := sorted_le_of_lt hL.sorted
  obtain ⟨rn, hrn⟩ := wf.closed d.root Reach.root
  -- sizes
  have hlenL : L.length = (d.root :: tl).length := hL.count _ hnd hall
  have hbound : ∀ x ∈ d.root :: tl, x < d.heap.size := by
    intro x hx
    obtain ⟨n, hn⟩ := wf.closed x ((hall x).2 hx)
    rcases Array.getElem?_eq_some_iff.1 hn with ⟨h, _⟩
    exact h
  have hN : L.length < 2 ^ 64 := by
    have := length_le_of_nodup_lt _ _ hnd hbound
    have := wf.size
    omega
  have hN0 : L.length ≠ 0 := by rw [hlenL]; simp
  have hLsmall : ∀ x ∈ L, x < 2 ^ 64 := by
    intro x hx
    obtain ⟨p, n, hp, hn, rfl⟩ := (hL.mem x).1 hx
    exact (wf.small p n hp hn).1
  -- header
  subst hbs
  unfold gobDecode
  rw [List.append_assoc, decodeUint64_encodeUint64_append _ hN]
  simp only [hN0, if_false]
  rw [if_neg (by have := length_le_flatMap_encode L hLsmall recs; omega)]
  obtain ⟨ts, hids, hsz, _, htsid⟩ := decIds_spec L 0 (Array.replicate L.length Node.zero) (recs ++ [])
    (by simp) hLsmall
  rw [List.append_nil] at hids
  rw [hids]
  simp only
  have hsz' : ts.size = L.length := by rw [hsz, Array.size_replicate]
  -- positions
  have hposlt : ∀ p, Reach d.heap d.root p → posOf d.heap L p < ts.size := by
    intro p hp
    obtain ⟨n, hn⟩ := wf.closed p hp
    rw [hsz']
    simp only [posOf, hn]
    exact searchGE_lt_of_mem L n.id hLs ((hL.mem _).2 ⟨p, n, hp, hn, rfl⟩)
  have hposget : ∀ p n, Reach d.heap d.root p → d.heap[p]? = some n → L[posOf d.heap L p]? = some n.id := by
    intro p n hp hn
    simp only [posOf, hn]
    exact (get_searchGE_iff L n.id hLs).2 ((hL.mem _).2 ⟨p, n, hp, hn, rfl⟩)
  have hposinj : ∀ p, p ∈ d.root :: tl → ∀ q, q ∈ d.root :: tl → posOf d.heap L p = posOf d.heap L q → p = q := by
    intro p hp q hq hpq
    have hpr := (hall p).2 hp
    have hqr := (hall q).2 hq
    obtain ⟨np, hnp⟩ := wf.closed p hpr
    obtain ⟨nq, hnq⟩ := wf.closed q hqr
    have h1 := hposget p np hpr hnp
    have h2 := hposget q nq hqr hnq
    rw [hpq, h2] at h1
    exact wf.idInj p q np nq hpr hqr hnp hnq (by simpa using h1.symm)
  obtain ⟨ts', hdec, hsz2, _, hmine⟩ := decRecords_emitted d wf L _ _ hem ts []
    (fun p hp => (hall p).2 hp) hposlt (by omega) (List.Nodup.map_on hposinj hnd)
  rw [List.append_nil] at hdec
  rw [← hlenL] at hdec
  rw [hdec]
  refine ⟨L, ⟨ts', 0⟩, hL, rfl, ⟨?_, ?_⟩, by simp [hsz2]; omega⟩
  · -- the root is at position 0
    simp only [posOf, hrn]
    cases hLc : L with
    | nil => simp [searchGE]
    | cons a L' =>
      simp only [searchGE]
      have ha : a ∈ L := by rw [hLc]; exact List.mem_cons_self
      obtain ⟨p, n, hp, hn, hid⟩ := (hL.mem a).1 ha
      by_cases hpr : p = d.root
      · subst hpr; rw [hrn] at hn; cases hn; rw [← hid]; simp
      · have := wf.rootMin p n rn hp hpr hn hrn
        rw [← hid]
        simp; omega
  · intro p hp
    obtain ⟨n, hn⟩ := wf.closed p hp
    refine ⟨n, hn, ?_⟩
    simp only
    rw [hmine p n ((hall p).1 hp) hn]
    have hg := hposget p n hp hn
    have := htsid _ _ hg
    rw [Nat.zero_add] at this
    rw [this, Array.getElem?_replicate]
    have hlt := hposlt p hp
    rw [hsz] at hlt
    simp only [Array.size_replicate] at hlt
    simp [hlt, fillFrom, Node.zero]

end Dawg
