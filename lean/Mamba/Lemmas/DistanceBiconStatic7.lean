import Mamba.Lemmas.DistanceBiconStatic6
/-!
# The blocks returned by the `BiconnectedComponents` model are exactly `blocks g`
-/
namespace GDist
open GraphSpec Model

variable {g : G} {com : List Nat}

theorem forall₂_nodup_left {α β : Type} {R : α → β → Prop} {L : List β}
    (huniq : ∀ a b b', b ∈ L → b' ∈ L → R a b → R a b' → b = b') : ∀ {l1 : List α} {l2 : List β},
    List.Forall₂ R l1 l2 → (∀ b ∈ l2, b ∈ L) → l2.Nodup → l1.Nodup
  | _, _, .nil, _, _ => List.nodup_nil
  | _, _, .cons (a := a) (b := b) hr ht, hsub, hnd => by
    rw [List.nodup_cons] at hnd ⊢
    refine ⟨?_, forall₂_nodup_left huniq ht (fun x hx => hsub x (List.mem_cons_of_mem _ hx)) hnd.2⟩
    intro ha
    obtain ⟨b', hb', hab'⟩ := forall₂_mem_left ht a ha
    have := huniq a b b' (hsub b List.mem_cons_self) (hsub b' (List.mem_cons_of_mem _ hb')) hr hab'
    subst this
    exact hnd.1 hb'

/-- what (6) says about the blocks of one component -/
structure CompBlocks6 (g : G) (com : List Nat) (new : List (List Nat)) : Prop where
  nd : new.Nodup
  sub : ∀ S ∈ new, S ≠ [] ∧ ∀ x ∈ S, x ∈ com
  iff : ∀ S, S ∈ new ↔ (S ∈ blocks g ∧ ∃ x ∈ S, x ∈ com)

theorem blocks_facts (hsym : ∀ u v, g.adj u v = g.adj v u) {S : List Nat} (hS : S ∈ blocks g) :
    S.Pairwise (· < ·) ∧ S.Nodup ∧ (∀ x ∈ S, x < g.n) ∧ BSetG g S := by
  obtain ⟨h1, h2, _⟩ := mem_blocks.1 hS
  have hp : S.Pairwise (· < ·) := List.pairwise_lt_range.sublist h1
  exact ⟨hp, hp.imp (fun h => Nat.ne_of_lt h), fun x hx => List.mem_range.1 (h1.subset hx),
    (isBlockSet_iff hsym S).1 h2⟩

theorem compBlocks6 (gc : GoodCom g com) (hne : com ≠ []) (hsym : ∀ u v, g.adj u v = g.adj v u)
    (hirr : ∀ v, g.adj v v = false) {st : BicSt} {tp : Nat → Nat} (df : DFinal (g.induced com) st tp)
    {new : List (List Nat)} (hB : BlocksOf (g.induced com) com st tp new) : CompBlocks6 g com new := by
  have emb := goodCom_emb gc
  have hn : (g.induced com).n = com.length := rfl
  have hsymh := induced_symm hsym com
  have hpos : 0 < com.length := List.length_pos_iff.2 hne
  have hidx : ∀ x ∈ com, ∃ a, a < com.length ∧ com.getD a 0 = x := by
    intro x hx
    obtain ⟨a, ha, hax⟩ := List.getElem_of_mem hx
    exact ⟨a, ha, by rw [getD_eq_getElem' ha]; exact hax⟩
  have hfm : ∀ a, a < com.length → com.getD a 0 ∈ com := fun a ha => by
    rw [getD_eq_getElem' ha]; exact List.getElem_mem _
  rcases hB with ⟨hn1, rfl⟩ | ⟨hn2, ls, hF, hnd, hls⟩
  · -- a component with a single vertex
    rw [hn] at hn1
    have h0m := hfm 0 hpos
    have hcom : ∀ x ∈ com, x = com.getD 0 0 := by
      intro x hx
      obtain ⟨a, ha, hax⟩ := hidx x hx
      have : a = 0 := by omega
      subst this; exact hax.symm
    have hsingle : ∀ T : List Nat, T.Nodup → T ≠ [] → (∀ x ∈ T, x = com.getD 0 0) → T = [com.getD 0 0] := by
      intro T hTnd hTne hT
      match T, hTnd, hTne, hT with
      | [a], _, _, hT => rw [hT a List.mem_cons_self]
      | a :: b :: t, hTnd, _, hT =>
        exfalso
        have ha := hT a List.mem_cons_self
        have hb := hT b (by simp)
        rw [List.nodup_cons] at hTnd
        exact hTnd.1 (by rw [ha, ← hb]; simp)
    have hbs : BSetG g [com.getD 0 0] := by
      refine ⟨by simp, ?_, ?_⟩
      · intro x hx y hy
        simp at hx hy; subst hx; subst hy
        exact ReachIn.refl (by simp)
      · intro v hv
        simp at hv; subst hv
        rintro ⟨x, _, hx, _⟩
        simp at hx
    have hblk : [com.getD 0 0] ∈ blocks g := by
      rw [mem_blocks]
      refine ⟨List.singleton_sublist.2 (List.mem_range.2 (gc.rng _ h0m)), (isBlockSet_iff hsym _).2 hbs, ?_⟩
      intro T hT1 hT2 hsub
      obtain ⟨_, hTc, _⟩ := (isBlockSet_iff hsym T).1 hT2
      have hTnd : T.Nodup := List.nodup_range.sublist hT1
      have h0T : com.getD 0 0 ∈ T := hsub _ (by simp)
      have hTcom := conn_in_com gc (fun x hx => List.mem_range.1 (hT1.subset hx)) hTc h0T h0m
      exact (hsingle T hTnd (List.ne_nil_of_mem h0T) (fun x hx => hcom x (hTcom x hx))).symm
    refine ⟨by simp, ?_, ?_⟩
    · intro S hS
      simp at hS; subst hS
      exact ⟨by simp, fun x hx => by simp at hx; subst hx; exact h0m⟩
    · intro S
      constructor
      · intro hS
        simp at hS; subst hS
        exact ⟨hblk, _, by simp, h0m⟩
      · rintro ⟨hS, x, hxS, hxc⟩
        obtain ⟨_, hSnd, hSn, _, hSc, _⟩ := blocks_facts hsym hS
        have hScom := conn_in_com gc hSn hSc hxS hxc
        rw [hsingle S hSnd (List.ne_nil_of_mem hxS) (fun y hy => hcom y (hScom y hy))]
        simp
  · -- the general case
    have hblk : ∀ b ∈ new, ∃ c, Ldr (g.induced com) st tp c ∧ IsBlk (g.induced com) com st tp b c := by
      intro b hb
      obtain ⟨c, hc, hbc⟩ := forall₂_mem_left hF b hb
      exact ⟨c, (hls c).1 hc, hbc⟩
    -- facts about one block
    have hone : ∀ b c, Ldr (g.induced com) st tp c → IsBlk (g.induced com) com st tp b c →
        b ≠ [] ∧ (∀ x ∈ b, x ∈ com) ∧ b.Nodup ∧ b.Sublist (List.range g.n) ∧ BSetG g b := by
      intro b c hc hbc
      have hbcom : ∀ x ∈ b, x ∈ com := by
        intro x hx
        obtain ⟨y, hy, _, hyx, _⟩ := (hbc.2.2 x).1 hx
        rw [← hyx]; exact hfm y hy
      have hbnd : b.Nodup := hbc.2.1.imp (fun h => Nat.ne_of_lt h)
      have hmemB := mem_localOf_isBlk gc df hbc
      have hcb : com.getD c 0 ∈ b :=
        (hbc.2.2 _).2 ⟨c, hc.1, df.hall c hc.1, rfl, .inr (NL.refl df.dt hc.1 (df.hall c hc.1))⟩
      refine ⟨List.ne_nil_of_mem hcb, hbcom, hbnd,
        sorted_sublist_range hbc.2.1 (fun x hx => gc.rng x (hbcom x hx)), ?_⟩
      rw [bset_local gc hbcom hbnd]
      refine ⟨List.ne_nil_of_mem ((hmemB c).2 ⟨hc.1, .inr (NL.refl df.dt hc.1 (df.hall c hc.1))⟩),
        localOf_nodup b, fun x hx => ((hmemB x).1 hx).1, ?_, ?_⟩
      · exact df.block_connected hsymh hc (localOf com b) hmemB
      · exact df.block_no_sep hsymh hc (localOf com b) hmemB (localOf_nodup b)
    -- every block set of `g` inside the component lies inside a returned block
    have hcover : ∀ T : List Nat, T.Nodup → (∀ x ∈ T, x < g.n) → BSetG g T → (∃ x ∈ T, x ∈ com) →
        ∃ b ∈ new, ∃ c, Ldr (g.induced com) st tp c ∧ IsBlk (g.induced com) com st tp b c ∧ ∀ x ∈ T, x ∈ b := by
      intro T hTnd hTn hT ⟨x, hxT, hxc⟩
      have hTcom := conn_in_com gc hTn hT.2.1 hxT hxc
      have hTl := (bset_local gc hTcom hTnd).1 hT
      obtain ⟨l, hl, hin⟩ := df.bset_in_block hsymh hn2 _ hTl
      obtain ⟨b, hb, hbl⟩ := forall₂_mem_right hF l ((hls l).2 hl)
      refine ⟨b, hb, l, hl, hbl, fun y hy => ?_⟩
      obtain ⟨a, ha, hay⟩ := hidx y (hTcom y hy)
      have haB : a ∈ localOf com T := mem_localOf.2 ⟨ha, by rw [hay]; exact hy⟩
      exact (hbl.2.2 y).2 ⟨a, ha, df.hall a ha, hay, hin a haB⟩
    -- two returned blocks that are nested are equal
    have hnest : ∀ b c b' c', Ldr (g.induced com) st tp c → IsBlk (g.induced com) com st tp b c →
        Ldr (g.induced com) st tp c' → IsBlk (g.induced com) com st tp b' c' → (∀ x ∈ b, x ∈ b') →
        c = c' ∧ b = b' := by
      intro b c b' c' hc hbc hc' hbc' hsub
      have : c = c' := by
        apply df.block_not_nested hc hc'
        intro x hx hin
        have h1 : com.getD x 0 ∈ b := (hbc.2.2 _).2 ⟨x, hx, df.hall x hx, rfl, hin⟩
        obtain ⟨y, hy, _, hyx, hor⟩ := (hbc'.2.2 _).1 (hsub _ h1)
        have : y = x := emb.inj y x hy hx hyx
        subst this; exact hor
      subst this
      exact ⟨rfl, strict_sorted_ext hbc.2.1 hbc'.2.1 (fun w => by rw [hbc.2.2 w, hbc'.2.2 w])⟩
    refine ⟨?_, ?_, ?_⟩
    · refine forall₂_nodup_left (L := ls) ?_ hF (fun b hb => hb) hnd
      intro b c c' hc hc' h1 h2
      exact (hnest b c b c' ((hls c).1 hc) h1 ((hls c').1 hc') h2 (fun x hx => hx)).1
    · intro S hS
      obtain ⟨c, hc, hbc⟩ := hblk S hS
      obtain ⟨h1, h2, _⟩ := hone S c hc hbc
      exact ⟨h1, h2⟩
    · intro S
      constructor
      · intro hS
        obtain ⟨c, hc, hbc⟩ := hblk S hS
        obtain ⟨h1, h2, h3, h4, h5⟩ := hone S c hc hbc
        obtain ⟨x, t, hxt⟩ := List.exists_cons_of_ne_nil h1
        have hxS : x ∈ S := by rw [hxt]; exact List.mem_cons_self
        refine ⟨?_, x, hxS, h2 x hxS⟩
        rw [mem_blocks]
        refine ⟨h4, (isBlockSet_iff hsym S).2 h5, ?_⟩
        intro T hT1 hT2 hsub
        have hTnd : T.Nodup := List.nodup_range.sublist hT1
        have hTn : ∀ y ∈ T, y < g.n := fun y hy => List.mem_range.1 (hT1.subset hy)
        obtain ⟨b', hb', c', hc', hbc', hTb'⟩ := hcover T hTnd hTn ((isBlockSet_iff hsym T).1 hT2)
          ⟨x, hsub x hxS, h2 x hxS⟩
        obtain ⟨_, e⟩ := hnest S c b' c' hc hbc hc' hbc' (fun y hy => hTb' y (hsub y hy))
        subst e
        exact strict_sorted_ext hbc.2.1 (List.pairwise_lt_range.sublist hT1)
          (fun w => ⟨fun hw => hsub w hw, fun hw => hTb' w hw⟩)
      · rintro ⟨hS, x, hxS, hxc⟩
        obtain ⟨hSp, hSnd, hSn, hSb⟩ := blocks_facts hsym hS
        obtain ⟨b, hb, c, hc, hbc, hSb'⟩ := hcover S hSnd hSn hSb ⟨x, hxS, hxc⟩
        obtain ⟨_, _, _, h4, h5⟩ := hone b c hc hbc
        have := (mem_blocks.1 hS).2.2 b h4 ((isBlockSet_iff hsym b).2 h5) hSb'
        rw [this]; exact hb

end GDist
