import Mamba.Spec.Distance
import Mathlib.Data.List.Nodup
import Mathlib.Data.List.Chain
/-!
# Combinatorial core of the completeness of the `Girth` BFS (final-state argument along a cycle through the root)
-/
namespace GDist
open GraphSpec

/-- what is known about a scanned pair `x → y` in the final state of the BFS from root `i`
(`D` labels, `P` parents, `γ` the current girth value, `p0` the stale parent entry of the root) -/
def DF (D P : Nat → Nat) (γ i p0 x y : Nat) : Prop :=
  (x ≠ i ∧ y = P x) ∨ (x = i ∧ y = p0) ∨ (y ≠ i ∧ γ ≤ D x + 2) ∨ (y = i ∧ γ ≤ D x + 1) ∨
  (y ≠ i ∧ D y ≠ 0 ∧ D y ≤ D x + 1 ∧ (P y = x ∨ γ ≤ D x + D y + 1))

structure FinalSt (g : G) (D P : Nat → Nat) (γ i p0 : Nat) : Prop where
  hi : i < g.n
  root0 : D i = 0
  tree : ∀ x, x < g.n → x ≠ i → D x ≠ 0 →
    P x < g.n ∧ ((P x = i ∧ D x = 1) ∨ (P x ≠ i ∧ D (P x) ≠ 0 ∧ D x = D (P x) + 1))
  df : ∀ x y, x < g.n → (x = i ∨ D x ≠ 0) → g.adj x y = true → y < g.n → DF D P γ i p0 x y
  groot : ∀ x, x ≠ i → D x ≠ 0 → P x = i → x ≠ p0

variable {g : G} {D P : Nat → Nat} {γ i p0 : Nat}

/-- a cycle through the root, in path order `i, Y[0], ..., Y[m-1]` -/
structure CycFrom (g : G) (i : Nat) (Y : List Nat) : Prop where
  len : 2 ≤ Y.length
  nd : (i :: Y).Nodup
  rng : ∀ y ∈ Y, y < g.n
  first : ∀ h : 0 < Y.length, g.adj i Y[0] = true
  chain : ∀ t (h : t + 1 < Y.length), g.adj Y[t] Y[t+1] = true
  close : ∀ h : 0 < Y.length, g.adj Y[Y.length - 1] i = true

theorem fwd_bound (fs : FinalSt g D P γ i p0) {Y : List Nat} (cy : CycFrom g i Y) (hγ : Y.length + 1 < γ)
    (h0 : ∀ h : 0 < Y.length, Y[0] ≠ p0) :
    ∀ t (h : t < Y.length), D Y[t] ≠ 0 ∧ D Y[t] ≤ t + 1 := by
  have hne : ∀ t (h : t < Y.length), Y[t] ≠ i := by
    intro t h heq
    have := (List.nodup_cons.1 cy.nd).1
    exact this (heq ▸ List.getElem_mem h)
  intro t
  induction t with
  | zero =>
    intro h
    have hy := cy.rng _ (List.getElem_mem h)
    have := fs.df i Y[0] fs.hi (.inl rfl) (cy.first h) hy
    rcases this with ⟨h1, _⟩ | ⟨_, h1⟩ | ⟨_, h1⟩ | ⟨h1, _⟩ | ⟨_, h1, h2, _⟩
    · exact absurd rfl h1
    · exact absurd h1 (h0 h)
    · rw [fs.root0] at h1; have := cy.len; omega
    · exact absurd h1 (hne 0 h)
    · rw [fs.root0] at h2; exact ⟨h1, by omega⟩
  | succ t ih =>
    intro h
    have ht : t < Y.length := by omega
    obtain ⟨hl, hb⟩ := ih ht
    have hx := cy.rng _ (List.getElem_mem ht)
    have hy := cy.rng _ (List.getElem_mem h)
    have hxi := hne t ht
    have hyi := hne (t+1) h
    have := fs.df Y[t] Y[t+1] hx (.inr hl) (cy.chain t h) hy
    rcases this with ⟨_, h1⟩ | ⟨h1, _⟩ | ⟨_, h1⟩ | ⟨h1, _⟩ | ⟨_, h1, h2, _⟩
    · obtain ⟨_, hc⟩ := fs.tree _ hx hxi hl
      rcases hc with ⟨hc, _⟩ | ⟨_, hc1, hc2⟩
      · rw [← h1] at hc; exact absurd hc hyi
      · rw [← h1] at hc1 hc2; exact ⟨hc1, by omega⟩
    · exact absurd h1 hxi
    · omega
    · exact absurd h1 hyi
    · exact ⟨h1, by omega⟩

theorem bwd_bound (fs : FinalSt g D P γ i p0) {Y : List Nat} (cy : CycFrom g i Y) (hγ : Y.length + 1 < γ)
    (hsym : ∀ u v, g.adj u v = g.adj v u)
    (hlab : ∀ t (h : t < Y.length), D Y[t] ≠ 0)
    (hlast : ∀ h : 0 < Y.length, Y[Y.length - 1] ≠ p0) :
    ∀ s (h : s < Y.length), D (Y[Y.length - 1 - s]'(by omega)) ≤ s + 1 := by
  have hne : ∀ t (h : t < Y.length), Y[t] ≠ i := by
    intro t h heq
    have := (List.nodup_cons.1 cy.nd).1
    exact this (heq ▸ List.getElem_mem h)
  intro s
  induction s with
  | zero =>
    intro h
    have hidx : Y.length - 1 < Y.length := by omega
    have hy := cy.rng _ (List.getElem_mem hidx)
    have hadj : g.adj i Y[Y.length - 1] = true := by rw [hsym]; exact cy.close h
    have := fs.df i Y[Y.length - 1] fs.hi (.inl rfl) hadj hy
    simp only [Nat.sub_zero]
    rcases this with ⟨h1, _⟩ | ⟨_, h1⟩ | ⟨_, h1⟩ | ⟨h1, _⟩ | ⟨_, _, h2, _⟩
    · exact absurd rfl h1
    · exact absurd h1 (hlast h)
    · rw [fs.root0] at h1; have := cy.len; omega
    · exact absurd h1 (hne _ hidx)
    · rw [fs.root0] at h2; omega
  | succ s ih =>
    intro h
    have hs : s < Y.length := by omega
    have hb := ih hs
    have hxidx : Y.length - 1 - s < Y.length := by omega
    have hyidx : Y.length - 1 - (s + 1) < Y.length := by omega
    have hx := cy.rng _ (List.getElem_mem hxidx)
    have hy := cy.rng _ (List.getElem_mem hyidx)
    have hxi := hne _ hxidx
    have hyi := hne _ hyidx
    have hadj : g.adj Y[Y.length - 1 - s] Y[Y.length - 1 - (s + 1)] = true := by
      rw [hsym]
      have hc := cy.chain (Y.length - 1 - (s + 1)) (by omega)
      have he : Y.length - 1 - (s + 1) + 1 = Y.length - 1 - s := by omega
      simp only [he] at hc
      exact hc
    have := fs.df _ _ hx (.inr (hlab _ hxidx)) hadj hy
    rcases this with ⟨_, h1⟩ | ⟨h1, _⟩ | ⟨_, h1⟩ | ⟨h1, _⟩ | ⟨_, _, h2, _⟩
    · obtain ⟨_, hc⟩ := fs.tree _ hx hxi (hlab _ hxidx)
      rcases hc with ⟨hc, _⟩ | ⟨_, _, hc2⟩
      · rw [← h1] at hc; exact absurd hc hyi
      · rw [← h1] at hc2; omega
    · exact absurd h1 hxi
    · omega
    · exact absurd h1 hyi
    · omega

theorem final_girth_le_aux (fs : FinalSt g D P γ i p0) (hsym : ∀ u v, g.adj u v = g.adj v u)
    {Y : List Nat} (cy : CycFrom g i Y) (h0 : ∀ h : 0 < Y.length, Y[0] ≠ p0) : γ ≤ Y.length + 1 := by
  by_contra hcon
  have hγ : Y.length + 1 < γ := by omega
  have hm := cy.len
  have hne : ∀ t (h : t < Y.length), Y[t] ≠ i := by
    intro t h heq
    have := (List.nodup_cons.1 cy.nd).1
    exact this (heq ▸ List.getElem_mem h)
  have hYnd : Y.Nodup := (List.nodup_cons.1 cy.nd).2
  have hinj : ∀ a b (ha : a < Y.length) (hb : b < Y.length), Y[a] = Y[b] → a = b :=
    fun a b ha hb h => (hYnd.getElem_inj_iff).1 h
  have hfwd := fwd_bound fs cy hγ h0
  have hpos : 0 < Y.length := by omega
  have hzidx : Y.length - 1 < Y.length := by omega
  have hz := cy.rng _ (List.getElem_mem hzidx)
  by_cases hlast : Y[Y.length - 1] = p0
  · -- the closing edge is the hidden one: found from its other end
    obtain ⟨hl, hb⟩ := hfwd _ hzidx
    have := fs.df _ i hz (.inr hl) (cy.close hpos) fs.hi
    rcases this with ⟨_, h1⟩ | ⟨h1, _⟩ | ⟨h1, _⟩ | ⟨_, h1⟩ | ⟨h1, _⟩
    · exact fs.groot _ (hne _ hzidx) hl h1.symm hlast
    · exact hne _ hzidx h1
    · exact h1 rfl
    · omega
    · exact h1 rfl
  · have hbwd := bwd_bound fs cy hγ hsym (fun t h => (hfwd t h).1) (fun _ => hlast)
    -- parent of the first and of the last vertex is the root
    have hroot : ∀ t (h : t < Y.length), g.adj i Y[t] = true → Y[t] ≠ p0 → P Y[t] = i := by
      intro t h hadj hp
      have := fs.df i Y[t] fs.hi (.inl rfl) hadj (cy.rng _ (List.getElem_mem h))
      rcases this with ⟨h1, _⟩ | ⟨_, h1⟩ | ⟨_, h1⟩ | ⟨h1, _⟩ | ⟨_, _, h2, h3⟩
      · exact absurd rfl h1
      · exact absurd h1 hp
      · rw [fs.root0] at h1; omega
      · exact absurd h1 (hne t h)
      · rcases h3 with h3 | h3
        · exact h3
        · rw [fs.root0] at h2 h3; omega
    by_cases hall : ∀ t (h : t + 1 < Y.length), P Y[t] = Y[t+1] ∨ P Y[t+1] = Y[t]
    · -- all cycle edges are tree edges: impossible
      have hpar : ∀ t (h : t + 1 < Y.length), P Y[t+1] = Y[t] := by
        intro t
        induction t with
        | zero =>
          intro h
          rcases hall 0 h with h1 | h1
          · have := hroot 0 hpos (cy.first hpos) (h0 hpos)
            rw [this] at h1
            exact absurd h1.symm (hne 1 h)
          · exact h1
        | succ t ih =>
          intro h
          rcases hall (t+1) h with h1 | h1
          · have := ih (by omega)
            rw [this] at h1
            have := hinj t (t+1+1) (by omega) h h1
            omega
          · exact h1
      have h1 := hpar (Y.length - 2) (by omega)
      have hidx : Y.length - 2 + 1 = Y.length - 1 := by omega
      simp only [hidx] at h1
      have h2 := hroot _ hzidx (by rw [hsym]; exact cy.close hpos) hlast
      rw [h2] at h1
      exact hne _ (by omega) h1.symm
    · -- a non-tree edge of the cycle
      simp only [not_forall, not_or] at hall
      obtain ⟨t, h, hnt1, hnt2⟩ := hall
      have ht : t < Y.length := by omega
      obtain ⟨hl, hb⟩ := hfwd t ht
      have hb2 := hbwd (Y.length - 2 - t) (by omega)
      have hidx : Y.length - 1 - (Y.length - 2 - t) = t + 1 := by omega
      simp only [hidx] at hb2
      have := fs.df Y[t] Y[t+1] (cy.rng _ (List.getElem_mem ht)) (.inr hl) (cy.chain t h)
        (cy.rng _ (List.getElem_mem h))
      rcases this with ⟨_, h1⟩ | ⟨h1, _⟩ | ⟨_, h1⟩ | ⟨h1, _⟩ | ⟨_, _, _, h3⟩
      · exact hnt1 h1.symm
      · exact hne t ht h1
      · omega
      · exact hne (t+1) h h1
      · rcases h3 with h3 | h3
        · exact hnt2 h3
        · omega

theorem cycFrom_reverse (hsym : ∀ u v, g.adj u v = g.adj v u) {Y : List Nat} (cy : CycFrom g i Y) :
    CycFrom g i Y.reverse := by
  have hm := cy.len
  refine { len := by simpa using cy.len, nd := ?_, rng := by simpa using cy.rng, first := ?_, chain := ?_,
           close := ?_ }
  · have := cy.nd
    rw [List.nodup_cons] at this ⊢
    exact ⟨by simpa using this.1, List.nodup_reverse.2 this.2⟩
  · intro h
    rw [List.getElem_reverse, hsym]
    have := cy.close (by omega)
    simpa using this
  · intro t h
    have h' : t + 1 < Y.length := by simpa using h
    rw [List.getElem_reverse, List.getElem_reverse, hsym]
    have := cy.chain (Y.length - 1 - (t + 1)) (by omega)
    have he : Y.length - 1 - (t + 1) + 1 = Y.length - 1 - t := by omega
    simp only [he] at this
    exact this
  · intro h
    rw [List.getElem_reverse, hsym]
    have := cy.first (by omega)
    have he : Y.length - 1 - (Y.reverse.length - 1) = 0 := by simp
    simp only [he]
    exact this

/-- in the final state of the BFS from `i`, the girth variable is at most the length of every cycle through `i` -/
theorem final_girth_le (fs : FinalSt g D P γ i p0) (hsym : ∀ u v, g.adj u v = g.adj v u)
    {Y : List Nat} (cy : CycFrom g i Y) : γ ≤ Y.length + 1 := by
  have hm := cy.len
  by_cases h0 : Y[0]'(by omega) = p0
  · have cy' := cycFrom_reverse hsym cy
    have := final_girth_le_aux fs hsym cy' (by
      intro h
      rw [List.getElem_reverse]
      intro heq
      have hYnd : Y.Nodup := (List.nodup_cons.1 cy.nd).2
      have := (hYnd.getElem_inj_iff).1 (heq.trans h0.symm)
      simp at this
      omega)
    simpa using this
  · exact final_girth_le_aux fs hsym cy (fun _ => h0)

end GDist
