import Mamba.Lemmas.DisjointArr
import Mathlib.Logic.Relation

/-!
# Histories: `union`, `step`, `run` and the generated equivalence (C18)
-/
namespace Disjoint
open Relation

theorem inv_new' (n : Nat) : Inv (new n) := by
  refine ⟨fun _ => 0, ?_, ?_, ?_⟩
  · intro x hx hx0
    have hx' : x < n := by simpa [new] using hx
    simp [abs, new, hx'] at hx0
  · intro x hx hx0
    have hx' : x < n := by simpa [new] using hx
    simp [abs, new, hx'] at hx0
  · intro x hx _
    have hx' : x < n := by simpa [new] using hx
    simp [abs, new, hx']

theorem size_new (n : Nat) : (new n).size = n := by simp [new]

theorem rep_new (n x : Nat) (hx : x < n) : rep (new n) x = x :=
  rep_of_root _ _ (by simp [new, hx])

/-- `Union`/`UnionBuffered` under the invariant: succeeds, keeps the invariant and the size, and
merges exactly the classes of `x` and `y`. -/
theorem union_spec {ds : DS} (h : Inv ds) (x y : Nat) (hx : x < ds.size) (hy : y < ds.size) :
    ∃ d', union ds x y = .ok d' ∧ Inv d' ∧ d'.size = ds.size ∧
      ∀ z w, z < ds.size → w < ds.size →
        (rep d' z = rep d' w ↔ rep ds z = rep ds w ∨
          ((rep ds z = rep ds x ∨ rep ds z = rep ds y) ∧
           (rep ds w = rep ds x ∨ rep ds w = rep ds y))) := by
  obtain ⟨d1, f1, i1, s1, r1⟩ := find_spec h x hx
  obtain ⟨d2, f2, i2, s2, r2⟩ := find_spec i1 y (by omega)
  rw [r1 y hy] at f2
  have e2 : ∀ z, z < ds.size → rep d2 z = rep ds z := by
    intro z hz; rw [r2 z (by omega), r1 z hz]
  have hax : rep ds x < d2.size := by have := rep_lt h x hx; omega
  have hay : rep ds y < d2.size := by have := rep_lt h y hy; omega
  have hrx : d2.getD (rep ds x) 0 < 0 := by
    rw [← e2 x hx]; exact rep_isRoot i2 x (by omega)
  have hry : d2.getD (rep ds y) 0 < 0 := by
    rw [← e2 y hy]; exact rep_isRoot i2 y (by omega)
  obtain ⟨d3, f3, i3, s3, r3⟩ := link_spec' i2 _ _ hax hay hrx hry
  refine ⟨d3, ?_, i3, by omega, ?_⟩
  · unfold union; rw [f1]; simp only; rw [f2]; simp only; exact f3
  · intro z w hz hw
    rw [r3 z w (by omega) (by omega), e2 z hz, e2 w hw]

/-- arguments of an operation are in range -/
def Op.valid (n : Nat) : Op → Prop
  | .union x y => x < n ∧ y < n
  | .find x => x < n

/-- the pairs joined by the unions of a history -/
def unionRel (ops : List Op) (x y : Nat) : Prop := Op.union x y ∈ ops

theorem unionRel_snoc_find (pre : List Op) (x : Nat) :
    unionRel (pre ++ [Op.find x]) = unionRel pre := by
  funext a b; simp [unionRel]

theorem eqvGen_snoc_union (pre : List Op) (x y a b : Nat) :
    EqvGen (unionRel (pre ++ [Op.union x y])) a b ↔
      EqvGen (unionRel pre) a b ∨
        ((EqvGen (unionRel pre) a x ∨ EqvGen (unionRel pre) a y) ∧
         (EqvGen (unionRel pre) b x ∨ EqvGen (unionRel pre) b y)) := by
  have hE := EqvGen.is_equivalence (unionRel pre)
  have mono : ∀ u v, EqvGen (unionRel pre) u v → EqvGen (unionRel (pre ++ [Op.union x y])) u v :=
    fun u v huv => EqvGen.mono (fun _ _ hh => by simp [unionRel] at hh ⊢; exact Or.inl hh) _ _ huv
  have hxy : EqvGen (unionRel (pre ++ [Op.union x y])) x y :=
    EqvGen.rel _ _ (by simp [unionRel])
  have hF := EqvGen.is_equivalence (unionRel (pre ++ [Op.union x y]))
  constructor
  · intro hab
    induction hab with
    | rel u v huv =>
      simp only [unionRel, List.mem_append, List.mem_singleton, Op.union.injEq] at huv
      rcases huv with huv | ⟨rfl, rfl⟩
      · exact Or.inl (EqvGen.rel _ _ huv)
      · exact Or.inr ⟨Or.inl (hE.refl _), Or.inr (hE.refl _)⟩
    | refl u => exact Or.inl (hE.refl _)
    | symm u v _ ih =>
      rcases ih with ih | ⟨i1, i2⟩
      · exact Or.inl (hE.symm ih)
      · exact Or.inr ⟨i2, i1⟩
    | trans u v w _ _ ih1 ih2 =>
      rcases ih1 with ih1 | ⟨i1, i2⟩
      · rcases ih2 with ih2 | ⟨j1, j2⟩
        · exact Or.inl (hE.trans ih1 ih2)
        · refine Or.inr ⟨?_, j2⟩
          rcases j1 with j1 | j1
          · exact Or.inl (hE.trans ih1 j1)
          · exact Or.inr (hE.trans ih1 j1)
      · rcases ih2 with ih2 | ⟨j1, j2⟩
        · refine Or.inr ⟨i1, ?_⟩
          rcases i2 with i2 | i2
          · exact Or.inl (hE.trans (hE.symm ih2) i2)
          · exact Or.inr (hE.trans (hE.symm ih2) i2)
        · exact Or.inr ⟨i1, j2⟩
  · rintro (hab | ⟨h1 | h1, h2 | h2⟩)
    · exact mono _ _ hab
    · exact hF.trans (mono _ _ h1) (hF.symm (mono _ _ h2))
    · exact hF.trans (mono _ _ h1) (hF.trans hxy (hF.symm (mono _ _ h2)))
    · exact hF.trans (mono _ _ h1) (hF.trans (hF.symm hxy) (hF.symm (mono _ _ h2)))
    · exact hF.trans (mono _ _ h1) (hF.symm (mono _ _ h2))

/-- the state after a history that performed the unions `pre` -/
def Tracks (n : Nat) (pre : List Op) (ds : DS) : Prop :=
  Inv ds ∧ ds.size = n ∧
    ∀ a b, a < n → b < n → (rep ds a = rep ds b ↔ EqvGen (unionRel pre) a b)

theorem tracks_new (n : Nat) : Tracks n [] (new n) := by
  refine ⟨inv_new' n, size_new n, ?_⟩
  have key : ∀ a b, EqvGen (unionRel []) a b → a = b := by
    intro a b hab
    induction hab with
    | rel u v huv => simp [unionRel] at huv
    | refl => rfl
    | symm _ _ _ ih => exact ih.symm
    | trans _ _ _ _ _ ih1 ih2 => exact ih1.trans ih2
  intro a b ha hb
  rw [rep_new n a ha, rep_new n b hb]
  exact ⟨by rintro rfl; exact EqvGen.refl _, key a b⟩

theorem step_spec {n : Nat} {pre : List Op} {ds : DS} (h : Tracks n pre ds) (o : Op)
    (ho : o.valid n) : ∃ d', step ds o = .ok d' ∧ Tracks n (pre ++ [o]) d' := by
  obtain ⟨hi, hs, hr⟩ := h
  cases o with
  | union x y =>
    obtain ⟨hx, hy⟩ := ho
    obtain ⟨d', f, i, s, r⟩ := union_spec hi x y (by omega) (by omega)
    refine ⟨d', f, i, by omega, ?_⟩
    intro a b ha hb
    rw [r a b (by omega) (by omega), eqvGen_snoc_union, hr a b ha hb, hr a x ha hx, hr a y ha hy,
      hr b x hb hx, hr b y hb hy]
  | find x =>
    obtain ⟨d', f, i, s, r⟩ := find_spec hi x (by have : x < n := ho; omega)
    refine ⟨d', by simp [step, f], i, by omega, ?_⟩
    intro a b ha hb
    rw [unionRel_snoc_find, r a (by omega), r b (by omega)]
    exact hr a b ha hb

theorem run_spec {n : Nat} : ∀ (ops pre : List Op) (ds : DS), Tracks n pre ds →
    (∀ o ∈ ops, o.valid n) → ∃ d', run ops ds = .ok d' ∧ Tracks n (pre ++ ops) d' := by
  intro ops
  induction ops with
  | nil => intro pre ds h _; exact ⟨ds, rfl, by simpa using h⟩
  | cons o os ih =>
    intro pre ds h hv
    obtain ⟨d1, f1, t1⟩ := step_spec h o (hv o (List.mem_cons_self ..))
    obtain ⟨d2, f2, t2⟩ := ih (pre ++ [o]) d1 t1 (fun o' ho' => hv o' (List.mem_cons_of_mem _ ho'))
    refine ⟨d2, by simp [run, f1, f2], ?_⟩
    simpa using t2

end Disjoint
