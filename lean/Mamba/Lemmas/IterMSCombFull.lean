import Mathlib.Data.List.Chain
import Mathlib.Data.List.Nodup
import Mamba.Lemmas.IterMSCombInv
import Mamba.Lemmas.IterPartial
import Mamba.Lemmas.IterChain
/-!
# MultisetCombinations (Knuth 7.2.1.3, Algorithm Q): complete enumeration

For all multiplicities `m ≥ 0` outside the shapes of finding F1 (`msKnownBad m = false`) and all `k ≥ 0`, the model
`Iter.MSComb` of `MultisetCombinations(m, k)` yields every count vector `c` with `0 ≤ c[i] ≤ m[i]`, `∑ c = k` exactly
once, in colexicographic order (the LAST differing type decides), each paired with its expansion `expandList 0 c`
(what `Value()` returns); no call panics or runs out of fuel; afterwards `Next()` returns false for ever.

Contents
* `Iter.Spec`: `msColexN`/`msColexList` (the family in generation order), `msGreedy`, `msSuccAt`, `msSucc` (the pure
  successor function).
* `mem_msColexList`, `msColexList_sorted` (`MsColexLt`), `msColexList_nodup`, `msColexList_perm_msFamily`.
* `MsNextN` (pointwise successor relation), `msSucc_eq_some_iff`, `msSucc_eq_none_iff`; `msColexN_chain`,
  `msColexList_chain`, `msColexList_head`, `msColexList_last`, `msColexList_ne_nil_iff`.
* no-panic lemmas for the loops (`q2_total`, `q5_total`, `q7up_total`, `q7down_total`, `emit_total`, `expand_total`),
  forward versions of the steps (`stepQ56_fwd`, `stepQ7_fwd`), `MSComb.next0_step`, `MSComb.next0_first`,
  `MSComb.valueOp_ok`, `MSComb.next_step`, `MSComb.next_last`, `MSComb.next_init`.
* `MSComb.enumerates_lemma`, `MSComb.enumerates_family_lemma`.
-/
set_option linter.unusedSimpArgs false
set_option linter.unusedVariables false

namespace Iter.Spec

/-- the count vectors of the first `n` types with total `k`, in colexicographic order (the count of the LAST type
is the most significant): for each feasible count `v` of type `n`, from the smallest to the largest, the vectors
of the first `n` types with total `k - v`, each with `v` appended. -/
def msColexN (m : List Int) : Nat → Int → List (List Int)
  | 0, k => if k = 0 then [[]] else []
  | n+1, k =>
    (List.range (min (m.getD n 0) k + 1 - max 0 (k - (m.take n).sum)).toNat).flatMap
      (fun (t : Nat) => (msColexN m n (k - (max 0 (k - (m.take n).sum) + (t : Int)))).map
        (fun c => c ++ [max 0 (k - (m.take n).sum) + (t : Int)]))

/-- the family of `MultisetCombinations(m, k)` (count vectors) in the order of generation -/
def msColexList (m : List Int) (k : Int) : List (List Int) := msColexN m m.length k

/-- greedy fill of `x` copies into the first `n` types, from type 0 -/
def msGreedy (m : List Int) (n : Nat) (x : Int) : List Int :=
  (List.range n).map (fun i => min (m.getD i 0) (max 0 (x - (m.take i).sum)))

/-- increment type `j`, keep the types above, refill the rest (one copy less) greedily from type 0 -/
def msSuccAt (m c : List Int) (j : Nat) : List Int :=
  msGreedy m j ((c.take j).sum - 1) ++ (c.getD j 0 + 1) :: c.drop (j + 1)

/-- the colex successor: `j` is the lowest type `≥ 1` that is not saturated and has a copy below it -/
def msSucc (m c : List Int) : Option (List Int) :=
  ((List.range c.length).find? (fun j => decide (1 ≤ j ∧ c.getD j 0 < m.getD j 0 ∧ 0 < (c.take j).sum))).map
    (msSuccAt m c)

end Iter.Spec

namespace Iter
open Spec

/-! ### pointwise vocabulary -/

theorem PS_succ' (m : List Int) (j : Nat) : PS m (j + 1) = PS m j + G m j := by
  by_cases h : j < m.length
  · exact PS_succ m j h
  · rw [PS_step_ge m j (by omega)]
    simp [G, List.getD_eq_getElem?_getD, List.getElem?_eq_none (Nat.le_of_not_lt h)]

theorem G_ge (c : List Int) (i : Nat) (h : c.length ≤ i) : G c i = 0 := by
  simp [G, List.getD_eq_getElem?_getD, List.getElem?_eq_none h]

theorem G_lt (c : List Int) (i : Nat) (h : i < c.length) : G c i = c[i] := by
  simp [G, List.getD_eq_getElem?_getD, List.getElem?_eq_getElem h]

theorem G_snoc (x : List Int) (v : Int) (i : Nat) :
    G (x ++ [v]) i = if i < x.length then G x i else if i = x.length then v else 0 := by
  simp only [G, List.getD_eq_getElem?_getD]
  by_cases h : i < x.length
  · simp [h, List.getElem?_append_left h]
  · simp only [h, if_false]
    rw [List.getElem?_append_right (by omega)]
    by_cases h2 : i = x.length
    · simp [h2]
    · simp only [h2, if_false]
      have : i - x.length ≠ 0 := by omega
      obtain ⟨t, ht⟩ : ∃ t, i - x.length = t + 1 := ⟨i - x.length - 1, by omega⟩
      simp [ht]

theorem PS_snoc (x : List Int) (v : Int) (i : Nat) (h : i ≤ x.length) : PS (x ++ [v]) i = PS x i := by
  simp only [PS]; rw [List.take_append_of_le_length h]

theorem PS_ge (x : List Int) (i : Nat) (h : x.length ≤ i) : PS x i = x.sum := by
  simp only [PS]; rw [List.take_of_length_le h]

theorem G_ext (a b : List Int) (hl : a.length = b.length) (h : ∀ i, i < a.length → G a i = G b i) : a = b := by
  apply List.ext_getElem hl
  intro i h1 h2
  have := h i h1
  rwa [G_lt a i h1, G_lt b i h2] at this

/-- prefix sums of a vector within the bounds -/
theorem PS_bounds (m c : List Int) (n : Nat) (hb : ∀ i, i < n → 0 ≤ G c i ∧ G c i ≤ G m i) :
    ∀ j, j ≤ n → 0 ≤ PS c j ∧ PS c j ≤ PS m j := by
  intro j
  induction j with
  | zero => intro _; simp [PS]
  | succ j ih =>
    intro hj
    have := ih (by omega)
    have := hb j (by omega)
    rw [PS_succ', PS_succ']; omega

theorem PS_mono' (m : List Int) (n : Nat) (hm : ∀ i, i < n → 0 ≤ G m i) : ∀ a b, a ≤ b → b ≤ n → PS m a ≤ PS m b := by
  intro a b hab
  induction b with
  | zero => intro _; have : a = 0 := by omega
            subst this; exact Int.le_refl _
  | succ b ih =>
    intro hbn
    by_cases h : a = b + 1
    · subst h; exact Int.le_refl _
    · have := ih (by omega) (by omega)
      have := hm b (by omega)
      rw [PS_succ']; omega

/-- saturated range -/
theorem PS_sat (m c : List Int) (a : Nat) : ∀ b, a ≤ b → (∀ i, a ≤ i → i < b → G c i = G m i) →
    PS c b - PS c a = PS m b - PS m a := by
  intro b
  induction b with
  | zero => intro h _; have : a = 0 := by omega
            subst this; simp
  | succ b ih =>
    intro hab hs
    by_cases h : a = b + 1
    · subst h; simp
    · have := ih (by omega) (fun i h1 h2 => hs i h1 (by omega))
      have := hs b (by omega) (by omega)
      rw [PS_succ', PS_succ']; omega

/-- empty range -/
theorem PS_zeros (c : List Int) (a : Nat) : ∀ b, a ≤ b → (∀ i, a ≤ i → i < b → G c i = 0) → PS c b = PS c a := by
  intro b
  induction b with
  | zero => intro h _; have : a = 0 := by omega
            subst this; rfl
  | succ b ih =>
    intro hab hs
    by_cases h : a = b + 1
    · subst h; rfl
    · have := ih (by omega) (fun i h1 h2 => hs i h1 (by omega))
      have := hs b (by omega) (by omega)
      rw [PS_succ']; omega

end Iter
namespace Iter
open Spec

/-! ### the family as a list: membership -/

/-- membership in the family restricted to the first `n` types -/
def InFamN (m : List Int) (n : Nat) (k : Int) (c : List Int) : Prop :=
  c.length = n ∧ (∀ i, i < n → 0 ≤ G c i ∧ G c i ≤ G m i) ∧ c.sum = k

theorem msColexN_succ (m : List Int) (n : Nat) (k : Int) :
    msColexN m (n + 1) k = (List.range (min (G m n) k + 1 - max 0 (k - PS m n)).toNat).flatMap
      (fun (t : Nat) => (msColexN m n (k - (max 0 (k - PS m n) + (t : Int)))).map
        (fun c => c ++ [max 0 (k - PS m n) + (t : Int)])) := rfl

theorem InFamN_snoc (m : List Int) (n : Nat) (k v : Int) (c0 : List Int) :
    InFamN m (n + 1) k (c0 ++ [v]) ↔ InFamN m n (k - v) c0 ∧ 0 ≤ v ∧ v ≤ G m n := by
  constructor
  · rintro ⟨hl, hb, hs⟩
    have hl0 : c0.length = n := by simpa using hl
    refine ⟨⟨hl0, ?_, ?_⟩, ?_⟩
    · intro i hi
      have := hb i (by omega)
      rw [G_snoc] at this
      simpa [hl0, hi] using this
    · simp only [List.sum_append, List.sum_cons, List.sum_nil] at hs; omega
    · have := hb n (by omega)
      rw [G_snoc] at this
      simpa [hl0] using this
  · rintro ⟨⟨hl0, hb, hs⟩, hv0, hv1⟩
    refine ⟨by simp [hl0], ?_, ?_⟩
    · intro i hi
      rw [G_snoc]
      by_cases h : i < n
      · simpa [hl0, h] using hb i h
      · have : i = n := by omega
        subst this; simp [hl0]; exact ⟨hv0, hv1⟩
    · simp only [List.sum_append, List.sum_cons, List.sum_nil]; omega

theorem InFamN.sum_bounds {m : List Int} {n : Nat} {k : Int} {c : List Int} (h : InFamN m n k c) :
    0 ≤ k ∧ k ≤ PS m n := by
  obtain ⟨hl, hb, hs⟩ := h
  have := PS_bounds m c n hb n (le_refl _)
  rw [PS_ge c n (by omega), hs] at this
  exact this

theorem mem_msColexN (m : List Int) : ∀ (n : Nat) (k : Int) (c : List Int), c ∈ msColexN m n k ↔ InFamN m n k c := by
  intro n
  induction n with
  | zero =>
    intro k c
    simp only [msColexN, InFamN]
    constructor
    · intro h
      split at h
      · next hk => simp at h; subst h; simp [hk]
      · simp at h
    · rintro ⟨hl, _, hs⟩
      have : c = [] := List.length_eq_zero_iff.mp hl
      subst this
      simp at hs
      simp [← hs]
  | succ n ih =>
    intro k c
    rw [msColexN_succ]
    simp only [List.mem_flatMap, List.mem_range, List.mem_map]
    constructor
    · rintro ⟨t, ht, c0, hc0, rfl⟩
      rw [InFamN_snoc]
      rw [ih] at hc0
      refine ⟨hc0, by omega, by omega⟩
    · intro h
      rcases List.eq_nil_or_concat c with rfl | ⟨c0, v, rfl⟩
      · have := h.1; simp at this
      · rw [List.concat_eq_append] at h ⊢
        rw [InFamN_snoc] at h
        obtain ⟨h0, hv0, hv1⟩ := h
        have hsb := h0.sum_bounds
        refine ⟨(v - max 0 (k - PS m n)).toNat, by omega, c0, ?_, ?_⟩
        · rw [ih]
          have : max 0 (k - PS m n) + ((v - max 0 (k - PS m n)).toNat : Int) = v := by omega
          rw [this]; exact h0
        · have : max 0 (k - PS m n) + ((v - max 0 (k - PS m n)).toNat : Int) = v := by omega
          rw [this]

theorem InFamN_iff_InFam (m : List Int) (k : Int) (c : List Int) : InFamN m m.length k c ↔ InFam m k c := Iff.rfl

/-- characterisation of the list -/
theorem mem_msColexList (m : List Int) (k : Int) (c : List Int) :
    c ∈ msColexList m k ↔ c.length = m.length ∧ (∀ i, i < m.length → 0 ≤ G c i ∧ G c i ≤ G m i) ∧ c.sum = k :=
  mem_msColexN m m.length k c

end Iter
namespace Iter
open Spec

/-! ### the successor relation (pointwise), the greedy fill, the last element -/

/-- `c'` is the colex successor of `c` among the vectors of the first `n` types: `j ≥ 1` is the lowest type that is not
saturated and has a copy below it; it is incremented, the types above are kept, and the remaining `PS c j - 1` copies
are redistributed greedily from type 0. -/
def MsNextN (m : List Int) (n : Nat) (c c' : List Int) : Prop :=
  ∃ j, 1 ≤ j ∧ j < n ∧ G c j < G m j ∧ 0 < PS c j ∧ (∀ i, 1 ≤ i → i < j → G c i < G m i → PS c i ≤ 0) ∧
    c.length = n ∧ c'.length = n ∧
    (∀ i, i < j → G c' i = min (G m i) (max 0 (PS c j - 1 - PS m i))) ∧ G c' j = G c j + 1 ∧
    ∀ i, j < i → G c' i = G c i

/-- no type can be incremented -/
def NoNextN (m : List Int) (n : Nat) (c : List Int) : Prop :=
  ∀ j, 1 ≤ j → j < n → G c j < G m j → PS c j ≤ 0

/-- the greedy fill of `k` copies from type 0 -/
def IsGreedyN (m : List Int) (n : Nat) (k : Int) (c : List Int) : Prop :=
  c.length = n ∧ ∀ i, i < n → G c i = min (G m i) (max 0 (k - PS m i))

theorem MsNextN.not_noNext {m : List Int} {n : Nat} {c c' : List Int} (h : MsNextN m n c c') : ¬ NoNextN m n c := by
  obtain ⟨j, h1, h2, h3, h4, _⟩ := h
  intro hn
  have := hn j h1 h2 h3
  omega

/-- the successor is unique -/
theorem MsNextN.unique {m : List Int} {n : Nat} {c c1 c2 : List Int} (h1 : MsNextN m n c c1) (h2 : MsNextN m n c c2) :
    c1 = c2 := by
  obtain ⟨j1, a1, a2, a3, a4, a5, a6, a7, a8, a9, a10⟩ := h1
  obtain ⟨j2, b1, b2, b3, b4, b5, b6, b7, b8, b9, b10⟩ := h2
  have hj : j1 = j2 := by
    rcases Nat.lt_trichotomy j1 j2 with h | h | h
    · have := b5 j1 a1 h a3; omega
    · exact h
    · have := a5 j2 b1 h b3; omega
  subst hj
  apply G_ext c1 c2 (by omega)
  intro i hi
  rcases Nat.lt_trichotomy i j1 with h | h | h
  · rw [a8 i h, b8 i h]
  · subst h; rw [a9, b9]
  · rw [a10 i h, b10 i h]

theorem IsGreedyN.unique {m : List Int} {n : Nat} {k : Int} {c1 c2 : List Int} (h1 : IsGreedyN m n k c1)
    (h2 : IsGreedyN m n k c2) : c1 = c2 := by
  apply G_ext c1 c2 (by rw [h1.1, h2.1])
  intro i hi
  rw [h1.2 i (by rw [← h1.1]; exact hi), h2.2 i (by rw [← h1.1]; exact hi)]

theorem MsNextN.snoc {m : List Int} {n : Nat} {a b : List Int} (v : Int) (h : MsNextN m n a b) :
    MsNextN m (n + 1) (a ++ [v]) (b ++ [v]) := by
  obtain ⟨j, a1, a2, a3, a4, a5, a6, a7, a8, a9, a10⟩ := h
  refine ⟨j, a1, by omega, ?_, ?_, ?_, by simp [a6], by simp [a7], ?_, ?_, ?_⟩
  · rw [G_snoc]; simpa [a6, a2] using a3
  · rw [PS_snoc a v j (by omega)]; exact a4
  · intro i h1 h2
    rw [G_snoc, PS_snoc a v i (by omega)]
    have : i < a.length := by omega
    simpa [this] using a5 i h1 h2
  · intro i hi
    rw [G_snoc, PS_snoc a v j (by omega)]
    have : i < b.length := by omega
    simpa [this] using a8 i hi
  · rw [G_snoc, G_snoc]
    have h1 : j < b.length := by omega
    have h2 : j < a.length := by omega
    simpa [h1, h2] using a9
  · intro i hi
    rw [G_snoc, G_snoc, a6, a7]
    by_cases h : i < n
    · simpa [h] using a10 i hi
    · simp [h]

theorem PS_nonneg' (m : List Int) (hm : ∀ i, 0 ≤ G m i) (j : Nat) : 0 ≤ PS m j := by
  have := PS_mono' m j (fun i _ => hm i) 0 j (by omega) (le_refl _)
  rw [PS_zero'] at this; exact this

/-- the list is a chain for the successor relation, begins with the greedy fill and ends with a vector without
successor; it is non-empty exactly when `0 ≤ k ≤ m[0] + … + m[n-1]` -/
theorem msColexN_chain (m : List Int) (hm : ∀ i, 0 ≤ G m i) : ∀ (n : Nat) (k : Int), 0 ≤ k → k ≤ PS m n →
    msColexN m n k ≠ [] ∧ (msColexN m n k).IsChain (MsNextN m n) ∧
    (∀ x ∈ (msColexN m n k).head?, IsGreedyN m n k x) ∧ (∀ x ∈ (msColexN m n k).getLast?, NoNextN m n x) := by
  intro n
  induction n with
  | zero =>
    intro k hk0 hk1
    rw [PS_zero'] at hk1
    have : k = 0 := by omega
    subst this
    refine ⟨by simp [msColexN], by simp [msColexN], ?_, ?_⟩
    · intro x hx
      simp [msColexN] at hx
      subst hx
      exact ⟨rfl, by intro i hi; omega⟩
    · intro x hx j h1 h2; omega
  | succ n ih =>
    intro k hk0 hk1
    rw [PS_succ'] at hk1
    have hPn := PS_nonneg' m hm n
    have hmn := hm n
    rw [msColexN_succ]
    generalize hlo : max 0 (k - PS m n) = lo
    generalize hhi : min (G m n) k = hi
    have hlohi : lo ≤ hi := by omega
    have hfeas : ∀ t : Nat, t < (hi + 1 - lo).toNat → 0 ≤ k - (lo + (t : Int)) ∧ k - (lo + (t : Int)) ≤ PS m n := by
      intro t ht; omega
    obtain ⟨hc, hl⟩ := isChain_flatMap_range (MsNextN m (n + 1))
      (fun (t : Nat) => (msColexN m n (k - (lo + (t : Int)))).map (fun c => c ++ [lo + (t : Int)]))
      (hi + 1 - lo).toNat
      (by
        intro t ht
        obtain ⟨_, h2, _, _⟩ := ih _ (hfeas t ht).1 (hfeas t ht).2
        rw [List.isChain_map]
        exact h2.imp (fun a b hab => hab.snoc _))
      (by
        intro t ht
        obtain ⟨h1, _, _, _⟩ := ih _ (hfeas t ht).1 (hfeas t ht).2
        simpa using h1)
      (by
        intro t ht x hx y hy
        obtain ⟨_, _, _, h4⟩ := ih _ (hfeas t (by omega)).1 (hfeas t (by omega)).2
        obtain ⟨_, _, h3', _⟩ := ih _ (hfeas (t + 1) ht).1 (hfeas (t + 1) ht).2
        simp only [List.getLast?_map, Option.mem_def, Option.map_eq_some_iff] at hx
        simp only [List.head?_map, Option.mem_def, Option.map_eq_some_iff] at hy
        obtain ⟨x0, hx0, rfl⟩ := hx
        obtain ⟨y0, hy0, rfl⟩ := hy
        have hxn := h4 x0 hx0
        have hxm := (mem_msColexN m n _ x0).mp (List.mem_of_mem_getLast? hx0)
        have hyg := h3' y0 hy0
        obtain ⟨xl, xb, xs⟩ := hxm
        obtain ⟨yl, yg⟩ := hyg
        have hxPS : PS x0 n = k - (lo + (t : Int)) := by rw [PS_ge x0 n (by omega), xs]
        have hn1 : 1 ≤ n := by
          by_contra hc
          have : n = 0 := by omega
          subst this
          rw [PS_zero'] at hPn
          have := (hfeas (t + 1) ht).2
          have := (hfeas (t + 1) ht).1
          rw [PS_zero'] at *
          push_cast at *
          omega
        refine ⟨n, hn1, by omega, ?_, ?_, ?_, by simp [xl], by simp [yl], ?_, ?_, ?_⟩
        · rw [G_snoc]; simp [xl]; omega
        · rw [PS_snoc x0 _ n (by omega), hxPS]
          have := (hfeas (t + 1) ht).1
          push_cast at this; omega
        · intro i h1 h2
          rw [G_snoc, PS_snoc x0 _ i (by omega)]
          have : i < x0.length := by omega
          simpa [this] using hxn i h1 h2
        · intro i hi
          rw [G_snoc, PS_snoc x0 _ n (by omega), hxPS]
          have : i < y0.length := by omega
          simp only [this, if_true]
          rw [yg i hi]
          push_cast
          have e : k - (lo + ((t : Int) + 1)) = k - (lo + (t : Int)) - 1 := by omega
          rw [e]
        · rw [G_snoc, G_snoc]; simp [xl, yl]; omega
        · intro i hi
          rw [G_snoc, G_snoc, xl, yl]
          have h1 : ¬ i < n := by omega
          have h2 : ¬ i = n := by omega
          simp [h1, h2])
    have hcnt : 0 < (hi + 1 - lo).toNat := by omega
    obtain ⟨hlast, hhead⟩ := hl hcnt
    refine ⟨?_, hc, ?_, ?_⟩
    · intro he
      rw [he] at hhead
      obtain ⟨h1, _, _, _⟩ := ih _ (hfeas 0 hcnt).1 (hfeas 0 hcnt).2
      simp only [List.head?_nil, List.head?_map] at hhead
      cases hh : (msColexN m n (k - (lo + ((0 : Nat) : Int)))).head? with
      | none => rw [List.head?_eq_none_iff] at hh; exact h1 hh
      | some z => rw [hh] at hhead; simp at hhead
    · intro x hx
      rw [hhead] at hx
      obtain ⟨_, _, h3, _⟩ := ih _ (hfeas 0 hcnt).1 (hfeas 0 hcnt).2
      simp only [List.head?_map, Option.mem_def, Option.map_eq_some_iff] at hx
      obtain ⟨x0, hx0, rfl⟩ := hx
      obtain ⟨xl, xg⟩ := h3 x0 hx0
      refine ⟨by simp [xl], ?_⟩
      intro i hi
      rw [G_snoc, xl]
      by_cases h : i < n
      · simp only [h, if_true]
        rw [xg i h]
        have hmi := hm i
        have hmono : PS m (i + 1) ≤ PS m n := PS_mono' m n (fun i _ => hm i) (i + 1) n (by omega) (le_refl _)
        rw [PS_succ'] at hmono
        push_cast
        omega
      · have : i = n := by omega
        subst this
        simp only [lt_irrefl, if_false, if_true]
        push_cast
        omega
    · intro x hx
      rw [hlast] at hx
      have hcnt' : (hi + 1 - lo).toNat - 1 < (hi + 1 - lo).toNat := by omega
      obtain ⟨_, _, _, h4⟩ := ih _ (hfeas _ hcnt').1 (hfeas _ hcnt').2
      simp only [List.getLast?_map, Option.mem_def, Option.map_eq_some_iff] at hx
      obtain ⟨x0, hx0, rfl⟩ := hx
      have hxm := (mem_msColexN m n _ x0).mp (List.mem_of_mem_getLast? hx0)
      obtain ⟨xl, xb, xs⟩ := hxm
      have hxn := h4 x0 hx0
      have ev : lo + (((hi + 1 - lo).toNat - 1 : Nat) : Int) = hi := by omega
      rw [ev] at xs ⊢
      intro j h1 h2
      rw [G_snoc, xl]
      by_cases h : j < n
      · simp only [h, if_true]
        rw [PS_snoc x0 _ j (by omega)]
        exact hxn j h1 h
      · have : j = n := by omega
        subst this
        simp only [lt_irrefl, if_false, if_true]
        intro hlt
        rw [PS_snoc x0 _ j (by omega), PS_ge x0 j (by omega), xs]
        omega

end Iter
namespace Iter
open Spec

/-! ### the order: colexicographic, strictly increasing; no repetition -/

/-- colexicographic order on count vectors: compare the last type where they differ -/
def MsColexLt (a b : List Int) : Prop := ∃ j, G a j < G b j ∧ ∀ i, j < i → G a i = G b i

theorem MsColexLt.trans {a b c : List Int} (h1 : MsColexLt a b) (h2 : MsColexLt b c) : MsColexLt a c := by
  obtain ⟨j1, a1, a2⟩ := h1
  obtain ⟨j2, b1, b2⟩ := h2
  rcases Nat.lt_trichotomy j1 j2 with h | h | h
  · exact ⟨j2, by rw [a2 j2 h]; exact b1, fun i hi => by rw [a2 i (by omega), b2 i hi]⟩
  · subst h; exact ⟨j1, by omega, fun i hi => by rw [a2 i hi, b2 i hi]⟩
  · exact ⟨j1, by rw [← b2 j1 h]; exact a1, fun i hi => by rw [a2 i hi, b2 i (by omega)]⟩

theorem MsColexLt.ne {a b : List Int} (h : MsColexLt a b) : a ≠ b := by
  rintro rfl
  obtain ⟨j, h1, _⟩ := h
  omega

instance : Trans MsColexLt MsColexLt MsColexLt := ⟨MsColexLt.trans⟩

theorem MsNextN.colexLt {m : List Int} {n : Nat} {c c' : List Int} (h : MsNextN m n c c') : MsColexLt c c' := by
  obtain ⟨j, _, _, _, _, _, _, _, _, a9, a10⟩ := h
  exact ⟨j, by omega, fun i hi => (a10 i hi).symm⟩

theorem msColexN_eq_nil (m : List Int) (n : Nat) (k : Int) (h : ¬ (0 ≤ k ∧ k ≤ PS m n)) : msColexN m n k = [] := by
  rw [List.eq_nil_iff_forall_not_mem]
  intro c hc
  exact h ((mem_msColexN m n k c).mp hc).sum_bounds

theorem msColexN_isChain (m : List Int) (hm : ∀ i, 0 ≤ G m i) (n : Nat) (k : Int) :
    (msColexN m n k).IsChain (MsNextN m n) := by
  by_cases h : 0 ≤ k ∧ k ≤ PS m n
  · exact (msColexN_chain m hm n k h.1 h.2).2.1
  · rw [msColexN_eq_nil m n k h]; simp

theorem msColexN_sorted (m : List Int) (hm : ∀ i, 0 ≤ G m i) (n : Nat) (k : Int) :
    (msColexN m n k).Pairwise MsColexLt := by
  rw [← List.isChain_iff_pairwise]
  exact (msColexN_isChain m hm n k).imp (fun a b h => h.colexLt)

theorem G_nonneg_all (m : List Int) (hm : ∀ v ∈ m, 0 ≤ v) (i : Nat) : 0 ≤ G m i := by
  by_cases h : i < m.length
  · exact G_mem_nonneg m hm i h
  · rw [G_ge m i (by omega)]; exact Int.le_refl _

/-- the list is strictly increasing in colexicographic order -/
theorem msColexList_sorted (m : List Int) (k : Int) (hm : ∀ v ∈ m, 0 ≤ v) : (msColexList m k).Pairwise MsColexLt :=
  msColexN_sorted m (G_nonneg_all m hm) m.length k

/-- no vector occurs twice -/
theorem msColexList_nodup (m : List Int) (k : Int) (hm : ∀ v ∈ m, 0 ≤ v) : (msColexList m k).Nodup :=
  (msColexList_sorted m k hm).imp (fun h => h.ne)

/-! ### the successor as a function -/

theorem G_append (a b : List Int) (i : Nat) : G (a ++ b) i = if i < a.length then G a i else G b (i - a.length) := by
  simp only [G, List.getD_eq_getElem?_getD]
  by_cases h : i < a.length
  · simp [h, List.getElem?_append_left h]
  · simp only [h, if_false]; rw [List.getElem?_append_right (by omega)]

theorem G_drop (c : List Int) (t i : Nat) : G (c.drop t) i = G c (t + i) := by
  simp [G, List.getD_eq_getElem?_getD, List.getElem?_drop]

theorem msGreedy_length (m : List Int) (n : Nat) (x : Int) : (msGreedy m n x).length = n := by simp [msGreedy]

theorem G_msGreedy (m : List Int) (n : Nat) (x : Int) (i : Nat) (h : i < n) :
    G (msGreedy m n x) i = min (G m i) (max 0 (x - PS m i)) := by
  rw [G_lt _ _ (by rw [msGreedy_length]; exact h)]
  simp [msGreedy, G, PS]

theorem msGreedy_isGreedy (m : List Int) (n : Nat) (x : Int) : IsGreedyN m n x (msGreedy m n x) :=
  ⟨msGreedy_length m n x, fun i hi => G_msGreedy m n x i hi⟩

theorem msSuccAt_next (m c : List Int) (j : Nat) (h1 : 1 ≤ j) (h2 : j < c.length) (h3 : G c j < G m j)
    (h4 : 0 < PS c j) (h5 : ∀ i, 1 ≤ i → i < j → G c i < G m i → PS c i ≤ 0) :
    MsNextN m c.length c (msSuccAt m c j) := by
  refine ⟨j, h1, h2, h3, h4, h5, rfl, ?_, ?_, ?_, ?_⟩
  · simp [msSuccAt, msGreedy_length]; omega
  · intro i hi
    unfold msSuccAt
    rw [G_append, msGreedy_length]
    simp only [hi, if_true]
    exact G_msGreedy m j _ i hi
  · unfold msSuccAt
    rw [G_append, msGreedy_length]
    simp only [lt_irrefl, if_false, Nat.sub_self]
    simp [G]
  · intro i hi
    unfold msSuccAt
    rw [G_append, msGreedy_length]
    have : ¬ i < j := by omega
    simp only [this, if_false]
    obtain ⟨t, ht⟩ : ∃ t, i - j = t + 1 := ⟨i - j - 1, by omega⟩
    rw [ht, G_cons_succ, G_drop]
    congr 1; omega

theorem msSucc_eq_some_iff (m c c' : List Int) (n : Nat) (hl : c.length = n) :
    msSucc m c = some c' ↔ MsNextN m n c c' := by
  subst hl
  unfold msSucc
  rw [Option.map_eq_some_iff]
  constructor
  · rintro ⟨j, hj, rfl⟩
    rw [List.find?_range_eq_some] at hj
    obtain ⟨p1, p2, p3⟩ := hj
    simp only [decide_eq_true_eq] at p1
    rw [List.mem_range] at p2
    apply msSuccAt_next m c j p1.1 p2 p1.2.1 p1.2.2
    intro i h1 h2 h3
    have := p3 i h2
    simp only [Bool.not_eq_true', decide_eq_false_iff_not] at this
    by_contra hc
    exact this ⟨h1, h3, by simp only [PS] at hc; omega⟩
  · intro h
    obtain ⟨j, a1, a2, a3, a4, a5, a6, a7, a8, a9, a10⟩ := id h
    refine ⟨j, ?_, (msSuccAt_next m c j a1 a2 a3 a4 a5).unique h⟩
    rw [List.find?_range_eq_some]
    refine ⟨by simp only [decide_eq_true_eq]; exact ⟨a1, a3, a4⟩, List.mem_range.mpr a2, ?_⟩
    intro i hi
    simp only [Bool.not_eq_true', decide_eq_false_iff_not]
    rintro ⟨b1, b2, b3⟩
    have := a5 i b1 hi b2
    simp only [PS] at this; omega

theorem msSucc_eq_none_iff (m c : List Int) (n : Nat) (hl : c.length = n) :
    msSucc m c = none ↔ NoNextN m n c := by
  subst hl
  unfold msSucc
  rw [Option.map_eq_none_iff, List.find?_eq_none]
  constructor
  · intro h j h1 h2 h3
    have := h j (List.mem_range.mpr h2)
    simp only [decide_eq_true_eq] at this
    by_contra hc
    exact this ⟨h1, h3, by simp only [PS] at hc; omega⟩
  · intro h j hj
    simp only [decide_eq_true_eq]
    rintro ⟨b1, b2, b3⟩
    have := h j b1 (List.mem_range.mp hj) b2
    simp only [PS] at this; omega

end Iter
namespace Iter
open Spec

/-! ### the loops never panic and have enough fuel -/

theorem ms_get_ok (a : Sl) (i : Nat) (h : i < a.length) : get a (i : Int) = .ok (G a i) := by
  rw [get_natCast, G_lt a i h]; simp [h]

theorem ms_set_ok (a : Sl) (i : Nat) (v : Int) (h : i < a.length) : set a (i : Int) v = .ok (a.set i v) := by
  rw [set_natCast]; simp [h]

theorem q2_total (m : Sl) : ∀ (cnt j : Nat) (x : Int) (st : Sl), st.length = m.length → j + cnt ≤ m.length →
    ∃ r, MSComb.q2 m cnt (j : Int) x st = .ok r := by
  intro cnt
  induction cnt with
  | zero => intro j x st _ _; exact ⟨_, rfl⟩
  | succ cnt ih =>
    intro j x st hl hj
    unfold MSComb.q2
    rw [ms_get_ok m j (by omega)]
    simp only [Outcome.bind_ok]
    split
    · rw [ms_set_ok st j _ (by omega)]
      simp only [Outcome.bind_ok]
      have hc : ((j : Int) + 1) = ((j + 1 : Nat) : Int) := by push_cast; rfl
      rw [hc]
      exact ih (j + 1) _ _ (by simpa using hl) (by omega)
    · rw [ms_set_ok st j _ (by omega)]
      exact ⟨_, rfl⟩

theorem q5_total (m : Sl) : ∀ (fuel j : Nat) (x : Int) (st : Sl), st.length = m.length → j ≤ m.length →
    m.length + 1 ≤ fuel + j →
    ∃ st' r, MSComb.q5 m fuel (j : Int) x st = .ok (st', r) ∧
      (r = none → ∀ i, j ≤ i → i < m.length → G st i = G m i) := by
  intro fuel
  induction fuel with
  | zero => intro j x st _ h1 h2; omega
  | succ fuel ih =>
    intro j x st hl h1 h2
    unfold MSComb.q5
    split
    · next hge => exact ⟨st, none, rfl, by intro _ i h3 h4; omega⟩
    · next hlt =>
      have hj : j < m.length := by omega
      rw [ms_get_ok st j (by omega), ms_get_ok m j hj]
      simp only [Outcome.bind_ok]
      split
      · next heq =>
        have heq' : G st j = G m j := by simpa using heq
        rw [ms_set_ok st j _ (by omega)]
        simp only [Outcome.bind_ok]
        have hc : ((j : Int) + 1) = ((j + 1 : Nat) : Int) := by push_cast; rfl
        rw [hc]
        obtain ⟨st', r, e, hr⟩ := ih (j + 1) (x + G m j) (st.set j 0) (by simpa using hl) (by omega) (by omega)
        refine ⟨st', r, e, ?_⟩
        intro hn i h3 h4
        by_cases hij : i = j
        · subst hij; exact heq'
        · have := hr hn i (by omega) h4
          rw [G_set] at this
          have h5 : ¬ (j = i ∧ j < st.length) := by omega
          simpa [h5] using this
      · exact ⟨st, some ((j : Int), x), rfl, by intro h; simp at h⟩

theorem q7up_total (m st : Sl) (hl : st.length = m.length) : ∀ (fuel j : Nat), j < m.length → m.length ≤ fuel + j →
    ∃ r, MSComb.q7up m st fuel (j : Int) = .ok r ∧ (r = none → ∀ i, j ≤ i → i < m.length → G st i = G m i) := by
  intro fuel
  induction fuel with
  | zero => intro j h1 h2; omega
  | succ fuel ih =>
    intro j h1 h2
    unfold MSComb.q7up
    rw [ms_get_ok st j (by omega), ms_get_ok m j h1]
    simp only [Outcome.bind_ok]
    split
    · next heq =>
      have heq' : G st j = G m j := by simpa using heq
      split
      · next hge =>
        refine ⟨none, rfl, ?_⟩
        intro _ i h3 h4
        have : i = j := by omega
        subst this; exact heq'
      · next hlt =>
        have hc : ((j : Int) + 1) = ((j + 1 : Nat) : Int) := by push_cast; rfl
        rw [hc]
        obtain ⟨r, e, hr⟩ := ih (j + 1) (by omega) (by omega)
        refine ⟨r, e, ?_⟩
        intro hn i h3 h4
        by_cases hij : i = j
        · subst hij; exact heq'
        · exact hr hn i (by omega) h4
    · exact ⟨some (j : Int), rfl, by intro h; simp at h⟩

theorem q7down_total (st : Sl) : ∀ (fuel j : Nat), j < st.length → (∃ i, i ≤ j ∧ G st i ≠ 0) → j + 1 ≤ fuel →
    ∃ r, MSComb.q7down st fuel (j : Int) = .ok r := by
  intro fuel
  induction fuel with
  | zero => intro j _ _ h; omega
  | succ fuel ih =>
    intro j h1 h2 h3
    unfold MSComb.q7down
    rw [ms_get_ok st j h1]
    simp only [Outcome.bind_ok]
    split
    · next heq =>
      have heq' : G st j = 0 := by simpa using heq
      obtain ⟨i, hi1, hi2⟩ := h2
      have hj : 1 ≤ j := by
        by_contra hc
        have : i = j := by omega
        subst this; exact hi2 heq'
      have hc : ((j : Int) - 1) = ((j - 1 : Nat) : Int) := by omega
      rw [hc]
      apply ih (j - 1) (by omega) ⟨i, ?_, hi2⟩ (by omega)
      by_contra hc2
      have : i = j := by omega
      subst this; exact hi2 heq'
    · exact ⟨_, rfl⟩

end Iter
namespace Iter
open Spec

/-! ### what one call of `next()` does to the count vector -/

/-- shape of the vector after the successor step at type `jn`, with `x` copies redistributed below it -/
def Shape (m : List Int) (jn : Nat) (x : Int) (old c' : List Int) : Prop :=
  c'.length = m.length ∧ (∀ i, i < jn → G c' i = min (G m i) (max 0 (x - PS m i))) ∧ G c' jn = G old jn + 1 ∧
    ∀ i, jn < i → G c' i = G old i

/-- steps Q5, Q6, Q2 from a state prepared by Q4: no panic, and the shape of the result -/
theorem stepQ56_fwd (m : List Int) (hm : MGood m) (st1 : List Int) (x : Int) (j1 : Nat)
    (hl : st1.length = m.length) (hj1 : 1 ≤ j1) (hj1l : j1 ≤ m.length)
    (hz : ∀ i, 1 ≤ i → i < j1 → G st1 i = 0)
    (hb : ∀ i, j1 ≤ i → i < m.length → 0 ≤ G st1 i ∧ G st1 i ≤ G m i)
    (hx0 : 0 ≤ x) (hxb : x + 1 ≤ PS m j1) :
    ∃ st2 r, MSComb.q5 m (m.length + 1) (j1 : Int) x st1 = .ok (st2, r) ∧
      (r = none → ∀ i, j1 ≤ i → i < m.length → G st1 i = G m i) ∧
      (∀ j' x', r = some (j', x') → ∃ jn : Nat, j' = (jn : Int) ∧ j1 ≤ jn ∧ jn < m.length ∧
        (∀ i, j1 ≤ i → i < jn → G st1 i = G m i) ∧ G st1 jn < G m jn ∧ x' = x + (PS m jn - PS m j1) ∧
        ∃ sj st3, get st2 j' = .ok sj ∧ set st2 j' (sj + 1) = .ok st3 ∧
          (x' = 0 → ∃ c', set st3 0 0 = .ok c' ∧ Shape m jn x' st1 c') ∧
          (x' ≠ 0 → ∃ c' a j'' b, MSComb.q2 m m.length 0 x' st3 = .ok (c', a, j'', b) ∧ Shape m jn x' st1 c')) := by
  obtain ⟨st2, r, hq5, hnone⟩ := q5_total m (m.length + 1) j1 x st1 hl hj1l (by omega)
  refine ⟨st2, r, hq5, hnone, ?_⟩
  intro j' x' hr
  subst hr
  obtain ⟨hl2, hq⟩ := q5_spec m (m.length + 1) j1 x st1 st2 _ hl hq5
  obtain ⟨jn, e1, hjn1, hjn2, q4, q5, q6, q7, q8⟩ := hq j' x' rfl
  subst e1
  have hjl2 : jn < st2.length := by omega
  have eg := ms_get_ok st2 jn hjl2
  have es := ms_set_ok st2 jn (G st2 jn + 1) hjl2
  have hmono := PS_mono m hm.nonneg j1 jn hjn1
  have hG2jn : G st2 jn = G st1 jn := q5 jn (Or.inr (le_refl _))
  have hbjn := hb jn hjn1 hjn2
  have hlt : G st1 jn < G m jn := by omega
  have hz2 : ∀ i, 1 ≤ i → i < jn → G st2 i = 0 := by
    intro i h1 h2
    by_cases h3 : i < j1
    · rw [q5 i (Or.inl h3)]; exact hz i h1 h3
    · exact (q4 i (by omega) h2).2
  generalize hst3 : st2.set jn (G st2 jn + 1) = st3 at es
  have hl3 : st3.length = m.length := by rw [← hst3]; simpa using hl2
  have hG3 : ∀ i, G st3 i = if i = jn then G st1 jn + 1 else G st2 i := by
    intro i; rw [← hst3, G_set]
    by_cases h : jn = i
    · subst h; simp only [hjl2, and_self, if_true]; rw [hG2jn]
    · have : ¬ (i = jn) := fun h' => h h'.symm
      simp [h, this]
  have hnn : ∀ i, 0 ≤ G m i := by
    intro i
    by_cases h : i < m.length
    · exact hm.nonneg i h
    · rw [G_ge m i (by omega)]; exact Int.le_refl _
  refine ⟨jn, rfl, hjn1, hjn2, fun i h1 h2 => (q4 i h1 h2).1, hlt, q6, G st2 jn, st3, eg, es, ?_, ?_⟩
  · intro hx'
    have h0l : 0 < st3.length := by omega
    refine ⟨st3.set 0 0, ms_set_ok st3 0 0 h0l, by simpa using hl3, ?_, ?_, ?_⟩
    · intro i hi
      have hP := PS_nonneg' m hnn i
      have hmi := hnn i
      rw [G_set]
      by_cases h0 : i = 0
      · subst h0; simp [h0l]; omega
      · have h1 : ¬ (0 = i ∧ 0 < st3.length) := by omega
        simp only [h1, if_false]
        rw [hG3 i]
        have h2 : ¬ i = jn := by omega
        simp only [h2, if_false]
        rw [hz2 i (by omega) hi]; omega
    · rw [G_set]
      have h1 : ¬ (0 = jn ∧ 0 < st3.length) := by omega
      simp only [h1, if_false]
      rw [hG3 jn]; simp
    · intro i hi
      rw [G_set]
      have h1 : ¬ (0 = i ∧ 0 < st3.length) := by omega
      simp only [h1, if_false]
      rw [hG3 i]
      have h2 : ¬ i = jn := by omega
      simp only [h2, if_false]
      exact q5 i (Or.inr (by omega))
  · intro hx'
    have hx'pos : 0 < x' := by omega
    obtain ⟨⟨c', a, j'', b⟩, hq2⟩ := q2_total m m.length 0 x' st3 hl3 (by omega)
    refine ⟨c', a, j'', b, by simpa using hq2, ?_⟩
    obtain ⟨hlc, j2, e2, _, r3, _, r5, r6, r7⟩ := q2_spec m m.length 0 x' st3 c' a j'' b hl3 hq2
    have hbt : b = true := by
      cases b with
      | true => rfl
      | false =>
        obtain ⟨t1, t2, t3, _, _, _⟩ := r7 rfl
        have := t3 hx'pos
        have hm2 := PS_mono m hm.nonneg jn j2 (by omega)
        rw [PS_zero'] at t2; omega
    obtain ⟨s1, s2, s3, s4, s5, s6, _⟩ := r6 hbt
    have hj2pos := s5 hx'pos
    rw [PS_zero'] at s2
    have hj2lt : j2 < jn := by
      by_contra hc
      have := PS_mono m hm.nonneg jn j2 (by omega)
      omega
    refine ⟨hlc, ?_, ?_, ?_⟩
    · intro i hi
      have hmi := hnn i
      rcases Nat.lt_trichotomy i j2 with h | h | h
      · rw [r3 i (by omega) h]
        have := PS_mono m hm.nonneg (i + 1) j2 (by omega)
        rw [PS_succ'] at this
        omega
      · subst h
        rw [s2] at s3 hj2pos ⊢
        omega
      · rw [r5 i h, hG3 i]
        have h2 : ¬ i = jn := by omega
        simp only [h2, if_false]
        rw [hz2 i (by omega) hi]
        have := PS_mono m hm.nonneg (j2 + 1) i (by omega)
        rw [PS_succ'] at this
        omega
    · rw [r5 jn hj2lt, hG3 jn]; simp
    · intro i hi
      rw [r5 i (by omega), hG3 i]
      have h2 : ¬ i = jn := by omega
      simp only [h2, if_false]
      exact q5 i (Or.inr (by omega))

end Iter
namespace Iter
open Spec

/-- step Q7: no panic, and the shape of the result -/
theorem stepQ7_fwd (m : List Int) (k : Int) (hm : MGood m) (c : List Int) (j : Nat) (hfam : InFam m k c)
    (hsat : ISat m c j) (hjpos : 1 ≤ j) :
    ∃ r, MSComb.q7up m c (m.length + 1) (j : Int) = .ok r ∧
      (r = none → ∀ i, j ≤ i → i < m.length → G c i = G m i) ∧
      (∀ j', r = some j' → ∃ jn : Nat, j' = (jn : Int) ∧ j ≤ jn ∧ jn < m.length ∧
        (∀ i, i < jn → G c i = G m i) ∧ G c jn < G m jn ∧
        ∃ sj c1 j2 sj2 c2 s0, get c j' = .ok sj ∧ set c j' (sj + 1) = .ok c1 ∧
          MSComb.q7down c1 (c1.length + 2) (j' - 1) = .ok j2 ∧ get c1 j2 = .ok sj2 ∧
          set c1 j2 (sj2 - 1) = .ok c2 ∧ get c2 0 = .ok s0 ∧ Shape m jn (PS m jn - 1) c c2) := by
  obtain ⟨hl, hbnd, hsum⟩ := hfam
  obtain ⟨hjl, hc0, hsatj⟩ := hsat
  obtain ⟨r, hup, hnone⟩ := q7up_total m c hl (m.length + 1) j hjl (by omega)
  refine ⟨r, hup, hnone, ?_⟩
  intro j' hr
  subst hr
  obtain ⟨jn, e1, hjn1, hjn2, hjn3, u5, u6⟩ := q7up_spec m c (m.length + 1) j _ hup j' rfl
  subst e1
  have hsat' : ∀ i, i < jn → G c i = G m i := by
    intro i hi
    by_cases h : i < j
    · exact hsatj i h
    · exact u5 i (by omega) hi
  have hbjn := hbnd jn hjn2
  have hlt : G c jn < G m jn := by omega
  have eg := ms_get_ok c jn hjn3
  have es := ms_set_ok c jn (G c jn + 1) hjn3
  generalize hc1 : c.set jn (G c jn + 1) = c1 at es
  have hG1 : ∀ i, G c1 i = if i = jn then G c jn + 1 else G c i := by
    intro i; rw [← hc1, G_set]
    by_cases h : jn = i
    · subst h; simp only [hjn3, and_self, if_true]
    · have : ¬ (i = jn) := fun h' => h h'.symm
      simp [h, this]
  have hl1 : c1.length = m.length := by rw [← hc1]; simpa using hl
  have hcast : ((jn : Int) - 1) = ((jn - 1 : Nat) : Int) := by omega
  obtain ⟨j2, hdown⟩ := q7down_total c1 (c1.length + 2) (jn - 1) (by omega)
    ⟨0, by omega, by rw [hG1 0]; have : ¬ (0 = jn) := by omega
                     simp only [this, if_false]; omega⟩ (by omega)
  obtain ⟨jd, e2, d1, d2, d3, d4⟩ := q7down_spec c1 (c1.length + 2) (jn - 1) j2 hdown
  subst e2
  have hjd : jd < jn := by omega
  have hG1jd : G c1 jd = G m jd := by
    rw [hG1 jd]; have : ¬ jd = jn := by omega
    simp only [this, if_false]; exact hsat' jd hjd
  have hmjd : 1 ≤ G m jd := by
    have := hm.nonneg jd (by omega); rw [hG1jd] at d3; omega
  have eg2 := ms_get_ok c1 jd d2
  have es2 := ms_set_ok c1 jd (G c1 jd - 1) d2
  generalize hc2 : c1.set jd (G c1 jd - 1) = c2 at es2
  have hG2 : ∀ i, G c2 i = if i = jd then G m jd - 1 else G c1 i := by
    intro i; rw [← hc2, G_set]
    by_cases h : jd = i
    · subst h; simp only [d2, and_self, if_true]; rw [hG1jd]
    · have : ¬ (i = jd) := fun h' => h h'.symm
      simp [h, this]
  have hl2 : c2.length = m.length := by rw [← hc2]; simpa using hl1
  have eg0 := ms_get_ok c2 0 (by omega)
  have hmz : ∀ i, jd + 1 ≤ i → i < jn → G m i = 0 := by
    intro i h1 h2
    have := d4 i (by omega) (by omega)
    rw [hG1 i] at this
    have h3 : ¬ i = jn := by omega
    simp only [h3, if_false] at this
    rw [← hsat' i h2]; exact this
  have hPSz := PS_zeros m (jd + 1) jn (by omega) hmz
  rw [PS_succ'] at hPSz
  refine ⟨jn, rfl, hjn1, hjn2, hsat', hlt, G c jn, c1, (jd : Int), G c1 jd, c2, G c2 0, eg, es, ?_, eg2, es2,
    by simpa using eg0, hl2, ?_, ?_, ?_⟩
  · rw [hcast]; exact hdown
  · intro i hi
    rw [hG2 i]
    rcases Nat.lt_trichotomy i jd with h | h | h
    · have h1 : ¬ i = jd := by omega
      simp only [h1, if_false]
      rw [hG1 i]
      have h2 : ¬ i = jn := by omega
      simp only [h2, if_false]
      rw [hsat' i hi]
      have := PS_mono m hm.nonneg (i + 1) jd (by omega)
      rw [PS_succ'] at this
      have := hm.nonneg i (by omega)
      omega
    · subst h
      simp only [if_true]
      omega
    · have h1 : ¬ i = jd := by omega
      simp only [h1, if_false]
      rw [d4 i h (by omega), hmz i (by omega) hi]
      omega
  · rw [hG2 jn]
    have h1 : ¬ jn = jd := by omega
    simp only [h1, if_false]
    rw [hG1 jn]; simp
  · intro i hi
    rw [hG2 i]
    have h1 : ¬ i = jd := by omega
    simp only [h1, if_false]
    rw [hG1 i]
    have h2 : ¬ i = jn := by omega
    simp only [h2, if_false]

end Iter
namespace Iter
open Spec

theorem msNext_of_shape (m c c' : List Int) (jn : Nat) (x' : Int) (hc : c.length = m.length) (h1 : 1 ≤ jn)
    (h2 : jn < m.length) (h3 : G c jn < G m jn) (h4 : 0 < PS c jn)
    (h5 : ∀ i, 1 ≤ i → i < jn → G c i < G m i → PS c i ≤ 0) (hx : x' = PS c jn - 1) (hsh : Shape m jn x' c c') :
    MsNextN m m.length c c' := by
  obtain ⟨s1, s2, s3, s4⟩ := hsh
  subst hx
  exact ⟨jn, h1, h2, h3, h4, h5, hc, s1, s2, s3, s4⟩

theorem Shape.congr_old {m : List Int} {jn : Nat} {x : Int} {old old' c' : List Int} (h : Shape m jn x old c')
    (he : ∀ i, jn ≤ i → G old i = G old' i) : Shape m jn x old' c' := by
  obtain ⟨s1, s2, s3, s4⟩ := h
  exact ⟨s1, s2, by rw [s3, he jn (le_refl _)], fun i hi => by rw [s4 i hi, he i (by omega)]⟩

/-- one call of the unexported `next()` on a state satisfying the invariant: it does not panic; when it returns true
the new vector is the colex successor, when it returns false there is no successor -/
theorem MSComb.next0_step (m : List Int) (k : Int) (hm : MGood m) (hk : 0 < k) (s : MSComb) (c : List Int)
    (j : Nat) (hs : s.state = some c) (hsm : s.m = m) (hsk : s.k = k) (hsj : s.j = (j : Int))
    (hfam : InFam m k c) (hinv : ISat m c j ∨ IZero m c j) :
    ∃ s' b, MSComb.next0 s = .ok (s', b) ∧
      (b = true → ∃ c', s'.state = some c' ∧ MsNextN m m.length c c') ∧
      (b = false → NoNextN m m.length c) := by
  have hlen := hm.ne_nil
  have hk0 : (k == 0) = false := by rw [beq_eq_false_iff_ne]; omega
  have hl0 : (m.length == 0) = false := by rw [beq_eq_false_iff_ne]; omega
  obtain ⟨hl, hbnd, hsum⟩ := hfam
  have hg0 : get c 0 = .ok (G c 0) := by simpa using ms_get_ok c 0 (by omega)
  unfold MSComb.next0
  simp only [hs, hsm, hsk, hk0, hl0, Bool.or_self, Bool.false_eq_true, if_false, hg0, Outcome.bind_ok]
  by_cases hj0 : j = 0
  · -- Q4, first case
    subst hj0
    have hsj' : s.j = 0 := by simpa using hsj
    simp only [hsj', beq_self_eq_true, if_true, Outcome.pure_eq, Outcome.bind_ok]
    have hsat : ISat m c 0 := by
      rcases hinv with h1 | h1
      · exact h1
      · have := h1.1; omega
    have hc0 := hsat.2.1
    obtain ⟨st2, r, hq5, hnone, hsome⟩ := stepQ56_fwd m hm c (G c 0 - 1) 1 hl (le_refl _) (by omega)
      (by intro i h1 h2; omega) (fun i _ hi => hbnd i hi) (by omega)
      (by rw [PS_one m hlen]; have := (hbnd 0 hlen).2; omega)
    have hq5' : MSComb.q5 m (m.length + 1) 1 (G c 0 - 1) c = .ok (st2, r) := by simpa using hq5
    simp only [hq5', Outcome.bind_ok]
    cases r with
    | none =>
      refine ⟨_, false, rfl, by simp, fun _ => ?_⟩
      intro i h1 h2 h3
      have := hnone rfl i h1 h2
      omega
    | some jx =>
      obtain ⟨j', x'⟩ := jx
      obtain ⟨jn, ej, hjn1, hjn2, hsatr, hlt, hx', sj, st3, hget, hset, K1, K2⟩ := hsome j' x' rfl
      subst ej
      simp only [hget, hset, Outcome.bind_ok]
      have hPS1 : PS c 1 = G c 0 := PS_one c (by omega)
      have hPSs := PS_sat m c 1 jn hjn1 hsatr
      have hPSm := PS_mono m hm.nonneg 1 jn hjn1
      have hnext : ∀ c', Shape m jn x' c c' → MsNextN m m.length c c' := by
        intro c' hsh
        apply msNext_of_shape m c c' jn x' hl hjn1 hjn2 hlt (by omega) ?_ (by omega) hsh
        intro i h1 h2 h3
        have := hsatr i h1 h2
        omega
      by_cases hx0 : x' = 0
      · obtain ⟨c', hset0, hsh⟩ := K1 hx0
        have hxb : (x' == 0) = true := by simp [hx0]
        simp only [hxb, if_true, hset0, Outcome.bind_ok]
        exact ⟨_, true, rfl, fun _ => ⟨c', rfl, hnext c' hsh⟩, by simp⟩
      · obtain ⟨c', a, j'', b, hq2, hsh⟩ := K2 hx0
        have hx'b : (x' == 0) = false := by simpa using hx0
        simp only [hx'b, Bool.false_eq_true, if_false, hq2, Outcome.bind_ok]
        exact ⟨_, true, rfl, fun _ => ⟨c', rfl, hnext c' hsh⟩, by simp⟩
  · have hsj0 : (s.j == 0) = false := by rw [beq_eq_false_iff_ne, hsj]; omega
    simp only [hsj0, Bool.false_eq_true, if_false]
    by_cases hs0 : G c 0 = 0
    · -- Q4, second case: `j` is the lowest type present
      have hzero : IZero m c j := by
        rcases hinv with h1 | h1
        · have := h1.2.1; omega
        · exact h1
      obtain ⟨_, hjl, hzz, hcj⟩ := hzero
      simp only [hs0, beq_self_eq_true, if_true, hsj]
      have hgj := ms_get_ok c j (by omega)
      have hsj1 := ms_set_ok c j 0 (by omega)
      generalize hst1 : c.set j 0 = st1 at hsj1
      simp only [hgj, hsj1, Outcome.bind_ok, Outcome.pure_eq]
      have hG1 : ∀ i, G st1 i = if i = j then 0 else G c i := by
        intro i; rw [← hst1, G_set]
        by_cases hh : j = i
        · subst hh; simp; omega
        · have : ¬ (i = j) := fun h' => hh h'.symm
          simp [hh, this]
      have hl1 : st1.length = m.length := by rw [← hst1]; simpa using hl
      have hc : ((j : Int) + 1) = ((j + 1 : Nat) : Int) := by push_cast; rfl
      obtain ⟨st2, r, hq5, hnone, hsome⟩ := stepQ56_fwd m hm st1 (G c j - 1) (j + 1) hl1 (by omega) (by omega)
        (by
          intro i h1 h2; rw [hG1 i]
          by_cases hij : i = j
          · simp [hij]
          · simp only [hij, if_false]; exact hzz i (by omega))
        (by
          intro i h1 h2; rw [hG1 i]
          have : ¬ i = j := by omega
          simp only [this, if_false]; exact hbnd i h2)
        (by omega)
        (by rw [PS_succ m j hjl]; have := (hbnd j hjl).2; have := PS_nonneg m hm.nonneg j; omega)
      rw [← hc] at hq5
      simp only [hq5, Outcome.bind_ok]
      have hPSz : ∀ i, i ≤ j → PS c i = 0 := by
        intro i hi
        rw [PS_zeros c 0 i (by omega) (fun t _ h2 => hzz t (by omega)), PS_zero']
      cases r with
      | none =>
        refine ⟨_, false, rfl, by simp, fun _ => ?_⟩
        intro i h1 h2 h3
        by_cases hij : i ≤ j
        · rw [hPSz i hij]; exact Int.le_refl _
        · have := hnone rfl i (by omega) h2
          rw [hG1 i] at this
          have h4 : ¬ i = j := by omega
          simp only [h4, if_false] at this
          omega
      | some jx =>
        obtain ⟨j', x'⟩ := jx
        obtain ⟨jn, ej, hjn1, hjn2, hsatr, hlt, hx', sj, st3, hget, hset, K1, K2⟩ := hsome j' x' rfl
        subst ej
        simp only [hget, hset, Outcome.bind_ok]
        have hsatc : ∀ i, j + 1 ≤ i → i < jn → G c i = G m i := by
          intro i h1 h2
          have := hsatr i h1 h2
          rw [hG1 i] at this
          have h4 : ¬ i = j := by omega
          simpa [h4] using this
        have hG1jn : ∀ i, jn ≤ i → G st1 i = G c i := by
          intro i hi; rw [hG1 i]
          have h4 : ¬ i = j := by omega
          simp [h4]
        have hPSj1 : PS c (j + 1) = G c j := by rw [PS_succ', hPSz j (le_refl _)]; omega
        have hPSs := PS_sat m c (j + 1) jn hjn1 hsatc
        have hPSm := PS_mono m hm.nonneg (j + 1) jn hjn1
        have hnext : ∀ c', Shape m jn x' st1 c' → MsNextN m m.length c c' := by
          intro c' hsh
          apply msNext_of_shape m c c' jn x' hl (by omega) hjn2 (by rw [← hG1jn jn (le_refl _)]; exact hlt)
            (by omega) ?_ (by omega) (hsh.congr_old hG1jn)
          intro i h1 h2 h3
          by_cases hij : i ≤ j
          · rw [hPSz i hij]; exact Int.le_refl _
          · have := hsatc i (by omega) h2
            omega
        by_cases hx0 : x' = 0
        · obtain ⟨c', hset0, hsh⟩ := K1 hx0
          have hxb : (x' == 0) = true := by simp [hx0]
          simp only [hxb, if_true, hset0, Outcome.bind_ok]
          exact ⟨_, true, rfl, fun _ => ⟨c', rfl, hnext c' hsh⟩, by simp⟩
        · obtain ⟨c', a, j'', b, hq2, hsh⟩ := K2 hx0
          have hx'b : (x' == 0) = false := by simpa using hx0
          simp only [hx'b, Bool.false_eq_true, if_false, hq2, Outcome.bind_ok]
          exact ⟨_, true, rfl, fun _ => ⟨c', rfl, hnext c' hsh⟩, by simp⟩
    · -- Q7
      have hs0b : (G c 0 == 0) = false := by simpa using hs0
      simp only [hs0b, Bool.false_eq_true, if_false, Outcome.pure_eq, Outcome.bind_ok, hsj]
      have hsat : ISat m c j := by
        rcases hinv with h1 | h1
        · exact h1
        · have := h1.2.2.1 0 (by omega); omega
      obtain ⟨r, hup, hnone, hsome⟩ := stepQ7_fwd m k hm c j ⟨hl, hbnd, hsum⟩ hsat (by omega)
      simp only [hup, Outcome.bind_ok]
      cases r with
      | none =>
        refine ⟨_, false, rfl, by simp, fun _ => ?_⟩
        intro i h1 h2 h3
        by_cases hij : i < j
        · have := hsat.2.2 i hij; omega
        · have := hnone rfl i (by omega) h2; omega
      | some j' =>
        obtain ⟨jn, ej, hjn1, hjn2, hsatr, hlt, sj, c1, j2, sj2, c2, t0, hget, hset, hdown, hget2, hset2, hget0, hsh⟩ :=
          hsome j' rfl
        subst ej
        simp only [hget, hset, hdown, hget2, hset2, hget0, Outcome.bind_ok, Outcome.pure_eq]
        have hPSs := PS_sat m c 0 jn (by omega) (fun i _ h2 => hsatr i h2)
        rw [PS_zero', PS_zero'] at hPSs
        have hPSm := PS_mono m hm.nonneg 1 jn (by omega)
        rw [PS_one m hlen] at hPSm
        have hfirst := hm.first
        refine ⟨_, true, rfl, fun _ => ⟨c2, rfl, ?_⟩, by simp⟩
        apply msNext_of_shape m c c2 jn (PS m jn - 1) hl (by omega) hjn2 hlt (by omega) ?_ (by omega) hsh
        intro i h1 h2 h3
        have := hsatr i h2
        omega

end Iter
namespace Iter
open Spec

/-- the first call of `next()`: it returns true exactly when `k ≤ m[0] + … + m[len-1]`, with the greedy fill -/
theorem MSComb.next0_first (m : List Int) (k : Int) (hm : ∀ v ∈ m, 0 ≤ v) (hk : 0 ≤ k) (s : MSComb)
    (hs : s.state = none) (hsm : s.m = m) (hsk : s.k = k) :
    ∃ s' b, MSComb.next0 s = .ok (s', b) ∧ s'.done = s.done ∧
      (k ≤ PS m m.length → b = true ∧ ∃ c, s'.state = some c ∧ IsGreedyN m m.length k c) ∧
      (PS m m.length < k → b = false) := by
  have hnn := G_nonneg_all m hm
  have hnn' : ∀ i, i < m.length → 0 ≤ G m i := fun i _ => hnn i
  unfold MSComb.next0
  simp only [hs, hsm, hsk]
  have hmk : make k = .ok (List.replicate k.toNat 0) := by simp [make]; omega
  have hml : make (m.length : Int) = .ok (List.replicate m.length 0) := by simp [make]
  simp only [hmk, hml, Outcome.bind_ok]
  obtain ⟨⟨c, x', j', b⟩, hq2⟩ := q2_total m m.length 0 k (List.replicate m.length 0) (by simp) (by omega)
  obtain ⟨hlc, jn, e1, _, r3, _, r5, r6, r7⟩ :=
    q2_spec m m.length 0 k (List.replicate m.length 0) c x' j' b (by simp) hq2
  have hq2' : MSComb.q2 m m.length 0 k (List.replicate m.length 0) = .ok (c, x', j', b) := by simpa using hq2
  simp only [hq2', Outcome.bind_ok]
  cases b with
  | true =>
    obtain ⟨s1, s2, s3, s4, s5, s6, s7⟩ := r6 rfl
    rw [PS_zero'] at s2
    have hx' : ¬ x' > 0 := by omega
    simp only [hx', if_false, Outcome.pure_eq]
    have hle := PS_mono m hnn' (jn + 1) m.length (by omega)
    rw [PS_succ'] at hle
    have hc0 := s7 hk
    refine ⟨_, true, rfl, rfl, fun _ => ⟨rfl, c, rfl, hlc, ?_⟩, fun h => by omega⟩
    intro i hi
    have hmi := hnn i
    rcases Nat.lt_trichotomy i jn with h | h | h
    · rw [r3 i (by omega) h]
      have := PS_mono m hnn' (i + 1) jn (by omega)
      rw [PS_succ'] at this
      omega
    · subst h; omega
    · rw [r5 i h, G_replicate_zero]
      have := PS_mono m hnn' (jn + 1) i (by omega)
      rw [PS_succ'] at this
      omega
  | false =>
    obtain ⟨t1, t2, t3, t4, t5, t6⟩ := r7 rfl
    rw [PS_zero'] at t2
    have ejn : jn = m.length := by omega
    subst ejn
    by_cases hx' : x' > 0
    · simp only [hx', if_true, Outcome.pure_eq]
      exact ⟨_, false, rfl, rfl, fun h => by omega, fun _ => rfl⟩
    · simp only [hx', if_false, Outcome.pure_eq]
      have := t6 hk
      refine ⟨_, true, rfl, rfl, fun _ => ⟨rfl, c, rfl, hlc, ?_⟩, fun h => by omega⟩
      intro i hi
      have hmi := hnn i
      rw [r3 i (by omega) hi]
      have := PS_mono m hnn' (i + 1) m.length (by omega)
      rw [PS_succ'] at this
      omega

/-! ### `Value()` never panics -/

theorem emit_total (i : Int) : ∀ (t c : Nat) (val : Sl), c + t ≤ val.length →
    ∃ val', MSComb.emit i t (c : Int) val = .ok (val', ((c + t : Nat) : Int)) ∧ val'.length = val.length := by
  intro t
  induction t with
  | zero => intro c val _; exact ⟨val, rfl, rfl⟩
  | succ t ih =>
    intro c val h
    unfold MSComb.emit
    rw [ms_set_ok val c i (by omega)]
    simp only [Outcome.bind_ok]
    have hc : ((c : Int) + 1) = ((c + 1 : Nat) : Int) := by push_cast; rfl
    rw [hc]
    obtain ⟨val', e1, e2⟩ := ih (c + 1) (val.set c i) (by simp; omega)
    refine ⟨val', ?_, by simpa using e2⟩
    rw [e1]
    have : c + 1 + t = c + (t + 1) := by omega
    rw [this]

theorem sum_nonneg_int : ∀ (r : List Int), (∀ w ∈ r, 0 ≤ w) → 0 ≤ r.sum := by
  intro r
  induction r with
  | nil => intro _; simp
  | cons a r ih =>
    intro h
    have := h a (by simp)
    have := ih (fun w hw => h w (by simp [hw]))
    simp only [List.sum_cons]; omega

theorem expand_total : ∀ (rest : List Int) (i : Int) (c : Nat) (val : Sl), (∀ v ∈ rest, 0 ≤ v) →
    (c : Int) + rest.sum ≤ (val.length : Int) → ∃ val', MSComb.expand rest i (c : Int) val = .ok val' := by
  intro rest
  induction rest with
  | nil => intro i c val _ _; exact ⟨val, rfl⟩
  | cons v r ih =>
    intro i c val hnn h
    have hv := hnn v (by simp)
    have hr : ∀ w ∈ r, 0 ≤ w := fun w hw => hnn w (by simp [hw])
    have hrs : 0 ≤ r.sum := sum_nonneg_int r hr
    simp only [List.sum_cons] at h
    unfold MSComb.expand
    obtain ⟨val1, e1, e2⟩ := emit_total i v.toNat c val (by omega)
    simp only [e1, Outcome.bind_ok]
    exact ih (i + 1) (c + v.toNat) val1 hr (by rw [e2]; push_cast; omega)

theorem InFam.mem_nonneg {m : List Int} {k : Int} {c : List Int} (hfam : InFam m k c) : ∀ v ∈ c, 0 ≤ v := by
  intro v hv
  obtain ⟨i, hi, rfl⟩ := List.getElem_of_mem hv
  have := (hfam.2.1 i (by rw [← hfam.1]; exact hi)).1
  rwa [G_lt c i hi] at this

end Iter
namespace Iter
open Spec

/-! ### the theorems -/

/-- `msColexList` is a chain for the successor function; it starts with the greedy fill and its last element has no
successor -/
theorem msColexList_chain (m : List Int) (k : Int) (hm : ∀ v ∈ m, 0 ≤ v) :
    (msColexList m k).IsChain (fun x y => msSucc m x = some y) := by
  apply (msColexN_isChain m (G_nonneg_all m hm) m.length k).imp
  intro a b hab
  obtain ⟨j, _, _, _, _, _, hl, _⟩ := id hab
  exact (msSucc_eq_some_iff m a b m.length hl).mpr hab

theorem msColexList_ne_nil_iff (m : List Int) (k : Int) (hm : ∀ v ∈ m, 0 ≤ v) :
    msColexList m k ≠ [] ↔ 0 ≤ k ∧ k ≤ m.sum := by
  have hPS : PS m m.length = m.sum := PS_ge m m.length (le_refl _)
  rw [← hPS]
  constructor
  · intro h
    by_contra hc
    exact h (msColexN_eq_nil m m.length k hc)
  · intro h
    exact (msColexN_chain m (G_nonneg_all m hm) m.length k h.1 h.2).1

theorem msColexList_head (m : List Int) (k : Int) (hm : ∀ v ∈ m, 0 ≤ v) (hk : 0 ≤ k) (hle : k ≤ m.sum) :
    (msColexList m k).head? = some (msGreedy m m.length k) := by
  have hPS : PS m m.length = m.sum := PS_ge m m.length (le_refl _)
  obtain ⟨h1, _, h3, _⟩ := msColexN_chain m (G_nonneg_all m hm) m.length k hk (by rw [hPS]; exact hle)
  cases hh : (msColexN m m.length k).head? with
  | none => rw [List.head?_eq_none_iff] at hh; exact absurd hh h1
  | some x =>
    have := (h3 x hh).unique (msGreedy_isGreedy m m.length k)
    subst this
    exact hh

theorem msColexList_last (m : List Int) (k : Int) (hm : ∀ v ∈ m, 0 ≤ v) :
    ∀ x ∈ (msColexList m k).getLast?, msSucc m x = none := by
  intro x hx
  have hmem := List.mem_of_mem_getLast? hx
  have hfam := (mem_msColexList m k x).mp hmem
  have hsb := InFamN.sum_bounds (m := m) (n := m.length) (k := k) (c := x) hfam
  obtain ⟨_, _, _, h4⟩ := msColexN_chain m (G_nonneg_all m hm) m.length k hsb.1 hsb.2
  exact (msSucc_eq_none_iff m x m.length hfam.1).mpr (h4 x hx)

end Iter
namespace Iter
open Spec

/-! ### `msColexList` is a rearrangement of `msFamily` -/

theorem InFam_of_mem_msFamily : ∀ (m : List Int) (k : Int) (c : List Int), (∀ v ∈ m, 0 ≤ v) → c ∈ msFamily m k →
    InFam m k c := by
  intro m
  induction m with
  | nil =>
    intro k c _ h
    simp only [msFamily] at h
    split at h
    · next hk =>
      simp at h; subst h; subst hk
      exact ⟨rfl, by intro i hi; simp at hi, rfl⟩
    · simp at h
  | cons a ms ih =>
    intro k c hm h
    simp only [msFamily, List.mem_flatMap, List.mem_range, List.mem_map] at h
    obtain ⟨t, ht, v, hv, rfl⟩ := h
    have ha := hm a (by simp)
    obtain ⟨hl, hb, hs⟩ := ih (k - t) v (fun w hw => hm w (by simp [hw])) hv
    refine ⟨by simp [hl], ?_, by simp only [List.sum_cons]; omega⟩
    intro i hi
    cases i with
    | zero => rw [G_cons_zero, G_cons_zero]; omega
    | succ i => rw [G_cons_succ, G_cons_succ]; exact hb i (by simpa using hi)

theorem msFamily_nodup : ∀ (m : List Int) (k : Int), (msFamily m k).Nodup := by
  intro m
  induction m with
  | nil => intro k; simp only [msFamily]; split <;> simp
  | cons a ms ih =>
    intro k
    simp only [msFamily]
    rw [List.nodup_flatMap]
    refine ⟨fun t _ => (ih _).map (List.cons_injective), ?_⟩
    apply List.nodup_range.pairwise_of_forall_ne
    intro t1 _ t2 _ hne x h1 h2
    simp only [List.mem_map] at h1 h2
    obtain ⟨v1, _, rfl⟩ := h1
    obtain ⟨v2, _, e⟩ := h2
    simp only [List.cons.injEq] at e
    omega

theorem mem_msColexList_iff_msFamily (m : List Int) (k : Int) (hm : ∀ v ∈ m, 0 ≤ v) (c : List Int) :
    c ∈ msColexList m k ↔ c ∈ msFamily m k := by
  rw [mem_msColexList]
  exact ⟨fun h => mem_msFamily_of_InFam m k c h, fun h => InFam_of_mem_msFamily m k c hm h⟩

/-- the list of the family in generation order is a rearrangement of the reference family `msFamily` -/
theorem msColexList_perm_msFamily (m : List Int) (k : Int) (hm : ∀ v ∈ m, 0 ≤ v) :
    (msColexList m k).Perm (msFamily m k) :=
  (List.perm_ext_iff_of_nodup (msColexList_nodup m k hm) (msFamily_nodup m k)).mpr
    (mem_msColexList_iff_msFamily m k hm)

end Iter
