import Mamba.Lemmas.CanonFTotalLoop
import Mamba.Lemmas.CanonFTotalPot
import Mamba.Lemmas.CanonFTotalStep
import Mamba.Lemmas.CanonFSplitTotal
import Mamba.Lemmas.CanonFTotalMain
import Mamba.Lemmas.CanonFEdgelessTotal
import Mamba.Lemmas.CanonFCapJ
import Mamba.Lemmas.CanonFRefineTotal
import Mamba.Lemmas.CanonFTotalLeaf
/-!
# Totality of the faithful model: `CanonicalIsomorphFull` returns (no panic, explicit fuel bound)

`MainJX.weakenJ`; `allocated_total` (generic: a total main loop makes `CanonicalIsomorphAllocated` total on every storage of
sufficient capacity); the assembled invariant `UA/UN/US/UM` = certificate ⊕ DFS ⊕ capacity invariants with its `MainJ` and
`MainT` instances; `canonF_total_full`.
-/
namespace CanonF

/-- the hypotheses about the invariant that is already carried may be weakened -/
theorem MainJX.weakenJ {n m : Nat} {nb : Nbrs} {JA JN JS JA' JN' JS' : List (Nat × Nat) → LS → Prop}
    {JM JM' : List (Nat × Nat) → Bool → LS → Prop} {XA XN XS : List (Nat × Nat) → LS → Prop}
    {XM : List (Nat × Nat) → Bool → LS → Prop} (hX : MainJX n m nb JA JN JS JM XA XN XS XM)
    (hA : ∀ lv s, JA' lv s → JA lv s) (hN : ∀ lv s, JN' lv s → JN lv s) (hS : ∀ lv s, JS' lv s → JS lv s)
    (hM : ∀ lv w s, JM' lv w s → JM lv w s) : MainJX n m nb JA' JN' JS' JM' XA XN XS XM where
  na := fun lv s h x => hX.na lv s (hN _ _ h) x
  deage := fun lv s op' k hc ht hsk hage h x hd => hX.deage lv s op' k hc ht hsk hage (hA _ _ h) x hd
  noskip := fun lv s hsk h x => hX.noskip lv s hsk (hN _ _ h) x
  skipA := fun st sz ls s c cs p ps ce x k hc ht hsk hage hch hpth hget hon hx hx0 h xx =>
    hX.skipA st sz ls s c cs p ps ce x k hc ht hsk hage hch hpth hget hon hx hx0 (hN _ _ h) xx
  skipB := fun st sz ls s c cs p ps ce bo k hc ht hsk hage hch hpth hget hon hh h xx =>
    hX.skipB st sz ls s c cs p ps ce bo k hc ht hsk hage hch hpth hget hon hh (hN _ _ h) xx
  split := fun st sz ls s c cs p ps ce bo w op' k hc ht hsk hage hch hpth hget hh hns hfb hs h xx => by
    obtain ⟨q1, q2⟩ := hX.split st sz ls s c cs p ps ce bo w op' k hc ht hsk hage hch hpth hget hh hns hfb hs (hN _ _ h) xx
    exact ⟨fun hw hj => q1 hw (hS _ _ hj), fun hw hj => q2 hw (hA _ _ hj)⟩
  pop := fun st sz ls s hc ht hsk hage h xx => hX.pop st sz ls s hc ht hsk hage (hN _ _ h) xx
  node := fun lv worse s s1 lv1 hI hw hlv hJ hx hs1 hl1 ha hn =>
    hX.node lv worse s s1 lv1 hI hw hlv (hM _ _ _ hJ) hx hs1 hl1 (hA _ _ ha) (fun hsk => hN _ _ (hn hsk))
  refine := fun lv s w op' sc' hc hl hage hsk htl hJ hx hr hm =>
    hX.refine lv s w op' sc' hc hl hage hsk htl (hS _ _ hJ) hx hr (hM _ _ _ hm)


theorem slOf_ok {α : Type} {a : Array α} {k : Nat} (h : k ≤ a.size) : slOf a k = .ok ⟨a, k⟩ := by
  unfold slOf Sl.reslice
  rw [if_pos h]

theorem dsSlice_ok {a : Array Int} {k : Nat} (h : k ≤ a.size) : dsSlice a k = .ok (a.extract 0 k, a.extract k a.size) := by
  unfold dsSlice
  rw [if_pos h]

/-- the storage capacities that `CanonicalIsomorphAllocated(n, m, …)` relies on -/
structure StorageOK (n m : Nat) (st : Storage) : Prop where
  gens : n ≤ st.generators.size + 1
  cb : m ≤ st.currentBest.size
  bpath : n ≤ st.currentBestPath.size
  bperm : n ≤ st.currentBestPerm.size
  bpinv : n ≤ st.currentBestPermInv.size
  borb : n ≤ st.currentBestOrbits.size
  fl : m ≤ st.firstLeaf.size
  fpinv : n ≤ st.firstLeafPermInv.size
  forb : n ≤ st.firstLeafOrbits.size
  fpath : n ≤ st.firstLeafPath.size
  space : n ≤ st.space.size
  dws : n ≤ st.dws.size
  nbs : n ≤ st.nbs.size
  ts : n ≤ st.timesSeen.size
  mc : n ≤ st.maxCell.size
  nm : n ≤ st.numberOfMax.size

theorem newStorage_ok (n m : Nat) : StorageOK n m (newStorage n m) := by
  constructor <;> simp [newStorage, Disjoint.new]
  omega


set_option maxHeartbeats 1000000 in
/-- `CanonicalIsomorphAllocated` (general path, no viability check) returns, for every storage of sufficient capacity, if the
main loop is total for an invariant that holds initially -/
theorem allocated_total (hst : StablePerm) (hx : ExpandCert) {fuel n m : Nat} {nb : Nbrs}
    {JA JN JS : List (Nat × Nat) → LS → Prop} {JM : List (Nat × Nat) → Bool → LS → Prop} (hJ : MainJ n m nb JA JN JS JM)
    (hT : MainT n m nb JA JN JS JM)
    {op0 : OP} {st : Storage}
    (hn : n ≠ 0) (hgen : m = 0 → op0.binDividers.len ≠ 1)
    (hp : PartInv n op0) (ha : AgeInv op0) (hage : op0.age = 0) (hspl : op0.spl = 0) (hval : op0.value.len = 0)
    (hvw : op0.value.WF) (hb0 : BtcInv op0)
    (cBd : n ≤ op0.binDividers.data.size) (cAges : n ≤ op0.binAges.data.size) (cBtc : n ≤ op0.binsToCheck.data.size)
    (hnbs : nb.size = n) (hnbr : ∀ (u : Nat) (l : List Nat), nb[u]? = some l → ∀ v ∈ l, v < n)
    (hS : StorageOK n m st)
    (hinit : ∀ s0, InitSt n m nb {} op0 s0 → CapInv n m s0 → JM [] false s0)
    (hfuel : slots n 0 < fuel) :
    ∃ x, canonicalIsomorphAllocated fuel n m nb (some op0) st {} = .ok x := by
  unfold canonicalIsomorphAllocated
  rw [if_neg hn]
  have hshort : (if m = 0 then (match (some op0 : Option OP) with
      | none => Outcome.panic
      | some o => Outcome.ok (o.binDividers.len == 1)) else Outcome.ok false) = Outcome.ok false := by
    by_cases hm : m = 0
    · rw [if_pos hm]; simp [hgen hm]
    · rw [if_neg hm]
  simp only [hshort]
  rw [slOf_ok hS.bpath, slOf_ok hS.bperm, slOf_ok hS.bpinv, dsSlice_ok hS.borb]
  simp only
  rw [slOf_ok hS.fl, slOf_ok hS.fpinv, dsSlice_ok hS.forb, slOf_ok hS.fpath]
  simp only
  rw [slOf_ok hS.space, slOf_ok hS.dws, slOf_ok hS.nbs]
  simp only
  rw [slOf_ok hS.ts, slOf_ok hS.mc, slOf_ok hS.nm]
  simp only
  have hsc : ScratchOK n (Scratch.mk ⟨st.dws, n⟩ ⟨st.nbs, n⟩ ⟨st.space, n⟩ ⟨st.timesSeen, n⟩ ⟨st.maxCell, n⟩
      ⟨st.numberOfMax, n⟩) := ⟨hS.ts, hS.mc, hS.nm, rfl, rfl⟩
  have hps0 : PrefixSingle op0 := ⟨by rw [hspl]; exact Nat.zero_le _, fun j hj => by rw [hspl] at hj; cases hj⟩
  obtain ⟨op1, sc1, href, hbt1, hbw1, hcb1, hps1, hvw1⟩ :=
    refine_no_panic_partial hst (fun d hw => stable_no_panic hw) (cb := ⟨st.currentBest, 0⟩) (fl := ⟨st.firstLeaf, m⟩)
      (opts := {}) (nb := nb) hp ha hsc hps0 hvw cBd cAges cBtc hS.dws hS.nbs hS.space (Nat.le_refl n) hb0.wf hb0.sorted
      hb0.range hnbs hnbr rfl rfl
  rw [href]
  simp only [Bool.and_false, if_false, Bool.false_eq_true]
  obtain ⟨r1, r2, r3, r4, d1, d2, d3, z1, z2, z3, zo, zi, zb, za⟩ := refine_inv hst hp ha hsc href
  obtain ⟨op2, hexp, hps2, hvw2⟩ := expandValue_total (cb := ⟨st.currentBest, 0⟩) (fl := ⟨st.firstLeaf, m⟩) hnbs hnbr rfl r1
    hps1 hvw1
  rw [hexp]
  simp only
  obtain ⟨i1, i2, i3⟩ := refine_cert_init hst hx hp ha hsc hspl hval (cb := ⟨st.currentBest, 0⟩) (fl := ⟨st.firstLeaf, m⟩)
    (nb := nb) rfl href
  have hvc2 : VClean nb op2 := (hx n nb ⟨st.currentBest, 0⟩ ⟨st.firstLeaf, m⟩ op1 op2 false r1 i1 i2 i3 hexp).1 rfl
  obtain ⟨f1, f2, f3, f4, f5, f6⟩ := expandValue_frame hexp
  have z1' : sc1.timesSeen.data.size = st.timesSeen.size := z1
  have hI : MInv n m nb
      { op := op2,
        sc := { dws := ⟨sc1.dws.data, n⟩, nbs := ⟨sc1.nbs.data, n⟩, space := ⟨sc1.space.data, n⟩,
                timesSeen := ⟨sc1.timesSeen.data, n⟩, maxCell := ⟨sc1.maxCell.data, n⟩,
                numberOfMax := ⟨sc1.numberOfMax.data, n⟩ },
        count := 0, ngens := 0, gens := st.generators, currentBest := ⟨st.currentBest, 0⟩,
        bestPath := ⟨st.currentBestPath, n⟩, bestPerm := ⟨st.currentBestPerm, n⟩,
        bestPermInv := ⟨st.currentBestPermInv, n⟩, bestOrbits := st.currentBestOrbits.extract 0 n,
        firstLeaf := ⟨st.firstLeaf, m⟩, flPermInv := ⟨st.firstLeafPermInv, n⟩,
        flOrbits := st.firstLeafOrbits.extract 0 n, flPath := ⟨st.firstLeafPath, n⟩,
        path := [], choices := [], skipDeage := false } := by
    constructor
    · constructor
      · exact PartInv.of_frame r1 f1 f2 f3 f6
      · exact AgeInv.of_frame r2 f3 f5
      · exact scratch_rewrap hsc hS.ts z1 z2 z3
      · exact hS.bperm
      · rfl
      · intro hc; exact absurd hc (Nat.lt_irrefl 0)
    · exact ⟨[], by simp [LevelsOK]⟩
    · show op2.age = _; rw [f5, r3, hage]; rfl
    · rfl
    · show n ≤ sc1.timesSeen.data.size; rw [z1']; exact hS.ts
    · rfl
    · intro _; rfl
    · intro hc; exact absurd hc (Nat.lt_irrefl 0)
  have hC : CInv n m nb
      { op := op2,
        sc := { dws := ⟨sc1.dws.data, n⟩, nbs := ⟨sc1.nbs.data, n⟩, space := ⟨sc1.space.data, n⟩,
                timesSeen := ⟨sc1.timesSeen.data, n⟩, maxCell := ⟨sc1.maxCell.data, n⟩,
                numberOfMax := ⟨sc1.numberOfMax.data, n⟩ },
        count := 0, ngens := 0, gens := st.generators, currentBest := ⟨st.currentBest, 0⟩,
        bestPath := ⟨st.currentBestPath, n⟩, bestPerm := ⟨st.currentBestPerm, n⟩,
        bestPermInv := ⟨st.currentBestPermInv, n⟩, bestOrbits := st.currentBestOrbits.extract 0 n,
        firstLeaf := ⟨st.firstLeaf, m⟩, flPermInv := ⟨st.firstLeafPermInv, n⟩,
        flOrbits := st.firstLeafOrbits.extract 0 n, flPath := ⟨st.firstLeafPath, n⟩,
        path := [], choices := [], skipDeage := false } false := by
    constructor
    · constructor
      · intro hc; exact absurd hc (Nat.lt_irrefl 0)
      · exact ⟨rfl, hS.fl⟩
      · intro hc; exact absurd hc (Nat.lt_irrefl 0)
      · intro k hk; exact absurd hk (Nat.not_lt_zero _)
      · intro hc; exact absurd hc (Nat.lt_irrefl 0)
      · exact ⟨by have := hS.forb; simp; omega, by have := hS.borb; simp; omega⟩
      · exact ⟨rfl, hS.fpinv⟩
      · exact ⟨rfl, hS.bpinv⟩
    · intro _; exact hvc2
    · exact Or.inl hvc2
  have hCap : CapInv n m
      { op := op2,
        sc := { dws := ⟨sc1.dws.data, n⟩, nbs := ⟨sc1.nbs.data, n⟩, space := ⟨sc1.space.data, n⟩,
                timesSeen := ⟨sc1.timesSeen.data, n⟩, maxCell := ⟨sc1.maxCell.data, n⟩,
                numberOfMax := ⟨sc1.numberOfMax.data, n⟩ },
        count := 0, ngens := 0, gens := st.generators, currentBest := ⟨st.currentBest, 0⟩,
        bestPath := ⟨st.currentBestPath, n⟩, bestPerm := ⟨st.currentBestPerm, n⟩,
        bestPermInv := ⟨st.currentBestPermInv, n⟩, bestOrbits := st.currentBestOrbits.extract 0 n,
        firstLeaf := ⟨st.firstLeaf, m⟩, flPermInv := ⟨st.firstLeafPermInv, n⟩,
        flOrbits := st.firstLeafOrbits.extract 0 n, flPath := ⟨st.firstLeafPath, n⟩,
        path := [], choices := [], skipDeage := false } := by
    constructor
    · show n ≤ op2.binDividers.data.size; rw [f2, zb]; exact cBd
    · show n ≤ op2.binAges.data.size; rw [f3, za]; exact cAges
    · show n ≤ op2.binsToCheck.data.size; rw [f4]; exact hcb1
    · show n ≤ sc1.dws.data.size; rw [d1]; exact hS.dws
    · show n ≤ sc1.nbs.data.size; rw [d2]; exact hS.nbs
    · show n ≤ sc1.space.data.size; rw [d3]; exact hS.space
    · exact hS.cb
    · exact hS.gens
    · intro hc; exact absurd hc (Nat.lt_irrefl 0)
  have hM := hinit _ ⟨hI, hC, rfl, rfl, rfl, rfl, ⟨rfl, hS.bpath⟩, ⟨rfl, hS.fpath⟩,
    ⟨_, op1, sc1, false, hsc, rfl, href, hexp⟩⟩ hCap
  obtain ⟨s', hs'⟩ := mainLoopT hst hJ hT fuel false _ [] hI (fun _ => rfl) (by simp [LevelsOK]) hM
    (by show (if false = true then 0 else slots n 0) + pathPot n [] < fuel; simp [pathPot]; exact hfuel)
  rw [hs']
  exact ⟨_, rfl⟩


/-! ### the assembled invariant -/
section
variable (n m : Nat) (nb : Nbrs) (rf : Nat) (r : IR.St)
def UA (lv : List (Nat × Nat)) (s : LS) : Prop := (CertA n m nb lv s ∧ DA n nb rf r lv s) ∧ CapInv0 n m s
def UN (lv : List (Nat × Nat)) (s : LS) : Prop := (CertN n m nb lv s ∧ DN n nb rf r lv s) ∧ CapInv0 n m s
def US (lv : List (Nat × Nat)) (s : LS) : Prop := (CertN n m nb lv s ∧ DS n nb rf r lv s) ∧ CapInv0 n m s
def UM (lv : List (Nat × Nat)) (worse : Bool) (s : LS) : Prop :=
  (CertM n m nb lv worse s ∧ DM n nb rf r lv worse s) ∧ CapInv0 n m s
end

section
variable {n m : Nat} {nb : Nbrs} {rf : Nat} {r : IR.St}
  (hnb : NbOK nb n) (hsz : nb.size = n) (hm : m = ((nb.toList.map List.length).sum) / 2) (hrf : 3 * n + 3 ≤ rf)
  (hA : IR.InvA (irG n nb) r) (hD : IR.InvD (irG n nb) r)
  (hlenm : ∀ o : List Nat, o.Perm (List.range n) → (certPos nb o n).length = m)

include hnb hsz hm hrf hA hD hlenm in
theorem totMainJ : MainJ n m nb (UA n m nb rf r) (UN n m nb rf r) (US n m nb rf r) (UM n m nb rf r) :=
  ((certMainJ expandValue_cert hnb hlenm).extend (dfsMainJX hnb hsz hm hrf hA hD hlenm)).extend
    ((capMainJX (n := n) (m := m) (nb := nb)).weakenJ (fun _ _ h => h.1) (fun _ _ h => h.1) (fun _ _ h => h.1)
      (fun _ _ _ h => h.1))

include hnb hsz hm hA hD in
theorem totMainT : MainT n m nb (UA n m nb rf r) (UN n m nb rf r) (US n m nb rf r) (UM n m nb rf r) where
  step :=
    { deage := fun lv s k hc ht hsk hage h => prog_deage lv s k hc ht hsk hage ⟨h.1, h.2.1⟩
      flOrb := fun st sz ls s c cs p ps ce k hc ht hsk hage hch hpth hget hon h =>
        prog_flOrb st sz ls s c cs p ps ce k hc ht hsk hage hch hpth hget hon ⟨h.1, h.2.1⟩
      h2 := fun st sz ls s c cs p ps ce k hc ht hsk hage hch hpth hget hon h =>
        prog_h2 st sz ls s c cs p ps ce k hc ht hsk hage hch hpth hget hon ⟨h.1, h.2.1⟩
      split := fun st sz ls s c cs p ps ce k hc ht hsk hage hch hpth hget hns hfirst h =>
        prog_split hnb hsz hm st sz ls s c cs p ps ce k hc ht hsk hage hch hpth hget hns hfirst ⟨h.1, h.2.1⟩ }
  node := fun lv worse s hI hw hlv h => by
    by_cases hleaf : (!worse && s.op.binDividers.len == n) = true
    · rw [if_pos hleaf]
      simp only [Bool.and_eq_true, Bool.not_eq_true', beq_iff_eq] at hleaf
      obtain ⟨hwf, hleaf⟩ := hleaf
      subst hwf
      exact prog_leaf hnb hA hD lv s hI hlv hleaf ⟨h.1, h.2.1⟩
    · rw [if_neg hleaf]
      by_cases hnw : (!worse) = true
      · rw [if_pos hnw]
        have hwf : worse = false := by simpa using hnw
        subst hwf
        have hnl : s.op.binDividers.len ≠ n := by
          intro e; apply hleaf; simp [e]
        obtain ⟨s1, h1, _⟩ := prog_inner hnb hA hD lv s hI hlv hnl ⟨h.1, h.2.1⟩
        exact ⟨s1, h1⟩
      · rw [if_neg hnw]
        exact ⟨s, rfl⟩
  nodePot := fun lv worse s s1 hI hw hlv h hs1 => by
    by_cases hleaf : (!worse && s.op.binDividers.len == n) = true
    · rw [if_pos hleaf] at hs1
      have := leaf_pathPot (n := n) (m := m) s s1 hs1
      unfold mainPot
      omega
    · rw [if_neg hleaf] at hs1
      by_cases hnw : (!worse) = true
      · rw [if_pos hnw] at hs1
        have hwf : worse = false := by simpa using hnw
        subst hwf
        have hnl : s.op.binDividers.len ≠ n := by
          intro e; apply hleaf; simp [e]
        obtain ⟨s1', h1, sz, hp, hsz', hd⟩ := prog_inner hnb hA hD lv s hI hlv hnl ⟨h.1, h.2.1⟩
        rw [hs1] at h1
        cases h1
        unfold mainPot
        rw [hp]
        simp only [pathPot, Bool.false_eq_true, if_false]
        rw [slots_succ hd]
        have : sz * (1 + slots n (s.path.length + 1)) ≤ n * (1 + slots n (s.path.length + 1)) :=
          Nat.mul_le_mul_right _ hsz'
        omega
      · rw [if_neg hnw] at hs1
        cases hs1
        unfold mainPot
        omega
  refine := fun lv s hc hl hage hsk htl h => prog_refine hnb hsz hm lv s hc hl hage hsk htl ⟨h.1, h.2.1⟩

end

open GraphSpec in
/-- TOTALITY: for every well-formed graph and valid classes `CanonicalIsomorphFull` returns — no panic, and the explicit fuel
`fuelBound g.n` suffices -/
theorem canonF_total_full (g : G) (hg : g.WF) (vc : Classes) (hvc : ClassesOK g.n vc) :
    ∃ r, canonicalIsomorphFull (fuelBound g.n) g vc = .ok r := by
  unfold canonicalIsomorphFull
  dsimp only
  by_cases hn : g.n = 0
  · have hnew : newOrderedPartition g.n (((nbrsOf g).toList.map List.length).sum / 2) vc = .ok none := by
      simp [newOrderedPartition, hn]
    rw [hnew]
    simp only [canonicalIsomorphAllocated, hn, if_true]
    exact ⟨_, rfl⟩
  · have hn0 : 0 < g.n := Nat.pos_of_ne_zero hn
    obtain ⟨op, hnew, hp, ha, hage, hspl, hval, _, _, _, _, cbd, cages, cbtc, _, _⟩ :=
      newOrderedPartition_inv (m := ((nbrsOf g).toList.map List.length).sum / 2) hn0 hvc
    rw [hnew]
    simp only
    obtain ⟨hnbok, hsz⟩ := nbOK_nbrsOf g hg
    have hS := newStorage_ok g.n (((nbrsOf g).toList.map List.length).sum / 2)
    have key : ∃ x, canonicalIsomorphAllocated (fuelBound g.n) g.n (((nbrsOf g).toList.map List.length).sum / 2)
        (nbrsOf g) (some op) (newStorage g.n (((nbrsOf g).toList.map List.length).sum / 2)) {} = .ok x := by
      by_cases hsc : ((nbrsOf g).toList.map List.length).sum / 2 = 0 ∧ op.binDividers.len = 1
      · obtain ⟨x, hx⟩ := edgeless_total (st := newStorage g.n (((nbrsOf g).toList.map List.length).sum / 2)) hn
          hS.bperm hS.forb hS.gens
        unfold canonicalIsomorphAllocated
        rw [if_neg hn]
        simp only [hsc.1, if_true, hsc.2, beq_self_eq_true]
        rw [hsc.1] at hx
        rw [hx]
        exact ⟨_, rfl⟩
      · obtain ⟨hm0, hb0⟩ := init_match hn0 hvc hnew (nbrsOf g)
        have hbs := new_binsSorted hn0 hvc hnew
        have hw : (IR.initSt (irG g.n (nbrsOf g)) op.binDividers.len (cellOf op)).work ≠ [] := by
          show List.range op.binDividers.len ≠ []
          have := hp.bdLen_pos
          intro e
          have := congrArg List.length e
          simp at this
          omega
        have hinv := IR.refine_inv' (g := irG g.n (nbrsOf g)) (fuel := g.n * g.n + 10) (by omega) hw
        have hlenm : ∀ o : List Nat, o.Perm (List.range g.n) →
            (certPos (nbrsOf g) o g.n).length = ((nbrsOf g).toList.map List.length).sum / 2 :=
          fun o ho => certPos_length hnbok hsz ho
        have hJ := totMainJ (rf := g.n * g.n + 10) hnbok hsz rfl (rfuel_ge g.n) hinv.1 hinv.2 hlenm
        have hT := totMainT (rf := g.n * g.n + 10) hnbok hsz rfl hinv.1 hinv.2
        have hvw : op.value.WF := by unfold Sl.WF; omega
        refine allocated_total stablePerm expandValue_cert hJ hT hn (fun hm h1 => hsc ⟨hm, h1⟩) hp ha hage hspl hval hvw hb0
          (by omega) (by omega) (by omega) hsz ?_ hS ?_ (by unfold fuelBound; omega)
        · intro u l hu v hv
          have hul : u < (nbrsOf g).size := (Array.getElem?_eq_some_iff.1 hu).1
          have : (nbrsOf g).getD u [] = l := by
            rw [Array.getD_eq_getD_getElem?, hu]; rfl
          rw [← this] at hv
          exact (hnbok.lt u v hv).2
        · intro s0 hi hcap
          obtain ⟨h1, h2⟩ := dfs_init hnbok (rfuel_ge g.n) hp ha hm0 hb0 hbs hage hi
          exact ⟨⟨h1, h2⟩, hcap, fun _ => hi.ngens⟩
    obtain ⟨⟨r', opR, stR⟩, hx⟩ := key
    rw [hx]
    exact ⟨_, rfl⟩
end CanonF
