import Mamba.Lemmas.ExactForm
namespace Search
open Disjoint Relation GSearch

variable {g : DG} {gens : List (Array Nat)}

/-- the masks pushed for the subsets of size `k`: one per `Aut(g)`-orbit of `k`-subsets -/
structure BlockOK (g : DG) (k : Nat) (masks : List Nat) : Prop where
  form : ∀ x ∈ masks, ∃ c, IsSub g.nv k c ∧ x = maskOf c
  complete : ∀ c, IsSub g.nv k c → ∃ x ∈ masks, ExtEquiv g c g (bitsOf x)
  distinct : masks.Pairwise fun x y => ¬ ExtEquiv g (bitsOf x) g (bitsOf y)

theorem extEquiv_mask (g : DG) (c : List Nat) : ExtEquiv g c g (bitsOf (maskOf c)) :=
  ⟨rfl, fun u => u, IsBij.id _, fun _ _ _ _ => rfl, fun _ _ => mem_bitsOf_maskOf.symm⟩

theorem mem_zipIdx_colex {nv k : Nat} {c : List Nat} {i : Nat} (h : (c, i) ∈ (colex nv k).zipIdx) :
    ∃ hi : i < (colex nv k).length, (colex nv k)[i] = c := by
  have := List.mem_zipIdx_iff_getElem?.1 h
  simp only [Nat.zero_add] at this
  obtain ⟨hi, he⟩ := List.getElem?_eq_some_iff.1 this
  exact ⟨hi, he⟩

/-- one iteration of `for k := 2 …` in `addAugmentations` -/
theorem block_spec (hg : GensAut g gens) (hgen : ∀ σ, IsAut g σ → Word g.nv gens σ) (k : Nat) {ds : DS}
    (hds : unionPass gens ((colex g.nv k).zipIdx) (Array.replicate (choose g.nv k) (-1)) = .ok ds) :
    (∀ ci ∈ (colex g.nv k).zipIdx, ci.2 < ds.size) ∧
    BlockOK g k ((((colex g.nv k).zipIdx).filter fun ci => decide (ds.getD ci.2 0 < 0)).map fun ci => maskOf ci.1) := by
  have hN : choose g.nv k = (colex g.nv k).length := (colex_length g.nv k).symm
  have hsubs : ∀ ci ∈ (colex g.nv k).zipIdx, IsSub g.nv k ci.1 ∧ ci.2 < choose g.nv k := by
    rintro ⟨c, i⟩ hci
    obtain ⟨hi, he⟩ := mem_zipIdx_colex hci
    exact ⟨he ▸ (mem_colex g.nv k _).1 (List.getElem_mem hi), hN ▸ hi⟩
  obtain ⟨d', f, t⟩ := unionPass_tracks hN gens hg.ok _ [] _ hsubs (tracks_new _)
  have : Disjoint.new (choose g.nv k) = Array.replicate (choose g.nv k) (-1) := rfl
  rw [this, hds] at f
  cases f
  obtain ⟨hinv, hsize, hrep⟩ := t
  simp only [List.nil_append] at hrep
  have hrel : unionRel (opsPass gens ((colex g.nv k).zipIdx)) = stepRel g gens k := by
    funext x y; exact propext (unionRel_opsPass k x y)
  rw [hrel] at hrep
  have hlen : (colex g.nv k).length = ds.size := by rw [hsize, hN]
  -- rep-equality is orbit equivalence
  have hequiv : ∀ a b (ha : a < (colex g.nv k).length) (hb : b < (colex g.nv k).length),
      rep ds a = rep ds b ↔ ExtEquiv g ((colex g.nv k)[a]) g ((colex g.nv k)[b]) := by
    intro a b ha hb
    rw [hrep a b (hN ▸ ha) (hN ▸ hb)]
    constructor
    · intro h
      rcases eqvGen_sound hg k h with rfl | ⟨_, _, e⟩
      · exact ExtEquiv.refl _ _
      · exact e
    · exact eqvGen_complete hg hgen k ha hb
  refine ⟨fun ci hci => by rw [hsize]; exact (hsubs ci hci).2, ?_, ?_, ?_⟩
  · intro x hx
    obtain ⟨⟨c, i⟩, hci, rfl⟩ := List.mem_map.1 hx
    exact ⟨c, (hsubs _ (List.mem_filter.1 hci).1).1, rfl⟩
  · intro c hc
    obtain ⟨hr, he⟩ := colex_of_sub hc
    have hr' : rank c < ds.size := hlen ▸ hr
    have hj : rep ds (rank c) < ds.size := rep_lt hinv _ hr'
    have hj' : rep ds (rank c) < (colex g.nv k).length := hlen ▸ hj
    refine ⟨maskOf ((colex g.nv k)[rep ds (rank c)]), ?_, ?_⟩
    · refine List.mem_map.2 ⟨((colex g.nv k)[rep ds (rank c)], rep ds (rank c)), ?_, rfl⟩
      refine List.mem_filter.2 ⟨?_, ?_⟩
      · rw [List.mem_zipIdx_iff_getElem?]; simp [List.getElem?_eq_getElem hj']
      · simpa using rep_isRoot hinv _ hr'
    · have := (hequiv (rank c) (rep ds (rank c)) hr hj').1 (rep_rep hinv _ hr').symm
      rw [he] at this
      exact this.trans (extEquiv_mask g _)
  · rw [List.pairwise_map]
    have hnd : ((colex g.nv k).zipIdx).Pairwise fun a b => a.2 ≠ b.2 := by
      have : (((colex g.nv k).zipIdx).map Prod.snd).Nodup := by
        rw [List.zipIdx_map_snd]; exact List.nodup_range' (s := 0) (n := (colex g.nv k).length) 1 (by decide)
      exact List.pairwise_map.1 this
    refine ((hnd.filter _).imp_of_mem ?_)
    rintro ⟨c, i⟩ ⟨c', i'⟩ h1 h2 hne e
    obtain ⟨hci, hroot⟩ := List.mem_filter.1 h1
    obtain ⟨hci', hroot'⟩ := List.mem_filter.1 h2
    obtain ⟨hi, he⟩ := mem_zipIdx_colex hci
    obtain ⟨hi', he'⟩ := mem_zipIdx_colex hci'
    simp only at hne e hroot hroot'
    have e' : ExtEquiv g ((colex g.nv k)[i]) g ((colex g.nv k)[i']) := by
      rw [he, he']
      exact ((extEquiv_mask g c).trans e).trans (extEquiv_mask g c').symm
    have hr := (hequiv i i' hi hi').2 e'
    rw [(root_iff_rep hinv (hlen ▸ hi)).1 (by simpa using hroot),
      (root_iff_rep hinv (hlen ▸ hi')).1 (by simpa using hroot')] at hr
    exact hne hr

end Search
