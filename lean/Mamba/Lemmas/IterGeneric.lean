import Mathlib.Data.List.Chain
import Mamba.Model.IterBase
/-! Generic facts about driving an iterator (`collect`, `extras`) along a chain of successor steps. -/
namespace Iter
variable {σ α : Type}

theorem extras_dead (it : It σ α) (dead : σ → Prop)
    (hdead : ∀ s, dead s → ∃ s', it.next s = .ok (s', false) ∧ dead s') :
    ∀ k s, dead s → extras it k s = .ok (List.replicate k none) := by
  intro k
  induction k with
  | zero => intro s _; rfl
  | succ k ih =>
    intro s hs
    obtain ⟨s', h1, h2⟩ := hdead s hs
    simp [extras, h1, ih s' h2, List.replicate_succ]

theorem collect_chain (it : It σ α) (rep : σ → α → Prop) (dead : σ → Prop) (R : α → α → Prop)
    (hvalue : ∀ s x, rep s x → ∃ s', it.value s = .ok (s', x) ∧ rep s' x)
    (hstep : ∀ x y, R x y → ∀ s, rep s x → ∃ s', it.next s = .ok (s', true) ∧ rep s' y) :
    ∀ (rest : List α) (x : α) (s : σ) (acc : List α) (fuel : Nat),
      (x :: rest).IsChain R → rep s x → rest.length < fuel →
      (∀ y ∈ (x :: rest).getLast?, ∀ s, rep s y → ∃ s', it.next s = .ok (s', false) ∧ dead s') →
      ∃ s', collect it fuel s acc = (rest.reverse ++ acc, s', .exhausted) ∧ dead s' := by
  intro rest
  induction rest with
  | nil =>
    intro x s acc fuel _ hr hf hl
    obtain ⟨f, rfl⟩ : ∃ f, fuel = f + 1 := ⟨fuel - 1, by simp at hf; omega⟩
    obtain ⟨s', h1, h2⟩ := hl x (by simp) s hr
    exact ⟨s', by simp [collect, h1], h2⟩
  | cons y rest ih =>
    intro x s acc fuel hc hr hf hl
    obtain ⟨f, rfl⟩ : ∃ f, fuel = f + 1 := ⟨fuel - 1, by simp at hf; omega⟩
    rw [List.isChain_cons_cons] at hc
    obtain ⟨s1, h1, r1⟩ := hstep x y hc.1 s hr
    obtain ⟨s2, h2, r2⟩ := hvalue s1 y r1
    have hl' : ∀ z ∈ (y :: rest).getLast?, ∀ s, rep s z → ∃ s', it.next s = .ok (s', false) ∧ dead s' := by
      intro z hz
      apply hl z
      simpa [List.getLast?_cons_cons] using hz
    obtain ⟨s', h3, h4⟩ := ih y s2 (y :: acc) f hc.2 r2 (by simp at hf; omega) hl'
    refine ⟨s', ?_, h4⟩
    simp [collect, h1, h2, h3]

theorem enumerates_aux (it : It σ α) (rep : σ → α → Prop) (dead : σ → Prop) (R : α → α → Prop)
    (s0 : σ) (L : List α)
    (hchain : L.IsChain R)
    (hvalue : ∀ s x, rep s x → ∃ s', it.value s = .ok (s', x) ∧ rep s' x)
    (hempty : L = [] → ∃ s', it.next s0 = .ok (s', false) ∧ dead s')
    (hfirst : ∀ x ∈ L.head?, ∃ s', it.next s0 = .ok (s', true) ∧ rep s' x)
    (hstep : ∀ x y, R x y → ∀ s, rep s x → ∃ s', it.next s = .ok (s', true) ∧ rep s' y)
    (hlast : ∀ x ∈ L.getLast?, ∀ s, rep s x → ∃ s', it.next s = .ok (s', false) ∧ dead s')
    (hdead : ∀ s, dead s → ∃ s', it.next s = .ok (s', false) ∧ dead s') :
    ∀ bound, L.length < bound →
      ∃ s', outputs it bound s0 = (L, s', .exhausted) ∧ dead s' ∧
        ∀ k, extras it k s' = .ok (List.replicate k none) := by
  intro bound hb
  obtain ⟨f, rfl⟩ : ∃ f, bound = f + 1 := ⟨bound - 1, by omega⟩
  cases L with
  | nil =>
    obtain ⟨s', h1, h2⟩ := hempty rfl
    exact ⟨s', by simp [outputs, collect, h1], h2, fun k => extras_dead it dead hdead k s' h2⟩
  | cons x rest =>
    obtain ⟨s1, h1, r1⟩ := hfirst x (by simp)
    obtain ⟨s2, h2, r2⟩ := hvalue s1 x r1
    obtain ⟨s', h3, h4⟩ := collect_chain it rep dead R hvalue hstep rest x s2 [x] f hchain r2
      (by simp at hb; omega) hlast
    refine ⟨s', ?_, h4, fun k => extras_dead it dead hdead k s' h4⟩
    simp [outputs, collect, h1, h2, h3]

end Iter
