import Mamba.Lemmas.C06Sparse
/-! C06: `NewSparse` — main theorem. -/
namespace Construct
open GraphSpec


theorem foldl_int_sum (l : List Int) (a : Int) : l.foldl (· + ·) a = a + l.sum := by
  induction l generalizing a with
  | nil => simp
  | cons x t ih => simp [ih]; ring

theorem newSparse_ok (n : Nat) (L : List (List Nat)) (hlen : L.length = n)
    (hL : ∀ u, u < n → ∀ v ∈ L.getD u [], v < n ∧ v ≠ u ∧ u ∈ L.getD v []) :
    ∃ s, newSparse n (some L) = .ok s ∧ s.toI.Sound (sparseSpec n L) ∧ (sparseSpec n L).WF := by
  have hwf := sparseSpec_wf n L hL
  have hne : ¬ L.length ≠ n := by simp [hlen]
  let gs := sparseSpec n L
  let s : Sparse := { n := n, m := (((L.map newSortedInts).map fun l => (l.length : Int)).foldl (· + ·) 0) / 2,
                      nbrs := (L.map newSortedInts).toArray, deg := ((L.map newSortedInts).map fun l => (l.length : Int)).toArray }
  have hnb : ∀ v, v < n → s.nbrs[v]? = some (gs.nbrs v) := by
    intro v hv
    have hv' : v < L.length := by omega
    simp only [s, List.getElem?_toArray, List.getElem?_map, List.getElem?_eq_getElem hv', Option.map_some, Option.some.injEq]
    have := sparse_nbrs n L hL v hv
    simp only [List.getD, List.getElem?_eq_getElem hv', Option.getD_some] at this
    exact this
  have hdeg : ∀ v, v < n → s.deg[v]? = some (gs.deg v : Int) := by
    intro v hv
    have hv' : v < L.length := by omega
    simp only [s, List.getElem?_toArray, List.getElem?_map, List.getElem?_eq_getElem hv', Option.map_some, Option.some.injEq]
    have := sparse_nbrs n L hL v hv
    simp only [List.getD, List.getElem?_eq_getElem hv', Option.getD_some] at this
    rw [this]; rfl
  have hdegs : ((L.map newSortedInts).map fun l => (l.length : Int)) = (gs.degrees.map Int.ofNat) := by
    apply List.ext_getElem?
    intro v
    by_cases hv : v < n
    · have := hdeg v hv
      simp only [s, List.getElem?_toArray] at this
      rw [this]
      simp [G.degrees, gs, sparseSpec, List.getElem?_map, List.getElem?_range hv]
    · have h1 : L.length ≤ v := by omega
      simp [List.getElem?_map, G.degrees, gs, sparseSpec, hv, h1]
  refine ⟨s, ?_, ⟨rfl, ?_, ?_, ?_, ?_⟩, hwf⟩
  · simp only [newSparse, hne, ↓reduceIte]; rfl
  · -- M
    show Outcome.ok s.m = Outcome.ok ((gs.m : Nat) : Int)
    congr 1
    show (((L.map newSortedInts).map fun l => (l.length : Int)).foldl (· + ·) 0) / 2 = _
    rw [hdegs, foldl_int_sum]
    have := handshake_G gs hwf
    have e : ((gs.degrees.map Int.ofNat).sum : Int) = (((List.range gs.n).map gs.deg).sum : Nat) := by
      simp only [G.degrees]
      generalize List.range gs.n = l
      induction l with
      | nil => simp
      | cons x t ih => simp only [List.map_cons, List.sum_cons, ih]; push_cast; rfl
    rw [e, this]; push_cast; omega
  · intro u v hu hv
    have hu' : u < n := hu
    have hv' : v < n := hv
    show s.isEdge u v = _
    simp only [Sparse.isEdge, getAt_eq_ok_iff.mpr (hdeg u hu'), getAt_eq_ok_iff.mpr (hdeg v hv'), Outcome.bind_ok,
      getAt_eq_ok_iff.mpr (hnb u hu'), getAt_eq_ok_iff.mpr (hnb v hv'), Outcome.pure_eq]
    have h1 : (gs.nbrs u).contains v = gs.adj u v := by
      rw [Bool.eq_iff_iff, List.contains_eq_mem, decide_eq_true_eq, G.nbrs, List.mem_filter, List.mem_range]
      exact ⟨fun h => h.2, fun h => ⟨hv, h⟩⟩
    have h2 : (gs.nbrs v).contains u = gs.adj u v := by
      rw [hwf.symm u v, Bool.eq_iff_iff, List.contains_eq_mem, decide_eq_true_eq, G.nbrs, List.mem_filter, List.mem_range]
      exact ⟨fun h => h.2, fun h => ⟨hu, h⟩⟩
    rw [h1, h2]; split <;> rfl
  · intro v hv
    show getAt s.nbrs v = _
    exact getAt_eq_ok_iff.mpr (hnb v hv)
  · show Outcome.ok s.deg.toList = _
    congr 1


end Construct
