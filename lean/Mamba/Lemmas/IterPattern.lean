import Mamba.Lemmas.IterGeneric
import Mamba.Lemmas.IterBase
import Mamba.Model.IterPerm
import Mathlib.Data.Nat.Factorial.Basic
import Mathlib.Data.List.Nodup
import Mathlib.Data.List.Perm.Subperm
import Mathlib.Data.List.Range
/-!
# `PermutationsByPattern(n, f)` (`Iter.Pat`)

Stage 1 (`Pat.enumerates_lemma`): the goto machine yields exactly the depth-first list `patList f n` of the tree whose
nodes are permutations `P` of `0..l-1`, children `child P x` visited for `x = l, l-1, …, 0`, pruned by `f`; afterwards
`Next` keeps returning false.  Proof: induction on fuel over configurations `(label, path xs, levels below)` with the
remaining output `remP`, the potential `phiP` (three label visits per node, bounded by `Pat.fuel`), and `TrailP`.

Stage 2 (`mem_patList`, `patList_nodup`): `patList f n` consists, without repetition, of the permutations of `0..n-1`
all of whose standardised non-empty prefixes pass `f`.
-/

namespace Iter.Spec

/-- the child `x` of the permutation `P`: append `x` and add 1 to every entry `≥ x` -/
def child (P : List Int) (x : Int) : List Int := P.map (fun v => if v ≥ x then v + 1 else v) ++ [x]

/-- the DFS below the (already accepted) node `P`, `rem` levels to go; children in the order `l, l-1, …, 0` -/
def patSub (f : List Int → Bool) : List Int → Nat → List (List Int)
  | P, 0 => [P]
  | P, rem + 1 => (List.range (P.length + 1)).reverse.flatMap
      (fun (x : Nat) => if f (child P (x : Int)) then patSub f (child P (x : Int)) rem else [])

/-- the advertised output of `PermutationsByPattern(n, f)` -/
def patList (f : List Int → Bool) (n : Nat) : List (List Int) := patSub f [] n

/-- `x` is a permutation of `0..n-1` (as a list) -/
def IsPerm (n : Nat) (x : List Int) : Prop := x.Perm ((List.range n).map (fun (i : Nat) => (i : Int)))

/-- standardisation: each entry is replaced by its rank among the entries -/
def std (p : List Int) : List Int := p.map (fun v => ((p.filter (· < v)).length : Int))

/-- the block below the child `x` of `P` -/
def patBlk (f : List Int → Bool) (P : List Int) (rem : Nat) (x : Nat) : List (List Int) :=
  if f (child P (x : Int)) then patSub f (child P (x : Int)) rem else []

/-- the node reached by the (reversed) path of choices `xs` -/
def node : List Nat → List Int
  | [] => []
  | x :: xs => child (node xs) (x : Int)

/-- valid paths: the choice at a node of length `l` is `≤ l` -/
def VP : List Nat → Prop
  | [] => True
  | x :: xs => x ≤ xs.length ∧ VP xs

/-- what the search still produces once the subtree of `node xs` is finished (`rem` = levels below `node xs`) -/
def patAfter (f : List Int → Bool) : List Nat → Nat → List (List Int)
  | [], _ => []
  | x :: xs, rem => (List.range x).reverse.flatMap (patBlk f (node xs) rem) ++ patAfter f xs (rem + 1)

/-- weight of a subtree: three label visits per node -/
def wP : Nat → Nat → Nat
  | _, 0 => 3
  | l, rem + 1 => 3 + (l + 1) * wP (l + 1) rem

/-- label visits still to come at `x3` on `node xs` (this visit included) -/
def phi3 : List Nat → Nat → Nat
  | [], _ => 1
  | x :: xs, rem => 1 + x * wP (xs.length + 1) rem + phi3 xs (rem + 1)

end Iter.Spec

namespace Iter
open Spec

theorem patList_zero (f : List Int → Bool) : patList f 0 = [[]] := rfl

theorem patSub_succ (f : List Int → Bool) (P : List Int) (rem : Nat) :
    patSub f P (rem + 1) = (List.range (P.length + 1)).reverse.flatMap (patBlk f P rem) := rfl

theorem child_length (P : List Int) (x : Int) : (child P x).length = P.length + 1 := by simp [child]

theorem node_length : ∀ xs : List Nat, (node xs).length = xs.length
  | [] => rfl
  | x :: xs => by simp [node, child_length, node_length xs]

theorem node_bounds : ∀ xs : List Nat, VP xs → ∀ v ∈ node xs, 0 ≤ v ∧ v < (xs.length : Int)
  | [], _ => by simp [node]
  | x :: xs, h => by
    intro v hv
    have ih := node_bounds xs h.2
    have hx := h.1
    simp only [node, child, List.mem_append, List.mem_map, List.mem_singleton] at hv
    simp only [List.length_cons, Int.natCast_add, Int.natCast_one]
    rcases hv with ⟨w, hw, rfl⟩ | rfl
    · have := ih w hw
      split <;> omega
    · omega

theorem node_nodup : ∀ xs : List Nat, (node xs).Nodup
  | [] => by simp [node]
  | x :: xs => by
    have ih := node_nodup xs
    simp only [node, child]
    rw [List.nodup_append]
    refine ⟨?_, by simp, ?_⟩
    · refine List.Nodup.map ?_ ih
      intro a b hab
      simp only at hab
      split at hab <;> split at hab <;> omega
    · intro a ha b hb
      simp only [List.mem_map] at ha
      simp only [List.mem_singleton] at hb
      obtain ⟨w, _, rfl⟩ := ha
      subst hb
      split <;> omega

end Iter
namespace Iter
open Spec

theorem ext_eq_child (P : List Int) (h : ∀ v ∈ P, v < (P.length : Int)) :
    P ++ [(P.length : Int)] = child P (P.length : Int) := by
  simp only [child]
  congr 1
  conv => lhs; rw [← List.map_id P]
  apply List.map_congr_left
  intro v hv
  have := h v hv
  simp only [id]
  split <;> omega

theorem pop_child (P : List Int) (h : ∀ v ∈ P, 0 ≤ v) :
    ((child P 0).dropLast).map (fun v => if v > 0 then v - 1 else v) = P := by
  simp only [child, List.dropLast_concat, List.map_map]
  conv => rhs; rw [← List.map_id P]
  apply List.map_congr_left
  intro v hv
  have := h v hv
  simp only [Function.comp, id]
  split <;> split <;> omega

theorem bump_append (x y : Int) (h : y ≠ x - 1) : ∀ L : List Int, Pat.bump x (L ++ [y]) = Pat.bump x L ++ [y]
  | [] => by simp [Pat.bump, h]
  | v :: r => by
    simp only [List.cons_append, Pat.bump]
    split
    · rfl
    · rw [bump_append x y h r]; rfl

theorem bump_map (x : Int) : ∀ P : List Int, P.Nodup →
    Pat.bump (x + 1) (P.map (fun v => if v ≥ x + 1 then v + 1 else v)) = P.map (fun v => if v ≥ x then v + 1 else v)
  | [], _ => rfl
  | v :: r, h => by
    rw [List.nodup_cons] at h
    simp only [List.map_cons, Pat.bump]
    by_cases hv : v = x
    · subst hv
      have e1 : ¬ (v ≥ v + 1) := by omega
      simp only [e1, if_false, Int.add_sub_cancel, beq_self_eq_true, if_true, ge_iff_le, Int.le_refl]
      congr 1
      apply List.map_congr_left
      intro w hw
      have : w ≠ v := fun e => h.1 (e ▸ hw)
      by_cases h1 : v + 1 ≤ w
      · have h2 : v ≤ w := by omega
        simp [h1, h2]
      · have h2 : ¬ v ≤ w := by omega
        simp [h1, h2]
    · have e : ((if v ≥ x + 1 then v + 1 else v) == x + 1 - 1) = false := by
        simp only [beq_eq_false_iff_ne]
        split <;> omega
      simp only [e, Bool.false_eq_true, if_false]
      rw [bump_map x r h.2]
      congr 1
      by_cases h1 : x + 1 ≤ v
      · have h2 : x ≤ v := by omega
        simp [h1, h2]
      · have h2 : ¬ x ≤ v := by omega
        simp [h1, h2]

theorem bump_child (P : List Int) (x : Int) (h : P.Nodup) :
    Pat.bump (x + 1) (child P (x + 1)) = P.map (fun v => if v ≥ x then v + 1 else v) ++ [x + 1] := by
  simp only [child]
  rw [bump_append (x + 1) (x + 1) (by omega), bump_map x P h]

end Iter
namespace Iter
open Spec

theorem Pat.run_x1 (f : List Int → Bool) (n : Int) (fuel : Nat) (xs : List Nat) (h : VP xs) :
    Pat.run f n (fuel + 1) .x1 (node xs) = Pat.run f n fuel .x2 (node (xs.length :: xs)) := by
  simp only [Pat.run]
  have hb : ∀ v ∈ node xs, v < ((node xs).length : Int) := by
    intro v hv; rw [node_length]; exact (node_bounds xs h v hv).2
  rw [ext_eq_child (node xs) hb, node_length]
  rfl

theorem get_last (pre : Sl) (x : Int) : get (pre ++ [x]) (((pre ++ [x]).length : Int) - 1) = .ok x := by
  have : (((pre ++ [x]).length : Int) - 1) = (pre.length : Int) := by simp
  rw [this]; exact get_append_length pre [] x

theorem set_last (pre : Sl) (x v : Int) : set (pre ++ [x]) (((pre ++ [x]).length : Int) - 1) v = .ok (pre ++ [v]) := by
  have : (((pre ++ [x]).length : Int) - 1) = (pre.length : Int) := by simp
  rw [this]; exact set_append_length pre [] x v

theorem Pat.run_x3_snoc0 (f : List Int → Bool) (n : Int) (fuel : Nat) (pre : Sl) :
    Pat.run f n (fuel + 1) .x3 (pre ++ [0]) =
      Pat.run f n fuel .x3 (pre.map (fun v => if v > 0 then v - 1 else v)) := by
  have hl : ((pre ++ [(0 : Int)]).length == 0) = false := by simp
  simp only [Pat.run, get_last, Outcome.bind_ok, hl, Bool.false_eq_true, if_false, beq_self_eq_true, if_true,
    List.dropLast_concat]

theorem Pat.run_x3_snoc (f : List Int → Bool) (n : Int) (fuel : Nat) (pre : Sl) (x : Int) (hx : x ≠ 0) (pre' : Sl)
    (hb : Pat.bump x (pre ++ [x]) = pre' ++ [x]) :
    Pat.run f n (fuel + 1) .x3 (pre ++ [x]) = Pat.run f n fuel .x2 (pre' ++ [x - 1]) := by
  have hl : ((pre ++ [x]).length == 0) = false := by simp
  have hx' : (x == 0) = false := by simpa using hx
  simp only [Pat.run, get_last, Outcome.bind_ok, hl, Bool.false_eq_true, if_false, hx', hb, set_last]

theorem Pat.run_x3_zero (f : List Int → Bool) (n : Int) (fuel : Nat) (xs : List Nat) (h : VP xs) :
    Pat.run f n (fuel + 1) .x3 (node (0 :: xs)) = Pat.run f n fuel .x3 (node xs) := by
  have hp := pop_child (node xs) (fun v hv => (node_bounds xs h v hv).1)
  simp only [node, child, Int.natCast_zero, List.dropLast_concat] at hp ⊢
  rw [Pat.run_x3_snoc0, hp]

theorem Pat.run_x3_succ (f : List Int → Bool) (n : Int) (fuel : Nat) (x : Nat) (xs : List Nat) :
    Pat.run f n (fuel + 1) .x3 (node ((x + 1) :: xs)) = Pat.run f n fuel .x2 (node (x :: xs)) := by
  have hb := bump_child (node xs) (x : Int) (node_nodup xs)
  simp only [node, child, Int.natCast_add, Int.natCast_one] at hb ⊢
  rw [Pat.run_x3_snoc f n fuel _ _ (by omega) _ hb]
  simp

end Iter
namespace Iter
open Spec

/-- remaining output of the search at each label (`rem` = levels below `node xs`) -/
def remP (f : List Int → Bool) (lbl : Pat.Lbl) (xs : List Nat) (rem : Nat) : List (List Int) :=
  match lbl with
  | .x1 => patSub f (node xs) rem ++ patAfter f xs rem
  | .x2 => (if f (node xs) then patSub f (node xs) rem else []) ++ patAfter f xs rem
  | .x3 => patAfter f xs rem

/-- potential: label visits still to come, the current one included -/
def phiP (lbl : Pat.Lbl) (xs : List Nat) (rem : Nat) : Nat :=
  match lbl with
  | .x1 => wP xs.length rem - 2 + phi3 xs rem
  | .x2 => wP xs.length rem - 1 + phi3 xs rem
  | .x3 => phi3 xs rem

def ValidP (lbl : Pat.Lbl) (xs : List Nat) (rem : Nat) : Prop :=
  VP xs ∧ (lbl = .x1 → rem ≠ 0) ∧ (lbl = .x2 → xs ≠ [])

/-- a list of leaves each of which is followed by exactly what the search produces after it -/
inductive TrailP (f : List Int → Bool) (n : Nat) : List (List Int) → Prop
  | nil : TrailP f n []
  | cons (xs : List Nat) : VP xs → xs.length = n → TrailP f n (patAfter f xs 0) →
      TrailP f n (node xs :: patAfter f xs 0)

/-- result of one run of the machine, as determined by the remaining output -/
def ResP (rem : List (List Int)) (r : Sl × Bool) : Prop :=
  match rem with
  | y :: _ => r = (y, true)
  | [] => r = ([], false)

theorem wP_pos (l rem : Nat) : 3 ≤ wP l rem := by
  cases rem <;> simp [wP]

theorem phi3_pos (xs : List Nat) (rem : Nat) : 1 ≤ phi3 xs rem := by
  cases xs <;> simp [phi3]; omega

theorem phiP_pos (lbl : Pat.Lbl) (xs : List Nat) (rem : Nat) : 1 ≤ phiP lbl xs rem := by
  have := phi3_pos xs rem
  cases lbl <;> simp only [phiP] <;> omega

theorem phiP_x1_x2 (xs : List Nat) (rem : Nat) :
    phiP .x2 (xs.length :: xs) rem + 1 ≤ phiP .x1 xs (rem + 1) := by
  simp only [phiP, phi3, wP, List.length_cons]
  have := wP_pos (xs.length + 1) rem
  rw [Nat.succ_mul]
  omega

theorem phiP_x3_x2 (x : Nat) (xs : List Nat) (rem : Nat) :
    phiP .x2 (x :: xs) rem + 1 ≤ phiP .x3 ((x + 1) :: xs) rem := by
  simp only [phiP, phi3, List.length_cons]
  have := wP_pos (xs.length + 1) rem
  rw [Nat.succ_mul]
  omega

theorem phiP_x3_x3 (xs : List Nat) (rem : Nat) :
    phiP .x3 xs (rem + 1) + 1 ≤ phiP .x3 (0 :: xs) rem := by
  simp only [phiP, phi3]; omega

theorem phiP_x2_x1 (xs : List Nat) (rem : Nat) : phiP .x1 xs rem + 1 ≤ phiP .x2 xs rem := by
  simp only [phiP]; have := wP_pos xs.length rem; omega

theorem phiP_x2_x3 (xs : List Nat) (rem : Nat) : phiP .x3 xs rem + 1 ≤ phiP .x2 xs rem := by
  simp only [phiP]; have := wP_pos xs.length rem; omega

theorem remP_x1 (f : List Int → Bool) (xs : List Nat) (rem : Nat) :
    remP f .x1 xs (rem + 1) = remP f .x2 (xs.length :: xs) rem := by
  simp only [remP, patSub_succ, patAfter, node_length, List.range_succ, List.reverse_append,
    List.reverse_cons, List.reverse_nil, List.nil_append, List.singleton_append, List.flatMap_cons,
    List.append_assoc, patBlk, node]
  rfl

theorem remP_x3_succ (f : List Int → Bool) (x : Nat) (xs : List Nat) (rem : Nat) :
    remP f .x3 ((x + 1) :: xs) rem = remP f .x2 (x :: xs) rem := by
  simp only [remP, patAfter, List.range_succ, List.reverse_append,
    List.reverse_cons, List.reverse_nil, List.nil_append, List.singleton_append, List.flatMap_cons,
    List.append_assoc, patBlk, node]
  rfl

theorem remP_x3_zero (f : List Int → Bool) (xs : List Nat) (rem : Nat) :
    remP f .x3 (0 :: xs) rem = remP f .x3 xs (rem + 1) := by
  simp [remP, patAfter]

end Iter
namespace Iter
open Spec

theorem pat_run (f : List Int → Bool) (n : Nat) : ∀ (fuel : Nat) (lbl : Pat.Lbl) (xs : List Nat) (rem : Nat),
    xs.length + rem = n → ValidP lbl xs rem → phiP lbl xs rem ≤ fuel →
    ∃ r, Pat.run f (n : Int) fuel lbl (node xs) = .ok r ∧
      ResP (remP f lbl xs rem) r ∧ TrailP f n (remP f lbl xs rem) := by
  intro fuel
  induction fuel with
  | zero =>
    intro lbl xs rem _ _ hf
    have := phiP_pos lbl xs rem
    omega
  | succ fuel ih =>
    intro lbl xs rem hn hv hf
    obtain ⟨hvp, hx1, hx2⟩ := hv
    cases lbl with
    | x1 =>
      obtain ⟨rem', rfl⟩ : ∃ r', rem = r' + 1 := ⟨rem - 1, by have := hx1 rfl; omega⟩
      have hphi := phiP_x1_x2 xs rem'
      have hv' : ValidP .x2 (xs.length :: xs) rem' := ⟨⟨Nat.le_refl _, hvp⟩, by simp, by simp⟩
      obtain ⟨r, h1, h2, h3⟩ := ih .x2 (xs.length :: xs) rem' (by simp; omega) hv' (by omega)
      rw [Pat.run_x1 f n fuel xs hvp, remP_x1]
      exact ⟨r, h1, h2, h3⟩
    | x2 =>
      simp only [Pat.run]
      by_cases ht : f (node xs) = true
      · simp only [ht, if_true]
        by_cases hr : rem = 0
        · subst hr
          have hl : (((node xs).length : Int) == (n : Int)) = true := by
            rw [node_length]; simp; omega
          simp only [hl, if_true]
          have hphi := phiP_x2_x3 xs 0
          obtain ⟨_, _, _, h3⟩ := ih .x3 xs 0 hn ⟨hvp, by simp, by simp⟩ (by omega)
          refine ⟨(node xs, true), rfl, ?_, ?_⟩
          · simp [remP, ht, patSub, ResP]
          · simp only [remP, ht, if_true, patSub, List.singleton_append]
            exact TrailP.cons xs hvp (by omega) (by simpa [remP] using h3)
        · have hl : (((node xs).length : Int) == (n : Int)) = false := by
            rw [node_length]; simp; omega
          simp only [hl, Bool.false_eq_true, if_false]
          have hphi := phiP_x2_x1 xs rem
          obtain ⟨r, h1, h2, h3⟩ := ih .x1 xs rem hn ⟨hvp, fun _ => hr, by simp⟩ (by omega)
          have e : remP f .x2 xs rem = remP f .x1 xs rem := by simp [remP, ht]
          rw [e]
          exact ⟨r, h1, h2, h3⟩
      · simp only [ht, if_false, Bool.false_eq_true]
        have hphi := phiP_x2_x3 xs rem
        obtain ⟨r, h1, h2, h3⟩ := ih .x3 xs rem hn ⟨hvp, by simp, by simp⟩ (by omega)
        have e : remP f .x2 xs rem = remP f .x3 xs rem := by simp [remP, ht]
        rw [e]
        exact ⟨r, h1, h2, h3⟩
    | x3 =>
      cases xs with
      | nil =>
        refine ⟨([], false), by simp [Pat.run, node], ?_, ?_⟩
        · simp [remP, patAfter, ResP]
        · simp only [remP, patAfter]; exact TrailP.nil
      | cons x xs' =>
        cases x with
        | zero =>
          have hphi := phiP_x3_x3 xs' rem
          obtain ⟨r, h1, h2, h3⟩ := ih .x3 xs' (rem + 1) (by simp at hn; omega) ⟨hvp.2, by simp, by simp⟩ (by omega)
          rw [Pat.run_x3_zero f n fuel xs' hvp.2, remP_x3_zero]
          exact ⟨r, h1, h2, h3⟩
        | succ x =>
          have hphi := phiP_x3_x2 x xs' rem
          have hv' : ValidP .x2 (x :: xs') rem := ⟨⟨by have := hvp.1; omega, hvp.2⟩, by simp, by simp⟩
          obtain ⟨r, h1, h2, h3⟩ := ih .x2 (x :: xs') rem (by simpa using hn) hv' (by omega)
          rw [Pat.run_x3_succ f n fuel x xs', remP_x3_succ]
          exact ⟨r, h1, h2, h3⟩

end Iter
namespace Iter
open Spec

theorem phi3_bound : ∀ (xs : List Nat) (rem : Nat), VP xs →
    phi3 xs rem + wP xs.length rem ≤ wP 0 (xs.length + rem) + 1
  | [], rem, _ => by simp [phi3]; omega
  | x :: xs, rem, h => by
    have ih := phi3_bound xs (rem + 1) h.2
    have hx := h.1
    have hw : wP xs.length (rem + 1) = 3 + (xs.length + 1) * wP (xs.length + 1) rem := rfl
    simp only [phi3, List.length_cons]
    have e : xs.length + 1 + rem = xs.length + (rem + 1) := by omega
    rw [e]
    have hle : x * wP (xs.length + 1) rem ≤ xs.length * wP (xs.length + 1) rem := Nat.mul_le_mul_right _ hx
    rw [hw, Nat.succ_mul] at ih
    omega

theorem wP_fact : ∀ (rem l : Nat), wP l rem * l.factorial ≤ 3 * (rem + 1) * (l + rem).factorial
  | 0, l => by simp [wP]
  | rem + 1, l => by
    have ih := wP_fact rem (l + 1)
    have hle : l.factorial ≤ (l + 1 + rem).factorial := Nat.factorial_le (by omega)
    have e : l + (rem + 1) = l + 1 + rem := by omega
    rw [e]
    simp only [wP]
    have e2 : (3 + (l + 1) * wP (l + 1) rem) * l.factorial = 3 * l.factorial + wP (l + 1) rem * (l + 1).factorial := by
      rw [Nat.factorial_succ, Nat.add_mul, Nat.mul_comm (l + 1) (wP (l + 1) rem), Nat.mul_assoc]
    rw [e2]
    have e3 : 3 * (rem + 1 + 1) * (l + 1 + rem).factorial =
        3 * (rem + 1) * (l + 1 + rem).factorial + 3 * (l + 1 + rem).factorial := by
      rw [← Nat.add_mul]
      rfl
    omega

theorem pat_foldl_fact : ∀ m : Nat, (List.range m).foldl (fun acc i => acc * (i + 1)) 1 = m.factorial
  | 0 => rfl
  | m + 1 => by
    rw [List.range_succ, List.foldl_append, pat_foldl_fact m]
    simp [Nat.factorial_succ, Nat.mul_comm]

theorem pat_fuel_ok (n : Nat) : wP 0 n ≤ Pat.fuel (n : Int) := by
  have h := wP_fact n 0
  simp only [Nat.factorial_zero, Nat.mul_one, Nat.zero_add] at h
  simp only [Pat.fuel, Int.toNat_natCast, pat_foldl_fact, Nat.factorial_succ]
  rw [Nat.mul_assoc] at h
  omega

end Iter
namespace Iter
open Spec

/-- successor relation read off a trail -/
def RTrailP (f : List Int → Bool) (n : Nat) (x y : List Int) : Prop :=
  ∃ xs, VP xs ∧ xs.length = n ∧ x = node xs ∧ (patAfter f xs 0).head? = some y

theorem TrailP.isChain {f : List Int → Bool} {n : Nat} {l : List (List Int)} (h : TrailP f n l) :
    l.IsChain (RTrailP f n) := by
  induction h with
  | nil => exact List.IsChain.nil
  | cons xs hv hl _ ih =>
    cases hrest : patAfter f xs 0 with
    | nil => exact List.IsChain.singleton _
    | cons y rest =>
      rw [hrest] at ih
      exact List.IsChain.cons_cons ⟨xs, hv, hl, rfl, by simp [hrest]⟩ ih

theorem TrailP.last {f : List Int → Bool} {n : Nat} {l : List (List Int)} (h : TrailP f n l) :
    ∀ x ∈ l.getLast?, ∃ xs, VP xs ∧ xs.length = n ∧ x = node xs ∧ patAfter f xs 0 = [] := by
  induction h with
  | nil => intro x hx; simp at hx
  | cons xs hv hl _ ih =>
    intro x hx
    cases hrest : patAfter f xs 0 with
    | nil =>
      rw [hrest] at hx
      simp only [List.getLast?_singleton, Option.mem_def, Option.some.injEq] at hx
      exact ⟨xs, hv, hl, hx.symm, hrest⟩
    | cons y rest =>
      rw [hrest] at hx ih
      rw [List.getLast?_cons_cons] at hx
      exact ih x hx

def Pat.Rep (n : Nat) (s : Pat) (x : List Int) : Prop :=
  s.n = (n : Int) ∧ s.a = some x ∧ s.first = false

def Pat.Dead (n : Nat) (s : Pat) : Prop :=
  s.n = (n : Int) ∧ s.a = some [] ∧ s.first = false

theorem Pat.fuel_succ (n : Int) : ∃ k, Pat.fuel n = k + 1 := ⟨_, rfl⟩

theorem Pat.next_dead (f : List Int → Bool) (n : Nat) (s : Pat) (h : Pat.Dead n s) :
    ∃ s', Pat.next f s = .ok (s', false) ∧ Pat.Dead n s' := by
  obtain ⟨hn, ha, hf⟩ := h
  refine ⟨s, ?_, hn, ha, hf⟩
  obtain ⟨k, hk⟩ := Pat.fuel_succ s.n
  cases s
  simp_all [Pat.next, Pat.run]

/-- the first call, `n ≥ 1` -/
theorem Pat.first_run (f : List Int → Bool) (n : Nat) (hn : 1 ≤ n) :
    ∃ r, Pat.run f (n : Int) (Pat.fuel (n : Int)) .x1 [] = .ok r ∧ ResP (patList f n) r ∧
      TrailP f n (patList f n) := by
  have hf : phiP .x1 [] n ≤ Pat.fuel (n : Int) := by
    have := pat_fuel_ok n
    have := wP_pos 0 n
    simp only [phiP, phi3, List.length_nil]; omega
  obtain ⟨r, h1, h2, h3⟩ := pat_run f n (Pat.fuel (n : Int)) .x1 [] n (by simp)
    ⟨trivial, fun _ => by omega, by simp⟩ hf
  have e : remP f .x1 [] n = patList f n := by simp [remP, patAfter, patList, node]
  rw [e] at h2 h3
  exact ⟨r, h1, h2, h3⟩

/-- a later call from a leaf -/
theorem Pat.leaf_run (f : List Int → Bool) (n : Nat) (xs : List Nat) (hv : VP xs) (hl : xs.length = n) :
    ∃ r, Pat.run f (n : Int) (Pat.fuel (n : Int)) .x3 (node xs) = .ok r ∧ ResP (patAfter f xs 0) r := by
  subst hl
  have hf : phiP .x3 xs 0 ≤ Pat.fuel (xs.length : Int) := by
    have h1 := phi3_bound xs 0 hv
    have h2 := pat_fuel_ok xs.length
    have h3 := wP_pos xs.length 0
    simp only [Nat.add_zero] at h1
    simp only [phiP]; omega
  obtain ⟨r, h1, h2, _⟩ := pat_run f xs.length (Pat.fuel (xs.length : Int)) .x3 xs 0 (by omega) ⟨hv, by simp, by simp⟩ hf
  exact ⟨r, h1, h2⟩

end Iter
namespace Iter
open Spec

theorem Pat.enumerates_nat (f : List Int → Bool) (n : Nat) :
    ∀ bound, (patList f n).length < bound →
      ∃ s', outputs (Pat.it f) bound (Pat.init (n : Int)) = (patList f n, s', .exhausted) ∧
        ∀ k, extras (Pat.it f) k s' = .ok (List.replicate k none) := by
  intro bound hb
  have hvalue : ∀ s x, Pat.Rep n s x → ∃ s', (Pat.it f).value s = .ok (s', x) ∧ Pat.Rep n s' x := by
    rintro s x ⟨hn, ha, hf⟩
    exact ⟨s, by simp [Pat.it, ha], hn, ha, hf⟩
  by_cases hn0 : n = 0
  · subst hn0
    obtain ⟨s', h1, _, h3⟩ := enumerates_aux (Pat.it f) (Pat.Rep 0) (Pat.Dead 0)
      (fun _ _ => False) (Pat.init ((0 : Nat) : Int)) (patList f 0)
      (by rw [patList_zero]; exact List.IsChain.singleton _)
      hvalue
      (by intro h; simp [patList_zero] at h)
      (by
        intro x hx
        simp only [patList_zero, List.head?_cons, Option.mem_def, Option.some.injEq] at hx
        subst hx
        exact ⟨⟨0, some [], false⟩, by simp [Pat.it, Pat.next, Pat.init], rfl, rfl, rfl⟩)
      (fun _ _ h => h.elim)
      (by
        rintro x hx s ⟨hn, ha, hf⟩
        simp only [patList_zero, List.getLast?_singleton, Option.mem_def, Option.some.injEq] at hx
        subst hx
        exact Pat.next_dead f 0 s ⟨hn, ha, hf⟩)
      (fun s hs => Pat.next_dead f 0 s hs) bound hb
    exact ⟨s', h1, h3⟩
  · have hn1 : 1 ≤ n := by omega
    obtain ⟨r, hr1, hr2, htrail⟩ := Pat.first_run f n hn1
    have hinit : Pat.next f (Pat.init (n : Int)) = .ok (⟨(n : Int), some r.1, false⟩, r.2) := by
      have h1 : ¬ ((n : Int) < 0) := by omega
      have h2 : ((n : Int) == 0) = false := by simp; omega
      simp [Pat.next, Pat.init, h1, h2, hr1]
    have hlater : ∀ (xs : List Nat), VP xs → xs.length = n → ∀ s, Pat.Rep n s (node xs) →
        ∃ r', ResP (patAfter f xs 0) r' ∧ Pat.next f s = .ok ({ s with a := some r'.1 }, r'.2) := by
      rintro xs hv hl s ⟨hn, ha, hf⟩
      obtain ⟨r', h1', h2'⟩ := Pat.leaf_run f n xs hv hl
      refine ⟨r', h2', ?_⟩
      cases s
      simp_all [Pat.next]
    obtain ⟨s', h1, _, h3⟩ := enumerates_aux (Pat.it f) (Pat.Rep n) (Pat.Dead n)
      (RTrailP f n) (Pat.init (n : Int)) (patList f n) htrail.isChain
      hvalue
      (by
        intro hL
        rw [hL] at hr2
        simp only [ResP] at hr2
        refine ⟨⟨(n : Int), some r.1, false⟩, ?_, rfl, by rw [hr2], rfl⟩
        rw [show (Pat.it f).next = Pat.next f from rfl, hinit, hr2])
      (by
        intro x hx
        cases hL : patList f n with
        | nil => simp [hL] at hx
        | cons y rest =>
          rw [hL] at hr2 hx
          simp only [List.head?_cons, Option.mem_def, Option.some.injEq] at hx
          subst hx
          simp only [ResP] at hr2
          refine ⟨⟨(n : Int), some r.1, false⟩, ?_, rfl, by rw [hr2], rfl⟩
          rw [show (Pat.it f).next = Pat.next f from rfl, hinit, hr2])
      (by
        rintro x y ⟨xs, hv, hl, hx, hy⟩ s hrep
        subst hx
        obtain ⟨r', h2', hnx⟩ := hlater xs hv hl s hrep
        cases hA : patAfter f xs 0 with
        | nil => simp [hA] at hy
        | cons z rest =>
          rw [hA] at hy h2'
          simp only [List.head?_cons, Option.some.injEq] at hy
          subst hy
          simp only [ResP] at h2'
          refine ⟨{ s with a := some z }, ?_, hrep.1, rfl, hrep.2.2⟩
          rw [show (Pat.it f).next = Pat.next f from rfl, hnx, h2'])
      (by
        rintro x hx s hrep
        obtain ⟨xs, hv, hl, hxe, hA⟩ := htrail.last x hx
        subst hxe
        obtain ⟨r', h2', hnx⟩ := hlater xs hv hl s hrep
        rw [hA] at h2'
        simp only [ResP] at h2'
        refine ⟨{ s with a := some [] }, ?_, hrep.1, rfl, hrep.2.2⟩
        rw [show (Pat.it f).next = Pat.next f from rfl, hnx, h2'])
      (fun s hs => Pat.next_dead f n s hs) bound hb
    exact ⟨s', h1, h3⟩

/-- **Stage 1**: `PermutationsByPattern(n, f)` yields exactly the DFS list `patList f n`, then stays exhausted. -/
theorem Pat.enumerates_lemma (f : List Int → Bool) (n : Int) (hn : 0 ≤ n) :
    ∀ bound, (patList f n.toNat).length < bound →
      ∃ s', outputs (Pat.it f) bound (Pat.init n) = (patList f n.toNat, s', .exhausted) ∧
        ∀ k, extras (Pat.it f) k s' = .ok (List.replicate k none) := by
  obtain ⟨m, rfl⟩ : ∃ m : Nat, n = (m : Int) := ⟨n.toNat, by omega⟩
  simpa using Pat.enumerates_nat f m

end Iter


namespace Iter
open Spec

theorem isPerm_iff (n : Nat) (x : List Int) :
    IsPerm n x ↔ x.length = n ∧ x.Nodup ∧ ∀ v ∈ x, 0 ≤ v ∧ v < (n : Int) := by
  have hnd : ((List.range n).map (fun (i : Nat) => (i : Int))).Nodup :=
    List.Nodup.map (fun a b h => by have h' : (a : Int) = (b : Int) := h; omega) List.nodup_range
  constructor
  · intro h
    refine ⟨by simpa using h.length_eq, h.nodup_iff.mpr hnd, ?_⟩
    intro v hv
    have := h.mem_iff.mp hv
    simp only [List.mem_map, List.mem_range] at this
    obtain ⟨i, hi, rfl⟩ := this
    omega
  · rintro ⟨hl, hn, hb⟩
    have hsub : x ⊆ (List.range n).map (fun (i : Nat) => (i : Int)) := by
      intro v hv
      have := hb v hv
      simp only [List.mem_map, List.mem_range]
      exact ⟨v.toNat, by omega, by omega⟩
    exact (List.subperm_of_subset hn hsub).perm_of_length_le (by simp [hl])

theorem countP_range_lt (v : Int) (hv : 0 ≤ v) : ∀ n : Nat,
    (List.range n).countP (fun i : Nat => decide ((i : Int) < v)) = min v.toNat n
  | 0 => by simp
  | n + 1 => by
    rw [List.range_succ, List.countP_append, countP_range_lt v hv n]
    simp only [List.countP_cons, List.countP_nil, decide_eq_true_eq]
    split <;> omega

theorem rank_eq_countP (p : List Int) (v : Int) : (p.filter (· < v)).length = p.countP (· < v) :=
  (List.countP_eq_length_filter).symm

theorem std_of_isPerm (n : Nat) (x : List Int) (h : IsPerm n x) : std x = x := by
  have hb := ((isPerm_iff n x).mp h).2.2
  simp only [std]
  conv => rhs; rw [← List.map_id x]
  apply List.map_congr_left
  intro v hv
  have := hb v hv
  rw [rank_eq_countP, h.countP_eq, List.countP_map]
  have e := countP_range_lt v this.1 n
  simp only [Function.comp_def]
  rw [e]
  simp only [id]
  omega

end Iter
namespace Iter
open Spec

theorem rank_mono (p : List Int) (a v : Int) (h : a ≤ v) : p.countP (· < a) ≤ p.countP (· < v) :=
  List.countP_mono_left (fun u _ hu => by simp only [decide_eq_true_eq] at hu ⊢; omega)

theorem rank_lt : ∀ (p : List Int) (v a : Int), v ∈ p → v < a → p.countP (· < v) < p.countP (· < a)
  | [], _, _, hv, _ => by simp at hv
  | u :: r, v, a, hv, hlt => by
    simp only [List.countP_cons, decide_eq_true_eq]
    have hm := rank_mono r v a (by omega)
    rcases List.mem_cons.mp hv with rfl | hv'
    · have h1 : ¬ v < v := by omega
      simp only [h1, hlt, if_true, if_false]; omega
    · have ih := rank_lt r v a hv' hlt
      split <;> split <;> omega

theorem rank_le_length (p : List Int) (a : Int) : p.countP (· < a) ≤ p.length := List.countP_le_length

theorem std_snoc (p : List Int) (a : Int) (ha : a ∉ p) :
    std (p ++ [a]) = child (std p) ((p.countP (· < a) : Nat) : Int) := by
  simp only [std, child, rank_eq_countP, List.map_append, List.map_map, List.map_cons, List.map_nil,
    List.countP_append, List.countP_cons, List.countP_nil]
  congr 1
  · apply List.map_congr_left
    intro v hv
    have hne : v ≠ a := fun e => ha (e ▸ hv)
    simp only [Function.comp, decide_eq_true_eq]
    by_cases hlt : a < v
    · have := rank_mono p a v (by omega)
      simp only [hlt, if_true]
      split <;> omega
    · have := rank_lt p v a hv (by omega)
      simp only [hlt, if_false]
      split <;> omega
  · simp

/-- the parent of a node: drop the last entry `x` and subtract 1 from every entry `> x` -/
def Spec.parent (q : List Int) : List Int :=
  q.dropLast.map (fun v => if v > q.getLast?.getD 0 then v - 1 else v)

theorem parent_child (P : List Int) (c : Int) : parent (child P c) = P := by
  simp only [parent, child, List.dropLast_concat, List.getLast?_concat, Option.getD_some, List.map_map]
  conv => rhs; rw [← List.map_id P]
  apply List.map_congr_left
  intro v _
  simp only [Function.comp, id]
  split <;> split <;> omega

theorem child_inj {P P' : List Int} {c c' : Int} (h : child P c = child P' c') : P = P' ∧ c = c' := by
  constructor
  · rw [← parent_child P c, h, parent_child]
  · have := congrArg List.getLast? h
    simpa [child] using this

theorem child_isPerm (l : Nat) (P : List Int) (c : Nat) (h : IsPerm l P) (hc : c ≤ l) :
    IsPerm (l + 1) (child P (c : Int)) := by
  rw [isPerm_iff] at h ⊢
  obtain ⟨hl, hn, hb⟩ := h
  refine ⟨by simp [child_length, hl], ?_, ?_⟩
  · simp only [child]
    rw [List.nodup_append]
    refine ⟨?_, by simp, ?_⟩
    · refine List.Nodup.map ?_ hn
      intro a b hab
      simp only at hab
      split at hab <;> split at hab <;> omega
    · intro a ha b hb'
      simp only [List.mem_map] at ha
      simp only [List.mem_singleton] at hb'
      obtain ⟨w, _, rfl⟩ := ha
      subst hb'
      split <;> omega
  · intro v hv
    simp only [child, List.mem_append, List.mem_map, List.mem_singleton] at hv
    rcases hv with ⟨w, hw, rfl⟩ | rfl
    · have := hb w hw
      split <;> omega
    · omega

end Iter
namespace Iter
open Spec

/-- prefix of length `l+1` of a duplicate-free list: its standardisation is a child of the standardised
prefix of length `l` -/
theorem std_take_succ (x : List Int) (l : Nat) (hl : l < x.length) (hn : x.Nodup) :
    ∃ c : Nat, c ≤ l ∧ std (x.take (l + 1)) = child (std (x.take l)) (c : Int) := by
  have e : x.take (l + 1) = x.take l ++ [x[l]] := by simp
  have hnd : (x.take (l + 1)).Nodup := hn.sublist (List.take_sublist _ _)
  rw [e] at hnd ⊢
  have ha : x[l] ∉ x.take l := by
    intro hmem
    have := (List.nodup_append.mp hnd).2.2 _ hmem x[l] (by simp)
    exact this rfl
  refine ⟨(x.take l).countP (· < x[l]), ?_, std_snoc _ _ ha⟩
  have := rank_le_length (x.take l) x[l]
  simp only [List.length_take] at this
  omega

theorem mem_patSub (f : List Int → Bool) : ∀ (rem : Nat) (P : List Int) (l : Nat), IsPerm l P →
    ∀ x, x ∈ patSub f P rem ↔
      IsPerm (l + rem) x ∧ std (x.take l) = P ∧ ∀ j, l < j → j ≤ l + rem → f (std (x.take j)) = true
  | 0, P, l, hP => by
    intro x
    have hPl : P.length = l := ((isPerm_iff l P).mp hP).1
    simp only [patSub, List.mem_singleton, Nat.add_zero]
    constructor
    · rintro rfl
      refine ⟨hP, ?_, fun j h1 h2 => by omega⟩
      rw [← hPl, List.take_length, std_of_isPerm l x hP]
    · rintro ⟨hx, hs, _⟩
      have hxl : x.length = l := ((isPerm_iff l x).mp hx).1
      rw [← hxl, List.take_length, std_of_isPerm l x hx] at hs
      exact hs
  | rem + 1, P, l, hP => by
    intro x
    have hPl : P.length = l := ((isPerm_iff l P).mp hP).1
    have earith : l + 1 + rem = l + (rem + 1) := by omega
    simp only [patSub_succ, List.mem_flatMap, List.mem_reverse, List.mem_range, patBlk, hPl]
    constructor
    · rintro ⟨c, hc, hx⟩
      by_cases hf : f (child P (c : Int)) = true
      · simp only [hf, if_true] at hx
        have ih := (mem_patSub f rem (child P (c : Int)) (l + 1) (child_isPerm l P c hP (by omega)) x).mp hx
        obtain ⟨h1, h2, h3⟩ := ih
        rw [earith] at h1 h3
        obtain ⟨hxl, hxn, _⟩ := (isPerm_iff _ x).mp h1
        obtain ⟨c', _, hc'⟩ := std_take_succ x l (by omega) hxn
        have hpar : std (x.take l) = P := by
          rw [hc'] at h2
          exact (child_inj h2).1
        refine ⟨h1, hpar, ?_⟩
        intro j hj1 hj2
        by_cases hj : j = l + 1
        · subst hj; rw [h2]; exact hf
        · exact h3 j (by omega) hj2
      · simp [hf] at hx
    · rintro ⟨h1, h2, h3⟩
      obtain ⟨hxl, hxn, _⟩ := (isPerm_iff _ x).mp h1
      obtain ⟨c, hc, hc'⟩ := std_take_succ x l (by omega) hxn
      rw [h2] at hc'
      have hf : f (child P (c : Int)) = true := by
        rw [← hc']; exact h3 (l + 1) (by omega) (by omega)
      refine ⟨c, by omega, ?_⟩
      simp only [hf, if_true]
      refine (mem_patSub f rem (child P (c : Int)) (l + 1) (child_isPerm l P c hP hc) x).mpr ⟨?_, hc', ?_⟩
      · rw [earith]; exact h1
      · intro j hj1 hj2
        exact h3 j (by omega) (by omega)

theorem isPerm_zero : IsPerm 0 [] := by simp [IsPerm]

/-- **Stage 2 (membership)**: the output consists of the permutations of `0..n-1` all of whose standardised
non-empty prefixes pass `f`. -/
theorem mem_patList (f : List Int → Bool) (n : Nat) (x : List Int) :
    x ∈ patList f n ↔ IsPerm n x ∧ ∀ j, 0 < j → j ≤ n → f (std (x.take j)) = true := by
  have := mem_patSub f n [] 0 isPerm_zero x
  simp only [Nat.zero_add, List.take_zero] at this
  rw [patList, this]
  simp [std]

end Iter
namespace Iter
open Spec

theorem patSub_nodup (f : List Int → Bool) : ∀ (rem : Nat) (P : List Int) (l : Nat), IsPerm l P →
    (patSub f P rem).Nodup
  | 0, P, l, _ => by simp [patSub]
  | rem + 1, P, l, hP => by
    have hPl : P.length = l := ((isPerm_iff l P).mp hP).1
    rw [patSub_succ, List.nodup_flatMap]
    constructor
    · intro c hc
      simp only [List.mem_reverse, List.mem_range, hPl] at hc
      simp only [patBlk]
      split
      · exact patSub_nodup f rem _ (l + 1) (child_isPerm l P c hP (by omega))
      · exact List.nodup_nil
    · have hnd : (List.range (P.length + 1)).reverse.Nodup := List.nodup_reverse.mpr List.nodup_range
      refine hnd.pairwise_of_forall_ne ?_
      intro c hc c' hc' hne
      simp only [List.mem_reverse, List.mem_range, hPl] at hc hc'
      simp only [Function.onFun, patBlk]
      intro x hx hx'
      by_cases h1 : f (child P (c : Int)) = true
      · by_cases h2 : f (child P (c' : Int)) = true
        · simp only [h1, h2, if_true] at hx hx'
          have e1 := ((mem_patSub f rem _ (l + 1) (child_isPerm l P c hP (by omega)) x).mp hx).2.1
          have e2 := ((mem_patSub f rem _ (l + 1) (child_isPerm l P c' hP (by omega)) x).mp hx').2.1
          rw [e1] at e2
          have := (child_inj e2).2
          omega
        · simp [h2] at hx'
      · simp [h1] at hx

/-- **Stage 2 (no repetition)** -/
theorem patList_nodup (f : List Int → Bool) (n : Nat) : (patList f n).Nodup :=
  patSub_nodup f n [] 0 isPerm_zero

end Iter

namespace Iter
open Spec

/-- a child of a permutation is its own standardisation -/
theorem std_child (l : Nat) (P : List Int) (c : Nat) (h : IsPerm l P) (hc : c ≤ l) :
    std (child P (c : Int)) = child P (c : Int) :=
  std_of_isPerm (l + 1) _ (child_isPerm l P c h hc)

/-- the standardised prefix of length `l` of a child of `P` (`P` of length `l`) is `P` -/
theorem std_take_child (l : Nat) (P : List Int) (c : Nat) (h : IsPerm l P) (hc : c ≤ l) :
    std ((child P (c : Int)).take l) = P := by
  have hq := child_isPerm l P c h hc
  obtain ⟨hql, hqn, _⟩ := (isPerm_iff _ _).mp hq
  obtain ⟨c', _, hc'⟩ := std_take_succ (child P (c : Int)) l (by omega) hqn
  rw [List.take_of_length_le (by omega), std_child l P c h hc] at hc'
  exact (child_inj hc').1.symm

/-- every permutation of length `l+1` is a child of the standardisation of its first `l` entries -/
theorem isPerm_succ_eq_child (l : Nat) (x : List Int) (h : IsPerm (l + 1) x) :
    ∃ c : Nat, c ≤ l ∧ x = child (std (x.take l)) (c : Int) := by
  obtain ⟨hxl, hxn, _⟩ := (isPerm_iff _ _).mp h
  obtain ⟨c, hc, hc'⟩ := std_take_succ x l (by omega) hxn
  rw [List.take_of_length_le (by omega), std_of_isPerm _ x h] at hc'
  exact ⟨c, hc, hc'⟩

end Iter
